(* Proofs/CstRangeEMain.v -- C13 ("entity-expanded nodes included") and C18 ("borrowed strings are
   slices of the input, entity-expanded nodes included") on the fragment of Spec/CstEnt.v, EXACTLY:
   for the rendering of every well-formed document of Spec/CstEnt.v whose entities are all
   character data, the range of every node and what every node and attribute stores are those
   computed from the abstract document in Proofs/CstRangeEDefs.v ([espans], [eshapes],
   [eattr_spans]).

   PARTIAL: the theorems assume [etext_only c = true]: every declared entity is character data
   (EText); such entities may be used in content and in attribute values and may refer to each
   other.  Entities with markup (EContent; Proofs/CstEntC*.v) are not covered.

   What the theorems say about nodes that come from entities (this is the behaviour of the model,
   hence of the crate):
   - a text token (a stretch of a run in the body, or the value of an entity) is read piece by
     piece into a buffer; a reference flushes the buffer as ONE fragment -- Owned, appended with
     the range of the token being read -- and then reads the value of the entity as a token of its
     own, whose range is the span of the value INSIDE THE DECLARATION'S LITERAL in the DOCTYPE;
   - a value without '&' and CR is appended as it is: one fragment, Borrowed, the slice of the
     literal in the DOCTYPE -- through any nesting of references that add nothing else;
   - the Text node of a run is appended for the FIRST fragment and keeps its range (the finding
     of CstRangeTMain.v, now with fragments that lie in the DOCTYPE); it is Borrowed iff the run
     has exactly one fragment and that one is Borrowed; a run without any fragment has no node;
   - so an entity used twice yields two nodes with the SAME range, and the range of such a node is
     NOT inside the range of its parent element ([ref_node_anywhere], [twice_same_range]). *)
From Coq Require Import Ascii String.
From Coq Require Import List NArith PeanoNat Bool Lia ZifyBool ZifyN ZifyNat.
Import ListNotations.
From RX Require Import Generated.
From RX.Model Require Import Base CharClass Stream Tokenizer Doc Builder Parse.
From RX.Spec Require Cst CstText CstEnt Detector.
From RX.Spec Require Import Text.
From RX.Proofs Require Import Tactics CstLex CstBuild CstTree CstItems CstDoc CstMain.
From RX.Proofs Require Import CstTextSem CstTextLex CstTextBuild CstTextItems CstTextDoc CstTextMain.
From RX.Proofs Require Import CstEntSem CstEntText CstEntAttr CstEntMeaning CstEntRun CstEntLex CstEntDtd CstEntBuild CstEntInline CstEntItems CstEntDoc CstEntMain.
From RX.Proofs Require Import CstRangeDefs CstRangeBuild CstRangeItems CstRangeDoc CstRangeMain.
From RX.Proofs Require Import CstRangeTDefs CstRangeTBuild CstRangeEDefs CstRangeEText CstRangeEFrags CstRangeEItems CstRangeEDoc.
From RX.Proofs Require RangeInv RangeParse CstEntSanity.
Open Scope N_scope.

(* ---- how a stored node / attribute matches its description (C18) ---- *)
(* [stored_as_e k sh] (this is CstRangeEItems.ekshape): the kind [k] of a stored node holds exactly
   the slices [sh]; a Text node is Borrowed with the given span, or Owned (its bytes are those of
   C07: CstEntMain.parse_render_sem_ent_partial); an element has no namespace *)
Definition stored_as_e (k : node_kind) (sh : eshape) : Prop :=
  match k, sh with
  | KElement ns local _ _, ESElem sp => ns = None /\ (sl_start local, sl_end local) = sp
  | KText (Borrowed (SIn s)), ESText (Some sp) => (sl_start s, sl_end s) = sp
  | KText (Owned _), ESText None => True
  | KComment s, ESComment sp => (sl_start s, sl_end s) = sp
  | KPI t v, ESPI tsp vsp =>
    (sl_start t, sl_end t) = tsp /\
    match v, vsp with
    | Some s, Some sp => (sl_start s, sl_end s) = sp
    | None, None => True
    | _, _ => False
    end
  | _, _ => False
  end.

Lemma stored_as_e_ekshape k sh : ekshape k sh <-> stored_as_e k sh.
Proof. reflexivity. Qed.

(* an attribute: its range, the slice of its name, and its value: Borrowed with the span between
   the quotes, or Owned *)
Definition attr_stored_e (a : attr_data) (sp : easpan) : Prop :=
  ad_range a = eas_range sp /\ (sl_start (ad_local a), sl_end (ad_local a)) = eas_qname sp /\
  match ad_value a with
  | Borrowed (SIn v) => eas_borrowed sp = true /\ (sl_start v, sl_end v) = eas_value sp
  | Owned _ => eas_borrowed sp = false
  | _ => False
  end.

Lemma attr_stored_e_obs a sp : attr_obs a sp <-> attr_stored_e a sp.
Proof. reflexivity. Qed.

(* ------------------------------------------------------------------ *)
(* the run                                                              *)
Lemma parse_observed_e (c : E.doc) (opt : options) d :
  E.wf_doc c = true -> etext_only c = true -> allow_dtd opt = true ->
  N.of_nat (length (E.sem c)) < nodes_limit opt ->
  N.of_nat (length (E.render c)) <= u32_max ->
  parse (E.render c) opt = Ok d ->
  map nd_range (d_nodes d) = (0, tlen (E.render c)) :: espans c /\
  (exists k0, map nd_kind (d_nodes d) = KRoot :: k0 /\ Forall2 ekshape k0 (eshapes c)) /\
  Forall2 attr_obs (d_attrs d) (eattr_spans c).
Proof.
  intros Hwf Het Hdtd Hlim Hsz H. destruct (erender_bounds c Hwf Het) as [B1 B2]. set (text := E.render c) in *.
  destruct (ewf_doc_parts c Hwf) as [_ _ _ _ _ _ _ _ _ (root' & tr & Hroot & Hinl & _ & _) _].
  set (cT := {| T.d_before := map (fun p => (E.misc_item (fst p), snd p)) (E.d_before c)
                               ++ map (fun p => (E.misc_item (snd p), fst p)) (E.d_mid c);
                T.d_ws0 := E.d_ws0 c; T.d_root := root';
                T.d_after := map (fun p => (fst p, E.misc_item (snd p))) (E.d_after c);
                T.d_ws_end := E.d_ws_end c |}) in *.
  assert (Esem : E.sem c = T.sem cT) by (unfold E.sem; rewrite Hinl; reflexivity).
  unfold edoc_nattrs in B2. rewrite Hinl in B2. rewrite Esem in *.
  destruct (eparse_document_ok_r c (init_ctx text opt) cT tr Hwf Het Hinl (init_ctx_CI text opt) eq_refl eq_refl eq_refl)
    as (cf & K & ext & E & Habs & Hattrs & (X1 & X2 & X3)).
  { unfold node_room. rewrite tnsizes_doc. cbn [c_doc init_ctx d_nodes c_opt]. unfold len_N. cbn [length]. unfold u32_max in *. lia. }
  { unfold attr_room. cbn [c_doc init_ctx d_attrs]. unfold len_N. cbn [length]. unfold tdoc_nattrs in B2. unfold u32_max in *. lia. }
  fold text in E. unfold tok_ev in E. rewrite <- Hdtd in E. rewrite (parse_is_doc text opt cf d E H).
  split; [|split].
  - exact X3.
  - exists (map snd K). split; [|exact X1].
    replace (map nd_kind (d_nodes (c_doc cf))) with (map snd (absn (c_doc cf)))
      by (unfold absn; rewrite map_map; apply map_ext; reflexivity).
    rewrite Habs, map_app. reflexivity.
  - rewrite Hattrs. cbn [init_ctx c_doc d_attrs app]. exact X2.
Qed.

(* ------------------------------------------------------------------ *)
(* (1) the ranges of the nodes                                          *)
Theorem parse_render_ranges_e : forall (c : E.doc) (opt : options) d,
  E.wf_doc c = true ->
  etext_only c = true ->                                       (* PARTIAL: every declared entity is character data *)
  allow_dtd opt = true ->
  N.of_nat (length (E.sem c)) < nodes_limit opt ->            (* room for all nodes + the Root *)
  N.of_nat (length (E.render c)) <= u32_max ->                 (* the input is at most u32::MAX bytes long *)
  parse (E.render c) opt = Ok d ->
  (* every node below the Root, in document order: the span of the construct it was read from -- in
     the body, or inside the literal of an entity declaration in the DOCTYPE *)
  map nd_range (tl (d_nodes d)) = espans c /\
  (exists root, nth_N (d_nodes d) 0 = Some root /\ nd_range root = (0, N.of_nat (length (E.render c)))).
Proof.
  intros c opt d Hwf Het Hdtd Hlim Hsz H. destruct (parse_observed_e c opt d Hwf Het Hdtd Hlim Hsz H) as (R & _ & _).
  destruct (d_nodes d) as [|root nodes]; [discriminate|]. cbn [map tl] in *. injection R as R0 R1.
  split; [exact R1|]. exists root. split; [reflexivity|exact R0].
Qed.
Print Assumptions parse_render_ranges_e.

(* ------------------------------------------------------------------ *)
(* (2) what is stored (C18)                                             *)
Theorem parse_render_storage_e : forall (c : E.doc) (opt : options) d,
  E.wf_doc c = true ->
  etext_only c = true ->                                       (* PARTIAL: every declared entity is character data *)
  allow_dtd opt = true ->
  N.of_nat (length (E.sem c)) < nodes_limit opt ->
  N.of_nat (length (E.render c)) <= u32_max ->
  parse (E.render c) opt = Ok d ->
  (* every node holds exactly what [eshapes] says: the slices of its written occurrence; a Text node
     is Borrowed with the span of its only fragment -- a literal or the content of a CDATA section
     in the body, or the literal value of an entity inside the DOCTYPE -- or Owned *)
  Forall2 stored_as_e (map nd_kind (tl (d_nodes d))) (eshapes c) /\
  (* every attribute: its range, the slice of its name; the value is Borrowed with the span between
     the quotes (no '&', TAB, LF, CR), or Owned *)
  Forall2 attr_stored_e (d_attrs d) (eattr_spans c).
Proof.
  intros c opt d Hwf Het Hdtd Hlim Hsz H.
  destruct (parse_observed_e c opt d Hwf Het Hdtd Hlim Hsz H) as (_ & (k0 & Hk & HF) & A).
  split; [|exact A].
  destruct (d_nodes d) as [|root nodes]; [discriminate|]. cbn [map tl] in *. injection Hk as _ Hk.
  rewrite Hk. exact HF.
Qed.
Print Assumptions parse_render_storage_e.

(* ------------------------------------------------------------------ *)
(* what [espans] / [eshapes] say of nodes that come from entities        *)

(* a run that is ONE reference: its node does not depend on where the reference is written *)
Lemma ref_node_anywhere tb n p p' :
  enode_of tb (p, E.IText [E.ERef n]) = enode_of tb (p', E.IText [E.ERef n]).
Proof. reflexivity. Qed.

(* ... it is the node of the value of the entity: *)
(* a non-empty value without '&' and CR: Borrowed, the literal inside the DOCTYPE *)
Lemma ref_node_literal tb n p vs vps :
  vlookup tb n = Some (vs, E.EText vps) -> E.r_epieces vps <> [] -> has_amp_cr (E.r_epieces vps) = false ->
  let vr := (vs, vs + nlen (E.r_epieces vps)) in
  enode_of tb (p, E.IText [E.ERef n]) = [(vr, ESText (Some vr))].
Proof.
  intros Hl Hne Hp vr. unfold enode_of, run_frags. cbn [fst snd rsegs frs_segs E.r_epieces flat_map E.r_epiece].
  change (has_amp_cr _) with true at 1. cbv iota.
  unfold E.max_level. rewrite frs_ps_ref, Hl. cbv zeta. rewrite Hp.
  destruct (E.r_epieces vps) as [|x V] eqn:EV; [congruence|]. rewrite frs_ps_nil. reflexivity.
Qed.

(* the value is itself ONE reference (nothing else): the node is that of the inner entity, whatever the depth *)
Lemma frs_ref_chain fu tb a b0 vs r :
  vlookup tb a = Some (vs, E.EText [E.ERef b0]) ->
  frs_ps (S fu) tb false [E.ERef a] r =
  frs_ps fu tb false [E.ERef b0] (vs, vs + nlen (E.r_epieces [E.ERef b0])).
Proof.
  intros Hl. rewrite frs_ps_ref, Hl. cbv zeta. rewrite frs_ps_nil.
  cbn [E.r_epieces flat_map E.r_epiece app]. change (has_amp_cr _) with true. cbv iota. cbn [app]. rewrite app_nil_r. reflexivity.
Qed.

(* ------------------------------------------------------------------ *)
(* examples (vm_compute): the model, and [espans] / [eshapes]           *)
Module Examples.
Import CstEntSanity.
Import CstEnt.

Definition obs (c : doc) : list ((N * N) * option (option (N * N))) :=
  match parse (render c) opt1 with
  | Ok d => map (fun nd => (nd_range nd,
                            match nd_kind nd with
                            | KText (Borrowed (SIn s)) => Some (Some (sl_start s, sl_end s))
                            | KText (Owned _) => Some None
                            | _ => None
                            end)) (tl (d_nodes d))
  | _ => []
  end.
Definition expd (c : doc) : list ((N * N) * option (option (N * N))) :=
  map (fun x => (fst x, match snd x with ESText b0 => Some b0 | _ => None end)) (enodes c).

(* <!DOCTYPE r [ <!ENTITY e 'xy'>\n]>\n<r>&e;<s>&e;</s></r>: the entity is used twice; both Text nodes
   have the range 26..28 of the literal xy inside the DOCTYPE and are Borrowed with that slice;
   the second one is not inside its parent <s> (40..50) *)
Definition twice : doc := mk [dc "e" 39 (EText [L "xy"])] (el "r" [] [IText [R "e"]; el "s" [] [IText [R "e"]]]).
Example twice_same_range :
  wf_doc twice = true /\
  obs twice = [((34, 54), None); ((26, 28), Some (Some (26, 28))); ((40, 50), None); ((26, 28), Some (Some (26, 28)))] /\
  expd twice = obs twice.
Proof. vm_compute. repeat split; reflexivity. Qed.

(* a&e;b: the reference flushes "a" (Owned, the range 37..42 of the whole token a&e;b), then xy is
   appended (26..28), then "b": three fragments; the node is Owned and has the range of the first *)
Definition mixed : doc := mk [dc "e" 34 (EText [L "xy"])] (el "r" [] [IText [L "a"; R "e"; L "b"]]).
Example mixed_first_fragment :
  wf_doc mixed = true /\ obs mixed = [((34, 46), None); ((37, 42), Some None)] /\ expd mixed = obs mixed /\
  run_frags (evtable mixed) 37 [L "a"; R "e"; L "b"] = [((37, 42), None); ((26, 28), Some (26, 28)); ((37, 42), None)].
Proof. vm_compute. repeat split; reflexivity. Qed.

(* nesting: a -> b -> "lit": Borrowed, the literal of b inside the DOCTYPE *)
Definition nested : doc := mk [dc "a" 34 (EText [R "b"]); dc "b" 34 (EText [L "lit"])] (el "r" [] [IText [R "a"]]).
Example nested_borrowed :
  wf_doc nested = true /\ obs nested = [((53, 63), None); ((44, 47), Some (Some (44, 47)))] /\ expd nested = obs nested.
Proof. vm_compute. repeat split; reflexivity. Qed.

(* an empty entity alone: no Text node at all *)
Definition empty_ent : doc := mk [dc "e" 34 (EText [])] (el "r" [] [IText [R "e"]]).
Example empty_no_node : wf_doc empty_ent = true /\ obs empty_ent = [((32, 42), None)] /\ expd empty_ent = obs empty_ent.
Proof. vm_compute. repeat split; reflexivity. Qed.

(* the value of a is &b;x with b empty: the node has the range of the value of a (26..30), Owned "xz" *)
Definition inner_empty : doc :=
  mk [dc "a" 34 (EText [R "b"; L "x"]); dc "b" 34 (EText [])] (el "r" [] [IText [R "a"; L "z"]]).
Example inner_empty_range :
  wf_doc inner_empty = true /\ obs inner_empty = [((51, 62), None); ((26, 30), Some None)] /\ expd inner_empty = obs inner_empty.
Proof. vm_compute. repeat split; reflexivity. Qed.

(* a value with a reference inside (x&lt;), a CDATA section in the run, the entity twice *)
Definition with_cdata : doc :=
  mk [dc "e" 34 (EText [L "x"; EP (T.PPredef T.Lt)])] (el "r" [] [IText [R "e"; EP (T.PCData (b "cd")); R "e"]]).
Example with_cdata_range :
  wf_doc with_cdata = true /\ obs with_cdata = [((37, 64), None); ((26, 31), Some None)] /\ expd with_cdata = obs with_cdata.
Proof. vm_compute. repeat split; reflexivity. Qed.

(* in an attribute value: Owned; the attribute keeps its own range in the start tag *)
Definition in_attr : doc := mk [dc "e" 34 (EText [L "xy"])] (el "r" [at_ "k" 34 [R "e"]; at_ "m" 39 [L "plain"]] []).
Example in_attr_spans :
  wf_doc in_attr = true /\
  eattr_spans in_attr = [ {| eas_range := (37, 44); eas_qname := (37, 38); eas_value := (40, 43); eas_borrowed := false |};
                          {| eas_range := (45, 54); eas_qname := (45, 46); eas_value := (48, 53); eas_borrowed := true |} ] /\
  match parse (render in_attr) opt1 with
  | Ok d => map (fun a => (ad_range a, (sl_start (ad_local a), sl_end (ad_local a)), ad_value a)) (d_attrs d) =
            [((37, 44), (37, 38), Owned (b "xy")); ((45, 54), (45, 46), Borrowed (SIn {| sl_start := 48; sl_end := 53 |}))]
  | _ => False
  end.
Proof. vm_compute. repeat split; reflexivity. Qed.
End Examples.
