(* Proofs/KeystoneParse.v -- a successfully parsed document is the arena encoding of a
   well-formed ordered tree: the invariant of KeystoneBuilder.v is carried through the
   tokenizer (generic in the callback) up to [parse]. *)
From Coq Require Import List NArith Bool Lia ZifyBool ZifyN ZifyNat.
From RX Require Import Generated.
From RX.Model Require Import Base CharClass Stream Tokenizer Doc Builder Parse.
From RX.Spec Require Import Tree.
From RX.Proofs Require Import Tactics KeystoneEnc KeystoneBuilder.
Import ListNotations.
Open Scope N_scope.

(* inversion of [H : _ = Ok _], as far as it goes *)
Ltac mstep' H :=
  lazymatch type of H with
  | Ok _ = Ok _ => inversion H; subst; clear H
  | _ => mstep H
  end.
Ltac minv H := repeat (progress (mstep' H)).

(* ------------------------------------------------------------------ *)
(** * The tokenizer preserves any predicate that its callback preserves *)

Section Tokenizer.
Variable text : bytes.
Variable C : Type.
Variable ev : Tokenizer.token -> C -> res C.
Variable Q : C -> Prop.
Hypothesis Hev : forall tok c c', Q c -> ev tok c = Ok c' -> Q c'.

(* forward step: turn [He : f .. c = Ok (.., c2)] into [Q c2] with a preservation lemma [L] *)
Ltac fwd1 L := match goal with He : _ = Ok _ |- _ => eapply L in He; [|eassumption] end.

Lemma parse_comment_Q s c s' c' :
  Q c -> parse_comment text C ev s c = Ok (s', c') -> Q c'.
Proof. unfold parse_comment. intros HQ H. minv H. repeat fwd1 Hev. assumption. Qed.

Lemma parse_pi_Q s c s' c' :
  Q c -> parse_pi text C ev s c = Ok (s', c') -> Q c'.
Proof. unfold parse_pi. intros HQ H. minv H. repeat fwd1 Hev. assumption. Qed.

Lemma parse_misc_loop_Q fuel : forall s c s' c',
  Q c -> parse_misc_loop text C ev fuel s c = Ok (s', c') -> Q c'.
Proof.
  induction fuel as [|fu IH]; intros s c s' c' HQ H; cbn [parse_misc_loop] in H; [discriminate|].
  minv H; repeat first [fwd1 parse_comment_Q | fwd1 parse_pi_Q | fwd1 IH]; assumption.
Qed.

Lemma parse_misc_Q s c s' c' :
  Q c -> parse_misc text C ev s c = Ok (s', c') -> Q c'.
Proof. unfold parse_misc. apply parse_misc_loop_Q. Qed.

Lemma parse_entity_decl_Q s c s' c' :
  Q c -> parse_entity_decl text C ev s c = Ok (s', c') -> Q c'.
Proof.
  unfold parse_entity_decl. intros HQ H. minv H.
  minv Hb5; repeat fwd1 Hev; assumption.
Qed.

Lemma parse_doctype_loop_Q fuel : forall start s c s' c',
  Q c -> parse_doctype_loop text C ev fuel start s c = Ok (s', c') -> Q c'.
Proof.
  induction fuel as [|fu IH]; intros start s c s' c' HQ H; cbn [parse_doctype_loop] in H;
    [discriminate|].
  minv H;
    repeat first [fwd1 parse_comment_Q | fwd1 parse_pi_Q | fwd1 parse_entity_decl_Q | fwd1 IH];
    assumption.
Qed.

Lemma parse_doctype_Q s c s' c' :
  Q c -> parse_doctype text C ev s c = Ok (s', c') -> Q c'.
Proof.
  unfold parse_doctype. intros HQ H. minv H; repeat fwd1 parse_doctype_loop_Q; assumption.
Qed.

Lemma parse_element_loop_Q fuel : forall ts s c o s' c',
  Q c -> parse_element_loop text C ev fuel ts s c = Ok (o, s', c') -> Q c'.
Proof.
  induction fuel as [|fu IH]; intros ts s c o s' c' HQ H; cbn [parse_element_loop] in H;
    [discriminate|].
  minv H; repeat first [fwd1 Hev | fwd1 IH]; assumption.
Qed.

Lemma parse_element_Q s c o s' c' :
  Q c -> parse_element text C ev s c = Ok (o, s', c') -> Q c'.
Proof.
  unfold parse_element. intros HQ H. minv H.
  repeat first [fwd1 Hev | fwd1 parse_element_loop_Q]; assumption.
Qed.

Lemma parse_cdata_Q s c s' c' :
  Q c -> parse_cdata text C ev s c = Ok (s', c') -> Q c'.
Proof. unfold parse_cdata. intros HQ H. minv H. repeat fwd1 Hev. assumption. Qed.

Lemma parse_close_element_Q s c s' c' :
  Q c -> parse_close_element text C ev s c = Ok (s', c') -> Q c'.
Proof. unfold parse_close_element. intros HQ H. minv H. repeat fwd1 Hev. assumption. Qed.

Lemma parse_text_Q s c s' c' :
  Q c -> parse_text text C ev s c = Ok (s', c') -> Q c'.
Proof. unfold parse_text. intros HQ H. minv H. repeat fwd1 Hev. assumption. Qed.

Lemma parse_content_loop_Q fuel : forall depth s c s' c',
  Q c -> parse_content_loop text C ev fuel depth s c = Ok (s', c') -> Q c'.
Proof.
  induction fuel as [|fu IH]; intros depth s c s' c' HQ H; cbn [parse_content_loop] in H;
    [discriminate|].
  minv H;
    repeat first [fwd1 parse_comment_Q | fwd1 parse_pi_Q | fwd1 parse_cdata_Q
                 | fwd1 parse_close_element_Q | fwd1 parse_element_Q | fwd1 parse_text_Q
                 | fwd1 IH];
    assumption.
Qed.

Lemma parse_content_Q s c s' c' :
  Q c -> parse_content text C ev s c = Ok (s', c') -> Q c'.
Proof. unfold parse_content. apply parse_content_loop_Q. Qed.

Lemma parse_document_Q dtd c c' :
  Q c -> parse_document text C ev dtd c = Ok c' -> Q c'.
Proof.
  unfold parse_document. intros HQ H.
  mbind H s1 Hs1. mbind H s2 Hs2. mbind H sc3 H3. destruct sc3 as [s3 c3].
  apply parse_misc_Q in H3; [|assumption].
  mbind H sc4 H4. destruct sc4 as [s4 c4].
  assert (Q4 : Q c4).
  { minv H4; repeat first [fwd1 parse_doctype_Q | fwd1 parse_misc_Q]; assumption. }
  mbind H sc5 H5. destruct sc5 as [s5 c5].
  assert (Q5 : Q c5).
  { minv H5; repeat first [fwd1 parse_element_Q | fwd1 parse_content_Q]; assumption. }
  minv H. repeat fwd1 parse_misc_Q. assumption.
Qed.
End Tokenizer.

(* ------------------------------------------------------------------ *)
(** * The callback of the builder preserves the invariant *)

Section Builder.
Variable text : bytes.

Lemma token_with_P ptext :
  (forall t r c c', P c -> ptext t r c = Ok c' -> P c') ->
  forall tk c c', P c -> token_with text ptext tk c = Ok c' -> P c'.
Proof.
  intros Hpt tk c c' HP H. destruct tk; cbn [token_with] in H.
  - (* PI *)
    mbind H c1 H1. apply reset_after_text_same in H1. mbind H ic H2. destruct ic as [id c2].
    injection H as <-. eapply P_append_leaf; [eapply P_same; eassumption|exact H2|reflexivity|discriminate].
  - (* comment *)
    mbind H c1 H1. apply reset_after_text_same in H1. mbind H ic H2. destruct ic as [id c2].
    injection H as <-. eapply P_append_leaf; [eapply P_same; eassumption|exact H2|reflexivity|discriminate].
  - (* entity declaration *)
    injection H as <-. eapply P_same; [exact HP|repeat split].
  - (* element start *)
    mbind H c1 H1. apply reset_after_text_same in H1. mstep H; [mstep H|]. injection H as <-.
    eapply P_same; [eapply P_same; eassumption|repeat split].
  - (* attribute *)
    apply process_attribute_same in H. eapply P_same; eassumption.
  - (* element end *)
    mbind H c1 H1. apply reset_after_text_same in H1.
    eapply process_element_P; [|exact H]. eapply P_same; eassumption.
  - (* text *)
    eapply Hpt; eassumption.
  - (* cdata *)
    eapply process_cdata_P; eassumption.
Qed.

Lemma process_text_with_P pc :
  (forall s c s' c', P c -> pc s c = Ok (s', c') -> P c') ->
  forall t r c c', P c -> process_text_with text pc t r c = Ok c' -> P c'.
Proof.
  intros Hpc t r c c' HP H. unfold process_text_with in H.
  destruct (negb _); [eapply append_text_P; eassumption|].
  mbind H s0 Hs0.
  match type of H with bind ?x _ = _ => destruct x as [[buf c1]|e|p|] eqn:Hloop; try discriminate end.
  cbn [bind] in H.
  assert (HP1 : P c1).
  { clear H.
    match type of Hloop with context [?f (length (s_rest s0))] =>
      assert (Hgen : forall fuel s b0 c, P c -> forall b1 c1, f fuel s b0 c = Ok (b1, c1) -> P c1);
      [|apply (Hgen (S (length (s_rest s0))) s0 tb_new c HP buf c1); exact Hloop]
    end.
    clear - Hpc. intros fuel. induction fuel as [|fu IH]; intros s b0 c HP b1 c1 H;
      cbv beta match fix in H; [discriminate|].
    mstep H; [injection H as <- <-; exact HP|].
    mbind H chs Hch. destruct chs as [ch s1]. destruct ch as [x|cp|value].
    - eapply IH; eassumption.
    - eapply IH; eassumption.
    - mbind H c2 H2.
      assert (HP2 : P c2).
      { destruct (negb (tb_is_empty b0)).
        - mbind H2 bs Hbs. eapply append_text_P; eassumption.
        - injection H2 as <-. exact HP. }
      mbind H ld1 Hld1. mbind H ld2 Hld2. mbind H es Hes. mbind H sc3 H3. destruct sc3 as [s3 c3].
      apply Hpc in H3; [|eapply P_same; [exact HP2|repeat split]].
      mstep H; [discriminate|].
      eapply IH; [|exact H]. eapply P_same; [exact H3|repeat split]. }
  destruct (negb (tb_is_empty buf)).
  - mbind H bs Hbs. eapply append_text_P; eassumption.
  - injection H as <-. exact HP1.
Qed.

Lemma parse_content_lvl_P lvl : forall s c s' c',
  P c -> parse_content_lvl text lvl s c = Ok (s', c') -> P c'.
Proof.
  induction lvl as [|lvl IH]; intros s c s' c' HP H; cbn [parse_content_lvl] in H; [discriminate|].
  eapply (parse_content_Q text context _ P); [|exact HP|exact H].
  apply token_with_P. apply process_text_with_P. exact IH.
Qed.

Lemma token_P tk c c' : P c -> token text tk c = Ok c' -> P c'.
Proof.
  unfold token, process_text. apply token_with_P. apply process_text_with_P.
  apply parse_content_lvl_P.
Qed.
End Builder.

(* ------------------------------------------------------------------ *)
(** * The children of the root, as the iterator of Doc.v sees them *)

Lemma node_unwrap_ok d x y : node_unwrap d x = Ok y -> y = x.
Proof. unfold node_unwrap. destruct (get_node d x); [|discriminate]. intros H. injection H as <-. reflexivity. Qed.

Section RootChildren.
Variable d : document.
Variable cs : list tree.
Hypothesis Hrows : links_of_nodes (d_nodes d) = encode (T KdRoot cs).

Definition child_pos (cid : N) : Prop :=
  exists cs1 c cs2, cs = cs1 ++ c :: cs2 /\ cid = 1 + sizes cs1.

Definition good_front (o : option N) : Prop :=
  match o with None => True | Some cid => child_pos cid end.

Lemma root_rows :
  links_of_nodes (d_nodes d) =
  row_of (1 + sizes cs) None None 0 KdRoot cs :: enc_children (1 + sizes cs) (Some 0) None 1 cs.
Proof. rewrite Hrows. unfold encode. rewrite size_T, enc_T. reflexivity. Qed.

Lemma child_row cs1 kc ccs cs2 nd :
  cs = cs1 ++ T kc ccs :: cs2 ->
  get_node d (1 + sizes cs1) = Some nd ->
  link_of nd = row_of (1 + sizes cs) (Some 0) (prev_after None 1 cs1) (1 + sizes cs1) kc ccs.
Proof.
  intros Hcs Hn. unfold get_node in Hn. apply nth_N_Some in Hn. destruct Hn as [Hn _].
  apply (map_nth_error link_of) in Hn. rewrite <- links_of_nodes_map, root_rows in Hn.
  remember (1 + sizes cs) as n eqn:En.
  rewrite Hcs in Hn. rewrite enc_children_app, enc_children_cons, enc_T in Hn.
  cbn [app] in Hn. rewrite app_comm_cons in Hn.
  rewrite nth_error_mid in Hn by (rewrite len_N_cons, enc_children_len; reflexivity).
  congruence.
Qed.

Lemma count_elem_child cs1 ccs cs2 :
  cs = cs1 ++ T KdElem ccs :: cs2 -> (1 <= count_kind KdElem cs)%nat.
Proof.
  intros ->. unfold count_kind. rewrite filter_app, app_length. cbn [filter tkind kind_eqb length]. lia.
Qed.

Lemma next_sibling_good n nx :
  child_pos n -> next_sibling d n = Ok nx -> good_front nx.
Proof.
  intros [cs1 [c [cs2 [Hcs ->]]]] H. destruct c as [kc ccs].
  unfold next_sibling in H. mbind H nd Hnd.
  unfold node_data_of in Hnd. destruct (get_node d (1 + sizes cs1)) as [nd'|] eqn:Eg; [|discriminate].
  injection Hnd as ->.
  pose proof (child_row _ _ _ _ _ Hcs Eg) as Hrow.
  assert (Hnext : nd_next_subtree nd = l_next_subtree (link_of nd)) by reflexivity.
  rewrite Hrow in Hnext. unfold row_of in Hnext. cbn [l_next_subtree] in Hnext.
  rewrite Hnext in H.
  destruct (1 + sizes cs1 + (1 + sizes ccs) <? 1 + sizes cs) eqn:E.
  2:{ injection H as <-. exact I. }
  mbind H nid Hnid. mbind H nnd Hnnd.
  apply node_unwrap_ok in Hnid. subst nid.
  destruct (nd_prev_sibling nnd); [|discriminate].
  destruct (_ =? _); injection H as <-; [|exact I].
  cbn [good_front]. rewrite Hcs in E. rewrite sizes_app, sizes_cons, size_T in E.
  destruct cs2 as [|c2 cs2']; [rewrite sizes_nil in E; lia|].
  exists (cs1 ++ [T kc ccs]), c2, cs2'. split.
  - rewrite Hcs, <- app_assoc. reflexivity.
  - rewrite sizes_app, sizes_cons, sizes_nil, size_T. lia.
Qed.

Lemma children_next_good it o it' :
  good_front (ch_front it) -> children_next d it = Ok (o, it') ->
  o = ch_front it /\ good_front (ch_front it').
Proof.
  intros Hg H. unfold children_next in H.
  destruct (opt_N_eqb _ _).
  - injection H as <- <-. split; [reflexivity|exact I].
  - destruct (ch_front it) as [n|] eqn:Ef.
    + mbind H nx Hnx. injection H as <- <-. split; [reflexivity|].
      cbn [ch_front]. eapply next_sibling_good; eassumption.
    + injection H as <- <-. split; [reflexivity|exact I].
Qed.

Lemma children_any_element_count fuel : forall it,
  good_front (ch_front it) -> children_any_element fuel d it = Ok true ->
  (1 <= count_kind KdElem cs)%nat.
Proof.
  induction fuel as [|fu IH]; intros it Hg H; cbn [children_any_element] in H; [discriminate|].
  mbind H oi Hn. destruct oi as [o it'].
  destruct (children_next_good _ _ _ Hg Hn) as [-> Hg'].
  destruct (ch_front it) as [n|] eqn:Ef; [|discriminate].
  mbind H e He. destruct e; [|eapply IH; eassumption].
  cbn [good_front] in Hg. destruct Hg as [cs1 [c [cs2 [Hcs ->]]]]. destruct c as [kc ccs].
  unfold node_is_element in He. mbind He nd Hnd.
  unfold node_data_of in Hnd. destruct (get_node d (1 + sizes cs1)) as [nd'|] eqn:Eg; [|discriminate].
  injection Hnd as ->. injection He as He.
  pose proof (child_row _ _ _ _ _ Hcs Eg) as Hrow.
  assert (Hk : kind_of (nd_kind nd) = l_kind (link_of nd)) by reflexivity.
  rewrite Hrow in Hk. unfold row_of in Hk. cbn [l_kind] in Hk.
  destruct (nd_kind nd); try discriminate. cbn [kind_of] in Hk. subst kc.
  eapply count_elem_child. exact Hcs.
Qed.

Lemma children_good it : children d 0 = Ok it -> good_front (ch_front it).
Proof.
  unfold children. intros H. mbind H f Hf. mbind H l Hl. injection H as <-. cbn [ch_front].
  unfold first_child in Hf. mbind Hf nd Hnd.
  unfold node_data_of in Hnd. destruct (get_node d 0) as [nd'|] eqn:Eg; [|discriminate].
  injection Hnd as ->.
  destruct (nd_last_child nd) eqn:El.
  2:{ injection Hf as <-. exact I. }
  mbind Hf cid Hcid. mbind Hf cid' Hcid'. injection Hf as <-.
  unfold node_id_new in Hcid. destruct (u32_max <=? 0 + 1); [discriminate|]. injection Hcid as <-.
  apply node_unwrap_ok in Hcid'. subst cid'.
  cbn [good_front].
  unfold get_node in Eg. apply nth_N_Some in Eg. destruct Eg as [Eg _].
  apply (map_nth_error link_of) in Eg. rewrite <- links_of_nodes_map, root_rows in Eg.
  cbn [N.to_nat nth_error] in Eg.
  match type of Eg with Some ?r = Some _ => assert (E2 : link_of nd = r) by congruence end.
  assert (Hl' : nd_last_child nd = l_last (link_of nd)) by reflexivity.
  rewrite E2 in Hl'. unfold row_of in Hl'. cbn [l_last] in Hl'.
  unfold child_pos. destruct cs as [|c cs2] eqn:Ecs.
  - cbn [last_child_id] in Hl'. congruence.
  - exists [], c, cs2. split; [reflexivity|]. rewrite sizes_nil. lia.
Qed.
End RootChildren.

(* ------------------------------------------------------------------ *)
(** * parse *)

Lemma init_context_Inv text opt c :
  init_context text opt = Ok c -> Inv KdRoot [] [] c.
Proof.
  unfold init_context. intros H. mbind H d Hd. injection H as <-.
  apply push_ns_nodes in Hd. cbn [d_nodes] in Hd.
  constructor; cbn [c_doc c_parent_id c_awaiting c_parent_prefixes]; try reflexivity.
  rewrite Hd. reflexivity.
Qed.

Lemma closed_ok_forall cs :
  forallb closed_ok cs = true ->
  forallb (fun c => negb (kind_eqb (tkind c) KdRoot) && no_root_below c) cs = true /\
  forallb only_containers_have_children cs = true.
Proof.
  intros H. split; rewrite forallb_forall in *; intros x Hx; specialize (H x Hx);
    unfold closed_ok in H; apply andb_true_iff in H; destruct H as [H1 H2]; assumption.
Qed.

Theorem parse_links_tree : forall (text : bytes) (opt : options) (d : document),
  parse text opt = Ok d ->
  exists t : tree,
    links_of_nodes (d_nodes d) = encode t /\
    tkind t = KdRoot /\
    no_root_below t = true /\
    only_containers_have_children t = true /\
    (1 <= count_kind KdElem (tchildren t))%nat.
Proof.
  intros text opt d H. unfold parse in H.
  mbind H c0 H0. apply init_context_Inv in H0.
  mbind H c Hc.
  assert (HP : P c).
  { eapply (parse_document_Q text context (token text) P); [|exists KdRoot, [], []; exact H0|exact Hc].
    intros tok x x'. apply token_P. }
  destruct HP as [k [cs [outer HI]]].
  mbind H it Hit. mbind H he Hhe.
  destruct he; cbn [negb] in H; [|discriminate].
  destruct (1 <? len_N (c_parent_prefixes c)) eqn:Epp; [discriminate|].
  injection H as <-.
  assert (Ho : outer = []).
  { pose proof (inv_pp _ _ _ _ HI) as Hpp. unfold len_N in Epp. destruct outer; [reflexivity|].
    cbn [length] in Hpp. lia. }
  subst outer. pose proof (inv_kinds _ _ _ _ HI) as Hk. cbn [kinds_ok] in Hk. subst k.
  pose proof (inv_rows _ _ _ _ HI) as Hrows. unfold ztree in Hrows. cbn [plug] in Hrows.
  destruct (closed_ok_forall _ (inv_cs _ _ _ _ HI)) as [Hc1 Hc2].
  exists (T KdRoot cs). repeat split.
  - exact Hrows.
  - cbn [no_root_below]. exact Hc1.
  - cbn [only_containers_have_children is_container orb andb]. exact Hc2.
  - cbn [tchildren].
    eapply (children_any_element_count (c_doc c) cs Hrows); [|exact Hhe].
    eapply children_good; eassumption.
Qed.

Print Assumptions parse_links_tree.
