(* Proofs/KeystoneParse.v -- a successfully parsed document is the arena encoding of a
   well-formed ordered tree: the invariant of KeystoneBuilder.v is carried through the
   tokenizer (generic in the callback) up to [parse]. *)
From Coq Require Import List NArith Bool Lia ZifyBool ZifyN ZifyNat.
From RX Require Import Generated.
From RX.Model Require Import Base CharClass Stream Tokenizer Doc Builder Parse.
From RX.Spec Require Import Tree.
From RX.Proofs Require Import Tactics KeystoneEnc KeystoneBuilder.
Import ListNotations.
Open Scope N_scope.

(* inversion of [H : _ = Ok _], as far as it goes *)
Ltac mstep' H :=
  lazymatch type of H with
  | Ok _ = Ok _ => inversion H; subst; clear H
  | _ => mstep H
  end.
Ltac minv H := repeat (progress (mstep' H)).

(* ------------------------------------------------------------------ *)
(** * The tokenizer preserves any predicate that its callback preserves *)

Section Tokenizer.
Variable text : bytes.
Variable C : Type.
Variable ev : Tokenizer.token -> C -> res C.
Variable Q : C -> Prop.
Hypothesis Hev : forall tok c c', Q c -> ev tok c = Ok c' -> Q c'.

(* forward step: turn [He : f .. c = Ok (.., c2)] into [Q c2] with a preservation lemma [L] *)
Ltac fwd1 L := match goal with He : _ = Ok _ |- _ => eapply L in He; [|eassumption] end.

Lemma parse_comment_Q s c s' c' :
  Q c -> parse_comment text C ev s c = Ok (s', c') -> Q c'.
Proof. unfold parse_comment. intros HQ H. minv H. repeat fwd1 Hev. assumption. Qed.

Lemma parse_pi_Q s c s' c' :
  Q c -> parse_pi text C ev s c = Ok (s', c') -> Q c'.
Proof. unfold parse_pi. intros HQ H. minv H. repeat fwd1 Hev. assumption. Qed.

Lemma parse_misc_loop_Q fuel : forall s c s' c',
  Q c -> parse_misc_loop text C ev fuel s c = Ok (s', c') -> Q c'.
Proof.
  induction fuel as [|fu IH]; intros s c s' c' HQ H; cbn [parse_misc_loop] in H; [discriminate|].
  minv H; repeat first [fwd1 parse_comment_Q | fwd1 parse_pi_Q | fwd1 IH]; assumption.
Qed.

Lemma parse_misc_Q s c s' c' :
  Q c -> parse_misc text C ev s c = Ok (s', c') -> Q c'.
Proof. unfold parse_misc. apply parse_misc_loop_Q. Qed.

Lemma parse_entity_decl_Q s c s' c' :
  Q c -> parse_entity_decl text C ev s c = Ok (s', c') -> Q c'.
Proof.
  unfold parse_entity_decl. intros HQ H. minv H.
  minv Hb5; repeat fwd1 Hev; assumption.
Qed.

Lemma parse_doctype_loop_Q fuel : forall start s c s' c',
  Q c -> parse_doctype_loop text C ev fuel start s c = Ok (s', c') -> Q c'.
Proof.
  induction fuel as [|fu IH]; intros start s c s' c' HQ H; cbn [parse_doctype_loop] in H;
    [discriminate|].
  minv H;
    repeat first [fwd1 parse_comment_Q | fwd1 parse_pi_Q | fwd1 parse_entity_decl_Q | fwd1 IH];
    assumption.
Qed.

Lemma parse_doctype_Q s c s' c' :
  Q c -> parse_doctype text C ev s c = Ok (s', c') -> Q c'.
Proof.
  unfold parse_doctype. intros HQ H. minv H; repeat fwd1 parse_doctype_loop_Q; assumption.
Qed.

Lemma parse_element_loop_Q fuel : forall ts s c o s' c',
  Q c -> parse_element_loop text C ev fuel ts s c = Ok (o, s', c') -> Q c'.
Proof.
  induction fuel as [|fu IH]; intros ts s c o s' c' HQ H; cbn [parse_element_loop] in H;
    [discriminate|].
  minv H; repeat first [fwd1 Hev | fwd1 IH]; assumption.
Qed.

Lemma parse_element_Q s c o s' c' :
  Q c -> parse_element text C ev s c = Ok (o, s', c') -> Q c'.
Proof.
  unfold parse_element. intros HQ H. minv H.
  repeat first [fwd1 Hev | fwd1 parse_element_loop_Q]; assumption.
Qed.

Lemma parse_cdata_Q s c s' c' :
  Q c -> parse_cdata text C ev s c = Ok (s', c') -> Q c'.
Proof. unfold parse_cdata. intros HQ H. minv H. repeat fwd1 Hev. assumption. Qed.

Lemma parse_close_element_Q s c s' c' :
  Q c -> parse_close_element text C ev s c = Ok (s', c') -> Q c'.
Proof. unfold parse_close_element. intros HQ H. minv H. repeat fwd1 Hev. assumption. Qed.

Lemma parse_text_Q s c s' c' :
  Q c -> parse_text text C ev s c = Ok (s', c') -> Q c'.
Proof. unfold parse_text. intros HQ H. minv H. repeat fwd1 Hev. assumption. Qed.

Lemma parse_content_loop_Q fuel : forall depth s c s' c',
  Q c -> parse_content_loop text C ev fuel depth s c = Ok (s', c') -> Q c'.
Proof.
  induction fuel as [|fu IH]; intros depth s c s' c' HQ H; cbn [parse_content_loop] in H;
    [discriminate|].
  minv H;
    repeat first [fwd1 parse_comment_Q | fwd1 parse_pi_Q | fwd1 parse_cdata_Q
                 | fwd1 parse_close_element_Q | fwd1 parse_element_Q | fwd1 parse_text_Q
                 | fwd1 IH];
    assumption.
Qed.

Lemma parse_content_Q s c s' c' :
  Q c -> parse_content text C ev s c = Ok (s', c') -> Q c'.
Proof. unfold parse_content. apply parse_content_loop_Q. Qed.

Lemma parse_document_Q dtd c c' :
  Q c -> parse_document text C ev dtd c = Ok c' -> Q c'.
Proof.
  unfold parse_document. intros HQ H.
  mbind H s1 Hs1. mbind H s2 Hs2. mbind H sc3 H3. destruct sc3 as [s3 c3].
  apply parse_misc_Q in H3; [|assumption].
  mbind H sc4 H4. destruct sc4 as [s4 c4].
  assert (Q4 : Q c4).
  { minv H4; repeat first [fwd1 parse_doctype_Q | fwd1 parse_misc_Q]; assumption. }
  mbind H sc5 H5. destruct sc5 as [s5 c5].
  assert (Q5 : Q c5).
  { minv H5; repeat first [fwd1 parse_element_Q | fwd1 parse_content_Q]; assumption. }
  minv H. repeat fwd1 parse_misc_Q. assumption.
Qed.
End Tokenizer.
