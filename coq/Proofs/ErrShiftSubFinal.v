(* Proofs/ErrShiftSubFinal.v -- C14 (whitespace inserted INSIDE the internal subset of the
   DOCTYPE), part 8: the theorems.

   text = pre ++ post, text' = pre ++ ws ++ post, ws whitespace, post valid UTF-8 and not empty, and
   pre ends at a head of the loop of the internal subset: after doc_start, the first parse_misc,
   the DOCTYPE up to and including its '[' and n rounds of the loop of the subset (each of which
   finds a declaration, a comment or a processing instruction), the loop stands at a position
   Q <= blen pre, and pre has only whitespace from Q on.  Entities declared before the point keep
   their values (below blen pre); entities declared behind it have their values moved by |ws|. *)
From Coq Require Import Ascii String.
From Coq Require Import List Arith NArith Bool Lia ZifyBool ZifyN ZifyNat.
Import ListNotations.
From RX Require Import Generated.
From RX.Model Require Import Base CharClass Stream Tokenizer Doc Builder Parse.
From RX.Proofs Require Import Tactics NoPanicUtf8 PositionProofs
  RangeShiftBase RangeShiftTokenizer RangeShiftBuilder
  ErrShiftBase ErrShiftFinal
  ErrShiftMidFrame ErrShiftMidCont ErrShiftMidPos ErrShiftMidCore ErrShiftMidLocal ErrShiftMidProlog
  ErrShiftMidFinal
  ErrShiftDtdLocal ErrShiftDtdCont ErrShiftDtdCore ErrShiftDtdProlog ErrShiftDtdFinal
  ErrShiftEntSide ErrShiftEntProlog ErrShiftEntFinal
  ErrShiftSubCont ErrShiftSubLocal ErrShiftSubProlog
  ErrShiftSubBase ErrShiftSubStream ErrShiftSubTok ErrShiftSubBuild ErrShiftSubDoc ErrShiftSubSideSim ErrShiftSubCore.
Open Scope N_scope.

(* ---- parse as [cont3] from the head ---- *)
Lemma sub_parse_eq text opt n ci s2 s3 c3 start s4 sQ cQ fu :
  init_context text opt = Ok ci -> doc_start text = Ok s2 ->
  parse_misc text context (Parse.token text) s2 ci = Ok (s3, c3) ->
  starts_with (skip_spaces s3) (b "<!DOCTYPE") = true -> allow_dtd opt = true ->
  sub_open text (skip_spaces s3) = Some (start, s4) ->
  dtd_steps text context (Parse.token text) n s4 c3 = Some (sQ, cQ) ->
  length (s_rest s4) = (n + fu)%nat ->
  parse text opt = (let! c := cont3 text context (Parse.token text) (S fu) start sQ cQ in post c).
Proof.
  intros Ei Es Hm Hsw Hd Hop Hst Hlen. rewrite parse_eq, Ei. cbn [bind]. rewrite Hd.
  rewrite (parse_document_sub text context (Parse.token text) ci s2 s3 c3 start s4 Es Hm Hsw Hop).
  rewrite Hlen. replace (S (n + fu)) with (n + S fu)%nat by lia. unfold cont3 at 1.
  rewrite (dtd_steps_loop _ _ _ _ _ _ _ _ Hst). reflexivity.
Qed.

Lemma sub_fuel text opt n ci s2 s3 c3 start s4 sQ cQ :
  init_context text opt = Ok ci -> doc_start text = Ok s2 ->
  parse_misc text context (Parse.token text) s2 ci = Ok (s3, c3) ->
  starts_with (skip_spaces s3) (b "<!DOCTYPE") = true -> allow_dtd opt = true ->
  sub_open text (skip_spaces s3) = Some (start, s4) ->
  dtd_steps text context (Parse.token text) n s4 c3 = Some (sQ, cQ) ->
  parse text opt <> OutOfFuel -> (n <= length (s_rest s4))%nat.
Proof.
  intros Ei Es Hm Hsw Hd Hop Hst Hne.
  destruct (Nat.le_gt_cases n (length (s_rest s4))) as [|Hgt]; [assumption|]. exfalso. apply Hne.
  rewrite parse_eq, Ei. cbn [bind]. rewrite Hd.
  rewrite (parse_document_sub text context (Parse.token text) ci s2 s3 c3 start s4 Es Hm Hsw Hop).
  unfold cont3. rewrite (dtd_steps_fuel _ _ _ _ _ _ _ _ Hst) by lia. reflexivity.
Qed.

Lemma sub_main pre ws post opt n start sQ cQ (Hws : forallb byte_is_space ws = true) (Hv : valid_utf8_b post = true) :
  ws <> [] -> post <> [] ->
  subset_state (pre ++ post) opt n = Some (start, sQ, cQ) -> s_pos sQ <= blen pre ->
  forallb byte_is_space (skipn (N.to_nat (s_pos sQ)) pre) = true ->
  let St := {| st_pre := pre; st_ws := ws; st_post := post; st_Hws := Hws; st_Hv := Hv |} in
  (forall e, parse (pre ++ post) opt = Err e ->
     exists e', parse (pre ++ ws ++ post) opt = Err e' /\ ER St e e') /\
  (forall d, parse (pre ++ post) opt = Ok d ->
     exists cU, d = pd (olds_of cQ) (c_doc cU) /\
       Forall (fun o => ntext (fst o)) (olds_of cQ) /\ Forall (old_below (blen pre) (blen ws)) (olds_of cQ) /\
       parse (pre ++ ws ++ post) opt = Ok (pd (olds_of cQ) (x_doc (blen pre) (blen ws) (c_doc cU))) /\
       mid_doc (blen pre) (blen ws) (c_doc cU) = x_doc (blen pre) (blen ws) (c_doc cU)).
Proof.
  intros Hne Hpost Hst HQ HW St.
  set (X2 := ws ++ post).
  assert (HX1 : head_ok post) by (apply valid_head_ok; exact Hv).
  assert (HX2 : exists w r, X2 = w :: r /\ byte_is_space w = true).
  { unfold X2. destruct ws as [|w ws']; [congruence|]. exists w, (ws' ++ post). split; [reflexivity|].
    pose proof Hws as Hw'. cbn [forallb] in Hw'. apply andb_true_iff in Hw'. tauto. }
  assert (HL : blen post <= blen X2) by (unfold X2, blen; rewrite app_length; lia).
  assert (HPlt : blen pre < tlen (pre ++ post)).
  { unfold tlen, blen. rewrite app_length. destruct post; [congruence|]. cbn [length]. lia. }
  pose proof Hst as Hst0.
  unfold subset_state in Hst.
  destruct (init_context (pre ++ post) opt) as [ci| | |] eqn:Ei; try discriminate.
  destruct (doc_start (pre ++ post)) as [s2| | |] eqn:Es; try discriminate.
  destruct (parse_misc (pre ++ post) context (Parse.token (pre ++ post)) s2 ci) as [[s3 c3]| | |] eqn:Hm; try discriminate.
  cbv zeta in Hst. cbn [fst snd] in Hst.
  destruct (starts_with (skip_spaces s3) (b "<!DOCTYPE")) eqn:Hsw; [|discriminate].
  destruct (allow_dtd opt) eqn:Hd; [|discriminate]. cbn [andb] in Hst.
  destruct (sub_open (pre ++ post) (skip_spaces s3)) as [[st0 s4]|] eqn:Hop; [|discriminate].
  destruct (dtd_steps (pre ++ post) context (Parse.token (pre ++ post)) n s4 c3) as [[sQ0 cQ0']|] eqn:Hds0; [|discriminate].
  injection Hst as -> -> ->.
  (* positions *)
  destruct (doc_start_loc pre post X2 HX1 HX2 HL s2 Es) as (p2 & -> & Lp2 & Hds).
  pose proof Hm as Hm0. unfold parse_misc in Hm.
  destruct (sub_positions pre post X2 HX1 HX2 HL context (Parse.token (pre ++ post)) _ p2 ci s3 c3 start s4 n sQ cQ Lp2 Hm Hop Hds0)
    as (p3 & p3' & p4 & Q & -> & Esk & -> & -> & -> & I0 & I1 & I1' & I2 & I3 & I3').
  rewrite Esk in Hsw, Hop. cbn [cs s_pos] in HQ, HW.
  assert (HP0 : 0 < blen pre) by lia.
  assert (Hstart : p3' < blen pre) by lia.
  pose proof (sub_entities (pre ++ post) opt n _ _ cQ Hst0) as [HE0 HF0]. cbn [cs s_pos] in HE0.
  assert (Hent : Forall (OKlo (blen pre)) (c_entities cQ)).
  { eapply Forall_impl; [|exact HE0]. intros e (Y1 & Y2 & Y3 & Y4). unfold OKlo. lia. }
  (* the run on the second text *)
  set (R := fun (q : N) (c1 c2 : context) => PS0 (pre ++ post) q c1 /\ c2 = rr (tlen (pre ++ X2)) c1).
  assert (Rmono : forall q q' c1 c2, q <= q' -> R q c1 c2 -> R q' c1 c2).
  { intros q q' c1 c2 Hq [H1 H2]. split; [eapply PS0_mono; eassumption|exact H2]. }
  assert (Htok : forall a e tok c1 c2 c1' q, q <= a -> tok_in2 a e tok -> R q c1 c2 ->
            Parse.token (pre ++ post) tok c1 = Ok c1' ->
            exists c2', Parse.token (pre ++ X2) tok c2 = Ok c2' /\ R e c1' c2').
  { intros a e tok c1 c2 c1' q Hqa Ht [HP ->] Hev. exists (rr (tlen (pre ++ X2)) c1'). split.
    - eapply token_rr0; eassumption.
    - split; [|reflexivity]. eapply token_PS0; eassumption. }
  assert (HR0 : R p2 ci (rr (tlen (pre ++ X2)) ci)).
  { split; [|reflexivity]. apply (PS0_mono _ 0); [lia|]. eapply init_PS0. exact Ei. }
  destruct (sub_prolog_loc pre post X2 HX1 HX2 HL context context (Parse.token (pre ++ post)) (Parse.token (pre ++ X2))
              R Rmono Htok _ (S (length (s_rest (cs (pre ++ X2) p2)))) p2 p3 p3' p4 Q ci _ c3 n cQ
              (fuel_le pre post X2 HL p2 Lp2) Lp2 Hm Esk Hsw Hop Hds0 I1 I2 I3 HQ HPlt HR0)
    as (c32 & cQ2 & M1 & M2 & M3 & M4 & M5 & [HPS0 ->]).
  specialize (Hds ltac:(lia) ltac:(intros _; lia)).
  (* the pieces *)
  set (A0 := firstn (N.to_nat Q) pre). set (W := skipn (N.to_nat Q) pre).
  assert (Epre : pre = A0 ++ W) by (symmetry; apply firstn_skipn).
  assert (EA0 : blen A0 = Q) by (apply firstn_blen; exact HQ).
  assert (ET2 : pre ++ X2 = (A0 ++ (W ++ ws)) ++ post).
  { unfold X2. rewrite Epre at 1. rewrite <- !app_assoc. reflexivity. }
  assert (ES1 : cs (pre ++ post) Q = ErrShiftMidCont.sQ A0 W post).
  { unfold cs, ErrShiftMidCont.sQ. rewrite EA0, <- Epre. f_equal. apply skipn_app_le. unfold blen in HQ. lia. }
  assert (ES2 : cs (pre ++ X2) Q = ErrShiftMidCont.sQ A0 (W ++ ws) post).
  { unfold cs, ErrShiftMidCont.sQ. rewrite EA0, <- ET2. f_equal. unfold X2. rewrite skipn_app_le by (unfold blen in HQ; lia).
    fold W. apply app_assoc. }
  (* the contexts *)
  set (cQ0 := set_entities cQ []).
  assert (HPS : PS (pre ++ post) Q cQ0) by exact HPS0.
  assert (HT1 : tlen (pre ++ post) = blen post + blen pre) by (unfold tlen, blen; rewrite app_length; lia).
  assert (HT2 : tlen (pre ++ X2) = blen post + blen (A0 ++ (W ++ ws))).
  { rewrite ET2. unfold tlen, blen. rewrite !app_length. lia. }
  destruct (PS_decomp _ _ _ (blen pre) (blen post) HPS HT1) as (D1 & D2 & D3 & D4).
  pose proof (PS_rr (pre ++ post) (pre ++ X2) Q cQ0 HPS) as HPS2.
  destruct (PS_decomp _ _ _ (blen (A0 ++ (W ++ ws))) (blen post) HPS2 HT2) as (F1 & _ & _ & _).
  rewrite olds_rr, uctx_rr in F1.
  assert (Eolds : olds_of cQ0 = olds_of cQ) by reflexivity.
  rewrite Eolds in *.
  set (olds := olds_of cQ) in *. set (c0 := uctx (blen post) cQ0) in *.
  assert (EP' : blen (A0 ++ (W ++ ws)) = blen pre + blen ws).
  { rewrite Epre. unfold blen. rewrite !app_length. lia. }
  pose proof (init_rr (pre ++ post) (pre ++ X2) opt ci Ei) as Ei2.
  set (ents := c_entities cQ) in *.
  set (cN := set_entities (sh_ctx (blen pre) c0) ents).
  assert (EcQ : cQ = pc olds cN).
  { rewrite (set_entities_split cQ). fold cQ0 ents. rewrite D1 at 1. reflexivity. }
  assert (EcQ2 : rr (tlen (pre ++ X2)) cQ = pc olds (x_ctx (blen pre) (blen ws) cN)).
  { unfold cN, c0. rewrite (x_neutral (blen pre) (blen ws) HP0 _ _ _ (blen post) _ HPS Hent). fold c0. rewrite <- EP'.
    rewrite (rr_ent (tlen (pre ++ X2)) cQ). fold cQ0 ents. rewrite F1 at 1. reflexivity. }
  assert (HIN : ErrShiftMidFrame.Inv olds cN) by (apply Inv_entities; apply Inv_sh; exact D2).
  assert (HCN : CI (blen pre) cN) by (apply (CI_neutral (blen pre) HP0 _ _ _ (blen post) _ HPS Hent)).
  assert (Hfl0 : c_entity_floor cQ0 = 0) by exact HF0.
  pose proof (U_neutral (blen pre) _ _ _ (blen post) ents HP0 HPS Hfl0) as HUN. cbv zeta in HUN. fold c0 in HUN. fold cN in HUN.
  set (nodesN := d_nodes (c_doc cN)) in *.
  (* the two parses as [cont3] *)
  set (fu := (length (s_rest (cs (pre ++ post) p4)) - n)%nat).
  set (fu' := (length (s_rest (cs (pre ++ X2) p4)) - n)%nat).
  assert (Hlen4 : (length (s_rest (cs (pre ++ post) p4)) <= length (s_rest (cs (pre ++ X2) p4)))%nat).
  { cbn [cs s_rest]. unfold X2. rewrite !skipn_length, !app_length. lia. }
  assert (HE : (n <= length (s_rest (cs (pre ++ post) p4)))%nat ->
     parse (pre ++ post) opt =
       (let! c := cont3 (pre ++ post) context (Parse.token (pre ++ post)) (S fu) p3' (ErrShiftMidCont.sQ A0 W post) (pc olds cN) in ErrShiftMidCore.post c) /\
     parse (pre ++ X2) opt =
       (let! c := cont3 (pre ++ X2) context (Parse.token (pre ++ X2)) (S fu') p3' (ErrShiftMidCont.sQ A0 (W ++ ws) post)
                    (pc olds (x_ctx (blen pre) (blen ws) cN)) in ErrShiftMidCore.post c)).
  { intros Hn.
    assert (Hsw1 : starts_with (skip_spaces (cs (pre ++ post) p3)) (b "<!DOCTYPE") = true) by (rewrite Esk; exact Hsw).
    assert (Hop1 : sub_open (pre ++ post) (skip_spaces (cs (pre ++ post) p3)) = Some (p3', cs (pre ++ post) p4)) by (rewrite Esk; exact Hop).
    assert (Hsw2 : starts_with (skip_spaces (cs (pre ++ X2) p3)) (b "<!DOCTYPE") = true) by (rewrite M2; exact M3).
    assert (Hop2 : sub_open (pre ++ X2) (skip_spaces (cs (pre ++ X2) p3)) = Some (p3', cs (pre ++ X2) p4)) by (rewrite M2; exact M4).
    split.
    - rewrite <- ES1. rewrite <- EcQ.
      apply (sub_parse_eq (pre ++ post) opt n ci _ _ c3 _ _ _ cQ fu Ei Es Hm0 Hsw1 Hd Hop1 Hds0). unfold fu. lia.
    - rewrite <- ES2. rewrite <- EcQ2.
      apply (sub_parse_eq (pre ++ X2) opt n _ _ _ c32 _ _ _ _ fu' Ei2 Hds M1 Hsw2 Hd Hop2 M5). unfold fu'. lia. }
  assert (Hfu : (fu <= fu')%nat) by (unfold fu, fu'; lia).
  assert (HWsp : forallb byte_is_space W = true) by exact HW.
  assert (HB : Forall (old_below (blen pre) (blen ws)) olds) by (apply D4; exact HQ).
  assert (Hfuel : parse (pre ++ post) opt <> OutOfFuel -> (n <= length (s_rest (cs (pre ++ post) p4)))%nat).
  { intros Hno.
    assert (Hsw1 : starts_with (skip_spaces (cs (pre ++ post) p3)) (b "<!DOCTYPE") = true) by (rewrite Esk; exact Hsw).
    assert (Hop1 : sub_open (pre ++ post) (skip_spaces (cs (pre ++ post) p3)) = Some (p3', cs (pre ++ post) p4)) by (rewrite Esk; exact Hop).
    exact (sub_fuel (pre ++ post) opt n ci _ _ c3 _ _ _ cQ Ei Es Hm0 Hsw1 Hd Hop1 Hds0 Hno). }
  clearbody fu fu' olds A0 W nodesN. subst pre.
  set (SSv := SS A0 W ws post Hws Hv).
  assert (HJ : forall tok c c', TokI SSv true tok -> CI (blen (A0 ++ W)) c -> U (blen (A0 ++ W)) true 0 0 nodesN c ->
                 Parse.token ((A0 ++ W) ++ post) tok c = Ok c' -> U (blen (A0 ++ W)) true 0 0 nodesN c').
  { intros tok c c' Ht Hc Hu Hev. exact (token_U SSv HP0 true 0 0 nodesN tok c c' Ht Hc Hu Hev). }
  split.
  - intros e He. destruct (HE (Hfuel ltac:(rewrite He; discriminate))) as [E1 E2].
    rewrite ET2 in E2.
    destruct (core_sub_err A0 W ws post HWsp Hws Hv Hpost HP0 olds D3 p3' Hstart _ HJ opt fu fu' cN HIN HCN HUN Hfu E1 E2 e He) as (e' & He' & HR).
    exists e'. split; [|exact HR]. fold X2. rewrite ET2. exact He'.
  - intros d Hd'. destruct (HE (Hfuel ltac:(rewrite Hd'; discriminate))) as [E1 E2].
    rewrite ET2 in E2.
    destruct (core_sub_ok A0 W ws post HWsp Hws Hv Hpost HP0 olds D3 p3' Hstart _ HJ opt fu fu' cN HIN HCN HUN Hfu E1 E2 d Hd') as (cU & EU & [CU UU] & Ed & Hp2).
    exists cU. split; [exact Ed|]. split; [exact D3|]. split; [exact HB|].
    split; [|eapply U_mid_x; exact UU]. fold X2. rewrite ET2. exact Hp2.
Qed.

(* ------------------------------------------------------------------ *)
(** * The insertion points inside the internal subset *)
Definition subset_point_at (pre post : bytes) (opt : options) (n : nat) (start : N) (cQ : context) : Prop :=
  exists sQ, subset_state (pre ++ post) opt n = Some (start, sQ, cQ) /\ s_pos sQ <= blen pre /\
    forallb byte_is_space (skipn (N.to_nat (s_pos sQ)) pre) = true.
Definition subset_point (pre post : bytes) (opt : options) : Prop :=
  exists n start cQ, subset_point_at pre post opt n start cQ.
Definition subset_point_b (pre post : bytes) (opt : options) (n : nat) : bool :=
  match subset_state (pre ++ post) opt n with
  | Some (_, sQ, _) => (s_pos sQ <=? blen pre) && forallb byte_is_space (skipn (N.to_nat (s_pos sQ)) pre)
  | None => false
  end.
Lemma subset_point_b_ok pre post opt n : subset_point_b pre post opt n = true -> subset_point pre post opt.
Proof.
  unfold subset_point_b. destruct (subset_state (pre ++ post) opt n) as [[[start sQ] cQ]|] eqn:E; [|discriminate].
  intros H. apply andb_true_iff in H. destruct H as [H1 H2].
  exists n, start, cQ, sQ. split; [exact E|split; [lia|exact H2]].
Qed.

(** * The theorems *)
Lemma ER_SubErr S e e' : ER S e e' -> EntErr (st_pre S) (st_ws S) (st_post S) e e'.
Proof.
  intros [e0 Hn|e0 e1 Hp Hk (off & G1 & G2)].
  - split; [reflexivity|]. split; [reflexivity|]. congruence.
  - split; [exact Hk|]. split; [congruence|]. intros _. exists off. split; [apply gen_pos_text; exact G1|].
    destruct G2 as [[L1 L2]|[L1 L2]]; [left; auto|right; split; [exact L1|apply gen_pos_text; exact L2]].
Qed.

Theorem parse_err_shift_sub : forall pre ws post opt e,
  forallb byte_is_space ws = true -> valid_utf8_b post = true -> post <> [] ->
  subset_point pre post opt ->
  parse (pre ++ post) opt = Err e ->
  exists e', parse (pre ++ ws ++ post) opt = Err e' /\
    err_kind e = err_kind e' /\
    (has_pos e = false -> e' = e) /\
    (has_pos e = true -> exists off, text_pos_at (pre ++ post) off = Ok (error_pos e) /\
        ((off < blen pre /\ error_pos e' = error_pos e) \/
         (blen pre <= off /\ text_pos_at (pre ++ ws ++ post) (off + blen ws) = Ok (error_pos e')))).
Proof.
  intros pre ws post opt e Hws Hv Hpost (n & start & cQ & (sQ & Hst & HQ & HW)) He.
  destruct ws as [|w ws'] eqn:Ews.
  - cbn [app]. exists e. split; [exact He|].
    destruct (sub_main pre [32] post opt n start sQ cQ eq_refl Hv ltac:(discriminate) Hpost Hst HQ HW) as [H1 _].
    destruct (H1 e He) as (e1 & _ & HR). apply ER_SubErr in HR. destruct HR as (K1 & K2 & K3). cbn [st_pre st_ws st_post] in *.
    split; [reflexivity|]. split; [reflexivity|]. intros Hp.
    destruct (K3 Hp) as (off & L1 & L2). exists off. split; [exact L1|].
    destruct L2 as [[A _]|[A _]]; [left; auto|right; split; [exact A|]]. change (blen []) with 0. rewrite N.add_0_r. exact L1.
  - rewrite <- Ews in *. assert (Hne : ws <> []) by (rewrite Ews; discriminate).
    destruct (sub_main pre ws post opt n start sQ cQ Hws Hv Hne Hpost Hst HQ HW) as [H1 _].
    destruct (H1 e He) as (e' & He' & HR). exists e'. split; [exact He'|]. apply (ER_SubErr _ _ _ HR).
Qed.
Print Assumptions parse_err_shift_sub.

(** * The theorem: documents *)
Theorem parse_ok_shift_sub : forall pre ws post opt d,
  forallb byte_is_space ws = true -> valid_utf8_b post = true -> post <> [] ->
  subset_point pre post opt ->
  parse (pre ++ post) opt = Ok d ->
  parse (pre ++ ws ++ post) opt = Ok (mid_doc (blen pre) (blen ws) d).
Proof.
  intros pre ws post opt d Hws Hv Hpost (n & start & cQ & (sQ & Hst & HQ & HW)) Hd.
  destruct ws as [|w ws'] eqn:Ews.
  - cbn [app]. change (blen []) with 0. rewrite mid_doc_0. exact Hd.
  - rewrite <- Ews in *. assert (Hne : ws <> []) by (rewrite Ews; discriminate).
    destruct (sub_main pre ws post opt n start sQ cQ Hws Hv Hne Hpost Hst HQ HW) as [_ H2].
    destruct (H2 d Hd) as (cU & -> & Hnt & Hb & Hp & Em).
    rewrite (mid_doc_pd (blen pre) (blen ws) (olds_of cQ) Hnt Hb), Em. exact Hp.
Qed.
Print Assumptions parse_ok_shift_sub.

(* ---- rows and columns ---- *)







(* the relation of the errors in terms of offsets with known boundaries *)
Lemma sub_err_rel pre ws post opt e (Hws : forallb byte_is_space ws = true) (Hv : valid_utf8_b post = true) :
  ws <> [] -> post <> [] -> subset_point pre post opt -> parse (pre ++ post) opt = Err e ->
  exists e', parse (pre ++ ws ++ post) opt = Err e' /\
    ER {| st_pre := pre; st_ws := ws; st_post := post; st_Hws := Hws; st_Hv := Hv |} e e'.
Proof.
  intros Hne Hpost (n & start & cQ & (sQ & Hst & HQ & HW)) He.
  destruct (sub_main pre ws post opt n start sQ cQ Hws Hv Hne Hpost Hst HQ HW) as [H1 _]. exact (H1 e He).
Qed.

(* k spaces: an error inside the value of an entity keeps its position; any other error keeps its
   row, and its column moves by k if it is on the row of the insertion point *)
Corollary parse_err_shift_sub_spaces : forall k pre post opt e,
  valid_utf8_b post = true -> post <> [] -> subset_point pre post opt ->
  parse (pre ++ post) opt = Err e -> has_pos e = true ->
  exists e' rP cP, parse (pre ++ repeat 32 k ++ post) opt = Err e' /\ err_kind e = err_kind e' /\
    text_pos_at (pre ++ post) (blen pre) = Ok (rP, cP) /\
    exists off, text_pos_at (pre ++ post) off = Ok (error_pos e) /\
      ((off < blen pre /\ error_pos e' = error_pos e) \/
       (blen pre <= off /\
        error_pos e' = (fst (error_pos e),
                        if fst (error_pos e) =? rP then N.of_nat k + snd (error_pos e) else snd (error_pos e)))).
Proof.
  intros k pre post opt e Hv Hpost Hip He Hp.
  assert (Hpos : text_pos_at (pre ++ post) (blen pre) = Ok (fst (pos_app pre (1, 1)), snd (pos_app pre (1, 1)))).
  { rewrite (ins_pos pre post Hv). destruct (pos_app pre (1, 1)); reflexivity. }
  destruct k as [|k].
  - (* nothing inserted *)
    cbn [repeat app]. exists e, (fst (pos_app pre (1, 1))), (snd (pos_app pre (1, 1))).
    split; [exact He|]. split; [reflexivity|]. split; [exact Hpos|].
    destruct (sub_err_rel pre [32] post opt e eq_refl Hv ltac:(discriminate) Hpost Hip He) as (e1 & _ & HR).
    destruct HR as [e0 Hn|e0 e1 _ _ (off & G1 & G2)]; [congruence|].
    exists off. split; [apply gen_pos_text; exact G1|].
    destruct G2 as [[L _]|[L _]]; [left; auto|right; split; [exact L|]].
    destruct (error_pos e0) as [r c]. cbn [fst snd N.of_nat]. destruct (r =? _); reflexivity.
  - set (ws := repeat 32 (S k)).
    assert (Hws : forallb byte_is_space ws = true) by (apply forallb_space_repeat; reflexivity).
    destruct (sub_err_rel pre ws post opt e Hws Hv ltac:(discriminate) Hpost Hip He) as (e' & He' & HR).
    exists e', (fst (pos_app pre (1, 1))), (snd (pos_app pre (1, 1))).
    split; [exact He'|].
    destruct HR as [e0 Hn|e0 e1 _ Hk (off & G1 & G2)]; [congruence|]. cbn [st_pre st_ws st_post] in *.
    split; [exact Hk|]. split; [exact Hpos|].
    exists off. split; [apply gen_pos_text; exact G1|].
    destruct G2 as [[L1 L2]|[L1 L2]]; [left; auto|right; split; [exact L1|]].
    destruct (moved_pos pre ws post off _ _ Hv L1 G1 L2) as (tp & L4 & L5).
    rewrite L5. unfold ws. rewrite pos_app_spaces, <- L4. f_equal.
    rewrite L4. unfold pos_app. cbn [fst snd].
    destruct (fst tp =? 1) eqn:E1.
    + replace (count_byte 10 pre + fst tp =? count_byte 10 pre + 1) with true by lia. reflexivity.
    + replace (count_byte 10 pre + fst tp =? count_byte 10 pre + 1) with false by lia. reflexivity.
Qed.
Print Assumptions parse_err_shift_sub_spaces.

(* k line breaks: an error inside the value of an entity keeps its position; any other error moves
   down by k rows, and on the row of the insertion point its column restarts *)
Corollary parse_err_shift_sub_lines : forall k pre post opt e, (0 < k)%nat ->
  valid_utf8_b post = true -> post <> [] -> subset_point pre post opt ->
  parse (pre ++ post) opt = Err e -> has_pos e = true ->
  exists e' rP cP, parse (pre ++ repeat 10 k ++ post) opt = Err e' /\ err_kind e = err_kind e' /\
    text_pos_at (pre ++ post) (blen pre) = Ok (rP, cP) /\
    exists off, text_pos_at (pre ++ post) off = Ok (error_pos e) /\
      ((off < blen pre /\ error_pos e' = error_pos e) \/
       (blen pre <= off /\
        error_pos e' = (N.of_nat k + fst (error_pos e),
                        if fst (error_pos e) =? rP then snd (error_pos e) - (cP - 1) else snd (error_pos e)))).
Proof.
  intros k pre post opt e Hk Hv Hpost Hip He Hp.
  assert (Hpos : text_pos_at (pre ++ post) (blen pre) = Ok (fst (pos_app pre (1, 1)), snd (pos_app pre (1, 1)))).
  { rewrite (ins_pos pre post Hv). destruct (pos_app pre (1, 1)); reflexivity. }
  set (ws := repeat 10 k).
  assert (Hws : forallb byte_is_space ws = true) by (apply forallb_space_repeat; reflexivity).
  assert (Hne : ws <> []) by (unfold ws; destruct k; [lia|discriminate]).
  destruct (sub_err_rel pre ws post opt e Hws Hv Hne Hpost Hip He) as (e' & He' & HR).
  exists e', (fst (pos_app pre (1, 1))), (snd (pos_app pre (1, 1))).
  split; [exact He'|].
  destruct HR as [e0 Hn|e0 e1 _ Hk' (off & G1 & G2)]; [congruence|]. cbn [st_pre st_ws st_post] in *.
  split; [exact Hk'|]. split; [exact Hpos|].
  exists off. split; [apply gen_pos_text; exact G1|].
  destruct G2 as [[L1 L2]|[L1 L2]]; [left; auto|right; split; [exact L1|]].
  destruct (moved_pos pre ws post off _ _ Hv L1 G1 L2) as (tp & L4 & L5).
  rewrite L5. unfold ws. rewrite (pos_app_lines pre k tp Hk), <- L4. f_equal.
  rewrite L4. unfold pos_app. cbn [fst snd].
  destruct (fst tp =? 1) eqn:E1.
  - replace (count_byte 10 pre + fst tp =? count_byte 10 pre + 1) with true by lia. change (1 =? 1) with true. cbv iota. lia.
  - replace (count_byte 10 pre + fst tp =? count_byte 10 pre + 1) with false by lia. reflexivity.
Qed.
Print Assumptions parse_err_shift_sub_lines.

(* ------------------------------------------------------------------ *)
(** * All insertion points of the prolog *)
(* the very start of a text without BOM and XML declaration (ErrShiftFinal.v) *)
Definition start_point (pre post : bytes) : Prop :=
  pre = [] /\ starts_with (stream_new post) [239;187;191] = false /\ starts_with_declaration (stream_new post) = false.

(* the five kinds: the start (ErrShiftFinal.v), inside the first run of comments and processing
   instructions (ErrShiftMidFinal.v), behind a DOCTYPE without / with general entities
   (ErrShiftDtdFinal.v / ErrShiftEntFinal.v), inside the internal subset (this file) *)
Definition prolog_point (pre post : bytes) (opt : options) : Prop :=
  start_point pre post \/ insertion_point pre post opt \/ dtd_point_noent pre post opt \/
  dtd_point pre post opt \/ subset_point pre post opt.

Theorem parse_err_shift_prolog : forall pre ws post opt e,
  forallb byte_is_space ws = true -> valid_utf8_b post = true -> post <> [] ->
  prolog_point pre post opt ->
  parse (pre ++ post) opt = Err e ->
  exists e', parse (pre ++ ws ++ post) opt = Err e' /\
    err_kind e = err_kind e' /\
    (has_pos e = false -> e' = e) /\
    (has_pos e = true -> exists off, text_pos_at (pre ++ post) off = Ok (error_pos e) /\
        ((off < blen pre /\ error_pos e' = error_pos e) \/
         (blen pre <= off /\ text_pos_at (pre ++ ws ++ post) (off + blen ws) = Ok (error_pos e')))).
Proof.
  intros pre ws post opt e Hws Hv Hpost [Hp|[Hp|[Hp|[Hp|Hp]]]] He.
  - destruct Hp as (-> & Hb & Hd). cbn [app] in *.
    destruct (parse_err_shift ws post opt e Hws Hv Hb Hd He) as (e' & He' & K1 & K2 & K3).
    exists e'. split; [exact He'|]. split; [exact K1|]. split; [exact K2|]. intros Hpos.
    destruct (K3 Hpos) as (off & _ & _ & L3 & L4). exists off. split; [exact L3|]. right.
    split; [change (blen []) with 0; lia|exact L4].
  - destruct (parse_err_shift_mid_partial pre ws post opt e Hws Hv Hp He) as (e' & He' & K1 & K2 & K3).
    exists e'. split; [exact He'|]. split; [exact K1|]. split; [exact K2|]. intros Hpos.
    destruct (K3 Hpos) as (off & L1 & _ & _ & L3 & L4). exists off. split; [exact L3|]. right. split; assumption.
  - destruct (parse_err_shift_dtd pre ws post opt e Hws Hv Hpost Hp He) as (e' & He' & K1 & K2 & K3).
    exists e'. split; [exact He'|]. split; [exact K1|]. split; [exact K2|]. intros Hpos.
    destruct (K3 Hpos) as (off & L1 & _ & _ & L3 & L4). exists off. split; [exact L3|]. right. split; assumption.
  - exact (parse_err_shift_ent pre ws post opt e Hws Hv Hpost Hp He).
  - exact (parse_err_shift_sub pre ws post opt e Hws Hv Hpost Hp He).
Qed.
Print Assumptions parse_err_shift_prolog.
