(* Proofs/CstRangeG6.v -- C13 / C18 on the capstone fragment, stage S6 (Spec/CstFullS6.v: the whole supported subset --
   the prolog of S5 with general internal entities whose value is character data or MARKUP): the
   theorems [parse_render_ranges_f6], [parse_render_attr_ranges_f6], [parse_render_storage_f6] for
   the description of CstRangeG6Defs.v: a node read from the value of a markup entity has the span
   where it is written inside the literal of the declaration, its names are slices of the value;
   an entity referred to twice yields nodes with the same ranges twice. *)
From Coq Require Import Ascii String.
From Coq Require Import List NArith PeanoNat Bool Lia ZifyBool ZifyN ZifyNat.
Import ListNotations.
From RX Require Import Generated.
From RX.Model Require Import Base CharClass Stream Tokenizer Doc Builder Parse Api.
From RX.Spec Require Cst CstText CstEnt Detector Scope CstU CstNs Chars.
From RX.Spec Require Import CstFullS5.
From RX.Spec Require Import Text CstFull CstFullS4.
From RX.Spec Require Import CstFullS6.
From RX.Proofs Require Import Tactics CstLex CstBuild CstNsLex CstNsView CstNsBuild CstULex.
From RX.Proofs Require Import CstFullLex CstFullBuild CstFullTree CstFullDoc.
From RX.Proofs Require Import CstFullS4Sem.
From RX.Proofs Require Import CstFullS5Ws CstFullS5Doc.
From RX.Proofs Require Import CstFullS6Text CstFullS6Items CstFullS6Dtd CstFullS6Doc CstFullS6Main.
From RX.Proofs Require CstNsItems CstNsDoc CstNsMain CstFullMain CstFullS3 CstFullS4Main CstFullS5 OptionsMain RangeInv RangeParse.
From RX.Proofs Require Import CstRangeDefs CstRangeBuild CstRangeTDefs CstRangeTBuild CstRangeEDefs CstRangeEText CstRangeEFrags.
From RX.Proofs Require Import CstRangeFDefs CstRangeFBuild CstRangeFItems CstRangeFDoc CstRangeFMain CstRangeFS2 CstRangeGDefs CstRangeGS3.
From RX.Proofs Require Import CstRangeG6Defs CstRangeG6Sem CstRangeG6Build CstRangeG6Ev CstRangeG6Doc.
From RX.Proofs Require CstFullS6Sanity.
Open Scope N_scope.

Notation init_ctx := CstNsMain.init_ctx.
Notation vattrs := CstFullS4Main.vattrs.

Lemma s6_tdecls_pd d : s6_tdecls d = map pd (S6.decls d).
Proof.
  unfold s6_tdecls. apply map_ext. intros e. unfold pd. rewrite ev_of_pv. reflexivity.
Qed.

(* the attributes of the events are well-shaped *)
Lemma ev_aspans_ok vs : forall evs, Forall faspan_ok (ev_aspans vs evs).
Proof.
  unfold ev_aspans. induction evs as [|e evs IH]; [constructor|]. cbn [flat_map]. apply Forall_app. split; [|exact IH].
  destruct e as [?|[p i]|]; try constructor. destruct i; try constructor. apply entries_aspans_ok.
Qed.

(* ------------------------------------------------------------------------------------------ *)
(* what parse observes on a rendered document of stage S6                                     *)
(* ------------------------------------------------------------------------------------------ *)
Lemma parse_observed_f6 : forall (d : S6.doc) (opt : options) doc,
  S6.wf_doc d = true -> (S6.has_dtd d = true -> allow_dtd opt = true) ->
  N.of_nat (length (S6.sem d)) < nodes_limit opt ->
  N.of_nat (length (S6.sem d)) < u32_max ->
  N.of_nat (S6.nattrs d) < u32_max ->
  S6.distinct_decls_le d (N.to_nat 65535) ->
  1 + N.of_nat (S6.ns_cost d) <= u32_max ->
  parse (S6.render d) opt = Ok doc ->
  map nd_range (d_nodes doc) = (0, tlen (S6.render d)) :: fspans6 d /\
  (exists k0, map nd_kind (d_nodes doc) = KRoot :: k0 /\ Forall2 fkshape6 k0 (fshapes6 d)) /\
  Forall2 fattr_obs (d_attrs doc) (fattr_spans6 d) /\
  d_ns_values doc = xml_ns :: map nsv_of (fns_table6 d).
Proof.
  intros d opt doc Hwf Hdtd Hlim Hmax Hattr Hdist Hcost H. set (text := S6.render d) in *.
  destruct (s6_parts d Hwf) as [_ _ H1 _ H3 (name & ens & ws & body & Er) H5 H6 (root' & tr & Hroot & Hinl & Hl & Hp & Hns)].
  pose proof (sem_all6 d Hwf root' tr Hinl) as Esem.
  unfold S6.distinct_decls_le, S4.distinct_decls_le in Hdist. rewrite Hinl in Hdist.
  unfold S6.ns_cost, S4.ns_cost in Hcost. rewrite Hinl in Hcost.
  unfold CstFull.distinct_decls_le, doc_decls in Hdist. unfold CstFull.ns_cost in Hcost. cbn [d_root cI] in Hdist, Hcost.
  set (D := flat_map CstNs.item_decls (bden root')) in *.
  assert (HD : forall l, NoDup l -> incl l D -> N.of_nat (length l) <= 65535).
  { intros l N1 N2. pose proof (Hdist l N1 N2). lia. }
  assert (Hsz : NT.nsizes (L6 d root') = N.of_nat (length (S6.sem d))).
  { rewrite Esem, CstFullMain.sem_items_len. reflexivity. }
  assert (Hat : NT.nattrs_items (bden root') = S6.nattrs d).
  { unfold S6.nattrs. fold (vattrs (S6.sem d)). rewrite Esem, CstFullS4Main.vattrs_sems. unfold L6.
    destruct (regroup_wf_s epieces M0 _ _ H1 H3) as [Q1 _].
    destruct (pairs_dens_s epieces M0 _ Q1) as (_ & _ & X1 & _). destruct (pairs_dens_s epieces M0 _ H6) as (_ & _ & X2 & _).
    pose proof (misc_nattrs _ (prolog_misc d Hwf)) as X0.
    assert (G : forall x y z w : nat, x = 0%nat -> y = 0%nat -> w = 0%nat -> (x + (y + (z + w)) = z)%nat) by (intros; lia).
    rewrite !nattrs_items_app. symmetry. apply G; [exact X0|exact X1|exact X2]. }
  rewrite ns_oks_forallb in Hns.
  destruct (parse_document_ok_6_r d Hwf D HD (allow_dtd opt) root' tr (init_ctx text opt) Hdtd Hroot Hl Hp Hns)
    as (cf & K & ext & E & Habs & Hattrs & (X1 & X2 & X3 & X4 & X5)).
  { unfold D. rewrite items_decls_flat. apply incl_refl. }
  { apply (CstNsMain.init_ctx_CIn text D opt). }
  { reflexivity. } { reflexivity. } { reflexivity. }
  { unfold CstNsItems.node_room. cbn [CstNsMain.init_ctx c_doc c_opt d_nodes]. rewrite Hsz. unfold len_N. cbn [length]. lia. }
  { unfold CstNsItems.attr_room. cbn [CstNsMain.init_ctx c_doc d_attrs]. rewrite Hat. unfold len_N. cbn [length]. lia. }
  { unfold CstNsItems.ns_room. cbn [CstNsMain.init_ctx c_doc d_ns_tree]. unfold len_N. cbn [length]. rewrite ns_costs_sum. lia. }
  fold text in E. unfold tok_ev in E. rewrite (parse_is_doc_ns text opt cf doc E H).
  cbn [map] in X1, X3, X5.
  assert (Enodes : fnodes6 d = fst (ewalk [] (s6_events d))).
  { unfold fnodes6, ev_nodes. cbv zeta. rewrite <- X5. cbn [node_of_group]. rewrite app_nil_r. reflexivity. }
  unfold fspans6, fshapes6, fattr_spans6, fns_table6, vstore_s6, s6_table. rewrite Enodes, s6_tdecls_pd.
  split; [exact X3|]. split; [|split].
  - exists (map snd K). split; [|exact X1].
    rewrite <- absn_kinds, Habs, map_app. reflexivity.
  - rewrite Hattrs. cbn [CstNsMain.init_ctx c_doc d_attrs app]. exact X2.
  - destruct X4 as [_ X4]. rewrite X4. reflexivity.
Qed.

(* ------------------------------------------------------------------------------------------ *)
(* (1) the ranges                                                                             *)
(* ------------------------------------------------------------------------------------------ *)
Theorem parse_render_ranges_f6 : forall (d : S6.doc) (opt : options) doc,
  S6.wf_doc d = true ->
  (S6.has_dtd d = true -> allow_dtd opt = true) ->                (* a DOCTYPE needs the option *)
  N.of_nat (length (S6.sem d)) < nodes_limit opt ->               (* room for all nodes + the Root *)
  N.of_nat (length (S6.sem d)) < u32_max ->                        (* of the MEANING: entities add nodes *)
  N.of_nat (S6.nattrs d) < u32_max ->                              (* the attribute rows of the meaning *)
  S6.distinct_decls_le d (N.to_nat 65535) ->                       (* at most 65535 distinct declared bindings *)
  1 + N.of_nat (S6.ns_cost d) <= u32_max ->                        (* the namespace table fits *)
  parse (S6.render d) opt = Ok doc ->
  (* every node below the Root, in document order: the span of the construct it was read from -- in the
     document, or, for what a reference stands for, inside the literal of the entity declaration in the
     internal subset (an element, comment or PI of a markup value: where it is written in the value; a
     Text node: its first fragment) *)
  map nd_range (tl (d_nodes doc)) = fspans6 d /\
  (* the Root: the whole input, the byte order mark and the XML declaration included *)
  (exists root, nth_N (d_nodes doc) 0 = Some root /\ nd_range root = (0, N.of_nat (length (S6.render d)))) /\
  (* all these offsets are on character boundaries *)
  Forall (fun r => is_boundary (S6.render d) (fst r) = true /\ is_boundary (S6.render d) (snd r) = true) (fspans6 d).
Proof.
  intros d opt doc Hwf Hdtd Hlim Hmax Hattr Hd Hc H. destruct (parse_observed_f6 d opt doc Hwf Hdtd Hlim Hmax Hattr Hd Hc H) as (R & _ & _ & _).
  pose proof (RangeParse.parse_ranges_valid _ opt doc (render_valid_utf8_s6 d Hwf) H) as (G & _ & _).
  destruct (d_nodes doc) as [|root nodes]; [discriminate|]. cbn [map tl] in *. injection R as R0 R1.
  split; [exact R1|]. split; [exists root; split; [reflexivity|exact R0]|].
  rewrite <- R1. apply Forall_forall. intros r Hr. apply in_map_iff in Hr. destruct Hr as (nd & <- & Hin).
  destruct (G nd (or_intror Hin)) as (_ & _ & B1 & B2). split; assumption.
Qed.
Print Assumptions parse_render_ranges_f6.

Theorem parse_render_attr_ranges_f6 : forall (d : S6.doc) (opt : options) doc,
  S6.wf_doc d = true -> (S6.has_dtd d = true -> allow_dtd opt = true) ->
  N.of_nat (length (S6.sem d)) < nodes_limit opt ->
  N.of_nat (length (S6.sem d)) < u32_max ->
  N.of_nat (S6.nattrs d) < u32_max ->
  S6.distinct_decls_le d (N.to_nat 65535) ->
  1 + N.of_nat (S6.ns_cost d) <= u32_max ->
  fattrs_small6 d ->                                           (* below the saturation limits *)
  parse (S6.render d) opt = Ok doc ->
  (* the attributes of all elements in the order in which they are read (those of an element of a
     markup value once per reference, with ranges inside the literal) *)
  map (fun a => (ad_range a, attr_range_qname a, attr_range_value a)) (d_attrs doc) =
  map (fun s => (fa_range s, fa_qname s, Ok (fa_value s))) (fattr_spans6 d).
Proof.
  intros d opt doc Hwf Hdtd Hlim Hmax Hattr Hd Hc Hsmall H. destruct (parse_observed_f6 d opt doc Hwf Hdtd Hlim Hmax Hattr Hd Hc H) as (_ & _ & A & _).
  apply (obs_ranges _ _ A); [apply ev_aspans_ok|exact Hsmall].
Qed.
Print Assumptions parse_render_attr_ranges_f6.

(* ------------------------------------------------------------------------------------------ *)
(* (2) what is stored (C18)                                                                   *)
(* ------------------------------------------------------------------------------------------ *)
(* a node against its description; of an Owned Text node only that it is Owned: its text is what
   [CstFullS6Main.parse_render_sem_full_s6] says *)
Definition stored_as_6 (k : node_kind) (s : xshape) : Prop :=
  match s with
  | XS sh => stored_as_f k sh
  | XSOwnedText => exists bs, k = KText (Owned bs)
  end.

Theorem parse_render_storage_f6 : forall (d : S6.doc) (opt : options) doc,
  S6.wf_doc d = true -> (S6.has_dtd d = true -> allow_dtd opt = true) ->
  N.of_nat (length (S6.sem d)) < nodes_limit opt ->
  N.of_nat (length (S6.sem d)) < u32_max ->
  N.of_nat (S6.nattrs d) < u32_max ->
  S6.distinct_decls_le d (N.to_nat 65535) ->
  1 + N.of_nat (S6.ns_cost d) <= u32_max ->
  parse (S6.render d) opt = Ok doc ->
  (* every node holds what [fshapes6] says: the names of elements, comments and PIs are slices of the
     input -- of the literal of the declaration for what a markup value stands for --; a Text node is
     Borrowed with the span of its only fragment (a literal or a CDATA section of the document or of a
     markup value, or the literal value of a character-data entity), or Owned *)
  Forall2 stored_as_6 (map nd_kind (tl (d_nodes doc))) (fshapes6 d) /\
  (* every ordinary attribute: local name = slice of the written local part; a value with a
     reference is Owned with the normalised value *)
  Forall2 attr_stored_f (d_attrs doc) (fattr_spans6 d) /\
  (* the namespace table: one entry per distinct (prefix, URI) pair in the order in which the
     declarations are read; prefix and URI are slices of where the FIRST such declaration is written *)
  d_ns_values doc = xml_ns :: map ns_entry_of (fns_table6 d).
Proof.
  intros d opt doc Hwf Hdtd Hlim Hmax Hattr Hd Hc H.
  destruct (parse_observed_f6 d opt doc Hwf Hdtd Hlim Hmax Hattr Hd Hc H) as (_ & (k0 & Hk & HF) & A & V).
  split; [|split; [|exact V]].
  - destruct (d_nodes doc) as [|root nodes]; [discriminate|]. cbn [map tl] in *. injection Hk as _ Hk. rewrite Hk.
    clear - HF. induction HF as [|k s l l' Hks _ IH]; constructor; [|exact IH].
    destruct s as [sh|]; [apply stored_as_f_fkshape; exact Hks|exact Hks].
  - clear - A. induction A as [|a s l l' (_ & O2 & _ & _ & O5) _ IH]; constructor; [split; assumption|exact IH].
Qed.
Print Assumptions parse_render_storage_f6.

(* ------------------------------------------------------------------------------------------ *)
(* examples (vm_compute): the model against the definitions                                   *)
(* ------------------------------------------------------------------------------------------ *)
Module ExamplesF6.
Import CstFullS6Sanity.

Definition kd (k : node_kind) : xshape :=
  match k with
  | KText (Borrowed (SIn s)) => XS (TSText (TBorrowed (sl_start s, sl_end s)))
  | KText _ => XSOwnedText
  | KElement _ l _ _ => XS (TSElem (sl_start l, sl_end l))
  | KComment s => XS (TSComment (sl_start s, sl_end s))
  | KPI t v => XS (TSPI (sl_start t, sl_end t) (match v with Some s => Some (sl_start s, sl_end s) | None => None end))
  | KRoot => XSOwnedText
  end.
Definition obs (c : S6.doc) :=
  match parse (S6.render c) opt_dtd with
  | Ok d => Some (map (fun nd => (nd_range nd, kd (nd_kind nd))) (tl (d_nodes d)),
                  map (fun a => (ad_range a, attr_range_qname a, attr_range_value a, (sl_start (ad_local a), sl_end (ad_local a)), ad_value a)) (d_attrs d),
                  tl (d_ns_values d))
  | _ => None end.
Definition expd (c : S6.doc) :=
  Some (fnodes6 c,
        map (fun s => (fa_range s, fa_qname s, Ok (fa_value s), fa_local s, stor_of (fa_store s))) (fattr_spans6 c),
        map ns_entry_of (fns_table6 c)).

(* the document of CstFullS6Sanity.v that uses every construct at once: the markup entity m is referred to
   twice; each time its element p:x, its Text " text " (Borrowed inside the literal), its element q:y with
   the value of u (a Text node inside the literal of u) appear with the SAME ranges *)
Example ex1_obs : S6.wf_doc ex1 = true /\ obs ex1 = expd ex1 /\
  fspans6 ex1 = [(64, 77); (78, 83); (124, 146); (363, 384); (415, 426); (427, 529);
                 (299, 336); (336, 342); (342, 359); (224, 233); (481, 486); (486, 519); (508, 513);
                 (299, 336); (336, 342); (342, 359); (224, 233); (508, 513); (530, 542)].
Proof. vm_compute. repeat split; reflexivity. Qed.

Definition xe n its := XEntity (xd n (X4.XContent its)).
Definition xt n ps := XEntity (xd n (X4.XText ps)).
Definition el0 l es cs : uitem := IElem (qn [] l) es [] (Some (cs, [])).
Definition em0 l : uitem := IElem (qn [] l) [] [] None.
(* text at both ends of a markup value merges with the text around the reference: <r>a&m;c</r> with
   m = "x<b/>y" gives Text "ax" with the range of the token a&m;c, the element b inside the literal,
   Text "yc" with the range of y inside the literal *)
Definition t1 := with_sub [xe (b "m") [tx [lit (b "x")]; em0 (b "b"); tx [lit (b "y")]]] (el0 (b "r") [] [tx [lit (b "a"); rf (b "m"); lit (b "c")]]).
Example t1_obs : S6.wf_doc t1 = true /\ obs t1 = expd t1 /\
  fnodes6 t1 = [((37, 49), XS (TSElem (38, 39))); ((40, 45), XSOwnedText); ((27, 31), XS (TSElem (28, 29))); ((31, 32), XSOwnedText)].
Proof. vm_compute. repeat split; reflexivity. Qed.
(* nested markup entities, used twice *)
Definition t2 := with_sub [xe (b "m") [tx [lit (b "x")]; em0 (b "b"); tx [lit (b "y")]];
                           xe (b "n") [el0 (b "s") [] [tx [rf (b "m")]]; tx [rf (b "m")]]]
                  (el0 (b "r") [] [tx [rf (b "n"); rf (b "n")]]).
Example t2_obs : S6.wf_doc t2 = true /\ obs t2 = expd t2.
Proof. vm_compute. split; reflexivity. Qed.
(* CDATA, CR and a character reference inside a markup value; empty and character-data entities around *)
Definition t3 := with_sub [xe (b "m") [tx [lit (b "x"); E.EP (T.PCData (b "cd")); lit [13; 10]; E.EP (T.PPredef T.Amp)]; em0 (b "b")];
                           xt (b "e") [lit (b "v")]; xt (b "z") []]
                  (el0 (b "r") [] [tx [rf (b "e"); rf (b "m"); rf (b "z"); rf (b "e")]; em0 (b "q"); tx [rf (b "z")]; em0 (b "q"); tx [rf (b "m")]]).
Example t3_obs : S6.wf_doc t3 = true /\ obs t3 = expd t3.
Proof. vm_compute. split; reflexivity. Qed.
(* an empty markup value, and one that is only character data *)
Definition t4 := with_sub [xe (b "m") []; xe (b "k") [tx [lit (b "only text")]]]
                  (el0 (b "r") [] [tx [lit (b "a"); rf (b "m"); lit (b "c"); rf (b "k")]]).
Example t4_obs : S6.wf_doc t4 = true /\ obs t4 = expd t4.
Proof. vm_compute. split; reflexivity. Qed.
End ExamplesF6.
