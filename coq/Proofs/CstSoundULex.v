(* Proofs/CstSoundULex.v -- C08 soundness on the UNICODE fragment (Spec/CstU.v), lexical half:
   inversion of the tokenizer functions on valid UTF-8.  Same shape as CstSoundLex.v, but the
   stream invariant is [WV] of CstULex.v (the remaining input is a concatenation of encodings) and
   the pieces are [utf8s cs] for lists of scalar values [cs] in the classes of Spec/CstU.v. *)
From Coq Require Import String.
From Coq Require Import List Arith NArith Bool Lia ZifyBool ZifyN ZifyNat.
Import ListNotations.
From RX Require Import Generated.
From RX.Model Require Import Base CharClass Stream Tokenizer.
From RX.Spec Require Cst Chars CstU.
From RX.Proofs Require Import Tactics CstLex CstULex.
From RX.Proofs Require RejectProofs CharTablesProofs WfParseTok WfParseChars.
From RX.Proofs Require Import CstSound CstSoundLex CstSoundU.
Open Scope N_scope.

(* ------------------------------------------------------------------------------------------ *)
(* the fragment as facts                                                                        *)

Record FragU (text : bytes) : Prop := {
  fu_valid : U8.Valid text;
  fu_cr : Forall (fun x => x <> 13) text;
  fu_amp : Forall (fun x => x <> 38) text;
  fu_colon : Forall (fun x => x <> 58) text;
  fu_doctype : contains_b [60; 33; 68] text = false;
  fu_cdata : contains_b [60; 33; 91] text = false;
  fu_decl : contains_b [60; 63; 120; 109; 108] text = false;
  fu_xmlns : contains_b [120; 109; 108; 110; 115] text = false;
  fu_bom : prefix_b [239; 187; 191] text = false
}.

Lemma in_fragment_u_FragU text : in_fragment_u text = true -> FragU text.
Proof.
  unfold in_fragment_u. intros H. repeat (apply andb_true_iff in H; destruct H as [H ?]).
  repeat match goal with X : negb _ = true |- _ => apply negb_true_iff in X end.
  constructor; try assumption; try (apply mem_b_Forall; assumption).
  apply U8.valid_iff_Valid. exact H.
Qed.

(* ---- character classes: from the tables of the crate to Spec/CstU.v ---- *)
Lemma uchar_intro c : is_scalar c = true -> char_is_char c = true -> c <> 13 -> CstU.is_char c = true.
Proof.
  intros Hs Hc H13. unfold CstU.is_char. destruct (CharTablesProofs.char_tables_conform c Hs) as (E & _).
  rewrite <- E, Hc. cbn [andb]. lia.
Qed.
Lemma uname_char_intro c : is_scalar c = true -> char_is_name c = true -> c <> 58 -> CstU.is_name_char c = true.
Proof.
  intros Hs Hc H58. unfold CstU.is_name_char. destruct (CharTablesProofs.char_tables_conform c Hs) as (_ & _ & E).
  rewrite <- E, Hc. cbn [andb]. lia.
Qed.
Lemma uname_char_intro_b x : x < 128 -> byte_is_name x = true -> x <> 58 -> CstU.is_name_char x = true.
Proof.
  intros Hl Hc H58. unfold CstU.is_name_char. destruct (CharTablesProofs.byte_tables_conform x Hl) as (_ & _ & E).
  rewrite <- E, Hc. cbn [andb]. lia.
Qed.
Lemma uname_start_intro c : is_scalar c = true -> char_is_name_start c = true -> c <> 58 -> CstU.is_name_start c = true.
Proof.
  intros Hs Hc H58. unfold CstU.is_name_start. destruct (CharTablesProofs.char_tables_conform c Hs) as (_ & E & _).
  rewrite <- E, Hc. cbn [andb]. lia.
Qed.
Lemma uname_start_intro_b x : x < 128 -> byte_is_name_start x = true -> x <> 58 -> CstU.is_name_start x = true.
Proof.
  intros Hl Hc H58. unfold CstU.is_name_start. destruct (CharTablesProofs.byte_tables_conform x Hl) as (_ & E & _).
  rewrite <- E, Hc. cbn [andb]. lia.
Qed.

(* ---- valid strings ---- *)
Lemma Valid_inv r : U8.Valid r -> r = [] \/ exists c r', r = utf8 c ++ r' /\ is_scalar c = true /\ U8.Valid r'.
Proof. intros H. inversion H as [|c r' Hc Hr]; [left; reflexivity|right]. exists c, r'. auto. Qed.

Lemma Valid_scalars x : U8.Valid x -> exists cs, scalars_ok cs /\ x = utf8s cs.
Proof.
  induction 1 as [|c r Hc _ (cs & Hcs & ->)]; [exists []; split; [constructor|reflexivity]|].
  exists (c :: cs). split; [constructor; assumption|reflexivity].
Qed.

Lemma utf8_nonempty c l : exists b0 t, utf8 c ++ l = b0 :: t.
Proof.
  pose proof (utf8_len c) as H. destruct (utf8 c) as [|b0 t]; [unfold blen in H; cbn in H; lia|]. cbn [app]. eauto.
Qed.

(* an ASCII byte different from q never occurs among the bytes of the encoding of scalars <> q *)
Lemma scalars_ne q cs : q < 128 -> Forall (fun x => x <> q) (utf8s cs) -> Forall (fun c => c <> q) cs.
Proof.
  intros Hq. induction cs as [|c cs IH]; intros H; [constructor|]. rewrite utf8s_cons in H.
  apply Forall_app in H. destruct H as [H1 H2]. constructor; [|apply IH; exact H2].
  intros ->. rewrite (utf8_ascii q Hq) in H1. inversion H1; congruence.
Qed.

(* splitting a valid string in front of an ASCII byte *)
Lemma split_hi : forall h x c l r0, Forall (fun y => 128 <= y) h -> c < 128 ->
  x ++ c :: l = h ++ r0 -> exists x2, x = h ++ x2 /\ r0 = x2 ++ c :: l.
Proof.
  induction h as [|u h IH]; intros x c l r0 Hh Hc E; [exists x; auto|].
  inversion Hh as [|? ? Hu Hh']; subst. destruct x as [|b0 x1]; cbn [app] in E.
  - injection E as -> _. lia.
  - injection E as -> E. destruct (IH _ _ _ _ Hh' Hc E) as (x2 & -> & ->). exists x2. auto.
Qed.

Lemma valid_split_n : forall n x c l, (length x <= n)%nat -> c < 128 -> U8.Valid (x ++ c :: l) -> U8.Valid x.
Proof.
  induction n as [|n IH]; intros x c l Hn Hc Hv.
  { destruct x; [constructor|cbn in Hn; lia]. }
  destruct x as [|b0 x1]; [constructor|].
  destruct (Valid_inv _ Hv) as [E|(c0 & r0 & E & Hs & Hr)]; [discriminate|].
  destruct (N.lt_ge_cases c0 128) as [L|L].
  - rewrite (utf8_ascii c0 L) in E. cbn [app] in E. injection E as -> E. subst r0.
    change (c0 :: x1) with ([c0] ++ x1). apply U8.Valid_app; [apply U8.Valid_ascii; unfold U8.ascii; lia|].
    eapply IH; [|exact Hc|exact Hr]. cbn [length] in Hn. lia.
  - destruct (utf8_high c0 L) as (Hh & _).
    destruct (split_hi _ _ _ _ _ Hh Hc E) as (x2 & Ex & ->). rewrite Ex.
    apply U8.Valid_app; [rewrite utf8_enc; apply U8.Valid_encode; exact Hs|].
    eapply IH; [|exact Hc|exact Hr].
    pose proof (utf8_len c0) as Hl. rewrite Ex in Hn. rewrite app_length in Hn. unfold blen in Hl. cbn [length] in Hn. lia.
Qed.

Lemma valid_split x c l : c < 128 -> U8.Valid (x ++ c :: l) -> U8.Valid x.
Proof. intros Hc Hv. eapply (valid_split_n (length x)); eauto. Qed.

(* the scalars of an encoded string of Chars are Chars *)
Lemma all_chars_utf8s : forall cs, scalars_ok cs -> RejectProofs.all_chars (utf8s cs) ->
  Forall (fun c => char_is_char c = true) cs.
Proof.
  induction cs as [|c cs IH]; intros Hs Ha; [constructor|]. inversion Hs as [|? ? Hc Hs']; subst.
  destruct (WfParseChars.all_chars_inv _ Ha) as [E|(c1 & n & Hd & Hcc & _ & _ & Ht)].
  { rewrite utf8s_cons in E. destruct (utf8_nonempty c (utf8s cs)) as (b0 & t & Eb). rewrite Eb in E. discriminate. }
  rewrite utf8s_cons, utf8_enc, (U8.decode1_encode c _ Hc) in Hd. injection Hd as <- <-.
  assert (Esk : skipn (N.to_nat (blen (encode_utf8 c))) (utf8s (c :: cs)) = utf8s cs).
  { change (utf8s (c :: cs)) with (encode_utf8 c ++ utf8s cs). unfold blen. rewrite Nat2N.id. apply skipn_len_app. }
  rewrite Esk in Ht. constructor; [exact Hcc|apply IH; assumption].
Qed.

Section ULexS.
Variable text : bytes.
Hypothesis HF : FragU text.
Notation st := (CstLex.st text).
Notation W := (CstLex.W text).
Notation WV := (CstULex.WV text).

Record SufU (l : bytes) : Prop := {
  sv_cr : Forall (fun x => x <> 13) l;
  sv_amp : Forall (fun x => x <> 38) l;
  sv_colon : Forall (fun x => x <> 58) l
}.

Lemma W_SufU p l : W p l -> SufU l.
Proof.
  intros [H _]. rewrite <- H. constructor; apply Forall_skipn; [exact (fu_cr _ HF)|exact (fu_amp _ HF)|exact (fu_colon _ HF)].
Qed.

Lemma SufU_app_l x l : SufU (x ++ l) -> SufU x.
Proof. intros [A B C]. apply Forall_app in A, B, C. constructor; tauto. Qed.
Lemma SufU_app_r x l : SufU (x ++ l) -> SufU l.
Proof. intros [A B C]. apply Forall_app in A, B, C. constructor; tauto. Qed.

Lemma space_ws_u x : x <> 13 -> byte_is_space x = true -> Cst.is_ws x = true.
Proof. cls. lia. Qed.

Lemma spaces_ws_u w : Forall (fun x => x <> 13) w -> forallb byte_is_space w = true -> Cst.wf_ws w = true.
Proof.
  unfold Cst.wf_ws. induction 1 as [|x w Hx _ IH]; cbn [forallb]; [reflexivity|].
  intros H. apply andb_true_iff in H. destruct H as [B1 B2]. rewrite (space_ws_u _ Hx B1), IH by exact B2. reflexivity.
Qed.

Lemma spaces_lit w : forallb byte_is_space w = true -> forallb (fun y => y <? 128) w = true.
Proof. apply forallb_imp. intros x. cls. lia. Qed.

(* ---- white space ---- *)
Lemma skip_spaces_inv_u p l : WV p l ->
  exists w l', l = w ++ l' /\ Cst.wf_ws w = true /\ stops byte_is_space l' /\
               skip_spaces (st p l) = st (p + blen w) l' /\ WV (p + blen w) l'.
Proof.
  intros HW. destruct (skip_bytes_inv text byte_is_space p l (WV_W _ _ _ HW)) as (w & l' & -> & Hw & Hl & E).
  exists w, l'. split; [reflexivity|]. split.
  { apply spaces_ws_u; [|exact Hw]. apply (sv_cr _ (SufU_app_l _ _ (W_SufU _ _ (WV_W _ _ _ HW)))). }
  split; [exact Hl|]. split; [exact E|]. apply (WV_lit text _ _ _ HW). apply spaces_lit. exact Hw.
Qed.

Lemma consume_spaces_inv_u p l s' : WV p l -> consume_spaces text (st p l) = Ok s' ->
  exists w l', l = w ++ l' /\ w <> [] /\ Cst.wf_ws w = true /\ stops byte_is_space l' /\
               s' = st (p + blen w) l' /\ WV (p + blen w) l'.
Proof.
  intros HW H. pose proof (WV_W _ _ _ HW) as HW0. unfold consume_spaces in H.
  rewrite (at_end_st text) in H by exact HW0.
  destruct l as [|x l0]; [noerr|]. rewrite starts_with_space_st in H by exact HW0.
  destruct (byte_is_space x) eqn:Ex; cbn [negb] in H.
  2:{ ib H y Hy. noerr. }
  inversion H; subst. clear H.
  destruct (skip_spaces_inv_u p (x :: l0) HW) as (w & l' & E & Hw & Hst & E1 & HW1).
  exists w, l'. split; [exact E|]. split.
  { intros ->. cbn [app] in E. subst l'. cbn [stops] in Hst. congruence. }
  split; [exact Hw|]. split; [exact Hst|]. split; [exact E1|exact HW1].
Qed.

Lemma consume_eq_inv_u p l s' : WV p l -> consume_eq text (st p l) = Ok s' ->
  exists w1 w2 l', l = w1 ++ [61] ++ w2 ++ l' /\ Cst.wf_ws w1 = true /\ Cst.wf_ws w2 = true /\
    s' = st (p + blen w1 + 1 + blen w2) l' /\ WV (p + blen w1 + 1 + blen w2) l'.
Proof.
  intros HW H. unfold consume_eq in H.
  destruct (skip_spaces_inv_u p l HW) as (w1 & l1 & -> & Hw1 & _ & E1 & HW1). rewrite E1 in H.
  ib H s1 H1. destruct (consume_byte_inv text _ _ _ _ (WV_W _ _ _ HW1) H1) as (l2 & -> & -> & _).
  assert (HW2 : WV (p + blen w1 + 1) l2) by (apply (WV_cons text _ _ _ HW1); lia).
  destruct (skip_spaces_inv_u _ l2 HW2) as (w2 & l3 & -> & Hw2 & _ & E2 & HW3). rewrite E2 in H.
  inversion H; subst. exists w1, w2, l3.
  split; [reflexivity|]. split; [exact Hw1|]. split; [exact Hw2|]. split; [reflexivity|exact HW3].
Qed.

(* ---- chars ---- *)
Definition stop_s (f : stream -> N -> bool) (p : N) (l : bytes) : Prop :=
  l = [] \/ exists c l2, l = utf8 c ++ l2 /\ is_scalar c = true /\ char_is_char c = true /\ f (st p l) c = false.

Lemma skip_chars_loop_inv_u f : forall fuel p r s', WV p r -> skip_chars_loop text fuel f (st p r) = Ok s' ->
  exists cs l', r = utf8s cs ++ l' /\ s' = st (p + blen (utf8s cs)) l' /\
    walk_u text f p cs l' /\ stop_s f (p + blen (utf8s cs)) l'.
Proof.
  induction fuel as [|fu IH]; intros p r s' HW H; cbn [skip_chars_loop] in H; [noerr|].
  destruct (Valid_inv r (proj2 HW)) as [->|(c & r' & -> & Hc & Hv)].
  - rewrite (next_char_end text) in H by apply HW. cbn [bind] in H. inversion H; subst.
    exists [], []. cbn [CstU.utf8s flat_map app]. rewrite blen_nil, N.add_0_r. repeat split. left; reflexivity.
  - rewrite (next_char_v text) in H by assumption. cbn [bind] in H.
    destruct (char_is_char c) eqn:Ecc; cbn [negb] in H; [|noerr].
    destruct (f (st p (utf8 c ++ r')) c) eqn:Ef.
    + rewrite (advance_v text) in H by exact HW. cbn [bind] in H.
      assert (HW' : WV (p + blen (utf8 c)) r').
      { apply (WV_app text _ _ _ HW). rewrite utf8_enc. apply U8.Valid_encode. exact Hc. }
      destruct (IH _ _ _ HW' H) as (cs & l' & -> & -> & Hx & Hl).
      exists (c :: cs), l'. rewrite utf8s_cons, blen_app, <- app_assoc, N.add_assoc.
      split; [reflexivity|]. split; [reflexivity|]. split; [|exact Hl].
      cbn [walk_u]. rewrite utf8s_cons, <- app_assoc. auto.
    + inversion H; subst. exists [], (utf8 c ++ r'). cbn [CstU.utf8s flat_map app]. rewrite blen_nil, N.add_0_r.
      split; [reflexivity|]. split; [reflexivity|]. split; [exact I|]. right. exists c, r'. auto.
Qed.

Lemma consume_chars_inv_u f p r s0 s' : WV p r -> consume_chars text f (st p r) = Ok (s0, s') ->
  exists cs l', r = utf8s cs ++ l' /\ s0 = sl p (p + blen (utf8s cs)) /\ s' = st (p + blen (utf8s cs)) l' /\
    WV (p + blen (utf8s cs)) l' /\ walk_u text f p cs l' /\ stop_s f (p + blen (utf8s cs)) l'.
Proof.
  intros HW H. unfold consume_chars in H. ib H s1 H1. ib H s2 H2.
  unfold skip_chars in H1. destruct (skip_chars_loop_inv_u _ _ _ _ _ HW H1) as (cs & l' & -> & -> & Hx & Hl).
  unfold slice_back in H2. apply mk_slice_sl in H2. cbn [CstLex.st s_pos] in H2. subst s2.
  inversion H; subst. clear H.
  exists cs, l'. split; [reflexivity|]. split; [reflexivity|]. split; [reflexivity|].
  split; [|split; assumption]. apply (WV_app text _ _ _ HW). apply Valid_utf8s. eapply walk_scalars; eauto.
Qed.

(* the walked scalars are Chars of Spec/CstU.v *)
Lemma walk_chars f : forall cs p l, walk_u text f p cs l -> Forall (fun x => x <> 13) (utf8s cs) ->
  forallb CstU.is_char cs = true.
Proof.
  induction cs as [|c cs IH]; intros p l H Hn; [reflexivity|]. destruct H as (H1 & H2 & _ & H4).
  pose proof (scalars_ne 13 _ ltac:(lia) Hn) as Hn'. inversion Hn' as [|? ? Hc13 _]; subst.
  rewrite utf8s_cons in Hn. apply Forall_app in Hn. destruct Hn as [_ Hn].
  cbn [forallb]. rewrite (uchar_intro c H1 H2 Hc13), (IH _ _ H4 Hn). reflexivity.
Qed.

(* ---- names ---- *)
Lemma consume_qname_loop_inv_u start : forall fuel p r spl' s', WV p r ->
  consume_qname_loop text fuel start None (st p r) = Ok (spl', s') ->
  exists x l', r = utf8s x ++ l' /\ spl' = None /\ s' = st (p + blen (utf8s x)) l' /\
               forallb CstU.is_name_char x = true.
Proof.
  induction fuel as [|fu IH]; intros p r spl' s' HW H; cbn [consume_qname_loop] in H; [noerr|].
  rewrite (at_end_st text) in H by apply HW.
  destruct (Valid_inv r (proj2 HW)) as [->|(c & r' & -> & Hc & Hv)].
  { inversion H; subst. exists [], []. cbn [CstU.utf8s flat_map app]. rewrite blen_nil, N.add_0_r. repeat split. }
  destruct (utf8_nonempty c r') as (b0 & t & Eb). rewrite Eb in H.
  cbn [curr_byte_unchecked CstLex.st s_rest bind] in H. rewrite <- Eb in H.
  assert (HW' : WV (p + blen (utf8 c)) r').
  { apply (WV_app text _ _ _ HW). rewrite utf8_enc. apply U8.Valid_encode. exact Hc. }
  assert (STOP : exists x l', utf8 c ++ r' = utf8s x ++ l' /\ @None N = None /\
                   st p (utf8 c ++ r') = st (p + blen (utf8s x)) l' /\ forallb CstU.is_name_char x = true).
  { exists [], (utf8 c ++ r'). cbn [CstU.utf8s flat_map app]. rewrite blen_nil, N.add_0_r. repeat split. }
  destruct (N.lt_ge_cases c 128) as [L|L].
  - rewrite (utf8_ascii c L) in *. cbn [app] in Eb. injection Eb as <- <-.
    replace (c <? 128) with true in H by lia.
    assert (H58 : c <> 58).
    { pose proof (sv_colon _ (W_SufU _ _ (WV_W _ _ _ HW))) as Hcol. cbn [app] in Hcol. inversion Hcol; assumption. }
    replace (c =? 58) with false in H by lia.
    destruct (byte_is_name c) eqn:Ebn; [|inversion H; subst; exact STOP].
    cbn [app] in H. fold (st p (c :: r')) in H. rewrite (advance1_st text) in H by apply HW. cbn [bind] in H.
    change (blen [c]) with 1 in HW'.
    destruct (IH _ _ _ _ HW' H) as (x & l' & -> & -> & -> & Hx).
    exists (c :: x), l'. rewrite utf8s_cons, (utf8_ascii c L), blen_app. change (blen [c]) with 1. rewrite N.add_assoc.
    split; [reflexivity|]. split; [reflexivity|]. split; [reflexivity|].
    cbn [forallb]. rewrite (uname_char_intro_b c L Ebn H58), Hx. reflexivity.
  - destruct (utf8_high c L) as (_ & b1 & t1 & E1 & Hb1). rewrite E1 in Eb. cbn [app] in Eb. injection Eb as <- _.
    replace (b1 <? 128) with false in H by lia.
    rewrite (next_char_v text) in H by assumption. cbn [bind] in H.
    destruct (char_is_name c) eqn:Ecn; [|inversion H; subst; exact STOP].
    rewrite (advance_v text) in H by exact HW. cbn [bind] in H.
    destruct (IH _ _ _ _ HW' H) as (x & l' & -> & -> & -> & Hx).
    exists (c :: x), l'. rewrite utf8s_cons, blen_app, <- app_assoc, N.add_assoc.
    split; [reflexivity|]. split; [reflexivity|]. split; [reflexivity|].
    cbn [forallb]. rewrite (uname_char_intro c Hc Ecn ltac:(lia)), Hx. reflexivity.
Qed.

Lemma name_chars_scalars x : forallb CstU.is_name_char x = true -> scalars_ok x.
Proof. apply uname_scalars. Qed.

Lemma consume_qname_inv_u p r pfx loc s' : WV p r -> consume_qname text (st p r) = Ok (pfx, loc, s') ->
  exists name l', r = utf8s name ++ l' /\ CstU.wf_name name = true /\
                  pfx = sl p p /\ loc = sl p (p + blen (utf8s name)) /\ s' = st (p + blen (utf8s name)) l' /\
                  WV (p + blen (utf8s name)) l'.
Proof.
  intros HW H. unfold consume_qname in H. cbn [CstLex.st s_pos] in H.
  ib H q Hq. destruct q as [spl s1].
  destruct (consume_qname_loop_inv_u _ _ _ _ _ _ HW Hq) as (name & l' & -> & -> & -> & Hn).
  ib H pl Hpl. destruct pl as [p0 l0]. ib Hpl l1 Hl1. ib Hpl p1 Hp1. inversion Hpl; subst p0 l0. clear Hpl.
  unfold slice_back in Hl1. apply mk_slice_sl in Hl1. apply mk_slice_sl in Hp1. subst l1 p1.
  cbn [CstLex.st s_pos] in H.
  destruct (negb (slice_len (sl p p) =? 0) && negb (str_is_name_start (slice_bytes text (sl p p)))); [noerr|].
  destruct (str_is_name_start (slice_bytes text (sl p (p + blen (utf8s name))))) eqn:Es; cbn [negb] in H; [|noerr].
  inversion H; subst. clear H.
  rewrite (W_slice text p (utf8s name) l' (WV_W _ _ _ HW)) in Es.
  pose proof (name_chars_scalars _ Hn) as Hsc.
  assert (Hwf : CstU.wf_name name = true).
  { destruct name as [|c x]; [discriminate|]. cbn [forallb] in Hn. apply andb_true_iff in Hn. destruct Hn as [Hn1 Hn2].
    cbn [CstU.wf_name]. rewrite Hn2, andb_true_r. inversion Hsc as [|? ? Hc _]; subst.
    assert (H58 : c <> 58) by (unfold CstU.is_name_char in Hn1; lia).
    rewrite utf8s_cons in Es. destruct (N.lt_ge_cases c 128) as [L|L].
    - rewrite (utf8_ascii c L) in Es. cbn [app str_is_name_start] in Es. replace (c <? 128) with true in Es by lia.
      apply uname_start_intro_b; assumption.
    - destruct (utf8_high c L) as (_ & b1 & t1 & E1 & Hb1). unfold str_is_name_start in Es.
      rewrite utf8_enc, (U8.decode1_encode c _ Hc) in Es. rewrite <- utf8_enc, E1 in Es. cbn [app] in Es.
      replace (b1 <? 128) with false in Es by lia. apply uname_start_intro; assumption. }
  exists name, l'. split; [reflexivity|]. split; [exact Hwf|]. split; [reflexivity|]. split; [reflexivity|].
  split; [reflexivity|]. apply (WV_app text _ _ _ HW). apply Valid_utf8s. exact Hsc.
Qed.

Lemma skip_name_loop_inv_u : forall fuel p r s', WV p r -> skip_name_loop fuel (st p r) = Ok s' ->
  exists x l', r = utf8s x ++ l' /\ s' = st (p + blen (utf8s x)) l' /\ forallb CstU.is_name_char x = true.
Proof.
  induction fuel as [|fu IH]; intros p r s' HW H; cbn [skip_name_loop] in H; [noerr|].
  destruct (Valid_inv r (proj2 HW)) as [->|(c & r' & -> & Hc & Hv)].
  { rewrite (next_char_end text) in H by apply HW. cbn [bind] in H. inversion H; subst.
    exists [], []. cbn [CstU.utf8s flat_map app]. rewrite blen_nil, N.add_0_r. repeat split. }
  rewrite (next_char_v text) in H by assumption. cbn [bind] in H.
  destruct (char_is_name c) eqn:Ecn.
  - rewrite (advance_v text) in H by exact HW. cbn [bind] in H.
    assert (HW' : WV (p + blen (utf8 c)) r').
    { apply (WV_app text _ _ _ HW). rewrite utf8_enc. apply U8.Valid_encode. exact Hc. }
    destruct (IH _ _ _ HW' H) as (x & l' & -> & -> & Hx).
    exists (c :: x), l'. rewrite utf8s_cons, blen_app, <- app_assoc, N.add_assoc.
    split; [reflexivity|]. split; [reflexivity|].
    assert (H58 : c <> 58).
    { intros ->. pose proof (sv_colon _ (W_SufU _ _ (WV_W _ _ _ HW))) as Hcol. cbn in Hcol. inversion Hcol; congruence. }
    cbn [forallb]. rewrite (uname_char_intro c Hc Ecn H58), Hx. reflexivity.
  - inversion H; subst. exists [], (utf8 c ++ r'). cbn [CstU.utf8s flat_map app]. rewrite blen_nil, N.add_0_r. repeat split.
Qed.

Lemma consume_name_inv_u p r s0 s' : WV p r -> consume_name text (st p r) = Ok (s0, s') ->
  exists name l', r = utf8s name ++ l' /\ CstU.wf_name name = true /\
                  s0 = sl p (p + blen (utf8s name)) /\ s' = st (p + blen (utf8s name)) l' /\
                  WV (p + blen (utf8s name)) l'.
Proof.
  intros HW H. unfold consume_name in H. cbn [CstLex.st s_pos] in H. ib H s1 H1. ib H s2 H2.
  unfold slice_back in H2. apply mk_slice_sl in H2. subst s2.
  destruct (slice_len (sl p (s_pos s1)) =? 0) eqn:El; [noerr|]. inversion H; subst. clear H.
  unfold skip_name in H1.
  destruct (Valid_inv r (proj2 HW)) as [->|(c & r' & -> & Hc & Hv)].
  { rewrite (next_char_end text) in H1 by apply HW. cbn [bind] in H1. inversion H1; subst.
    unfold slice_len in El. cbn in El. lia. }
  rewrite (next_char_v text) in H1 by assumption. cbn [bind] in H1.
  destruct (char_is_name_start c) eqn:Ecs; [|noerr].
  rewrite (advance_v text) in H1 by exact HW. cbn [bind] in H1.
  assert (HW' : WV (p + blen (utf8 c)) r').
  { apply (WV_app text _ _ _ HW). rewrite utf8_enc. apply U8.Valid_encode. exact Hc. }
  destruct (skip_name_loop_inv_u _ _ _ _ HW' H1) as (x & l' & -> & -> & Hx).
  assert (H58 : c <> 58).
  { intros ->. pose proof (sv_colon _ (W_SufU _ _ (WV_W _ _ _ HW))) as Hcol. cbn in Hcol. inversion Hcol; congruence. }
  assert (Hwf : CstU.wf_name (c :: x) = true).
  { cbn [CstU.wf_name]. rewrite (uname_start_intro c Hc Ecs H58), Hx. reflexivity. }
  exists (c :: x), l'. cbn [CstLex.st s_pos]. rewrite utf8s_cons, blen_app, <- app_assoc, N.add_assoc.
  split; [reflexivity|]. split; [exact Hwf|]. split; [reflexivity|]. split; [reflexivity|].
  rewrite <- N.add_assoc, <- blen_app. rewrite app_assoc in HW. apply (WV_app text _ _ _ HW).
  change (utf8 c ++ utf8s x) with (utf8s (c :: x)). apply Valid_utf8s. constructor; [exact Hc|apply name_chars_scalars; exact Hx].
Qed.

(* ------------------------------------------------------------------------------------------ *)
(* the productions, generic in the callback                                                     *)

Variable C : Type.
Variable ev : token -> C -> res C.
Notation evs := (CstLex.evs C ev).

Lemma Forall_forallb {A} (g : A -> bool) l : Forall (fun x => g x = true) l -> forallb g l = true.
Proof. intros H. apply forallb_forall. rewrite Forall_forall in H. exact H. Qed.

(* ---- comments ---- *)
Lemma inv_comment_u p l1 c s' c' : WV p ([60; 33; 45; 45] ++ l1) ->
  parse_comment text C ev (st p ([60; 33; 45; 45] ++ l1)) c = Ok (s', c') ->
  exists bs l', l1 = utf8s bs ++ [45; 45; 62] ++ l' /\ CstU.wf_item (Cst.IComment bs) = true /\
    s' = st (p + 4 + blen (utf8s bs) + 3) l' /\ WV (p + 4 + blen (utf8s bs) + 3) l' /\
    ev (TComment (sl (p + 4) (p + 4 + blen (utf8s bs))) (p, p + 4 + blen (utf8s bs) + 3)) c = Ok c'.
Proof.
  intros HW H. pose proof (WV_W _ _ _ HW) as HW0. unfold parse_comment in H. cbv zeta in H. cbn [CstLex.st s_pos] in H.
  fold (CstLex.st text p ([60; 33; 45; 45] ++ l1)) in H.
  rewrite (advance_st text 4 p [60; 33; 45; 45]) in H by (try reflexivity; exact HW0). cbn [bind] in H.
  pose proof (WV_lit text _ _ _ HW eq_refl) as HW1. change (blen [60; 33; 45; 45]) with 4 in HW1.
  ib H q Hq. destruct q as [txt s2].
  destruct (consume_chars_inv_u _ _ _ _ _ HW1 Hq) as (bs & l2 & -> & -> & -> & HW2 & Hwalk & Hstop).
  ib H s3 H3. change (b "-->") with [45; 45; 62] in H3.
  destruct (skip_string_inv text _ _ _ _ (WV_W _ _ _ HW2) H3) as (l' & -> & -> & _).
  pose proof (WV_lit text _ _ _ HW2 eq_refl) as HW3. change (blen [45; 45; 62]) with 3 in *.
  rewrite (W_slice text (p + 4) (utf8s bs) _ (WV_W _ _ _ HW1)) in H. change (b "--") with [45; 45] in H.
  destruct (contains_b [45; 45] (utf8s bs)) eqn:E1; [noerr|].
  destruct (ends_with_byte 45 (utf8s bs)) eqn:E2; [noerr|].
  ib H c1 Hc. inversion H; subst. cbn [CstLex.st s_pos] in Hc.
  exists bs, l'. split; [reflexivity|]. split.
  { cbn [CstU.wf_item]. rewrite contains_utf8 in E1 by (try discriminate; reflexivity).
    rewrite ends_utf8 in E2 by lia. rewrite contains_eq, E1. cbn [negb].
    rewrite (walk_chars _ _ _ _ Hwalk (sv_cr _ (SufU_app_l _ _ (W_SufU _ _ (WV_W _ _ _ HW1))))). cbn [andb].
    unfold ends_with_byte in E2. destruct (rev bs); [reflexivity|]. rewrite E2. reflexivity. }
  split; [reflexivity|]. split; [exact HW3|exact Hc].
Qed.

(* ---- text ---- *)
Lemma text_walk_inv_u : forall bs p l', walk_u text text_f p bs l' -> Forall (fun x => x <> 60) bs.
Proof.
  induction bs as [|x bs IH]; intros p l' H; [constructor|].
  destruct H as (_ & _ & Hf & Hr). unfold text_f in Hf. constructor; [lia|eapply IH; eauto].
Qed.

Lemma inv_text_u p x l0 c s' c' : WV p (x :: l0) -> x <> 60 ->
  parse_text text C ev (st p (x :: l0)) c = Ok (s', c') ->
  exists bs l', x :: l0 = utf8s bs ++ l' /\ CstU.wf_item (Cst.IText bs) = true /\ text_stop l' /\
    s' = st (p + blen (utf8s bs)) l' /\ WV (p + blen (utf8s bs)) l' /\
    ev (TText (sl p (p + blen (utf8s bs))) (p, p + blen (utf8s bs))) c = Ok c'.
Proof.
  intros HW Hx H. unfold parse_text in H. cbv zeta in H. cbn [CstLex.st s_pos] in H.
  fold (CstLex.st text p (x :: l0)) in H.
  ib H q Hq. destruct q as [txt s1].
  destruct (consume_chars_inv_u _ _ _ _ _ HW Hq) as (bs & l' & E & -> & -> & HW1 & Hwalk & Hstop).
  rewrite E in HW. rewrite (W_slice text p (utf8s bs) _ (WV_W _ _ _ HW)) in H. change (b "]]>") with [93; 93; 62] in H.
  destruct (contains_b [93; 93; 62] (utf8s bs)) eqn:Ec.
  { rewrite (RejectProofs.contains_cdata_end_mem _ Ec) in H. cbn [andb] in H. noerr. }
  rewrite andb_false_r in H. ib H c1 Hc. inversion H; subst. cbn [CstLex.st s_pos] in Hc.
  assert (Hstop' : text_stop l').
  { destruct Hstop as [->|(c0 & l2 & -> & _ & _ & Hf)]; [exact I|]. unfold text_f in Hf.
    assert (c0 = 60) by lia. subst c0. reflexivity. }
  assert (Hne : bs <> []).
  { intros ->. cbn [CstU.utf8s flat_map app] in E. subst l'. cbn [text_stop] in Hstop'. lia. }
  pose proof (W_SufU _ _ (WV_W _ _ _ HW)) as HS. apply SufU_app_l in HS. destruct HS as [S13 S38 _].
  exists bs, l'. split; [exact E|]. split.
  { cbn [CstU.wf_item]. rewrite contains_utf8 in Ec by (try discriminate; reflexivity). rewrite contains_eq, Ec.
    destruct bs as [|b0 bt]; [congruence|]. cbn [negb andb]. rewrite andb_true_r.
    pose proof (walk_chars _ _ _ _ Hwalk S13) as Hch. pose proof (text_walk_inv_u _ _ _ Hwalk) as H60.
    pose proof (scalars_ne 38 _ ltac:(lia) S38) as H38.
    apply forallb_forall. intros y Hy. rewrite forallb_forall in Hch. rewrite Forall_forall in H60, H38.
    rewrite (Hch y Hy). specialize (H60 y Hy). specialize (H38 y Hy). cbn [andb]. lia. }
  split; [exact Hstop'|]. split; [reflexivity|]. split; [exact HW1|exact Hc].
Qed.

(* ---- processing instructions ---- *)
Lemma pi_walk_inv_u : forall v p post, W p (utf8s v ++ [63; 62] ++ post) ->
  walk_u text pi_f p v ([63; 62] ++ post) -> contains_b [63; 62] v = false.
Proof.
  induction v as [|x v IH]; intros p post HW H; [reflexivity|].
  destruct H as (Hs & _ & Hf & Hr). cbn [contains_b].
  assert (HW' : W (p + blen (utf8 x)) (utf8s v ++ [63; 62] ++ post)).
  { rewrite utf8s_cons, <- app_assoc in HW. apply (W_app text _ _ _ HW). }
  rewrite (IH _ _ HW' Hr), orb_false_r.
  cbn [prefix_b]. destruct (63 =? x) eqn:E; [|reflexivity]. assert (x = 63) by lia. subst x. cbn [andb].
  destruct v as [|y v]; [reflexivity|]. destruct (62 =? y) eqn:E2; [|reflexivity]. exfalso.
  assert (y = 62) by lia. subst y. unfold pi_f in Hf. rewrite (starts_with_st text) in Hf by exact HW.
  rewrite !utf8s_cons in Hf. rewrite (utf8_ascii 63), (utf8_ascii 62) in Hf by lia. cbn in Hf. discriminate.
Qed.

Lemma wf_pi_intro_u target sep v :
  CstU.wf_name target = true -> Cst.wf_ws sep = true -> forallb CstU.is_char v = true ->
  contains_b [63; 62] v = false -> Cst.prefix_is_xml target = false ->
  match v with [] => True | x :: _ => Cst.is_ws x = false end -> (v = [] \/ sep <> []) ->
  CstU.wf_item (Cst.IPI target sep v) = true.
Proof.
  intros H1 H2 H3 H4 H5 H6 Hs. cbn [CstU.wf_item]. rewrite H1, H2, H3, contains_eq, H4, H5.
  cbn [negb andb]. destruct v as [|x v]; [reflexivity|]. rewrite H6. cbn [negb andb].
  destruct Hs as [Hs|Hs]; [discriminate|]. destruct sep; [congruence|reflexivity].
Qed.

Lemma inv_pi_u p l1 c s' c' : WV p ([60; 63] ++ l1) ->
  parse_pi text C ev (st p ([60; 63] ++ l1)) c = Ok (s', c') ->
  exists target sep v l', l1 = utf8s target ++ sep ++ utf8s v ++ [63; 62] ++ l' /\
    CstU.wf_item (Cst.IPI target sep v) = true /\
    s' = st (p + 2 + blen (utf8s target) + blen sep + blen (utf8s v) + 2) l' /\
    WV (p + 2 + blen (utf8s target) + blen sep + blen (utf8s v) + 2) l' /\
    ev (pi_tok p (utf8s target) sep (utf8s v)) c = Ok c'.
Proof.
  intros HW H. pose proof (WV_W _ _ _ HW) as HW0. unfold parse_pi in H. rewrite (starts_with_st text) in H by exact HW0.
  pose proof (W_noprefix text _ _ _ HW0 (fu_decl _ HF) ltac:(discriminate)) as Hnd.
  destruct (prefix_b (b "<?xml ") ([60; 63] ++ l1)) eqn:Ed.
  { change (b "<?xml ") with ([60; 63; 120; 109; 108] ++ [32]) in Ed. apply prefix_b_app_l in Ed. congruence. }
  cbv zeta in H. cbn [CstLex.st s_pos] in H. fold (CstLex.st text p ([60; 63] ++ l1)) in H.
  rewrite (advance_st text 2 p [60; 63]) in H by (try reflexivity; exact HW0). cbn [bind] in H.
  pose proof (WV_lit text _ _ _ HW eq_refl) as HW1. change (blen [60; 63]) with 2 in HW1.
  ib H q Hq. destruct q as [tg s2].
  destruct (consume_name_inv_u _ _ _ _ HW1 Hq) as (target & l2 & -> & Hn & -> & -> & HW2).
  ib H s3 H3.
  assert (SEP : exists sep l3, l2 = sep ++ l3 /\ Cst.wf_ws sep = true /\ stops byte_is_space l3 /\
                  s3 = st (p + 2 + blen (utf8s target) + blen sep) l3 /\
                  WV (p + 2 + blen (utf8s target) + blen sep) l3 /\
                  (sep = [] -> prefix_b [63; 62] l3 = true)).
  { rewrite (starts_with_st text) in H3 by apply HW2. change (b "?>") with [63; 62] in H3.
    destruct (prefix_b [63; 62] l2) eqn:Eq.
    - inversion H3; subst s3. exists [], l2. rewrite blen_nil, N.add_0_r.
      split; [reflexivity|]. split; [reflexivity|]. split.
      { destruct l2 as [|y l2]; [exact I|]. cbn [prefix_b] in Eq. cbn [stops].
        apply andb_true_iff in Eq. destruct Eq as [Ey _]. assert (y = 63) by lia. subst. reflexivity. }
      split; [reflexivity|]. split; [exact HW2|]. intros _. exact Eq.
    - destruct (consume_spaces_inv_u _ _ _ HW2 H3) as (sep & l3 & -> & Hne & Hw & Hst & -> & HW3).
      exists sep, l3. split; [reflexivity|]. split; [exact Hw|]. split; [exact Hst|].
      split; [reflexivity|]. split; [exact HW3|]. intros ->. congruence. }
  destruct SEP as (sep & l3 & -> & Hsep & Hst & -> & HW3 & Hnil).
  ib H q4 H4. destruct q4 as [ct s4].
  destruct (consume_chars_inv_u _ _ _ _ _ HW3 H4) as (v & l4 & -> & -> & -> & HW4 & Hwalk & Hstop).
  ib H s5 H5. change (b "?>") with [63; 62] in H5.
  destruct (skip_string_inv text _ _ _ _ (WV_W _ _ _ HW4) H5) as (l' & -> & -> & _).
  pose proof (WV_lit text _ _ _ HW4 eq_refl) as HW5. change (blen [63; 62]) with 2 in *.
  ib H c1 Hc. inversion H; subst. clear H. cbn [CstLex.st s_pos] in Hc.
  exists target, sep, v, l'. split; [reflexivity|]. split.
  { apply wf_pi_intro_u; auto.
    - apply (walk_chars _ _ _ _ Hwalk). apply (sv_cr _ (SufU_app_l _ _ (W_SufU _ _ (WV_W _ _ _ HW3)))).
    - eapply pi_walk_inv_u; [apply HW3|exact Hwalk].
    - destruct (Cst.prefix_is_xml target) eqn:Ex; [|reflexivity]. exfalso.
      apply prefix_is_xml_true in Ex. subst target. cbn in Hnd. discriminate.
    - destruct v as [|x v]; [exact I|]. destruct (Cst.is_ws x) eqn:Ew; [|reflexivity]. exfalso.
      assert (x < 128) by (unfold Cst.is_ws in Ew; lia). rewrite utf8s_cons, (utf8_ascii x) in Hst by assumption.
      cbn [app stops] in Hst. rewrite (ws_space _ Ew) in Hst. discriminate.
    - destruct sep as [|y sep]; [|right; discriminate]. left.
      specialize (Hnil eq_refl). destruct v as [|x v]; [reflexivity|exfalso].
      destruct Hwalk as (_ & _ & Hf & _). unfold pi_f in Hf.
      rewrite (starts_with_st text) in Hf by apply HW3. change (b "?>") with [63; 62] in Hf. rewrite Hnil in Hf.
      rewrite utf8s_cons in Hnil. destruct (N.lt_ge_cases x 128) as [L|L].
      + rewrite (utf8_ascii x L) in Hnil. cbn [app prefix_b] in Hnil. apply andb_true_iff in Hnil.
        destruct Hnil as [Hx _]. assert (x = 63) by lia. subst x. cbn in Hf. discriminate.
      + destruct (utf8_high x L) as (_ & b1 & t1 & E1 & Hb1). rewrite E1 in Hnil. cbn [app prefix_b] in Hnil.
        replace (63 =? b1) with false in Hnil by lia. discriminate. }
  split; [reflexivity|]. split; [exact HW5|].
  unfold pi_tok. cbv zeta. unfold slice_len in Hc. cbn [sl sl_start sl_end] in Hc.
  replace (p + 2 + blen (utf8s target) + blen sep + blen (utf8s v) - (p + 2 + blen (utf8s target) + blen sep))
    with (blen (utf8s v)) in Hc by lia.
  exact Hc.
Qed.

(* ---- end tags ---- *)
Lemma inv_close_u p l1 c s' c' : WV p ([60; 47] ++ l1) ->
  parse_close_element text C ev (st p ([60; 47] ++ l1)) c = Ok (s', c') ->
  exists name ws2 l', l1 = utf8s name ++ ws2 ++ [62] ++ l' /\ CstU.wf_name name = true /\ Cst.wf_ws ws2 = true /\
    s' = st (p + 2 + blen (utf8s name) + blen ws2 + 1) l' /\ WV (p + 2 + blen (utf8s name) + blen ws2 + 1) l' /\
    ev (close_tok p (utf8s name) ws2) c = Ok c'.
Proof.
  intros HW H. pose proof (WV_W _ _ _ HW) as HW0. unfold parse_close_element in H. cbv zeta in H.
  cbn [CstLex.st s_pos] in H. fold (CstLex.st text p ([60; 47] ++ l1)) in H.
  rewrite (advance_st text 2 p [60; 47]) in H by (try reflexivity; exact HW0). cbn [bind] in H.
  pose proof (WV_lit text _ _ _ HW eq_refl) as HW1. change (blen [60; 47]) with 2 in HW1.
  ib H q Hq. destruct q as [[pfx loc] s2].
  destruct (consume_qname_inv_u _ _ _ _ _ HW1 Hq) as (name & l2 & -> & Hn & -> & -> & -> & HW2).
  destruct (skip_spaces_inv_u _ l2 HW2) as (ws2 & l3 & -> & Hws & Hst & E3 & HW3). rewrite E3 in H.
  ib H s4 H4. destruct (consume_byte_inv text _ _ _ _ (WV_W _ _ _ HW3) H4) as (l' & -> & -> & _).
  assert (HW4 : WV (p + 2 + blen (utf8s name) + blen ws2 + 1) l') by (apply (WV_cons text _ _ _ HW3); lia).
  ib H c1 Hc. inversion H; subst. clear H. cbn [CstLex.st s_pos] in Hc.
  exists name, ws2, l'. split; [reflexivity|]. split; [exact Hn|]. split; [exact Hws|].
  split; [reflexivity|]. split; [exact HW4|exact Hc].
Qed.

(* ---- start tags ---- *)
Definition attr_raw_ok_u (a : Cst.attr) : bool :=
  Cst.wf_ws1 (Cst.a_ws a) && CstU.wf_name (Cst.a_name a) && Cst.wf_ws (Cst.a_ws1 a) && Cst.wf_ws (Cst.a_ws2 a) &&
  ((Cst.a_quote a =? 39) || (Cst.a_quote a =? 34)) &&
  forallb (fun x => CstU.is_char x && negb (x =? 60) && negb (x =? 38) && negb (x =? Cst.a_quote a)) (Cst.a_value a).

Lemma wf_attr_of_raw_u a : attr_raw_ok_u a = true ->
  forallb (fun x => negb (x =? 9) && negb (x =? 10)) (Cst.a_value a) = true -> CstU.wf_attr a = true.
Proof.
  unfold attr_raw_ok_u, CstU.wf_attr. intros H1 H2.
  repeat (apply andb_true_iff in H1; destruct H1 as [H1 ?]).
  repeat (apply andb_true_iff; split); auto.
  apply forallb_forall. intros x Hx. rewrite forallb_forall in H, H2.
  specialize (H x Hx). specialize (H2 x Hx).
  repeat (apply andb_true_iff in H; destruct H as [H ?]). apply andb_true_iff in H2. destruct H2.
  repeat (apply andb_true_iff; split); auto.
Qed.

Lemma forallb_Forall {A} (g : A -> bool) l : forallb g l = true -> Forall (fun x => g x = true) l.
Proof. intros H. apply Forall_forall. rewrite forallb_forall in H. exact H. Qed.

Lemma inv_elem_loop_u : forall fuel ts q l c open s' c', WV q l ->
  parse_element_loop text C ev fuel ts (st q l) c = Ok (open, s', c') ->
  exists attrs ws_end l' c2,
    l = flat_map Cst.r_attr (map CstU.enc_attr attrs) ++ ws_end ++ tag_tail (negb open) ++ l' /\
    forallb attr_raw_ok_u attrs = true /\ Cst.wf_ws ws_end = true /\
    evs (attr_toks q (map CstU.enc_attr attrs)) c = Ok c2 /\
    ev (end_tok (q + blen (flat_map Cst.r_attr (map CstU.enc_attr attrs)) + blen ws_end) (negb open)) c2 = Ok c' /\
    s' = st (q + blen (flat_map Cst.r_attr (map CstU.enc_attr attrs)) + blen ws_end + blen (tag_tail (negb open))) l' /\
    WV (q + blen (flat_map Cst.r_attr (map CstU.enc_attr attrs)) + blen ws_end + blen (tag_tail (negb open))) l'.
Proof.
  induction fuel as [|fu IH]; intros ts q l c open s' c' HW H; cbn [parse_element_loop] in H; [noerr|].
  pose proof (WV_W _ _ _ HW) as HW0.
  destruct (at_end (st q l)) eqn:Ea; [noerr|]. cbv zeta in H.
  rewrite starts_with_space_st in H by exact HW0.
  destruct (skip_spaces_inv_u q l HW) as (w & l1 & El & Hw & Hst & E1 & HW1). rewrite E1 in H.
  pose proof (WV_W _ _ _ HW1) as HW10.
  cbn [CstLex.st s_pos] in H. fold (CstLex.st text (q + blen w) l1) in H.
  ib H x Hx. destruct (curr_byte_inv text _ _ _ HW10 Hx) as (l2 & ->).
  destruct (x =? 47) eqn:E47.
  { assert (x = 47) by lia. subst x. rewrite (advance1_st text) in H by exact HW10. cbn [bind] in H.
    assert (HW2 : WV (q + blen w + 1) l2) by (apply (WV_cons text _ _ _ HW1); lia).
    ib H s2 H2. destruct (consume_byte_inv text _ _ _ _ (WV_W _ _ _ HW2) H2) as (l' & -> & -> & _).
    assert (HW3 : WV (q + blen w + 1 + 1) l') by (apply (WV_cons text _ _ _ HW2); lia).
    ib H c1 Hc. inversion H; subst. clear H. cbn [CstLex.st s_pos] in Hc.
    exists [], w, l', c. cbn [map flat_map negb tag_tail app CstLex.evs attr_toks]. rewrite blen_nil, N.add_0_r.
    change (blen [47; 62]) with 2.
    split; [reflexivity|]. split; [reflexivity|]. split; [exact Hw|]. split; [reflexivity|].
    replace (q + blen w + 2) with (q + blen w + 1 + 1) by lia.
    split; [|split; [reflexivity|exact HW3]].
    unfold end_tok. replace (q + blen w + 2) with (q + blen w + 1 + 1) by lia. exact Hc. }
  destruct (x =? 62) eqn:E62.
  { assert (x = 62) by lia. subst x. rewrite (advance1_st text) in H by exact HW10. cbn [bind] in H.
    ib H c1 Hc. inversion H; subst. clear H. cbn [CstLex.st s_pos] in Hc.
    exists [], w, l2, c. cbn [map flat_map negb tag_tail app CstLex.evs attr_toks]. rewrite blen_nil, N.add_0_r.
    change (blen [62]) with 1.
    split; [reflexivity|]. split; [reflexivity|]. split; [exact Hw|]. split; [reflexivity|].
    split; [exact Hc|]. split; [reflexivity|]. apply (WV_cons text _ _ _ HW1). lia. }
  ib H s1 H1.
  assert (Hs1 : s1 = st (q + blen w) (x :: l2) /\ w <> []).
  { subst l. destruct w as [|w0 wr].
    - cbn [app] in H1. cbn [stops] in Hst. rewrite Hst in H1.
      unfold consume_spaces in H1. rewrite (at_end_st text) in H1 by exact HW10.
      rewrite starts_with_space_st in H1 by exact HW10. rewrite Hst in H1. cbn [negb] in H1.
      ib H1 y Hy. noerr.
    - cbn [app] in H1. unfold Cst.wf_ws in Hw. cbn [forallb] in Hw. apply andb_true_iff in Hw.
      destruct Hw as [Hw0 _]. rewrite (ws_space _ Hw0) in H1. inversion H1. split; [reflexivity|discriminate]. }
  destruct Hs1 as [-> Hwne]. clear H1.
  ib H qn Hqn. destruct qn as [[pfx loc] s2].
  destruct (consume_qname_inv_u _ _ _ _ _ HW1 Hqn) as (name & l3 & En & Hname & -> & -> & -> & HW3).
  cbn [CstLex.st s_pos] in H. fold (CstLex.st text (q + blen w + blen (utf8s name)) l3) in H.
  ib H s3 H3. destruct (consume_eq_inv_u _ _ _ HW3 H3) as (w1 & w2 & l4 & -> & Hw1 & Hw2 & -> & HW4).
  ib H qq Hqq. destruct qq as [quote s4].
  destruct (consume_quote_inv text _ _ _ _ (WV_W _ _ _ HW4) Hqq) as (l5 & -> & Hquote & -> & _).
  assert (HW5 : WV (q + blen w + blen (utf8s name) + blen w1 + 1 + blen w2 + 1) l5)
    by (apply (WV_cons text _ _ _ HW4); lia).
  cbn [CstLex.st s_pos] in H.
  fold (CstLex.st text (q + blen w + blen (utf8s name) + blen w1 + 1 + blen w2 + 1) l5) in H.
  ib H s5 H5.
  destruct (advance_until2_inv text _ _ _ _ _ (WV_W _ _ _ HW5) H5) as (vb & cq & l6 & -> & Hv & Hcq & -> & HW60).
  assert (Hcq128 : cq < 128) by lia.
  pose proof (valid_split vb cq l6 Hcq128 (proj2 HW5)) as Hvb.
  destruct (Valid_scalars _ Hvb) as (v & Hvs & ->).
  pose proof (WV_app text _ _ _ HW5 Hvb) as HW6.
  ib H vsl Hvsl. unfold slice_back in Hvsl. apply mk_slice_sl in Hvsl. cbn [CstLex.st s_pos] in Hvsl. subst vsl.
  ib H u Hu. apply WfParseTok.is_xml_str_wf in Hu.
  rewrite (W_slice text _ (utf8s v) _ (WV_W _ _ _ HW5)) in Hu.
  pose proof (all_chars_utf8s v Hvs Hu) as Hcc.
  ib H s6 H6. destruct (consume_byte_inv text _ _ _ _ (WV_W _ _ _ HW6) H6) as (l7 & E7 & -> & _).
  inversion E7; subst cq l7. clear E7 Hcq.
  assert (HW7 : WV (q + blen w + blen (utf8s name) + blen w1 + 1 + blen w2 + 1 + blen (utf8s v) + 1) l6)
    by (apply (WV_cons text _ _ _ HW6); lia).
  ib H c1 Hc. cbn [CstLex.st s_pos] in Hc.
  destruct (IH _ _ _ _ _ _ _ HW7 H) as (attrs & ws_end & l' & c2 & -> & Hattrs & Hwe & Hevs & Hend & -> & HWe).
  set (a := {| Cst.a_ws := w; Cst.a_name := name; Cst.a_ws1 := w1; Cst.a_ws2 := w2;
               Cst.a_quote := quote; Cst.a_value := v |}).
  assert (Hq' : q + blen w + blen (utf8s name) + blen w1 + 1 + blen w2 + 1 + blen (utf8s v) + 1
                = q + blen (Cst.r_attr (CstU.enc_attr a))).
  { unfold Cst.r_attr, CstU.enc_attr, a. cbn [Cst.a_ws Cst.a_name Cst.a_ws1 Cst.a_ws2 Cst.a_quote Cst.a_value].
    rewrite !blen_app. change (blen [61]) with 1. change (blen [quote]) with 1. lia. }
  rewrite Hq' in *.
  exists (a :: attrs), ws_end, l', c2. cbn [map flat_map]. rewrite blen_app.
  replace (q + (blen (Cst.r_attr (CstU.enc_attr a)) + blen (flat_map Cst.r_attr (map CstU.enc_attr attrs)))) with
          (q + blen (Cst.r_attr (CstU.enc_attr a)) + blen (flat_map Cst.r_attr (map CstU.enc_attr attrs))) by lia.
  split.
  { assert (Era : Cst.r_attr (CstU.enc_attr a) =
                   w ++ utf8s name ++ w1 ++ [61] ++ w2 ++ [quote] ++ utf8s v ++ [quote]) by reflexivity.
    subst l. rewrite En, Era. rewrite <- !app_assoc. cbn [app]. rewrite <- ?app_assoc. reflexivity. }
  split.
  { cbn [forallb]. rewrite Hattrs, andb_true_r. unfold attr_raw_ok_u, a.
    cbn [Cst.a_ws Cst.a_name Cst.a_ws1 Cst.a_ws2 Cst.a_quote Cst.a_value].
    assert (Hws1 : Cst.wf_ws1 w = true) by (unfold Cst.wf_ws1; destruct w; [congruence|exact Hw]).
    rewrite Hws1, Hname, Hw1, Hw2. cbn [andb].
    assert (Hqq2 : ((quote =? 39) || (quote =? 34)) = true) by lia. rewrite Hqq2. cbn [andb].
    pose proof (W_SufU _ _ (WV_W _ _ _ HW5)) as HS. apply SufU_app_l in HS. destruct HS as [S13 S38 _].
    pose proof (scalars_ne 13 _ ltac:(lia) S13) as N13. pose proof (scalars_ne 38 _ ltac:(lia) S38) as N38.
    apply forallb_Forall in Hv.
    assert (Nq : Forall (fun x => x <> quote) v).
    { apply (scalars_ne quote v); [lia|]. eapply Forall_impl; [|exact Hv]. cbv beta. intros y Hy. lia. }
    assert (N60 : Forall (fun x => x <> 60) v).
    { apply (scalars_ne 60 v); [lia|]. eapply Forall_impl; [|exact Hv]. cbv beta. intros y Hy. lia. }
    apply forallb_forall. intros y Hy. unfold scalars_ok in Hvs. rewrite Forall_forall in N13, N38, Nq, N60, Hcc, Hvs.
    rewrite (uchar_intro y (Hvs y Hy) (Hcc y Hy) (N13 y Hy)). specialize (N38 y Hy). specialize (Nq y Hy).
    specialize (N60 y Hy). cbn [andb]. lia. }
  split; [exact Hwe|]. split; [|split; [exact Hend|split; [reflexivity|exact HWe]]].
  cbn [attr_toks CstLex.evs].
  assert (Etok : attr_tok q (CstU.enc_attr a) =
     TAttribute (q + blen w, q + blen (Cst.r_attr (CstU.enc_attr a)))
       (N.min (q + blen w + blen (utf8s name) - (q + blen w)) qname_len_sat)
       (N.min (q + blen w + blen (utf8s name) + blen w1 + 1 + blen w2 - (q + blen w + blen (utf8s name))) eq_len_sat)
       (sl (q + blen w) (q + blen w)) (sl (q + blen w) (q + blen w + blen (utf8s name)))
       (sl (q + blen w + blen (utf8s name) + blen w1 + 1 + blen w2 + 1)
           (q + blen w + blen (utf8s name) + blen w1 + 1 + blen w2 + 1 + blen (utf8s v)))).
  { rewrite <- Hq'. unfold attr_tok, CstU.enc_attr, a. cbv zeta.
    cbn [Cst.a_ws Cst.a_name Cst.a_ws1 Cst.a_ws2 Cst.a_quote Cst.a_value]. reflexivity. }
  rewrite Etok, Hc. cbn [bind]. exact Hevs.
Qed.

Lemma inv_element_u p l1 c open s' c' : WV p ([60] ++ l1) ->
  parse_element text C ev (st p ([60] ++ l1)) c = Ok (open, s', c') ->
  exists name attrs ws_end l' c1 c2,
    l1 = utf8s name ++ flat_map Cst.r_attr (map CstU.enc_attr attrs) ++ ws_end ++ tag_tail (negb open) ++ l' /\
    CstU.wf_name name = true /\ forallb attr_raw_ok_u attrs = true /\ Cst.wf_ws ws_end = true /\
    ev (TElementStart (sl (p + 1) (p + 1)) (sl (p + 1) (p + 1 + blen (utf8s name))) p) c = Ok c1 /\
    evs (attr_toks (p + 1 + blen (utf8s name)) (map CstU.enc_attr attrs)) c1 = Ok c2 /\
    ev (end_tok (p + 1 + blen (utf8s name) + blen (flat_map Cst.r_attr (map CstU.enc_attr attrs)) + blen ws_end) (negb open)) c2 = Ok c' /\
    s' = st (p + 1 + blen (utf8s name) + blen (flat_map Cst.r_attr (map CstU.enc_attr attrs)) + blen ws_end + blen (tag_tail (negb open))) l' /\
    WV (p + 1 + blen (utf8s name) + blen (flat_map Cst.r_attr (map CstU.enc_attr attrs)) + blen ws_end + blen (tag_tail (negb open))) l'.
Proof.
  intros HW H. pose proof (WV_W _ _ _ HW) as HW0. unfold parse_element in H. cbv zeta in H. cbn [CstLex.st s_pos] in H.
  fold (CstLex.st text p ([60] ++ l1)) in H.
  rewrite (advance_st text 1 p [60]) in H by (try reflexivity; exact HW0). cbn [bind] in H.
  pose proof (WV_lit text _ _ _ HW eq_refl) as HW1. change (blen [60]) with 1 in HW1.
  ib H qn Hqn. destruct qn as [[pfx loc] s2].
  destruct (consume_qname_inv_u _ _ _ _ _ HW1 Hqn) as (name & l2 & -> & Hname & -> & -> & -> & HW2).
  ib H c1 Hc1.
  destruct (inv_elem_loop_u _ _ _ _ _ _ _ _ HW2 H) as (attrs & ws_end & l' & c2 & -> & Ha & Hw & Hevs & Hend & -> & HWe).
  exists name, attrs, ws_end, l', c1, c2.
  split; [reflexivity|]. split; [exact Hname|]. split; [exact Ha|]. split; [exact Hw|].
  split; [exact Hc1|]. split; [exact Hevs|]. split; [exact Hend|]. split; [reflexivity|exact HWe].
Qed.

End ULexS.
