(* Proofs/CstFullS5Decl.v -- the capstone fragment, stage S5 (Spec/CstFullS5.v): the XML declaration.
   [decl_ok]: on the rendering of a well-formed XML declaration at the start of the stream
   starts_with_declaration holds and parse_declaration consumes exactly the declaration (no
   token is produced: the function does not even take the callback). *)
From Coq Require Import Ascii String.
From Coq Require Import List NArith PeanoNat Bool Lia ZifyBool ZifyN ZifyNat.
Import ListNotations.
From RX Require Import Generated.
From RX.Model Require Import Base CharClass Stream Tokenizer.
From RX.Spec Require Cst CstNs CstU Chars Scope.
From RX.Spec Require Import CstFull CstFullS5.
From RX.Proofs Require Import Tactics CstLex CstNsLex CstULex CstFullLex CstFullS2Sem.
From RX.Proofs Require Import CstFullS5Ws CstFullS5Dtd.
From RX.Proofs Require CstDoc CstTextLex CstEntDtd.
Open Scope N_scope.

Definition is_kw (name : bytes) : Prop := name = kw_version \/ name = kw_encoding \/ name = kw_standalone.

Lemma kw_qname name : is_kw name -> CstNs.r_qname (xq [] name) = name /\ uq_ok (xq [] name) /\ U8.Valid name.
Proof.
  intros [-> |[-> | ->]]; (split; [reflexivity|]); (split; [|apply Valid_lit; reflexivity]);
    (eexists []; eexists; split; [reflexivity|]; split; [left; reflexivity|vm_compute; reflexivity]).
Qed.

Definition r_pseudo_body (name : bytes) (p : pseudo) : bytes :=
  name ++ p_ws1 p ++ [61] ++ p_ws2 p ++ [p_quote p] ++ utf8s (p_value p) ++ [p_quote p].

Lemma r_pseudo_eq name p rest : r_pseudo name p ++ rest = p_ws p ++ r_pseudo_body name p ++ rest.
Proof. unfold r_pseudo, r_pseudo_body. rewrite <- !app_assoc. reflexivity. Qed.

Record pseudo_ok (p : pseudo) : Prop := {
  po_ws : p_ws p <> [] /\ wf_s (p_ws p) = true;
  po_ws1 : wf_s (p_ws1 p) = true;
  po_ws2 : wf_s (p_ws2 p) = true;
  po_quote : p_quote p = 39 \/ p_quote p = 34;
  po_value : forallb (fun x => Chars.xml_Char x && negb (x =? p_quote p) && negb (x =? 60)) (p_value p) = true
}.

Lemma pseudo_of p : wf_pseudo p = true -> pseudo_ok p.
Proof.
  unfold wf_pseudo. rewrite !andb_true_iff. intros [[[[H0 H1] H2] Hq] Hv].
  constructor; try assumption; [apply s1_parts; exact H0|apply is_quote_cases; exact Hq].
Qed.

Lemma pseudo_value_valid p : pseudo_ok p -> U8.Valid (utf8s (p_value p)).
Proof.
  intros [_ _ _ _ Hv]. apply Valid_utf8s, chars_scalars. apply uchars_of. revert Hv. apply forallb_imp.
  intros x Hx. rewrite !andb_true_iff in Hx. apply Hx.
Qed.

Lemma pseudo_body_valid name p : is_kw name -> pseudo_ok p -> U8.Valid (r_pseudo_body name p).
Proof.
  intros Hk Hp. destruct (kw_qname name Hk) as (_ & _ & Hv). pose proof (pseudo_value_valid p Hp) as Hvv.
  destruct Hp as [_ H1 H2 Hq _]. unfold r_pseudo_body.
  apply U8.Valid_app; [exact Hv|]. apply U8.Valid_app; [apply s_valid; exact H1|]. apply U8.Valid_app; [apply Valid_lit; reflexivity|].
  apply U8.Valid_app; [apply s_valid; exact H2|]. apply U8.Valid_app; [apply Valid_lit, quote_lit; exact Hq|].
  apply U8.Valid_app; [exact Hvv|apply Valid_lit, quote_lit; exact Hq].
Qed.

Lemma pseudo_valid name p : is_kw name -> pseudo_ok p -> U8.Valid (r_pseudo name p).
Proof.
  intros Hk Hp. rewrite <- (app_nil_r (r_pseudo name p)), r_pseudo_eq, app_nil_r.
  apply U8.Valid_app; [apply s_valid; apply (po_ws _ Hp)|apply pseudo_body_valid; assumption].
Qed.

Section Decl.
Variable text : bytes.

Notation W := (CstLex.W text).
Notation WV := (CstULex.WV text).
Notation st := (CstLex.st text).

Definition attr_f (quote : N) : stream -> N -> bool := fun _ ch => negb (ch =? quote) && negb (ch =? 60).

Lemma attr_walk quote l : forall v p,
  forallb (fun x => Chars.xml_Char x && negb (x =? quote) && negb (x =? 60)) v = true ->
  walk_u text (attr_f quote) p v l.
Proof.
  induction v as [|c v IH]; intros p H; cbn [walk_u]; [exact I|].
  cbn [forallb] in H. rewrite !andb_true_iff in H. destruct H as [[[Hc Hq] H60] Hv].
  destruct (CstTextLex.xml_Char_model c Hc) as (A & B0 & _).
  split; [exact A|]. split; [exact B0|]. split; [unfold attr_f; rewrite Hq, H60; reflexivity|apply IH; exact Hv].
Qed.

(* parse_attribute on  name Eq "value" *)
Lemma lex_pseudo_body p name ps rest : WV p (r_pseudo_body name ps ++ rest) -> is_kw name -> pseudo_ok ps ->
  parse_attribute text (st p (r_pseudo_body name ps ++ rest)) =
  Ok (sl p p, sl p (p + blen name), st (p + blen (r_pseudo_body name ps)) rest).
Proof.
  intros HW Hk Hp. destruct (kw_qname name Hk) as (Eq & Hu & Hvn). pose proof (pseudo_value_valid ps Hp) as Hvv.
  destruct Hp as [_ H1 H2 Hq Hv]. unfold r_pseudo_body in *. rewrite <- !app_assoc in *.
  unfold parse_attribute.
  rewrite <- Eq in HW |- * at 1.
  rewrite (consume_qname_full text (xq [] name) p _ HW Hu); [|apply s_stop_name; [exact H1|cbn [app name_stop]; apply not_name_byte_lit; auto]].
  cbn [bind]. rewrite Eq in *.
  pose proof (WV_app _ _ _ _ HW Hvn) as HW1.
  unfold consume_eq.
  rewrite (skip_spaces_st text); [|apply (WV_W _ _ _ HW1)|apply s_spaces; exact H1|reflexivity].
  pose proof (WV_lit _ _ _ _ HW1 (s_lit _ H1)) as HW2. cbn [app] in HW2 |- *.
  rewrite (consume_byte_st text) by (apply (WV_W _ _ _ HW2)). cbn [bind].
  pose proof (WV_cons _ _ _ _ HW2 ltac:(lia)) as HW3.
  rewrite (skip_spaces_st text); [|apply (WV_W _ _ _ HW3)|apply s_spaces; exact H2|cbn [stops]; apply CstEntDtd.quote_not_space; exact Hq].
  pose proof (WV_lit _ _ _ _ HW3 (s_lit _ H2)) as HW4. cbn [bind].
  rewrite (consume_quote_st text) by (try exact Hq; apply (WV_W _ _ _ HW4)). cbn [bind].
  pose proof (WV_cons _ _ _ _ HW4 ltac:(clear - Hq; lia)) as HW5.
  change (fun (_ : stream) (ch : N) => negb (ch =? p_quote ps) && negb (ch =? 60)) with (attr_f (p_quote ps)).
  unfold skip_chars.
  rewrite (skip_chars_loop_v text (attr_f (p_quote ps)) (p_value ps)); [|exact HW5|apply attr_walk; exact Hv| |].
  2:{ cbn [stop_u]. split; [clear - Hq; lia|]. split; [destruct Hq as [-> | ->]; reflexivity|]. unfold attr_f. rewrite N.eqb_refl. reflexivity. }
  2:{ cbn [CstLex.st s_rest]. rewrite app_length. pose proof (utf8s_len_le (p_value ps)). lia. }
  cbn [bind]. pose proof (WV_app _ _ _ _ HW5 Hvv) as HW6.
  unfold slice_back. cbn [CstLex.st s_pos]. rewrite (mk_slice_empty text _ _ HW6). cbn [bind].
  fold (st (p + blen name + blen (p_ws1 ps) + 1 + blen (p_ws2 ps) + 1 + blen (utf8s (p_value ps))) (p_quote ps :: rest)).
  rewrite (consume_byte_st text) by (apply (WV_W _ _ _ HW6)). cbn [bind].
  change (blen (CstNs.q_prefix (xq [] name))) with 0. change (q_off (xq [] name)) with 0. rewrite !N.add_0_r.
  f_equal. f_equal. f_equal. repeat (rewrite ?blen_app, ?blen_cons, ?blen_nil). clear. lia.
Qed.

Lemma kw_eqb name : is_kw name -> bytes_eqb name name = true.
Proof. intros [-> |[-> | ->]]; reflexivity. Qed.

(* parse_pseudo_attribute: the name read is exactly the keyword, without a prefix *)
Lemma lex_pseudo_attr p name ps rest : WV p (r_pseudo_body name ps ++ rest) -> is_kw name -> pseudo_ok ps ->
  parse_pseudo_attribute text name (st p (r_pseudo_body name ps ++ rest)) = Ok (st (p + blen (r_pseudo_body name ps)) rest).
Proof.
  intros HW Hk Hp. unfold parse_pseudo_attribute. cbv zeta.
  rewrite (lex_pseudo_body p name ps rest HW Hk Hp). cbn [bind].
  unfold slice_len, sl. cbn [sl_start sl_end]. rewrite N.sub_diag. change (0 =? 0) with true. cbn [negb orb].
  fold (sl p (p + blen name)).
  assert (E : slice_bytes text (sl p (p + blen name)) = name).
  { unfold r_pseudo_body in HW. rewrite <- app_assoc in HW. apply (W_slice text _ _ _ (WV_W _ _ _ HW)). }
  rewrite E, (kw_eqb name Hk). reflexivity.
Qed.

(* decl_consume_spaces *)
Lemma dcs_spaces p w l : W p (w ++ l) -> w <> [] -> wf_s w = true -> stops byte_is_space l ->
  decl_consume_spaces text (st p (w ++ l)) = Ok (st (p + blen w) l).
Proof.
  intros HW Hne Hw Hl. unfold decl_consume_spaces, starts_with_space. destruct w as [|x w]; [congruence|].
  cbn [app] in *. rewrite (curr_byte_opt_st text) by exact HW. destruct (s_head _ _ Hw) as (_ & _ & Hx). rewrite Hx.
  f_equal. change (x :: w ++ l) with ((x :: w) ++ l). apply (skip_spaces_st text); [exact HW|apply s_spaces; exact Hw|exact Hl].
Qed.

Lemma dcs_end p l : W p ([63; 62] ++ l) -> decl_consume_spaces text (st p ([63; 62] ++ l)) = Ok (st p ([63; 62] ++ l)).
Proof.
  intros HW. unfold decl_consume_spaces, starts_with_space. cbn [app] in *. rewrite (curr_byte_opt_st text) by exact HW.
  change (byte_is_space 63) with false. cbv iota. rewrite (starts_with_st text) by exact HW.
  change (b "?>") with [63; 62]. cbn [prefix_b]. rewrite !N.eqb_refl. reflexivity.
Qed.

(* white space (possibly none), then something that is not white space: "?>" or a keyword *)
Lemma dcs_any p w l : W p (w ++ l) -> wf_s w = true -> stops byte_is_space l ->
  (w = [] -> exists l', l = [63; 62] ++ l') ->
  decl_consume_spaces text (st p (w ++ l)) = Ok (st (p + blen w) l).
Proof.
  intros HW Hw Hl He. destruct w as [|x w].
  - destruct (He eq_refl) as [l' ->]. cbn [app] in *. rewrite blen_nil, N.add_0_r. apply (dcs_end p l' HW).
  - apply dcs_spaces; [exact HW|discriminate|exact Hw|exact Hl].
Qed.

Definition r_tail (x : xmldecl) (rest : bytes) : bytes := xd_ws x ++ [63; 62] ++ rest.

Lemma xmldecl_eq x rest :
  r_xmldecl x ++ rest = kw_xml ++ r_pseudo kw_version (xd_version x) ++ r_opt (r_pseudo kw_encoding) (xd_encoding x)
                        ++ r_opt (r_pseudo kw_standalone) (xd_standalone x) ++ r_tail x rest.
Proof. unfold r_xmldecl, r_tail. rewrite <- !app_assoc. reflexivity. Qed.

Lemma opt_pseudo_valid name o : is_kw name -> wf_opt wf_pseudo o = true -> U8.Valid (r_opt (r_pseudo name) o).
Proof. intros Hk H. destruct o as [p|]; cbn [r_opt wf_opt] in *; [apply pseudo_valid; [exact Hk|apply pseudo_of; exact H]|constructor]. Qed.

Lemma xmldecl_valid x : wf_xmldecl x = true -> U8.Valid (r_xmldecl x).
Proof.
  unfold wf_xmldecl. rewrite !andb_true_iff. intros [[[Hv He] Hs] Hw]. unfold r_xmldecl.
  apply U8.Valid_app; [apply Valid_lit; reflexivity|].
  apply U8.Valid_app; [apply pseudo_valid; [left; reflexivity|apply pseudo_of; exact Hv]|].
  apply U8.Valid_app; [apply opt_pseudo_valid; [right; left; reflexivity|exact He]|].
  apply U8.Valid_app; [apply opt_pseudo_valid; [right; right; reflexivity|exact Hs]|].
  apply U8.Valid_app; [apply s_valid; exact Hw|apply Valid_lit; reflexivity].
Qed.

Lemma kw_stops name l : is_kw name -> stops byte_is_space (name ++ l).
Proof. intros [-> |[-> | ->]]; reflexivity. Qed.

Theorem decl_ok p x rest : WV p (r_xmldecl x ++ rest) -> wf_xmldecl x = true ->
  starts_with_declaration (st p (r_xmldecl x ++ rest)) = true /\
  parse_declaration text (st p (r_xmldecl x ++ rest)) = Ok (st (p + blen (r_xmldecl x)) rest).
Proof.
  intros HWv Hwf. unfold wf_xmldecl in Hwf. rewrite !andb_true_iff in Hwf. destruct Hwf as [[[Hv He] Hs] Hw].
  pose proof (pseudo_of _ Hv) as Pv.
  assert (Elen : p + blen (r_xmldecl x) = p + blen (r_xmldecl x ++ rest) - blen rest) by (rewrite blen_app; lia).
  rewrite Elen. clear Elen.
  rewrite xmldecl_eq in *. pose proof (WV_W _ _ _ HWv) as HW.
  set (enc := xd_encoding x) in *. set (sa := xd_standalone x) in *.
  destruct (po_ws _ Pv) as [Hnev Hwv].
  split.
  { unfold starts_with_declaration. rewrite (starts_with_st text), (avail_st text) by exact HW.
    change (b "<?xml") with kw_xml. rewrite prefix_b_app_same. cbn [andb].
    rewrite r_pseudo_eq. destruct (p_ws (xd_version x)) as [|w0 wr]; [congruence|].
    cbn [kw_xml app nth_error]. apply (s_head _ _ Hwv). }
  unfold parse_declaration.
  rewrite (advance_st text 5 p kw_xml) by (try reflexivity; exact HW). cbn [bind].
  pose proof (WV_lit _ _ _ _ HWv (eq_refl : forallb (fun y => y <? 128) kw_xml = true)) as HW1. change (blen kw_xml) with 5 in HW1.
  rewrite r_pseudo_eq in *.
  rewrite dcs_spaces; [|apply (WV_W _ _ _ HW1)|exact Hnev|exact Hwv|reflexivity]. cbn [bind].
  pose proof (WV_lit _ _ _ _ HW1 (s_lit _ Hwv)) as HW2.
  rewrite (starts_with_st text) by (apply (WV_W _ _ _ HW2)).
  replace (prefix_b (b "version") (r_pseudo_body kw_version (xd_version x) ++ r_opt (r_pseudo kw_encoding) enc ++
                                     r_opt (r_pseudo kw_standalone) sa ++ r_tail x rest)) with true
    by (unfold r_pseudo_body; rewrite <- !app_assoc; change (b "version") with kw_version; rewrite prefix_b_app_same; reflexivity).
  cbn [negb].
  change (parse_pseudo_attribute text (b "version")) with (parse_pseudo_attribute text kw_version).
  rewrite (lex_pseudo_attr _ kw_version _ _ HW2 (or_introl eq_refl) Pv). cbn [bind].
  pose proof (WV_app _ _ _ _ HW2 (pseudo_body_valid kw_version _ (or_introl eq_refl) Pv)) as HW3.
  set (p3 := p + 5 + blen (p_ws (xd_version x)) + blen (r_pseudo_body kw_version (xd_version x))) in *.
  (* what follows the version *)
  assert (Hnext : exists w l, r_opt (r_pseudo kw_encoding) enc ++ r_opt (r_pseudo kw_standalone) sa ++ r_tail x rest = w ++ l /\
                  wf_s w = true /\ stops byte_is_space l /\ (w = [] -> exists l', l = [63; 62] ++ l') /\
                  l = match enc with
                      | Some e => r_pseudo_body kw_encoding e ++ r_opt (r_pseudo kw_standalone) sa ++ r_tail x rest
                      | None => match sa with
                                | Some s => r_pseudo_body kw_standalone s ++ r_tail x rest
                                | None => [63; 62] ++ rest
                                end
                      end).
  { destruct enc as [e|]; cbn [r_opt wf_opt] in *.
    - pose proof (pseudo_of _ He) as Pe. destruct (po_ws _ Pe) as [Hnee Hwe]. rewrite r_pseudo_eq.
      exists (p_ws e). eexists. split; [reflexivity|]. split; [exact Hwe|]. split; [reflexivity|]. split; [congruence|reflexivity].
    - cbn [app]. destruct sa as [s|]; cbn [r_opt wf_opt] in *.
      + pose proof (pseudo_of _ Hs) as Ps. destruct (po_ws _ Ps) as [Hnes Hws]. rewrite r_pseudo_eq.
        exists (p_ws s). eexists. split; [reflexivity|]. split; [exact Hws|]. split; [reflexivity|]. split; [congruence|reflexivity].
      + cbn [app]. unfold r_tail. exists (xd_ws x). eexists. split; [reflexivity|]. split; [exact Hw|]. split; [reflexivity|].
        split; [intros _; eexists; reflexivity|reflexivity]. }
  destruct Hnext as (w3 & l3 & E3 & Hw3 & Hl3 & He3 & El3). rewrite E3 in *.
  rewrite dcs_any; [|apply (WV_W _ _ _ HW3)|exact Hw3|exact Hl3|exact He3]. cbn [bind].
  pose proof (WV_lit _ _ _ _ HW3 (s_lit _ Hw3)) as HW4. pose proof (WV_W _ _ _ HW4) as HW4'.
  set (p4 := p3 + blen w3) in *.
  rewrite (starts_with_st text) by exact HW4'.
  destruct enc as [e|]; cbn [r_opt wf_opt] in *.
  - (* encoding *)
    pose proof (pseudo_of _ He) as Pe. subst l3.
    replace (prefix_b (b "encoding") (r_pseudo_body kw_encoding e ++ r_opt (r_pseudo kw_standalone) sa ++ r_tail x rest)) with true
      by (unfold r_pseudo_body; rewrite <- !app_assoc; change (b "encoding") with kw_encoding; rewrite prefix_b_app_same; reflexivity).
    change (parse_pseudo_attribute text (b "encoding")) with (parse_pseudo_attribute text kw_encoding).
    rewrite (lex_pseudo_attr _ kw_encoding _ _ HW4 (or_intror (or_introl eq_refl)) Pe). cbn [bind].
    pose proof (WV_app _ _ _ _ HW4 (pseudo_body_valid kw_encoding _ (or_intror (or_introl eq_refl)) Pe)) as HW5.
    set (p5 := p4 + blen (r_pseudo_body kw_encoding e)) in *.
    destruct sa as [s|]; cbn [r_opt wf_opt] in *.
    + pose proof (pseudo_of _ Hs) as Ps. destruct (po_ws _ Ps) as [Hnes Hws]. rewrite r_pseudo_eq in *.
      rewrite dcs_spaces; [|apply (WV_W _ _ _ HW5)|exact Hnes|exact Hws|reflexivity]. cbn [bind].
      pose proof (WV_lit _ _ _ _ HW5 (s_lit _ Hws)) as HW6.
      rewrite (starts_with_st text) by (apply (WV_W _ _ _ HW6)).
      replace (prefix_b (b "standalone") (r_pseudo_body kw_standalone s ++ r_tail x rest)) with true
        by (unfold r_pseudo_body; rewrite <- !app_assoc; change (b "standalone") with kw_standalone; rewrite prefix_b_app_same; reflexivity).
      change (parse_pseudo_attribute text (b "standalone")) with (parse_pseudo_attribute text kw_standalone).
      rewrite (lex_pseudo_attr _ kw_standalone _ _ HW6 (or_intror (or_intror eq_refl)) Ps). cbn [bind].
      pose proof (WV_app _ _ _ _ HW6 (pseudo_body_valid kw_standalone _ (or_intror (or_intror eq_refl)) Ps)) as HW7.
      unfold r_tail in *.
      rewrite (skip_spaces_st text); [|apply (WV_W _ _ _ HW7)|apply s_spaces; exact Hw|reflexivity].
      pose proof (W_app _ _ _ _ (WV_W _ _ _ HW7)) as HW8.
      rewrite (skip_string_st text) by exact HW8.
      f_equal. f_equal. unfold p5, p4, p3. repeat (rewrite ?blen_app, ?blen_cons, ?blen_nil). change (blen kw_xml) with 5. clear. lia.
    + cbn [app] in *. unfold r_tail in *.
      rewrite dcs_any; [|apply (WV_W _ _ _ HW5)|exact Hw|reflexivity|intros _; eexists; reflexivity]. cbn [bind].
      pose proof (W_app _ _ _ _ (WV_W _ _ _ HW5)) as HW6.
      rewrite (starts_with_st text) by exact HW6. change (prefix_b (b "standalone") ([63; 62] ++ rest)) with false. cbn [bind].
      rewrite (CstDoc.skip_spaces_none text) by (try exact HW6; reflexivity).
      rewrite (skip_string_st text) by exact HW6.
      f_equal. f_equal. unfold p5, p4, p3. repeat (rewrite ?blen_app, ?blen_cons, ?blen_nil). change (blen kw_xml) with 5. clear. lia.
  - destruct sa as [s|]; cbn [r_opt wf_opt] in *.
    + (* standalone only *)
      pose proof (pseudo_of _ Hs) as Ps. subst l3.
      replace (prefix_b (b "encoding") (r_pseudo_body kw_standalone s ++ r_tail x rest)) with false by reflexivity.
      cbn [bind]. rewrite (starts_with_st text) by exact HW4'.
      replace (prefix_b (b "standalone") (r_pseudo_body kw_standalone s ++ r_tail x rest)) with true
        by (unfold r_pseudo_body; rewrite <- !app_assoc; change (b "standalone") with kw_standalone; rewrite prefix_b_app_same; reflexivity).
      change (parse_pseudo_attribute text (b "standalone")) with (parse_pseudo_attribute text kw_standalone).
      rewrite (lex_pseudo_attr _ kw_standalone _ _ HW4 (or_intror (or_intror eq_refl)) Ps). cbn [bind].
      pose proof (WV_app _ _ _ _ HW4 (pseudo_body_valid kw_standalone _ (or_intror (or_intror eq_refl)) Ps)) as HW5.
      unfold r_tail in *.
      rewrite (skip_spaces_st text); [|apply (WV_W _ _ _ HW5)|apply s_spaces; exact Hw|reflexivity].
      pose proof (W_app _ _ _ _ (WV_W _ _ _ HW5)) as HW6.
      rewrite (skip_string_st text) by exact HW6.
      f_equal. f_equal. unfold p4, p3. repeat (rewrite ?blen_app, ?blen_cons, ?blen_nil). change (blen kw_xml) with 5. clear. lia.
    + (* version only *)
      subst l3.
      change (prefix_b (b "encoding") ([63; 62] ++ rest)) with false. cbn [bind].
      rewrite (starts_with_st text) by exact HW4'. change (prefix_b (b "standalone") ([63; 62] ++ rest)) with false. cbn [bind].
      rewrite (CstDoc.skip_spaces_none text) by (try exact HW4'; reflexivity).
      rewrite (skip_string_st text) by exact HW4'.
      f_equal. f_equal. unfold p4, p3. repeat (rewrite ?blen_app, ?blen_cons, ?blen_nil). change (blen kw_xml) with 5. clear. lia.
Qed.

End Decl.

Print Assumptions decl_ok.
