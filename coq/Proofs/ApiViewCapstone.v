(* Proofs/ApiViewCapstone.v -- the capstone theorems restated for what a user of the crate OBSERVES: the view computed
   through the public API (Proofs/ApiView.v) instead of the view that reads the arena.
     parse_render_sem_full_s6_api   Spec/CstFullS6.v, the whole supported subset (namespace-aware view)
     parse_render_sem_api           Spec/Cst.v, the first fragment (namespace-free view)
   The extra hypothesis [nodes_limit opt <= u32_max] is a typing fact of the crate (the field is a u32). *)
From Coq Require Import Ascii String.
From Coq Require Import List NArith Bool Lia.
Import ListNotations.
From RX Require Import Generated.
From RX.Model Require Import Base Stream Tokenizer Doc Builder Parse.
From RX.Spec Require Cst CstNs.
From RX.Spec Require Import CstFull CstFullS6.
From RX.Proofs Require Import NoPanicUtf8.
From RX.Proofs Require CstLex CstULex CstDoc CstMain CstNsView CstFullS6Main.
From RX.Proofs Require Import ApiView ApiViewProofs.
Open Scope N_scope.

Theorem parse_render_sem_full_s6_api : forall (d : S6.doc) (opt : options),
  S6.wf_doc d = true ->
  (S6.has_dtd d = true -> allow_dtd opt = true) ->
  nodes_limit opt <= u32_max ->                                    (* a u32 *)
  N.of_nat (length (S6.sem d)) < nodes_limit opt ->
  N.of_nat (length (S6.sem d)) < u32_max ->
  N.of_nat (S6.nattrs d) < u32_max ->
  S6.distinct_decls_le d (N.to_nat 65535) ->
  1 + N.of_nat (S6.ns_cost d) <= u32_max ->
  exists doc, parse (S6.render d) opt = Ok doc /\ api_view (S6.render d) doc = Some (S6.sem d).
Proof.
  intros d opt Hwf Hdtd Hu Hlim Hmax Hattr Hdist Hcost.
  destruct (CstFullS6Main.parse_render_sem_full_s6 d opt Hwf Hdtd Hlim Hmax Hattr Hdist Hcost) as (doc & P & V).
  exists doc. split; [exact P|].
  rewrite (api_view_agrees (S6.render d) opt doc (CstFullS6Main.render_valid_utf8_s6 d Hwf) Hu P). exact V.
Qed.
Print Assumptions parse_render_sem_full_s6_api.

(* documents with the same meaning are indistinguishable through the API *)
Theorem hoist_prolog_insensitive_full_s6_api : forall (d1 d2 : S6.doc) opt,
  S6.wf_doc d1 = true -> S6.wf_doc d2 = true -> allow_dtd opt = true -> nodes_limit opt <= u32_max -> S6.sem d1 = S6.sem d2 ->
  N.of_nat (length (S6.sem d1)) < nodes_limit opt -> N.of_nat (length (S6.sem d1)) < u32_max ->
  N.of_nat (S6.nattrs d1) < u32_max ->
  S6.distinct_decls_le d1 (N.to_nat 65535) -> S6.distinct_decls_le d2 (N.to_nat 65535) ->
  1 + N.of_nat (S6.ns_cost d1) <= u32_max -> 1 + N.of_nat (S6.ns_cost d2) <= u32_max ->
  exists x1 x2, parse (S6.render d1) opt = Ok x1 /\ parse (S6.render d2) opt = Ok x2 /\
                api_view (S6.render d1) x1 = api_view (S6.render d2) x2.
Proof.
  intros d1 d2 opt W1 W2 Hdtd Hu E L Mx At D1 D2 C1 C2.
  assert (At2 : S6.nattrs d2 = S6.nattrs d1) by (unfold S6.nattrs; rewrite E; reflexivity).
  destruct (parse_render_sem_full_s6_api d1 opt W1 (fun _ => Hdtd) Hu L Mx At D1 C1) as (x1 & P1 & V1).
  destruct (parse_render_sem_full_s6_api d2 opt W2 (fun _ => Hdtd) Hu ltac:(rewrite <- E; exact L) ltac:(rewrite <- E; exact Mx) ltac:(rewrite At2; exact At) D2 C2)
    as (x2 & P2 & V2).
  exists x1, x2. split; [exact P1|]. split; [exact P2|]. rewrite V1, V2, E. reflexivity.
Qed.
Print Assumptions hoist_prolog_insensitive_full_s6_api.

Lemma asc_valid_utf8 l : CstDoc.asc l -> valid_utf8_b l = true.
Proof.
  intros H. apply valid_iff_Valid. apply CstULex.Valid_lit. apply forallb_forall. intros x Hx.
  unfold CstDoc.asc in H. rewrite Forall_forall in H. specialize (H x Hx). lia.
Qed.

Theorem parse_render_sem_api : forall (c : Cst.doc) (opt : options),
  Cst.wf_doc c = true ->
  nodes_limit opt <= u32_max ->                                    (* a u32 *)
  N.of_nat (length (Cst.sem c)) < nodes_limit opt ->
  N.of_nat (length (Cst.render c)) <= u32_max ->
  exists d, parse (Cst.render c) opt = Ok d /\ api_view0 (Cst.render c) d = Some (Cst.sem c).
Proof.
  intros c opt Hwf Hu Hlim Hsz. destruct (CstMain.parse_render_sem c opt Hwf Hlim Hsz) as (d & P & V & _).
  exists d. split; [exact P|].
  rewrite (api_view0_agrees (Cst.render c) opt d (asc_valid_utf8 _ (CstDoc.render_asc c Hwf)) Hu P), V. reflexivity.
Qed.
Print Assumptions parse_render_sem_api.
