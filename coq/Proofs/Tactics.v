(* Proofs/Tactics.v -- inversion of the result monad, shared by the proof files. *)
From RX.Model Require Import Base.

Lemma bind_ok {A B} (r : res A) (f : A -> res B) (y : B) :
  bind r f = Ok y -> exists a, r = Ok a /\ f a = Ok y.
Proof. destruct r; simpl; intros H; try discriminate; eauto. Qed.

Lemma bind_err {A B} (r : res A) (f : A -> res B) (e : error) :
  bind r f = Err e -> r = Err e \/ exists a, r = Ok a /\ f a = Err e.
Proof. destruct r; simpl; intros H; try discriminate; eauto. left; congruence. Qed.

Lemma bind_panic {A B} (r : res A) (f : A -> res B) (p : panic_site) :
  bind r f = Panic p -> r = Panic p \/ exists a, r = Ok a /\ f a = Panic p.
Proof. destruct r; simpl; intros H; try discriminate; eauto. left; congruence. Qed.

Lemma bind_fuel {A B} (r : res A) (f : A -> res B) :
  bind r f = OutOfFuel -> r = OutOfFuel \/ exists a, r = Ok a /\ f a = OutOfFuel.
Proof. destruct r; simpl; intros H; try discriminate; eauto. Qed.

Lemma bind_Ok_l {A B} (a : A) (f : A -> res B) : bind (Ok a) f = f a.
Proof. reflexivity. Qed.

(* invert [H : bind r f = Ok y] into [r = Ok a] and [f a = Ok y] *)
Ltac inv_bind H :=
  let a := fresh "a" in
  let H1 := fresh "Hb" in
  let H2 := fresh "Hk" in
  apply bind_ok in H; destruct H as [a [H1 H2]].
