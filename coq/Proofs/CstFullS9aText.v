(* Proofs/CstFullS9aText.v -- the capstone fragment, stage S9 (Spec/CstFullS9.v): Proofs/CstFullS3Text.v for references whose
   name is a Name with colons (Proofs/CstFullS9aSem.v [uname]).  An adapted copy: new are skip_name / consume_name on
   such names in a bounded stream ([consume_name_sst7]); [uname_first] and [cref_entity_u] use them. *)
From Coq Require Import Ascii String.
From Coq Require Import List NArith PeanoNat Bool Lia ZifyBool ZifyN ZifyNat.
Import ListNotations.
From RX Require Import Generated.
From RX.Model Require Import Base CharClass Stream Tokenizer Doc Builder Parse.
From RX.Spec Require Cst CstText CstEnt Detector Scope CstU.
From RX.Spec Require Import Text CstFull.
From RX.Spec Require Chars CstFullS7.
From RX.Proofs Require Import Tactics CstLex CstBuild CstULex TextMachine TextMerge HoistProofs NoPanicUtf8 DetectorProofs.
From RX.Proofs Require Import CstTextSem CstTextLex CstTextBuild CstEntSem CstNsBuild CstFullLex.
From RX.Proofs Require Import CstFullS2Sem CstFullS2Lex CstFullS2Build CstFullS9aSem.
From RX.Proofs Require CstEntText CstFullS7Lex.
From RX.Proofs Require Import CstEntRun.
Open Scope N_scope.

Notation same_frame := CstEntText.same_frame.
Notation Run := CstEntText.Run.
Notation Run_frame := CstEntText.Run_frame.
Notation Run_entities := CstEntText.Run_entities.
Notation Run_pp := CstEntText.Run_pp.


(* ---- skip_name / consume_name on a Name with colons, in a bounded stream (Proofs/CstFullS2Lex.v) ---- *)
Lemma skip_name_loop_sst7 e : forall x p l fuel,
  forallb Chars.xml_NameChar x = true -> name_stop l -> l <> [] -> p + blen (utf8s x) < e -> (length x < fuel)%nat ->
  skip_name_loop fuel (sst e p (utf8s x ++ l)) = Ok (sst e (p + blen (utf8s x)) l).
Proof.
  induction x as [|c x IH]; intros p l fuel Hx Hl Hne He Hf.
  - cbn [CstU.utf8s flat_map app] in *. rewrite blen_nil, N.add_0_r in *. destruct fuel as [|fu]; [cbn in Hf; lia|].
    cbn [skip_name_loop]. destruct l as [|c l]; [congruence|]. destruct Hl as (H1 & H2 & H3).
    rewrite next_char_sst by assumption. cbn [bind].
    rewrite char_is_name_ascii by exact H1. rewrite H3. reflexivity.
  - destruct fuel as [|fu]; [cbn in Hf; lia|]. cbn [length] in Hf.
    cbn [forallb] in Hx. apply andb_true_iff in Hx. destruct Hx as [Hc Hx].
    destruct (CstFullS7Lex.name7_char_facts _ Hc) as (Hs & Hn).
    rewrite utf8s_cons, <- app_assoc in *. rewrite blen_app in He.
    cbn [skip_name_loop]. rewrite next_char_sst_u by (try exact Hs; lia). cbn [bind]. rewrite Hn.
    rewrite advance_sst_u by lia. cbn [bind].
    rewrite IH; [|exact Hx|exact Hl|exact Hne|lia|lia]. rewrite blen_app, N.add_assoc. reflexivity.
Qed.

Lemma consume_name_sst7 text e name p l : CstULex.WV text p (utf8s name ++ l) -> CstFullS7.wf_name7 name = true -> name_stop l -> l <> [] ->
  p + blen (utf8s name) < e -> e <= tlen text ->
  consume_name text (sst e p (utf8s name ++ l)) = Ok (sl p (p + blen (utf8s name)), sst e (p + blen (utf8s name)) l).
Proof.
  intros HW Hn Hl Hne He Hle. unfold consume_name, skip_name. cbn [sst s_pos].
  destruct (CstFullS7Lex.wf_name7_parts name Hn) as (c & x & E & Hc & Hx). subst name.
  assert (Hv : U8.Valid (utf8s (c :: x))) by (apply Valid_utf8s; apply CstFullS7Lex.name7_scalars; exact Hx).
  cbn [forallb] in Hx. apply andb_true_iff in Hx. destruct Hx as [Hc' Hx].
  destruct (CstFullS7Lex.name7_start_facts c Hc) as (_ & Hcs). destruct (CstFullS7Lex.name7_char_facts c Hc') as (Hs & _).
  rewrite utf8s_cons, <- app_assoc in *. rewrite blen_app in He.
  fold (sst e p (utf8 c ++ utf8s x ++ l)). rewrite next_char_sst_u by (try exact Hs; lia). cbn [bind]. rewrite Hcs.
  rewrite advance_sst_u by lia. cbn [bind].
  rewrite skip_name_loop_sst7; [|exact Hx|exact Hl|exact Hne|lia|].
  2:{ cbn [sst s_rest]. rewrite app_length. pose proof (utf8s_len_le x). lia. }
  cbn [bind]. unfold slice_back. cbn [sst s_pos].
  rewrite <- N.add_assoc, <- blen_app.
  rewrite (CstULex.mk_slice_v text p (utf8 c ++ utf8s x) l); [|rewrite <- app_assoc; exact HW|rewrite <- utf8s_cons; exact Hv].
  cbn [bind]. unfold slice_len. cbn [sl sl_start sl_end].
  pose proof (utf8_len c) as Hlen.
  replace (p + blen (utf8 c ++ utf8s x) - p =? 0) with false by (rewrite blen_app; lia).
  reflexivity.
Qed.

(* one more fragment (with the namespace invariant) *)
Lemma run_append_n text D inh t r c0 c frs : Run c0 c frs -> CstNsBuild.CIn text D inh c0 -> (frs = [] -> room c0) -> c_after_text c0 = [] ->
  exists c', append_text t r c = Ok c' /\ Run c0 c' (frs ++ [t]) /\
             c_ld c' = c_ld c /\ c_tag_name c' = c_tag_name c /\ c_entity_floor c' = c_entity_floor c.
Proof.
  intros HR I R0 Hat. destruct frs as [|t0 rest].
  - pose proof (R0 eq_refl) as R. cbn [CstEntText.Run app] in *. pose proof HR as (H1 & H2 & H3 & H4 & H5 & H6 & H7 & H8 & H9).
    destruct (first_frag_n text D inh t r c0 I R Hat) as (nodes' & E & M & Ln).
    assert (Hatc : c_after_text c = []) by (rewrite <- H7; exact Hat).
    unfold append_text in E |- *. rewrite Hat in E. rewrite Hatc. fold (cow_storage t) in E |- *.
    pose proof (CstEntText.append_node_frame (KText (cow_storage t)) r c0 c HR) as Hf.
    destruct (append_node (KText (cow_storage t)) r c0) as [[i a']| | |]; cbn [bind] in E; try discriminate.
    destruct (append_node (KText (cow_storage t)) r c) as [[j b']| | |]; try contradiction.
    destruct Hf as (_ & S & L1 & L2 & L3). cbn [bind]. eexists. split; [reflexivity|].
    apply CstEntText.Ok_inj in E. split.
    + exists nodes'. split; [exact M|]. rewrite <- E.
      destruct S as (S1 & S2 & S3 & S4 & S5 & S6 & S7 & S8 & S9).
      unfold CstEntText.same_frame. cbn. repeat split; try assumption. rewrite S7. reflexivity.
    + cbn. auto.
  - cbn [CstEntText.Run] in HR. destruct HR as (nodes' & M & S).
    assert (Hne : c_after_text c = t0 :: rest) by (destruct S as (_ & _ & _ & _ & _ & _ & S7 & _); rewrite <- S7; reflexivity).
    rewrite append_text_cont by (rewrite Hne; discriminate). eexists. split; [reflexivity|]. split; [|cbn; auto].
    cbn [app CstEntText.Run]. exists nodes'. split; [exact M|]. rewrite Hne.
    destruct S as (S1 & S2 & S3 & S4 & S5 & S6 & S7 & S8 & S9). unfold CstEntText.same_frame. cbn in *. repeat split; assumption.
Qed.

(* ------------------------------------------------------------------------------------------ *)
(* lexing on a sub-range: a text token that extends to the end of the range                    *)
(* ------------------------------------------------------------------------------------------ *)
Section Sub.
Variable text : bytes.
Notation W := (CstLex.W text).
Notation WV := (CstULex.WV text).

Lemma skip_chars_loop_sst_u f e : forall cs p tail fuel,
  (forall s c, In c cs -> f s c = true) -> uchars cs ->
  p + blen (utf8s cs) = e -> (length cs < fuel)%nat ->
  skip_chars_loop text fuel f (sst e p (utf8s cs ++ tail)) = Ok (sst e e tail).
Proof.
  induction cs as [|c cs IH]; intros p tail fuel Hf Hx He Hfu.
  - cbn [CstU.utf8s flat_map app] in *. rewrite blen_nil, N.add_0_r in He. subst p. destruct fuel as [|fu]; [cbn in Hfu; lia|].
    cbn [skip_chars_loop]. unfold next_char. rewrite at_end_sst. replace (e <=? e) with true by lia. reflexivity.
  - destruct fuel as [|fu]; [cbn in Hfu; lia|]. cbn [length] in Hfu. rewrite utf8s_cons, <- app_assoc in *. rewrite blen_app in He.
    inversion Hx as [|? ? [Hs Hc] Hx']; subst.
    cbn [skip_chars_loop]. rewrite next_char_sst_u by (try exact Hs; lia). cbn [bind]. rewrite Hc. cbn [negb].
    rewrite Hf by (left; reflexivity). rewrite advance_sst_u by lia. cbn [bind].
    apply IH; [intros s c0 Hin; apply Hf; right; exact Hin|exact Hx'|lia|lia].
Qed.

Variable C : Type.
Variable ev : Tokenizer.token -> C -> res C.

(* the whole range is one text token *)
Lemma parse_text_sst_u e p x tail c : WV p (x ++ tail) -> p + blen x = e -> e <= tlen text ->
  ustr x -> forallb (fun y => negb (y =? 60)) x = true -> contains_b n3 x = false ->
  parse_text text C ev (sst e p (x ++ tail)) c =
  let! c' := ev (TText (sl p e) (p, e)) c in Ok (sst e e tail, c').
Proof.
  intros HW He Hle (cs & -> & Hu) Hx Hc. unfold parse_text. cbv zeta. unfold consume_chars, skip_chars.
  rewrite (skip_chars_loop_sst_u _ e cs p tail); [| |exact Hu|exact He|cbn [sst s_rest]; rewrite app_length; pose proof (utf8s_len_le cs); lia].
  2:{ intros s c0 Hin. pose proof (no60_scalars cs Hx) as H60. rewrite forallb_forall in H60. apply H60. exact Hin. }
  cbn [bind]. unfold slice_back. cbn [sst s_pos].
  rewrite <- He. rewrite (mk_slice_v text p (utf8s cs) tail HW) by (apply Valid_utf8s; apply chars_scalars; exact Hu). cbn [bind].
  rewrite (W_slice _ _ _ _ (WV_W _ _ _ HW)).
  change (b "]]>") with n3. rewrite Hc, andb_false_r. cbn [sst s_pos]. reflexivity.
Qed.

End Sub.

(* the content parser on a range that is character data only: one text token *)
Lemma content_loop_text_ne_u text C ev e p x tail (c : C) fuel :
  CstULex.WV text p (x ++ tail) -> p + blen x = e -> e <= tlen text ->
  ustr x -> forallb (fun y => negb (y =? 60)) x = true -> contains_b n3 x = false -> x <> [] ->
  parse_content_loop text C ev (S (S fuel)) 0 (sst e p (x ++ tail)) c =
  let! c' := ev (TText (sl p e) (p, e)) c in Ok (sst e e tail, c').
Proof.
  intros HW He Hle Hu Hx Hc Hne. destruct x as [|y x']; [congruence|].
  cbn [parse_content_loop]. rewrite at_end_sst. rewrite blen_cons in He. replace (e <=? p) with false by lia.
  cbn [app curr_byte_unchecked sst s_rest bind].
  cbn [forallb] in Hx. replace (y =? 60) with false by lia.
  change (sst e p (y :: x' ++ tail)) with (sst e p ((y :: x') ++ tail)).
  fold (sst e p ((y :: x') ++ tail)).
  rewrite (parse_text_sst_u text C ev e p (y :: x') tail c) by (try assumption; rewrite blen_cons; lia).
  destruct (ev _ c) as [c'| | |]; cbn [bind]; try reflexivity.
  rewrite at_end_sst. replace (e <=? e) with true by lia. reflexivity.
Qed.

(* ------------------------------------------------------------------------------------------ *)
(* the environment of declared entities                                                       *)
(* ------------------------------------------------------------------------------------------ *)
Section Ent.
Variable text : bytes.
Variable D : list Scope.binding.
Hypothesis HD : forall l, NoDup l -> incl l D -> N.of_nat (length l) <= 65535.
Variable decls : list E.edecl.
Variable es : list entity.

Notation W := (CstLex.W text).
Notation WV := (CstULex.WV text).
Notation CIn := (CstNsBuild.CIn text D).

Definition uent_ok (d : E.edecl) (en : entity) : Prop :=
  slice_bytes text (en_name en) = E.e_name d /\
  exists vs tail, en_value en = sl vs (vs + blen (E.r_value (E.e_value d))) /\
                  WV vs (E.r_value (E.e_value d) ++ tail).
Hypothesis Henv : Forall2 uent_ok decls es.
Hypothesis Hdecls : Forall udecl_ok decls.

Lemma find_first_gen_u n d : forall ds es', Forall2 uent_ok ds es' ->
  find (fun d0 => E.beq (E.e_name d0) n) ds = Some d ->
  exists en, find_entity text es' n = Some en /\ uent_ok d en.
Proof.
  induction 1 as [|d0 e0 ds es' H0 _ IH]; intros Hf; [discriminate|].
  cbn [find find_entity] in *. destruct H0 as [Hn Hv].
  rewrite Hn, <- CstEntText.beq_bytes_eqb. destruct (E.beq (E.e_name d0) n).
  - injection Hf as <-. exists e0. split; [reflexivity|]. split; assumption.
  - apply IH; assumption.
Qed.

Lemma find_first_u n d : first_decl decls n = Some d -> exists en, find_entity text es n = Some en /\ uent_ok d en.
Proof. apply find_first_gen_u; assumption. Qed.

(* ---- a reference to a declared entity ---- *)
Lemma uname_first n : uname n -> exists x r, n = x :: r /\ x <> 35.
Proof.
  intros (cs & -> & Hn). destruct (CstFullS7Lex.wf_name7_parts cs Hn) as (c & x & -> & Hc & _). rewrite utf8s_cons.
  destruct (N.lt_ge_cases c 128) as [L|L].
  - rewrite (utf8_ascii c L). cbn [app]. exists c, (utf8s x). split; [reflexivity|].
    revert Hc. unfold Chars.xml_NameStartChar, Chars.in_ranges, Chars.xml_NameStartChar_ranges. cbn [existsb fst snd]. lia.
  - destruct (utf8_high c L) as (_ & b0 & r & E & Hb). rewrite E. cbn [app]. exists b0, (r ++ utf8s x). split; [reflexivity|lia].
Qed.

Lemma cref_entity_u e p n more : WV p ([38] ++ n ++ [59] ++ more) -> uname n ->
  E.is_predef_name n = false -> p + 2 + blen n <= e -> e <= tlen text ->
  consume_reference text (sst e p ([38] ++ n ++ [59] ++ more)) =
  Ok (Some (RefEntity (sl (p + 1) (p + 1 + blen n)), sst e (p + 2 + blen n) more)).
Proof.
  intros HW Hn Hp He Hle. cbn [app] in HW |- *.
  unfold consume_reference. rewrite try_yes by lia.
  destruct (uname_first n Hn) as (x0 & r0 & Ex & Hx0).
  replace (try_consume_byte 35 (sst e (p + 1) (n ++ 59 :: more)))
    with (false, sst e (p + 1) (n ++ 59 :: more))
    by (rewrite Ex; cbn [app]; symmetry; apply try_no; exact Hx0).
  cbn [negb].
  pose proof (WV_cons _ _ _ _ HW ltac:(lia)) as HW1.
  destruct Hn as (cs & -> & Hcs).
  rewrite (consume_name_sst7 text e cs (p + 1) (59 :: more)); try assumption; try lia.
  2:{ cbn [name_stop]. unfold not_name_byte. cls. lia. }
  2:{ discriminate. }
  rewrite (W_slice _ _ _ _ (WV_W _ _ _ HW1)). cbn [bind].
  destruct (CstEntText.predef_false _ Hp) as (Q & A & P & L & G).
  rewrite Q, A, P, L, G. rewrite consume_byte_sst by lia.
  f_equal. f_equal. f_equal. f_equal. lia.
Qed.

Lemma pnc_entity_u e p n more d : WV p ([38] ++ n ++ [59] ++ more) -> uname n ->
  E.is_predef_name n = false -> p + 2 + blen n <= e -> e <= tlen text ->
  first_decl decls n = Some d ->
  exists en, parse_next_chunk text (sst e p ([38] ++ n ++ [59] ++ more)) es =
             Ok (ChText (en_value en), sst e (p + 2 + blen n) more) /\ uent_ok d en.
Proof.
  intros HW Hn Hp He Hle Hf. destruct (find_first_u n d Hf) as (en & Efind & Hok).
  exists en. split; [|assumption].
  unfold parse_next_chunk. rewrite at_end_sst. replace (e <=? p) with false by lia.
  cbn [app curr_byte_unchecked sst s_rest bind]. change (38 =? 38) with true. cbv iota zeta.
  fold (sst e p (38 :: n ++ 59 :: more)).
  pose proof (cref_entity_u e p n more HW Hn Hp He Hle) as Ec. cbn [app] in Ec. rewrite Ec. cbn [bind].
  pose proof (W_cons _ _ _ _ (WV_W _ _ _ HW)) as HW1. cbn [app] in HW1.
  rewrite (W_slice _ _ _ _ HW1), Efind. reflexivity.
Qed.

(* ---- the loop of process_text_with over one piece that is not a reference to an entity ---- *)
Lemma loop_piece_u pc r q e p more buf c f : bvpiece 60 q ->
  WV p (T.r_piece q ++ more) -> p + blen (T.r_piece q) <= e -> e <= tlen text ->
  text_loop text pc r (length (T.piece_chunks q) + f) (sst e p (T.r_piece q ++ more)) buf c =
  text_loop text pc r f (sst e (p + blen (T.r_piece q)) more)
    (push_text_chunks (0 <? ld_depth (c_ld c)) (T.piece_chunks q) buf) c.
Proof.
  intros Hv HW He Hle. destruct q as [bs|hex ds|pe|bs]; cbn [bvpiece] in Hv; try contradiction.
  - apply blit_not_amp in Hv. cbn [T.r_piece T.piece_chunks] in *. rewrite map_length. pose proof (WV_W _ _ _ HW) as HW0. clear HW.
    revert p buf HW0 He. induction bs as [|x bs IH]; intros p buf HW He.
    + cbn [map app length Nat.add push_text_chunks]. rewrite blen_nil, N.add_0_r. reflexivity.
    + cbn [forallb] in Hv. apply andb_true_iff in Hv. destruct Hv as [Hx Hb].
      cbn [map app length Nat.add] in *. rewrite blen_cons in *. cbn [text_loop].
      rewrite at_end_sst. replace (e <=? p) with false by lia.
      rewrite (pnc_byte text) by lia. cbn [bind push_text_chunks].
      rewrite (IH Hb) by (try apply (W_cons _ _ _ _ HW); lia).
      replace (p + 1 + blen bs) with (p + (1 + blen bs)) by lia. reflexivity.
  - cbn [T.piece_chunks length Nat.add push_text_chunks]. cbn [text_loop].
    pose proof (cref_charref_u text e p hex ds more HW Hv He Hle) as Ec.
    assert (Hlt : p < e) by (cbn [T.r_piece app] in He; rewrite !blen_cons in He; lia).
    rewrite at_end_sst. replace (e <=? p) with false by lia.
    cbn [T.r_piece] in Ec, HW |- *. rewrite <- !app_assoc in *. cbn [app] in Ec |- *.
    rewrite (pnc_ref text _ e p _ _ _ Hlt Ec). cbn [bind]. reflexivity.
  - cbn [T.piece_chunks length Nat.add push_text_chunks]. cbn [text_loop].
    pose proof (cref_predef_u text e p pe more HW He Hle) as Ec.
    assert (Hlt : p < e) by (cbn [T.r_piece app] in He; rewrite !blen_cons in He; lia).
    rewrite at_end_sst. replace (e <=? p) with false by lia.
    cbn [T.r_piece] in Ec, HW |- *. rewrite <- !app_assoc in *. cbn [app] in Ec |- *.
    rewrite (pnc_ref text _ e p _ _ _ Hlt Ec). cbn [bind].
    replace (encode_utf8 (T.predef_char pe)) with [T.predef_char pe] by (destruct pe; reflexivity). reflexivity.
Qed.

Lemma chunks_le_piece_u q : bvpiece 60 q -> (length (T.piece_chunks q) <= length (T.r_piece q))%nat.
Proof.
  destruct q as [bs|hex ds|pe|bs]; cbn [bvpiece T.piece_chunks T.r_piece]; intros H; try contradiction;
    rewrite ?map_length, ?app_length; cbn [length]; lia.
Qed.

(* ---- finishing the buffer ---- *)
Lemma finish_emit_u inh m acc r c0 c frs : acc_ok m acc ->
  Run c0 c frs -> CIn inh c0 -> (frs = [] -> emit m acc <> [] -> room c0) -> c_after_text c0 = [] ->
  exists c' G, finish_text r (push_text_chunks m acc tb_new) c = Ok c' /\ Run c0 c' (frs ++ G) /\
               map (cow_bytes text) G = emit m acc /\
               c_ld c' = c_ld c /\ c_tag_name c' = c_tag_name c /\ c_entity_floor c' = c_entity_floor c.
Proof.
  intros Hacc HR I R Hat. rewrite finish_text_spec.
  change (tb_buf (tb_flush (push_text_chunks m acc tb_new))) with (run_text_chunks m acc).
  destruct (emit_valid_u m acc Hacc) as [Eo Hv]. unfold emit, text_result.
  destruct (run_text_chunks m acc) as [|y out] eqn:Er.
  - exists c, []. rewrite app_nil_r. repeat split; auto.
  - rewrite <- Eo in Hv. apply valid_iff_Valid in Hv. rewrite Hv.
    destruct (run_append_n text D inh (CowOwned (y :: out)) r c0 c frs HR I (fun E0 => R E0 ltac:(unfold emit; rewrite Er; discriminate)) Hat) as (c' & E & HR' & L1 & L2 & L3).
    exists c', [CowOwned (y :: out)]. repeat split; auto.
Qed.

(* ------------------------------------------------------------------------------------------ *)
(* the loop of process_text_with on character data with references                            *)
(* ------------------------------------------------------------------------------------------ *)
Lemma uep_valid m p : uep_ok m p -> U8.Valid (E.r_epiece p).
Proof.
  intros H. destruct (uep_bytes m [p] ltac:(constructor; [exact H|constructor])) as [Hu _].
  rewrite r_epieces_cons in Hu. cbn [E.r_epieces flat_map] in Hu. rewrite app_nil_r in Hu. apply ustr_valid. exact Hu.
Qed.

Lemma TL_u : forall m acc ps q tr F, Exp decls m acc ps q tr F ->
  forall inh e p more c0 c frs fuel lvl r ld',
  Forall (uep_ok m) ps -> WV p (E.r_epieces ps ++ more) -> p + blen (E.r_epieces ps) = e -> e <= tlen text ->
  m = (0 <? ld_depth (c_ld c)) -> acc_ok m acc ->
  c_entities c = es -> ld_run (c_ld c) tr = Some ld' -> N.of_nat lvl + ld_depth (c_ld c) = 12 ->
  CIn inh c0 -> (frs = [] -> F <> [] -> room c0) -> c_after_text c0 = [] -> Run c0 c frs ->
  (length (E.r_epieces ps) < fuel)%nat ->
  exists c' G,
    (let! (b0, c1) := text_loop text (parse_content_lvl text lvl) r fuel (sst e p (E.r_epieces ps ++ more))
                        (push_text_chunks m acc tb_new) c in finish_text r b0 c1) = Ok c' /\
    Run c0 c' (frs ++ G) /\ map (cow_bytes text) G = F /\
    c_ld c' = ld' /\ ld_depth ld' = ld_depth (c_ld c) /\
    c_tag_name c' = c_tag_name c /\ c_entity_floor c' = c_entity_floor c.
Proof.
  intros m acc ps q tr F H.
  induction H as [m acc|m acc pc0 rest q tr F _ IH|m acc n rest d vps qv trv Fv q tr F Hfd Hval Hv IHv Hr IHr];
    intros inh e p more c0 c frs fuel lvl r ld' Hok HW He Hle Hm Hacc Hes Hld Hlvl I R Hat HR Hfu.
  - (* end of the token *)
    cbn [E.r_epieces flat_map app] in *. rewrite blen_nil, N.add_0_r in He. subst p.
    destruct fuel as [|fu]; [lia|]. cbn [text_loop]. rewrite at_end_sst. replace (e <=? e) with true by lia.
    cbn [bind]. cbn [ld_run] in Hld. injection Hld as <-.
    destruct (finish_emit_u inh m acc r c0 c frs Hacc HR I R Hat) as (c' & G & E & HR' & HG & L1 & L2 & L3).
    exists c', G. repeat split; auto.
  - (* a piece *)
    apply Forall_cons_iff in Hok. destruct Hok as [Hp Hrest]. cbn [E.r_epieces flat_map E.r_epiece] in *. fold (E.r_epieces rest) in *.
    rewrite <- app_assoc in HW |- *. rewrite blen_app in He.
    pose proof Hp as [Hvp _]. pose proof (chunks_le_piece_u pc0 Hvp) as Hcl. rewrite app_length in Hfu.
    replace fuel with (length (T.piece_chunks pc0) + (fuel - length (T.piece_chunks pc0)))%nat by lia.
    rewrite loop_piece_u by (try assumption; lia). rewrite <- Hm.
    rewrite <- push_text_chunks_app.
    apply (IH inh e _ more c0 c frs _ lvl r ld'); try assumption; try lia.
    + apply (WV_app _ _ _ _ HW (vpiece_valid 60 pc0 Hvp)).
    + apply acc_app; [exact Hacc|apply uep_chunks; exact Hp].
  - (* a reference *)
    apply Forall_cons_iff in Hok. destruct Hok as [Hp Hrest]. destruct Hp as [Hn Hpre].
    cbn [E.r_epieces flat_map E.r_epiece] in *. fold (E.r_epieces rest) in *.
    rewrite <- !app_assoc in HW |- *. rewrite !blen_app in He. change (blen [38]) with 1 in He. change (blen [59]) with 1 in He.
    destruct (pnc_entity_u e p n (E.r_epieces rest ++ more) d HW Hn Hpre ltac:(lia) Hle Hfd) as (en & Epnc & (Hen & vs & tail & Eval & HWv)).
    destruct (first_decl_u decls Hdecls n d Hfd) as (vps' & Hval' & Hvok & Hvn3 & _).
    rewrite Hval in Hval'. injection Hval' as <-.
    rewrite Hval in Eval, HWv. cbn [E.r_value] in Eval, HWv.
    destruct fuel as [|fu]; [lia|].
    erewrite text_loop_entity_step; [|rewrite at_end_sst; lia|rewrite Hes; exact Epnc].
    (* flush *)
    destruct (finish_emit_u inh m acc r c0 c frs Hacc HR I (fun Z0 Z1 => R Z0 ltac:(intros Z2; apply app_eq_nil in Z2; destruct Z2; contradiction)) Hat) as (c1 & G0 & E0 & HR1 & HG0 & L1 & L2 & L3).
    rewrite E0. cbn [bind].
    (* the detector *)
    cbn [ld_run] in Hld. destruct (ld_enter (c_ld c)) as [ld1|] eqn:Eenter; [|discriminate].
    rewrite ld_run_app in Hld. destruct (ld_run ld1 trv) as [ld1'|] eqn:Erun1; [|discriminate]. cbn [ld_run] in Hld.
    rewrite L1. destruct (CstEntText.enter_model text (sst e (p + 2 + blen n) (E.r_epieces rest ++ more)) _ _ Eenter) as (l0 & Ei1 & Ei2).
    rewrite Ei1. cbn [bind]. rewrite Ei2. cbn [bind]. cbv zeta.
    assert (Hd1 : ld_depth ld1 = ld_depth (c_ld c) + 1 /\ ld_depth (c_ld c) < 10).
    { rewrite (mk_eta (c_ld c)) in Eenter. apply ld_enter_some in Eenter. destruct Eenter as [Hlt [[H0 ->]|[H0 [_ ->]]]].
      - unfold DetectorProofs.mk. cbn. rewrite H0. split; [reflexivity|lia].
      - unfold DetectorProofs.mk. cbn. split; [reflexivity|exact Hlt]. }
    destruct Hd1 as [Hd1 Hd10].
    (* the value *)
    rewrite Eval. cbn [sl sl_start sl_end].
    rewrite (stream_from_substr_W text vs (E.r_epieces vps) tail (WV_W _ _ _ HWv)). cbn [bind].
    destruct lvl as [|lvl']; [lia|].
    assert (Epc : forall s0 cc, parse_content_lvl text (S lvl') s0 cc =
              parse_content_loop text context (token_with text (process_text_with text (parse_content_lvl text lvl')))
                (S (length (s_rest s0))) 0 s0 cc) by reflexivity.
    rewrite Epc. cbn [sst s_rest].
    set (ve := vs + blen (E.r_epieces vps)) in *.
    set (c2 := set_entity_floor (set_tag_name (set_ld c1 ld1) tag_name_null) (len_N (c_parent_prefixes (set_ld c1 ld1)))).
    assert (HR2 : Run c0 c2 (frs ++ G0)) by (eapply Run_frame; [exact HR1|unfold c2; repeat split]).
    destruct (uep_bytes true vps Hvok) as [Hvu Hvb].
    pose proof (W_le _ _ _ (W_app _ _ _ _ (WV_W _ _ _ HWv))) as Hlev. fold ve in Hlev.
    assert (Hinner : exists c2' Gv,
              parse_content_loop text context (token_with text (process_text_with text (parse_content_lvl text lvl')))
                (S (length (E.r_epieces vps ++ tail))) 0 (sst ve vs (E.r_epieces vps ++ tail)) c2 = Ok (sst ve ve tail, c2') /\
              Run c0 c2' ((frs ++ G0) ++ Gv) /\ map (cow_bytes text) Gv = Fv /\
              c_ld c2' = ld1' /\ ld_depth ld1' = ld_depth ld1 /\
              c_tag_name c2' = c_tag_name c2 /\ c_entity_floor c2' = c_entity_floor c2).
    { destruct (list_eq_dec N.eq_dec (E.r_epieces vps) []) as [Ex|Hne].
      - (* an empty value: no token *)
        assert (Evps : vps = []).
        { destruct vps as [|pp vr]; [reflexivity|].
          apply Forall_cons_iff in Hvok. destruct Hvok as [Hq0 _].
          destruct (uep_piece_ne true pp Hq0) as (x1 & r1 & E1).
          rewrite r_epieces_cons, E1 in Ex. discriminate. }
        subst vps. inversion Hv; subst. cbn [E.r_epieces flat_map app length] in *.
        cbn [parse_content_loop]. rewrite at_end_sst. unfold ve. rewrite blen_nil, N.add_0_r.
        replace (vs <=? vs) with true by lia.
        exists c2, []. rewrite app_nil_r. cbn [ld_run] in Erun1. injection Erun1 as <-.
        repeat split; auto.
      - assert (Hlen : (1 <= length (E.r_epieces vps ++ tail))%nat).
        { rewrite app_length. destruct (E.r_epieces vps); [congruence|cbn; lia]. }
        destruct (length (E.r_epieces vps ++ tail)) as [|len'] eqn:El; [lia|].
        rewrite (content_loop_text_ne_u text context _ ve vs (E.r_epieces vps) tail c2 len' HWv eq_refl Hlev Hvu Hvb Hvn3 Hne).
        cbn [token_with].
        rewrite process_text_with_unfold. unfold slice_bytes at 1. cbn [sl sl_start sl_end].
        unfold ve. rewrite (W_sub _ _ _ _ (WV_W _ _ _ HWv)). fold ve.
        destruct (existsb (fun x => (x =? 38) || (x =? 13)) (E.r_epieces vps)) eqn:Efast; cbn [negb].
        + (* through the buffer *)
          cbn [fst snd]. unfold ve. rewrite (stream_from_substr_W text vs (E.r_epieces vps) tail (WV_W _ _ _ HWv)). fold ve. cbn [bind].
          destruct (IHv inh ve vs tail c0 c2 (frs ++ G0) (S (length (s_rest (sst ve vs (E.r_epieces vps ++ tail))))) lvl' (vs, ve) ld1')
            as (c2' & Gv & Ev & HRv & HGv & Lv1 & Lv2 & Lv3 & Lv4); try assumption; try reflexivity.
          * unfold c2. cbn. rewrite Hd1. replace (0 <? ld_depth (c_ld c) + 1) with true by lia. reflexivity.
          * apply acc_nil.
          * rewrite (Run_entities _ _ _ HR2). rewrite <- Hes. symmetry. apply (Run_entities _ _ _ HR).
          * unfold c2. cbn. lia.
          * intros Z0 Z1. apply app_eq_nil in Z0. destruct Z0 as [Z0 _]. apply (R Z0). intros Z2.
            apply app_eq_nil in Z2. destruct Z2 as [_ Z2]. apply app_eq_nil in Z2. destruct Z2 as [Z2 _]. contradiction.
          * cbn [sst s_rest]. rewrite app_length. lia.
          * cbn [push_text_chunks sst s_rest] in Ev |- *. rewrite Ev. cbn [bind]. exists c2', Gv. unfold c2 in Lv2 |- *. cbn in Lv2. repeat split; auto.
        + (* the fast path: the value is appended as it is *)
          destruct (existsb_or_false _ _ _ Efast) as [E38 E13].
          destruct (exp_plain_u decls true vps [] qv trv Fv Hv Hvok E38) as [-> ->]. cbn [app].
          assert (Hemit : emit true ([] ++ map CLit (E.r_epieces vps)) = [E.r_epieces vps]).
          { cbn [app]. unfold emit. rewrite text_chunks_in_entity.
            replace (concat (map chunk_bytes (map CLit (E.r_epieces vps)))) with (E.r_epieces vps)
              by (clear; induction (E.r_epieces vps) as [|z l IHl]; [reflexivity|cbn; rewrite <- IHl; reflexivity]).
            rewrite norm_eol_nocr by exact E13. destruct (E.r_epieces vps); [congruence|reflexivity]. }
          destruct (run_append_n text D inh (CowBorrowed (sl vs ve)) (vs, ve) c0 c2 (frs ++ G0) HR2 I
                      (fun Z0 => R (proj1 (app_eq_nil _ _ Z0)) ltac:(rewrite Hemit; intros Z2; apply app_eq_nil in Z2; destruct Z2 as [_ Z2]; discriminate)) Hat)
            as (c2' & Ea & HRa & La1 & La2 & La3).
          rewrite Ea. cbn [bind]. exists c2', [CowBorrowed (sl vs ve)]. cbn [ld_run] in Erun1. injection Erun1 as <-.
          split; [reflexivity|]. split; [exact HRa|]. split.
          { cbn [map cow_bytes]. unfold slice_bytes, ve. cbn [sl sl_start sl_end]. rewrite (W_sub _ _ _ _ (WV_W _ _ _ HWv)).
            cbn [app] in Hemit. rewrite Hemit. reflexivity. }
          unfold c2 in La1 |- *. cbn in La1. repeat split; auto. }
    destruct Hinner as (c2' & Gv & Ein & HRv & HGv & Lv1 & Lv2 & Lv3 & Lv4).
    rewrite Ein. cbn [bind].
    (* back from the value *)
    rewrite (Run_pp _ _ _ HRv), Lv4. unfold c2 at 1. cbn [c_entity_floor set_entity_floor c_parent_prefixes set_tag_name set_ld].
    rewrite (Run_pp _ _ _ HR1), N.eqb_refl. cbn [negb].
    set (c3 := set_ld (set_entity_floor (set_tag_name c2' (c_tag_name (set_ld c1 ld1))) (c_entity_floor (set_ld c1 ld1)))
                      (dec_depth (c_ld (set_entity_floor (set_tag_name c2' (c_tag_name (set_ld c1 ld1))) (c_entity_floor (set_ld c1 ld1)))))).
    assert (HR3 : Run c0 c3 (frs ++ G0 ++ Gv)).
    { rewrite app_assoc. eapply Run_frame; [exact HRv|unfold c3; repeat split]. }
    assert (Eld3 : c_ld c3 = dec_depth ld1') by (unfold c3; cbn; rewrite Lv1; reflexivity).
    assert (Hdd : ld_depth (dec_depth ld1') = ld_depth (c_ld c)).
    { unfold dec_depth. cbn [ld_depth]. rewrite Lv2, Hd1. replace (0 <? ld_depth (c_ld c) + 1) with true by lia. lia. }
    assert (HWn : WV (p + 2 + blen n) (E.r_epieces rest ++ more)).
    { pose proof (WV_cons _ _ _ _ HW ltac:(lia)) as X1. cbn [app] in X1.
      destruct (uname_bytes n Hn) as (Hun & _). pose proof (WV_app _ _ _ _ X1 (ustr_valid _ Hun)) as X2.
      pose proof (WV_cons _ _ _ _ X2 ltac:(lia)) as X3.
      replace (p + 2 + blen n) with (p + 1 + blen n + 1) by lia. exact X3. }
    destruct (IHr inh e (p + 2 + blen n) more c0 c3 (frs ++ G0 ++ Gv) fu (S lvl') r ld')
      as (c' & G & E' & HR' & HG & K1 & K2 & K3 & K4); try assumption.
    + lia.
    + rewrite Eld3, Hdd. exact Hm.
    + apply acc_nil.
    + rewrite (Run_entities _ _ _ HR3). rewrite <- Hes. symmetry. apply (Run_entities _ _ _ HR).
    + rewrite Eld3. exact Hld.
    + rewrite Eld3, Hdd. exact Hlvl.
    + intros Z0 Z1. apply app_eq_nil in Z0. destruct Z0 as [Z0 _]. apply (R Z0). intros Z2.
      apply app_eq_nil in Z2. destruct Z2 as [_ Z2]. apply app_eq_nil in Z2. destruct Z2 as [_ Z2]. contradiction.
    + rewrite !app_length in Hfu. cbn [length] in Hfu. lia.
    + exists c', (G0 ++ Gv ++ G). split; [exact E'|].
      split; [rewrite <- !app_assoc in HR'; exact HR'|].
      split; [rewrite !map_app, HG0, HGv, HG; reflexivity|].
      split; [exact K1|]. split; [rewrite K2, Eld3; exact Hdd|].
      unfold c3 in K3, K4. cbn in K3, K4. rewrite K3, K4, L2, L3. split; reflexivity.
Qed.

End Ent.

Print Assumptions TL_u.
