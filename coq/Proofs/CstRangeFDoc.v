(* Proofs/CstRangeFDoc.v -- C13 / C18 on the capstone fragment (Spec/CstFull.v), part 4: parse_document of
   CstFullDoc.v once more (the document frame without a DOCTYPE), with the observations of
   CstRangeFItems.v. *)
From Coq Require Import Ascii String.
From Coq Require Import List NArith PeanoNat Bool Lia ZifyBool ZifyN ZifyNat.
Import ListNotations.
From RX Require Import Generated.
From RX.Model Require Import Base CharClass Stream Tokenizer Doc Builder Parse.
From RX.Spec Require Cst Scope CstNs CstU.
From RX.Spec Require Import CstFull.
From RX.Proofs Require Import Tactics CstLex CstBuild CstNsLex CstNsView CstNsBuild CstULex CstFullLex CstFullBuild CstFullTree CstFullItems CstFullDoc.
From RX.Proofs Require CstItems CstNsItems CstNsDoc CstUItems CstUDoc CstDoc.
From RX.Proofs Require Import CstRangeDefs CstRangeBuild CstRangeTDefs CstRangeTBuild CstRangeFDefs CstRangeFBuild CstRangeFItems.
Open Scope N_scope.

Section DocR.
Variable Sy : syntax.
Variable M : meaning Sy.
Variable run_steps : run Sy -> nat.
Variable vstore : N -> val Sy -> tstore.
Variable run_nodes : N -> run Sy -> list ((N * N) * tstore).
Hypothesis Hval_lex : forall q v, wf_val M q v = true -> q = 39 \/ q = 34 -> uval_ok q (r_val Sy v).
Hypothesis Hrun_valid : forall r, wf_run M r = true -> U8.Valid (r_run Sy r).
Hypothesis Hrun_steps : forall r, wf_run M r = true -> (1 <= run_steps r <= length (r_run Sy r))%nat.
Variable text : bytes.
Variable D : list Scope.binding.
Hypothesis HD : forall l, NoDup l -> incl l D -> N.of_nat (length l) <= 65535.
Variable es0 : list entity.
Hypothesis Hval_norm_r : forall q v p more, wf_val M q v = true -> q = 39 \/ q = 34 ->
  CstULex.WV text p (r_val Sy v ++ [q] ++ more) ->
  exists stor, norm_ok text es0 (sl p (p + blen (r_val Sy v))) stor /\ storage_bytes text stor = val_sem M v /\
               stored stor (vstore p v).
Hypothesis Hrun_r : forall r, CstRangeFItems.PIf_r Sy M run_steps vstore run_nodes text D es0 (IText r).

Notation item := (CstFull.item Sy).
Notation doc := (CstFull.doc Sy).
Notation dens := (CstFullTree.dens Sy M).
Notation ev := (tok_ev text).
Notation st := (CstLex.st text).
Notation W := (CstLex.W text).
Notation WV := (CstULex.WV text).
Notation CIn := (CstNsBuild.CIn text D).
Notation NC := (CstFullBuild.NC es0).
Notation kmn := (CstNsBuild.kmn text).
Notation node_room := CstNsItems.node_room.
Notation attr_room := CstNsItems.attr_room.
Notation ns_room := CstNsItems.ns_room.
Notation pairs := (pairs Sy).
Notation wf_pairs := (wf_pairs Sy M).
Notation fitem_valid := (CstFullItems.fitem_valid Sy M Hval_lex Hrun_valid).
Notation evf_comment_r := (CstRangeFItems.evf_comment_r Sy M vstore run_nodes Hval_lex text D HD es0 Hval_norm_r).
Notation evf_pi_r := (CstRangeFItems.evf_pi_r Sy M vstore run_nodes Hval_lex text D HD es0 Hval_norm_r).
Notation root_ok_f_r := (CstRangeFItems.root_ok_f_r Sy M run_steps vstore run_nodes Hval_lex Hrun_valid Hrun_steps text D HD es0 Hval_norm_r Hrun_r).
Notation ExtraF := (CstRangeFItems.ExtraF Sy M vstore run_nodes text).
Notation ExtraF_app := (CstRangeFItems.ExtraF_app Sy M vstore run_nodes text).
Notation ExtraF_nil := (CstRangeFItems.ExtraF_nil Sy M vstore run_nodes text).
Notation kmn_Forall2_ext := (CstFullItems.kmn_Forall2_ext text D HD).
Notation fitems_at := (CstRangeFDefs.fitems_at Sy).
Notation fbefore_at := (CstRangeFDefs.fbefore_at Sy).
Notation fafter_at := (CstRangeFDefs.fafter_at Sy).

(* the items of a misc loop, each with the offset of its first byte *)
Fixpoint fpairs_at (p : N) (l : pairs) : list (N * item) :=
  match l with
  | [] => []
  | (w, i) :: r => (p + blen w, i) :: fpairs_at (p + blen w + blen (r_item i)) r
  end.

Lemma misc_fitems_at q (i : item) : is_misc Sy i = true -> fitems_at q i = [(q, i)].
Proof. destruct i; try discriminate; reflexivity. Qed.

Lemma fpairs_at_regroup : forall (l : list (item * bytes)) p w0,
  forallb (fun x => is_misc Sy (fst x) && wf_item M (fst x) && Cst.wf_ws (snd x)) l = true ->
  fpairs_at p (regroup w0 l) = fbefore_at (p + nlen w0) l.
Proof.
  induction l as [|[i w] r IH]; intros p w0 H; cbn [regroup fpairs_at CstRangeFDefs.fbefore_at]; [reflexivity|].
  cbn [forallb fst snd] in H. rewrite !andb_true_iff in H. destruct H as [[[H1 _] _] H4].
  rewrite (misc_fitems_at _ _ H1). cbn [app]. f_equal. rewrite (IH _ _ H4). reflexivity.
Qed.

Lemma fpairs_at_after : forall (l : pairs) p, wf_pairs l = true -> fpairs_at p l = fafter_at p l.
Proof.
  induction l as [|[w i] r IH]; intros p H; cbn [fpairs_at CstRangeFDefs.fafter_at]; [reflexivity|].
  cbn [CstFullDoc.wf_pairs forallb fst snd] in H. rewrite !andb_true_iff in H. destruct H as [[[_ H2] _] H4].
  rewrite (misc_fitems_at _ _ H2). cbn [app]. f_equal. apply IH. exact H4.
Qed.

Lemma fdoc_items_at_eq (c : doc) : wf_doc M c = true ->
  let B := regroup (d_ws0 c) (d_before c) in
  let p1 := 0 + blen (r_pairs B) + blen (last_ws (d_ws0 c) (d_before c)) in
  fdoc_items_at Sy c = fpairs_at 0 B ++ fitems_at p1 (d_root c) ++ fpairs_at (p1 + blen (r_item (d_root c))) (d_after c) /\
  fpairs_at 0 B = fbefore_at (nlen (d_ws0 c)) (d_before c) /\
  fpairs_at (p1 + blen (r_item (d_root c))) (d_after c) = fafter_at (p1 + blen (r_item (d_root c))) (d_after c).
Proof.
  intros Hwf B p1. pose proof (wf_doc_parts Sy M c Hwf) as [H1 H2 H3 _ H5 H6 _].
  assert (Ero : froot_offset Sy c = p1).
  { unfold froot_offset, fbefore_len, p1, B.
    pose proof (f_equal (@length N) (regroup_render Sy (d_before c) (d_ws0 c))) as E.
    rewrite !app_length in E. unfold nlen, blen. lia. }
  pose proof (fpairs_at_regroup (d_before c) 0 (d_ws0 c) H3) as Eb. rewrite N.add_0_l in Eb. fold B in Eb.
  pose proof (fpairs_at_after (d_after c) (p1 + blen (r_item (d_root c))) H6) as Ea.
  split; [|split; [exact Eb|exact Ea]].
  unfold fdoc_items_at. rewrite Ero, Eb, Ea. reflexivity.
Qed.

Ltac clia := repeat match goal with H : @eq bool _ true |- _ => clear H end; lia.

Lemma misc_loop_ok_f_r : forall (l : pairs) p wl rest c fuel,
  WV p (r_pairs l ++ wl ++ rest) -> wf_pairs l = true -> Cst.wf_ws wl = true -> CstDoc.misc_stop rest ->
  (length l < fuel)%nat -> CIn [] c -> c_after_text c = [] -> node_room c (NT.nsizes (dens (map snd l))) ->
  exists c' K,
    parse_misc_loop text context ev fuel (st p (r_pairs l ++ wl ++ rest)) c =
    Ok (st (p + blen (r_pairs l) + blen wl) rest, c') /\
    Stepn c c' K [] /\ CIn [] c' /\ c_after_text c' = [] /\ d_ns_tree (c_doc c') = d_ns_tree (c_doc c) /\
    Forall2 (kmn (c_doc c')) K (NT.tag_list [] (c_parent_id c) (len_N (d_nodes (c_doc c))) (dens (map snd l))) /\
    ExtraF (fpairs_at p l) c c' K [].
Proof.
  induction l as [|[w i] l IH]; intros p wl rest c fuel HW Hwf Hwl (Hs1 & Hs2 & Hs3) Hf I Hat NR.
  - cbn [r_pairs flat_map app map CstFullTree.dens NT.tag_list] in *. change (blen []) with 0. rewrite N.add_0_r.
    destruct fuel as [|fu]; [cbn in Hf; lia|]. cbn [parse_misc_loop].
    exists c, []. split; [|split; [apply Stepn_refl|split; [exact I|split; [exact Hat|split; [reflexivity|split; [constructor|apply ExtraF_nil]]]]]].
    pose proof (WV_W _ _ _ HW) as HW0. rewrite at_end_st by exact HW0.
    destruct (wl ++ rest) as [|x0 l0] eqn:E0.
    + apply app_eq_nil in E0. destruct E0 as [-> ->]. change (blen []) with 0. rewrite N.add_0_r. reflexivity.
    + rewrite <- E0 in *. clear E0 x0 l0. cbv zeta.
      rewrite skip_spaces_st; [|exact HW0|apply ws_spaces; exact Hwl|exact Hs1].
      pose proof (W_app _ _ _ _ HW0) as HW1.
      rewrite !starts_with_st by exact HW1.
      change (b "<!--") with [60; 33; 45; 45]. change (b "<?") with [60; 63]. rewrite Hs2, Hs3. reflexivity.
  - cbn [CstFullDoc.wf_pairs forallb fst snd] in Hwf. rewrite !andb_true_iff in Hwf. destruct Hwf as [[[H1 H2] H3] H4].
    cbn [r_pairs flat_map fst snd map CstFullTree.dens] in HW, NR |- *. fold (@r_pairs Sy l) in HW |- *.
    rewrite <- !app_assoc in HW |- *.
    rewrite nsizes_app in NR.
    cbn [length] in Hf. destruct fuel as [|fu]; [lia|]. cbn [parse_misc_loop].
    pose proof (WV_W _ _ _ HW) as HW0. rewrite at_end_st by exact HW0.
    destruct (misc_starts Sy i H2) as [l0 El0].
    replace (match w ++ r_item i ++ r_pairs l ++ wl ++ rest with [] => true | _ :: _ => false end) with false
      by (rewrite El0; destruct w; reflexivity).
    cbv zeta.
    rewrite skip_spaces_st; [|exact HW0|apply ws_spaces; exact H1|rewrite El0; reflexivity].
    pose proof (WV_lit _ _ _ _ HW (ws_lit _ H1)) as HW1. pose proof (WV_W _ _ _ HW1) as HW1'.
    pose proof (fitem_valid i H3) as Hvi.
    pose proof (WV_app _ _ _ _ HW1 Hvi) as HW2.
    destruct i as [? ? ? ?|?|bs|t s v]; try discriminate.
    + (* comment *)
      assert (R : room c).
      { apply (node_room_room _ _ NR). cbn [den]. rewrite nsizes_one. pose proof (NT.nsize_pos (CstNs.IComment (utf8s bs))). lia. }
      rewrite starts_with_st by exact HW1'. change (b "<!--") with [60; 33; 45; 45].
      replace (prefix_b [60; 33; 45; 45] (r_item (@IComment Sy bs) ++ r_pairs l ++ wl ++ rest)) with true
        by (cbn [r_item Cst.r_item]; rewrite <- !app_assoc; rewrite prefix_b_app_same; reflexivity).
      destruct (evf_comment_r [] bs (p + blen w) (r_pairs l ++ wl ++ rest) c H3 HW1 I R)
        as (c1 & K1 & E1 & S1 & I1 & A1 & _ & F1 & Tr1 & X1).
      rewrite E1. cbn [bind].
      pose proof (Stepn_nodes_len _ _ _ _ S1) as Ln1.
      rewrite (Forall2_len_N _ _ _ F1) in Ln1. unfold len_N at 3 in Ln1. rewrite NT.tag_list_len in Ln1.
      pose proof (Stepn_opt _ _ _ _ (proj1 S1)) as Lo1.
      destruct (IH _ wl rest c1 fu HW2 H4 Hwl (conj Hs1 (conj Hs2 Hs3)) ltac:(clia) I1 A1)
        as (c2 & K2 & E2 & S2 & I2 & A2 & Tr2 & F2 & X2).
      { unfold CstNsItems.node_room in *. rewrite Ln1, Lo1. clia. }
      rewrite E2. exists c2, (K1 ++ K2). split.
      { f_equal. f_equal. f_equal. rewrite !blen_app. clia. }
      split; [apply (Stepn_trans _ _ _ _ _ _ _ S1 S2)|]. split; [exact I2|]. split; [exact A2|].
      split; [rewrite Tr2, Tr1; reflexivity|]. split; [|cbn [fpairs_at fst snd]; exact (ExtraF_app _ _ _ _ _ _ _ _ _ X1 X2)].
      rewrite CstNsDoc.tag_list_app. apply Forall2_app.
      * apply (kmn_Forall2_ext (c_doc c1)); [apply (Step0n_DocExt _ _ _ _ (proj1 S2))|exact F1].
      * destruct S1 as (_ & P1 & _). rewrite P1, Ln1 in F2. exact F2.
    + (* processing instruction *)
      assert (R : room c).
      { apply (node_room_room _ _ NR). cbn [den]. rewrite nsizes_one. pose proof (NT.nsize_pos (CstNs.IPI (utf8s t) s (utf8s v))). lia. }
      rewrite !starts_with_st by exact HW1'. change (b "<!--") with [60; 33; 45; 45]. change (b "<?") with [60; 63].
      replace (prefix_b [60; 33; 45; 45] (r_item (@IPI Sy t s v) ++ r_pairs l ++ wl ++ rest)) with false
        by reflexivity.
      replace (prefix_b [60; 63] (r_item (@IPI Sy t s v) ++ r_pairs l ++ wl ++ rest)) with true
        by reflexivity.
      destruct (evf_pi_r [] t s v (p + blen w) (r_pairs l ++ wl ++ rest) c H3 HW1 I R)
        as (c1 & K1 & E1 & S1 & I1 & A1 & _ & F1 & Tr1 & X1).
      rewrite E1. cbn [bind].
      pose proof (Stepn_nodes_len _ _ _ _ S1) as Ln1.
      rewrite (Forall2_len_N _ _ _ F1) in Ln1. unfold len_N at 3 in Ln1. rewrite NT.tag_list_len in Ln1.
      pose proof (Stepn_opt _ _ _ _ (proj1 S1)) as Lo1.
      destruct (IH _ wl rest c1 fu HW2 H4 Hwl (conj Hs1 (conj Hs2 Hs3)) ltac:(clia) I1 A1)
        as (c2 & K2 & E2 & S2 & I2 & A2 & Tr2 & F2 & X2).
      { unfold CstNsItems.node_room in *. rewrite Ln1, Lo1. clia. }
      rewrite E2. exists c2, (K1 ++ K2). split.
      { f_equal. f_equal. f_equal. rewrite !blen_app. clia. }
      split; [apply (Stepn_trans _ _ _ _ _ _ _ S1 S2)|]. split; [exact I2|]. split; [exact A2|].
      split; [rewrite Tr2, Tr1; reflexivity|]. split; [|cbn [fpairs_at fst snd]; exact (ExtraF_app _ _ _ _ _ _ _ _ _ X1 X2)].
      rewrite CstNsDoc.tag_list_app. apply Forall2_app.
      * apply (kmn_Forall2_ext (c_doc c1)); [apply (Step0n_DocExt _ _ _ _ (proj1 S2))|exact F1].
      * destruct S1 as (_ & P1 & _). rewrite P1, Ln1 in F2. exact F2.
Qed.



Lemma parse_document_ok_f_r (c : doc) (dtd : bool) (c0 : context) :
  wf_doc M c = true -> text = render c -> incl (doc_decls M c) D ->
  CIn [] c0 -> NC c0 -> c_after_text c0 = [] ->
  node_room c0 (NT.nsizes (dens (doc_items c))) -> attr_room c0 (NT.nattrs_items (den M (d_root c))) ->
  ns_room c0 (ns_cost M c) ->
  exists cf K ext,
    parse_document text context (tok_ev text) dtd c0 = Ok cf /\
    Stepn c0 cf K ext /\ CIn [] cf /\
    Forall2 (kmn (c_doc cf)) K
            (NT.tag_list [] (c_parent_id c0) (len_N (d_nodes (c_doc c0))) (dens (doc_items c))) /\
    ExtraF (fdoc_items_at Sy c) c0 cf K ext.
Proof.
  intros Hwf Etext0 HinD I0 HC0 A0 NR AR SR. pose proof (fdoc_items_at_eq c Hwf) as Eat.
  unfold doc_decls in HinD. rewrite <- items_decls_flat in HinD. unfold ns_cost in SR. rewrite <- ns_costs_sum in SR.
  pose proof (render_valid Sy M Hval_lex Hrun_valid c Hwf) as Hvalid. rewrite <- Etext0 in Hvalid.
  pose proof (head_render Sy M Hval_lex c Hwf) as [Hdecl Hbom]. rewrite <- Etext0 in Hdecl, Hbom.
  pose proof (wf_doc_parts Sy M c Hwf) as [H1 H2 H3 (name & es & ws & body & Er) H5 H6 H7].
  clear Hwf.
  destruct (regroup_wf Sy M _ _ H1 H3) as [R1 R2].
  assert (Etext : text = r_pairs (regroup (d_ws0 c) (d_before c)) ++ last_ws (d_ws0 c) (d_before c) ++
                         r_item (d_root c) ++ r_pairs (d_after c) ++ d_ws_end c ++ [])
    by (rewrite Etext0; apply render_shape).
  rewrite (doc_items_shape Sy) in *. rewrite Er in *. clear Er H1 H3.
  set (B := regroup (d_ws0 c) (d_before c)) in *.
  set (wB := last_ws (d_ws0 c) (d_before c)) in *.
  set (A := d_after c) in *. set (wE := d_ws_end c) in *.
  set (root := IElem name es ws body) in *.
  rewrite (dens_app Sy M) in NR |- *. cbn [CstFullTree.dens] in NR |- *. rewrite !nsizes_app in NR.
  destruct (pairs_dens Sy M B R1) as (_ & _ & _ & _ & _).
  pose proof (WV_new text Hvalid) as HW0.
  pose proof (root_name Sy M _ _ _ _ H5) as Hn.
  destruct (root_starts Sy name es ws body Hn) as (n & l & El & Hnsp & H33 & H63). fold root in El.
  clear Hn.
  remember (r_item root ++ r_pairs A ++ wE ++ []) as rest eqn:Erest.
  assert (Hstop : CstDoc.misc_stop rest).
  { rewrite Erest, El. cbn [app]. split; [reflexivity|]. cbn [prefix_b].
    replace (33 =? n) with false by clia. replace (63 =? n) with false by clia. split; reflexivity. }
  assert (Hdt : prefix_b [60; 33; 68; 79; 67; 84; 89; 80; 69] rest = false).
  { rewrite Erest, El. cbn [app prefix_b]. replace (33 =? n) with false by clia. rewrite andb_false_r. reflexivity. }
  assert (Hcb : forall p, CstLex.W text p rest ->
            match curr_byte_opt (CstLex.st text p rest) with Some x => x =? 60 | None => false end = true).
  { intros p HWp. rewrite Erest, El in *. cbn [app] in *. rewrite curr_byte_opt_st by exact HWp. reflexivity. }
  clear El.
  unfold parse_document. rewrite st_new.
  rewrite starts_with_st by exact (WV_W _ _ _ HW0). rewrite Hbom. cbn [bind].
  unfold starts_with_declaration. rewrite starts_with_st, avail_st by exact (WV_W _ _ _ HW0).
  change (b "<?xml") with [60; 63; 120; 109; 108]. fold (CstDoc.decl_test text). rewrite Hdecl. cbn [bind].
  (* prolog *)
  unfold parse_misc. cbn [CstLex.st s_rest].
  fold (CstLex.st text 0 text).
  assert (HW0' : WV 0 (r_pairs B ++ wB ++ rest)) by (rewrite <- Etext; exact HW0).
  replace (CstLex.st text 0 text) with (CstLex.st text 0 (r_pairs B ++ wB ++ rest))
    by (rewrite <- Etext; reflexivity).
  assert (Elen : length text = length (r_pairs B ++ wB ++ rest)) by (rewrite <- Etext; reflexivity).
  destruct (misc_loop_ok_f_r B 0 wB rest c0 (S (length text)) HW0' R1 R2 Hstop)
    as (c1 & K1 & E1 & S1 & I1 & A1 & Tr1 & F1 & Y1).
  { pose proof (pairs_len Sy M B R1). rewrite Elen, app_length. clia. }
  { exact I0. } { exact A0. } { unfold CstNsItems.node_room in *. clia. }
  rewrite E1. cbn [bind]. clear E1.
  pose proof (WV_app _ _ _ _ HW0' (pairs_valid Sy M Hval_lex Hrun_valid B R1)) as HWa.
  pose proof (WV_lit _ _ _ _ HWa (ws_lit _ R2)) as HW1v. pose proof (WV_W _ _ _ HW1v) as HW1.
  set (p1 := 0 + blen (r_pairs B) + blen wB) in *.
  rewrite (CstDoc.skip_spaces_none text) by (try exact HW1; apply Hstop).
  rewrite starts_with_st by exact HW1. change (b "<!DOCTYPE") with [60; 33; 68; 79; 67; 84; 89; 80; 69].
  rewrite Hdt.
  cbn [bind]. rewrite (CstDoc.skip_spaces_none text) by (try exact HW1; apply Hstop).
  rewrite (Hcb p1 HW1).
  (* root *)
  pose proof (Stepn_nodes_len _ _ _ _ S1) as Ln1.
  rewrite (Forall2_len_N _ _ _ F1) in Ln1. unfold len_N at 3 in Ln1. rewrite NT.tag_list_len in Ln1.
  pose proof (Stepn_opt _ _ _ _ (proj1 S1)) as Lo1.
  pose proof (Stepn_attrs_len _ _ _ _ (proj1 S1)) as La1. change (len_N []) with 0 in La1.
  rewrite Erest in HW1v |- *.
  destruct (root_ok_f_r [] name es ws body p1 (r_pairs A ++ wE ++ []) c1 H5 H7 HinD HW1v I1)
    as (c2 & K2 & e2 & E2 & S2 & I2 & A2 & _ & F2 & L2 & Tr2 & Y2).
  { apply (Stepn_NC _ _ _ _ _ S1 HC0). }
  { exact A1. }
  { unfold CstNsItems.node_room in *. rewrite Ln1, Lo1. fold root. clia. }
  { unfold CstNsItems.attr_room in *. rewrite La1. fold root. clia. }
  { unfold CstNsItems.ns_room in *. rewrite Tr1. fold root. exact SR. }
  fold root in E2, S2, A2, F2, L2, Tr2, HW1v, Y2.
  rewrite E2. cbn [bind]. clear E2.
  pose proof (WV_app _ _ _ _ HW1v (fitem_valid _ H5)) as HW2. fold root in HW2.
  set (p2 := p1 + blen (r_item root)) in *.
  pose proof (Stepn_nodes_len _ _ _ _ S2) as Ln2.
  rewrite (Forall2_len_N _ _ _ F2) in Ln2. unfold len_N at 3 in Ln2. rewrite NT.tag_list_len in Ln2.
  pose proof (Stepn_opt _ _ _ _ (proj1 S2)) as Lo2.
  (* epilog *)
  unfold parse_misc. cbn [CstLex.st s_rest]. fold (CstLex.st text p2 (r_pairs A ++ wE ++ [])).
  destruct (misc_loop_ok_f_r A p2 wE [] c2
              (S (length (r_pairs A ++ wE ++ []))) HW2 H6 H2)
    as (c3 & K3 & E3 & S3 & I3 & A3 & Tr3 & F3 & Y3).
  { split; [exact Logic.I|split; reflexivity]. }
  { pose proof (pairs_len Sy M A H6). rewrite app_length. clia. }
  { exact I2. } { exact A2. }
  { unfold CstNsItems.node_room in *. rewrite Ln2, Lo2, Ln1, Lo1, <- !N.add_assoc. exact NR. }
  rewrite E3. cbn [bind]. clear E3.
  pose proof (WV_W _ _ _ HW2) as HW2'.
  pose proof (W_app _ _ _ _ HW2') as HWb. pose proof (W_app _ _ _ _ HWb) as HW3.
  rewrite at_end_st by exact HW3. cbn [negb].
  exists c3, (K1 ++ K2 ++ K3), ([] ++ e2 ++ []). split; [reflexivity|].
  split; [apply (Stepn_trans _ _ _ _ _ _ _ S1 (Stepn_trans _ _ _ _ _ _ _ S2 S3))|]. split; [exact I3|].
  split.
  2:{ cbv zeta in Eat. destruct Eat as (Eat & _ & _). rewrite Eat.
      eapply ExtraF_app; [exact Y1|]. eapply ExtraF_app; [exact Y2|exact Y3]. }
  rewrite !CstNsDoc.tag_list_app.
  destruct S1 as (S1 & P1 & _). destruct S2 as (S2 & P2 & _). destruct S3 as (S3 & _ & _).
  apply Forall2_app; [|apply Forall2_app].
  - apply (kmn_Forall2_ext (c_doc c1)); [|exact F1].
    eapply DocExt_trans; [apply (Step0n_DocExt _ _ _ _ S2)|apply (Step0n_DocExt _ _ _ _ S3)].
  - apply (kmn_Forall2_ext (c_doc c2)); [apply (Step0n_DocExt _ _ _ _ S3)|].
    rewrite P1, Ln1 in F2. exact F2.
  - rewrite P2, P1, Ln2, Ln1 in F3. exact F3.
Qed.

End DocR.

Print Assumptions parse_document_ok_f_r.
