(* Proofs/CstSound6rBMain.v -- copy of Proofs/CstSound6bBMain.v WITH THE RESOURCE ACCOUNTING RESTORED, in the style of
   Proofs/CstSound6uRMain.v: [Closed_a D K ...] ends with [Res c' (D ++ lvD lv) (K + lvK opn lv) []] and
   [content_sound_a] takes [Res c D K []] for arbitrary D K.  Hand-edited; the 6b file is unchanged. *)
(* Proofs/CstSound6rBMain.v -- C08 soundness on stage S6, markup-valued entities referenced from the body:
   the content loop of the body (Proofs/CstSound6uRMain.v / CstSoundPRMain.v) with the items AS WRITTEN carried
   together with their inlining under the table of Spec/CstFullS4.v ([lev_ok]: Proofs/CstSound6aSem.v, CstSound6rNest.v)
   instead of a value-by-value / run-by-run meaning: a run that refers to a markup-valued entity denotes elements. *)
From Coq Require Import String.
From Coq Require Import List Arith NArith Bool Lia ZifyBool ZifyN ZifyNat.
Import ListNotations.
From RX Require Import Generated.
From RX.Model Require Import Base CharClass Stream Tokenizer Doc Builder Parse.
From RX.Spec Require Cst Chars CstU CstNs Scope Detector.
From RX.Spec Require CstText.
From RX.Spec Require Import CstFull CstFullS4 CstFullS5 CstFullS6.
From RX.Proofs Require Import Tactics CstLex CstULex CstTextLex.
From RX.Proofs Require CstBuild RejectProofs CstFullTree CstFullS2Sem CstNsTree CstEntBuild CstFullS5 CstFullS6Text.
From RX.Proofs Require Import CstFullS3Sem CstFullS3Text CstFullS5Items.
From RX.Proofs Require Import CstSound CstSoundT CstSoundTLex CstSoundULex CstSoundBuild CstSoundTBuild CstSoundTText CstSoundTMain.
From RX.Proofs Require Import CstSoundN CstSoundNLex CstSoundNBuild CstSoundNText CstSoundNMain.
From RX.Proofs Require Import CstSoundP CstSoundPEnt CstSoundPLex CstSoundPDtd CstSoundPBuild CstSoundPText.
From RX.Proofs Require Import CstSoundPRef.
From RX.Proofs Require CstFullS4TSem CstFullS4Sem CstSound6Val CstSound6uEmb CstSoundPRMain CstEntRejSem.
From RX.Proofs Require Import CstSound6 CstSound6U CstSound6a CstSound6aFlat CstSound6bLex CstSound6bDtd CstSound6bText CstSound6bRText CstSound6bRTok CstSound6bRTag.
From RX.Proofs Require Import CstSound6aSem CstSound6rNest CstSound6rBText.
Open Scope N_scope.

Notation ctr := CstSoundPRMain.cons_text_r.
Definition PT (_ : list Detector.lop) : Prop := True.
Lemma PT_app a c : PT a -> PT c -> PT (a ++ c).
Proof. intros _ _. exact I. Qed.

Lemma wf_cons_text_f ps cs : forallb (wf_uepiece 60 true true false) ps = true -> E.no_adjacent_elit ps = true -> ps <> [] ->
  forallb (wf_uitem_s false) cs = true ->
  (forall qs r, cs = IText qs :: r -> E.no_adjacent_elit (ps ++ qs) = true) ->
  forallb (wf_uitem_s false) (ctr ps cs) = true.
Proof.
  intros A B0 C0 Hc Hm.
  assert (W1 : wf_uitem_s false (@IText epieces ps) = true).
  { cbn [wf_uitem_s]. unfold wf_uepieces. rewrite A, B0. destruct ps; [congruence|reflexivity]. }
  destruct cs as [|[n a w bd|qs|bs|t s v] r]; cbn [CstSoundPRMain.cons_text_r forallb] in *; try (rewrite W1; exact Hc).
  apply andb_true_iff in Hc. destruct Hc as [Hq Hr]. rewrite Hr, andb_true_r.
  cbn [wf_uitem_s] in Hq |- *. apply andb_true_iff in Hq. destruct Hq as [_ Hq]. unfold wf_uepieces in Hq |- *.
  apply andb_true_iff in Hq. destruct Hq as [Q1 _]. rewrite forallb_app, A, Q1, (Hm qs r eq_refl). destruct ps; [congruence|reflexivity].
Qed.

Lemma itext_no_adj_f qs : wf_uitem_s false (@IText epieces qs) = true -> E.no_adjacent_elit qs = true.
Proof. cbn [wf_uitem_s]. unfold wf_uepieces. intros H. apply andb_true_iff in H. destruct H as [_ H]. apply andb_true_iff in H. tauto. Qed.

Section BMain.
Variable text : bytes.
Hypothesis HF : Frag6b text.
Variable xds : list X4.xdecl.
Variable ets : list entity.
Notation decls := (map pd xds).
Hypothesis Henv6 : Forall2 (env6 text) xds ets.
Hypothesis Hdecls : Forall CstFullS4TSem.udecl_okc decls.
Hypothesis Hmk : forall d its, In d decls -> E.e_value d = E.EContent its ->
  (mem_b 60 (E.r_value (E.e_value d)) = true /\ Forall (fun y => y <> 38) (E.r_value (E.e_value d))) \/ ImpT decls d.
(* a character-data declaration mentions character-data entities only *)
Hypothesis Hpure : forall d ps n d', In d xds -> X4.x_value d = X4.XText ps -> In (E.ERef n) (enc_epieces ps) ->
  CstFullS4Sem.first_xdecl xds n = Some d' -> exists ps', X4.x_value d' = X4.XText ps'.
Hypothesis Hnames : Forall (fun d => uname (E.e_name d)) decls.
Notation tb4 := (X4.level xds E.max_level).
Notation tb5 := (E.level decls E.max_level).
Notation M3 := (ents_meaning tb5).
Notation xe3 := (x_entry epieces (val_sem M3)).
Notation r_items3 := (@CstFullTree.r_items epieces).
Notation T_ := (Parse.token text).
Notation st := (CstLex.st text).
Notation W := (CstLex.W text).
Notation WV := (CstULex.WV text).
Notation sb := (slice_bytes text).
Notation SimP := (CstSoundPBuild.SimP text ets).
Notation ResX := (CstSound6rNest.ResX text).
Notation Res := (CstSoundPBuild.Res text).
Notation RT := (CstSound6rNest.RT text).
Notation lvD := (CstSound6rNest.lvD tb4 false).
Notation lvK := (CstSound6rNest.lvK tb4 false).
Notation evs := (CstLex.evs context T_).
Notation lok := (lev_ok tb4 false PT).
Notation Henv := (CstSound6rBText.Henv text xds ets Henv6).

(* ---- what the start tag gives for the inlining ---- *)
Lemma elem_facts inh pre loc (es : list uentry) ws_end : elem_ok_r decls inh pre loc es ws_end ->
  wf_qname (mkq pre loc) = true /\ forallb (wf_uentry_s false) es = true /\ Cst.wf_ws ws_end = true /\
  exists es' tra, inline_entries tb4 false es = Some (es', tra) /\ CstSound6uEmb.GoodT tra /\
    map xb es' = map xe3 es /\ forallb (fun e => E.crlf_split_ok (e_value bpieces e)) es' = true /\
    ns_own inh (x_qname (mkq pre loc)) (map xb es') = true.
Proof.
  intros (H1 & H2 & H3 & H4).
  assert (Hs : forallb (wf_entry_s M3) es = true).
  { assert (Hi : wf_item M3 (IElem (mkq pre loc) es ws_end None) = true) by (rewrite CstFullTree.wf_item_elem, H1, H2, H3; reflexivity).
    pose proof (RX.Proofs.CstFullS5.wf_item_s_of M3 _ Hi) as Hs. rewrite wf_item_elem_s in Hs. rewrite !andb_true_iff in Hs. tauto. }
  destruct (CstSound6uEmb.entries_embed xds es Hs) as (Wa & es' & tra & Ea & Ga & Xa & Ca).
  split; [exact H1|]. split; [exact Wa|]. split; [exact H3|]. exists es', tra. split; [exact Ea|]. split; [exact Ga|].
  split; [exact Xa|]. split; [exact Ca|]. rewrite Xa. exact H4.
Qed.

Lemma ResX_of c D K : CstSoundPBuild.Res text c D K [] -> ResX c.
Proof. intros [A B0 C0 D0]. exists D, K. constructor; [exact A|exact B0|exact C0|exact D0]. Qed.
Lemma ResX_get c : ResX c -> exists D K, CstSoundPBuild.Res text c D K [].
Proof. intros (D & K & [A B0 C0 D0]). exists D, K. constructor; [exact A|exact B0|exact C0|exact D0]. Qed.
Lemma Res_sh c D K : Res c D K [] -> Res (CstEntCBuild.sh c) D K [].
Proof. intros [A B0 C0 D0]. constructor; [exact A|exact B0|exact C0|exact D0]. Qed.
Lemma Res_unsh c D K : Res (CstEntCBuild.sh c) D K [] -> Res c D K [].
Proof. intros [A B0 C0 D0]. constructor; [exact A|exact B0|exact C0|exact D0]. Qed.
Lemma RT_use c c' DD KK D K : RT c c' DD KK -> Res c D K [] -> Res c' (D ++ DD) (K + KK) [].
Proof. intros H HR. apply Res_unsh. apply H. apply Res_sh. exact HR. Qed.
Lemma Res_cast c D K D' K' : D = D' -> K = K' -> Res c D K [] -> Res c D' K' [].
Proof. intros -> ->. exact (fun H => H). Qed.

(* ---- the content loop ---- *)
Definition level_ok_a (f : frame) (cw : list uitem * bytes) : Prop :=
  forallb (wf_uitem_s false) (fst cw) = true /\ no_adjacent_text epieces (fst cw) = true /\ Cst.wf_ws (snd cw) = true /\
  lok (f_sc f) (fst cw).
Definition lv_wf_a (fs : list frame) (lv : levels_r) : Prop := Forall2 level_ok_a fs lv.

Definition Closed_a (D : list Scope.binding) (K : nat) (depth : N) (l : bytes) (stk : list frame) (s' : stream) (c' : context) : Prop :=
  exists lv l' p' opn rest,
    stk = opn ++ rest /\ N.of_nat (length lv) = depth + 1 /\
    l = r_levels_r opn lv ++ l' /\ s' = st p' l' /\ WV p' l' /\ SimP c' rest /\
    (text_stop l -> head_ok_r lv) /\ lv_wf_a opn lv /\ Res c' (D ++ lvD lv) (K + lvK opn lv) [].

(* a non-text item in front *)
Lemma Closed_prepend_a D K depth (i : uitem) l1 stk s' c' bi ti :
  Closed_a (D ++ NT.items_decls (bdens bi)) (K + NT.ns_costs (top_sc stk) (bdens bi)) depth l1 stk s' c' ->
  wf_uitem_s false i = true -> is_text epieces i = false ->
  inline_item tb4 false i = Some (bi, ti) -> CstSound6uEmb.GoodT ti -> PV bi -> ns_oks (top_sc stk) (bdens bi) = true ->
  Closed_a D K depth (r_item i ++ l1) stk s' c'.
Proof.
  intros (lv & l' & p' & opn & rest & E1 & E3 & E4 & E5 & E6 & E7 & E9 & E10 & E11) Hwf Htx Hi Hg Hp Hns.
  inversion E10 as [|n [cs w] opn' lv' (A1 & A2 & A3 & A4) Hr]; subst; [cbn [length] in E3; lia|].
  exists ((i :: cs, w) :: lv'), l', p', (n :: opn'), rest.
  split; [reflexivity|]. split; [exact E3|]. split.
  { cbn [r_levels_r CstFullTree.r_items]. rewrite <- !app_assoc. reflexivity. }
  split; [reflexivity|]. split; [exact E6|]. split; [exact E7|]. split.
  { intros _. destruct i; try exact I. discriminate. }
  split.
  2:{ cbn [fst snd top_sc app] in *. destruct (CstSound6rNest.A_item tb4 false PT (f_sc n) i cs bi ti Hi A4) as [X1 X2].
      cbn [CstSound6rNest.lvD CstSound6rNest.lvK flat_map fst] in E11 |- *. rewrite X1, X2.
      refine (Res_cast _ _ _ _ _ _ _ E11); [rewrite <- !app_assoc; reflexivity|lia]. }
  cbn [fst snd] in *. constructor; [|exact Hr]. unfold level_ok_a. cbn [fst snd forallb].
  rewrite Hwf, A1. split; [reflexivity|]. split; [|split; [exact A3|]].
  - destruct cs as [|c0 r]; [reflexivity|].
    change (no_adjacent_text epieces (i :: c0 :: r)) with
      (negb (is_text epieces i && is_text epieces c0) && no_adjacent_text epieces (c0 :: r)).
    rewrite A2, Htx. reflexivity.
  - cbn [top_sc app] in Hns. exact (lev_item tb4 false PT PT_app _ _ _ _ _ Hi Hg I Hp Hns A4).
Qed.

Lemma Closed_prepend_leaf_a D K depth (i : uitem) (i' : bitem) l1 stk s' c' :
  Closed_a D K depth l1 stk s' c' -> wf_uitem_s false i = true -> is_text epieces i = false ->
  inline_item tb4 false i = Some ([i'], []) -> provisos_item i' = true -> CstFullS4Sem.is_btext i' = false ->
  (forall sc, ns_oks sc (bdens [i']) = true) ->
  NT.items_decls (bdens [i']) = [] -> (forall sc, NT.ns_costs sc (bdens [i']) = 0%nat) ->
  Closed_a D K depth (r_item i ++ l1) stk s' c'.
Proof.
  intros HC Hwf Htx Hi Hp Hb Hn Hd0 Hk0.
  assert (HC' : Closed_a (D ++ NT.items_decls (bdens [i'])) (K + NT.ns_costs (top_sc stk) (bdens [i'])) depth l1 stk s' c')
    by (rewrite Hd0, Hk0, app_nil_r, Nat.add_0_r; exact HC).
  apply (Closed_prepend_a D K depth i l1 stk s' c' [i'] [] HC' Hwf Htx Hi CstSound6uEmb.GoodT_nil); [|apply Hn].
  constructor; [|constructor]. destruct i'; try exact Hp. discriminate.
Qed.

(* a text fragment in front: it joins the run at the head, if there is one *)
Lemma Closed_prepend_frag_a D K depth ps l1 stk s' c' b1 t1 :
  Closed_a (D ++ NT.items_decls (bdens b1)) (K + NT.ns_costs (top_sc stk) (bdens b1)) depth l1 stk s' c' ->
  forallb (wf_uepiece 60 true true false) ps = true -> E.no_adjacent_elit ps = true -> ps <> [] ->
  (text_stop l1 \/ match ps with [E.EP (T.PCData _)] => True | _ => False end) ->
  (text_stop (E.r_epieces (enc_epieces ps) ++ l1) -> match ps with q :: _ => E.is_elit q = false | [] => True end) ->
  inline_run tb4 false (enc_epieces ps) = Some (b1, t1) -> CstSound6uEmb.GoodT t1 -> PV b1 -> ns_oks (top_sc stk) (bdens b1) = true ->
  Closed_a D K depth (E.r_epieces (enc_epieces ps) ++ l1) stk s' c'.
Proof.
  intros (lv & l' & p' & opn & rest & E1 & E3 & E4 & E5 & E6 & E7 & E9 & E10 & E11) A B0 C0 Hjoin Hhd Hi Hg Hp Hns.
  inversion E10 as [|n [cs w] opn' lv' (A1 & A2 & A3 & A4) Hr]; subst; [cbn [length] in E3; lia|].
  exists ((ctr ps cs, w) :: lv'), l', p', (n :: opn'), rest.
  split; [reflexivity|]. split; [exact E3|]. split.
  { cbn [r_levels_r]. rewrite CstSoundPRMain.r_cons_text_r, <- !app_assoc. reflexivity. }
  split; [reflexivity|]. split; [exact E6|]. split; [exact E7|]. split.
  { intros Hs. specialize (Hhd Hs). destruct ps as [|q ps']; [congruence|].
    destruct cs as [|[n0 a0 w0 bd|qs|bs|t s v] r]; cbn [CstSoundPRMain.cons_text_r head_ok_r app]; exact Hhd. }
  split.
  2:{ cbn [fst snd top_sc app] in *. destruct (CstSound6rNest.A_text tb4 false PT (f_sc n) ps cs b1 t1 Hi A4) as [X1 X2].
      cbn [CstSound6rNest.lvD CstSound6rNest.lvK flat_map fst] in E11 |- *. rewrite X1, X2.
      refine (Res_cast _ _ _ _ _ _ _ E11); [rewrite <- !app_assoc; reflexivity|lia]. }
  cbn [fst snd] in *. constructor; [|exact Hr]. unfold level_ok_a. cbn [fst snd].
  split; [|split; [apply CstSoundPRMain.no_adj_text_cons_text_r; exact A2|split; [exact A3|]]].
  - apply wf_cons_text_f; try assumption. intros qs r -> .
    assert (Hq : E.no_adjacent_elit qs = true) by (cbn [forallb] in A1; apply andb_true_iff in A1; apply itext_no_adj_f; apply A1).
    destruct Hjoin as [Hst|Hcd].
    + specialize (E9 Hst). cbn [head_ok_r] in E9. apply CstSoundPRMain.no_adj_elit_app; [exact B0|exact Hq|]. destruct qs; [exact I|exact E9].
    + destruct ps as [|[[| | |c]|] [|? ?]]; try contradiction. cbn [app]. destruct qs as [|q qs']; [reflexivity|].
      change (negb (false && E.is_elit q) && E.no_adjacent_elit (q :: qs') = true). exact Hq.
  - cbn [top_sc app] in Hns. exact (lev_text tb4 false PT PT_app _ _ _ _ _ Hi Hg I Hp Hns A4).
Qed.

Lemma Closed_nest_a D K depth pre loc es ws_end nss l1 stk s' c' :
  Closed_a (D ++ CstNs.own_bindings (map xe3 es))
           (K + elem_cost (CstNs.own_bindings (map xe3 es)) (Scope.scope_of (CstNs.own_bindings (map xe3 es)) (top_sc stk)))
           (depth + 1) l1 (frame_of_r decls stk pre loc es nss :: stk) s' c' -> elem_ok_r decls (top_sc stk) pre loc es ws_end ->
  N.of_nat (length stk) = depth + 1 ->
  Closed_a D K depth ([60] ++ rq pre loc ++ flat_map r_entry es ++ ws_end ++ [62] ++ l1) stk s' c'.
Proof.
  intros (lv & l' & p' & opn & rest & E1 & E3 & E4 & E5 & E6 & E7 & E9 & E10 & E11) Hok Hlen.
  inversion E10 as [|n0 [cs_in w_in] opn1 lv1 (A1 & A2 & A3 & A4) Hr1]; subst; [cbn [length] in E3; lia|].
  inversion Hr1 as [|n1 [cs w] opn' lv' (B1 & B2 & B3 & B4) Hr']; subst; [cbn [length] in E3; lia|].
  cbn [app] in E1. injection E1 as En Estk. subst n0.
  set (item := IElem (mkq pre loc) es ws_end (Some (cs_in, w_in))).
  exists ((item :: cs, w) :: lv'), l', p', (n1 :: opn'), rest.
  split; [exact Estk|]. split; [cbn [length] in *; lia|]. split.
  { cbn [r_levels_r CstFullTree.r_items]. unfold item. rewrite CstFullTree.r_item_elem, rq_eq.
    unfold fq, frame_of_r. cbn [f_pre f_loc].
    change (CstNs.r_qname {| CstNs.q_prefix := utf8s pre; CstNs.q_local := utf8s loc |}) with (r_qname (mkq pre loc)).
    rewrite rq_eq. rewrite <- !app_assoc. cbn [app]. rewrite <- ?app_assoc. reflexivity. }
  split; [reflexivity|]. split; [exact E6|]. split; [exact E7|]. split; [intros _; exact I|].
  cbn [fst snd] in *.
  assert (Htop : top_sc stk = f_sc n1) by (rewrite Estk; reflexivity).
  destruct (elem_facts _ _ _ _ _ Hok) as (Hqn & Hes & Hwe & es' & tra & Ee & Ge & Xe & Ce & Hown).
  destruct A4 as (bsb & trb & Hin & _). cbn [frame_of_r f_sc] in Hin. rewrite <- Xe in Hin.
  destruct (elem_sem tb4 false (top_sc stk) (mkq pre loc) es es' tra ws_end (Some (cs_in, w_in)) bsb trb Ee Ge Ce Hown Hin) as (I1 & I2 & I3 & I4 & I5 & I6).
  split.
  2:{ destruct (CstSound6rNest.A_item tb4 false PT (f_sc n1) item cs _ _ I1 B4) as [X1 X2].
      cbn [CstSound6rNest.lvD CstSound6rNest.lvK flat_map fst frame_of_r f_sc] in E11 |- *. rewrite X1, X2, <- Htop, I5, I6.
      rewrite <- Xe, <- Htop in E11.
      refine (Res_cast _ _ _ _ _ _ _ E11); [rewrite <- !app_assoc; reflexivity|]. lia. }
  constructor; [|exact Hr']. unfold level_ok_a. cbn [fst snd forallb].
  assert (Hwf : wf_uitem_s false item = true).
  { unfold item. rewrite CstFullS6Text.wf_uitem_elem, Hqn, Hes, (ws_s _ Hwe), (ws_s _ A3), A2.
    rewrite <- CstFullS6Text.wf_uitems_forallb. exact A1. }
  rewrite Hwf, B1. split; [reflexivity|]. split; [|split; [exact B3|]].
  - destruct cs as [|c0 r]; [reflexivity|].
    change (no_adjacent_text epieces (item :: c0 :: r)) with
      (negb (is_text epieces item && is_text epieces c0) && no_adjacent_text epieces (c0 :: r)).
    rewrite B2. reflexivity.
  - rewrite Htop in I4. exact (lev_item tb4 false PT PT_app _ _ _ _ _ I1 I2 I I3 I4 B4).
Qed.

Lemma Closed_prepend_empty_a D K depth pre loc es ws_end l1 stk s' c' :
  Closed_a (D ++ CstNs.own_bindings (map xe3 es))
           (K + elem_cost (CstNs.own_bindings (map xe3 es)) (Scope.scope_of (CstNs.own_bindings (map xe3 es)) (top_sc stk)))
           depth l1 stk s' c' -> elem_ok_r decls (top_sc stk) pre loc es ws_end ->
  Closed_a D K depth ([60] ++ rq pre loc ++ flat_map r_entry es ++ ws_end ++ [47; 62] ++ l1) stk s' c'.
Proof.
  intros HC Hok.
  destruct (elem_facts _ _ _ _ _ Hok) as (Hqn & Hes & Hwe & es' & tra & Ee & Ge & Xe & Ce & Hown).
  destruct (elem_sem tb4 false (top_sc stk) (mkq pre loc) es es' tra ws_end None [] [] Ee Ge Ce Hown (conj eq_refl eq_refl)) as (I1 & I2 & I3 & I4 & I5 & I6).
  assert (HC' : Closed_a (D ++ NT.items_decls (bdens [@IElem bpieces (mkq pre loc) es' ws_end None]))
                         (K + NT.ns_costs (top_sc stk) (bdens [@IElem bpieces (mkq pre loc) es' ws_end None])) depth l1 stk s' c')
    by (rewrite I5, I6, app_nil_r, Nat.add_0_r, Xe; exact HC).
  pose proof (Closed_prepend_a D K depth (IElem (mkq pre loc) es ws_end None) l1 stk s' c' [@IElem bpieces (mkq pre loc) es' ws_end None] (tra ++ []) HC') as H.
  rewrite CstFullTree.r_item_elem, rq_eq in H. rewrite <- !app_assoc in H.
  apply (H ltac:(rewrite CstFullS6Text.wf_uitem_elem, Hqn, Hes, (ws_s _ Hwe); reflexivity) eq_refl I1 I2 I3 I4).
Qed.

Lemma Closed_close_a D K depth f ws2 l1 stk' s' c' :
  Closed_a D K (depth - 1) l1 stk' s' c' -> 0 < depth -> Cst.wf_ws ws2 = true ->
  Closed_a D K depth ([60; 47] ++ fq f ++ ws2 ++ [62] ++ l1) (f :: stk') s' c'.
Proof.
  intros (lv & l' & p' & opn & rest & E1 & E3 & E4 & E5 & E6 & E7 & E9 & E10 & E11) Hd Hw.
  exists (([], ws2) :: lv), l', p', (f :: opn), rest.
  split; [rewrite E1; reflexivity|]. split; [cbn [length]; lia|]. split.
  { rewrite E4. cbn [r_levels_r CstFullTree.r_items app]. rewrite <- !app_assoc. reflexivity. }
  split; [exact E5|]. split; [exact E6|]. split; [exact E7|]. split; [intros _; exact I|].
  split; [|exact E11].
  constructor; [|exact E10]. unfold level_ok_a. cbn [fst snd forallb no_adjacent_text]. repeat split; try assumption. apply (lev_nil tb4 false PT I).
Qed.

Lemma Closed_base_a D K f ws2 l' p' stk' c' : WV p' l' -> SimP c' stk' -> Cst.wf_ws ws2 = true -> Res c' D K [] ->
  Closed_a D K 0 ([60; 47] ++ fq f ++ ws2 ++ [62] ++ l') (f :: stk') (st p' l') c'.
Proof.
  intros HW HS Hw HR. exists [([], ws2)], l', p', [f], stk'.
  split; [reflexivity|]. split; [reflexivity|]. split.
  { cbn [r_levels_r CstFullTree.r_items app]. rewrite <- !app_assoc. reflexivity. }
  split; [reflexivity|]. split; [exact HW|]. split; [exact HS|]. split; [intros _; exact I|].
  split; [|refine (Res_cast _ _ _ _ _ _ _ HR); [symmetry; apply app_nil_r|cbn; lia]].
  constructor; [|constructor]. unfold level_ok_a. cbn [fst snd forallb no_adjacent_text]. repeat split; try assumption. apply (lev_nil tb4 false PT I).
Qed.


Lemma content_sound_a : forall fuel depth p l c s' c' stk D K,
  WV p l -> bom_len text < p -> SimP c stk -> Res c D K [] -> N.of_nat (length stk) = depth + 1 ->
  parse_content_loop text context T_ fuel depth (st p l) c = Ok (s', c') ->
  Closed_a D K depth l stk s' c' \/ exists stk2 p2 l2, s' = st p2 l2 /\ WV p2 l2 /\ SimP c' stk2 /\ stk2 <> [] /\ bom_len text < p2.
Proof.
  induction fuel as [|fu IH]; intros depth p l c s' c' stk D K HWV Hbp HS HRc Hlen H;
    cbn [parse_content_loop] in H; [noerr|].
  pose proof (ResX_of _ _ _ HRc) as HR.
  pose proof (WV_W _ _ _ HWV) as HW.
  rewrite (at_end_st text) in H by exact HW.
  destruct l as [|x l0].
  { inversion H; subst. right. exists stk, p, [].
    split; [reflexivity|]. split; [exact HWV|]. split; [exact HS|].
    split; [destruct stk; [cbn [length] in Hlen; lia|discriminate]|exact Hbp]. }
  cbn [curr_byte_unchecked CstLex.st s_rest bind] in H. fold (st p (x :: l0)) in H.
  destruct (x =? 60) eqn:E60.
  2:{ (* a text token *)
    ib H q Hq. destruct q as [s1 c1].
    destruct (inv_text_p text context T_ _ _ _ _ _ _ HWV ltac:(lia) Hq) as (cs & l1 & El & Hraw & Hstop & -> & HW1 & Hev).
    rewrite El in HWV.
    destruct (step_text_b text HF xds ets Henv6 Hdecls Hmk Hpure Hnames _ _ _ _ _ _ HWV Hraw HS HR Hev)
      as (HS1 & HR1 & ps' & b1 & t1 & Eps & A & B0 & C0 & Hi & Hg & HP & Hn & HT).
    destruct (IH _ _ _ _ _ _ _ _ _ HW1 ltac:(lia) HS1 (RT_use _ _ _ _ _ _ HT HRc) Hlen H) as [HC|HU]; [left|right; exact HU].
    rewrite El, Eps. apply (Closed_prepend_frag_a D K depth ps' l1 stk s' c' b1 t1 HC A B0 C0 (or_introl Hstop)); try assumption.
    intros Hs. exfalso. rewrite <- Eps, <- El in Hs. cbn [text_stop] in Hs. lia. }
  assert (x = 60) by lia. subst x.
  destruct l0 as [|y l1].
  { unfold next_byte in H. cbn [CstLex.st s_pos s_end s_rest] in H. destruct HW as [_ HW].
    unfold blen in HW. cbn [length] in HW. replace (tlen text <=? p + 1) with true in H by lia. noerr. }
  rewrite (next_byte_st text) in H by exact HW.
  destruct (y =? 33) eqn:E33.
  { assert (y = 33) by lia. subst y. rewrite !(starts_with_st text) in H by exact HW.
    destruct (prefix_b (b "<!--") (60 :: 33 :: l1)) eqn:Ec.
    - change (b "<!--") with [60; 33; 45; 45] in Ec. destruct (prefix_b_split _ _ Ec) as (l2 & El).
      rewrite El in H, HWV. ib H q Hq. destruct q as [s1 c1].
      destruct (inv_comment_p text HF context T_ _ _ _ _ _ HWV Hq) as (bs & l3 & -> & Hwf & -> & HW1 & Hev).
      destruct (step_comment_p text ets _ _ _ _ _ HS Hev) as (HS1 & _).
      pose proof (CstSoundPBuild.Res_eq text _ _ _ _ _ (leaf_nseq text _ _ _ _ Hev) HRc) as HR1.
      destruct (IH _ _ _ _ _ _ _ _ _ HW1 ltac:(lia) HS1 HR1 Hlen H) as [HC|HU]; [left|right; exact HU].
      rewrite El. pose proof (Closed_prepend_leaf_a D K depth (@IComment epieces bs) (@IComment bpieces bs) l3 stk s' c' HC) as HP.
      cbn [r_item Cst.r_item] in HP. rewrite <- !app_assoc in HP. apply HP; [exact Hwf|reflexivity|reflexivity|reflexivity|reflexivity|intros sc; reflexivity|reflexivity|intros sc; reflexivity].
    - destruct (prefix_b (b "<![CDATA[") (60 :: 33 :: l1)) eqn:Ed; [|noerr].
      change (b "<![CDATA[") with [60; 33; 91; 67; 68; 65; 84; 65; 91] in Ed. destruct (prefix_b_split _ _ Ed) as (l2 & El).
      rewrite El in H, HWV. ib H q Hq. destruct q as [s1 c1].
      destruct (inv_cdata_p text context T_ _ _ _ _ _ HWV Hq) as (cs & l3 & -> & Hu & Hnc & -> & HW1 & Hev).
      unfold cdata_tok in Hev.
      destruct (step_cdata_p text ets _ _ _ _ _ HS Hev) as (HS1 & _).
      pose proof (CstSoundPBuild.Res_eq text _ _ _ _ _ (cdata_nseq text _ _ _ _ Hev) HRc) as HR1.
      destruct (IH _ _ _ _ _ _ _ _ _ HW1 ltac:(lia) HS1 HR1 Hlen H) as [HC|HU]; [left|right; exact HU].
      rewrite El.
      assert (HC' : Closed_a (D ++ NT.items_decls (bdens [@IText bpieces [T.PCData (utf8s cs)]]))
                             (K + NT.ns_costs (top_sc stk) (bdens [@IText bpieces [T.PCData (utf8s cs)]])) depth l3 stk s' c')
        by (rewrite (decls_texts [@IText bpieces [T.PCData (utf8s cs)]] eq_refl), (costs_texts _ [@IText bpieces [T.PCData (utf8s cs)]] eq_refl), app_nil_r, Nat.add_0_r; exact HC).
      pose proof (Closed_prepend_frag_a D K depth [E.EP (T.PCData cs)] l3 stk s' c' [@IText bpieces [T.PCData (utf8s cs)]] [] HC') as HP.
      unfold enc_epieces in HP. cbn [map enc_epiece enc_piece E.r_epieces flat_map E.r_epiece T.r_piece] in HP. rewrite app_nil_r, <- !app_assoc in HP.
      apply HP.
      + cbn [forallb wf_uepiece wf_utpiece andb]. rewrite contains_eq. change T.cdata_close with [93; 93; 62]. rewrite Hnc, (uchars_xml _ Hu). reflexivity.
      + reflexivity.
      + discriminate.
      + right. exact I.
      + intros _. reflexivity.
      + reflexivity.
      + apply CstSound6uEmb.GoodT_nil.
      + constructor; [reflexivity|constructor].
      + apply ns_oks_texts. reflexivity. }
  destruct (y =? 63) eqn:E63.
  { assert (y = 63) by lia. subst y. ib H q Hq. destruct q as [s1 c1].
    change (60 :: 63 :: l1) with ([60; 63] ++ l1) in *.
    destruct (inv_pi_p text HF context T_ _ _ _ _ _ HWV (xml_at_pos text HF _ _ HW Hbp) Hq) as (tg & sep & v & l3 & -> & Hwf & -> & HW1 & Hev).
    unfold pi_tok in Hev. cbv zeta in Hev.
    destruct (step_pi_p text ets _ _ _ _ _ _ HS Hev) as (HS1 & _).
    pose proof (CstSoundPBuild.Res_eq text _ _ _ _ _ (leaf_nseq text _ _ _ _ Hev) HRc) as HR1.
    destruct (IH _ _ _ _ _ _ _ _ _ HW1 ltac:(lia) HS1 HR1 Hlen H) as [HC|HU]; [left|right; exact HU].
    pose proof (Closed_prepend_leaf_a D K depth (@IPI epieces tg sep v) (@IPI bpieces tg sep v) l3 stk s' c' HC) as HP.
    cbn [r_item Cst.r_item] in HP. rewrite <- !app_assoc in HP.
    apply HP; [cbn [wf_uitem_s wf_misc_s]; apply (wf_pi_s_intro _ _ _ Hwf)|reflexivity|reflexivity|reflexivity|reflexivity|intros sc; reflexivity|reflexivity|intros sc; reflexivity]. }
  destruct (y =? 47) eqn:E47.
  { assert (y = 47) by lia. subst y. ib H q Hq. destruct q as [s1 c1].
    change (60 :: 47 :: l1) with ([60; 47] ++ l1) in *.
    destruct (inv_close_p text HF context T_ _ _ _ _ _ HWV Hq) as (pre & loc & ws2 & l3 & -> & Hname & Hws & -> & HW1 & Hev).
    unfold nclose_tok in Hev.
    destruct (step_close_p text ets _ _ _ _ _ _ HS Hev) as (f & stk' & Estk & Ep & El & HS1 & _ & Hnq).
    pose proof (CstSoundPBuild.Res_eq text _ _ _ _ _ Hnq HRc) as HR1.
    pose proof (W_app text _ _ _ HW) as HWn. change (blen [60; 47]) with 2 in HWn.
    destruct (qname_slices_r text _ _ _ _ HWn) as (Sp & Sl & _). rewrite Sp in Ep. rewrite Sl in El.
    assert (Efq : fq f = rq pre loc).
    { unfold fq. rewrite <- Ep, <- El. change (CstNs.r_qname {| CstNs.q_prefix := utf8s pre; CstNs.q_local := utf8s loc |}) with (r_qname (mkq pre loc)).
      apply rq_eq. }
    rewrite <- Efq. subst stk.
    destruct (depth =? 0) eqn:Ed.
    - inversion H; subst. assert (depth = 0) by lia. subst depth. left. apply Closed_base_a; assumption.
    - assert (Hlen' : N.of_nat (length stk') = depth - 1 + 1) by (cbn [length] in Hlen; lia).
      destruct (IH _ _ _ _ _ _ _ _ _ HW1 ltac:(lia) HS1 HR1 Hlen' H) as [HC|HU]; [left|right; exact HU].
      apply Closed_close_a; [exact HC|lia|exact Hws]. }
  (* a start tag *)
  ib H q Hq. destruct q as [[open s1] c1].
  change (60 :: y :: l1) with ([60] ++ (y :: l1)) in *.
  destruct (inv_element_p text HF context T_ _ _ _ _ _ _ HWV Hq)
    as (pre & loc & attrs & ws_end & l3 & ca & cb & El & Hname & Hraw & Hwe & Hev1 & Hev2 & Hev3 & -> & HW1).
  rewrite El in HWV.
  destruct (tag_sound_r text HF decls ets Henv Hdecls Hmk Hnames _ _ _ _ _ _ _ _ _ _ _ _ HWV Hname Hraw Hwe HS D K HRc Hev1 Hev2 Hev3)
    as (es & nss & HS1 & Ees & Hok & HR1 & _).
  rewrite El, <- Ees. destruct open.
  - assert (Hlen' : N.of_nat (length (frame_of_r decls stk pre loc es nss :: stk)) = depth + 1 + 1).
    { cbn [length]. rewrite Nat2N.inj_succ. etransitivity; [apply f_equal; exact Hlen|lia]. }
    destruct (IH _ _ _ _ _ _ _ _ _ HW1 ltac:(lia) HS1 HR1 Hlen' H) as [HC|HU]; [left|right; exact HU].
    cbn [negb tag_tail] in *. eapply Closed_nest_a; eassumption.
  - destruct (IH _ _ _ _ _ _ _ _ _ HW1 ltac:(lia) HS1 HR1 Hlen H) as [HC|HU]; [left|right; exact HU].
    cbn [negb tag_tail] in *. apply Closed_prepend_empty_a; assumption.
Qed.

End BMain.
