(* Proofs/CstSoundCr.v -- C08, soundness half: towards a fragment admitting a literal CR inside comment bodies and
   PI values (Spec/CstFullS7.v [wf_comment7], [wf_pi7] already admit it; P1 of [in_fragment_8] excludes every CR).

   This file: the byte scanner [scan] (a DFA over the states "outside", comment, CDATA section, PI target /
   separator / value), the predicate [good l := scan Out l = true] ("seen from the outside state, every CR of [l]
   lies in a comment body or a PI value"), the candidate fragment [in_fragment_8cr], the inclusion
   [in_fragment_8 text -> in_fragment_8cr text], and the facts the token-level inversion lemmas need:
     - [good_step]      good (x ++ l), no '<' in x         ->  good l  and no CR in x     (every WV_app/lit/cons step)
     - [good_open]      good ('<' :: l), l does not start with '?' / '!'  ->  good l        (start tags)
     - [good_comment]   good ("<!--" ++ v ++ "-->" ++ l), no "--" in v, v does not end with '-'  ->  good l
     - [good_cdata]     good ("<![CDATA[" ++ v ++ "]]>" ++ l), no "]]>" in v  ->  good l  and no CR in v
     - [good_pi_*]      the same for "<?" target sep value "?>" (no CR in target and separator)
   and the window predicate [WVc] = CstULex.WV + [good] with its step lemmas.
   Status and what is still missing for [parse_sound_fragment_8cr]: see the end of the file. *)
From Coq Require Import String.
From Coq Require Import List NArith Bool Lia.
Import ListNotations.
From RX Require Import Generated.
From RX.Model Require Import Base CharClass Stream Tokenizer Doc Builder Parse.
From RX.Spec Require Cst Chars CstU CstNs CstText CstEnt Scope.
From RX.Spec Require Import CstFull CstFullS5 CstFullS6 CstFullS7 CstFullS8.
From RX.Proofs Require Import CstLex CstULex.
From RX.Proofs Require CstSoundLex CstSoundULex.
From RX.Proofs Require Import CstSound CstSoundT CstSoundN CstSoundP CstSound6 CstSound7 CstSound8.
Open Scope N_scope.

(* ------------------------------------------------------------------------------------------ *)
(* the scanner                                                                                  *)
Inductive cst :=
| Out                      (* outside comments, PIs, CDATA sections *)
| L | LB | LBD             (* after "<", "<!", "<!-" *)
| C | C1 | C2              (* comment body; after "-", after "--" *)
| CD | CD1 | CD2           (* CDATA section (entered at "<!["); after "]", after "]]" *)
| PT | PT1                 (* PI target; '?' right after it *)
| PS                       (* white space after the target *)
| PV | PV1.                (* PI value; after '?' *)

Definition is_sp (x : N) : bool := (x =? 32) || (x =? 9) || (x =? 10) || (x =? 13).
Definition pt (x : N) : cst := if is_sp x then PS else if x =? 63 then PT1 else PT.

Definition cstep (s : cst) (x : N) : cst :=
  match s with
  | Out => if x =? 60 then L else Out
  | L => if x =? 63 then PT else if x =? 33 then LB else if x =? 60 then L else Out
  | LB => if x =? 45 then LBD else if x =? 91 then CD else if x =? 60 then L else Out
  | LBD => if x =? 45 then C else if x =? 60 then L else Out
  | C => if x =? 45 then C1 else C
  | C1 => if x =? 45 then C2 else C
  | C2 => if x =? 62 then Out else if x =? 45 then C2 else C
  | CD => if x =? 93 then CD1 else CD
  | CD1 => if x =? 93 then CD2 else CD
  | CD2 => if x =? 62 then Out else if x =? 93 then CD2 else CD
  | PT => pt x
  | PT1 => if x =? 62 then Out else pt x
  | PS => if is_sp x then PS else if x =? 63 then PV1 else PV
  | PV => if x =? 63 then PV1 else PV
  | PV1 => if x =? 62 then Out else if x =? 63 then PV1 else PV
  end.

(* the states in which a CR is admitted *)
Definition lax (s : cst) : bool := match s with C | C1 | C2 | PV | PV1 => true | _ => false end.

Fixpoint scan (s : cst) (l : bytes) : bool :=
  match l with
  | [] => true
  | x :: r => (negb (x =? 13) || lax s) && scan (cstep s x) r
  end.
Fixpoint run (s : cst) (l : bytes) : cst := match l with [] => s | x :: r => run (cstep s x) r end.
Fixpoint okrun (s : cst) (l : bytes) : bool :=
  match l with [] => true | x :: r => (negb (x =? 13) || lax s) && okrun (cstep s x) r end.

Definition good (l : bytes) : Prop := scan Out l = true.

Lemma scan_app : forall x s l, scan s (x ++ l) = okrun s x && scan (run s x) l.
Proof.
  induction x as [|a x IH]; intros s l; [reflexivity|]. cbn [app scan okrun run]. rewrite IH, andb_assoc. reflexivity.
Qed.
Lemma run_app : forall x y s, run s (x ++ y) = run (run s x) y.
Proof. induction x as [|a x IH]; intros y s; [reflexivity|]. cbn [app run]. apply IH. Qed.
Lemma okrun_app : forall x y s, okrun s (x ++ y) = okrun s x && okrun (run s x) y.
Proof.
  induction x as [|a x IH]; intros y s; [reflexivity|]. cbn [app okrun run]. rewrite IH, andb_assoc. reflexivity.
Qed.

(* a text without CR passes, whatever the state *)
Lemma nocr_scan : forall l s, mem_b 13 l = false -> scan s l = true.
Proof.
  induction l as [|x r IH]; intros s H; [reflexivity|]. cbn [mem_b] in H. apply orb_false_iff in H. destruct H as [H1 H2].
  cbn [scan]. rewrite (IH _ H2), andb_true_r. replace (x =? 13) with false by lia. reflexivity.
Qed.

(* ---- outside: a piece without '<' ---- *)
Lemma out_run : forall x, mem_b 60 x = false -> run Out x = Out.
Proof.
  induction x as [|a x IH]; intros H; [reflexivity|]. cbn [mem_b] in H. apply orb_false_iff in H. destruct H as [H1 H2].
  cbn [run cstep]. replace (a =? 60) with false by lia. apply IH. exact H2.
Qed.
Lemma out_okrun : forall x, mem_b 60 x = false -> okrun Out x = negb (mem_b 13 x).
Proof.
  induction x as [|a x IH]; intros H; [reflexivity|]. cbn [mem_b] in H. apply orb_false_iff in H. destruct H as [H1 H2].
  cbn [okrun cstep lax mem_b]. replace (a =? 60) with false by lia. rewrite (IH H2), orb_false_r.
  rewrite (N.eqb_sym 13 a). destruct (a =? 13); reflexivity.
Qed.

Lemma good_step x l : good (x ++ l) -> mem_b 60 x = false -> good l /\ mem_b 13 x = false.
Proof.
  unfold good. intros H Hx. rewrite scan_app, (out_run _ Hx), (out_okrun _ Hx) in H.
  apply andb_true_iff in H. destruct H as [H1 H2]. split; [exact H2|]. apply negb_true_iff. exact H1.
Qed.
Lemma good_app x l : good (x ++ l) -> mem_b 60 x = false -> good l.
Proof. intros H Hx. exact (proj1 (good_step _ _ H Hx)). Qed.
Lemma good_nocr x l : good (x ++ l) -> mem_b 60 x = false -> Forall (fun y => y <> 13) x.
Proof. intros H Hx. apply CstSoundLex.mem_b_Forall. exact (proj2 (good_step _ _ H Hx)). Qed.
Lemma good_cons x l : good (x :: l) -> x <> 60 -> good l.
Proof. intros H Hx. apply (good_app [x] l H). cbn [mem_b]. rewrite orb_false_r. lia. Qed.
Lemma nocr_good l : mem_b 13 l = false -> good l.
Proof. apply nocr_scan. Qed.

(* ---- '<' of a start tag: what follows is neither '?' nor '!' ---- *)
Definition not_open (l : bytes) : Prop := match l with x :: _ => x <> 63 /\ x <> 33 | [] => True end.
Lemma good_open l : good (60 :: l) -> not_open l -> good l.
Proof.
  unfold good. cbn [scan cstep lax]. change (60 =? 13) with false. change (60 =? 60) with true. cbn [negb orb andb].
  destruct l as [|x r]; [reflexivity|]. intros H [H1 H2]. cbn [scan cstep lax] in *.
  replace (x =? 63) with false in H by lia. replace (x =? 33) with false in H by lia. exact H.
Qed.
(* "</" *)
Lemma good_close l : good ([60; 47] ++ l) -> good l.
Proof. unfold good. cbn [app scan cstep lax]. intros H. exact H. Qed.

(* ---- comments ---- *)
Lemma prefix_b_app_false : forall n a c, prefix_b n (a ++ c) = false -> prefix_b n a = false.
Proof.
  induction n as [|m n IH]; intros a c H; [cbn in H; discriminate|]. destruct a as [|y a]; [reflexivity|].
  cbn [app prefix_b] in *. destruct (m =? y); [|reflexivity]. cbn [andb] in *. eapply IH; eauto.
Qed.
Lemma contains_b_app_l n : forall a c, contains_b n (a ++ c) = false -> n <> [] -> contains_b n a = false.
Proof.
  intros a c H Hn. induction a as [|x a IH]; [destruct n; [congruence|reflexivity]|].
  cbn [app contains_b] in H. apply orb_false_iff in H. destruct H as [H1 H2]. cbn [contains_b].
  rewrite (IH H2), orb_false_r. apply (prefix_b_app_false n (x :: a) c). exact H1.
Qed.

(* the state after a comment body without "--": C1 iff it ends with '-' *)
Lemma comment_run v : contains_b [45; 45] v = false ->
  run C v = (if ends_with_byte 45 v then C1 else C) /\ okrun C v = true.
Proof.
  induction v as [|b v IH] using rev_ind; intros H; [split; reflexivity|].
  assert (Hv : contains_b [45; 45] v = false) by (apply (contains_b_app_l _ v [b] H); discriminate).
  destruct (IH Hv) as [IR IO]. rewrite run_app, okrun_app, IR, IO. cbn [run okrun andb].
  unfold ends_with_byte at 2. rewrite rev_app_distr. cbn [rev app].
  destruct (ends_with_byte 45 v) eqn:Ee.
  - (* v ends with '-': b is not '-' *)
    cbn [cstep lax]. rewrite orb_true_r. destruct (b =? 45) eqn:Eb; [|split; reflexivity]. exfalso.
    assert (b = 45) by lia. subst b. unfold ends_with_byte in Ee. destruct (rev v) as [|y rv] eqn:Er; [discriminate|].
    assert (y = 45) by lia. subst y. assert (Ev : v = rev rv ++ [45]) by (rewrite <- (rev_involutive v), Er; reflexivity).
    rewrite Ev, <- app_assoc in H. cbn [app] in H. clear - H. induction (rev rv) as [|z t IHt].
    + cbn in H. discriminate.
    + cbn [app contains_b] in H. apply orb_false_iff in H. apply IHt. apply H.
  - cbn [cstep lax]. rewrite orb_true_r. destruct (b =? 45); split; reflexivity.
Qed.

Lemma scan_open_comment l : scan Out ([60; 33; 45; 45] ++ l) = scan C l.
Proof. reflexivity. Qed.

Lemma good_comment v l : good ([60; 33; 45; 45] ++ v ++ [45; 45; 62] ++ l) ->
  contains_b [45; 45] v = false -> ends_with_byte 45 v = false -> good l.
Proof.
  unfold good. intros H Hc He. rewrite scan_open_comment, scan_app in H.
  destruct (comment_run v Hc) as [IR IO]. rewrite IR, IO, He in H. exact H.
Qed.

(* ---- CDATA sections ---- *)
Definition cd_pend (s : cst) : bytes := match s with CD1 => [93] | CD2 => [93; 93] | _ => [] end.
Definition is_cd (s : cst) : bool := match s with CD | CD1 | CD2 => true | _ => false end.

Lemma cdata_run : forall v s, is_cd s = true -> contains_b [93; 93; 62] (cd_pend s ++ v) = false ->
  is_cd (run s v) = true /\ (okrun s v = true -> mem_b 13 v = false) /\
  contains_b [93; 93; 62] (cd_pend (run s v) ++ [93; 93; 62]) = true /\
  (forall l, scan (run s v) ([93; 93; 62] ++ l) = scan Out l).
Proof.
  induction v as [|b v IH]; intros s Hs H.
  - cbn [run okrun mem_b]. split; [exact Hs|]. split; [reflexivity|]. destruct s; try discriminate; split; try reflexivity; intros l; reflexivity.
  - cbn [run okrun mem_b].
    assert (K : is_cd (cstep s b) = true /\ contains_b [93; 93; 62] (cd_pend (cstep s b) ++ v) = false /\ lax s = false).
    { destruct s; try discriminate; cbn [cstep cd_pend app] in *.
      - destruct (b =? 93) eqn:Eb; cbn [cd_pend app is_cd].
        + assert (b = 93) by lia. subst b. auto.
        + cbn [contains_b] in H. apply orb_false_iff in H. split; [reflexivity|]. split; [apply H|reflexivity].
      - destruct (b =? 93) eqn:Eb; cbn [cd_pend app is_cd].
        + assert (b = 93) by lia. subst b. auto.
        + cbn [contains_b] in H. apply orb_false_iff in H. destruct H as [_ H]. apply orb_false_iff in H. split; [reflexivity|]. split; [apply H|reflexivity].
      - destruct (b =? 62) eqn:E62.
        + assert (b = 62) by lia. subst b. cbn in H. discriminate.
        + destruct (b =? 93) eqn:Eb; cbn [cd_pend app is_cd].
          * assert (b = 93) by lia. subst b. cbn [contains_b] in H. apply orb_false_iff in H. split; [reflexivity|]. split; [apply H|reflexivity].
          * cbn [contains_b] in H. apply orb_false_iff in H. destruct H as [_ H]. apply orb_false_iff in H. destruct H as [_ H].
            apply orb_false_iff in H. split; [reflexivity|]. split; [apply H|reflexivity]. }
    destruct K as (K1 & K2 & K3). destruct (IH _ K1 K2) as (A & B0 & C0 & D).
    split; [exact A|]. split; [|split; [exact C0|exact D]].
    rewrite K3, orb_false_r. intros Ho. apply andb_true_iff in Ho. destruct Ho as [Ho1 Ho2].
    rewrite (B0 Ho2), orb_false_r. apply negb_true_iff in Ho1. rewrite N.eqb_sym. exact Ho1.
Qed.

Lemma scan_open_cdata l : scan Out ([60; 33; 91; 67; 68; 65; 84; 65; 91] ++ l) = scan CD l.
Proof. reflexivity. Qed.

Lemma good_cdata v l : good ([60; 33; 91; 67; 68; 65; 84; 65; 91] ++ v ++ [93; 93; 62] ++ l) ->
  contains_b [93; 93; 62] v = false -> good l /\ mem_b 13 v = false.
Proof.
  unfold good. intros H Hc. rewrite scan_open_cdata, scan_app in H. apply andb_true_iff in H. destruct H as [H1 H2].
  destruct (cdata_run v CD eq_refl Hc) as (_ & B0 & _ & D). rewrite D in H2. split; [exact H2|exact (B0 H1)].
Qed.

(* ---- processing instructions ---- *)
(* a byte of a Name, of white space without CR *)
Definition plainb (x : N) : Prop := is_sp x = false /\ x <> 63.
Lemma pt_run : forall x, Forall plainb x -> run PT x = PT /\ okrun PT x = true.
Proof.
  induction 1 as [|a x [Ha1 Ha2] _ IH]; [split; reflexivity|]. cbn [run okrun cstep lax]. unfold pt. rewrite Ha1.
  replace (a =? 63) with false by lia. destruct IH as [I1 I2]. rewrite I1, I2. split; [reflexivity|].
  unfold is_sp in Ha1. rewrite !orb_false_iff in Ha1. destruct Ha1 as [_ Ha1]. rewrite Ha1. reflexivity.
Qed.

(* states reached by white space after the target: CR is not admitted *)
Definition is_ts (s : cst) : bool := match s with PT | PS => true | _ => false end.
Lemma ts_spaces : forall w s l, is_ts s = true -> scan s (w ++ l) = true -> forallb byte_is_space w = true ->
  Forall (fun y => y <> 13) w /\ (w <> [] -> run s w = PS) /\ scan (run s w) l = true.
Proof.
  induction w as [|a w IH]; intros s l Hs H Hw; [split; [constructor|split; [congruence|exact H]]|].
  cbn [forallb] in Hw. apply andb_true_iff in Hw. destruct Hw as [Ha Hw].
  cbn [app scan] in H. apply andb_true_iff in H. destruct H as [H1 H2].
  assert (Hl : lax s = false) by (destruct s; try discriminate; reflexivity). rewrite Hl, orb_false_r in H1.
  apply negb_true_iff in H1.
  assert (Hsp : is_sp a = true).
  { destruct (N.eq_dec a 13) as [->|Hn]; [reflexivity|]. pose proof (CstSoundULex.space_ws_u a Hn Ha) as Hw'.
    unfold Cst.is_ws in Hw'. unfold is_sp. lia. }
  assert (Hst : cstep s a = PS).
  { destruct s; try discriminate; cbn [cstep]; unfold pt; rewrite Hsp; reflexivity. }
  rewrite Hst in H2. destruct (IH PS l eq_refl H2 Hw) as (A & B0 & C0). cbn [run]. rewrite Hst.
  split; [constructor; [lia|exact A]|]. split; [|exact C0]. intros _. destruct w as [|a' w']; [reflexivity|]. apply B0. discriminate.
Qed.

(* the value up to "?>": from PS (value starts with a non-space) or PV *)
Definition pv_pend (s : cst) : bytes := match s with PV1 => [63] | _ => [] end.
Definition is_pv (s : cst) : bool := match s with PV | PV1 => true | _ => false end.
Lemma pv_run : forall v s, is_pv s = true -> contains_b [63; 62] (pv_pend s ++ v) = false ->
  okrun s v = true /\ forall l, scan (run s v) ([63; 62] ++ l) = scan Out l.
Proof.
  induction v as [|b v IH]; intros s Hs H.
  - cbn [run okrun]. split; [reflexivity|]. destruct s; try discriminate; intros l; reflexivity.
  - cbn [run okrun].
    assert (K : is_pv (cstep s b) = true /\ contains_b [63; 62] (pv_pend (cstep s b) ++ v) = false /\ lax s = true).
    { destruct s; try discriminate; cbn [cstep pv_pend app] in *.
      - destruct (b =? 63) eqn:Eb; cbn [pv_pend app is_pv].
        + assert (b = 63) by lia. subst b. auto.
        + cbn [contains_b] in H. apply orb_false_iff in H. split; [reflexivity|]. split; [apply H|reflexivity].
      - destruct (b =? 62) eqn:E62.
        + assert (b = 62) by lia. subst b. cbn in H. discriminate.
        + destruct (b =? 63) eqn:Eb; cbn [pv_pend app is_pv].
          * assert (b = 63) by lia. subst b. cbn [contains_b] in H. apply orb_false_iff in H. split; [reflexivity|]. split; [apply H|reflexivity].
          * cbn [contains_b] in H. apply orb_false_iff in H. destruct H as [_ H]. apply orb_false_iff in H. split; [reflexivity|]. split; [apply H|reflexivity]. }
    destruct K as (K1 & K2 & K3). destruct (IH _ K1 K2) as (A & B0). rewrite K3, orb_true_r, A. split; [reflexivity|exact B0].
Qed.

(* after the target: [sep] white space without CR, [v] without "?>", not starting with white space, empty if [sep] is *)
Lemma good_pi_tail sep v l : scan PT (sep ++ v ++ [63; 62] ++ l) = true ->
  forallb byte_is_space sep = true -> contains_b [63; 62] v = false ->
  match v with x :: _ => is_sp x = false /\ sep <> [] | [] => True end ->
  good l.
Proof.
  unfold good. intros H Hsep Hc Hv.
  destruct (ts_spaces sep PT _ eq_refl H Hsep) as (_ & Hr & H2).
  destruct v as [|x v].
  - cbn [app] in H2. destruct sep as [|a sep'].
    + cbn [run] in H2. cbn [scan cstep lax] in H2. unfold pt in H2. cbn in H2. exact H2.
    + rewrite (Hr ltac:(discriminate)) in H2. cbn [scan cstep lax] in H2. cbn in H2. exact H2.
  - destruct Hv as [Hx Hne]. rewrite (Hr Hne) in H2. cbn [app scan] in H2. apply andb_true_iff in H2. destruct H2 as [_ H2].
    cbn [cstep] in H2. rewrite Hx in H2. cbn [contains_b] in Hc. apply orb_false_iff in Hc. destruct Hc as [Hp Hc].
    destruct (x =? 63) eqn:E63.
    + assert (x = 63) by lia. subst x.
      assert (Hc' : contains_b [63; 62] (pv_pend PV1 ++ v) = false).
      { cbn [pv_pend app contains_b]. rewrite Hp, Hc. reflexivity. }
      destruct (pv_run v PV1 eq_refl Hc') as (_ & D). change (63 :: 62 :: l) with ([63; 62] ++ l) in H2. rewrite scan_app in H2.
      apply andb_true_iff in H2. destruct H2 as [_ H2]. rewrite D in H2. exact H2.
    + destruct (pv_run v PV eq_refl Hc) as (_ & D). change (63 :: 62 :: l) with ([63; 62] ++ l) in H2. rewrite scan_app in H2.
      apply andb_true_iff in H2. destruct H2 as [_ H2]. rewrite D in H2. exact H2.
Qed.

(* "<?" target ... : the state after the target is PT; the white space that follows has no CR *)
Lemma scan_open_pi l : scan Out ([60; 63] ++ l) = scan PT l.
Proof. reflexivity. Qed.
Lemma good_pi_target t l : good ([60; 63] ++ t ++ l) -> Forall plainb t -> scan PT l = true.
Proof.
  unfold good. intros H Ht. rewrite scan_open_pi, scan_app in H.
  destruct (pt_run t Ht) as [I1 I2]. rewrite I1, I2 in H. exact H.
Qed.
Lemma good_pi_spaces w l : scan PT (w ++ l) = true -> forallb byte_is_space w = true -> Forall (fun y => y <> 13) w.
Proof. intros H Hw. exact (proj1 (ts_spaces w PT l eq_refl H Hw)). Qed.

(* ------------------------------------------------------------------------------------------ *)
(* windows with the invariant                                                                   *)
Section WVc.
Variable text : bytes.
Notation W := (CstLex.W text).
Notation WV := (CstULex.WV text).

Definition WVc (p : N) (l : bytes) : Prop := WV p l /\ good l.

Lemma WVc_WV p l : WVc p l -> WV p l.
Proof. intros H. apply H. Qed.
Lemma WVc_W p l : WVc p l -> W p l.
Proof. intros H. apply H. Qed.
Lemma WVc_good p l : WVc p l -> good l.
Proof. intros H. apply H. Qed.
Lemma WVc_valid p l : WVc p l -> U8.Valid l.
Proof. intros H. apply H. Qed.

Lemma WVc_app p x l : WVc p (x ++ l) -> U8.Valid x -> mem_b 60 x = false -> WVc (p + blen x) l.
Proof. intros [H1 H2] Hx H60. split; [exact (WV_app text _ _ _ H1 Hx)|exact (good_app _ _ H2 H60)]. Qed.
Lemma WVc_lit p x l : WVc p (x ++ l) -> forallb (fun y => y <? 128) x = true -> mem_b 60 x = false -> WVc (p + blen x) l.
Proof. intros [H1 H2] Hx H60. split; [exact (WV_lit text _ _ _ H1 Hx)|exact (good_app _ _ H2 H60)]. Qed.
Lemma WVc_cons p x l : WVc p (x :: l) -> x < 128 -> x <> 60 -> WVc (p + 1) l.
Proof. intros [H1 H2] Hx H60. split; [exact (WV_cons text _ _ _ H1 Hx)|exact (good_cons _ _ H2 H60)]. Qed.
(* no CR in a piece without '<' *)
Lemma WVc_nocr p x l : WVc p (x ++ l) -> mem_b 60 x = false -> Forall (fun y => y <> 13) x.
Proof. intros [_ H2] H60. exact (good_nocr _ _ H2 H60). Qed.
Lemma WVc_new : U8.Valid text -> good text -> WVc 0 text.
Proof. intros Hv Hg. split; [exact (WV_new text Hv)|exact Hg]. Qed.
End WVc.

(* ------------------------------------------------------------------------------------------ *)
(* the candidate fragment                                                                       *)
(* the XML declaration ("<?xml" followed by white space, at the very start) must not contain a CR: if the text starts
   with "<?xml", no CR up to the first '>' and the scan starts after it; an early '>' inside the declaration is
   harmless, the rest of the declaration is then scanned from the outside state, where CR is not admitted *)
Fixpoint drop_until (q : N) (l : bytes) : bytes :=
  match l with [] => [] | x :: r => if x =? q then r else drop_until q r end.
Definition cr_ok (text : bytes) : bool :=
  if prefix_b (b "<?xml") text then negb (mem_b 13 (take_until 62 text)) && scan Out (drop_until 62 text)
  else scan Out text.

(* [in_fragment_8] with P1 (no CR at all) replaced by [cr_ok] *)
Definition in_fragment_8_cr (text : bytes) : bool :=
  valid_utf8_b text && cr_ok text && charrefs_scalar text &&
  no_colon_start text &&
  xml_pi_ok text && decl_names_ok text && names_nc7 text && ndata_sp text && ge_values_ok8 text.

(* Level 1 of the plan: a text with a CR has no document type declaration *)
Definition in_fragment_8cr (text : bytes) : bool :=
  in_fragment_8 text || (in_fragment_8_cr text && negb (contains_b (b "<!DOCTYPE") text)).

Lemma mem_b_take_until q x : forall l, mem_b x l = false -> mem_b x (take_until q l) = false.
Proof.
  induction l as [|y r IH]; intros H; [reflexivity|]. cbn [mem_b] in H. apply orb_false_iff in H. destruct H as [H1 H2].
  cbn [take_until]. destruct (y =? q); [reflexivity|]. cbn [mem_b]. rewrite H1, (IH H2). reflexivity.
Qed.
Lemma mem_b_drop_until q x : forall l, mem_b x l = false -> mem_b x (drop_until q l) = false.
Proof.
  induction l as [|y r IH]; intros H; [reflexivity|]. cbn [mem_b] in H. apply orb_false_iff in H. destruct H as [H1 H2].
  cbn [drop_until]. destruct (y =? q); [exact H2|]. apply IH. exact H2.
Qed.

Lemma nocr_cr_ok text : mem_b 13 text = false -> cr_ok text = true.
Proof.
  intros H. unfold cr_ok. destruct (prefix_b _ text).
  - rewrite (mem_b_take_until 62 13 _ H). cbn [negb andb]. apply nocr_scan. apply mem_b_drop_until. exact H.
  - apply nocr_scan. exact H.
Qed.

Lemma in_fragment_8_8_cr text : in_fragment_8 text = true -> in_fragment_8_cr text = true.
Proof.
  unfold in_fragment_8, in_fragment_8_cr. intros H.
  rewrite !andb_true_iff in H. destruct H as [[[[[[[[H0 H1] H2] H3] H5] H6] H7] H8] H9].
  apply negb_true_iff in H1. rewrite H0, (nocr_cr_ok _ H1), H2, H3, H5, H6, H7, H8, H9. reflexivity.
Qed.

Lemma in_fragment_8_8cr text : in_fragment_8 text = true -> in_fragment_8cr text = true.
Proof. unfold in_fragment_8cr. intros ->. reflexivity. Qed.

(* the statement aimed at (NOT proved here) *)
Definition parse_sound_fragment_8cr_stmt : Prop :=
  forall text opt d, in_fragment_8cr text = true -> allow_dtd opt = true -> parse text opt = Ok d ->
  exists c : S6.doc, S8.wf_doc c = true /\ S8.render c = text.

(* an input with a CR inside a comment and inside a PI value: in the new fragment, not in [in_fragment_8];
   a CR in white space or character data is refused *)
Example ex_cr_in : in_fragment_8cr (b "<?xml version='1.0'?><!-- a" ++ [13] ++ b "b --><?p x" ++ [13; 10] ++ b "y?><r a='1'>t<![CDATA[<?]]><!--" ++ [13] ++ b "--></r><?q" ++ [10] ++ b "z" ++ [13] ++ b "?>") = true.
Proof. vm_compute. reflexivity. Qed.
Example ex_cr_not8 : in_fragment_8 (b "<r><!-- a" ++ [13] ++ b "b --><?p x" ++ [13] ++ b "y?></r>") = false.
Proof. vm_compute. reflexivity. Qed.
Example ex_cr_in2 : in_fragment_8cr (b "<r><!-- a" ++ [13] ++ b "b --><?p x" ++ [13] ++ b "y?></r>") = true.
Proof. vm_compute. reflexivity. Qed.
Example ex_cr_out_text : in_fragment_8cr (b "<r>a" ++ [13] ++ b "b</r>") = false.
Proof. vm_compute. reflexivity. Qed.
Example ex_cr_out_ws : in_fragment_8cr (b "<r" ++ [13] ++ b "/>") = false.
Proof. vm_compute. reflexivity. Qed.
Example ex_cr_out_sep : in_fragment_8cr (b "<r><?p" ++ [13] ++ b "x?></r>") = false.
Proof. vm_compute. reflexivity. Qed.
Example ex_cr_out_cdata : in_fragment_8cr (b "<r><![CDATA[" ++ [13] ++ b "]]></r>") = false.
Proof. vm_compute. reflexivity. Qed.
Example ex_cr_out_decl : in_fragment_8cr (b "<?xml version='1.0'" ++ [13] ++ b "?><r/>") = false.
Proof. vm_compute. reflexivity. Qed.

(* ------------------------------------------------------------------------------------------ *)
(* STATUS.  [parse_sound_fragment_8cr_stmt] is NOT proved.  Proved: this file and the token level
   (Proofs/CstSoundCrLex.v, generated by tools/portcr/port.py from Part 1 of Proofs/CstSound8Lex.v): on windows
   [WVc], white space, '=', qualified names, comments ([wf_comment7], CR admitted), character data, CDATA sections,
   PIs ([wf_pi7], CR admitted in the value only), end tags and start tags are inverted and hand over [WVc] to the
   next token; character data, CDATA and attribute values come with "no CR".
   Still to do, in this order:
   1. Part 2 of CstSound8Lex.v (dcs_inv, inv_pattr, inv_pseudo, inv_declaration): WV -> WVc with the side condition
      "no '<'" at each step (all pieces are names, white space, '=', quotes, values without '<').  [good] does not
      hold at position 0 when the text starts with "<?xml": use the _g forms (explicit "no CR" premise, from the
      first conjunct of [cr_ok]) inside the declaration and enter [WVc] after it, from [scan Out (drop_until 62 text)]
      and [good_app] over the rest of the declaration.
   2. Part 3 of CstSound8Lex.v and CstSound8Dtd.v: under [contains_b "<!DOCTYPE" text = false] (second disjunct of
      [in_fragment_8cr]) [inv_doctype] is vacuous (CstLex.W_noprefix), nothing below it is needed.  To admit a DOCTYPE
      together with CRs, the pieces that may contain '<' (system literal in inv_syslit, parameter-entity literal,
      skipped declaration bodies kv / vb of inv_consume_decl, markup literal of a general entity through ValOK) need
      "scanning this piece from Out ends in Out": either declaration states in [cstep] (CR and '<' refused between
      "<!X" and '>' outside comments) or byte conditions in the style of ge_values_ok8.
   3. The layers above use "no CR" on PLAIN windows (CstLex.W inside the sub-stream windows CstSoundTText.WS):
      W_no13 / W_no13_all in CstSound8RText.v (146-150, used 433), CstSound8BText.v (152, used 331; 351),
      CstSound8Nest.v (367, 490), CstSound8RTok.v (102, 129).  The windows there are a character-data token, an
      attribute value, or the literal of an entity declaration: take "no CR in the window" as a hypothesis of the loops
      (it is closed under suffixes, so the induction carries it for free), discharge it from the new last conjuncts
      of inv_text_p / inv_elem_loop_p, and for entity literals add it to what a declaration exports (dstep / UseOK;
      vacuous without DOCTYPE).
   4. CstSound8Doc.v (misc_sound_p, tail_doc, rest_doc), RTag, Nest, BMain, RDoc, Final: WV -> WVc by substitution;
      the start is WVc_new (after the BOM: WVc_app with [239; 187; 191]). *)
