(* Proofs/CstSound6dFinal.v -- C08 soundness on stage S6 (Spec/CstFullS6.v), THE CAPSTONE: the closed theorem
   [parse_sound_fragment_6] (= [parse_sound_fragment_6_stmt] of Proofs/CstSound6.v) on the whole fragment [in_fragment_6]:
   nothing is excluded any more.  Beyond [parse_sound_fragment_6c] (Proofs/CstSound6cFinal.v): the ATTRIBUTE VALUES and the
   NAMESPACE URIs of the elements of a markup-valued entity literal may contain character references, predefined references
   and references to general entities (whatever the crate accepts there: no '<' may reach such a value, not even through
   &lt; or through an entity -- D15 --, and a markup-valued entity may not be referenced there; on those inputs the crate
   answers Err, and S6.wf_doc is false too, so they are simply not accepted inputs).
   The chain is CstSound6dFlat.v (tools/port6d/mkflat.py from CstSound6cFlat.v: the pieces of every attribute value of a
   markup value are decoded at the declaration), CstSound6d{Lex,Dtd,Text,Doc,Val,RText,RTok,RTag}.v (tools/port6d/port6d.py
   from the 6c files: the fragment record Frag6d is Frag6c without its last field), CstSound6dNest.v (tools/port6d/mknest.py:
   value_d, attrs_shadow_d, tag_lit with the trace of the entries), CstSound6dBText.v (tools/port6d/mkbtext.py),
   CstSound6d{BMain,RDoc}.v (port6d.py), this file (hand-written). *)
From Coq Require Import String.
From Coq Require Import List NArith Bool.
Import ListNotations.
From RX Require Import Generated.
From RX.Model Require Import Base CharClass Stream Tokenizer Doc Builder Parse.
From RX.Spec Require Import CstFull CstFullS4 CstFullS5 CstFullS6.
From RX.Proofs Require Import CstSound CstSoundT CstSoundN CstSoundP CstSound6 CstSound6Sanity CstSound6U.
From RX.Proofs Require Import CstSound6c CstSound6dLex CstSound6dVal CstSound6dRDoc.
Open Scope N_scope.

Theorem parse_sound_fragment_6 : forall text opt d,
  in_fragment_6 text = true -> allow_dtd opt = true -> parse text opt = Ok d ->
  exists c : S6.doc, S6.wf_doc c = true /\ S6.render c = text.
Proof.
  intros text opt d HF Hallow H.
  exact (parse_sound_fragment_6_val text opt d (val_ok6d text (in_fragment_6_Frag6d _ HF)) HF Hallow H).
Qed.

Theorem parse_sound_fragment_6_holds : parse_sound_fragment_6_stmt.
Proof. exact parse_sound_fragment_6. Qed.

Print Assumptions parse_sound_fragment_6.

(* the fragments of the milestones are inside this one *)
Lemma in_fragment_6c_6 text : in_fragment_6c text = true -> in_fragment_6 text = true.
Proof. unfold in_fragment_6c. intros H. apply andb_true_iff in H. apply H. Qed.

Lemma in_fragment_6a_6 text : in_fragment_6a text = true -> in_fragment_6 text = true.
Proof. intros H. apply in_fragment_6c_6. apply in_fragment_6a_6c. exact H. Qed.

(* [parse_sound_fragment_6c] (Proofs/CstSound6cFinal.v) and [parse_sound_fragment_6a] (Proofs/CstSound6bFinal.v) are corollaries *)
Corollary parse_sound_fragment_6c_again : parse_sound_fragment_6c_stmt.
Proof. intros text opt d HF. exact (parse_sound_fragment_6 text opt d (in_fragment_6c_6 _ HF)). Qed.
Corollary parse_sound_fragment_6a_again' : parse_sound_fragment_6a_stmt.
Proof. intros text opt d HF. exact (parse_sound_fragment_6 text opt d (in_fragment_6a_6 _ HF)). Qed.

(* ---- non-vacuity: an input of the fragment, OUTSIDE in_fragment_6c (the markup value of m has a start tag whose
   namespace URI contains a character reference and a reference to the character-data entity n, an attribute whose value
   contains a character reference, a predefined reference and &n;, and a prefixed attribute with &quot; and &n;; n itself
   contains &amp;), accepted with allow_dtd = true; m is referenced twice ---- *)
Definition ex_text : bytes :=
  b "<!DOCTYPE r [<!ENTITY n 'v&amp;w'><!ENTITY m '<p:b xmlns:p=""u&#65;&n;"" a=""&#x42;&gt;&n;"" p:c=""&quot;&n;"">t&n;</p:b>'>]><r>&m;y&m;</r>".

Example ex6d_nonvacuous :
  in_fragment_6 ex_text = true /\ in_fragment_6c ex_text = false /\ allow_dtd od = true /\
  (exists d, parse ex_text od = Ok d).
Proof.
  split; [vm_compute; reflexivity|]. split; [vm_compute; reflexivity|]. split; [reflexivity|].
  destruct (parse ex_text od) as [d| | |] eqn:E; [exists d; reflexivity| | |]; vm_compute in E; discriminate.
Qed.

Example ex6d_applied : exists c : S6.doc, S6.wf_doc c = true /\ S6.render c = ex_text.
Proof.
  destruct ex6d_nonvacuous as (HF & _ & Hallow & (d & Hd)).
  exact (parse_sound_fragment_6 ex_text od d HF Hallow Hd).
Qed.
Print Assumptions ex6d_applied.

(* more inputs of in_fragment_6 outside in_fragment_6c, accepted: the three inputs of ex6c_out (Proofs/CstSound6cFinal.v:
   "what remains"); an attribute value of a markup value that reaches a chain of character-data entities; a markup value
   with such attributes referenced from the text of another markup value; an empty element and a default namespace *)
Example ex6d_more : forallb (fun t => in_fragment_6 (b t) && negb (in_fragment_6c (b t)) && acc6 (b t))
  [ "<!DOCTYPE r [<!ENTITY m '<b a=""&#65;""/>'>]><r>&m;</r>";
    "<!DOCTYPE r [<!ENTITY n 'v'><!ENTITY m '<b a=""&n;""/>'>]><r>&m;</r>";
    "<!DOCTYPE r [<!ENTITY n 'v'><!ENTITY m '<p:b xmlns:p=""&n;""/>'>]><r>&m;</r>";
    "<!DOCTYPE r [<!ENTITY a 'x&#66;'><!ENTITY n 'v&a;&a;'><!ENTITY m '<b a=""&n;&amp;&n;"">&n;</b>'>]><r>&m;</r>";
    "<!DOCTYPE r [<!ENTITY n 'v'><!ENTITY k '<c d=""&n;&apos;""/>'><!ENTITY m '<b xmlns=""&n;"" a=""1&n;"">&k;x&k;</b>'>]><r e='&n;'>&m;&k;</r>" ]%string = true.
Proof. vm_compute. reflexivity. Qed.

(* inputs of in_fragment_6 rejected by the crate at the reference to m (S6.wf_doc is false on their reading too): '<' into an
   attribute value of a markup value by &lt; (D15), by &#60;... is excluded by P8' already, through an entity; a markup-valued
   entity referenced in such an attribute value; an undeclared entity and a recursion there *)
Example ex6d_rej : forallb (fun t => in_fragment_6 (b t) && negb (acc6 (b t)))
  [ "<!DOCTYPE r [<!ENTITY m '<b a=""&lt;""/>'>]><r>&m;</r>";
    "<!DOCTYPE r [<!ENTITY n 'x&lt;'><!ENTITY m '<b a=""&n;""/>'>]><r>&m;</r>";
    "<!DOCTYPE r [<!ENTITY k '<c/>'><!ENTITY m '<b a=""&k;""/>'>]><r>&m;</r>";
    "<!DOCTYPE r [<!ENTITY m '<b a=""&u;""/>'>]><r>&m;</r>";
    "<!DOCTYPE r [<!ENTITY m '<b a=""&m;""/>'>]><r>&m;</r>" ]%string = true.
Proof. vm_compute. reflexivity. Qed.
