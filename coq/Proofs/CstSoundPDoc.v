(* Proofs/CstSoundPDoc.v -- C08 soundness WITH A PROLOG AND ENTITIES (stage S5 of Spec/CstFullS5.v), first
   milestone: byte order mark, XML declaration, comments / PIs, DOCTYPE with its internal subset,
   root, epilog, final checks; the theorem [parse_sound_fragment_p0] (no reference to a declared
   entity is used in the document). *)
From Coq Require Import String.
From Coq Require Import List Arith NArith Bool Lia ZifyBool ZifyN ZifyNat.
Import ListNotations.
From RX Require Import Generated.
From RX.Model Require Import Base CharClass Stream Tokenizer Doc Builder Parse.
From RX.Spec Require Cst Chars CstU CstNs Scope CstEnt.
From RX.Spec Require CstText.
From RX.Spec Require Import CstFull CstFullS5.
From RX.Proofs Require Import Tactics CstLex CstULex CstTextLex.
From RX.Proofs Require CstBuild RejectProofs CstFullTree CstSoundDoc CstSoundTDoc CstNsTree.
From RX.Proofs Require Import CstSound CstSoundT CstSoundTLex CstSoundULex CstSoundBuild CstSoundTBuild CstSoundTText CstSoundTMain.
From RX.Proofs Require Import CstSoundN CstSoundNLex CstSoundNBuild CstSoundNText CstSoundNMain CstSoundNDoc.
From RX.Proofs Require Import CstSoundP CstSoundPEnt CstSoundPLex CstSoundPDtd CstSoundPBuild CstSoundPText CstSoundPMain CstSoundPInj.
Open Scope N_scope.

Notation itemE := (CstFull.item epieces).
Definition pairs_s := list (bytes * itemE).
Definition r_pairs_s (l : pairs_s) : bytes := flat_map (fun x => fst x ++ r_item (snd x)) l.
Definition wf_pairs_s (l : pairs_s) : bool := forallb (fun x => wf_s (fst x) && wf_misc_s (snd x)) l.

Fixpoint shift_s (l : pairs_s) (w : bytes) : bytes * list (itemE * bytes) :=
  match l with
  | [] => (w, [])
  | (w1, i1) :: r => let '(w0, b0) := shift_s r w in (w1, (i1, w0) :: b0)
  end.

Lemma shift_render_s : forall l w,
  fst (shift_s l w) ++ flat_map (fun p => r_item (fst p) ++ snd p) (snd (shift_s l w)) = r_pairs_s l ++ w.
Proof.
  induction l as [|[w1 i1] r IH]; intros w.
  - cbn. rewrite app_nil_r. reflexivity.
  - cbn [shift_s]. specialize (IH w). destruct (shift_s r w) as [w0 b0]. cbn [fst snd] in *.
    unfold r_pairs_s in *. cbn [flat_map fst snd]. rewrite <- !app_assoc. rewrite <- IH. reflexivity.
Qed.

Lemma shift_wf_s : forall l w, wf_pairs_s l = true -> wf_s w = true ->
  wf_s (fst (shift_s l w)) = true /\
  forallb (fun p => wf_misc_s (fst p) && wf_s (snd p)) (snd (shift_s l w)) = true.
Proof.
  induction l as [|[w1 i1] r IH]; intros w Hl Hw; cbn [shift_s fst snd forallb]; [auto|].
  cbn [wf_pairs_s forallb fst snd] in Hl. apply andb_true_iff in Hl. destruct Hl as [H1 H2].
  apply andb_true_iff in H1. destruct H1 as [H0 H1].
  destruct (IH w H2 Hw) as [A B]. destruct (shift_s r w) as [w0 b0]. cbn [fst snd forallb] in *.
  split; [exact H0|]. rewrite H1, A, B. reflexivity.
Qed.

Lemma wf_s_app a c : wf_s a = true -> wf_s c = true -> wf_s (a ++ c) = true.
Proof. unfold wf_s. intros A B. rewrite forallb_app, A, B. reflexivity. Qed.

Section DocP.
Variable text : bytes.
Hypothesis HF : FragP text.
Hypothesis HN : no_ge_refs text = true.
Notation T_ := (Parse.token text).
Notation st := (CstLex.st text).
Notation W := (CstLex.W text).
Notation WV := (CstULex.WV text).
Notation SimP := (CstSoundPBuild.SimP text).
Notation Res := (CstSoundPBuild.Res text).

Definition nonelem (K : list row) : Prop := Forall (fun r => is_element_kind (snd r) = false) K.
(* P4 from a position on *)
Definition XA (p : N) : Prop := forall p' l', W p' l' -> p <= p' -> xml_at l' = true.

Lemma XA_mono p q : XA p -> p <= q -> XA q.
Proof. intros H Hpq p' l' HW Hq. apply (H p' l' HW). lia. Qed.
Lemma XA_after p : bom_len text < p -> XA p.
Proof. intros Hp p' l' HW Hq. apply (xml_at_pos text HF _ _ HW). lia. Qed.

(* ---- Misc* ---- *)
Lemma misc_sound_p ets (P : context -> Prop) (HP : forall a b, nseq a b -> P a -> P b) : forall fuel p l c s' c' stk,
  WV p l -> XA p -> SimP ets c stk -> P c ->
  parse_misc_loop text context T_ fuel (st p l) c = Ok (s', c') ->
  exists items wend l' p' K,
    l = r_pairs_s items ++ wend ++ l' /\ s' = st p' l' /\ WV p' l' /\ p <= p' /\
    wf_pairs_s items = true /\ Cst.wf_ws wend = true /\
    SimP ets c' stk /\ erows c' = erows c ++ K /\ nonelem K /\ P c'.
Proof.
  induction fuel as [|fu IH]; intros p l c s' c' stk HWV HX HS HR H; cbn [parse_misc_loop] in H; [noerr|].
  pose proof (WV_W _ _ _ HWV) as HW.
  rewrite (at_end_st text) in H by exact HW.
  destruct l as [|x l0].
  { inversion H; subst. exists [], [], [], p, []. rewrite app_nil_r.
    split; [reflexivity|]. split; [reflexivity|]. split; [exact HWV|]. split; [lia|]. split; [reflexivity|].
    split; [reflexivity|]. split; [exact HS|]. split; [first [rewrite app_nil_r; reflexivity|reflexivity]|]. split; [constructor|exact HR]. }
  cbv zeta in H.
  destruct (skip_spaces_inv_p text HF p (x :: l0) HWV) as (w & l1 & El & Hw & Hst & E1 & HW1).
  rewrite E1 in H. rewrite !(starts_with_st text) in H by apply HW1.
  destruct (prefix_b (b "<!--") l1) eqn:Ec.
  { change (b "<!--") with [60; 33; 45; 45] in Ec. destruct (prefix_b_split _ _ Ec) as (l2 & ->).
    ib H q Hq. destruct q as [s1 c1].
    destruct (inv_comment_p text HF context T_ _ _ _ _ _ HW1 Hq) as (bs & l3 & -> & Hwf & -> & HW2 & Hev).
    destruct (step_comment_p text ets _ _ _ _ _ HS Hev) as (HS1 & R1).
    pose proof (HP _ _ (leaf_nseq text _ _ _ _ Hev) HR) as HR1.
    assert (HX1 : XA (p + blen w + 4 + blen (utf8s bs) + 3)) by (apply (XA_mono p); [exact HX|lia]).
    destruct (IH _ _ _ _ _ _ HW2 HX1 HS1 HR1 H) as (items & wend & l' & p' & K & -> & -> & HW3 & Hp' & Hi & Hwe & HS2 & R2 & HK & HR2).
    eexists ((w, @IComment epieces bs) :: items), wend, l', p', (_ :: K).
    split. { rewrite El. cbn [r_pairs_s flat_map fst snd r_item Cst.r_item]. rewrite <- !app_assoc. reflexivity. }
    split; [reflexivity|]. split; [exact HW3|]. split; [lia|]. split.
    { cbn [wf_pairs_s forallb fst snd wf_misc_s]. rewrite (ws_s _ Hw), Hwf. exact Hi. }
    split; [exact Hwe|]. split; [exact HS2|].
    split; [rewrite R2, R1, <- app_assoc; reflexivity|]. split; [constructor; [reflexivity|exact HK]|exact HR2]. }
  destruct (prefix_b (b "<?") l1) eqn:Ep.
  { change (b "<?") with [60; 63] in Ep. destruct (prefix_b_split _ _ Ep) as (l2 & ->).
    ib H q Hq. destruct q as [s1 c1].
    assert (Hxa : xml_at ([60; 63] ++ l2) = true) by (apply (HX _ _ (WV_W _ _ _ HW1)); lia).
    destruct (inv_pi_p text HF context T_ _ _ _ _ _ HW1 Hxa Hq) as (tg & sep & v & l3 & -> & Hwf & -> & HW2 & Hev).
    unfold pi_tok in Hev. cbv zeta in Hev.
    destruct (step_pi_p text ets _ _ _ _ _ _ HS Hev) as (HS1 & R1).
    pose proof (HP _ _ (leaf_nseq text _ _ _ _ Hev) HR) as HR1.
    assert (HX1 : XA (p + blen w + 2 + blen (utf8s tg) + blen sep + blen (utf8s v) + 2)) by (apply (XA_mono p); [exact HX|lia]).
    destruct (IH _ _ _ _ _ _ HW2 HX1 HS1 HR1 H) as (items & wend & l' & p' & K & -> & -> & HW3 & Hp' & Hi & Hwe & HS2 & R2 & HK & HR2).
    eexists ((w, @IPI epieces tg sep v) :: items), wend, l', p', (_ :: K).
    split. { rewrite El. cbn [r_pairs_s flat_map fst snd r_item Cst.r_item]. rewrite <- !app_assoc. reflexivity. }
    split; [reflexivity|]. split; [exact HW3|]. split; [lia|]. split.
    { cbn [wf_pairs_s forallb fst snd wf_misc_s]. rewrite (ws_s _ Hw), (wf_pi_s_intro _ _ _ Hwf). exact Hi. }
    split; [exact Hwe|]. split; [exact HS2|].
    split; [rewrite R2, R1, <- app_assoc; reflexivity|]. split; [constructor; [reflexivity|exact HK]|exact HR2]. }
  inversion H; subst. exists [], w, l1, (p + blen w), []. cbn [r_pairs_s flat_map app]. rewrite app_nil_r.
  split; [exact El|]. split; [reflexivity|]. split; [exact HW1|]. split; [lia|]. split; [reflexivity|].
  split; [exact Hw|]. split; [exact HS|]. split; [first [rewrite app_nil_r; reflexivity|reflexivity]|]. split; [constructor|exact HR].
Qed.

(* ---- what the builder does with the declarations of the internal subset ---- *)
Lemma dsteps_sim (P : context -> Prop) (HP : forall a b, nseq a b -> P a -> P b) : forall ds ets c c',
  dsteps text context T_ ds c c' -> SimP ets c [] -> P c ->
  exists ets' K, SimP ets' c' [] /\ erows c' = erows c ++ K /\ nonelem K /\ P c'.
Proof.
  induction ds as [|sd ds IH]; intros ets c c' Hd HS HR.
  - inversion Hd; subst. exists ets, []. rewrite app_nil_r. split; [exact HS|]. split; [reflexivity|]. split; [constructor|exact HR].
  - inversion Hd as [|? ? ? c1 ? Hs Hrest]; subst.
    assert (ONE : exists ets1 K1, SimP ets1 c1 [] /\ erows c1 = erows c ++ K1 /\ nonelem K1 /\ P c1).
    { destruct sd as [e|? ? ? ? ? ? ?|? ? ? ? ? ? ?|? ? ?|ws0 i]; cbn [dstep] in Hs.
      - destruct Hs as (nm & vl & Hev & _). destruct (step_entity_p text ets _ _ _ _ _ HS Hev) as (A & B0 & C0).
        eexists _, []. rewrite app_nil_r. split; [exact A|]. split; [exact B0|]. split; [constructor|exact (HP _ _ C0 HR)].
      - subst c1. exists ets, []. rewrite app_nil_r. split; [exact HS|]. split; [reflexivity|]. split; [constructor|exact HR].
      - subst c1. exists ets, []. rewrite app_nil_r. split; [exact HS|]. split; [reflexivity|]. split; [constructor|exact HR].
      - subst c1. exists ets, []. rewrite app_nil_r. split; [exact HS|]. split; [reflexivity|]. split; [constructor|exact HR].
      - destruct i as [? ? ? ?|?|bs|t sp v]; try contradiction.
        + destruct Hs as (s0 & r0 & Hev). destruct (step_comment_p text ets _ _ _ _ _ HS Hev) as (A & B0).
          eexists ets, [_]. split; [exact A|]. split; [exact B0|]. split; [constructor; [reflexivity|constructor]|].
          exact (HP _ _ (leaf_nseq text _ _ _ _ Hev) HR).
        + destruct Hs as (t0 & v0 & r0 & Hev). destruct (step_pi_p text ets _ _ _ _ _ _ HS Hev) as (A & B0).
          eexists ets, [_]. split; [exact A|]. split; [exact B0|]. split; [constructor; [reflexivity|constructor]|].
          exact (HP _ _ (leaf_nseq text _ _ _ _ Hev) HR). }
    destruct ONE as (ets1 & K1 & A1 & B1 & C1 & D1).
    destruct (IH _ _ _ Hrest A1 D1) as (ets' & K2 & A2 & B2 & C2 & D2).
    exists ets', (K1 ++ K2). split; [exact A2|]. split; [rewrite B2, B1, app_assoc; reflexivity|].
    split; [apply Forall_app; split; assumption|exact D2].
Qed.

(* ---- root and epilog ---- *)
Definition tail_doc (s : stream) (c : context) : res context :=
  let s := skip_spaces s in
  let! (s, c) :=
    if match curr_byte_opt s with Some x => x =? 60 | None => false end then
      let! (open, s, c) := parse_element text context T_ s c in
      if open then parse_content text context T_ s c else Ok (s, c)
    else Ok (s, c) in
  let! (s, c) := parse_misc text context T_ s c in
  if negb (at_end s) then err_at text s UnknownToken
  else Ok c.

Lemma body_sound ets p l c cF : WV p l -> bom_len text <= p -> XA p -> SimP ets c [] -> Res c [] 0%nat [] ->
  nonelem (erows c) -> tail_doc (st p l) c = Ok cF ->
  (exists ndE, In ndE (d_nodes (c_doc cF)) /\ is_element_kind (nd_kind ndE) = true) ->
  (1 <? len_N (c_parent_prefixes cF)) = false ->
  exists w0 (root : item2) post wend,
    l = w0 ++ r_item root ++ r_pairs_s post ++ wend /\ Cst.wf_ws w0 = true /\
    wf_item M2 root = true /\ ns_oks [] (den M2 root) = true /\
    match root with IElem _ _ _ _ => True | _ => False end /\
    wf_pairs_s post = true /\ Cst.wf_ws wend = true /\
    Res cF (NT.items_decls (den M2 root)) (NT.ns_costs [] (den M2 root)) [].
Proof.
  intros HW0 Hbp HX S1 RS1 N1 HD (ndE & HinE & HkE) Epp. unfold tail_doc in HD.
  destruct (skip_spaces_inv_p text HF _ _ HW0) as (w3 & l3 & -> & Hw3 & Hst3 & Es3 & HW3). rewrite Es3 in HD.
  ib HD q2 Hroot. destruct q2 as [s2 c2]. ib HD q3 Hm2. destruct q3 as [s3 c3].
  assert (HX3 : XA (p + blen w3)) by (apply (XA_mono p); [exact HX|lia]).
  assert (ROOT : exists (root : item2) l4 p4,
            l3 = r_item root ++ l4 /\ s2 = st p4 l4 /\ WV p4 l4 /\ p + blen w3 <= p4 /\ SimP ets c2 [] /\
            wf_item M2 root = true /\ ns_oks [] (den M2 root) = true /\
            match root with IElem _ _ _ _ => True | _ => False end /\
            Res c2 (NT.items_decls (den M2 root)) (NT.ns_costs [] (den M2 root)) []).
  { destruct (match curr_byte_opt (st (p + blen w3) l3) with Some x => x =? 60 | None => false end) eqn:Ecb.
    2:{ exfalso. inversion Hroot; subst s2 c2. unfold parse_misc in Hm2.
      destruct (misc_sound_p ets (fun _ => True) (fun _ _ _ _ => I) _ _ _ _ _ _ _ HW3 HX3 S1 I Hm2) as (post & w4 & l4 & p4 & K2 & _ & _ & _ & _ & _ & _ & _ & R2 & NK2 & _).
      assert (NE : nonelem (erows cF)).
      { assert (cF = c3) by (destruct (negb (at_end s3)); [noerr|inversion HD; reflexivity]). subst cF.
        rewrite R2. unfold nonelem. apply Forall_app; split; assumption. }
      unfold nonelem, erows in NE. rewrite Forall_forall in NE.
      specialize (NE (erowof ndE) (in_map erowof _ _ HinE)). cbn [erowof snd] in NE.
      destruct (nd_kind ndE); cbn in NE, HkE; congruence. }
    rewrite (CstSoundTDoc.curr_byte_opt_st_any_t text) in Ecb by apply HW3.
    destruct l3 as [|x l3']; [discriminate|]. assert (x = 60) by lia. subst x.
    ib Hroot q Hq. destruct q as [[open sE] cE].
    change (60 :: l3') with ([60] ++ l3') in *.
    destruct (inv_element_p text HF context T_ _ _ _ _ _ _ HW3 Hq)
      as (pr & loc & attrs & ws_end & l4 & ca & cb & El & Hname & Hrw & Hwe & Hev1 & Hev2 & Hev3 & -> & HW4).
    rewrite El in HW3.
    destruct (tag_sound_p text HF HN ets _ _ _ _ _ _ _ _ _ _ _ _ HW3 Hname Hrw Hwe S1 [] 0%nat RS1 Hev1 Hev2 Hev3) as (es & nss & HS1 & Ees & Hok & RSE).
    cbn [top_sc app] in Hok, RSE.
    destruct open.
    - unfold parse_content in Hroot.
      assert (Hl1 : N.of_nat (length [frame_of [] pr loc es nss]) = 0 + 1) by reflexivity.
      assert (Hbp4 : bom_len text < p + blen w3 + 1 + blen (rq pr loc) + blen (flat_map r_rattr attrs) + blen ws_end + blen (tag_tail (negb true))) by lia.
      destruct (content_sound_p text HF HN ets _ 0 _ _ _ _ _ _ _ _ HW4 Hbp4 HS1 RSE Hl1 Hroot) as [HC|HU].
      + destruct HC as (lv & l5 & p5 & opn & rest & E1' & E3' & E4' & E5' & E6' & E7' & E9' & E10' & E11').
        destruct lv as [|[cs w] [|? ?]]; cbn [length] in E3'; try (exfalso; clear - E3'; lia).
        destruct (lv_wf_one _ _ _ E10') as (f0 & Eo & (A1 & A2 & A3 & A4)). rewrite Eo in *. clear Eo.
        cbn [app] in E1'. injection E1' as En Er. rewrite <- En, <- Er in *. cbn [fst snd] in *.
        destruct (wf_elem_intro_p [] pr loc es ws_end (Some (cs, w)) Hok) as (W1 & W2).
        { split; [exact A3|]. split; [exact A2|]. split; [exact A1|exact A4]. }
        exists (IElem (mkq pr loc) es ws_end (Some (cs, w))), l5, p5.
        split. { rewrite El, E4', CstFullTree.r_item_elem, rq_eq, Ees. cbn [negb tag_tail r_levels_n].
                 unfold fq, frame_of. cbn [f_pre f_loc].
                 change (CstNs.r_qname {| CstNs.q_prefix := utf8s pr; CstNs.q_local := utf8s loc |}) with (r_qname (mkq pr loc)).
                 rewrite rq_eq. rewrite <- !app_assoc. cbn [app]. rewrite <- ?app_assoc. rewrite ?app_nil_r. reflexivity. }
        split; [exact E5'|]. split; [exact E6'|]. split.
        { pose proof (W_le text _ _ (WV_W _ _ _ E6')) as Hle5. subst s2. rewrite E4' in HW4.
          pose proof (WV_W _ _ _ HW4) as [_ Ha]. pose proof (WV_W _ _ _ E6') as [_ Hb]. rewrite blen_app in Ha. lia. }
        split; [exact E7'|].
        split; [exact W1|]. split; [exact W2|]. split; [exact I|].
        rewrite decls_elem, (costs_elem []). cbn [lv_decls lv_cost frame_of f_sc top_sc] in E11'.
        rewrite app_nil_r, Nat.add_0_r in E11'. exact E11'.
      + exfalso. destruct HU as (stk2 & pz & lz & -> & HWz & HS2 & Hne & Hbz). unfold parse_misc in Hm2.
        assert (HXz : XA pz) by (apply XA_after; exact Hbz).
        destruct (misc_sound_p ets (fun _ => True) (fun _ _ _ _ => I) _ _ _ _ _ _ _ HWz HXz HS2 I Hm2) as (post & w4 & l5 & p5 & K2 & _ & _ & _ & _ & _ & _ & S3 & _ & _).
        assert (cF = c3) by (destruct (negb (at_end s3)); [noerr|inversion HD; reflexivity]). subst cF.
        pose proof (sn_pp _ _ _ _ S3) as Hpp. apply (f_equal (@length bytes)) in Hpp.
        rewrite map_length in Hpp. cbn [length] in Hpp. rewrite rev_length, map_length in Hpp.
        unfold len_N in Epp. destruct stk2; [congruence|]. cbn [length] in Hpp.
        clear - Hpp Epp. lia.
    - inversion Hroot; subst s2 c2.
      destruct (wf_elem_intro_p [] pr loc es ws_end None Hok I) as (W1 & W2).
      eexists (IElem (mkq pr loc) es ws_end None), l4, _.
      split. { rewrite El, CstFullTree.r_item_elem, rq_eq, Ees. cbn [negb tag_tail]. rewrite <- !app_assoc. reflexivity. }
      split; [reflexivity|]. split; [exact HW4|]. split; [lia|]. split; [exact HS1|].
      split; [exact W1|]. split; [exact W2|]. split; [exact I|].
      rewrite decls_elem, (costs_elem []). rewrite app_nil_r, Nat.add_0_r. exact RSE. }
  destruct ROOT as (root & l4 & p4 & -> & -> & HW4 & Hp4 & S2' & Hrwf & Hrns & Hrk & RS2).
  unfold parse_misc in Hm2.
  assert (HX4 : XA p4) by (apply (XA_mono p); [exact HX|lia]).
  destruct (misc_sound_p ets _ (fun a b0 => Res_eq text a b0 _ _ []) _ _ _ _ _ _ _ HW4 HX4 S2' RS2 Hm2)
    as (post & w4 & l5 & p5 & K2 & -> & -> & HW5 & _ & Hpost & Hw4 & S3 & _ & _ & RS3).
  rewrite (at_end_st text) in HD by apply HW5. destruct l5 as [|? ?]; cbn [negb] in HD; [|noerr].
  inversion HD; subst cF. clear HD.
  exists w3, root, post, w4. rewrite app_nil_r. split; [rewrite <- ?app_assoc; reflexivity|].
  split; [exact Hw3|]. split; [exact Hrwf|]. split; [exact Hrns|]. split; [exact Hrk|]. split; [exact Hpost|]. split; [exact Hw4|exact RS3].
Qed.

(* ---- assembling the main part: the items of S2 as items of S5 ---- *)
Lemma main_ok (tb : E.table) pre wpre (root : item2) post wend c :
  wf_pairs_s pre = true -> Cst.wf_ws wpre = true -> wf_item M2 root = true -> ns_oks [] (den M2 root) = true ->
  match root with IElem _ _ _ _ => True | _ => False end -> wf_pairs_s post = true -> Cst.wf_ws wend = true ->
  Res c (NT.items_decls (den M2 root)) (NT.ns_costs [] (den M2 root)) [] ->
  let main := {| d_before := snd (shift_s pre wpre); d_ws0 := fst (shift_s pre wpre); d_root := inj_item root;
                 d_after := post; d_ws_end := wend |} in
  @wf_main_s epieces (ents_meaning tb) main = true /\
  CstFull.render main = r_pairs_s pre ++ wpre ++ r_item root ++ r_pairs_s post ++ wend /\
  CstFull.distinct_decls_le (ents_meaning tb) main (N.to_nat 65535) /\
  1 + N.of_nat (CstFull.ns_cost (ents_meaning tb) main) <= u32_max.
Proof.
  intros Hpre Hwpre Hrwf Hrns Hrk Hpost Hwend RS3 main.
  destruct (shift_wf_s pre wpre Hpre (ws_s _ Hwpre)) as (B1 & B2).
  destruct (wf_den_inj_item tb root Hrwf) as (_ & Eden).
  split; [|split; [|split]].
  - unfold wf_main_s, main. cbn [d_ws0 d_ws_end d_before d_root d_after].
    rewrite B1, (ws_s _ Hwend), B2, Eden. cbn [andb]. unfold wf_pairs_s in Hpost. rewrite Hpost.
    rewrite CstFullTree.ns_oks_forallb, Hrns, !andb_true_r.
    pose proof (wf_s_inj_item tb root Hrwf) as Hs. destruct root; try contradiction. rewrite inj_item_elem in *. exact Hs.
  - unfold CstFull.render, main. cbn [d_ws0 d_ws_end d_before d_root d_after].
    rewrite app_assoc, shift_render_s, r_inj_item. unfold r_pairs_s. rewrite <- !app_assoc. reflexivity.
  - destruct RS3 as [(vs & Ev & Hi) Hlim _ Hu32]. rewrite app_nil_r in Hi.
    unfold CstFull.distinct_decls_le, doc_decls, main. cbn [d_root]. rewrite Eden, items_decls_flat.
    intros l0 Hnd0 Hl0. pose proof (NoDup_incl_length Hnd0 (incl_tran Hl0 Hi)) as Hlen.
    pose proof (valsd_len text (c_doc c)) as Hvl. unfold vals in Ev. rewrite Ev in Hvl. cbn [length] in Hvl.
    unfold len_N in Hlim. lia.
  - destruct RS3 as [_ _ _ Hu32]. unfold CstFull.ns_cost, main. cbn [d_root]. rewrite Eden, ns_costs_sum. exact Hu32.
Qed.

(* ---- XML declaration, comments / PIs, DOCTYPE, then the main part ---- *)
Definition rest_doc (allow : bool) (s : stream) (c : context) : res context :=
  let! s := if starts_with_declaration s then parse_declaration text s else Ok s in
  let! (s, c) := parse_misc text context T_ s c in
  let s := skip_spaces s in
  let! (s, c) :=
    if starts_with s (b "<!DOCTYPE") then
      if negb allow then Err DtdDetected
      else
        let! (s, c) := parse_doctype text context T_ s c in
        parse_misc text context T_ s c
    else Ok (s, c) in
  tail_doc s c.

Lemma rest_sound t0 c0 cF : WV (bom_len text) t0 -> strip_bom text = t0 -> SimP [] c0 [] -> Res c0 [] 0%nat [] ->
  nonelem (erows c0) -> rest_doc true (st (bom_len text) t0) c0 = Ok cF ->
  (exists ndE, In ndE (d_nodes (c_doc cF)) /\ is_element_kind (nd_kind ndE) = true) ->
  (1 <? len_N (c_parent_prefixes cF)) = false ->
  exists xd g, wf_opt wf_xmldecl xd = true /\ wf_opt S5.wf_dtd_part g = true /\
    forall tb, exists main, t0 = r_opt r_xmldecl xd ++ r_opt S5.r_dtd_part g ++ CstFull.render main /\
      @wf_main_s epieces (ents_meaning tb) main = true /\
      CstFull.distinct_decls_le (ents_meaning tb) main (N.to_nat 65535) /\
      1 + N.of_nat (CstFull.ns_cost (ents_meaning tb) main) <= u32_max.
Proof.
  intros HWV0 Estrip S0 RS0 N0 HD Helem Epp. pose proof (WV_W _ _ _ HWV0) as HW0. unfold rest_doc in HD.
  (* the XML declaration *)
  ib HD sd Hsd.
  assert (Esd : starts_with_declaration (st (bom_len text) t0) = starts_decl t0).
  { unfold starts_with_declaration, starts_decl. rewrite (starts_with_st text), (avail_st text) by exact HW0.
    f_equal. destruct (nth_error t0 5); [symmetry; apply is_sp_space|reflexivity]. }
  rewrite Esd in Hsd.
  assert (XA0 : starts_decl t0 = false -> XA (bom_len text)).
  { intros Hnd p' l' HW' Hp'. destruct (N.eq_dec p' (bom_len text)) as [->|Hne].
    - destruct HW' as [E' _]. destruct HW0 as [E0 _]. rewrite E0 in E'. subst l'. rewrite <- Estrip. apply (xml_at_start text HF).
      rewrite Estrip. exact Hnd.
    - apply (xml_at_pos text HF _ _ HW'). lia. }
  assert (DECL : exists xd l1 p1, t0 = r_opt r_xmldecl xd ++ l1 /\ wf_opt wf_xmldecl xd = true /\ sd = st p1 l1 /\ WV p1 l1 /\
            bom_len text <= p1 /\ XA p1).
  { destruct (starts_decl t0) eqn:Ed.
    - unfold starts_decl in Ed. apply andb_true_iff in Ed. destruct Ed as [Ex Esp].
      change [60; 63; 120; 109; 108] with kw_xml in Ex. destruct (prefix_b_split _ _ Ex) as (l & ->).
      change (nth_error (kw_xml ++ l) 5) with (nth_error l 0) in Esp.
      destruct l as [|x l']; [discriminate|]. cbn [nth_error] in Esp. rewrite is_sp_space in Esp.
      assert (HQ : Qdecl (x :: l')).
      { pose proof (fp_dnames _ HF) as Hd. unfold decl_names_ok in Hd. cbv zeta in Hd. rewrite Estrip in Hd.
        assert (Esd' : starts_decl (kw_xml ++ x :: l') = true) by (unfold starts_decl; cbn; rewrite is_sp_space; exact Esp).
        rewrite Esd' in Hd. change (tl (kw_xml ++ x :: l')) with ([63; 120; 109; 108] ++ x :: l') in Hd.
        apply (Qdecl_app [63; 120; 109; 108]); [repeat constructor; lia|exact Hd]. }
      destruct (inv_declaration text HF _ _ _ HWV0 HQ Esp Hsd) as (xd & l1 & E1 & Hxd & -> & HW1).
      exists (Some xd), l1, (bom_len text + blen (r_xmldecl xd)). cbn [r_opt wf_opt].
      split; [exact E1|]. split; [exact Hxd|]. split; [reflexivity|]. split; [exact HW1|]. split; [lia|].
      apply XA_after. assert (1 <= blen (r_xmldecl xd)) by (unfold r_xmldecl; rewrite !blen_app; change (blen kw_xml) with 5; lia). lia.
    - inversion Hsd; subst sd. exists None, t0, (bom_len text). cbn [r_opt app].
      split; [reflexivity|]. split; [reflexivity|]. split; [reflexivity|]. split; [exact HWV0|]. split; [lia|]. apply XA0. reflexivity. }
  clear Hsd Esd XA0. destruct DECL as (xd & l1 & p1 & -> & Hxd & -> & HW1 & Hp1 & HX1).
  exists xd.
  (* Misc* *)
  ib HD q1 Hm1. destruct q1 as [s1 c1]. unfold parse_misc in Hm1.
  destruct (misc_sound_p [] _ (fun a b0 => Res_eq text a b0 [] 0%nat []) _ _ _ _ _ _ _ HW1 HX1 S0 RS0 Hm1)
    as (pre & w1 & l2 & p2 & K1 & -> & -> & HW2 & Hp2 & Hpre & Hw1 & S1 & R1 & NK1 & RS1).
  destruct (skip_spaces_inv_p text HF _ _ HW2) as (w2 & l3 & -> & Hw2 & Hst2 & Es2 & HW3).
  cbv zeta in HD. rewrite Es2 in HD. rewrite (starts_with_st text) in HD by apply HW3.
  change (b "<!DOCTYPE") with E.kw_doctype in HD.
  assert (N1 : nonelem (erows c1)) by (rewrite R1; apply Forall_app; split; assumption).
  assert (HX3 : XA (p2 + blen w2)) by (apply (XA_mono p1); [exact HX1|lia]).
  ib HD q2 Hdt. destruct q2 as [s2 c2].
  destruct (prefix_b E.kw_doctype l3) eqn:Edt.
  - (* a DOCTYPE *)
    destruct (prefix_b_split _ _ Edt) as (l4 & ->). cbn [negb] in Hdt. ib Hdt q3 Hd3. destruct q3 as [s3 c3].
    destruct (inv_doctype text HF context T_ _ _ _ _ _ HW3 ltac:(lia) Hd3) as [REG|EOF].
    + destruct REG as (t & l5 & E5 & Hwt & Hds & -> & HW5).
      destruct (dsteps_sim _ (fun a b0 => Res_eq text a b0 [] 0%nat []) _ _ _ _ Hds S1 RS1) as (ets & K2 & S2 & R2 & NK2 & RS2).
      unfold parse_misc in Hdt.
      assert (HX5 : XA (p2 + blen w2 + blen (r_doctype t))) by (apply (XA_mono p1); [exact HX1|lia]).
      destruct (misc_sound_p ets _ (fun a b0 => Res_eq text a b0 [] 0%nat []) _ _ _ _ _ _ _ HW5 HX5 S2 RS2 Hdt)
        as (mid & w3 & l6 & p6 & K3 & -> & -> & HW6 & Hp6 & Hmid & Hw3 & S3 & R3 & NK3 & RS3).
      assert (N3 : nonelem (erows c2)).
      { rewrite R3, R2. apply Forall_app; split; [apply Forall_app; split; assumption|assumption]. }
      assert (HX6 : XA p6) by (apply (XA_mono p1); [exact HX1|lia]).
      destruct (body_sound ets _ _ _ _ HW6 ltac:(lia) HX6 S3 RS3 N3 HD Helem Epp)
        as (w0 & root & post & wend & -> & Hw0 & Hrwf & Hrns & Hrk & Hpost & Hwend & RSF).
      destruct (shift_wf_s pre (w1 ++ w2) Hpre (ws_s _ (wf_ws_app _ _ Hw1 Hw2))) as (G1 & G2).
      exists (Some {| S5.g_ws0 := fst (shift_s pre (w1 ++ w2)); S5.g_before := snd (shift_s pre (w1 ++ w2)); S5.g_dtd := t |}).
      split; [exact Hxd|]. split.
      { cbn [wf_opt]. unfold S5.wf_dtd_part. cbn [S5.g_ws0 S5.g_before S5.g_dtd]. rewrite G1, G2, Hwt. reflexivity. }
      intros tb. destruct (main_ok tb mid (w3 ++ w0) root post wend _ Hmid (wf_ws_app _ _ Hw3 Hw0) Hrwf Hrns Hrk Hpost Hwend RSF) as (M1 & M2 & M3 & M4).
      eexists. split; [|split; [exact M1|split; [exact M3|exact M4]]].
      rewrite M2. cbn [r_opt]. unfold S5.r_dtd_part. cbn [S5.g_ws0 S5.g_before S5.g_dtd].
      pose proof (shift_render_s pre (w1 ++ w2)) as SR. unfold bytes in *. rewrite E5.
      rewrite <- !app_assoc. f_equal. rewrite (app_assoc (fst (shift_s pre (w1 ++ w2)))). rewrite (app_assoc w1), (app_assoc (r_pairs_s pre)). f_equal. symmetry. exact SR.
    + (* the input ends inside the DOCTYPE: no root element *)
      exfalso. destruct EOF as (ds & qe & Hds & -> & HWe).
      destruct (dsteps_sim (fun _ => True) (fun _ _ _ _ => I) _ _ _ _ Hds S1 I) as (ets & K2 & S2 & R2 & NK2 & _).
      unfold parse_misc in Hdt.
      assert (HXe : XA qe).
      { intros p' l' HW' Hp'. pose proof (W_le text _ _ HW') as L1. pose proof (WV_W _ _ _ HWe) as [_ L2]. rewrite blen_nil in L2.
        assert (p' = qe) by lia. subst p'. destruct HW' as [E1 _]. destruct (WV_W _ _ _ HWe) as [E2 _]. rewrite E2 in E1. subst l'. reflexivity. }
      destruct (misc_sound_p ets (fun _ => True) (fun _ _ _ _ => I) _ _ _ _ _ _ _ HWe HXe S2 I Hdt)
        as (mid & w3 & l6 & p6 & K3 & E6 & -> & HW6 & Hp6 & _ & _ & S3 & R3 & NK3 & _).
      assert (l6 = []).
      { symmetry in E6. apply app_eq_nil in E6. destruct E6 as [_ E6]. apply app_eq_nil in E6. apply E6. } subst l6.
      unfold tail_doc in HD. rewrite (skip_spaces_st text _ [] []) in HD by (try reflexivity; try exact I; apply HW6).
      rewrite blen_nil, N.add_0_r in HD. unfold curr_byte_opt in HD. rewrite (at_end_st text) in HD by apply HW6. cbn [negb bind] in HD.
      ib HD q5 Hm5. destruct q5 as [s5 c5]. unfold parse_misc in Hm5.
      destruct (misc_sound_p ets (fun _ => True) (fun _ _ _ _ => I) _ _ _ _ _ _ _ HW6 ltac:(apply (XA_mono qe); [exact HXe|assumption]) S3 I Hm5)
        as (mid5 & w5 & l7 & p7 & K5 & _ & _ & _ & _ & _ & _ & _ & R5 & NK5 & _).
      assert (cF = c5) by (destruct (negb (at_end s5)); [noerr|inversion HD; reflexivity]). subst cF.
      destruct Helem as (ndE & HinE & HkE).
      assert (NE : nonelem (erows c5)).
      { rewrite R5, R3, R2. repeat (apply Forall_app; split); assumption. }
      unfold nonelem, erows in NE. rewrite Forall_forall in NE.
      specialize (NE (erowof ndE) (in_map erowof _ _ HinE)). cbn [erowof snd] in NE.
      destruct (nd_kind ndE); cbn in NE, HkE; congruence.
  - (* no DOCTYPE *)
    inversion Hdt; subst s2 c2. clear Hdt.
    destruct (body_sound [] _ _ _ _ HW3 ltac:(lia) HX3 S1 RS1 N1 HD Helem Epp)
      as (w0 & root & post & wend & -> & Hw0 & Hrwf & Hrns & Hrk & Hpost & Hwend & RSF).
    exists None. split; [exact Hxd|]. split; [reflexivity|].
    intros tb. destruct (main_ok tb pre (w1 ++ w2 ++ w0) root post wend _ Hpre (wf_ws_app _ _ Hw1 (wf_ws_app _ _ Hw2 Hw0)) Hrwf Hrns Hrk Hpost Hwend RSF) as (M1 & M2 & M3 & M4).
    eexists. split; [|split; [exact M1|split; [exact M3|exact M4]]].
    rewrite M2. cbn [r_opt app]. rewrite <- !app_assoc. reflexivity.
Qed.

Lemma bom_valid : U8.Valid [239; 187; 191].
Proof. change [239; 187; 191] with (utf8s [65279]). apply Valid_utf8s. repeat constructor; vm_compute; reflexivity. Qed.

Theorem parse_sound_fragment_p0_ctx : forall opt d, allow_dtd opt = true ->
  parse text opt = Ok d ->
  exists c : S5.doc, S5.wf_doc c = true /\ S5.render c = text /\
    S5.distinct_decls_le c (N.to_nat 65535) /\ 1 + N.of_nat (S5.ns_cost c) <= u32_max.
Proof.
  intros opt d Hallow H. unfold parse in H. ib H c0 H0. ib H cF HD.
  destruct (init_sim_p text opt c0 H0) as (S0 & R0 & _). pose proof (init_res_p text opt c0 H0) as RS0.
  assert (N0 : nonelem (erows c0)) by (rewrite R0; constructor; [reflexivity|constructor]).
  cbv zeta in H. ib H it Hit. ib H he Hhe. destruct he; cbn [negb] in H; [|discriminate].
  destruct (1 <? len_N (c_parent_prefixes cF)) eqn:Epp; [discriminate|]. inversion H; subst d. clear H.
  destruct (CstSoundDoc.any_element_row _ _ _ Hhe) as (ndE & HinE & HkE).
  rewrite Hallow in HD.
  pose proof (WV_new text (fp_valid _ HF)) as HWV. pose proof (WV_W _ _ _ HWV) as HW.
  assert (HR : exists t0, WV (bom_len text) t0 /\ strip_bom text = t0 /\ text = (if prefix_b [239; 187; 191] text then S5.bom else []) ++ t0 /\
             rest_doc true (st (bom_len text) t0) c0 = Ok cF).
  { unfold parse_document in HD. rewrite st_new in HD. rewrite (starts_with_st text) in HD by exact HW.
    unfold bom_len, strip_bom. destruct (prefix_b [239; 187; 191] text) eqn:Eb.
    - destruct (prefix_b_split _ _ Eb) as (t0 & Et). exists t0.
      assert (HW3 : WV (0 + 3) t0). { apply (WV_app text 0 [239; 187; 191] t0); [rewrite <- Et; exact HWV|exact bom_valid]. }
      split; [exact HW3|]. split; [rewrite Et at 1; reflexivity|]. split; [exact Et|].
      assert (Ea : advance 3 (st 0 text) = Ok (st (0 + 3) t0)).
      { rewrite Et at 2. apply (advance_st text 3 0 [239; 187; 191] t0); [reflexivity|rewrite <- Et; exact HW]. }
      rewrite Ea in HD.
      cbn [bind] in HD. exact HD.
    - exists text. split; [exact HWV|]. split; [reflexivity|]. split; [reflexivity|]. cbn [bind] in HD. exact HD. }
  destruct HR as (t0 & HWV0 & Estrip & Etext & HD0).
  destruct (rest_sound t0 c0 cF HWV0 Estrip S0 RS0 N0 HD0 (ex_intro _ ndE (conj HinE HkE)) Epp) as (xd & g & Hxd & Hg & HM).
  set (tb := match g with Some g0 => decls_table (ge_decls (S5.g_dtd g0)) | None => [] end).
  destruct (HM tb) as (main & Et0 & M1 & M3 & M4).
  exists {| S5.x_bom := prefix_b [239; 187; 191] text; S5.x_decl := xd; S5.x_dtd := g; S5.x_main := main |}.
  split; [|split; [|split]].
  - unfold S5.wf_doc, S5.meaning_of, S5.table. cbn [S5.x_decl S5.x_dtd S5.x_main]. fold tb. rewrite Hxd, Hg. exact M1.
  - unfold S5.render. cbn [S5.x_bom S5.x_decl S5.x_dtd S5.x_main]. rewrite <- Et0. symmetry. exact Etext.
  - unfold S5.distinct_decls_le, S5.meaning_of, S5.table. cbn [S5.x_dtd S5.x_main]. exact M3.
  - unfold S5.ns_cost, S5.meaning_of, S5.table. cbn [S5.x_dtd S5.x_main]. exact M4.
Qed.

End DocP.

Theorem parse_sound_fragment_p0 : forall text opt d,
  in_fragment_p0 text = true -> allow_dtd opt = true ->
  parse text opt = Ok d ->
  exists c : S5.doc, S5.wf_doc c = true /\ S5.render c = text.
Proof.
  intros text opt d HF Hallow H. unfold in_fragment_p0 in HF. apply andb_true_iff in HF. destruct HF as [HF HN].
  destruct (parse_sound_fragment_p0_ctx text (in_fragment_p_FragP _ HF) HN opt d Hallow H) as (c & H1 & H2 & _).
  exists c. split; assumption.
Qed.
Print Assumptions parse_sound_fragment_p0.

Theorem parse_sound_fragment_p0_res : forall text opt d,
  in_fragment_p0 text = true -> allow_dtd opt = true ->
  parse text opt = Ok d ->
  exists c : S5.doc, S5.wf_doc c = true /\ S5.render c = text /\
    S5.distinct_decls_le c (N.to_nat 65535) /\ 1 + N.of_nat (S5.ns_cost c) <= u32_max.
Proof.
  intros text opt d HF Hallow H. unfold in_fragment_p0 in HF. apply andb_true_iff in HF. destruct HF as [HF HN].
  exact (parse_sound_fragment_p0_ctx text (in_fragment_p_FragP _ HF) HN opt d Hallow H).
Qed.
Print Assumptions parse_sound_fragment_p0_res.

Theorem parse_sound_fragment_p0_holds : parse_sound_fragment_p0_stmt.
Proof. exact parse_sound_fragment_p0. Qed.
Print Assumptions parse_sound_fragment_p0_holds.
