(* Proofs/CstFullS2Sem.v -- the capstone fragment, stage S2 (pieces over Unicode literals), facts that do not
   involve the parser: the ENCODED pieces (literals in UTF-8) and what is required of them at the
   byte level, validity of what the chunk machines of Spec/Text.v produce on them, their segments
   (Proofs/CstTextSem.v), and how the well-formedness of Spec/CstFull.v gives all this. *)
From Coq Require Import List NArith PeanoNat Bool Lia ZifyBool ZifyN ZifyNat.
Import ListNotations.
From RX Require Import Generated.
From RX.Model Require Import Base.
From RX.Spec Require Cst CstText Chars CstU.
From RX.Spec Require Import Text CstFull.
From RX.Proofs Require Import TextMachine NoPanicUtf8 CstTextSem.
From RX.Proofs Require CstLex CstULex CstFullLex CstTextLex CstEntRun.
Open Scope N_scope.

Notation uchars := CstFullLex.uchars.
Notation n3 := CstTextLex.n3.

(* ------------------------------------------------------------------------------------------ *)
(* line-end normalisation and white-space normalisation keep UTF-8 valid                       *)
(* ------------------------------------------------------------------------------------------ *)
Lemma norm_eol_no13 : forall hs r, forallb (fun x => negb (x =? 13)) hs = true -> norm_eol (hs ++ r) = hs ++ norm_eol r.
Proof.
  induction hs as [|h hs IH]; intros r H; [reflexivity|]. cbn [forallb] in H. apply andb_true_iff in H.
  destruct H as [H1 H2]. cbn [app]. rewrite norm_eol_ne by lia. rewrite IH by exact H2. reflexivity.
Qed.

Lemma encode_no13 c : (c <? 128) = false -> forallb (fun x => negb (x =? 13)) (encode_utf8 c) = true.
Proof. intros H. pose proof (encode_high c H) as E. revert E. apply CstLex.forallb_imp. intros x Hx. lia. Qed.

Lemma Valid_tail10 r : Valid (10 :: r) -> Valid r.
Proof. intros H. apply (CstULex.Valid_app_inv [10] r); [apply Valid_ascii; reflexivity|exact H]. Qed.

Lemma Valid_norm_eol : forall s, Valid s -> Valid (norm_eol s).
Proof.
  intros s H. induction H as [|c r Hc Hr IH]; [constructor|].
  destruct (c <? 128) eqn:E.
  - rewrite (encode_ascii c E). cbn [app]. destruct (c =? 13) eqn:E13.
    + destruct r as [|y r'].
      * rewrite norm_eol_cr_end by exact E13. apply Valid_ascii. reflexivity.
      * destruct (y =? 10) eqn:E10.
        -- rewrite norm_eol_crlf by assumption. rewrite norm_eol_ne in IH by lia.
           assert (y = 10) by lia. subst y. exact IH.
        -- rewrite norm_eol_cr_other by assumption. apply (Valid_app [10]); [apply Valid_ascii; reflexivity|exact IH].
    + rewrite norm_eol_ne by exact E13. apply (Valid_app [c]); [apply Valid_ascii; exact E|exact IH].
  - rewrite norm_eol_no13 by (apply encode_no13; exact E). constructor; assumption.
Qed.

Definition keeps_high (k : N -> N) : Prop := (forall x, 128 <= x -> k x = x) /\ (forall x, x < 128 -> k x < 128).

Lemma keeps_id : keeps_high (fun x => x).
Proof. split; auto. Qed.
Lemma keeps_ws : keeps_high ws_to_space.
Proof. unfold ws_to_space. split; intros x H; destruct ((x =? 9) || (x =? 10) || (x =? 13)) eqn:E; lia. Qed.

Lemma Valid_map k : keeps_high k -> forall s, Valid s -> Valid (map k s).
Proof.
  intros [K1 K2] s H. induction H as [|c r Hc Hr IH]; [constructor|]. rewrite map_app.
  destruct (c <? 128) eqn:E.
  - rewrite (encode_ascii c E). cbn [map]. apply (Valid_app [k c]); [|exact IH]. apply Valid_ascii. unfold ascii.
    specialize (K2 c ltac:(lia)). lia.
  - replace (map k (encode_utf8 c)) with (encode_utf8 c); [constructor; assumption|].
    pose proof (encode_high c E) as Hh. symmetry. induction (encode_utf8 c) as [|x l IHl]; [reflexivity|].
    cbn [forallb] in Hh. apply andb_true_iff in Hh. destruct Hh as [H1 H2]. cbn [map]. rewrite K1 by lia. rewrite IHl by exact H2. reflexivity.
Qed.

(* chunk lists whose maximal literal stretches and whose references are valid UTF-8 *)
Inductive CV : list chunk -> Prop :=
| CV_lits : forall s, Valid s -> CV (map CLit s)
| CV_ref : forall s b0 r, Valid s -> Valid b0 -> CV r -> CV (map CLit s ++ CRef b0 :: r).

Lemma CV_nil : CV [].
Proof. apply (CV_lits []). constructor. Qed.

Lemma CV_app a b0 : CV a -> CV b0 -> CV (a ++ b0).
Proof.
  intros Ha Hb. induction Ha as [s Hs|s b1 r Hs Hb1 Hr IH].
  - destruct Hb as [s2 Hs2|s2 b2 r2 Hs2 Hb2 Hr2].
    + rewrite <- map_app. apply CV_lits. apply Valid_app; assumption.
    + rewrite app_assoc, <- map_app. apply CV_ref; [apply Valid_app; assumption|assumption|assumption].
  - rewrite <- app_assoc. cbn [app]. apply CV_ref; assumption.
Qed.

Lemma CV_valid k : keeps_high k -> forall cs, CV cs -> Valid (gen (fun b0 => b0) k cs).
Proof.
  intros Hk cs H. induction H as [s Hs|s b1 r Hs Hb1 Hr IH].
  - rewrite gen_lits. apply (Valid_map k Hk). apply Valid_norm_eol. exact Hs.
  - rewrite gen_app_ref, gen_lits. apply Valid_app; [apply (Valid_map k Hk); apply Valid_norm_eol; exact Hs|].
    apply Valid_app; assumption.
Qed.

Lemma CV_decode cs : CV cs -> Valid (decode_chunks cs).
Proof. intros H. rewrite decode_chunks_gen. apply (CV_valid _ keeps_id). exact H. Qed.

Lemma CV_norm_attr cs : CV cs -> Valid (norm_attr_chunks cs).
Proof. intros H. rewrite norm_attr_chunks_gen. apply (CV_valid _ keeps_ws). exact H. Qed.

(* ------------------------------------------------------------------------------------------ *)
(* encoded pieces: what the parser needs of them, at the byte level                            *)
(* ------------------------------------------------------------------------------------------ *)
Definition ustr (bs : bytes) : Prop := exists cs, bs = utf8s cs /\ uchars cs.
(* a literal as written: not empty, UTF-8 of Chars, no '<', no '&', not the byte q *)
Definition blit (q : N) (bs : bytes) : Prop :=
  bs <> [] /\ ustr bs /\ forallb (fun x => negb (x =? 60) && negb (x =? 38) && negb (x =? q)) bs = true.
Definition bvpiece (q : N) (p : T.piece) : Prop :=
  match p with
  | T.PLit bs => blit q bs
  | T.PCharRef hex ds => T.wf_charref hex ds = true
  | T.PPredef _ => True
  | T.PCData _ => False
  end.
Definition btpiece (p : T.piece) : Prop :=
  match p with
  | T.PLit bs => blit 60 bs /\ contains_b n3 bs = false
  | T.PCharRef hex ds => T.wf_charref hex ds = true
  | T.PPredef _ => True
  | T.PCData bs => ustr bs /\ contains_b n3 bs = false
  end.

Lemma ustr_valid bs : ustr bs -> Valid bs.
Proof. intros (cs & -> & H). apply CstULex.Valid_utf8s. apply CstULex.chars_scalars. exact H. Qed.

Lemma ustr_app a r : ustr a -> ustr r -> ustr (a ++ r).
Proof. intros (x & -> & Hx) (y & -> & Hy). exists (x ++ y). split; [symmetry; apply CstULex.utf8s_app|apply Forall_app; auto]. Qed.

Lemma utf8s_ascii : forall l, forallb (fun x => x <? 128) l = true -> utf8s l = l.
Proof.
  induction l as [|x l IH]; intros H; [reflexivity|]. cbn [forallb] in H. apply andb_true_iff in H. destruct H as [H1 H2].
  rewrite CstULex.utf8s_cons, (CstULex.utf8_ascii x) by lia. rewrite IH by exact H2. reflexivity.
Qed.

(* printable ASCII (the bytes of a reference) *)
Lemma ustr_ascii l : forallb (fun x => (32 <=? x) && (x <? 127)) l = true -> ustr l.
Proof.
  intros H. exists l. split.
  - symmetry. apply utf8s_ascii. revert H. apply CstLex.forallb_imp. intros x Hx. lia.
  - apply Forall_forall. intros x Hx. rewrite forallb_forall in H. specialize (H x Hx).
    assert (Hs : is_scalar x = true) by (unfold is_scalar; lia). split; [exact Hs|].
    destruct (CharTablesProofs.char_tables_conform x Hs) as (E & _). rewrite E.
    unfold Chars.xml_Char, Chars.in_ranges, Chars.xml_Char_ranges. cbn [existsb fst snd]. lia.
Qed.

Lemma ref_bytes q p : q = 39 \/ q = 34 \/ q = 60 -> CstTextLex.is_refp p = true -> bvpiece q p ->
  forallb (fun x => (32 <=? x) && (x <? 127) && negb (x =? q) && negb (x =? 60) && negb (x =? 93)) (T.r_piece p) = true.
Proof.
  intros Hq Hr Hp. destruct p as [bs|hex ds|e|bs]; try discriminate.
  - cbn [bvpiece T.r_piece] in *. unfold T.wf_charref in Hp. rewrite !andb_true_iff in Hp. destruct Hp as [[_ Hd] _].
    rewrite !forallb_app. rewrite !andb_true_iff. repeat split.
    + cbn. destruct Hq as [-> |[-> | ->]]; reflexivity.
    + destruct hex; cbn; [destruct Hq as [-> |[-> | ->]]; reflexivity|reflexivity].
    + revert Hd. apply CstLex.forallb_imp. intros x Hx. unfold T.is_digit in Hx. destruct Hq as [-> |[-> | ->]]; lia.
    + cbn. destruct Hq as [-> |[-> | ->]]; reflexivity.
  - destruct e; destruct Hq as [-> |[-> | ->]]; reflexivity.
Qed.

(* the rendering of value pieces is UTF-8 of Chars without the quote and '<' *)
Lemma vpieces_bytes_u q : q = 39 \/ q = 34 \/ q = 60 -> forall ps, Forall (bvpiece q) ps ->
  ustr (T.r_pieces ps) /\ forallb (fun y => negb ((y =? q) || (y =? 60))) (T.r_pieces ps) = true.
Proof.
  intros Hq. induction ps as [|p ps IH]; intros H.
  - split; [exists []; split; [reflexivity|constructor]|reflexivity].
  - apply Forall_cons_iff in H. destruct H as [H1 H2]. destruct (IH H2) as [I1 I2].
    rewrite r_pieces_cons, forallb_app, I2, andb_true_r.
    destruct p as [bs|hex ds|e|bs]; cbn [bvpiece] in H1; try contradiction.
    + destruct H1 as (_ & Hu & Hb). cbn [T.r_piece]. split; [apply ustr_app; assumption|].
      revert Hb. apply CstLex.forallb_imp. intros x Hx. lia.
    + pose proof (ref_bytes q (T.PCharRef hex ds) Hq eq_refl H1) as Hb. split.
      * apply ustr_app; [|exact I1]. apply ustr_ascii. revert Hb. apply CstLex.forallb_imp. intros x Hx. lia.
      * revert Hb. apply CstLex.forallb_imp. intros x Hx. lia.
    + pose proof (ref_bytes q (T.PPredef e) Hq eq_refl H1) as Hb. split.
      * apply ustr_app; [|exact I1]. apply ustr_ascii. revert Hb. apply CstLex.forallb_imp. intros x Hx. lia.
      * revert Hb. apply CstLex.forallb_imp. intros x Hx. lia.
Qed.

(* ---- the chunks of encoded pieces ---- *)
Lemma CV_vpiece q p : bvpiece q p -> CV (T.piece_chunks p) /\ Forall (fun c => c <> CRef []) (T.piece_chunks p).
Proof.
  destruct p as [bs|hex ds|e|bs]; cbn [bvpiece T.piece_chunks]; intros H; try contradiction.
  - destruct H as (_ & Hu & _). split; [apply CV_lits; apply ustr_valid; exact Hu|].
    apply Forall_forall. intros c Hin. apply in_map_iff in Hin. destruct Hin as (x & <- & _). discriminate.
  - unfold T.wf_charref in H. rewrite !andb_true_iff in H. destruct H as [_ Hc]. split.
    + apply (CV_ref [] _ []); [constructor| |apply CV_nil]. apply Valid_encode. apply xml_Char_scalar. exact Hc.
    + constructor; [|constructor]. intros E. injection E as E. pose proof (encode_nonempty (T.ref_val hex ds)) as L.
      change (T.utf8 (T.ref_val hex ds)) with (encode_utf8 (T.ref_val hex ds)) in E. rewrite E in L. cbn in L. lia.
  - split; [|constructor; [discriminate|constructor]].
    apply (CV_ref [] _ []); [constructor| |apply CV_nil]. apply Valid_ascii. destruct e; reflexivity.
Qed.

Lemma CV_vpieces q ps : Forall (bvpiece q) ps ->
  CV (flat_map T.piece_chunks ps) /\ Forall (fun c => c <> CRef []) (flat_map T.piece_chunks ps).
Proof.
  induction ps as [|p ps IH]; intros H; [split; [apply CV_nil|constructor]|].
  apply Forall_cons_iff in H. destruct H as [H1 H2]. destruct (IH H2) as [I1 I2]. destruct (CV_vpiece q p H1) as [J1 J2].
  cbn [flat_map]. split; [apply CV_app; assumption|apply Forall_app; split; assumption].
Qed.

Lemma chunks_le_bytes_u q : forall ps, Forall (bvpiece q) ps ->
  (length (flat_map T.piece_chunks ps) <= length (T.r_pieces ps))%nat.
Proof.
  induction ps as [|pc ps IH]; intros H; [cbn; lia|]. apply Forall_cons_iff in H.
  destruct H as [H1 H2]. cbn [flat_map T.r_pieces]. rewrite !app_length. specialize (IH H2).
  unfold T.r_pieces in IH.
  destruct pc as [bs|hex ds|pe|bs]; cbn [T.piece_chunks T.r_piece bvpiece] in *; try contradiction;
    rewrite ?map_length, ?app_length; cbn [length]; lia.
Qed.

(* a value without '&' consists of literals only *)
Lemma chunks_no_amp_u q : forall ps, Forall (bvpiece q) ps ->
  existsb (fun x => x =? 38) (T.r_pieces ps) = false ->
  flat_map T.piece_chunks ps = map CLit (T.r_pieces ps).
Proof.
  induction ps as [|p ps IH]; intros H Hn; [reflexivity|]. apply Forall_cons_iff in H.
  destruct H as [H1 H2]. cbn [T.r_pieces flat_map] in *. fold (T.r_pieces ps) in *.
  rewrite existsb_app in Hn. apply orb_false_iff in Hn. destruct Hn as [Hn1 Hn2].
  rewrite map_app, IH by assumption. f_equal.
  destruct p as [bs|hex ds|e|bs]; cbn [T.piece_chunks T.r_piece bvpiece] in *; try reflexivity; try discriminate; contradiction.
Qed.

Lemma vpiece_ne q p : bvpiece q p -> exists x r, T.r_piece p = x :: r.
Proof.
  destruct p as [bs|hex ds|e|bs]; cbn [bvpiece T.r_piece]; intros H; try contradiction; try (eexists; eexists; reflexivity).
  destruct H as (Hne & _). destruct bs; [congruence|]. eauto.
Qed.

(* ---- segments ---- *)
Definition seg_wf_u (s : seg) : Prop :=
  match s with
  | SS l => l <> [] /\ Forall btpiece l /\ forallb no_cdata l = true /\ T.no_adjacent_lit l = true
  | SC bs => ustr bs /\ contains_b n3 bs = false
  end.

Lemma tpiece_vpiece_u p : btpiece p -> no_cdata p = true -> bvpiece 60 p.
Proof. destruct p as [bs|hex ds|e|bs]; cbn [btpiece bvpiece no_cdata]; intros H Hn; try exact H; [apply H|discriminate]. Qed.

Lemma ss_vpieces_u l : Forall btpiece l -> forallb no_cdata l = true -> Forall (bvpiece 60) l.
Proof.
  induction l as [|p l IH]; intros H1 H2; [constructor|]. apply Forall_cons_iff in H1. cbn [forallb] in H2.
  apply andb_true_iff in H2. destruct H1, H2. constructor; [apply tpiece_vpiece_u; assumption|apply IH; assumption].
Qed.

Definition segs_ok_u (ps : list T.piece) : Prop :=
  Forall seg_wf_u (segs ps) /\
  match ps, segs ps with
  | p :: _, SS (p' :: _) :: _ => p' = p
  | _, _ => True
  end.

Lemma segs_ok_plain_u p ps : no_cdata p = true -> btpiece p ->
  T.no_adjacent_lit (p :: ps) = true -> segs_ok_u ps -> segs_ok_u (p :: ps).
Proof.
  intros Hn Hw Hadj (F & Hd). unfold segs_ok_u. rewrite segs_cons_plain by exact Hn.
  destruct (segs ps) as [|[l|b0] t] eqn:Es.
  - split; [|reflexivity]. constructor; [|constructor].
    cbn [seg_wf_u forallb T.no_adjacent_lit]. rewrite Hn. repeat split; [discriminate|constructor; [exact Hw|constructor]].
  - inversion F as [|? ? Hs Ft]; subst. cbn [seg_wf_u] in Hs. destruct Hs as (Hne & Hf1 & Hf2 & Hf3).
    split; [|reflexivity].
    constructor; [|exact Ft]. cbn [seg_wf_u forallb]. rewrite Hn, Hf2.
    split; [discriminate|]. split; [constructor; assumption|]. split; [reflexivity|].
    destruct l as [|p' l']; [congruence|]. destruct ps as [|p0 ps0]; [discriminate Es|]. rewrite Es in Hd. subst p'.
    rewrite no_adj_cons2 in Hadj |- *. apply andb_true_iff in Hadj. destruct Hadj as [Ha _].
    rewrite Ha, Hf3. reflexivity.
  - split; [|reflexivity].
    constructor; [|exact F]. cbn [seg_wf_u forallb T.no_adjacent_lit]. rewrite Hn. repeat split; [discriminate|constructor; [exact Hw|constructor]].
Qed.

Lemma segs_wf_u : forall ps, Forall btpiece ps -> T.no_adjacent_lit ps = true -> segs_ok_u ps.
Proof.
  induction ps as [|p ps IH]; intros Hwf Hadj; [split; [constructor|exact I]|].
  apply Forall_cons_iff in Hwf. destruct Hwf as [Hw1 Hw2].
  specialize (IH Hw2 (no_adj_tail _ _ Hadj)).
  destruct p as [bs|hex ds|e|bs]; try (apply segs_ok_plain_u; [reflexivity|assumption|assumption|assumption]).
  destruct IH as (F & _). unfold segs_ok_u. cbn [segs]. split; [|exact I].
  constructor; [|exact F]. exact Hw1.
Qed.

(* "]]>" does not arise in a stretch of literal and reference pieces *)
Lemma stretch_no_cdata_end_u : forall ps, Forall btpiece ps -> forallb no_cdata ps = true ->
  T.no_adjacent_lit ps = true -> contains_b n3 (T.r_pieces ps) = false.
Proof.
  induction ps as [|pc ps IH]; intros Hwf Hnc Hadj; [reflexivity|].
  apply Forall_cons_iff in Hwf. cbn [forallb] in Hnc. destruct Hwf as [Hw1 Hw2].
  apply andb_true_iff in Hnc. destruct Hnc as [Hn1 Hn2].
  pose proof (no_adj_tail _ _ Hadj) as Hadj2.
  cbn [T.r_pieces flat_map]. fold (T.r_pieces ps). specialize (IH Hw2 Hn2 Hadj2).
  assert (Href : forall d, CstTextLex.is_refp d = true -> btpiece d ->
                 forallb (fun c => negb (c =? 93)) (T.r_piece d) = true /\ exists r, T.r_piece d = 38 :: r).
  { intros d Hd Hb. split.
    - pose proof (ref_bytes 60 d ltac:(auto) Hd (tpiece_vpiece_u d Hb ltac:(destruct d; try discriminate; reflexivity))) as H.
      revert H. apply CstLex.forallb_imp. intros x Hx. lia.
    - destruct d as [?|hex ds|e|?]; try discriminate; cbn [T.r_piece app]; eauto. }
  destruct pc as [bs|hex ds|e|bs]; try discriminate.
  - cbn [T.r_piece btpiece] in *. destruct Hw1 as [_ Hc].
    rewrite CstTextLex.contains_lit; [exact IH|exact Hc|].
    destruct ps as [|d r]; [exact I|].
    cbn [T.no_adjacent_lit T.is_lit andb] in Hadj. apply andb_true_iff in Hadj. destruct Hadj as [Hd _].
    apply Forall_cons_iff in Hw2. cbn [forallb] in Hn2. apply andb_true_iff in Hn2.
    destruct (Href d) as [_ [r0 Er]].
    { destruct d; try discriminate; try reflexivity. destruct Hn2; discriminate. }
    { apply Hw2. }
    cbn [T.r_pieces flat_map]. rewrite Er. cbn [app]. split; lia.
  - destruct (Href (T.PCharRef hex ds) eq_refl Hw1) as [H93 _].
    rewrite CstTextLex.contains_no93 by exact H93. exact IH.
  - destruct (Href (T.PPredef e) eq_refl Hw1) as [H93 _].
    rewrite CstTextLex.contains_no93 by exact H93. exact IH.
Qed.

(* the bytes of a stretch *)
Lemma ss_bytes_u l : seg_wf_u (SS l) ->
  ustr (T.r_pieces l) /\ forallb (fun y => negb (y =? 60)) (T.r_pieces l) = true /\
  contains_b n3 (T.r_pieces l) = false /\ exists x r, T.r_pieces l = x :: r /\ x <> 60.
Proof.
  intros (Hne & H1 & H2 & H3). pose proof (ss_vpieces_u l H1 H2) as Hv.
  destruct (vpieces_bytes_u 60 ltac:(auto) l Hv) as [Hu Hb].
  assert (Hb' : forallb (fun y => negb (y =? 60)) (T.r_pieces l) = true).
  { revert Hb. apply CstLex.forallb_imp. intros x Hx. lia. }
  split; [exact Hu|]. split; [exact Hb'|]. split; [apply stretch_no_cdata_end_u; assumption|].
  destruct l as [|pc l']; [congruence|]. apply Forall_cons_iff in Hv. destruct Hv as [Hv _].
  destruct (vpiece_ne 60 pc Hv) as (x & r & Er). rewrite r_pieces_cons, Er. cbn [app].
  exists x, (r ++ T.r_pieces l'). split; [reflexivity|].
  rewrite r_pieces_cons, Er in Hb'. cbn [app forallb] in Hb'. lia.
Qed.

(* ------------------------------------------------------------------------------------------ *)
(* from the well-formedness of Spec/CstFull.v                                                 *)
(* ------------------------------------------------------------------------------------------ *)
Lemma uchars_of cs : forallb Chars.xml_Char cs = true -> uchars cs.
Proof.
  intros H. apply Forall_forall. intros x Hx. rewrite forallb_forall in H. specialize (H x Hx).
  destruct (CstTextLex.xml_Char_model x H) as (A & B0 & _). auto.
Qed.

Lemma utf8s_ne cs : cs <> [] -> utf8s cs <> [].
Proof.
  destruct cs as [|c cs]; [congruence|]. intros _. rewrite CstULex.utf8s_cons. pose proof (CstULex.utf8_len c).
  destruct (CstULex.utf8 c); [unfold blen in *; cbn in *; lia|discriminate].
Qed.

Lemma ulit_blit q cs : q < 128 -> wf_ulit q cs = true -> blit q (utf8s cs).
Proof.
  intros Hq H. unfold wf_ulit in H. apply andb_true_iff in H. destruct H as [Hne H].
  split; [apply utf8s_ne; destruct cs; [discriminate|discriminate]|]. split.
  - exists cs. split; [reflexivity|]. apply uchars_of. revert H. apply CstLex.forallb_imp. intros x Hx.
    rewrite !andb_true_iff in Hx. apply Hx.
  - apply CstULex.forallb_utf8; [intros b0 Hb; lia|]. revert H. apply CstLex.forallb_imp. intros x Hx.
    rewrite !andb_true_iff in Hx. destruct Hx as [[[_ A] B0] C0]. rewrite A, B0, C0. reflexivity.
Qed.

Lemma uvpiece_b q p : q < 128 -> wf_uvpiece q p = true -> bvpiece q (enc_piece p).
Proof.
  intros Hq. destruct p as [cs|hex ds|e|cs]; cbn [wf_uvpiece enc_piece bvpiece]; intros H; try exact H; try exact I; try discriminate.
  apply ulit_blit; assumption.
Qed.

Lemma n3_utf8 cs : contains_b n3 (utf8s cs) = Cst.contains T.cdata_close cs.
Proof. unfold n3, CstTextLex.n3. rewrite (CstULex.contains_utf8 [93; 93; 62]) by (try discriminate; reflexivity). symmetry. apply CstLex.contains_eq. Qed.

Lemma utpiece_b p : wf_utpiece p = true -> btpiece (enc_piece p).
Proof.
  destruct p as [cs|hex ds|e|cs]; cbn [wf_utpiece enc_piece btpiece]; intros H; try exact H; try exact I.
  - apply andb_true_iff in H. destruct H as [H1 H2]. split; [apply ulit_blit; [lia|exact H1]|].
    rewrite n3_utf8. apply negb_true_iff. exact H2.
  - apply andb_true_iff in H. destruct H as [H1 H2]. split; [exists cs; split; [reflexivity|apply uchars_of; exact H1]|].
    rewrite n3_utf8. apply negb_true_iff. exact H2.
Qed.

Lemma enc_no_adjacent ps : T.no_adjacent_lit (enc_pieces ps) = T.no_adjacent_lit ps.
Proof.
  induction ps as [|a r IH]; [reflexivity|]. destruct r as [|c r']; [reflexivity|].
  cbn [enc_pieces map] in *. rewrite !no_adj_cons2, IH. f_equal. destruct a, c; reflexivity.
Qed.

Lemma uvalue_b q ps : q < 128 -> wf_uvalue q ps = true ->
  Forall (bvpiece q) (enc_pieces ps) /\ T.no_adjacent_lit (enc_pieces ps) = true.
Proof.
  intros Hq H. unfold wf_uvalue in H. apply andb_true_iff in H. destruct H as [H1 H2]. split; [|rewrite enc_no_adjacent; exact H2].
  apply Forall_forall. intros p Hp. apply in_map_iff in Hp. destruct Hp as (p0 & <- & Hp0).
  rewrite forallb_forall in H1. apply uvpiece_b; [exact Hq|apply H1; exact Hp0].
Qed.

Lemma utext_b ps : wf_utext ps = true ->
  enc_pieces ps <> [] /\ Forall btpiece (enc_pieces ps) /\ T.no_adjacent_lit (enc_pieces ps) = true.
Proof.
  intros H. unfold wf_utext in H. rewrite !andb_true_iff in H. destruct H as [[H0 H1] H2].
  split; [destruct ps; [discriminate|discriminate]|]. split; [|rewrite enc_no_adjacent; exact H2].
  apply Forall_forall. intros p Hp. apply in_map_iff in Hp. destruct Hp as (p0 & <- & Hp0).
  rewrite forallb_forall in H1. apply utpiece_b. apply H1. exact Hp0.
Qed.
