(* Proofs/CstEntRejAttr.v -- C09 on whole documents: an attribute value whose expansion does not pass the loop
   detector (Proofs/CstEntRejSem.v: inlined with the tables glevel) makes [norm_attr_lvl], hence
   the Attribute token and the start tag, fail with EntityReferenceLoop -- at any depth, after
   whatever part of the value, and of the attributes before it, has been read. *)
From Coq Require Import Ascii String.
From Coq Require Import List NArith PeanoNat Bool Lia ZifyBool ZifyN ZifyNat Wf_nat.
Import ListNotations.
From RX Require Import Generated.
From RX.Model Require Import Base CharClass Stream Tokenizer Doc Builder Parse.
From RX.Spec Require Cst CstText CstEnt Detector.
From RX.Spec Require Import Text.
From RX.Proofs Require Import Tactics CstLex CstBuild TextMachine TextMerge HoistProofs NoPanicUtf8 DetectorProofs.
From RX.Proofs Require Import CstTextSem CstTextLex CstTextBuild CstEntSem CstEntText CstEntAttr CstEntMeaning CstEntRun CstEntLex CstEntDtd CstEntBuild.
From RX.Proofs Require Import CstEntCFloor CstEntCAttr CstEntCBuild CstEntRejSem.
Open Scope N_scope.

(* the detector refuses: the model reports the loop *)
Lemma enter_fail text s ld : Forall (fun x => x < 128) text -> s_pos s <= tlen text -> ld_enter ld = None ->
  exists pos, (let! l := inc_references text s ld in inc_depth text s l) = Err (EntityReferenceLoop pos).
Proof.
  intros Ha Hs He.
  assert (Herr : forall X, exists pos, @err_at text X s EntityReferenceLoop = Err (EntityReferenceLoop pos)).
  { intros X. unfold err_at, gen_text_pos, gen_text_pos_at. replace (tlen text <? s_pos s) with false by lia.
    rewrite (CstLex.boundary_ok text Ha) by exact Hs. cbn. eauto. }
  destruct ld as [d r]. unfold ld_enter in He. cbn [ld_depth ld_references] in He.
  unfold inc_references, inc_depth. cbn [ld_depth ld_references].
  destruct (d =? 0) eqn:E0.
  - cbn [bind ld_depth]. destruct (d <? ld_max_depth); [discriminate|]. apply Herr.
  - destruct (r =? ld_max_refs) eqn:Er; [destruct (Herr loop_detector) as [pos ->]; cbn [bind]; eauto|].
    cbn [bind ld_depth]. destruct (d <? ld_max_depth); [discriminate|]. apply Herr.
Qed.

Section RejAttr.
Variable text : bytes.
Hypothesis Hascii : Forall (fun x => x < 128) text.
Variable decls : list E.edecl.
Variable es : list entity.
Hypothesis Henv : Forall2 (ent_ok text) decls es.
Hypothesis Hdecls : Forall decl_ok decls.
Hypothesis Hadjs : Forall decl_adj decls.

Notation W := (CstLex.W text).

(* one piece of the value *)
Lemma astep m pc0 rest lvl' ld e p more t t1 fuel :
  ep_ok m (E.EP pc0) -> Forall (ep_ok m) rest -> E.no_adjacent_elit (E.EP pc0 :: rest) = true ->
  W p (T.r_piece pc0 ++ E.r_epieces rest ++ more) -> p + (blen (T.r_piece pc0) + blen (E.r_epieces rest)) = e -> e <= tlen text ->
  m = (0 <? ld_depth ld) -> push_attr_chunks m (T.piece_chunks pc0) t = Some t1 ->
  (length (T.r_piece pc0) + length (E.r_epieces rest) < fuel)%nat ->
  attr_loop text lvl' es fuel (sst e p (T.r_piece pc0 ++ E.r_epieces rest ++ more)) t ld =
  attr_loop text lvl' es (fuel - length (T.piece_chunks pc0))
    (sst e (p + blen (T.r_piece pc0)) (E.r_epieces rest ++ more)) t1 ld.
Proof.
  intros [Hvp Hcv] Hrest Hadj HW He Hle Hm Hpush Hfu.
  pose proof (chunks_le_piece pc0 Hvp) as Hcl.
  destruct pc0 as [bs|hex ds|pe|bs]; cbn [T.wf_vpiece] in Hvp; try discriminate.
      - cbn [T.r_piece T.piece_chunks] in *. rewrite map_length in *.
        destruct (aloop_lit text es lvl' ld e bs p (E.r_epieces rest ++ more) t (fuel - length bs) (lit_not_amp _ _ Hvp) ltac:(lia))
          as (t1' & E1 & E2).
        { destruct (is_elit_next bs rest Hadj (or_intror I) m Hrest) as [->|[R' ER]].
          - left. cbn [E.r_epieces flat_map] in He. rewrite blen_nil in He. lia.
          - right. rewrite ER. eexists. reflexivity. }
        rewrite <- Hm in E1. rewrite Hpush in E1. injection E1 as <-.
        replace fuel with (length bs + (fuel - length bs))%nat at 1 by lia. exact E2.
      - cbn [T.piece_chunks push_attr_chunks] in Hpush.
        destruct (push_char_bytes_attr (T.utf8 (T.ref_val hex ds)) m t) as [t1'|] eqn:Ep; [|discriminate].
        cbn [push_attr_chunks] in Hpush. injection Hpush as <-.
        pose proof (cref_charref text Hascii e p hex ds (E.r_epieces rest ++ more) HW Hvp ltac:(lia) Hle) as Ec.
        assert (Hlt : p < e) by (cbn [T.r_piece app] in He; rewrite !blen_cons in He; lia).
        cbn [T.r_piece] in Ec, HW |- *. rewrite <- !app_assoc in *. cbn [app] in Ec |- *.
        cbn [T.piece_chunks length].
        replace fuel with (S (fuel - 1)) at 1 by (cbn [length] in Hcl; lia).
        rewrite (aloop_ref text es lvl' ld e p _ _ _ t t1' (fuel - 1) Hlt Ec); [reflexivity|].
        rewrite <- Hm. exact Ep.
      - cbn [T.piece_chunks push_attr_chunks] in Hpush.
        destruct (push_char_bytes_attr [T.predef_char pe] m t) as [t1'|] eqn:Ep; [|discriminate].
        cbn [push_attr_chunks] in Hpush. injection Hpush as <-.
        pose proof (cref_predef text Hascii e p pe (E.r_epieces rest ++ more) HW ltac:(lia) Hle) as Ec.
        assert (Hlt : p < e) by (cbn [T.r_piece app] in He; rewrite !blen_cons in He; lia).
        cbn [T.r_piece] in Ec, HW |- *. rewrite <- !app_assoc in *. cbn [app] in Ec |- *.
        cbn [T.piece_chunks length].
        replace fuel with (S (fuel - 1)) at 1 by (cbn [length] in Hcl; lia).
        rewrite (aloop_ref text es lvl' ld e p _ _ _ t t1' (fuel - 1) Hlt Ec); [reflexivity|].
        rewrite <- Hm. replace (encode_utf8 (T.predef_char pe)) with [T.predef_char pe] by (destruct pe; reflexivity).
        exact Ep.
Qed.

Lemma apush m p t : ep_ok m (E.EP p) -> (m = true -> E.is_lt_ref p = false) -> tb_pending_cr t = false ->
  exists t1, push_attr_chunks m (T.piece_chunks p) t = Some t1 /\ tb_pending_cr t1 = false.
Proof.
  intros Hp Hlt Hpd. destruct (push_top_total (T.piece_chunks p) t Hpd) as [t1 E1].
  assert (E1' : push_attr_chunks m (T.piece_chunks p) t = Some t1).
  { destruct m; [|exact E1]. rewrite piece_push_eq; auto. }
  exists t1. split; [exact E1'|]. apply (push_attr_pending m _ _ _ Hpd E1').
Qed.

Lemma lt_app a b0 : existsb E.is_lt_ref (a ++ b0) = false -> existsb E.is_lt_ref a = false /\ existsb E.is_lt_ref b0 = false.
Proof. rewrite existsb_app. apply orb_false_iff. Qed.

(* the value of an attribute (or of an entity, inside one) on which the detector stops *)
Lemma ALf : forall k ps fa m q tr, E.inline_ps (glevel decls k) fa m ps = Some (q, tr) ->
  (m = true -> existsb E.is_lt_ref q = false) -> (fa = true \/ m = true) ->
  Forall (ep_ok m) ps -> E.no_adjacent_elit ps = true ->
  forall e p more ld lvl' fuel t,
  W p (E.r_epieces ps ++ more) -> p + blen (E.r_epieces ps) = e -> e <= tlen text ->
  m = (0 <? ld_depth ld) -> ld_run ld tr = None ->
  11 <= N.of_nat lvl' + ld_depth ld -> 12 <= N.of_nat k + ld_depth ld ->
  tb_pending_cr t = false -> (length (E.r_epieces ps) < fuel)%nat ->
  exists pos, attr_loop text lvl' es fuel (sst e p (E.r_epieces ps ++ more)) t ld = Err (EntityReferenceLoop pos).
Proof.
  induction k as [k IHk] using lt_wf_ind. induction ps as [|pc rest IH];
    intros fa m q tr Hin Hlt Hfm Hok Hadj e p more ld lvl' fuel t HW He Hle Hm Hld Hlvl Hk Hpd Hfu.
  - cbn [E.inline_ps] in Hin. injection Hin as <- <-. discriminate.
  - apply Forall_cons_iff in Hok. destruct Hok as [Hp Hrest].
    pose proof (no_adj_etail _ _ Hadj) as Hadj'.
    cbn [E.inline_ps] in Hin. destruct pc as [pc0|n].
    + (* a piece *)
      destruct (fa && m && E.is_lt_ref pc0) eqn:Elt0; [discriminate|].
      destruct (E.inline_ps (glevel decls k) fa m rest) as [[q' tr']|] eqn:Er; [|discriminate]. cbn [E.obind fst snd] in Hin.
      injection Hin as <- <-.
      assert (Hl0 : m = true -> E.is_lt_ref pc0 = false /\ existsb E.is_lt_ref q' = false).
      { intros Hmt. specialize (Hlt Hmt). cbn [existsb] in Hlt. apply orb_false_iff in Hlt. exact Hlt. }
      destruct (apush m pc0 t Hp (fun Z => proj1 (Hl0 Z)) Hpd) as (t1 & E1 & Hpd1).
      cbn [E.r_epieces flat_map E.r_epiece] in *. fold (E.r_epieces rest) in *.
      rewrite <- app_assoc in HW |- *. rewrite blen_app in He. rewrite app_length in Hfu.
      pose proof Hp as [Hvp _]. pose proof (chunks_le_piece pc0 Hvp) as Hcl.
      rewrite (astep m pc0 rest lvl' ld e p more t t1 fuel Hp Hrest Hadj HW He Hle Hm E1 Hfu).
      apply (IH fa m q' tr' Er (fun Z => proj2 (Hl0 Z)) Hfm Hrest Hadj' e _ more ld lvl'); try assumption; try lia.
      apply (CstLex.W_app _ _ _ _ HW).
    + (* a reference *)
      destruct Hp as [Hn Hpre].
      destruct (E.lookup (glevel decls k) n) as [v|] eqn:El; [|discriminate]. cbn [E.obind] in Hin.
      destruct (E.x_pieces v) as [qv|] eqn:Ex; [|discriminate]. cbn [E.obind] in Hin.
      destruct (fa && existsb E.is_lt_ref qv) eqn:Elt1; [discriminate|].
      destruct (E.inline_ps (glevel decls k) fa m rest) as [[q' tr']|] eqn:Er; [|discriminate]. cbn [E.obind fst snd] in Hin.
      injection Hin as <- <-.
      cbn [E.r_epieces flat_map E.r_epiece] in *. fold (E.r_epieces rest) in *.
      rewrite <- !app_assoc in HW |- *. rewrite !blen_app in He. change (blen [38]) with 1 in He. change (blen [59]) with 1 in He.
      rewrite lookup_glevel in El. destruct (first_decl decls n) as [d|] eqn:Hfd; [|discriminate].
      destruct (find_first text decls es Henv Hdecls n d Hfd) as (en & Efind & (Hen & vs & tail & Eval & HWv) & Hdok).
      destruct fuel as [|fu]; [lia|].
      pose proof (cref_entity text Hascii e p n (E.r_epieces rest ++ more) HW Hn Hpre ltac:(lia) Hle) as Ec.
      cbn [app] in Ec, HW |- *.
      assert (Hunf : attr_loop text lvl' es (S fu) (sst e p (38 :: n ++ 59 :: E.r_epieces rest ++ more)) t ld =
                let! ld2 := (let! l := inc_references text (sst e (p + 2 + blen n) (E.r_epieces rest ++ more)) ld in
                             inc_depth text (sst e (p + 2 + blen n) (E.r_epieces rest ++ more)) l) in
                let! (t', ld') := norm_attr_lvl text lvl' es (en_value en) t ld2 in
                attr_loop text lvl' es fu (sst e (p + 2 + blen n) (E.r_epieces rest ++ more)) t' (dec_depth ld')).
      { cbn [attr_loop]. rewrite at_end_sst. replace (e <=? p) with false by lia.
        cbn [curr_byte_unchecked sst s_rest bind]. change (38 =? 38) with true. cbn [negb].
        fold (sst e p (38 :: n ++ 59 :: E.r_epieces rest ++ more)). rewrite Ec. cbn [bind].
        pose proof (CstLex.W_cons _ _ _ _ HW) as HW1. rewrite (CstLex.W_slice _ _ _ _ HW1), Efind.
        destruct (inc_references text _ ld) as [l0| | |]; cbn [bind]; reflexivity. }
      rewrite Hunf. clear Hunf.
      cbn [ld_run] in Hld. destruct (ld_enter ld) as [ld1|] eqn:Eenter.
      2:{ destruct (enter_fail text (sst e (p + 2 + blen n) (E.r_epieces rest ++ more)) ld Hascii ltac:(cbn [sst s_pos]; lia) Eenter) as [pos Ef].
          rewrite Ef. cbn [bind]. eauto. }
      destruct (enter_model text (sst e (p + 2 + blen n) (E.r_epieces rest ++ more)) _ _ Eenter) as (l0 & Ei1 & Ei2).
      rewrite Ei1. cbn [bind]. rewrite Ei2. cbn [bind].
      destruct (enter_d _ _ Eenter) as [Hd1 Hd10].
      destruct k as [|k']; [lia|].
      (* the value *)
      destruct (E.e_value d) as [vps|its_v] eqn:Hval; cbn [E.inline_value] in El.
      2:{ destruct (E.inline_items (glevel decls k') true its_v) as [[x1 x2]|]; cbn [E.obind] in El; [|discriminate].
          injection El as <-. discriminate. }
      destruct (E.inline_ps (glevel decls k') false true vps) as [[qv0 trv]|] eqn:Ei; [|discriminate].
      cbn [E.obind fst snd] in El. injection El as <-. cbn [E.x_pieces E.x_trace] in *. injection Ex as ->.
      unfold decl_ok in Hdok. rewrite Hval in Hdok. destruct Hdok as [Hvok _].
      cbn [E.r_value] in Eval, HWv.
      assert (Hvadj : E.no_adjacent_elit vps = true).
      { pose proof (first_decl_in decls _ _ Hfd) as Hin. rewrite Forall_forall in Hadjs. specialize (Hadjs _ Hin).
        unfold decl_adj in Hadjs. rewrite Hval in Hadjs. exact Hadjs. }
      assert (Hltv : existsb E.is_lt_ref qv = false /\ (m = true -> existsb E.is_lt_ref q' = false)).
      { destruct m.
        - specialize (Hlt eq_refl). cbn [existsb E.is_lt_ref E.mark] in Hlt. apply lt_app in Hlt. destruct Hlt as [A B0].
          cbn [existsb E.is_lt_ref E.mark] in B0. auto.
        - split; [|discriminate]. destruct Hfm as [-> | ?]; [exact Elt1|discriminate]. }
      destruct Hltv as [Hltv Hltq].
      destruct lvl' as [|lvl'']; [lia|].
      rewrite norm_attr_lvl_unfold, Eval. cbn [sl sl_start sl_end].
      rewrite (stream_from_substr_W text vs (E.r_epieces vps) tail HWv). cbn [bind].
      pose proof (CstLex.W_le _ _ _ (CstLex.W_app _ _ _ _ HWv)) as Hlev.
      rewrite ld_run_app in Hld. destruct (ld_run ld1 trv) as [ld1'|] eqn:Erun1.
      * (* the value is read; the detector stops later *)
        cbn [ld_run] in Hld.
        destruct (agree_ps decls k' (IHall decls k') false true vps _ _ _ _ Ei Erun1 ltac:(lia)) as [Ei' Hdv].
        destruct (inline_AExp_in decls Hdecls k' vps qv trv Ei' Hltv Hvok t Hpd) as (t1 & HA & Hpd1).
        destruct (AL' text Hascii decls es Henv Hdecls Hadjs true vps t qv trv t1 HA
                    (vs + blen (E.r_epieces vps)) vs tail ld1 ld1' lvl''
                    (S (length (s_rest (sst (vs + blen (E.r_epieces vps)) vs (E.r_epieces vps ++ tail))))))
          as [Ev _]; try assumption; try reflexivity.
        { rewrite Hd1. replace (0 <? ld_depth ld + 1) with true by lia. reflexivity. }
        { lia. }
        { cbn [sst s_rest]. rewrite app_length. lia. }
        rewrite Ev. cbn [bind].
        assert (Hdd : ld_depth (dec_depth ld1') = ld_depth ld) by (rewrite dec_d by lia; lia).
        apply (IH fa m q' tr' Er Hltq Hfm Hrest Hadj' e (p + 2 + blen n) more (dec_depth ld1') (S lvl'') fu t1); try assumption; try lia.
        -- pose proof (CstLex.W_app _ _ n _ (CstLex.W_cons _ _ _ _ HW)) as Y. apply CstLex.W_cons in Y.
           replace (p + 2 + blen n) with (p + 1 + blen n + 1) by lia. exact Y.
        -- rewrite Hdd. exact Hm.
        -- rewrite !app_length in Hfu. cbn [length] in Hfu. lia.
      * (* the detector stops inside the value *)
        destruct (IHk k' ltac:(lia) vps false true qv trv Ei (fun _ => Hltv) (or_intror eq_refl) Hvok Hvadj
                    (vs + blen (E.r_epieces vps)) vs tail ld1 lvl''
                    (S (length (s_rest (sst (vs + blen (E.r_epieces vps)) vs (E.r_epieces vps ++ tail))))) t)
          as [pos Ef]; try assumption; try reflexivity; try lia;
          try (cbn [sst s_rest]; rewrite app_length; lia);
          try (rewrite Hd1; replace (0 <? ld_depth ld + 1) with true by lia; reflexivity).
        rewrite Ef. cbn [bind]. eauto.
Qed.

Lemma inline_ps_lt tb m : forall ps q tr, E.inline_ps tb true m ps = Some (q, tr) -> m = true -> existsb E.is_lt_ref q = false.
Proof.
  induction ps as [|p ps IH]; intros q tr H Hm; [injection H as <- <-; reflexivity|]. subst m.
  cbn [E.inline_ps] in H. destruct p as [p|n].
  - cbn [andb] in H. destruct (E.is_lt_ref p) eqn:El; [discriminate|].
    destruct (E.inline_ps tb true true ps) as [[q' tr']|] eqn:Er; [|discriminate]. cbn [E.obind fst snd] in H.
    injection H as <- <-. cbn [existsb]. rewrite El, (IH _ _ eq_refl eq_refl). reflexivity.
  - destruct (E.lookup tb n) as [v|]; [|discriminate]. cbn [E.obind] in H.
    destruct (E.x_pieces v) as [qv|]; [|discriminate]. cbn [E.obind andb] in H.
    destruct (existsb E.is_lt_ref qv) eqn:El; [discriminate|].
    destruct (E.inline_ps tb true true ps) as [[q' tr']|] eqn:Er; [|discriminate]. cbn [E.obind fst snd] in H.
    injection H as <- <-. cbn [existsb E.is_lt_ref E.mark]. rewrite existsb_app. cbn [existsb E.is_lt_ref E.mark].
    rewrite El, (IH _ _ eq_refl eq_refl). reflexivity.
Qed.

(* ---- the value of an attribute ---- *)
Lemma normalize_f vs ps quote more c k q tr m :
  W vs (E.r_epieces ps ++ [quote] ++ more) -> quote = 39 \/ quote = 34 ->
  forallb (E.wf_epiece quote false false m) ps = true -> E.no_adjacent_elit ps = true ->
  m = (0 <? ld_depth (c_ld c)) -> 12 <= N.of_nat k + ld_depth (c_ld c) ->
  E.inline_ps (glevel decls k) true m ps = Some (q, tr) -> ld_run (c_ld c) tr = None -> c_entities c = es ->
  exists pos, normalize_attribute text (sl vs (vs + blen (E.r_epieces ps))) c = Err (EntityReferenceLoop pos).
Proof.
  intros HW Hq Hwf Hadj Hm Hk Hin Hld Hes.
  assert (Hok : Forall (ep_ok m) ps).
  { apply Forall_forall. intros p Hp. rewrite forallb_forall in Hwf. apply (ep_ok_of_wf_g quote m p (Hwf p Hp)). }
  unfold normalize_attribute. cbv zeta. rewrite (CstLex.W_slice _ _ _ _ HW).
  fold (needs_norm (E.r_epieces ps)). destruct (needs_norm (E.r_epieces ps)) eqn:E.
  2:{ rewrite (inline_noamp_tr _ _ _ _ _ _ (needs_norm_noamp _ E) Hin) in Hld. discriminate. }
  unfold entity_levels. rewrite norm_attr_lvl_unfold. cbn [sl sl_start sl_end].
  rewrite (stream_from_substr_W text vs (E.r_epieces ps) _ HW). cbn [bind]. rewrite Hes.
  pose proof (CstLex.W_le _ _ _ (CstLex.W_app _ _ _ _ HW)) as Hle.
  destruct (ALf k ps true m q tr Hin (inline_ps_lt _ _ _ _ _ Hin) (or_introl eq_refl) Hok Hadj
              (vs + blen (E.r_epieces ps)) vs ([quote] ++ more) (c_ld c) (S (N.to_nat ld_max_depth))
              (S (length (s_rest (sst (vs + blen (E.r_epieces ps)) vs (E.r_epieces ps ++ [quote] ++ more))))) tb_new)
    as [pos Ef]; try assumption; try reflexivity.
  { change (N.of_nat (S (N.to_nat ld_max_depth))) with 11. lia. }
  { cbn [sst s_rest]. rewrite app_length. lia. }
  rewrite Ef. cbn [bind]. eauto.
Qed.

Lemma tok_eattr_f lvl q a more c k qv tr m : W q (E.r_attr a ++ more) -> E.wf_attr m a = true ->
  m = (0 <? ld_depth (c_ld c)) -> 12 <= N.of_nat k + ld_depth (c_ld c) ->
  E.inline_ps (glevel decls k) true m (E.a_value a) = Some (qv, tr) ->
  ld_run (c_ld c) tr = None -> c_entities c = es ->
  exists pos, evl text lvl (rattr_tok q (raw a)) c = Err (EntityReferenceLoop pos).
Proof.
  intros HW Hwf Hm Hk Hin Hld Hes. destruct (eattr_slices text _ _ _ HW) as (S1 & S2 & HWv). cbv zeta in S1, S2, HWv.
  destruct (ewf_attr_parts_g _ _ Hwf) as (_ & Hv & Hadj & Hq).
  unfold evl, rattr_tok, vlen. cbv zeta. cbn [token_with ra_ws ra_name ra_ws1 ra_ws2 ra_value raw].
  unfold process_attribute.
  destruct (normalize_f _ _ _ _ c k qv tr m HWv Hq Hv Hadj Hm Hk Hin Hld Hes) as [pos En].
  rewrite En. cbn [bind]. eauto.
Qed.

(* ---- the attributes of a start tag: the detector stops in one of them ---- *)
Lemma eattrs_f lvl more k m : forall attrs attrs' tr q c,
  W q (flat_map E.r_attr attrs ++ more) -> forallb (E.wf_attr m) attrs = true ->
  forallb enot_xmlns attrs = true -> m = (0 <? ld_depth (c_ld c)) -> 12 <= N.of_nat k + ld_depth (c_ld c) ->
  E.inline_attrs (glevel decls k) m attrs = Some (attrs', tr) ->
  forallb (fun a => E.crlf_split_ok (T.a_value a)) attrs' = true ->
  ld_run (c_ld c) tr = None -> c_entities c = es ->
  exists pos, evs context (evl text lvl) (rattr_toks q (map raw attrs)) c = Err (EntityReferenceLoop pos).
Proof.
  induction attrs as [|a attrs IH]; intros attrs' tr q c HW Hwf Hx Hm Hk Hin Hs Hld Hes.
  - cbn [E.inline_attrs] in Hin. injection Hin as <- <-. discriminate.
  - cbn [forallb] in Hwf, Hx. apply andb_true_iff in Hwf. destruct Hwf as [Hw1 Hw2].
    apply andb_true_iff in Hx. destruct Hx as [Hx1 Hx2].
    cbn [E.inline_attrs] in Hin. unfold E.inline_attr in Hin.
    destruct (E.inline_ps (glevel decls k) true m (E.a_value a)) as [[qv tra]|] eqn:Ea; [|discriminate].
    cbn [E.obind fst snd] in Hin.
    destruct (E.inline_attrs (glevel decls k) m attrs) as [[ar trr]|] eqn:Er; [|discriminate].
    cbn [E.obind fst snd] in Hin. injection Hin as <- <-.
    cbn [forallb T.a_value] in Hs. apply andb_true_iff in Hs. destruct Hs as [Hs1 Hs2].
    cbn [flat_map] in HW. rewrite <- app_assoc in HW.
    cbn [map rattr_toks evs].
    rewrite ld_run_app in Hld. destruct (ld_run (c_ld c) tra) as [ld1|] eqn:El1.
    + destruct (agree_ps decls k (IHall decls k) true m _ _ _ _ _ Ea El1 Hk) as [Ea' _].
      destruct (tok_eattr_g text Hascii decls es Henv Hdecls Hadjs lvl q a _ c k qv tra ld1 m HW Hw1 Hx1 Hm Ea' Hs1 El1 Hes) as [E1 Hd1].
      rewrite E1. cbn [bind].
      assert (HW' : W (q + blen (r_rattr (raw a))) (flat_map E.r_attr attrs ++ more)).
      { rewrite raw_render. apply (CstLex.W_app _ _ _ _ HW). }
      apply (IH ar trr (q + blen (r_rattr (raw a))) (set_cur_attrs (set_ld c ld1) (c_cur_attrs c ++ [ta_e q a qv])) HW' Hw2 Hx2);
        cbn [c_ld c_entities set_cur_attrs set_ld]; rewrite ?Hd1; try assumption; reflexivity.
    + destruct (tok_eattr_f lvl q a _ c k qv tra m HW Hw1 Hm Hk Ea El1 Hes) as [pos E1].
      rewrite E1. cbn [bind]. eauto.
Qed.

(* ---- the start tag ---- *)
Lemma start_tag_f {B} lvl p name attrs attrs' tr k post c m (X : context -> res B) :
  W p ([60] ++ name ++ flat_map E.r_attr attrs ++ post) ->
  forallb (E.wf_attr m) attrs = true -> forallb enot_xmlns attrs = true ->
  m = (0 <? ld_depth (c_ld c)) -> 12 <= N.of_nat k + ld_depth (c_ld c) ->
  E.inline_attrs (glevel decls k) m attrs = Some (attrs', tr) ->
  forallb (fun a => E.crlf_split_ok (T.a_value a)) attrs' = true -> ld_run (c_ld c) tr = None ->
  CI (sh c) -> c_entities c = es ->
  exists pos, (let! c1 := evs context (evl text lvl) (rstart_toks p name (map raw attrs)) c in X c1) = Err (EntityReferenceLoop pos).
Proof.
  intros HW Hwf Hx Hm Hk Hin Hcr Hld I Hes.
  pose proof (CstLex.W_app _ _ _ _ HW) as HW1. change (blen [60]) with 1 in HW1.
  pose proof (CstLex.W_app _ _ _ _ HW1) as HW2.
  unfold rstart_toks. cbn [evs].
  unfold evl at 1. cbn [token_with].
  rewrite (reset_after_text_ok text) by apply (ci_at _ I). cbn [bind].
  rewrite slice_empty. change (bytes_eqb [] xmlns_str) with false. cbv iota. cbn [bind].
  fold (evl text lvl).
  destruct (eattrs_f lvl post k m attrs attrs' tr (p + 1 + blen name)
              (set_tag_name (set_after_text c []) {| tn_prefix := sl (p + 1) (p + 1); tn_name := sl (p + 1) (p + 1 + blen name);
                                                     tn_pos := p; tn_prefix_pos := p + 1 |}) HW2 Hwf Hx Hm Hk Hin Hcr Hld Hes) as [pos Ef].
  rewrite Ef. cbn [bind]. eauto.
Qed.

End RejAttr.

Print Assumptions ALf.
Print Assumptions start_tag_f.
