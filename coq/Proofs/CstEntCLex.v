(* Proofs/CstEntCLex.v -- C07 with content entities: the lexer post-conditions of Proofs/CstLex.v for a
   stream over a PART [.., en) of the input (the value of an entity): [st p r] is the stream at p
   whose remaining input inside the range is r; [tl] is the input after the range.  With
   en = tlen text and tl = [] this is the stream of CstLex.v.  The proofs are those of CstLex.v. *)
From Coq Require Import Ascii String.
From Coq Require Import List NArith PeanoNat Bool Lia ZifyBool ZifyN ZifyNat.
Import ListNotations.
From RX Require Import Generated.
From RX.Model Require Import Base CharClass Stream Tokenizer.
From RX.Spec Require Cst.
From RX.Proofs Require Import Tactics CstLex.
Open Scope N_scope.

Section SubLex.
Variable text : bytes.
Hypothesis Hascii : Forall (fun x => x < 128) text.
Variable en : N.
Variable tl : bytes.

(* the stream at position p, whose remaining input inside the range is r *)
Definition st (p : N) (r : bytes) : stream := {| s_pos := p; s_end := en; s_rest := r ++ tl |}.
Definition W (p : N) (r : bytes) : Prop := CstLex.W text p (r ++ tl) /\ p + blen r = en.

Lemma W_app p x l : W p (x ++ l) -> W (p + blen x) l.
Proof.
  intros [H1 H2]. split.
  - rewrite <- app_assoc in H1. apply (CstLex.W_app text _ _ _ H1).
  - rewrite blen_app in H2. lia.
Qed.

Lemma W_cons p x l : W p (x :: l) -> W (p + 1) l.
Proof. intros H. apply (W_app p [x] l). exact H. Qed.

Lemma W_sub p x l : W p (x ++ l) -> sub text p (p + blen x) = x.
Proof. intros [H1 _]. rewrite <- app_assoc in H1. apply (CstLex.W_sub text _ _ _ H1). Qed.

Lemma W_slice p x l : W p (x ++ l) -> slice_bytes text (sl p (p + blen x)) = x.
Proof. intros H. unfold slice_bytes, sl. cbn [sl_start sl_end]. apply W_sub with (l := l). exact H. Qed.

Lemma W_ascii p r : W p r -> Forall (fun x => x < 128) r.
Proof. intros [H _]. apply (CstLex.W_ascii text Hascii) in H. apply Forall_app in H. apply H. Qed.

Lemma W_le p r : W p r -> p <= tlen text.
Proof. intros [H _]. apply (CstLex.W_le text _ _ H). Qed.

Lemma W_en p r : W p r -> en <= tlen text.
Proof. intros [[_ H] H2]. rewrite blen_app in H. lia. Qed.

Lemma boundary_ok p : p <= tlen text -> is_boundary text p = true.
Proof. apply (CstLex.boundary_ok text Hascii). Qed.

Lemma mk_slice_ok a e : a <= e -> e <= tlen text -> mk_slice text a e = Ok (sl a e).
Proof. apply (CstLex.mk_slice_ok text Hascii). Qed.

Lemma at_end_st p r : W p r -> at_end (st p r) = match r with [] => true | _ => false end.
Proof.
  intros [_ H]. unfold at_end, st. cbn [s_pos s_end].
  destruct r; [rewrite blen_nil in H|rewrite blen_cons in H]; lia.
Qed.

Lemma avail_st p r : W p r -> avail (st p r) = r.
Proof.
  intros [_ H]. unfold avail, st. cbn [s_pos s_end s_rest].
  replace (N.to_nat (en - p)) with (length r) by (unfold blen in H; lia).
  apply firstn_len_app.
Qed.

Lemma starts_with_st p r lit : W p r -> starts_with (st p r) lit = prefix_b lit r.
Proof. intros H. unfold starts_with. rewrite avail_st by exact H. reflexivity. Qed.

Lemma advance_st n p x l : n = blen x -> W p (x ++ l) ->
  advance n (st p (x ++ l)) = Ok (st (p + n) l).
Proof.
  intros -> [_ H]. unfold advance, st. cbn [s_pos s_end s_rest]. rewrite blen_app in H.
  replace (en <? p + blen x) with false by lia.
  unfold blen at 2. rewrite Nat2N.id, <- app_assoc, skipn_len_app. reflexivity.
Qed.

Lemma advance1_st p x l : W p (x :: l) -> advance 1 (st p (x :: l)) = Ok (st (p + 1) l).
Proof. intros H. apply (advance_st 1 p [x] l); [reflexivity|exact H]. Qed.

Lemma curr_byte_st p x l : W p (x :: l) -> curr_byte (st p (x :: l)) = Ok x.
Proof. intros H. unfold curr_byte. rewrite at_end_st by exact H. reflexivity. Qed.

Lemma curr_byte_opt_st p x l : W p (x :: l) -> curr_byte_opt (st p (x :: l)) = Some x.
Proof. intros H. unfold curr_byte_opt. rewrite at_end_st by exact H. reflexivity. Qed.

Lemma next_byte_st p x y l : W p (x :: y :: l) -> next_byte (st p (x :: y :: l)) = Ok y.
Proof.
  intros [_ H]. unfold next_byte, st. cbn [s_pos s_end s_rest]. rewrite !blen_cons in H.
  replace (en <=? p + 1) with false by lia. reflexivity.
Qed.

Lemma consume_byte_st p c l : W p (c :: l) -> consume_byte text c (st p (c :: l)) = Ok (st (p + 1) l).
Proof.
  intros H. unfold consume_byte. rewrite curr_byte_st by exact H. cbn [bind].
  rewrite N.eqb_refl. cbn [negb]. apply advance1_st. exact H.
Qed.

Lemma skip_string_st p lit l : W p (lit ++ l) ->
  skip_string text lit (st p (lit ++ l)) = Ok (st (p + blen lit) l).
Proof.
  intros H. unfold skip_string. rewrite starts_with_st by exact H.
  rewrite prefix_b_app_same. cbn [negb]. apply advance_st; [reflexivity|exact H].
Qed.

(* a run of bytes accepted by f stops at the first byte refused, or at the end of the range *)
Lemma scan_run' f : forall x l, forallb f x = true -> stops f l ->
  scan f ((x ++ l) ++ tl) (length (x ++ l)) = length x.
Proof.
  induction x as [|a x IH]; intros l Hx Hl.
  - cbn [app length]. destruct l as [|c l]; [destruct tl; reflexivity|].
    cbn [app length scan]. cbn [stops] in Hl. rewrite Hl. reflexivity.
  - cbn [forallb] in Hx. apply andb_true_iff in Hx. destruct Hx as [Ha Hx].
    cbn [app length scan]. rewrite Ha. f_equal. apply IH; assumption.
Qed.

Lemma skip_bytes_st f p x l : W p (x ++ l) -> forallb f x = true -> stops f l ->
  skip_bytes f (st p (x ++ l)) = st (p + blen x) l.
Proof.
  intros [_ H] Hx Hl. unfold skip_bytes, st. cbn [s_pos s_end s_rest].
  replace (N.to_nat (en - p)) with (length (x ++ l)) by (unfold blen in H; lia).
  rewrite scan_run' by assumption.
  rewrite <- app_assoc, skipn_len_app. reflexivity.
Qed.

Lemma skip_spaces_st p x l : W p (x ++ l) -> forallb byte_is_space x = true -> stops byte_is_space l ->
  skip_spaces (st p (x ++ l)) = st (p + blen x) l.
Proof. apply skip_bytes_st. Qed.

(* ---- char-level: consume_chars ---- *)

(* every byte of x is an ASCII Char accepted by f in the state in which it is met *)
Fixpoint walk_ok (f : stream -> N -> bool) (p : N) (x l : bytes) : Prop :=
  match x with
  | [] => True
  | c :: x' => char_is_char c = true /\ f (st p (x ++ l)) c = true /\ walk_ok f (p + 1) x' l
  end.
Definition walk_stop (f : stream -> N -> bool) (p : N) (l : bytes) : Prop :=
  match l with [] => True | c :: _ => char_is_char c = true /\ f (st p l) c = false end.

Lemma next_char_st p c l : W p (c :: l) -> next_char (st p (c :: l)) = Ok (Some (c, 1)).
Proof.
  intros H. unfold next_char. rewrite at_end_st by exact H.
  pose proof (W_ascii _ _ H) as Ha. inversion Ha as [|? ? Hc _]; subst.
  cbn [s_rest st app]. rewrite decode1_ascii by exact Hc.
  destruct H as [_ H]. rewrite blen_cons in H. cbn [st s_end s_pos].
  replace (en <? p + 1) with false by lia. reflexivity.
Qed.

Lemma next_char_end p : W p [] -> next_char (st p []) = Ok None.
Proof. intros H. unfold next_char. rewrite at_end_st by exact H. reflexivity. Qed.

Lemma skip_chars_loop_st f : forall x p l fuel, W p (x ++ l) -> walk_ok f p x l -> walk_stop f (p + blen x) l ->
  (length x < fuel)%nat ->
  skip_chars_loop text fuel f (st p (x ++ l)) = Ok (st (p + blen x) l).
Proof.
  induction x as [|c x IH]; intros p l fuel HW Hx Hl Hf.
  - cbn [app] in *. rewrite blen_nil, N.add_0_r in *. destruct fuel as [|fu]; [cbn in Hf; lia|].
    cbn [skip_chars_loop]. destruct l as [|c l].
    + rewrite next_char_end by exact HW. reflexivity.
    + rewrite next_char_st by exact HW. cbn [bind]. destruct Hl as [H1 H2]. rewrite H1, H2. reflexivity.
  - destruct fuel as [|fu]; [cbn in Hf; lia|]. cbn [length] in Hf.
    cbn [app] in *. cbn [skip_chars_loop]. rewrite next_char_st by exact HW. cbn [bind].
    cbn [walk_ok app] in Hx. destruct Hx as (H1 & H2 & H3). rewrite H1, H2. cbn [negb].
    rewrite advance1_st by exact HW. cbn [bind]. rewrite blen_cons.
    replace (p + (1 + blen x)) with (p + 1 + blen x) by lia.
    apply IH; [apply W_cons in HW; exact HW|exact H3| |lia].
    replace (p + 1 + blen x) with (p + blen (c :: x)) by (rewrite blen_cons; lia). exact Hl.
Qed.

Lemma consume_chars_st f x p l : W p (x ++ l) -> walk_ok f p x l -> walk_stop f (p + blen x) l ->
  consume_chars text f (st p (x ++ l)) = Ok (sl p (p + blen x), st (p + blen x) l).
Proof.
  intros HW Hx Hl. unfold consume_chars, skip_chars.
  rewrite skip_chars_loop_st; [|exact HW|exact Hx|exact Hl|cbn [st s_rest]; rewrite !app_length; lia].
  cbn [bind]. unfold slice_back. cbn [st s_pos].
  pose proof (W_le _ _ (W_app _ _ _ HW)) as Hle.
  rewrite mk_slice_ok by lia. reflexivity.
Qed.

(* ---- names ---- *)


Lemma consume_qname_loop_st start : forall x p l fuel, W p (x ++ l) ->
  forallb Cst.is_name_char x = true -> name_stop l -> (length x < fuel)%nat ->
  consume_qname_loop text fuel start None (st p (x ++ l)) = Ok (None, st (p + blen x) l).
Proof.
  induction x as [|c x IH]; intros p l fuel HW Hx Hl Hf.
  - cbn [app] in *. rewrite blen_nil, N.add_0_r. destruct fuel as [|fu]; [cbn in Hf; lia|].
    cbn [consume_qname_loop]. rewrite at_end_st by exact HW. destruct l as [|c l]; [reflexivity|].
    cbn [curr_byte_unchecked st s_rest bind app]. destruct Hl as (H1 & H2 & H3).
    replace (c <? 128) with true by lia. replace (c =? 58) with false by lia. rewrite H3. reflexivity.
  - destruct fuel as [|fu]; [cbn in Hf; lia|]. cbn [length] in Hf. cbn [app] in *.
    cbn [forallb] in Hx. apply andb_true_iff in Hx. destruct Hx as [Hc Hx].
    destruct (name_char_byte _ Hc) as (H1 & H2 & H3).
    cbn [consume_qname_loop]. rewrite at_end_st by exact HW.
    cbn [curr_byte_unchecked st s_rest bind app].
    replace (c <? 128) with true by lia. replace (c =? 58) with false by lia. rewrite H3.
    fold (st p (c :: x ++ l)). rewrite advance1_st by exact HW. cbn [bind].
    rewrite blen_cons. replace (p + (1 + blen x)) with (p + 1 + blen x) by lia.
    apply IH; [apply W_cons in HW; exact HW|exact Hx|exact Hl|lia].
Qed.

Lemma consume_qname_st name p l : W p (name ++ l) -> Cst.wf_name name = true -> name_stop l ->
  consume_qname text (st p (name ++ l)) = Ok (sl p p, sl p (p + blen name), st (p + blen name) l).
Proof.
  intros HW Hn Hl. unfold consume_qname. cbn [st s_pos s_rest].
  destruct name as [|c x]; [discriminate|]. cbn [Cst.wf_name] in Hn.
  apply andb_true_iff in Hn. destruct Hn as [Hc Hx].
  fold (st p ((c :: x) ++ l)).
  rewrite (consume_qname_loop_st p (c :: x) p l); [|exact HW| |exact Hl|rewrite !app_length; lia].
  2:{ cbn [forallb]. rewrite (name_start_char _ Hc), Hx. reflexivity. }
  cbn [bind]. unfold slice_back. cbn [st s_pos].
  pose proof (W_le _ _ (W_app _ _ _ HW)) as Hle.
  rewrite !mk_slice_ok by lia. cbn [bind].
  unfold slice_len. cbn [sl sl_start sl_end]. rewrite N.sub_diag. cbn [N.eqb negb andb].
  replace (0 =? 0) with true by reflexivity. cbn [negb andb].
  fold (sl p (p + blen (c :: x))). rewrite (W_slice p (c :: x) l) by exact HW.
  cbn [str_is_name_start]. destruct (name_start_byte _ Hc) as (H1 & H2 & _).
  replace (c <? 128) with true by lia. rewrite H2. reflexivity.
Qed.

Lemma skip_name_loop_st : forall x p l fuel, W p (x ++ l) ->
  forallb Cst.is_name_char x = true -> name_stop l -> (length x < fuel)%nat ->
  skip_name_loop fuel (st p (x ++ l)) = Ok (st (p + blen x) l).
Proof.
  induction x as [|c x IH]; intros p l fuel HW Hx Hl Hf.
  - cbn [app] in *. rewrite blen_nil, N.add_0_r. destruct fuel as [|fu]; [cbn in Hf; lia|].
    cbn [skip_name_loop]. destruct l as [|c l].
    + rewrite next_char_end by exact HW. reflexivity.
    + rewrite next_char_st by exact HW. cbn [bind]. destruct Hl as (H1 & H2 & H3).
      rewrite char_is_name_ascii by exact H1. rewrite H3. reflexivity.
  - destruct fuel as [|fu]; [cbn in Hf; lia|]. cbn [length] in Hf. cbn [app] in *.
    cbn [forallb] in Hx. apply andb_true_iff in Hx. destruct Hx as [Hc Hx].
    destruct (name_char_byte _ Hc) as (H1 & H2 & H3).
    cbn [skip_name_loop]. rewrite next_char_st by exact HW. cbn [bind].
    rewrite char_is_name_ascii by exact H1. rewrite H3.
    rewrite advance1_st by exact HW. cbn [bind].
    rewrite blen_cons. replace (p + (1 + blen x)) with (p + 1 + blen x) by lia.
    apply IH; [apply W_cons in HW; exact HW|exact Hx|exact Hl|lia].
Qed.

Lemma consume_name_st name p l : W p (name ++ l) -> Cst.wf_name name = true -> name_stop l ->
  consume_name text (st p (name ++ l)) = Ok (sl p (p + blen name), st (p + blen name) l).
Proof.
  intros HW Hn Hl. unfold consume_name, skip_name. cbn [st s_pos].
  destruct name as [|c x]; [discriminate|]. cbn [Cst.wf_name] in Hn.
  apply andb_true_iff in Hn. destruct Hn as [Hc Hx]. cbn [app] in *.
  fold (st p (c :: x ++ l)). rewrite next_char_st by exact HW. cbn [bind].
  destruct (name_start_byte _ Hc) as (H1 & H2 & _).
  rewrite char_is_name_start_ascii by exact H1. rewrite H2.
  rewrite advance1_st by exact HW. cbn [bind].
  rewrite skip_name_loop_st; [|apply W_cons in HW; exact HW|exact Hx|exact Hl|cbn [st s_rest]; rewrite !app_length; lia].
  cbn [bind]. unfold slice_back. cbn [st s_pos].
  pose proof (W_le _ _ (W_app _ (c :: x) _ HW)) as Hle. rewrite blen_cons in *.
  rewrite mk_slice_ok by lia. cbn [bind]. unfold slice_len. cbn [sl sl_start sl_end].
  replace (p + 1 + blen x - p =? 0) with false by lia.
  replace (p + 1 + blen x) with (p + (1 + blen x)) by lia. reflexivity.
Qed.
(* ------------------------------------------------------------------------------------------ *)
(* M1: the productions                                                                        *)
(* ------------------------------------------------------------------------------------------ *)

Variable C : Type.
Variable ev : token -> C -> res C.

(* ---- comments ---- *)

Lemma comment_walk : forall bs p post, W p (bs ++ [45; 45; 62] ++ post) -> comment_ok bs ->
  walk_ok comment_f p bs ([45; 45; 62] ++ post).
Proof.
  induction bs as [|c r IH]; intros p post HW (H1 & H2 & H3); cbn [walk_ok]; [exact I|].
  cbn [forallb] in H1. apply andb_true_iff in H1. destruct H1 as [Hc H1].
  destruct (plain_char _ Hc) as (L & K & _).
  cbn [contains_b] in H2. apply orb_false_iff in H2. destruct H2 as [H2 H2'].
  rewrite ends_with_cons in H3.
  split; [exact K|]. split.
  - unfold comment_f. rewrite starts_with_st by exact HW.
    destruct (c =? 45) eqn:E; [|reflexivity]. cbn [andb]. apply N.eqb_eq in E. subst c.
    destruct r as [|y r].
    + discriminate.
    + cbn [app prefix_b] in *. rewrite N.eqb_refl in *. cbn [andb] in *.
      destruct (45 =? y); [discriminate|reflexivity].
  - apply IH; [apply (W_cons _ _ _ HW)|]. split; [exact H1|]. split; [exact H2'|].
    destruct r; [reflexivity|exact H3].
Qed.

Lemma lex_comment p bs post c : W p ([60; 33; 45; 45] ++ bs ++ [45; 45; 62] ++ post) -> comment_ok bs ->
  parse_comment text C ev (st p ([60; 33; 45; 45] ++ bs ++ [45; 45; 62] ++ post)) c =
  let! c' := ev (TComment (sl (p + 4) (p + 4 + blen bs)) (p, p + 4 + blen bs + 3)) c in
  Ok (st (p + 4 + blen bs + 3) post, c').
Proof.
  intros HW Hok. unfold parse_comment. cbv zeta.
  rewrite (advance_st 4 p [60; 33; 45; 45]) by (try reflexivity; exact HW). cbn [bind].
  pose proof (W_app _ _ _ HW) as HW1. change (blen [60; 33; 45; 45]) with 4 in HW1.
  change (b "-->") with [45; 45; 62]. change (b "--") with [45; 45].
  change (fun (s : stream) (ch : N) => negb ((ch =? 45) && starts_with s [45; 45; 62])) with comment_f.
  rewrite consume_chars_st; [|exact HW1|apply comment_walk; assumption|].
  2:{ cbn [walk_stop app]. split; [reflexivity|]. unfold comment_f.
      rewrite starts_with_st by (apply (W_app _ _ _ HW1)). reflexivity. }
  cbn [bind]. pose proof (W_app _ _ _ HW1) as HW2.
  rewrite skip_string_st by exact HW2. cbn [bind].
  rewrite (W_slice _ _ _ HW1). destruct Hok as (_ & H2 & H3). rewrite H2, H3.
  cbn [st s_pos]. change (blen [45; 45; 62]) with 3. reflexivity.
Qed.

(* ---- text ---- *)

Lemma text_walk : forall bs p post,
  forallb (fun x => Cst.is_plain x && negb (x =? 60) && negb (x =? 38)) bs = true ->
  walk_ok text_f p bs post.
Proof.
  induction bs as [|c r IH]; intros p post H; cbn [walk_ok]; [exact I|].
  cbn [forallb] in H. apply andb_true_iff in H. destruct H as [Hc H].
  apply andb_true_iff in Hc. destruct Hc as [Hc H38]. apply andb_true_iff in Hc. destruct Hc as [Hc H60].
  destruct (plain_char _ Hc) as (L & K & _).
  split; [exact K|]. split; [exact H60|]. apply IH. exact H.
Qed.

Lemma lex_text p bs post c : W p (bs ++ post) -> text_ok bs -> text_stop post ->
  parse_text text C ev (st p (bs ++ post)) c =
  let! c' := ev (TText (sl p (p + blen bs)) (p, p + blen bs)) c in Ok (st (p + blen bs) post, c').
Proof.
  intros HW [H1 H2] Hs. unfold parse_text. cbv zeta.
  change (fun (_ : stream) (ch : N) => negb (ch =? 60)) with text_f.
  rewrite consume_chars_st; [|exact HW|apply text_walk; exact H1|].
  2:{ destruct post as [|x post]; cbn [walk_stop]; [exact I|]. cbn [text_stop] in Hs. subst x.
      split; reflexivity. }
  cbn [bind]. rewrite (W_slice _ _ _ HW). change (b "]]>") with [93; 93; 62]. rewrite H2, andb_false_r.
  reflexivity.
Qed.

(* ---- processing instructions ---- *)

Lemma pi_walk : forall v p post, W p (v ++ [63; 62] ++ post) ->
  forallb Cst.is_plain v = true -> contains_b [63; 62] v = false ->
  walk_ok pi_f p v ([63; 62] ++ post).
Proof.
  induction v as [|c r IH]; intros p post HW H1 H2; cbn [walk_ok]; [exact I|].
  cbn [forallb] in H1. apply andb_true_iff in H1. destruct H1 as [Hc H1].
  destruct (plain_char _ Hc) as (L & K & _).
  cbn [contains_b] in H2. apply orb_false_iff in H2. destruct H2 as [H2 H2'].
  split; [exact K|]. split.
  - unfold pi_f. rewrite starts_with_st by exact HW.
    destruct (c =? 63) eqn:E; [|reflexivity]. cbn [andb]. apply N.eqb_eq in E. subst c.
    destruct r as [|y r].
    + reflexivity.
    + cbn [app prefix_b] in *. rewrite N.eqb_refl in *. cbn [andb] in *.
      destruct (62 =? y); [discriminate|reflexivity].
  - apply IH; [apply (W_cons _ _ _ HW)|exact H1|exact H2'].
Qed.

Lemma lex_pi p target sep value post c :
  W p ([60; 63] ++ target ++ sep ++ value ++ [63; 62] ++ post) -> pi_ok target sep value ->
  let e := p + 2 + blen target + blen sep + blen value in
  parse_pi text C ev (st p ([60; 63] ++ target ++ sep ++ value ++ [63; 62] ++ post)) c =
  let! c' := ev (TPI (sl (p + 2) (p + 2 + blen target))
                     (match value with [] => None | _ => Some (sl (p + 2 + blen target + blen sep) e) end)
                     (p, e + 2)) c in
  Ok (st (e + 2) post, c').
Proof.
  intros HW Hok e. pose proof (pi_after_target _ _ _ post Hok) as [Hst1 Hst2].
  destruct Hok as (Hn & Hs & Hv & Hc & Hx & Hfirst).
  unfold parse_pi. rewrite starts_with_st by exact HW.
  change (b "<?xml ") with [60; 63; 120; 109; 108; 32]. cbn [app prefix_b]. rewrite !N.eqb_refl. cbn [andb].
  change (match target ++ sep ++ value ++ 63 :: 62 :: post with
          | [] => false
          | c0 :: l' => (120 =? c0) && match l' with [] => false | c1 :: l'0 => (109 =? c1) && match l'0 with [] => false | c2 :: l'1 => (108 =? c2) && match l'1 with [] => false | c3 :: _ => (32 =? c3) && true end end end end)
    with (prefix_b [120; 109; 108; 32] (target ++ sep ++ value ++ [63; 62] ++ post)).
  rewrite not_xml_decl; [|exact Hn|exact Hx|apply name_stop_char; exact Hst1]. cbv zeta.
  change (60 :: 63 :: target ++ sep ++ value ++ 63 :: 62 :: post)
    with ([60; 63] ++ target ++ sep ++ value ++ [63; 62] ++ post).
  rewrite (advance_st 2 p [60; 63]) by (try reflexivity; exact HW). cbn [bind].
  pose proof (W_app _ _ _ HW) as HW1. change (blen [60; 63]) with 2 in HW1.
  rewrite consume_name_st; [|exact HW1|exact Hn|exact Hst1]. cbn [bind].
  pose proof (W_app _ _ _ HW1) as HW2.
  change (b "?>") with [63; 62].
  assert (Hsp : (if starts_with (st (p + 2 + blen target) (sep ++ value ++ [63; 62] ++ post)) [63; 62]
                 then Ok (st (p + 2 + blen target) (sep ++ value ++ [63; 62] ++ post))
                 else consume_spaces text (st (p + 2 + blen target) (sep ++ value ++ [63; 62] ++ post)))
                = Ok (st (p + 2 + blen target + blen sep) (value ++ [63; 62] ++ post))).
  { rewrite starts_with_st by exact HW2. destruct sep as [|w sep'].
    - destruct value as [|x v]; [|destruct Hfirst as [_ Hf]; congruence].
      cbn [app prefix_b]. rewrite blen_nil, N.add_0_r. reflexivity.
    - assert (Hw : Cst.is_ws w = true).
      { cbn [Cst.wf_ws forallb] in Hs. apply andb_true_iff in Hs. apply Hs. }
      replace (prefix_b [63; 62] ((w :: sep') ++ value ++ [63; 62] ++ post)) with false.
      2:{ cbn [app prefix_b]. destruct (63 =? w) eqn:E63; [|reflexivity].
          apply N.eqb_eq in E63. subst w. discriminate. }
      unfold consume_spaces. cbn [app]. rewrite at_end_st by exact HW2.
      unfold starts_with_space. rewrite curr_byte_opt_st by exact HW2.
      rewrite (ws_space _ Hw). cbn [negb].
      f_equal. apply (skip_spaces_st (p + 2 + blen target) (w :: sep') (value ++ [63; 62] ++ post));
        [exact HW2|apply ws_spaces; exact Hs|exact Hst2]. }
  rewrite Hsp. cbn [bind]. clear Hsp.
  pose proof (W_app _ _ _ HW2) as HW3.
  change (fun (s : stream) (ch : N) => negb ((ch =? 63) && starts_with s [63; 62])) with pi_f.
  rewrite consume_chars_st; [|exact HW3|apply pi_walk; assumption|].
  2:{ cbn [walk_stop app]. split; [reflexivity|]. unfold pi_f.
      rewrite starts_with_st by (apply (W_app _ _ _ HW3)). reflexivity. }
  cbn [bind]. pose proof (W_app _ _ _ HW3) as HW4.
  rewrite skip_string_st by exact HW4. cbn [bind]. cbn [st s_pos]. change (blen [63; 62]) with 2.
  unfold slice_len. cbn [sl sl_start sl_end]. fold e.
  replace (p + 2 + blen target + blen sep + blen value) with e by reflexivity.
  destruct value as [|x v].
  - rewrite blen_nil in *. replace (e - (p + 2 + blen target + blen sep) =? 0) with true by (unfold e; rewrite blen_nil; lia).
    reflexivity.
  - replace (e - (p + 2 + blen target + blen sep) =? 0) with false by (unfold e; rewrite blen_cons; lia).
    reflexivity.
Qed.


(* ---- tag ends ---- *)
Lemma lex_elem_end fuel ts q ws_end empty post c :
  W q (ws_end ++ tag_tail empty ++ post) -> Cst.wf_ws ws_end = true ->
  parse_element_loop text C ev (S fuel) ts (st q (ws_end ++ tag_tail empty ++ post)) c =
  let! c' := ev (end_tok (q + blen ws_end) empty) c in
  Ok (negb empty, st (q + blen ws_end + blen (tag_tail empty)) post, c').
Proof.
  intros HW Hws. cbn [parse_element_loop]. rewrite at_end_st by exact HW.
  replace (match ws_end ++ tag_tail empty ++ post with [] => true | _ => false end) with false
    by (destruct ws_end, empty; reflexivity). cbv zeta.
  rewrite skip_spaces_st; [|exact HW|apply ws_spaces; exact Hws|destruct empty; reflexivity].
  pose proof (W_app _ _ _ HW) as HW1. unfold end_tok. destruct empty; cbn [tag_tail app negb] in *.
  - rewrite curr_byte_st by exact HW1. cbn [bind]. change (47 =? 47) with true. cbv iota.
    rewrite advance1_st by exact HW1. cbn [bind].
    rewrite consume_byte_st by (apply (W_cons _ _ _ HW1)). cbn [bind st s_pos].
    change (blen [47; 62]) with 2. replace (q + blen ws_end + 1 + 1) with (q + blen ws_end + 2) by lia.
    reflexivity.
  - rewrite curr_byte_st by exact HW1. cbn [bind]. change (62 =? 47) with false. change (62 =? 62) with true. cbv iota.
    rewrite advance1_st by exact HW1. cbn [bind st s_pos]. change (blen [62]) with 1. reflexivity.
Qed.

(* ---- end tags ---- *)

Lemma lex_close p name ws2 post c : W p ([60; 47] ++ name ++ ws2 ++ [62] ++ post) ->
  Cst.wf_name name = true -> Cst.wf_ws ws2 = true ->
  let e := p + 2 + blen name + blen ws2 + 1 in
  parse_close_element text C ev (st p ([60; 47] ++ name ++ ws2 ++ [62] ++ post)) c =
  let! c' := ev (TElementEnd (EClose (sl (p + 2) (p + 2)) (sl (p + 2) (p + 2 + blen name))) (p, e)) c in
  Ok (st e post, c').
Proof.
  intros HW Hn Hws e. unfold parse_close_element. cbv zeta. cbn [st s_pos].
  fold (st p ([60; 47] ++ name ++ ws2 ++ [62] ++ post)).
  rewrite (advance_st 2 p [60; 47]) by (try reflexivity; exact HW). cbn [bind].
  pose proof (W_app _ _ _ HW) as HW1. change (blen [60; 47]) with 2 in HW1.
  rewrite consume_qname_st; [|exact HW1|exact Hn|].
  2:{ apply ws_stop_name; [exact Hws|]. cbn [app name_stop]. apply not_name_byte_lit. auto. }
  cbn [bind]. pose proof (W_app _ _ _ HW1) as HW2.
  rewrite skip_spaces_st; [|exact HW2|apply ws_spaces; exact Hws|reflexivity].
  pose proof (W_app _ _ _ HW2) as HW3. cbn [app] in *.
  rewrite consume_byte_st by exact HW3. cbn [bind st s_pos]. reflexivity.
Qed.

End SubLex.

Print Assumptions lex_comment.
Print Assumptions lex_pi.
Print Assumptions lex_close.
Print Assumptions lex_elem_end.
