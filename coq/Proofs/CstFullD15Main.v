(* Proofs/CstFullD15Main.v -- the known finding D15 (property C07) pinned to its variant on whole documents of Spec/CstFullS6.v:
   [d15_rejected].  The prolog is read by [prolog6] (Proofs/CstFullNsRejDoc.v); the root element and, through references, the
   values of entities with markup are read by Proofs/CstFullD15Items.v up to the first attribute value, inside such a value,
   in which &lt; is written; there normalize_attribute answers InvalidAttributeValue (Proofs/CstFullD15Attr.v). *)
From Coq Require Import Ascii String.
From Coq Require Import List NArith PeanoNat Bool Lia ZifyBool ZifyN ZifyNat.
Import ListNotations.
From RX Require Import Generated.
From RX.Model Require Import Base CharClass Stream Tokenizer Doc Builder Parse.
From RX.Spec Require Cst CstText CstEnt Detector Scope CstU CstNs Chars.
From RX.Spec Require Tree.
From RX.Spec Require Import CstFullS5.
From RX.Spec Require Import Text CstFull CstFullS4.
From RX.Spec Require Import CstFullS6.
From RX.Proofs Require Import Tactics CstLex CstBuild CstNsLex CstNsView CstNsBuild CstULex.
From RX.Proofs Require Import CstTextSem CstEntSem CstEntMeaning CstEntRun CstEntInline DetectorProofs.
From RX.Proofs Require Import CstFullLex CstFullBuild CstFullTree CstFullDoc.
From RX.Proofs Require Import CstFullS2Sem CstFullS3Sem CstFullS3Text CstFullS3Run CstFullS3Plug.
From RX.Proofs Require Import CstEntCBuild CstEntCSem.
From RX.Proofs Require Import CstFullS4Sem CstFullS4TSem CstFullS4TText CstFullS4Build CstFullS4Attr.
From RX.Proofs Require Import CstFullS5Ws CstFullS5Lex CstFullS5Doc CstFullS5Dtd CstFullS5Decl.
From RX.Proofs Require Import CstFullS6Text CstFullS6Items CstFullS6Dtd CstFullS6Doc.
From RX.Proofs Require Import CstFullRejSem CstFullRejAttr CstFullRejText CstFullRejItems CstFullRejDoc.
From RX.Proofs Require Import CstFullRejMain CstFullNsRejDoc.
From RX.Proofs Require Import KnownFindingsD15 CstFullD15Attr CstFullD15Text CstFullD15Items.
From RX.Proofs Require CstFullMain CstFullS4Main.
From RX.Proofs Require CstItems CstNsItems CstNsDoc CstNsMain CstUItems CstUDoc CstDoc CstEntDtd CstEntText CstEntCLex CstFullS6Lex CstEntRejSem CstEntBuild CstEntCText.
From RX.Proofs Require CstFullS3 CstFullS5Items CstFullS5.
Open Scope N_scope.

Ltac clia := repeat match goal with H : @eq bool _ true |- _ => clear H end; lia.

Notation vattrs := CstFullS4Main.vattrs.

(* ------------------------------------------------------------------------------------------ *)
(* the root element                                                                           *)
(* ------------------------------------------------------------------------------------------ *)
Section RootD.
Variable text : bytes.
Hypothesis Hvalid : valid_utf8_b text = true.
Variable D : list Scope.binding.
Hypothesis HD : forall l, NoDup l -> incl l D -> N.of_nat (length l) <= 65535.
Variable decls : list xdecl.
Variable es : list entity.
Hypothesis Henv : Forall2 (uent_ok text) (map pd decls) es.
Hypothesis Hdecls : Forall udecl_okc (map pd decls).
Hypothesis Hcont : Forall decl_cont decls.

Notation WV := (CstULex.WV text).
Notation CIn := (CstNsBuild.CIn text D).
Notation OR := (CstFullS6Text.OR text D es).
Notation tbm := (level decls E.max_level).
Notation ntbm := (nlevel decls E.max_level).

Lemma root_d name ens ws body p post c its tr ld' :
  wf_uitem_s false (IElem name ens ws body) = true ->
  WV p (r_item (@IElem epieces name ens ws body) ++ post) ->
  CIn [] c -> c_after_text c = [] -> c_ld c = ld_init -> c_entities c = es ->
  inline_item ntbm false (IElem name ens ws body) = Some (its, tr) ->
  inline_item tbm false (IElem name ens ws body) = None ->
  ld_run ld_init tr = Some ld' ->
  Pok [] its -> Rooms [] c [] its -> NsOk D [] [] its ->
  exists pos,
    (let! (open, s, c) := parse_element text context (CstBuild.tok_ev text)
                            (CstLex.st text p (r_item (@IElem epieces name ens ws body) ++ post)) c in
     if open then parse_content text context (CstBuild.tok_ev text) s c else Ok (s, c)) = Err (InvalidAttributeValue pos).
Proof.
  intros Hwf HW I Hat Hld0 Hes Hin Hno Hld HP HR HN.
  pose proof (cn_floor _ _ _ _ I) as Hfl.
  assert (HO : OR [] c c []) by (constructor; try assumption; apply CstEntText.same_frame_refl).
  pose proof (WV_top _ _ _ HW) as HW'.
  rewrite <- !st_top. rewrite evl_top.
  rewrite inline_item_elem in Hin, Hno. rewrite inline_entries_nlevel in Hin.
  destruct (inline_entries tbm false ens) as [[ens' tra]|] eqn:Eat; [|discriminate].
  cbn [E.obind fst snd] in Hin, Hno.
  assert (Hm : false = (0 <? ld_depth (c_ld c))) by (rewrite Hld0; reflexivity).
  assert (Hldok : ld_ok (c_ld c)) by (rewrite Hld0; apply ld_ok_init).
  destruct body as [[cs ws2]|]; [|discriminate].
  destruct (inline_items ntbm false cs) as [[itsc trc]|] eqn:Ecs; [|discriminate].
  cbn [E.obind fst snd] in Hin. injection Hin as <- <-.
  destruct (inline_items tbm false cs) as [y|] eqn:Ecs2; [discriminate|].
  destruct (wf_elem_parts4 _ _ _ _ _ Hwf) as (Hn & _ & _ & Hw2 & Hna & Hcs).
  pose proof (usteps_list_le D HD false cs Hcs) as Hst.
  rewrite ld_run_app in Hld. destruct (ld_run ld_init tra) as [lda|] eqn:Ela; [|discriminate].
  rewrite <- Hld0 in Ela.
  destruct (elem_start_c text D HD decls es Henv Hdecls Hcont E.max_level name ens ws cs ws2 [] false (tlen text) [] p post c c [] []
              entity_levels ens' tra itsc lda Hwf HW' HO (CstEntCText.SemI_nil text) Hm Hldok ltac:(rewrite Hfl; lia) Eat Ela HP HR HN)
    as (c1 & E1 & HO1 & D1 & D2 & Hok1 & Fl1 & HPc & HRc & HNc & HWc).
  rewrite E1. cbn [bind]. unfold parse_content. cbn [CstEntCLex.st s_rest]. rewrite app_nil_r.
  set (post2 := [60; 47] ++ r_qname name ++ ws2 ++ [62] ++ post) in *.
  replace (S (length (r_uitems cs ++ post2)))
    with (usteps_list cs + S (length (r_uitems cs ++ post2) - usteps_list cs))%nat
    by (rewrite app_length in *; clia).
  match goal with |- context [parse_content_loop _ _ _ _ 0 ?s c1] =>
    replace s with (CstEntCLex.st (tlen text) [] (p + 1 + blen (r_qname name) + blen (flat_map r_entry ens) + blen ws + 1) (r_uitems cs ++ post2))
      by (unfold CstEntCLex.st; rewrite app_nil_r; reflexivity) end.
  rewrite Hld0 in D2.
  apply (D15fail_all text Hvalid D HD decls es Henv Hdecls Hcont E.max_level cs _ false (tlen text) [] _ _ (sh c1) c1 [] [] entity_levels 0 _ itsc trc ld'
           Hcs Hna HWc ltac:(reflexivity) HO1 (CstEntCText.SemI_nil text)); try assumption.
  - destruct cs; [exact Logic.I|]. intros _. reflexivity.
  - rewrite D1, D2. reflexivity.
  - rewrite D1, D2. reflexivity.
  - rewrite D1. exact Hok1.
  - rewrite D1. exact Hld.
Qed.

End RootD.

(* ------------------------------------------------------------------------------------------ *)
(* from the root element on                                                                   *)
(* ------------------------------------------------------------------------------------------ *)
Section TailD.
Variable text : bytes.
Hypothesis Hvalid : valid_utf8_b text = true.
Variable D : list Scope.binding.
Hypothesis HD : forall l, NoDup l -> incl l D -> N.of_nat (length l) <= 65535.
Variable decls : list xdecl.
Variable es : list entity.
Hypothesis Henv : Forall2 (uent_ok text) (map pd decls) es.
Hypothesis Hdecls : Forall udecl_okc (map pd decls).
Hypothesis Hcont : Forall decl_cont decls.

Notation CIn := (CstNsBuild.CIn text D).
Notation WV := (CstULex.WV text).
Notation node_room := CstNsItems.node_room.
Notation attr_room := CstNsItems.attr_room.
Notation ns_room := CstNsItems.ns_room.
Notation tbm := (level decls E.max_level).
Notation ntbm := (nlevel decls E.max_level).

Lemma tail_d6 name ens ws body rest p3 c3 root' tr :
  let root := IElem name ens ws body in
  wf_uitem_s false root = true ->
  inline_item ntbm false root = Some ([root'], tr) -> inline_item tbm false root = None ->
  limits_ok tr = true -> provisos_item root' = true ->
  CstFullTree.ns_oks [] (bden root') = true -> incl (NT.items_decls (bden root')) D ->
  WV p3 (r_item root ++ rest) ->
  CIn [] c3 -> c_after_text c3 = [] -> c_ld c3 = ld_init -> c_entities c3 = es ->
  node_room c3 (NT.nsizes (bden root')) ->
  attr_room c3 (NT.nattrs_items (bden root')) -> ns_room c3 (NT.ns_costs [] (bden root')) ->
  exists pos, doc_tail text (CstLex.st text p3 (r_item root ++ rest)) c3 = Err (InvalidAttributeValue pos).
Proof.
  intros root H5 Hinl Hno Hlim Hprov Hnsr HinD HWg I3 A3 Hld3 Kes3 NR AR SR.
  destruct (wf_elem_parts4 _ _ _ _ _ H5) as (Hn & _).
  destruct (root_starts epieces name ens ws body Hn) as (n & l & El & Hnsp & H33 & H63). fold root in El.
  pose proof (WV_W _ _ _ HWg) as HWg'.
  unfold CstFullS5.doc_tail. cbv zeta.
  assert (Hsp : stops byte_is_space (r_item root ++ rest)) by (rewrite El; reflexivity).
  rewrite (CstDoc.skip_spaces_none text) by (try exact HWg'; exact Hsp).
  assert (Ecb : match curr_byte_opt (CstLex.st text p3 (r_item root ++ rest)) with Some x => x =? 60 | None => false end = true).
  { revert HWg'. rewrite El. cbn [app]. intros HWg'. rewrite curr_byte_opt_st by exact HWg'. reflexivity. }
  rewrite Ecb.
  destruct (detector_complete_gen tr 0 0 Hlim) as [ld' Hrun]. change (DetectorProofs.mk 0 0) with ld_init in Hrun.
  assert (Hnt : is_btext root' = false).
  { unfold root in Hinl. rewrite inline_item_elem in Hinl. destruct (inline_entries ntbm false ens) as [[a' ta]|]; [|discriminate].
    cbn [E.obind] in Hinl. destruct body as [[cs w2]|].
    - destruct (inline_items ntbm false cs) as [[b0 tb0]|]; [|discriminate]. cbn [E.obind] in Hinl. injection Hinl as <- _. reflexivity.
    - injection Hinl as <- _. reflexivity. }
  assert (Ew : walk [] [root'] = ([root'], [])) by (rewrite walk_single by exact Hnt; reflexivity).
  destruct (root_d text Hvalid D HD decls es Henv Hdecls Hcont name ens ws body p3 rest c3 [root'] tr ld' H5 HWg I3 A3 Hld3 Kes3 Hinl Hno Hrun)
    as (pos & E4).
  { split; rewrite Ew; cbn [fst snd forallb]; [rewrite Hprov; reflexivity|reflexivity]. }
  { split; [|split]; rewrite Ew; cbn [fst snd app flush all_marks forallb CstFullTree.dens]; rewrite ?app_nil_r.
    - exact NR.
    - exact AR.
    - exact SR. }
  { split; rewrite Ew; cbn [fst CstFullTree.dens]; rewrite app_nil_r; assumption. }
  fold root in E4. rewrite E4. cbn [bind]. eauto.
Qed.

End TailD.

(* ------------------------------------------------------------------------------------------ *)
(* parse_document and parse                                                                   *)
(* ------------------------------------------------------------------------------------------ *)
Section DocD.
Variable d : S6.doc.
Hypothesis Hwf : wf_syntax6 d = true.

Notation decls := (S6.decls d).
Notation main := (S6.x_main d).
Notation text := (S6.render d).
Notation tbm := (level decls E.max_level).
Notation ntbm := (nlevel decls E.max_level).
Notation L6 := (CstFullS6Doc.L6 d).

Variable D : list Scope.binding.
Hypothesis HD : forall l, NoDup l -> incl l D -> N.of_nat (length l) <= 65535.

Notation CIn := (CstNsBuild.CIn text D).
Notation node_room := CstNsItems.node_room.
Notation attr_room := CstNsItems.attr_room.
Notation ns_room := CstNsItems.ns_room.

Lemma dparse_document6 (dtd : bool) root' tr (c0 : context) :
  (S6.has_dtd d = true -> dtd = true) ->
  inline_item ntbm false (d_root main) = Some ([root'], tr) -> inline_item tbm false (d_root main) = None ->
  limits_ok tr = true -> provisos_item root' = true ->
  CstFullTree.ns_oks [] (bden root') = true -> incl (NT.items_decls (bden root')) D ->
  CIn [] c0 -> c_entities c0 = [] -> c_ld c0 = ld_init -> c_after_text c0 = [] ->
  node_room c0 (NT.nsizes (L6 root')) -> attr_room c0 (NT.nattrs_items (bden root')) ->
  ns_room c0 (NT.ns_costs [] (bden root')) ->
  exists pos, parse_document text context (tok_ev text) dtd c0 = Err (InvalidAttributeValue pos).
Proof.
  intros Hdtd Hinl Hno Hlim Hprov Hnsr HinD I0 Hes0 Hld0 A0 NR AR SR.
  destruct (decls_ok6s d Hwf) as [Hdk Hcont].
  pose proof (text_valid6s d Hwf) as Hval. apply U8.valid_iff_Valid in Hval.
  unfold CstFullS6Doc.L6 in NR. rewrite !nsizes_app in NR.
  destruct (prolog6 d Hwf D HD dtd c0 (NT.nsizes (bden root')) _ _ Hdtd I0 Hes0 Hld0 A0 ltac:(unfold CstNsItems.node_room in *; lia) AR SR)
    as (es & c3 & p3 & name & ens & ws & body & Er & Henv & E & HWg & I3 & A3 & Hld3 & Kes3 & NR3 & AR3 & SR3).
  rewrite E. rewrite Er in Hinl, Hno.
  destruct (s6_sparts d Hwf) as [_ _ _ _ _ _ H5 _]. rewrite Er in H5.
  apply (tail_d6 text Hval D HD decls es Henv Hdk Hcont name ens ws body _ p3 c3 root' tr H5 Hinl Hno Hlim Hprov Hnsr HinD HWg I3 A3 Hld3 Kes3 NR3 AR3 SR3).
Qed.

End DocD.

Lemma ninline6_root d cN tr : ninline6 d = Some (cN, tr) ->
  exists root', inline_item (nlevel (S6.decls d) E.max_level) false (d_root (S6.x_main d)) = Some ([root'], tr) /\ cN = cI d root'.
Proof.
  unfold ninline6, inline_with4. change (S4.x_main (S6.core d)) with (S6.x_main d). intros H.
  destruct (inline_item (nlevel (S6.decls d) E.max_level) false (d_root (S6.x_main d))) as [[its tr0]|]; [|discriminate].
  cbn [E.obind fst snd] in H. destruct its as [|root' [|x its]]; try discriminate. injection H as <- <-.
  exists root'. split; reflexivity.
Qed.

(* The finding, pinned to its variant: a document that is well-formed but for D15 -- syntax, a naive unfolding cN within the
   limits of the detector, the line-end proviso, the namespace rules and the size hypotheses on cN -- and that the inlining
   of the spec refuses is rejected with InvalidAttributeValue (at the first attribute value, in reading order, of an
   element inside the value of an entity with markup in which &lt; is written). *)
Theorem d15_rejected : forall (d : S6.doc) (opt : options) (cN : CstFull.doc bpieces) (tr : list Detector.lop),
  wf_syntax6 d = true -> ninline6 d = Some (cN, tr) -> S4.inline (S6.core d) = None ->
  Detector.within_limits 10 255 0 0 tr = true ->
  provisos_item (d_root cN) = true ->
  forallb (ns_ok []) (den bmeaning (d_root cN)) = true ->
  (S6.has_dtd d = true -> allow_dtd opt = true) ->
  N.of_nat (length (usem6 d cN)) < nodes_limit opt ->
  N.of_nat (length (usem6 d cN)) < u32_max ->
  N.of_nat (vattrs (usem6 d cN)) < u32_max ->
  CstFull.distinct_decls_le bmeaning cN (N.to_nat 65535) ->
  1 + N.of_nat (CstFull.ns_cost bmeaning cN) <= u32_max ->
  exists pos, parse (S6.render d) opt = Err (InvalidAttributeValue pos).
Proof.
  intros d opt cN tr Hwf Hinl Hspec Hlim Hprov Hns Hdtd Hn Hmax Hattr Hdist Hcost. set (text := S6.render d).
  destruct (ninline6_root d cN tr Hinl) as (root' & Hroot & ->). cbn [cI d_root] in Hprov, Hns.
  assert (Hno : inline_item (level (S6.decls d) E.max_level) false (d_root (S6.x_main d)) = None).
  { destruct (inline_item (level (S6.decls d) E.max_level) false (d_root (S6.x_main d))) as [x|] eqn:E0; [exfalso|reflexivity].
    pose proof (mono_item _ _ (level_nlevel (S6.decls d) E.max_level) false false (fun Z => Z) _ _ E0) as X. rewrite Hroot in X. injection X as <-.
    rewrite inline_with4_table in Hspec. unfold inline_with4 in Hspec.
    change (S4.table (S6.core d)) with (level (S6.decls d) E.max_level) in Hspec. change (S4.x_main (S6.core d)) with (S6.x_main d) in Hspec.
    rewrite E0 in Hspec. discriminate Hspec. }
  pose proof (usem_all6 d Hwf root') as Esem.
  unfold CstFull.distinct_decls_le, doc_decls in Hdist. unfold CstFull.ns_cost in Hcost. cbn [d_root cI] in Hdist, Hcost.
  set (D := flat_map CstNs.item_decls (bden root')) in *.
  assert (HD : forall l, NoDup l -> incl l D -> N.of_nat (length l) <= 65535).
  { intros l N1 N2. pose proof (Hdist l N1 N2). lia. }
  assert (Hsz : NT.nsizes (L6 d root') = N.of_nat (length (usem6 d (cI d root')))).
  { rewrite Esem, CstFullMain.sem_items_len. reflexivity. }
  assert (Hat : NT.nattrs_items (bden root') = vattrs (usem6 d (cI d root'))).
  { rewrite Esem, CstFullS4Main.vattrs_sems. unfold L6.
    destruct (s6_sparts d Hwf) as [_ _ H1 _ H3 _ _ H6].
    destruct (regroup_wf_s epieces M0 _ _ H1 H3) as [Q1 _].
    destruct (pairs_dens_s epieces M0 _ Q1) as (_ & _ & X1 & _). destruct (pairs_dens_s epieces M0 _ H6) as (_ & _ & X2 & _).
    pose proof (CstFullS6Main.misc_nattrs _ (prolog_misc_s d Hwf)) as X0.
    assert (G : forall x y z w : nat, x = 0%nat -> y = 0%nat -> w = 0%nat -> (x + (y + (z + w)) = z)%nat) by (intros; lia).
    rewrite !nattrs_items_app. symmetry. apply G; [exact X0|exact X1|exact X2]. }
  rewrite ns_oks_forallb in Hns.
  destruct (dparse_document6 d Hwf D HD (allow_dtd opt) root' tr (CstNsMain.init_ctx text opt) Hdtd Hroot Hno Hlim Hprov Hns)
    as (pos & E).
  { unfold D. rewrite items_decls_flat. apply incl_refl. }
  { apply (CstNsMain.init_ctx_CIn text D opt). }
  { reflexivity. } { reflexivity. } { reflexivity. }
  { unfold CstNsItems.node_room. cbn [CstNsMain.init_ctx c_doc c_opt d_nodes]. rewrite Hsz. unfold len_N. cbn [length]. lia. }
  { unfold CstNsItems.attr_room. cbn [CstNsMain.init_ctx c_doc d_attrs]. rewrite Hat. unfold len_N. cbn [length]. lia. }
  { unfold CstNsItems.ns_room. cbn [CstNsMain.init_ctx c_doc d_ns_tree]. unfold len_N. cbn [length]. rewrite ns_costs_sum. lia. }
  exists pos. fold text in E. unfold parse. rewrite (CstNsMain.init_context_eq text opt). cbn [bind].
  unfold tok_ev in E. rewrite E. reflexivity.
Qed.

Print Assumptions root_d.
Print Assumptions dparse_document6.
Print Assumptions d15_rejected.
