(* Proofs/KnownFindingsD15.v -- the known finding D15 (property C07) as theorems about the model.
   How it relates to the pinned theorems: parse_render_sem_full_s6 / hoist_prolog_insensitive_full_s6 say "documents with the
   same meaning -- however the content is distributed over entities -- give the same tree", where the meaning is defined by
   inlining on the abstract syntax.  The inlining of the spec (Spec/CstEnt.v [inline_ps], used by Spec/CstFullS4.v / S6) REFUSES,
   by name, the reference &lt; written in an attribute value of an element that stands inside the value of
   an entity with markup ([for_attr && in_ent && is_lt_ref]): the crate answers InvalidAttributeValue there (its test
   entity_err_009 pins this), although in XML the inlined document is the same.  So the full statement -- with the NAIVE inlining
   [ninline6], which is the inlining of the spec without that one test -- is REFUTED by a witness ([d15_refuted]); the naive
   inlining extends the spec's ([ninline_extends]), the documents on which they differ are the class [d15_class], and the pinned
   capstone theorems are exactly the half "outside the class" ([d15_outside_class], [hoist_outside_d15]). *)
From Coq Require Import Ascii String.
From Coq Require Import List NArith PeanoNat Bool Lia ZifyBool ZifyN ZifyNat.
Import ListNotations.
From RX Require Import Generated.
From RX.Model Require Import Base Stream Tokenizer Doc Builder Parse.
From RX.Spec Require Cst CstText CstEnt Detector CstNs CstU.
From RX.Spec Require Import Text CstFull CstFullS4 CstFullS6.
From RX.Proofs Require Import CstNsView CstFullMain CstFullTree CstFullS4Sem CstFullS6Sanity CstFullS6Main.
From RX.Proofs Require Import CstTextSem CstEntSem CstFullS4Attr.
From RX.Proofs Require Import CstFullRejSem CstFullRejMain.
From RX.Proofs Require Import CstLex CstULex TextMachine CstTextLex CstTextBuild CstFullS2Lex CstFullS3Sem CstFullS3Text CstFullS3Attr.
From RX.Proofs Require CstEntAttr PositionProofs.
Open Scope N_scope.

(* ------------------------------------------------------------------------------------------ *)
(* the naive inlining: that of Spec/CstFullS4.v, the items of a markup value inlined as if they *)
(* stood in the document (in_ent = false: the test for D15 never fires)                       *)
(* ------------------------------------------------------------------------------------------ *)
Definition ninline_value (tb : ytable) (v : xvalue) : option yval :=
  match v with
  | XText ps =>
    E.obind (E.inline_ps (ptable tb) false true (enc_epieces ps)) (fun x =>
    Some {| y_items := [@IText bpieces (fst x)]; y_pieces := Some (fst x); y_trace := snd x |})
  | XContent its =>
    E.obind (inline_items tb false its) (fun x =>
    Some {| y_items := fst x; y_pieces := None; y_trace := snd x |})
  end.
Fixpoint nlevel (decls : list xdecl) (k : nat) : ytable :=
  match k with
  | O => map (fun e => (utf8s (x_name e), None)) decls
  | S k' => let tb := nlevel decls k' in map (fun e => (utf8s (x_name e), ninline_value tb (x_value e))) decls
  end.
Definition ninline6 (d : S6.doc) : option (CstFull.doc bpieces * list Detector.lop) :=
  inline_with4 (nlevel (S6.decls d) E.max_level) (S6.core d).

Definition is_some {A} (o : option A) : bool := match o with Some _ => true | None => false end.

(* the class of D15: the naive inlining is defined, the inlining of the spec is not -- i.e. the expansion of the body reaches
   an attribute value, of an element inside the value of an entity with markup, in which a reference to '<' is written *)
Definition d15_class (d : S6.doc) : bool := is_some (ninline6 d) && negb (is_some (S4.inline (S6.core d))).

(* ------------------------------------------------------------------------------------------ *)
(* the naive inlining extends the inlining of the spec                                        *)
(* ------------------------------------------------------------------------------------------ *)
Definition TLe (t1 t2 : ytable) : Prop := forall n v, ylookup t1 n = Some v -> ylookup t2 n = Some v.

Section Mono.
Variables t1 t2 : ytable.
Hypothesis Ht : TLe t1 t2.

Lemma mono_ps fa ie ie' : (ie' = true -> ie = true) -> forall ps x,
  E.inline_ps (ptable t1) fa ie ps = Some x -> E.inline_ps (ptable t2) fa ie' ps = Some x.
Proof.
  intros Hie. induction ps as [|p ps IH]; intros x H; [exact H|]. cbn [E.inline_ps] in *. destruct p as [q|n].
  - destruct (fa && ie && E.is_lt_ref q) eqn:E1; [discriminate|].
    assert (E2 : fa && ie' && E.is_lt_ref q = false).
    { destruct fa, ie', (E.is_lt_ref q); try reflexivity. rewrite (Hie eq_refl) in E1. discriminate. }
    rewrite E2. destruct (E.inline_ps (ptable t1) fa ie ps) as [y|]; [|discriminate]. rewrite (IH _ eq_refl). exact H.
  - rewrite lookup_ptable in *. destruct (ylookup t1 n) as [v|] eqn:El; [|discriminate]. rewrite (Ht n v El).
    cbn [E.obind E.x_pieces] in *. destruct (y_pieces v) as [qv|]; [|discriminate]. cbn [E.obind] in *.
    destruct (fa && existsb E.is_lt_ref qv); [discriminate|].
    destruct (E.inline_ps (ptable t1) fa ie ps) as [y|]; [|discriminate]. rewrite (IH _ eq_refl). exact H.
Qed.

Lemma mono_run ie ie' : forall ps x, inline_run t1 ie ps = Some x -> inline_run t2 ie' ps = Some x.
Proof.
  induction ps as [|p ps IH]; intros x H; [exact H|]. cbn [inline_run] in *. destruct p as [q|n].
  - destruct (inline_run t1 ie ps) as [y|]; [|discriminate]. rewrite (IH _ eq_refl). exact H.
  - destruct (ylookup t1 n) as [v|] eqn:El; [|discriminate]. rewrite (Ht n v El). cbn [E.obind] in *.
    destruct (inline_run t1 ie ps) as [y|]; [|discriminate]. rewrite (IH _ eq_refl). exact H.
Qed.

Lemma mono_entry ie ie' e x : (ie' = true -> ie = true) -> inline_entry t1 ie e = Some x -> inline_entry t2 ie' e = Some x.
Proof.
  intros Hie. destruct e as [l n v|l p v]; cbn [inline_entry]; intros H;
    (destruct (E.inline_ps (ptable t1) true ie (enc_epieces v)) as [y|] eqn:E1; [|discriminate]);
    rewrite (mono_ps true ie ie' Hie _ _ E1); exact H.
Qed.

Lemma mono_entries ie ie' : (ie' = true -> ie = true) -> forall ens x, inline_entries t1 ie ens = Some x -> inline_entries t2 ie' ens = Some x.
Proof.
  intros Hie. induction ens as [|e r IH]; intros x H; [exact H|]. cbn [inline_entries] in *.
  destruct (inline_entry t1 ie e) as [y|] eqn:E1; [|discriminate]. rewrite (mono_entry ie ie' e y Hie E1). cbn [E.obind] in *.
  destruct (inline_entries t1 ie r) as [z|]; [|discriminate]. rewrite (IH _ eq_refl). exact H.
Qed.

Lemma mono_items_of ie ie' cs : Forall (fun i => forall x, inline_item t1 ie i = Some x -> inline_item t2 ie' i = Some x) cs ->
  forall x, inline_items t1 ie cs = Some x -> inline_items t2 ie' cs = Some x.
Proof.
  induction 1 as [|i r Hi _ IH]; intros x H; [exact H|]. cbn [inline_items] in *.
  destruct (inline_item t1 ie i) as [y|]; [|discriminate]. rewrite (Hi _ eq_refl). cbn [E.obind] in *.
  destruct (inline_items t1 ie r) as [z|]; [|discriminate]. rewrite (IH _ eq_refl). exact H.
Qed.

Lemma mono_item ie ie' : (ie' = true -> ie = true) -> forall i x, inline_item t1 ie i = Some x -> inline_item t2 ie' i = Some x.
Proof.
  intros Hie i. induction i as [n a w|n a w cs w2 IH|ps|bs|t s v] using fitem_ind; intros x H.
  - rewrite inline_item_elem in *. destruct (inline_entries t1 ie a) as [y|] eqn:E1; [|discriminate].
    rewrite (mono_entries ie ie' Hie a y E1). exact H.
  - rewrite inline_item_elem in *. destruct (inline_entries t1 ie a) as [y|] eqn:E1; [|discriminate].
    rewrite (mono_entries ie ie' Hie a y E1). cbn [E.obind] in *.
    destruct (inline_items t1 ie cs) as [z|] eqn:E2; [|discriminate]. rewrite (mono_items_of ie ie' cs IH z E2). exact H.
  - cbn [inline_item] in *. apply (mono_run ie ie' _ _ H).
  - exact H.
  - exact H.
Qed.

Lemma mono_items ie ie' : (ie' = true -> ie = true) -> forall cs x, inline_items t1 ie cs = Some x -> inline_items t2 ie' cs = Some x.
Proof. intros Hie cs. apply mono_items_of. apply Forall_forall. intros i _. apply (mono_item ie ie' Hie). Qed.

Lemma mono_value v x : inline_value t1 v = Some x -> ninline_value t2 v = Some x.
Proof.
  destruct v as [ps|its]; cbn [inline_value ninline_value]; intros H.
  - destruct (E.inline_ps (ptable t1) false true (enc_epieces ps)) as [y|] eqn:E1; [|discriminate].
    rewrite (mono_ps false true true (fun Z => Z) _ _ E1). exact H.
  - destruct (inline_items t1 true its) as [y|] eqn:E1; [|discriminate].
    rewrite (mono_items true false ltac:(discriminate) _ _ E1). exact H.
Qed.

End Mono.

Lemma ylookup_nlevel decls k n :
  ylookup (nlevel decls k) n =
  match k with
  | O => None
  | S k' => match first_xdecl decls n with Some d => ninline_value (nlevel decls k') (x_value d) | None => None end
  end.
Proof.
  destruct k as [|k']; cbn [nlevel].
  - rewrite (ylookup_map (fun _ => None)). destruct (first_xdecl decls n); reflexivity.
  - apply (ylookup_map (fun e => ninline_value (nlevel decls k') (x_value e))).
Qed.

Lemma level_nlevel decls : forall k, TLe (level decls k) (nlevel decls k).
Proof.
  induction k as [|k IH]; intros n v H; rewrite ylookup_level in H; rewrite ylookup_nlevel; [discriminate|].
  destruct (first_xdecl decls n) as [d|]; [|discriminate]. apply (mono_value _ _ IH _ _ H).
Qed.

Theorem ninline_extends : forall (d : S6.doc) x, S4.inline (S6.core d) = Some x -> ninline6 d = Some x.
Proof.
  intros d x H. rewrite inline_with4_table in H. unfold ninline6, inline_with4 in *.
  change (S4.table (S6.core d)) with (level (S6.decls d) E.max_level) in H.
  destruct (inline_item (level (S6.decls d) E.max_level) false (d_root (S4.x_main (S6.core d)))) as [y|] eqn:E1; [|discriminate].
  rewrite (mono_item _ _ (level_nlevel (S6.decls d) E.max_level) false false (fun Z => Z) _ _ E1). exact H.
Qed.

(* ------------------------------------------------------------------------------------------ *)
(* (b) the pinned theorems are the half outside the class                                     *)
(* ------------------------------------------------------------------------------------------ *)
Theorem d15_outside_class : forall d : S6.doc, S6.wf_doc d = true -> d15_class d = false.
Proof.
  intros d H. rewrite wf_doc6_split in H. apply andb_true_iff in H. destruct H as [_ H]. unfold d15_class.
  destruct (S4.inline (S6.core d)) as [x|]; [|discriminate]. cbn [is_some negb]. apply andb_false_r.
Qed.

(* documents with the same meaning OUTSIDE the D15 class give the same tree: hoist_prolog_insensitive_full_s6, read that way *)
Theorem hoist_outside_d15 : forall (d1 d2 : S6.doc) opt,
  S6.wf_doc d1 = true -> S6.wf_doc d2 = true -> allow_dtd opt = true -> S6.sem d1 = S6.sem d2 ->
  N.of_nat (length (S6.sem d1)) < nodes_limit opt -> N.of_nat (length (S6.sem d1)) < u32_max ->
  N.of_nat (S6.nattrs d1) < u32_max ->
  S6.distinct_decls_le d1 (N.to_nat 65535) -> S6.distinct_decls_le d2 (N.to_nat 65535) ->
  1 + N.of_nat (S6.ns_cost d1) <= u32_max -> 1 + N.of_nat (S6.ns_cost d2) <= u32_max ->
  d15_class d1 = false /\ d15_class d2 = false /\
  exists x1 x2, parse (S6.render d1) opt = Ok x1 /\ parse (S6.render d2) opt = Ok x2 /\
                view (S6.render d1) x1 = view (S6.render d2) x2.
Proof.
  intros d1 d2 opt W1 W2 Hdtd E L Mx At D1 D2 C1 C2.
  split; [apply d15_outside_class; exact W1|]. split; [apply d15_outside_class; exact W2|].
  apply hoist_prolog_insensitive_full_s6; assumption.
Qed.

(* ------------------------------------------------------------------------------------------ *)
(* (a) the full statement is refuted                                                          *)
(* ------------------------------------------------------------------------------------------ *)
Definition lt_attr : uentry := @EAttr epieces (layb [32] [] [] 39) (qn [] (b "a")) [E.EP (T.PPredef T.Lt)].
Definition p_elem : uitem := @IElem epieces (qn [] (b "p")) [lt_attr] [] None.

(* <!DOCTYPE e [<!ENTITY e "<p a='&lt;'/>">]><e>&e;</e> *)
Definition d15_doc : S6.doc :=
  {| S6.x_bom := false; S6.x_decl := None;
     S6.x_dtd := Some {| S6.g_ws0 := []; S6.g_before := [];
                         S6.g_dtd := {| z_ws1 := [32]; z_name := b "e"; z_ws2 := [32]; z_ext := None;
                                        z_subset := Some {| zu_decls := [XEntity {| X4.x_ws0 := []; X4.x_ws1 := [32]; X4.x_name := b "e"; X4.x_ws2 := [32];
                                                                                    X4.x_quote := 34; X4.x_value := X4.XContent [p_elem]; X4.x_ws3 := [] |}];
                                                            zu_ws3 := []; zu_ws4 := [] |} |} |};
     S6.x_main := {| d_before := []; d_ws0 := []; d_root := IElem (qn [] (b "e")) [] [] (Some ([tx [rf (b "e")]], [])); d_after := []; d_ws_end := [] |} |}.
(* <e><p a='&lt;'/></e> *)
Definition d15_inlined : S6.doc :=
  {| S6.x_bom := false; S6.x_decl := None; S6.x_dtd := None;
     S6.x_main := {| d_before := []; d_ws0 := []; d_root := IElem (qn [] (b "e")) [] [] (Some ([p_elem], [])); d_after := []; d_ws_end := [] |} |}.

Definition d15_text : bytes := b "<!DOCTYPE e [<!ENTITY e ""<p a='&lt;'/>"">]><e>&e;</e>".
Definition d15_inlined_text : bytes := b "<e><p a='&lt;'/></e>".

Definition nsem6 (d : S6.doc) : option (list CstNs.vnode) :=
  match ninline6 d with Some (cT, _) => Some (usem6 d cT) | None => None end.

Theorem d15_refuted :
  exists (c1 c2 : S6.doc) (x2 : document) (pos : textpos),
    S6.render c1 = d15_text /\ S6.render c2 = d15_inlined_text /\
    wf_syntax6 c1 = true /\ S6.wf_doc c2 = true /\
    nsem6 c1 = Some (S6.sem c2) /\                                                 (* the same (naively) inlined meaning *)
    parse (S6.render c2) opt_dtd = Ok x2 /\ view (S6.render c2) x2 = Some (S6.sem c2) /\
    parse (S6.render c1) opt_dtd = Err (InvalidAttributeValue pos) /\
    d15_class c1 = true.
Proof.
  exists d15_doc, d15_inlined.
  destruct (parse (S6.render d15_inlined) opt_dtd) as [x2| | |] eqn:E2; [|vm_compute in E2; discriminate E2..].
  assert (E1 : exists pos, parse (S6.render d15_doc) opt_dtd = Err (InvalidAttributeValue pos)) by (vm_compute; eexists; reflexivity).
  destruct E1 as [pos E1]. rewrite E1.
  exists x2, pos. split; [vm_compute; reflexivity|]. split; [vm_compute; reflexivity|]. split; [vm_compute; reflexivity|].
  split; [vm_compute; reflexivity|]. split; [vm_compute; reflexivity|]. split; [reflexivity|].
  split; [|split; [reflexivity|vm_compute; reflexivity]].
  destruct (parse_render_sem_full_s6 d15_inlined opt_dtd) as (x & P & V).
  - vm_compute. reflexivity.
  - reflexivity.
  - vm_compute. reflexivity.
  - vm_compute. reflexivity.
  - vm_compute. reflexivity.
  - unfold S6.distinct_decls_le, X4.S4.distinct_decls_le.
    match goal with |- match ?y with _ => _ end => let z := eval vm_compute in y in change y with z end.
    apply distinct_by_count.
    match goal with |- (length ?l <= _)%nat => let n := eval vm_compute in (length l) in change (length l) with n end. lia.
  - vm_compute. intros H. discriminate H.
  - rewrite E2 in P. injection P as <-. exact V.
Qed.

(* other content around the reference, and the element two entities deep *)
Definition d15_variant (v : list E.epiece) (deep : bool) : S6.doc :=
  let el_ := @IElem epieces (qn [] (b "p")) [@EAttr epieces (layb [32] [] [] 39) (qn [] (b "a")) v] [] None in
  with_sub ([XEntity (xd (b "e") (X4.XContent [el_]))] ++ (if deep then [XEntity (xd (b "o") (X4.XContent [el [] (b "w") [] [tx [rf (b "e")]]]))] else []))
           (el [] (b "r") [] [tx [lit (b "t"); rf (if deep then b "o" else b "e")]]).
Definition rejected_iav (c : S6.doc) : bool :=
  match parse (S6.render c) opt_dtd with Err (InvalidAttributeValue _) => true | _ => false end.
Example d15_family :
  forallb (fun c => wf_syntax6 c && d15_class c && rejected_iav c)
    [d15_variant [E.EP (T.PPredef T.Lt)] false; d15_variant [lit (b "x"); E.EP (T.PPredef T.Lt); lit (b "y")] false;
     d15_variant [E.EP (T.PPredef T.Lt)] true] = true.
Proof. vm_compute. reflexivity. Qed.
(* only the spelling &lt; is concerned: a CHARACTER reference to '<' in the value of an entity is expanded when the declaration
   is read (XML 4.4.5), the replacement text then contains a literal '<' inside an attribute value, and the syntax of the spec
   excludes it ([wf_syntax6] fails) -- rightly *)
Example d15_charref_not_wf :
  forallb (fun c => negb (wf_syntax6 c) && rejected_iav c)
    [d15_variant [E.EP (T.PCharRef false (b "60"))] false; d15_variant [E.EP (T.PCharRef true (b "3C"))] false] = true.
Proof. vm_compute. reflexivity. Qed.
(* ... while the same references to other characters are fine *)
Example d15_neighbours :
  forallb (fun c => S6.wf_doc c && negb (d15_class c))
    [d15_variant [E.EP (T.PPredef T.Gt)] false; d15_variant [E.EP (T.PPredef T.Amp)] true; d15_variant [E.EP (T.PCharRef false (b "62"))] false] = true.
Proof. vm_compute. reflexivity. Qed.

(* ------------------------------------------------------------------------------------------ *)
(* (c) the mechanism, at the level of one attribute value                                     *)
(* ------------------------------------------------------------------------------------------ *)
(* The test in the normalisation of attribute values is "are we inside the expansion of an entity" (depth > 0), which cannot
   tell "inside the VALUE of a character-data entity used in this attribute" (where '<' must be refused) from "inside an element
   that stands in the value of an entity with markup" (where the attribute is an ordinary one): whenever an attribute value
   is normalised at positive depth and &lt; follows literal text, the answer is InvalidAttributeValue -- whatever follows. *)
Section Mechanism.
Variable text : bytes.
Hypothesis Hvalid : valid_utf8_b text = true.

Lemma err_from_valid {A} p mk : exists tp, @err_from text A p mk = Err (mk tp).
Proof.
  unfold err_from, gen_text_pos_from, gen_text_pos_at.
  assert (Hle : N.min p (tlen text) <= tlen text) by lia.
  rewrite (PositionProofs.valid_floor_boundary text _ Hvalid Hle).
  pose proof (PositionProofs.floor_boundary_fuel_le text 4 (N.min p (tlen text))) as Hf. fold (floor_boundary text (N.min p (tlen text))) in Hf.
  replace (tlen text <? floor_boundary text (N.min p (tlen text))) with false by lia. cbn [orb negb bind].
  eexists. reflexivity.
Qed.

Lemma d15_mechanism vs (bs rest more : bytes) (c : context) :
  CstULex.WV text vs (bs ++ [38; 108; 116; 59] ++ rest ++ more) ->
  forallb (fun x => negb (x =? 38) && negb (x =? 60)) bs = true -> U8.Valid bs ->
  0 < ld_depth (c_ld c) ->
  exists pos, normalize_attribute text (sl vs (vs + blen (bs ++ [38; 108; 116; 59] ++ rest))) c = Err (InvalidAttributeValue pos).
Proof.
  intros HWv Hb Hvb Hd. pose proof (WV_W _ _ _ HWv) as HW.
  set (val := bs ++ [38; 108; 116; 59] ++ rest) in *.
  assert (HW' : CstLex.W text vs (val ++ more)) by (unfold val; rewrite <- !app_assoc; exact HW).
  unfold normalize_attribute. cbv zeta. rewrite (CstLex.W_slice _ _ _ _ HW').
  assert (En : existsb (fun x => (x =? 38) || (x =? 9) || (x =? 10) || (x =? 13)) val = true).
  { unfold val. rewrite existsb_app. apply orb_true_iff. right. reflexivity. }
  rewrite En. unfold entity_levels. rewrite norm_attr_lvl_unfold. cbn [sl sl_start sl_end].
  rewrite (stream_from_substr_W text vs val more HW'). cbn [bind].
  set (e := vs + blen val).
  pose proof (CstLex.W_le _ _ _ (CstLex.W_app _ _ _ _ HW')) as Hle. fold e in Hle.
  assert (Ee : vs + blen bs + 4 + blen rest = e) by (unfold e, val; rewrite !blen_app; change (blen [38; 108; 116; 59]) with 4; lia).
  cbn [sst s_rest]. unfold val at 2. rewrite <- !app_assoc.
  replace (S (length (val ++ more))) with (length bs + S (length ([38; 108; 116; 59]%N ++ rest ++ more)))%nat
    by (unfold val; rewrite !app_length; cbn [length]; lia).
  destruct (CstEntAttr.aloop_lit text (c_entities c) (S (N.to_nat ld_max_depth)) (c_ld c) e bs vs ([38; 108; 116; 59] ++ rest ++ more) tb_new
              (S (length ([38; 108; 116; 59]%N ++ rest ++ more))) Hb ltac:(lia) ltac:(right; eexists; reflexivity)) as (t1 & _ & E1).
  rewrite E1. clear E1.
  pose proof (WV_app _ _ _ _ HWv Hvb) as HWv1.
  pose proof (cref_predef_u text e (vs + blen bs) T.Lt (rest ++ more) HWv1 ltac:(change (blen (T.r_piece (T.PPredef T.Lt))) with 4; lia) Hle) as Ec.
  cbn [T.r_piece T.predef_char] in Ec. cbn [app] in Ec |- *.
  cbn [attr_loop]. rewrite at_end_sst. replace (e <=? vs + blen bs) with false by lia.
  cbn [curr_byte_unchecked sst s_rest bind]. change (38 =? 38) with true. cbn [negb]. cbv zeta.
  match type of Ec with consume_reference text ?s = _ => match goal with |- context [consume_reference text ?s'] => change s' with s end end.
  rewrite Ec. cbn [bind].
  replace (0 <? ld_depth (c_ld c)) with true by lia.
  change (encode_utf8 60) with [60]. cbn [push_char_bytes_attr]. change (60 =? 60) with true. cbv iota.
  match goal with |- context [err_from text ?a ?m] => destruct (@err_from_valid (text_buffer * loop_detector)%type a m) as [tp E] end.
  rewrite E. cbn [bind]. eauto.
Qed.

End Mechanism.

Print Assumptions ninline_extends.
Print Assumptions d15_outside_class.
Print Assumptions hoist_outside_d15.
Print Assumptions d15_refuted.
Print Assumptions d15_mechanism.
