(* Proofs/CstRangeTDefs.v -- C13 / C18 on the fragment of Spec/CstText.v, part 1: where every node
   and every attribute of an abstract document is written inside its rendering, and what is expected
   to be stored for it.  Everything here is computed from the abstract document alone (no model,
   no proof internals).

   A text run is tokenised SEGMENT by SEGMENT (a segment: a maximal stretch of pieces that are not
   CDATA sections, or one CDATA section); the Text node of the run is appended for the first segment
   and keeps the range of that segment: [run_head_len]. *)
From Coq Require Import List NArith Bool Lia.
Import ListNotations.
From RX.Spec Require Cst.
From RX.Spec Require Import Text CstText.
From RX.Proofs Require Import CstRangeDefs.
Open Scope N_scope.

(* ---- text runs ---- *)
(* the bytes of the leading pieces that are not CDATA sections *)
Fixpoint lead_len (ps : list piece) : N :=
  match ps with
  | [] => 0
  | PCData _ :: _ => 0
  | p :: r => nlen (r_piece p) + lead_len r
  end.
(* the length of the first segment of a run *)
Definition run_head_len (ps : list piece) : N :=
  match ps with
  | PCData bs :: _ => nlen (r_piece (PCData bs))
  | _ => lead_len ps
  end.

Definition has_cr (bs : bytes) : bool := existsb (fun x => x =? 13) bs.

(* what is stored: a slice of the input, or new bytes *)
Inductive tstore :=
| TBorrowed (sp : N * N)
| TOwned (bs : bytes).

(* the run written at offset p *)
Definition text_store (p : N) (ps : list piece) : tstore :=
  match ps with
  | [PLit bs] => if has_cr bs then TOwned (text_sem ps) else TBorrowed (p, p + nlen bs)
  | [PCData bs] => if has_cr bs then TOwned (text_sem ps) else TBorrowed (p + 9, p + 9 + nlen bs)
  | _ => TOwned (text_sem ps)
  end.

(* ---- attribute values ---- *)
Definition has_tlc (bs : bytes) : bool := existsb (fun x => (x =? 9) || (x =? 10) || (x =? 13)) bs.
Definition value_plain (ps : list piece) : bool :=
  match ps with
  | [] => true
  | [PLit bs] => negb (has_tlc bs)
  | _ => false
  end.

(* ---- the items of a document in document order, each with the offset of its first byte ---- *)
Definition tstart_tag_len (name : bytes) (attrs : list attr) (ws_end : bytes) : N :=
  1 + nlen name + nlen (flat_map r_attr attrs) + nlen ws_end + 1.

Fixpoint titems_at (p : N) (i : item) : list (N * item) :=
  match i with
  | IElem name attrs ws_end body =>
    (p, i) ::
    match body with
    | None => []
    | Some (children, _) =>
      (fix go (q : N) (l : list item) : list (N * item) :=
         match l with [] => [] | c :: r => titems_at q c ++ go (q + nlen (r_item c)) r end)
        (p + tstart_tag_len name attrs ws_end) children
    end
  | _ => [(p, i)]
  end.

Fixpoint tbefore_at (p : N) (l : list (item * bytes)) : list (N * item) :=
  match l with
  | [] => []
  | (i, w) :: r => titems_at p i ++ tbefore_at (p + nlen (r_item i) + nlen w) r
  end.
Fixpoint tafter_at (p : N) (l : list (bytes * item)) : list (N * item) :=
  match l with
  | [] => []
  | (w, i) :: r => titems_at (p + nlen w) i ++ tafter_at (p + nlen w + nlen (r_item i)) r
  end.

Definition tbefore_len (l : list (item * bytes)) : N := nlen (flat_map (fun p => r_item (fst p) ++ snd p) l).
Definition troot_offset (c : doc) : N := nlen (d_ws0 c) + tbefore_len (d_before c).

Definition tdoc_items_at (c : doc) : list (N * item) :=
  tbefore_at (nlen (d_ws0 c)) (d_before c) ++ titems_at (troot_offset c) (d_root c)
  ++ tafter_at (troot_offset c + nlen (r_item (d_root c))) (d_after c).

(* ---- (1) the range of every node ---- *)
Definition tspan_of (x : N * item) : N * N :=
  match snd x with
  | IText ps => (fst x, fst x + run_head_len ps)        (* the first segment of the run *)
  | i => (fst x, fst x + nlen (r_item i))
  end.
Definition tspans (c : doc) : list (N * N) := map tspan_of (tdoc_items_at c).

(* ---- (2)/(3) what the node holds ---- *)
Inductive tshape :=
| TSElem (local : N * N)
| TSText (st : tstore)
| TSComment (content : N * N)
| TSPI (target : N * N) (value : option (N * N)).

Definition tshape_of (x : N * item) : tshape :=
  let p := fst x in
  match snd x with
  | IElem name _ _ _ => TSElem (p + 1, p + 1 + nlen name)
  | IText ps => TSText (text_store p ps)
  | IComment bs => TSComment (p + 4, p + 4 + nlen bs)
  | IPI target sep value =>
    TSPI (p + 2, p + 2 + nlen target)
         (match value with
          | [] => None
          | _ => Some (p + 2 + nlen target + nlen sep, p + 2 + nlen target + nlen sep + nlen value)
          end)
  end.
Definition tshapes (c : doc) : list tshape := map tshape_of (tdoc_items_at c).

(* ---- the attributes of all elements, in document order ---- *)
Record taspan := {
  tas_range : N * N;      (* first byte of the name .. closing quote inclusive *)
  tas_qname : N * N;      (* the name *)
  tas_value : N * N;      (* the raw text between the quotes (references not decoded) *)
  tas_store : tstore      (* what is stored as the value *)
}.

Definition taspan_at (q : N) (a : attr) : taspan :=
  let start := q + nlen (a_ws a) in
  let ne := start + nlen (a_name a) in
  let quote := ne + nlen (a_ws1 a) + 1 + nlen (a_ws2 a) in
  let v := nlen (r_pieces (a_value a)) in
  {| tas_range := (start, quote + 1 + v + 1);
     tas_qname := (start, ne);
     tas_value := (quote + 1, quote + 1 + v);
     tas_store := if value_plain (a_value a) then TBorrowed (quote + 1, quote + 1 + v)
                  else TOwned (value_sem (a_value a)) |}.

Fixpoint taspans_at (q : N) (attrs : list attr) : list taspan :=
  match attrs with [] => [] | a :: r => taspan_at q a :: taspans_at (q + nlen (r_attr a)) r end.

Definition titem_aspans (x : N * item) : list taspan :=
  match snd x with
  | IElem name attrs _ _ => taspans_at (fst x + 1 + nlen name) attrs
  | _ => []
  end.
Definition tattr_spans (c : doc) : list taspan := flat_map titem_aspans (tdoc_items_at c).

Definition titem_attrs (x : N * item) : list attr :=
  match snd x with IElem _ attrs _ _ => attrs | _ => [] end.
Definition tdoc_attrs (c : doc) : list attr := flat_map titem_attrs (tdoc_items_at c).

(* below the saturation limits of the stored lengths *)
Definition tattr_small (a : attr) : Prop :=
  nlen (a_name a) <= 65535 /\ nlen (a_ws1 a) + 1 + nlen (a_ws2 a) <= 255.
Definition tattrs_small (c : doc) : Prop := Forall tattr_small (tdoc_attrs c).
