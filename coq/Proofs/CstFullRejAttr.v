(* Proofs/CstFullRejAttr.v -- C09 on the capstone fragment: an attribute value (or the URI of a namespace declaration)
   whose expansion does not pass the loop detector makes [norm_attr_lvl], hence normalize_attribute, fail with
   EntityReferenceLoop -- at any depth, after whatever part of the value has been read (Proofs/CstEntRejAttr.v with
   Unicode names and values: the position reported is a character boundary because what follows it is valid UTF-8). *)
From Coq Require Import Ascii String.
From Coq Require Import List NArith PeanoNat Bool Lia ZifyBool ZifyN ZifyNat Wf_nat.
Import ListNotations.
From RX Require Import Generated.
From RX.Model Require Import Base CharClass Stream Tokenizer Doc Builder Parse.
From RX.Spec Require Cst CstText CstEnt Detector Scope CstU.
From RX.Spec Require Import Text CstFull.
From RX.Proofs Require Import Tactics CstLex CstBuild CstULex TextMachine TextMerge HoistProofs NoPanicUtf8 DetectorProofs.
From RX.Proofs Require Import CstTextSem CstTextLex CstTextBuild CstEntSem CstEntMeaning CstEntRun CstFullLex.
From RX.Proofs Require Import CstFullS2Sem CstFullS2Lex CstFullS2Build CstFullS3Sem CstFullS3Text CstFullS3Attr CstFullS4TSem CstFullS4TText.
From RX.Proofs Require Import CstEntRejSem.
From RX.Proofs Require CstEntText CstEntAttr CstEntBuild CstNsBuild CstEntCBuild CstEntRejAttr.
Open Scope N_scope.

(* the detector refuses: the model reports the loop *)
Lemma enter_fail_u text s ld : is_boundary text (s_pos s) = true -> s_pos s <= tlen text -> ld_enter ld = None ->
  exists pos, (let! l := inc_references text s ld in inc_depth text s l) = Err (EntityReferenceLoop pos).
Proof.
  intros Hb Hs He.
  assert (Herr : forall X, exists pos, @err_at text X s EntityReferenceLoop = Err (EntityReferenceLoop pos)).
  { intros X. unfold err_at, gen_text_pos, gen_text_pos_at. replace (tlen text <? s_pos s) with false by lia.
    rewrite Hb. cbn. eauto. }
  destruct ld as [d r]. unfold ld_enter in He. cbn [ld_depth ld_references] in He.
  unfold inc_references, inc_depth. cbn [ld_depth ld_references].
  destruct (d =? 0) eqn:E0.
  - cbn [bind ld_depth]. destruct (d <? ld_max_depth); [discriminate|]. apply Herr.
  - destruct (r =? ld_max_refs) eqn:Er; [destruct (Herr loop_detector) as [pos ->]; cbn [bind]; eauto|].
    cbn [bind ld_depth]. destruct (d <? ld_max_depth); [discriminate|]. apply Herr.
Qed.

Section RejAttr.
Variable text : bytes.
Variable D : list Scope.binding.
Hypothesis HD : forall l, NoDup l -> incl l D -> N.of_nat (length l) <= 65535.
Variable decls : list E.edecl.
Variable es : list entity.
Hypothesis Henv : Forall2 (uent_ok text) decls es.
Hypothesis Hdecls : Forall udecl_okc decls.

Notation W := (CstLex.W text).
Notation WV := (CstULex.WV text).

(* one piece of the value *)
Lemma astep_u m pc0 rest lvl' ld e p more t t1 fuel :
  uep_ok m (E.EP pc0) -> Forall (uep_ok m) rest -> E.no_adjacent_elit (E.EP pc0 :: rest) = true ->
  WV p (T.r_piece pc0 ++ E.r_epieces rest ++ more) -> p + (blen (T.r_piece pc0) + blen (E.r_epieces rest)) = e -> e <= tlen text ->
  m = (0 <? ld_depth ld) -> push_attr_chunks m (T.piece_chunks pc0) t = Some t1 ->
  (length (T.r_piece pc0) + length (E.r_epieces rest) < fuel)%nat ->
  attr_loop text lvl' es fuel (sst e p (T.r_piece pc0 ++ E.r_epieces rest ++ more)) t ld =
  attr_loop text lvl' es (fuel - length (T.piece_chunks pc0))
    (sst e (p + blen (T.r_piece pc0)) (E.r_epieces rest ++ more)) t1 ld.
Proof.
  intros [Hvp Hcv] Hrest Hadj HW He Hle Hm Hpush Hfu.
  pose proof (chunks_le_piece_u D HD pc0 Hvp) as Hcl.
  destruct pc0 as [bs|hex ds|pe|bs]; cbn [bvpiece] in Hvp; try contradiction.
  - cbn [T.r_piece T.piece_chunks] in *. rewrite map_length in *.
    destruct (CstEntAttr.aloop_lit text es lvl' ld e bs p (E.r_epieces rest ++ more) t (fuel - length bs) (blit_not_amp _ _ Hvp) ltac:(lia))
      as (t1' & E1 & E2).
    { destruct (is_elit_next_u bs rest Hadj m Hrest) as [->|[R' ER]].
      - left. cbn [E.r_epieces flat_map] in He. rewrite blen_nil in He. lia.
      - right. rewrite ER. eexists. reflexivity. }
    rewrite <- Hm in E1. rewrite Hpush in E1. injection E1 as <-.
    replace fuel with (length bs + (fuel - length bs))%nat at 1 by lia. exact E2.
  - cbn [T.piece_chunks push_attr_chunks] in Hpush.
    destruct (push_char_bytes_attr (T.utf8 (T.ref_val hex ds)) m t) as [t1'|] eqn:Ep; [|discriminate].
    cbn [push_attr_chunks] in Hpush. injection Hpush as <-.
    pose proof (cref_charref_u text e p hex ds (E.r_epieces rest ++ more) HW Hvp ltac:(lia) Hle) as Ec.
    assert (Hlt : p < e) by (cbn [T.r_piece app] in He; rewrite !blen_cons in He; lia).
    cbn [T.r_piece] in Ec, HW |- *. rewrite <- !app_assoc in *. cbn [app] in Ec |- *.
    cbn [T.piece_chunks length].
    replace fuel with (S (fuel - 1)) at 1 by (cbn [length] in Hcl; lia).
    rewrite (CstEntAttr.aloop_ref text es lvl' ld e p _ _ _ t t1' (fuel - 1) Hlt Ec); [reflexivity|].
    rewrite <- Hm. exact Ep.
  - cbn [T.piece_chunks push_attr_chunks] in Hpush.
    destruct (push_char_bytes_attr [T.predef_char pe] m t) as [t1'|] eqn:Ep; [|discriminate].
    cbn [push_attr_chunks] in Hpush. injection Hpush as <-.
    pose proof (cref_predef_u text e p pe (E.r_epieces rest ++ more) HW ltac:(lia) Hle) as Ec.
    assert (Hlt : p < e) by (cbn [T.r_piece app] in He; rewrite !blen_cons in He; lia).
    cbn [T.r_piece] in Ec, HW |- *. rewrite <- !app_assoc in *. cbn [app] in Ec |- *.
    cbn [T.piece_chunks length].
    replace fuel with (S (fuel - 1)) at 1 by (cbn [length] in Hcl; lia).
    rewrite (CstEntAttr.aloop_ref text es lvl' ld e p _ _ _ t t1' (fuel - 1) Hlt Ec); [reflexivity|].
    rewrite <- Hm. replace (encode_utf8 (T.predef_char pe)) with [T.predef_char pe] by (destruct pe; reflexivity).
    exact Ep.
Qed.

Lemma apush_u m p t : uep_ok m (E.EP p) -> (m = true -> E.is_lt_ref p = false) -> tb_pending_cr t = false ->
  exists t1, push_attr_chunks m (T.piece_chunks p) t = Some t1 /\ tb_pending_cr t1 = false.
Proof.
  intros Hp Hlt Hpd. destruct (push_top_total (T.piece_chunks p) t Hpd) as [t1 E1].
  assert (E1' : push_attr_chunks m (T.piece_chunks p) t = Some t1).
  { destruct m; [|exact E1]. rewrite piece_push_eq_u; auto. }
  exists t1. split; [exact E1'|]. apply (push_attr_pending m _ _ _ Hpd E1').
Qed.

Lemma lt_app a b0 : existsb E.is_lt_ref (a ++ b0) = false -> existsb E.is_lt_ref a = false /\ existsb E.is_lt_ref b0 = false.
Proof. rewrite existsb_app. apply orb_false_iff. Qed.

(* the value of an attribute (or of an entity, inside one) on which the detector stops *)
Lemma ALf_u : forall k ps fa m q tr, E.inline_ps (glevel decls k) fa m ps = Some (q, tr) ->
  (m = true -> existsb E.is_lt_ref q = false) -> (fa = true \/ m = true) ->
  Forall (uep_ok m) ps -> E.no_adjacent_elit ps = true ->
  forall e p more ld lvl' fuel t,
  WV p (E.r_epieces ps ++ more) -> p + blen (E.r_epieces ps) = e -> e <= tlen text ->
  m = (0 <? ld_depth ld) -> ld_run ld tr = None ->
  11 <= N.of_nat lvl' + ld_depth ld -> 12 <= N.of_nat k + ld_depth ld ->
  tb_pending_cr t = false -> (length (E.r_epieces ps) < fuel)%nat ->
  exists pos, attr_loop text lvl' es fuel (sst e p (E.r_epieces ps ++ more)) t ld = Err (EntityReferenceLoop pos).
Proof.
  induction k as [k IHk] using lt_wf_ind. induction ps as [|pc rest IH];
    intros fa m q tr Hin Hlt Hfm Hok Hadj e p more ld lvl' fuel t HW He Hle Hm Hld Hlvl Hk Hpd Hfu.
  - cbn [E.inline_ps] in Hin. injection Hin as <- <-. discriminate.
  - apply Forall_cons_iff in Hok. destruct Hok as [Hp Hrest].
    pose proof (CstEntAttr.no_adj_etail _ _ Hadj) as Hadj'.
    cbn [E.inline_ps] in Hin. destruct pc as [pc0|n].
    + (* a piece *)
      destruct (fa && m && E.is_lt_ref pc0) eqn:Elt0; [discriminate|].
      destruct (E.inline_ps (glevel decls k) fa m rest) as [[q' tr']|] eqn:Er; [|discriminate]. cbn [E.obind fst snd] in Hin.
      injection Hin as <- <-.
      assert (Hl0 : m = true -> E.is_lt_ref pc0 = false /\ existsb E.is_lt_ref q' = false).
      { intros Hmt. specialize (Hlt Hmt). cbn [existsb] in Hlt. apply orb_false_iff in Hlt. exact Hlt. }
      destruct (apush_u m pc0 t Hp (fun Z => proj1 (Hl0 Z)) Hpd) as (t1 & E1 & Hpd1).
      cbn [E.r_epieces flat_map E.r_epiece] in *. fold (E.r_epieces rest) in *.
      rewrite <- app_assoc in HW |- *. rewrite blen_app in He. rewrite app_length in Hfu.
      pose proof Hp as [Hvp _]. pose proof (chunks_le_piece_u D HD pc0 Hvp) as Hcl.
      rewrite (astep_u m pc0 rest lvl' ld e p more t t1 fuel Hp Hrest Hadj HW He Hle Hm E1 Hfu).
      apply (IH fa m q' tr' Er (fun Z => proj2 (Hl0 Z)) Hfm Hrest Hadj' e _ more ld lvl'); try assumption; try lia.
      apply (WV_app _ _ _ _ HW (vpiece_valid 60 pc0 Hvp)).
    + (* a reference *)
      destruct Hp as [Hn Hpre].
      destruct (E.lookup (glevel decls k) n) as [v|] eqn:El; [|discriminate]. cbn [E.obind] in Hin.
      destruct (E.x_pieces v) as [qv|] eqn:Ex; [|discriminate]. cbn [E.obind] in Hin.
      destruct (fa && existsb E.is_lt_ref qv) eqn:Elt1; [discriminate|].
      destruct (E.inline_ps (glevel decls k) fa m rest) as [[q' tr']|] eqn:Er; [|discriminate]. cbn [E.obind fst snd] in Hin.
      injection Hin as <- <-.
      cbn [E.r_epieces flat_map E.r_epiece] in *. fold (E.r_epieces rest) in *.
      rewrite <- !app_assoc in HW |- *. rewrite !blen_app in He. change (blen [38]) with 1 in He. change (blen [59]) with 1 in He.
      rewrite lookup_glevel in El. destruct (first_decl decls n) as [d|] eqn:Hfd; [|discriminate].
      destruct (find_first_u text decls es Henv n d Hfd) as (en & Efind & (Hen & vs & tail & Eval & HWv)).
      destruct fuel as [|fu]; [lia|].
      pose proof (cref_entity_u text D HD e p n (E.r_epieces rest ++ more) HW Hn Hpre ltac:(lia) Hle) as Ec.
      cbn [app] in Ec, HW |- *.
      assert (HWn : WV (p + 2 + blen n) (E.r_epieces rest ++ more)).
      { pose proof (WV_cons _ _ _ _ HW ltac:(lia)) as X1.
        destruct (uname_bytes n Hn) as (Hun & _). pose proof (WV_app _ _ _ _ X1 (ustr_valid _ Hun)) as X2.
        pose proof (WV_cons _ _ _ _ X2 ltac:(lia)) as X3.
        replace (p + 2 + blen n) with (p + 1 + blen n + 1) by lia. exact X3. }
      assert (Hunf : attr_loop text lvl' es (S fu) (sst e p (38 :: n ++ 59 :: E.r_epieces rest ++ more)) t ld =
                let! ld2 := (let! l := inc_references text (sst e (p + 2 + blen n) (E.r_epieces rest ++ more)) ld in
                             inc_depth text (sst e (p + 2 + blen n) (E.r_epieces rest ++ more)) l) in
                let! (t', ld') := norm_attr_lvl text lvl' es (en_value en) t ld2 in
                attr_loop text lvl' es fu (sst e (p + 2 + blen n) (E.r_epieces rest ++ more)) t' (dec_depth ld')).
      { cbn [attr_loop]. rewrite at_end_sst. replace (e <=? p) with false by lia.
        cbn [curr_byte_unchecked sst s_rest bind]. change (38 =? 38) with true. cbn [negb].
        fold (sst e p (38 :: n ++ 59 :: E.r_epieces rest ++ more)). rewrite Ec. cbn [bind].
        pose proof (W_cons _ _ _ _ (WV_W _ _ _ HW)) as HW1. rewrite (W_slice _ _ _ _ HW1), Efind.
        destruct (inc_references text _ ld) as [l0| | |]; cbn [bind]; reflexivity. }
      rewrite Hunf. clear Hunf.
      cbn [ld_run] in Hld. destruct (ld_enter ld) as [ld1|] eqn:Eenter.
      2:{ destruct (enter_fail_u text (sst e (p + 2 + blen n) (E.r_epieces rest ++ more)) ld) as [pos Ef];
            [cbn [sst s_pos]; apply (boundary_v _ _ _ HWn)|cbn [sst s_pos]; lia|exact Eenter|].
          rewrite Ef. cbn [bind]. eauto. }
      destruct (CstEntText.enter_model text (sst e (p + 2 + blen n) (E.r_epieces rest ++ more)) _ _ Eenter) as (l0 & Ei1 & Ei2).
      rewrite Ei1. cbn [bind]. rewrite Ei2. cbn [bind].
      destruct (enter_d _ _ Eenter) as [Hd1 Hd10].
      destruct k as [|k']; [lia|].
      (* the value *)
      destruct (E.e_value d) as [vps|its_v] eqn:Hval; cbn [E.inline_value] in El.
      2:{ destruct (E.inline_items (glevel decls k') true its_v) as [[x1 x2]|]; cbn [E.obind] in El; [|discriminate].
          injection El as <-. discriminate. }
      destruct (E.inline_ps (glevel decls k') false true vps) as [[qv0 trv]|] eqn:Ei; [|discriminate].
      cbn [E.obind fst snd] in El. injection El as <-. cbn [E.x_pieces E.x_trace] in *. injection Ex as ->.
      destruct (first_decl_u decls Hdecls n d vps Hfd Hval) as (Hvok & _ & Hvadj).
      cbn [E.r_value] in Eval, HWv.
      assert (Hltv : existsb E.is_lt_ref qv = false /\ (m = true -> existsb E.is_lt_ref q' = false)).
      { destruct m.
        - specialize (Hlt eq_refl). cbn [existsb E.is_lt_ref E.mark] in Hlt. apply lt_app in Hlt. destruct Hlt as [A B0].
          cbn [existsb E.is_lt_ref E.mark] in B0. auto.
        - split; [|discriminate]. destruct Hfm as [-> | ?]; [exact Elt1|discriminate]. }
      destruct Hltv as [Hltv Hltq].
      destruct lvl' as [|lvl'']; [lia|].
      rewrite norm_attr_lvl_unfold, Eval. cbn [sl sl_start sl_end].
      rewrite (stream_from_substr_W text vs (E.r_epieces vps) tail (WV_W _ _ _ HWv)). cbn [bind].
      pose proof (W_le _ _ _ (W_app _ _ _ _ (WV_W _ _ _ HWv))) as Hlev.
      rewrite ld_run_app in Hld. destruct (ld_run ld1 trv) as [ld1'|] eqn:Erun1.
      * (* the value is read; the detector stops later *)
        cbn [ld_run] in Hld.
        destruct (agree_ps decls k' (IHall decls k') false true vps _ _ _ _ Ei Erun1 ltac:(lia)) as [Ei' Hdv].
        destruct (inline_AExp_in_u decls Hdecls k' vps qv trv Ei' Hltv Hvok t Hpd) as (t1 & HA & Hpd1).
        destruct (AL_u text D HD decls es Henv Hdecls true vps t qv trv t1 HA
                    (vs + blen (E.r_epieces vps)) vs tail ld1 ld1' lvl''
                    (S (length (s_rest (sst (vs + blen (E.r_epieces vps)) vs (E.r_epieces vps ++ tail))))))
          as [Ev _]; try assumption; try reflexivity.
        { rewrite Hd1. replace (0 <? ld_depth ld + 1) with true by lia. reflexivity. }
        { lia. }
        { cbn [sst s_rest]. rewrite app_length. lia. }
        rewrite Ev. cbn [bind].
        assert (Hdd : ld_depth (dec_depth ld1') = ld_depth ld) by (rewrite dec_d by lia; lia).
        apply (IH fa m q' tr' Er Hltq Hfm Hrest Hadj' e (p + 2 + blen n) more (dec_depth ld1') (S lvl'') fu t1); try assumption; try lia.
        -- rewrite Hdd. exact Hm.
        -- rewrite !app_length in Hfu. cbn [length] in Hfu. lia.
      * (* the detector stops inside the value *)
        destruct (IHk k' ltac:(lia) vps false true qv trv Ei (fun _ => Hltv) (or_intror eq_refl) Hvok Hvadj
                    (vs + blen (E.r_epieces vps)) vs tail ld1 lvl''
                    (S (length (s_rest (sst (vs + blen (E.r_epieces vps)) vs (E.r_epieces vps ++ tail))))) t)
          as [pos Ef]; try assumption; try reflexivity; try lia;
          try (cbn [sst s_rest]; rewrite app_length; lia);
          try (rewrite Hd1; replace (0 <? ld_depth ld + 1) with true by lia; reflexivity).
        rewrite Ef. cbn [bind]. eauto.
Qed.

Lemma inline_ps_lt tb m : forall ps q tr, E.inline_ps tb true m ps = Some (q, tr) -> m = true -> existsb E.is_lt_ref q = false.
Proof. exact (CstEntRejAttr.inline_ps_lt tb m). Qed.

(* ---- the value of an attribute ---- *)
Lemma normalize_f_u vs ps quote more c k q tr m :
  WV vs (E.r_epieces ps ++ [quote] ++ more) ->
  Forall (uep_ok m) ps -> E.no_adjacent_elit ps = true ->
  m = (0 <? ld_depth (c_ld c)) -> 12 <= N.of_nat k + ld_depth (c_ld c) ->
  E.inline_ps (glevel decls k) true m ps = Some (q, tr) -> ld_run (c_ld c) tr = None -> c_entities c = es ->
  exists pos, normalize_attribute text (sl vs (vs + blen (E.r_epieces ps))) c = Err (EntityReferenceLoop pos).
Proof.
  intros HWv Hok Hadj Hm Hk Hin Hld Hes. pose proof (WV_W _ _ _ HWv) as HW.
  unfold normalize_attribute. cbv zeta. rewrite (W_slice _ _ _ _ HW).
  fold (needs_norm (E.r_epieces ps)). destruct (needs_norm (E.r_epieces ps)) eqn:E.
  2:{ rewrite (CstEntCBuild.inline_noamp_tr _ _ _ _ _ _ (CstEntCBuild.needs_norm_noamp _ E) Hin) in Hld. discriminate. }
  unfold entity_levels. rewrite norm_attr_lvl_unfold. cbn [sl sl_start sl_end].
  rewrite (stream_from_substr_W text vs (E.r_epieces ps) _ HW). cbn [bind]. rewrite Hes.
  pose proof (W_le _ _ _ (W_app _ _ _ _ HW)) as Hle.
  destruct (ALf_u k ps true m q tr Hin (inline_ps_lt _ _ _ _ _ Hin) (or_introl eq_refl) Hok Hadj
              (vs + blen (E.r_epieces ps)) vs ([quote] ++ more) (c_ld c) (S (N.to_nat ld_max_depth))
              (S (length (s_rest (sst (vs + blen (E.r_epieces ps)) vs (E.r_epieces ps ++ [quote] ++ more))))) tb_new)
    as [pos Ef]; try assumption; try reflexivity.
  { change (N.of_nat (S (N.to_nat ld_max_depth))) with 11. lia. }
  { cbn [sst s_rest]. rewrite app_length. lia. }
  rewrite Ef. cbn [bind]. eauto.
Qed.

End RejAttr.

Print Assumptions ALf_u.
Print Assumptions normalize_f_u.
