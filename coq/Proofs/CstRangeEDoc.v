(* Proofs/CstRangeEDoc.v -- C13 / C18 on the fragment of Spec/CstEnt.v (character-data entities),
   part 5: parse_document of CstEntDoc.v once more, with the observations of CstRangeEItems.v.  The
   prolog, the items between the DOCTYPE and the root, and the epilog are those of Spec/Cst.v
   (CstRangeDoc.misc_loop_ok_r), transported through the erasure. *)
From Coq Require Import Ascii String.
From Coq Require Import List NArith PeanoNat Bool Lia ZifyBool ZifyN ZifyNat.
Import ListNotations.
From RX Require Import Generated.
From RX.Model Require Import Base CharClass Stream Tokenizer Doc Builder Parse.
From RX.Spec Require Cst CstText CstEnt Detector.
From RX.Spec Require Import Text.
From RX.Proofs Require Import Tactics CstLex CstBuild CstTree CstItems CstDoc TextMerge DetectorProofs.
From RX.Proofs Require Import CstTextSem CstTextLex CstTextBuild CstTextItems CstTextDoc.
From RX.Proofs Require Import CstEntSem CstEntText CstEntAttr CstEntMeaning CstEntRun CstEntLex CstEntDtd CstEntBuild CstEntInline CstEntItems CstEntDoc.
From RX.Proofs Require Import CstRangeDefs CstRangeBuild CstRangeItems CstRangeDoc CstRangeTDefs CstRangeTBuild CstRangeEDefs CstRangeEText CstRangeEFrags CstRangeEItems.
Open Scope N_scope.

(* ---- miscellaneous items through the erasure ---- *)
Definition cpairs (L : list (N * E.item)) : list (N * Cst.item) := map (fun x => (fst x, cmisc (snd x))) L.

Lemma ekshape_misc vt kd p i : E.is_misc i = true -> kshape kd (shape_of (p, cmisc i)) ->
  Forall2 ekshape [kd] (map snd (enode_of vt (p, i))).
Proof.
  destruct i as [? ? ? ?|?|bs|t s v]; try discriminate; intros _ H; (constructor; [|constructor]);
    destruct kd as [| | | |[[?|?]|?]]; cbn in H |- *; try contradiction; exact H.
Qed.

Lemma Extra_misc_e decls q0 L c c' K : Forall (fun x => E.is_misc (snd x) = true) L ->
  Extra (cpairs L) c c' K [] -> ExtraE decls q0 L c c' K [].
Proof.
  intros HM (A1 & A2 & A3). split; [|split].
  - revert A1. generalize (map snd K). clear - HM. induction HM as [|[p i] L Hi _ IH]; intros ks H; cbn [cpairs map flat_map] in *.
    + inversion H; subst. constructor.
    + inversion H as [|k0 sh ks' ? Hk Hr]; subst. rewrite map_app.
      change (k0 :: ks') with ([k0] ++ ks'). apply Forall2_app; [|apply IH; exact Hr].
      cbn [fst snd] in *. apply ekshape_misc; assumption.
  - clear - HM. induction HM as [|[p i] L Hi _ IH]; [constructor|]. cbn [flat_map].
    cbn [snd] in Hi. destruct i; try discriminate; exact IH.
  - rewrite A3. f_equal. clear - HM. induction HM as [|[p i] L Hi _ IH]; [reflexivity|]. cbn [cpairs map flat_map]. fold (cpairs L).
    rewrite map_app, <- IH. cbn [snd] in Hi. destruct i; try discriminate; reflexivity.
Qed.

Lemma Extra_rng_eq L c c0 c' K e : rng c = rng c0 -> Extra L c c' K e -> Extra L c0 c' K e.
Proof. intros E (A1 & A2 & A3). split; [exact A1|]. split; [exact A2|]. rewrite <- E. exact A3. Qed.

Lemma misc_eitems_at q i : E.is_misc i = true -> eitems_at q i = [(q, i)].
Proof. destruct i; try discriminate; reflexivity. Qed.

Lemma ebefore_erase : forall (l : list (E.item * bytes)) q,
  forallb (fun p => E.is_misc (fst p)) l = true ->
  Forall (fun x => E.is_misc (snd x) = true) (ebefore_at q l) /\
  before_at q (map (fun x => (cmisc (fst x), snd x)) l) = cpairs (ebefore_at q l).
Proof.
  induction l as [|[i w] r IH]; intros q H; cbn [ebefore_at before_at map]; [split; [constructor|reflexivity]|].
  cbn [forallb fst snd] in H. apply andb_true_iff in H. destruct H as [H1 H2].
  destruct (cmisc_facts i H1) as (E1 & E2 & _).
  rewrite (misc_eitems_at _ _ H1), (misc_items_at _ _ E1). cbn [app fst snd]. unfold nlen at 1 3. rewrite E2.
  destruct (IH (q + nlen (E.r_item i) + nlen w) H2) as [F Eq]. split; [constructor; [exact H1|exact F]|].
  cbn [cpairs map fst snd]. f_equal. exact Eq.
Qed.

Lemma eafter_erase : forall (l : list (bytes * E.item)) q,
  forallb (fun p => E.is_misc (snd p)) l = true ->
  Forall (fun x => E.is_misc (snd x) = true) (eafter_at q l) /\
  after_at q (map (fun x => (fst x, cmisc (snd x))) l) = cpairs (eafter_at q l).
Proof.
  induction l as [|[w i] r IH]; intros q H; cbn [eafter_at after_at map]; [split; [constructor|reflexivity]|].
  cbn [forallb fst snd] in H. apply andb_true_iff in H. destruct H as [H1 H2].
  destruct (cmisc_facts i H1) as (E1 & E2 & _).
  rewrite (misc_eitems_at _ _ H1), (misc_items_at _ _ E1). cbn [app fst snd]. unfold nlen at 2 5. rewrite E2.
  destruct (IH (q + nlen w + nlen (E.r_item i)) H2) as [F Eq]. split; [constructor; [exact H1|exact F]|].
  cbn [cpairs map fst snd]. f_equal. exact Eq.
Qed.

Lemma misc_of_before c : E.wf_doc c = true -> forallb (fun p => E.is_misc (fst p)) (E.d_before c) = true.
Proof.
  unfold E.wf_doc. rewrite !andb_true_iff. intros [[[[[[[[H1 H2] H3] H4] H5] H6] H7] H8] H9].
  apply forallb_forall. intros x Hx. rewrite forallb_forall in H4. specialize (H4 x Hx). rewrite !andb_true_iff in H4. tauto.
Qed.
Lemma misc_of_mid c : E.wf_doc c = true -> forallb (fun p => E.is_misc (snd p)) (E.d_mid c) = true.
Proof.
  unfold E.wf_doc. rewrite !andb_true_iff. intros [[[[[[[[H1 H2] H3] H4] H5] H6] H7] H8] H9].
  apply forallb_forall. intros x Hx. rewrite forallb_forall in H6. specialize (H6 x Hx). rewrite !andb_true_iff in H6. tauto.
Qed.
Lemma misc_of_after c : E.wf_doc c = true -> forallb (fun p => E.is_misc (snd p)) (E.d_after c) = true.
Proof.
  unfold E.wf_doc. rewrite !andb_true_iff. intros [[[[[[[[H1 H2] H3] H4] H5] H6] H7] H8] H9].
  apply forallb_forall. intros x Hx. rewrite forallb_forall in H8. specialize (H8 x Hx). rewrite !andb_true_iff in H8. tauto.
Qed.

(* the offsets of CstRangeEDefs.v are those of the proof of CstEntDoc.v *)
Lemma dtd_offset_eq c : E.wf_doc c = true ->
  0 + blen (r_pairs (CstDoc.regroup (E.d_ws0 c) (bef c))) + blen (last_ws (E.d_ws0 c) (bef c)) = dtd_offset c.
Proof.
  intros Hwf. pose proof (misc_of_before c Hwf) as Mb.
  unfold dtd_offset, before_len_e.
  pose proof (f_equal (@length N) (regroup_render (bef c) (E.d_ws0 c))) as E.
  rewrite !app_length in E.
  assert (El : length (flat_map (fun p => Cst.r_item (fst p) ++ snd p) (bef c)) =
               length (flat_map (fun p => E.r_item (fst p) ++ snd p) (E.d_before c))).
  { unfold bef. clear - Mb. induction (E.d_before c) as [|[i w] r IH]; [reflexivity|].
    cbn [forallb fst snd] in Mb. apply andb_true_iff in Mb. destruct Mb as [A D].
    destruct (cmisc_facts i A) as (_ & E2 & _). cbn [map flat_map fst snd]. rewrite !app_length, E2, IH by exact D. reflexivity. }
  unfold nlen, blen. lia.
Qed.

Lemma mid_len_eq c : E.wf_doc c = true -> blen (r_pairs (mid c)) = pairs_len_e (E.d_mid c).
Proof.
  intros Hwf. pose proof (misc_of_mid c Hwf) as Mm. unfold pairs_len_e, mid, r_pairs, nlen, blen. f_equal. f_equal.
  clear - Mm. induction (E.d_mid c) as [|[w i] r IH]; [reflexivity|].
  cbn [forallb fst snd] in Mm. apply andb_true_iff in Mm. destruct Mm as [A D].
  destruct (cmisc_facts i A) as (_ & E2 & _). cbn [map flat_map fst snd]. rewrite E2, IH by exact D. reflexivity.
Qed.

Lemma edoc_items_at_eq c : E.wf_doc c = true ->
  let t := E.d_dtd c in
  let p1 := 0 + blen (r_pairs (CstDoc.regroup (E.d_ws0 c) (bef c))) + blen (last_ws (E.d_ws0 c) (bef c)) in
  let p2 := p1 + blen (E.r_dtd t) in
  let p3 := p2 + blen (r_pairs (mid c)) + blen (E.d_ws1 c) in
  let p4 := p3 + blen (E.r_item (E.d_root c)) in
  edoc_items_at c =
    ebefore_at (nlen (E.d_ws0 c)) (E.d_before c) ++ eafter_at p2 (E.d_mid c) ++ eitems_at p3 (E.d_root c) ++
    eafter_at p4 (E.d_after c) /\
  Forall (fun x => E.is_misc (snd x) = true) (ebefore_at (nlen (E.d_ws0 c)) (E.d_before c)) /\
  pairs_at 0 (CstDoc.regroup (E.d_ws0 c) (bef c)) = cpairs (ebefore_at (nlen (E.d_ws0 c)) (E.d_before c)) /\
  Forall (fun x => E.is_misc (snd x) = true) (eafter_at p2 (E.d_mid c)) /\
  pairs_at p2 (mid c) = cpairs (eafter_at p2 (E.d_mid c)) /\
  Forall (fun x => E.is_misc (snd x) = true) (eafter_at p4 (E.d_after c)) /\
  pairs_at p4 (aft c) = cpairs (eafter_at p4 (E.d_after c)).
Proof.
  intros Hwf t p1 p2 p3 p4.
  pose proof (ewf_doc_parts c Hwf) as [H1 H2 H3 H4 H5 H6 _ H8 H9 _ _].
  pose proof (dtd_offset_eq c Hwf) as E1. fold p1 in E1.
  assert (E2 : mid_offset c = p2) by (unfold mid_offset, p2; rewrite <- E1; reflexivity).
  assert (E3 : eroot_offset c = p3) by (unfold eroot_offset, p3; rewrite E2, (mid_len_eq c Hwf); reflexivity).
  destruct (ebefore_erase (E.d_before c) (nlen (E.d_ws0 c)) (misc_of_before c Hwf)) as [Fb Eb].
  destruct (eafter_erase (E.d_mid c) p2 (misc_of_mid c Hwf)) as [Fm Em].
  destruct (eafter_erase (E.d_after c) p4 (misc_of_after c Hwf)) as [Fa Ea].
  split; [|split; [exact Fb|split; [|split; [exact Fm|split; [|split; [exact Fa|]]]]]].
  - unfold edoc_items_at. rewrite E2, E3. reflexivity.
  - rewrite (pairs_at_regroup _ 0 _ H4). rewrite N.add_0_l. exact Eb.
  - rewrite (pairs_at_after _ _ H6). exact Em.
  - rewrite (pairs_at_after _ _ H9). exact Ea.
Qed.

Ltac clia := repeat match goal with H : @eq bool _ true |- _ => clear H end; lia.

Lemma eparse_document_ok_r (c : E.doc) (c0 : context) (cT : T.doc) (tr : list Detector.lop) :
  E.wf_doc c = true -> etext_only c = true -> E.inline c = Some (cT, tr) ->
  let text := E.render c in
  CI c0 -> c_ld c0 = ld_init -> c_entities c0 = [] -> c_after_text c0 = [] ->
  node_room c0 (nsizes (doc_items (erase_doc cT))) -> attr_room c0 (nattrs (erase (T.d_root cT))) ->
  exists cf K ext,
    parse_document text context (tok_ev text) true c0 = Ok cf /\
    absn (c_doc cf) = absn (c_doc c0) ++ K /\ d_attrs (c_doc cf) = d_attrs (c_doc c0) ++ ext /\
    ExtraE (E.t_decls (E.d_dtd c)) (decls_offset c) (edoc_items_at c) c0 cf K ext.
Proof.
  intros Hwf Het Hinl text I0 Hld0 Hes0 A0 NR AR. pose proof (edoc_items_at_eq c Hwf) as Eat.
  pose proof (erender_asc c Hwf Het) as Hascii. fold text in Hascii.
  pose proof (edecl_render c Hwf) as Hdecl. fold text in Hdecl.
  pose proof (erender_shape c Hwf) as Etext. fold text in Etext.
  pose proof Hwf as Hwf0.
  pose proof (ewf_doc_parts c Hwf) as [H1 H2 H3 H4 H5 H6 (name & attrs & ws & body & Er) H8 H9 (root' & tr' & Hroot & Hinl' & Hlim & Hprov) _].
  rewrite Hinl' in Hinl. injection Hinl as <- <-.
  pose proof (wf_dtd_facts _ H5 Het) as [T1 T2 T3 T4 T5 T6]. clear Hwf H5.
  destruct (regroup_wf _ _ H1 H4) as [R1 R2]. clear H1 H4.
  rewrite inlined_items in *. cbn [T.d_root] in AR.
  set (B := CstDoc.regroup (E.d_ws0 c) (bef c)) in *. set (wB := last_ws (E.d_ws0 c) (bef c)) in *.
  set (M := mid c) in *. set (A := aft c) in *. set (wE := E.d_ws_end c) in *. set (w1 := E.d_ws1 c) in *.
  set (t := E.d_dtd c) in *. set (decls := E.t_decls t) in *.
  rewrite Er in *. clear Er. set (root := E.IElem name attrs ws body) in *.
  rewrite !nsizes_app, nsizes_cons in NR.
  pose proof (W_new text) as HW0.
  destruct (ewf_elem_parts _ _ _ _ H8) as (Hn & _).
  assert (El : exists n l, E.r_item root = 60 :: n :: l /\ Cst.is_name_start n = true).
  { unfold root. rewrite er_item_elem. destruct name as [|n r]; [discriminate|].
    cbn [Cst.wf_name] in Hn. apply andb_true_iff in Hn. destruct Hn as [Hn _]. eexists. eexists. split; [reflexivity|exact Hn]. }
  destruct El as (n & l & El & Hns).
  destruct (name_start_byte _ Hns) as (_ & _ & Hnsp & _ & _ & H33 & H63 & _). clear Hns Hn.
  remember (E.r_item root ++ r_pairs A ++ wE ++ []) as rest3 eqn:Erest3.
  remember (r_pairs M ++ w1 ++ rest3) as rest2 eqn:Erest2.
  assert (Hstop3 : misc_stop rest3).
  { rewrite Erest3, El. cbn [app]. split; [reflexivity|]. cbn [prefix_b].
    replace (33 =? n) with false by clia. replace (63 =? n) with false by clia. split; reflexivity. }
  assert (Hcb : forall p, CstLex.W text p rest3 ->
            match curr_byte_opt (CstLex.st text p rest3) with Some x => x =? 60 | None => false end = true).
  { intros p HWp. rewrite Erest3, El in *. cbn [app] in *. rewrite curr_byte_opt_st by exact HWp. reflexivity. }
  clear El.
  assert (Hstop1 : misc_stop (E.r_dtd t ++ rest2)).
  { unfold E.r_dtd, E.kw_doctype. cbn [app]. split; [reflexivity|]. split; reflexivity. }
  unfold parse_document. rewrite st_new.
  rewrite starts_with_st by exact HW0. rewrite bom_false by exact Hascii. cbn [bind].
  unfold starts_with_declaration. rewrite starts_with_st, avail_st by exact HW0.
  change (b "<?xml") with [60; 63; 120; 109; 108]. fold (decl_test text). rewrite Hdecl. cbn [bind].
  (* prolog *)
  unfold parse_misc at 1. cbn [CstLex.st s_rest].
  fold (CstLex.st text 0 text).
  assert (Etext' : text = r_pairs B ++ wB ++ E.r_dtd t ++ rest2) by exact Etext.
  assert (HW0' : CstLex.W text 0 (r_pairs B ++ wB ++ E.r_dtd t ++ rest2)) by (rewrite <- Etext'; exact HW0).
  replace (CstLex.st text 0 text) with (CstLex.st text 0 (r_pairs B ++ wB ++ E.r_dtd t ++ rest2))
    by (rewrite <- Etext'; reflexivity).
  assert (Elen : length text = length (r_pairs B ++ wB ++ E.r_dtd t ++ rest2)) by (rewrite <- Etext'; reflexivity).
  destruct (misc_loop_ok_r text Hascii B 0 wB (E.r_dtd t ++ rest2) c0 (S (length text)) HW0' R1 R2 Hstop1)
    as (c1 & K1 & E1 & S1 & I1 & A1 & F1 & Y1).
  { pose proof (pairs_len B R1). rewrite Elen, app_length. clia. }
  { exact I0. } { exact A0. } { unfold node_room in *. clia. }
  rewrite E1. cbn [bind]. clear E1.
  pose proof (W_app _ _ _ _ HW0') as HWa. pose proof (W_app _ _ _ _ HWa) as HW1.
  set (p1 := 0 + blen (r_pairs B) + blen wB) in *.
  rewrite skip_spaces_none by (try exact HW1; apply Hstop1).
  rewrite starts_with_st by exact HW1. change (b "<!DOCTYPE") with E.kw_doctype.
  replace (prefix_b E.kw_doctype (E.r_dtd t ++ rest2)) with true
    by (unfold E.r_dtd; rewrite <- !app_assoc; symmetry; apply prefix_b_app_same).
  change (negb true) with false. cbv iota.
  (* the DOCTYPE *)
  assert (Hlex : Forall decl_lex_ok decls) by (revert T4; apply Forall_impl; intros d Hd; apply (df_lex _ Hd)).
  rewrite (lex_doctype text Hascii context (tok_ev text) p1 t rest2 c1 HW1 T1 T2 T3 Hlex T5 T6). cbv zeta.
  set (q := p1 + 9 + blen (E.t_ws1 t) + blen (E.t_name t) + blen (E.t_ws2 t) + 1) in *.
  rewrite decls_recorded. cbn [bind].
  destruct (Step_keep _ _ _ _ S1) as [Kld1 Kes1]. rewrite Kes1, Hes0. cbn [app].
  set (es := decl_ents q decls) in *. set (c1' := set_entities c1 es).
  assert (Henv : Forall2 (ent_ok text) decls es).
  { unfold es. pose proof HW1 as X0. unfold E.r_dtd in X0. rewrite <- !app_assoc in X0.
    pose proof (W_app _ _ _ _ X0) as X1. change (blen E.kw_doctype) with 9 in X1.
    pose proof (W_app _ _ _ _ X1) as X2. pose proof (W_app _ _ _ _ X2) as X3. pose proof (W_app _ _ _ _ X3) as X4.
    pose proof (W_app _ _ _ _ X4) as X5. change (blen [91]) with 1 in X5. fold q in X5.
    apply (decl_ents_ok text decls q _ X5). }
  assert (Hdecls : Forall decl_ok decls) by (revert T4; apply Forall_impl; intros d Hd; apply (df_ok _ Hd)).
  assert (Hadjs : Forall decl_adj decls) by (revert T4; apply Forall_impl; intros d Hd; apply (df_adj _ Hd)).
  pose proof (etext_forall _ Het) as Hetext. fold t in Hetext. fold decls in Hetext.
  pose proof (CI_set_entities c1 es I1) as I1'. fold c1' in I1'.
  pose proof (W_app _ _ _ _ HW1) as HW2. set (p2 := p1 + blen (E.r_dtd t)) in *.
  (* items between the DOCTYPE and the root *)
  pose proof (Step_nodes_len _ _ _ _ S1) as Ln1.
  rewrite (Forall2_len_N _ _ _ F1) in Ln1. unfold len_N at 3 in Ln1. rewrite tag_list_len in Ln1.
  pose proof (Step_opt _ _ _ _ (proj1 S1)) as Lo1.
  pose proof (Step_attrs_len _ _ _ _ (proj1 S1)) as La1. change (len_N []) with 0 in La1.
  unfold parse_misc at 1. cbn [CstLex.st s_rest]. fold (CstLex.st text p2 rest2).
  rewrite Erest2 in HW2 |- *.
  destruct (misc_loop_ok_r text Hascii M p2 w1 rest3 c1' (S (length (r_pairs M ++ w1 ++ rest3))) HW2 H6 H2 Hstop3)
    as (c2 & K2 & E2 & S2 & I2 & A2 & F2 & Y2).
  { pose proof (pairs_len M H6). rewrite app_length. clia. }
  { exact I1'. } { exact A1. }
  { unfold node_room in *. change (d_nodes (c_doc c1')) with (d_nodes (c_doc c1)). change (c_opt c1') with (c_opt c1).
    rewrite Ln1, Lo1. clia. }
  change (set_entities c1 (decl_ents q (E.t_decls t))) with c1'. rewrite E2. cbn [bind]. clear E2.
  pose proof (W_app _ _ _ _ HW2) as HWb. pose proof (W_app _ _ _ _ HWb) as HW3.
  set (p3 := p2 + blen (r_pairs M) + blen w1) in *.
  rewrite skip_spaces_none by (try exact HW3; apply Hstop3).
  rewrite (Hcb p3 HW3).
  (* root *)
  pose proof (Step_nodes_len _ _ _ _ S2) as Ln2.
  rewrite (Forall2_len_N _ _ _ F2) in Ln2. unfold len_N at 3 in Ln2. rewrite tag_list_len in Ln2.
  change (d_nodes (c_doc c1')) with (d_nodes (c_doc c1)) in Ln2.
  pose proof (Step_opt _ _ _ _ (proj1 S2)) as Lo2. change (c_opt c1') with (c_opt c1) in Lo2.
  pose proof (Step_attrs_len _ _ _ _ (proj1 S2)) as La2. change (len_N []) with 0 in La2.
  change (d_attrs (c_doc c1')) with (d_attrs (c_doc c1)) in La2.
  destruct (Step_keep _ _ _ _ S2) as [Kld2 Kes2]. change (c_ld c1') with (c_ld c1) in Kld2.
  change (c_entities c1') with es in Kes2.
  destruct (DetectorProofs.detector_complete_gen tr' 0 0 Hlim) as [ld' Hrun]. change (DetectorProofs.mk 0 0) with ld_init in Hrun.
  assert (Hprov' : forallb E.provisos_item (E.regroup [root']) = true).
  { assert (Hnt : is_titext root' = false).
    { unfold root in Hroot. rewrite inline_elem in Hroot. destruct (E.inline_attrs _ false attrs) as [[a' ta]|]; [|discriminate].
      cbn [E.obind] in Hroot. destruct body as [[cs w2]|].
      - destruct (E.inline_items _ false cs) as [[b0 tb0]|]; [|discriminate]. cbn [E.obind] in Hroot. injection Hroot as <- _. reflexivity.
      - injection Hroot as <- _. reflexivity. }
    rewrite regroup_nontext by exact Hnt. cbn [E.regroup forallb]. rewrite Hprov. reflexivity. }
  assert (Eden : den [root'] = [erase root']).
  { unfold den. unfold root in Hroot. rewrite inline_elem in Hroot. destruct (E.inline_attrs _ false attrs) as [[a' ta]|]; [|discriminate].
    cbn [E.obind] in Hroot. destruct body as [[cs w2]|].
    - destruct (E.inline_items _ false cs) as [[b0 tb0]|]; [|discriminate]. cbn [E.obind] in Hroot. injection Hroot as <- _. reflexivity.
    - injection Hroot as <- _. reflexivity. }
  rewrite Erest3 in HW3 |- *.
  destruct (root_ok_e_r text Hascii decls q Henv Hdecls Hadjs Hetext E.max_level name attrs ws body p3 (r_pairs A ++ wE ++ []) c2
              [root'] tr' ld' H8 HW3 I2 ltac:(congruence) Kes2 Hroot Hrun Hprov')
    as (c3 & K3 & e3 & E3 & S3 & I3 & A3 & F3 & L3 & Y3).
  { rewrite Eden, nsizes_cons. change (nsizes []) with 0. unfold node_room in *. rewrite Ln2, Lo2, Ln1, Lo1. clia. }
  { rewrite Eden. cbn [nattrs_items]. rewrite Nat.add_0_r. unfold attr_room in *. rewrite La2, La1. clia. }
  fold root in E3, HW3. rewrite Eden in F3, L3.
  rewrite E3. cbn [bind]. clear E3.
  pose proof (W_app _ _ _ _ HW3) as HW4.
  set (p4 := p3 + blen (E.r_item root)) in *.
  pose proof (Step_nodes_len _ _ _ _ S3) as Ln3.
  rewrite (Forall2_len_N _ _ _ F3) in Ln3. unfold len_N at 3 in Ln3. rewrite tag_list_len in Ln3.
  pose proof (Step_opt _ _ _ _ (proj1 S3)) as Lo3.
  (* epilog *)
  unfold parse_misc. cbn [CstLex.st s_rest]. fold (CstLex.st text p4 (r_pairs A ++ wE ++ [])).
  destruct (misc_loop_ok_r text Hascii A p4 wE [] c3
              (S (length (r_pairs A ++ wE ++ []))) HW4 H9 H3)
    as (c4 & K4 & E4 & S4 & I4 & A4 & F4 & Y4).
  { split; [exact Logic.I|split; reflexivity]. }
  { pose proof (pairs_len A H9). rewrite app_length. clia. }
  { exact I3. } { exact A3. }
  { rewrite nsizes_cons in Ln3. change (nsizes []) with 0 in Ln3. unfold node_room in *. rewrite Ln3, Lo3, Ln2, Lo2, Ln1, Lo1. clia. }
  rewrite E4. cbn [bind]. clear E4.
  pose proof (W_app _ _ _ _ HW4) as HWc. pose proof (W_app _ _ _ _ HWc) as HW5.
  rewrite at_end_st by exact HW5. cbn [negb].
  exists c4, (K1 ++ K2 ++ K3 ++ K4), ([] ++ [] ++ e3 ++ []). split; [reflexivity|].
  destruct S1 as (S1 & P1 & Q1). destruct S2 as (S2 & P2 & Q2). destruct S3 as (S3 & P3 & Q3). destruct S4 as (S4 & P4 & Q4).
  split.
  { rewrite (s_nodes _ _ _ _ S4), (s_nodes _ _ _ _ S3), (s_nodes _ _ _ _ S2). change (c_doc c1') with (c_doc c1).
    rewrite (s_nodes _ _ _ _ S1), <- !app_assoc. reflexivity. }
  split.
  { rewrite (s_attrs _ _ _ _ S4), (s_attrs _ _ _ _ S3), (s_attrs _ _ _ _ S2). change (c_doc c1') with (c_doc c1).
    rewrite (s_attrs _ _ _ _ S1), <- !app_assoc. reflexivity. }
  (* where things are *)
  destruct Eat as (Eat & Mb & Eb & Mm & Em & Ma & Ea).
  fold t in Eat, Eb, Em, Ea, Mm, Ma. fold decls. 
  replace (decls_offset c) with q by (unfold q, p1, decls_offset; rewrite <- (dtd_offset_eq c Hwf0); reflexivity).
  rewrite Eat.
  eapply ExtraE_app; [apply (Extra_misc_e _ _ _ _ _ _ Mb); rewrite <- Eb; exact Y1|].
  eapply ExtraE_app; [apply (Extra_misc_e _ _ _ _ _ _ Mm); rewrite <- Em; apply (Extra_rng_eq _ c1' c1 _ _ _ eq_refl); exact Y2|].
  eapply ExtraE_app; [exact Y3|]. apply (Extra_misc_e _ _ _ _ _ _ Ma). rewrite <- Ea. exact Y4.
Qed.

Print Assumptions eparse_document_ok_r.
