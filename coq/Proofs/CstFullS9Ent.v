(* Proofs/CstFullS9Ent.v -- the capstone fragment, stage S9 (Spec/CstFullS9.v): the declaration of a general internal
   entity whose NAME is a Name with colons: Proofs/CstFullS5Dtd.v [udecl_lex_ok_s] / [udecl_valid_s] /
   [lex_entity_decl_s] / [decl_ent_ok_s] over Proofs/CstFullS9aSem.v [uname] and Proofs/CstFullS9aText.v [uent_ok].
   Adapted copies of these four; consume_name on such a name is Proofs/CstFullS7Lex.v [consume_name7]. *)
From Coq Require Import Ascii String.
From Coq Require Import List NArith PeanoNat Bool Lia ZifyBool ZifyN ZifyNat.
Import ListNotations.
From RX Require Import Generated.
From RX.Model Require Import Base CharClass Stream Tokenizer Doc Builder Parse.
From RX.Spec Require Cst CstText CstEnt CstU CstNs Chars Scope.
From RX.Spec Require Import Text CstFull CstFullS5.
From RX.Spec Require CstFullS7.
From RX.Proofs Require Import Tactics CstLex CstBuild CstNsLex CstNsView CstNsBuild CstULex CstFullLex CstFullBuild CstFullTree CstEntDtd.
From RX.Proofs Require Import CstFullS2Sem.
From RX.Proofs Require Import CstFullS5Ws CstFullS5Lex.
From RX.Proofs Require Import CstFullS9aSem CstFullS9aText.
From RX.Proofs Require CstFullS5Dtd CstFullS7Lex CstFullS7Misc CstEntCLex.
Open Scope N_scope.

Module SL := CstFullS7Lex.
Notation consume_spaces_s := CstFullS5Dtd.consume_spaces_s.

Lemma uname_head9 n : uname n -> exists b0 r, n = b0 :: r /\ byte_is_space b0 = false /\ b0 <> 37.
Proof.
  intros (cs & -> & Hn). destruct (SL.wf_name7_parts cs Hn) as (c & x & -> & Hc & _). rewrite utf8s_cons.
  destruct (N.lt_ge_cases c 128) as [L|L].
  - rewrite (utf8_ascii c L). cbn [app]. exists c, (utf8s x). split; [reflexivity|].
    revert Hc. unfold Chars.xml_NameStartChar, Chars.in_ranges, Chars.xml_NameStartChar_ranges. cbn [existsb fst snd]. cls. lia.
  - destruct (utf8_high c L) as (_ & b0 & r & E & Hb). rewrite E. cbn [app]. exists b0, (r ++ utf8s x). split; [reflexivity|]. cls. lia.
Qed.

Lemma consume_name7_top text name p l : CstULex.WV text p (utf8s name ++ l) -> CstFullS7.wf_name7 name = true -> name_stop l ->
  consume_name text (CstLex.st text p (utf8s name ++ l)) = Ok (sl p (p + blen (utf8s name)), CstLex.st text (p + blen (utf8s name)) l).
Proof.
  intros HW Hn Hl. rewrite <- !CstFullS7Misc.st_top. apply (SL.consume_name7 text (tlen text) [] name p l (CstFullS7Misc.WV_top _ _ _ HW) Hn Hl).
Qed.

Section Lex2.
Variable text : bytes.
Variable C : Type.
Variable ev : Tokenizer.token -> C -> res C.

Notation W := (CstLex.W text).
Notation WV := (CstULex.WV text).
Notation st := (CstLex.st text).

(* ---- a general internal entity whose name is a Name with colons ---- *)
Record udecl_lex_ok9 (e : E.edecl) : Prop := {
  us_ws0 : wf_s (E.e_ws0 e) = true;
  us_ws1 : wf_s1 (E.e_ws1 e) = true;
  us_name : uname (E.e_name e);
  us_ws2 : wf_s1 (E.e_ws2 e) = true;
  us_quote : E.e_quote e = 39 \/ E.e_quote e = 34;
  us_value : ustr (E.r_value (E.e_value e)) /\ forallb (fun y => negb (y =? E.e_quote e)) (E.r_value (E.e_value e)) = true;
  us_ws3 : wf_s (E.e_ws3 e) = true
}.

Lemma udecl_valid9 e : udecl_lex_ok9 e -> U8.Valid (E.r_decl e).
Proof.
  intros [H0 H1 Hn H2 Hq [Hv1 Hv2] H3]. destruct (s1_parts _ H1) as [_ Hw1]. destruct (s1_parts _ H2) as [_ Hw2].
  destruct (uname_bytes _ Hn) as (Hun & _).
  unfold E.r_decl. repeat apply U8.Valid_app; try (apply Valid_lit, s_lit; assumption); try (apply Valid_lit; reflexivity);
    try (apply ustr_valid; assumption); apply Valid_lit; cbn; destruct Hq as [-> | ->]; reflexivity.
Qed.

Lemma lex_entity_decl9 q e post c : WV q (E.r_decl e ++ post) -> udecl_lex_ok9 e ->
  parse_entity_decl text C ev (st (q + blen (E.e_ws0 e)) (skipn (length (E.e_ws0 e)) (E.r_decl e ++ post))) c =
  let! c' := ev (TEntityDecl (en_name (decl_entity q e)) (en_value (decl_entity q e))) c in
  Ok (st (q + blen (E.r_decl e)) post, c').
Proof.
  intros HW [H0 H1 Hn H2 Hq [Hvu Hv1] H3].
  destruct (s1_parts _ H1) as [Hne1 Hw1]. destruct (s1_parts _ H2) as [Hne2 Hw2].
  unfold E.r_decl in *. rewrite <- !app_assoc in *. rewrite skipn_len_app.
  pose proof (WV_lit _ _ _ _ HW (s_lit _ H0)) as HWa.
  set (p0 := q + blen (E.e_ws0 e)) in *.
  unfold parse_entity_decl.
  rewrite (advance_st text 8 p0 E.kw_entity) by (try reflexivity; apply (WV_W _ _ _ HWa)). cbn [bind].
  pose proof (WV_lit _ _ _ _ HWa (eq_refl : forallb (fun y => y <? 128) E.kw_entity = true)) as HWb. change (blen E.kw_entity) with 8 in HWb.
  destruct (uname_head9 _ Hn) as (n0 & nr & En & Hnsp & Hn37).
  rewrite consume_spaces_s; [|apply (WV_W _ _ _ HWb)|exact Hne1|exact Hw1|rewrite En; cbn [app stops]; exact Hnsp]. cbn [bind].
  pose proof (WV_lit _ _ _ _ HWb (s_lit _ Hw1)) as HWc.
  assert (Etry : try_consume_byte 37 (st (p0 + 8 + blen (E.e_ws1 e))
                   (E.e_name e ++ E.e_ws2 e ++ [E.e_quote e] ++ E.r_value (E.e_value e) ++ [E.e_quote e] ++ E.e_ws3 e ++ [62] ++ post)) =
                 (false, st (p0 + 8 + blen (E.e_ws1 e))
                   (E.e_name e ++ E.e_ws2 e ++ [E.e_quote e] ++ E.r_value (E.e_value e) ++ [E.e_quote e] ++ E.e_ws3 e ++ [62] ++ post))).
  { pose proof (WV_W _ _ _ HWc) as HWc'. revert HWc'. rewrite En. cbn [app]. intros HWc'. unfold try_consume_byte.
    rewrite (curr_byte_opt_st text) by exact HWc'. replace (n0 =? 37) with false by lia. reflexivity. }
  rewrite Etry. cbn [negb bind].
  destruct (E.e_ws2 e) as [|w2 ws2] eqn:Ew2; [congruence|]. rewrite <- Ew2 in *.
  assert (Hw2sp : byte_is_space w2 = true).
  { rewrite Ew2 in Hw2. cbn [wf_s forallb] in Hw2. apply andb_true_iff in Hw2. apply s_space. apply Hw2. }
  destruct Hn as (ncs & Encs & Hncs). rewrite Encs in *.
  rewrite consume_name7_top; [|exact HWc|exact Hncs|].
  2:{ rewrite Ew2. cbn [app name_stop]. apply s_not_name_byte.
      rewrite Ew2 in Hw2. cbn [wf_s forallb] in Hw2. apply andb_true_iff in Hw2. apply Hw2. }
  cbn [bind]. pose proof (WV_app _ _ _ _ HWc (SL.name7_valid _ Hncs)) as HWd.
  rewrite consume_spaces_s; [|apply (WV_W _ _ _ HWd)|exact Hne2|exact Hw2|cbn [app stops]; apply quote_not_space; exact Hq]. cbn [bind].
  pose proof (WV_lit _ _ _ _ HWd (s_lit _ Hw2)) as HWe. pose proof (WV_W _ _ _ HWe) as HWe'. cbn [app] in HWe, HWe' |- *.
  (* the definition *)
  unfold parse_entity_def. rewrite (curr_byte_st text) by exact HWe'. cbn [bind].
  replace ((E.e_quote e =? 34) || (E.e_quote e =? 39)) with true by (destruct Hq as [-> | ->]; reflexivity).
  unfold consume_quote. rewrite (curr_byte_st text) by exact HWe'. cbn [bind].
  replace ((E.e_quote e =? 39) || (E.e_quote e =? 34)) with true by (destruct Hq as [-> | ->]; reflexivity).
  rewrite (advance1_st text) by exact HWe'. cbn [bind]. cbv zeta.
  pose proof (WV_cons _ _ _ _ HWe ltac:(destruct Hq as [-> | ->]; lia)) as HWf. pose proof (WV_W _ _ _ HWf) as HWf'. cbn [CstLex.st s_pos].
  try match goal with |- context [skip_bytes ?f {| s_pos := ?a; s_end := tlen text; s_rest := ?r |}] => fold (st a r) end.
  change (E.r_value (E.e_value e) ++ E.e_quote e :: E.e_ws3 e ++ 62 :: post)
    with (E.r_value (E.e_value e) ++ (E.e_quote e :: E.e_ws3 e ++ 62 :: post)) in *.
  rewrite (skip_bytes_st text); [|exact HWf'|exact Hv1|cbn [stops]; rewrite N.eqb_refl; reflexivity].
  pose proof (WV_app _ _ _ _ HWf (ustr_valid _ Hvu)) as HWg. pose proof (WV_W _ _ _ HWg) as HWg'.
  unfold slice_back. cbn [CstLex.st s_pos].
  rewrite (mk_slice_v text _ _ _ HWf (ustr_valid _ Hvu)). cbn [bind].
  destruct Hvu as (vcs & Evcs & Hvcs). rewrite Evcs in *.
  rewrite (is_xml_str_u text _ vcs _ _ HWf' Hvcs). cbn [bind].
  try match goal with |- context [consume_byte text ?c0 {| s_pos := ?a; s_end := tlen text; s_rest := ?r |}] => fold (st a r) end.
  rewrite (consume_byte_st text) by exact HWg'. cbn [bind negb].
  pose proof (W_cons _ _ _ _ HWg') as HWh.
  unfold decl_entity. cbv zeta. cbn [en_name en_value]. fold p0. rewrite Encs, Evcs.
  destruct (ev _ c) as [c'| | |]; cbn [bind]; try reflexivity.
  change (E.e_ws3 e ++ 62 :: post) with (E.e_ws3 e ++ [62] ++ post) in *.
  rewrite (skip_spaces_st text); [|exact HWh|apply s_spaces; exact H3|reflexivity].
  pose proof (W_app _ _ _ _ HWh) as HWi. cbn [app] in HWi |- *.
  rewrite (consume_byte_st text) by exact HWi. cbn [bind].
  f_equal. f_equal. f_equal. unfold p0. rewrite !blen_app. change (blen E.kw_entity) with 8.
  repeat rewrite ?blen_cons, ?blen_app, ?blen_nil. lia.
Qed.

Lemma decl_ent_ok9 q e tail : WV q (E.r_decl e ++ tail) -> udecl_lex_ok9 e -> uent_ok text e (decl_entity q e).
Proof.
  intros HW [H0 H1 Hn H2 Hq [Hvu Hv1] H3]. destruct (s1_parts _ H1) as [_ Hw1]. destruct (s1_parts _ H2) as [_ Hw2].
  destruct (uname_bytes _ Hn) as (Hun & _).
  unfold E.r_decl in HW. rewrite <- !app_assoc in HW.
  pose proof (WV_lit _ _ _ _ HW (s_lit _ H0)) as A1.
  pose proof (WV_lit _ _ _ _ A1 (eq_refl : forallb (fun y => y <? 128) E.kw_entity = true)) as A2. change (blen E.kw_entity) with 8 in A2.
  pose proof (WV_lit _ _ _ _ A2 (s_lit _ Hw1)) as A3. pose proof (WV_app _ _ _ _ A3 (ustr_valid _ Hun)) as A4.
  pose proof (WV_lit _ _ _ _ A4 (s_lit _ Hw2)) as A5.
  assert (Hq1 : forallb (fun y => y <? 128) [E.e_quote e] = true) by (cbn; destruct Hq as [-> | ->]; reflexivity).
  pose proof (WV_lit _ _ _ _ A5 Hq1) as A6. change (blen [E.e_quote e]) with 1 in A6.
  unfold uent_ok, decl_entity. cbv zeta. cbn [en_name en_value]. split.
  - apply (W_slice _ _ _ _ (WV_W _ _ _ A3)).
  - eexists. eexists. split; [reflexivity|]. exact A6.
Qed.

End Lex2.
