(* CycleAttr.v -- C09: the same for attribute values: a value that holds, after bytes other
   than '&' and '<', a reference into a closed set ends in Err (EntityReferenceLoop _). *)
From Coq Require Import Ascii String.
From Coq Require Import Lia ZifyBool ZifyN ZifyNat.
From RX Require Import Generated.
From RX.Model Require Import Base CharClass Stream Tokenizer Doc Builder Parse.
From RX.Proofs Require Import Tactics OptionsParam OptionsBuild BudgetStream BudgetBuild
  CycleStream CycleContent.

Section CycleAttr.
Variable text : bytes.
Variable es : list entity.
Variable S : bytes -> Prop.

Notation sat := (sat text).

(* literal bytes of an attribute value: anything but '&' and '<' *)
Definition lit_b (x : N) : bool := negb (x =? 38) && negb (x =? 60).

(* the value is  pre "&" m ";" rest  *)
Definition attr_value_into (v : slice) : Prop :=
  exists pre m rest,
    sl_start v <= sl_end v /\ sl_end v <= tlen text /\
    slice_bytes text v = pre ++ 38 :: m ++ 59 :: rest /\
    forallb lit_b pre = true /\ ascii_name m /\ predefined_b m = false /\
    is_boundary text (sl_start v + blen pre + blen m + 2) = true /\
    S m.

Definition attr_closed : Prop :=
  forall n, S n -> exists e, find_entity text es n = Some e /\ attr_value_into (en_value e).

Hypothesis Hclosed : attr_closed.

Section Level.
Variable lvl : nat.
Notation rec := (norm_attr_lvl text lvl es).
Hypothesis HB : forall v t ld, attr_value_into v -> (1 <= lvl)%nat ->
  11 <= N.of_nat lvl + ld_depth ld ->
  exists p, rec v t ld = Err (EntityReferenceLoop p).

Lemma na_loop_cycle m rest : ascii_name m -> predefined_b m = false -> S m ->
  forall pre fuel s t ld,
  sat s (pre ++ 38 :: m ++ 59 :: rest) -> forallb lit_b pre = true ->
  is_boundary text (s_pos s + blen pre + blen m + 2) = true ->
  10 <= N.of_nat lvl + ld_depth ld -> (length pre < fuel)%nat ->
  exists p, na_loop text rec es fuel s t ld = Err (EntityReferenceLoop p).
Proof.
  intros Hm Hp HS. induction pre as [|x pre IH]; intros fuel s t ld Hs Hpre Hbnd Hlvl Hfuel;
    (destruct fuel as [|fuel]; [cbn in Hfuel; lia|]); cbn [na_loop].
  - cbn [app] in Hs. destruct (sat_head _ _ _ _ Hs) as (Ha & Hc & _). rewrite Ha, Hc. cbn [bind].
    replace (38 =? 38) with true by reflexivity. cbn [negb].
    destruct (consume_reference_entity _ _ _ _ Hs Hm Hp) as (nm & s3 & Hr & Hnm & Hs3 & P3).
    rewrite Hr. cbn [bind]. rewrite Hnm.
    destruct (Hclosed m HS) as (e & Hfe & Hv). rewrite Hfe.
    assert (W3 : wfl text s3) by apply Hs3.
    assert (B3 : is_boundary text (s_pos s3) = true).
    { rewrite P3. unfold blen in Hbnd. cbn [length] in Hbnd. rewrite N.add_0_r in Hbnd. exact Hbnd. }
    destruct (enter_or_loop text S s3 ld W3 B3) as [[p Hir]|(ld1 & Hir & Hd1 & Hid)].
    { rewrite Hir. cbn [bind]. eauto. }
    rewrite Hir. cbn [bind]. destruct Hid as [[p Hid]|(Hlt & ld2 & Hid & Hd2)].
    { rewrite Hid. cbn [bind]. eauto. }
    rewrite Hid. cbn [bind].
    destruct (HB (en_value e) t ld2 Hv) as [p Hrun]; try lia.
    rewrite Hrun. cbn [bind]. eauto.
  - cbn [app] in Hs. destruct (sat_head _ _ _ _ Hs) as (Ha & Hc & _). rewrite Ha, Hc. cbn [bind].
    cbn [forallb] in Hpre. apply andb_true_iff in Hpre. destruct Hpre as [Hx Hpre]. unfold lit_b in Hx.
    replace (x =? 38) with false by lia. cbn [negb]. replace (x =? 60) with false by lia. cbn [andb].
    destruct (sat_adv1 _ _ _ _ Hs) as (s1 & Ea & Hs1 & P1 & _). rewrite Ea. cbn [bind].
    apply IH; try assumption.
    + rewrite P1. rewrite blen_cons in Hbnd. replace (s_pos s + 1 + blen pre + blen m + 2)
        with (s_pos s + (blen pre + 1) + blen m + 2) by lia. exact Hbnd.
    + cbn [length] in Hfuel. lia.
Qed.
End Level.

Theorem attr_nested_cycle : forall lvl v t ld,
  attr_value_into v -> (1 <= lvl)%nat -> 11 <= N.of_nat lvl + ld_depth ld ->
  exists p, norm_attr_lvl text lvl es v t ld = Err (EntityReferenceLoop p).
Proof.
  induction lvl as [|l IH]; intros v t ld Hv Hl Hlvl; [lia|].
  destruct Hv as (pre & m & rest & Hv1 & Hv2 & Hv3 & Hpre & Hm & Hp & Hb & HS).
  rewrite norm_attr_lvl_S.
  destruct (sat_from_substr text (sl_start v) (sl_end v) _ Hv1 Hv2 Hv3) as (s0 & Hs0 & Hsat & P0 & _).
  rewrite Hs0. cbn [bind].
  eapply (na_loop_cycle l IH m rest Hm Hp HS pre); try eassumption.
  - rewrite P0. exact Hb.
  - lia.
  - destruct Hsat as (_ & _ & z & R). rewrite R, !app_length. lia.
Qed.

(* the attribute value of a start tag: at any detector depth and reference count,
   with any level fuel >= the model's *)
Theorem cycle_in_attribute : forall lvl v t ld,
  (entity_levels <= lvl)%nat -> attr_value_into v ->
  exists p, norm_attr_lvl text lvl es v t ld = Err (EntityReferenceLoop p).
Proof.
  intros lvl v t ld Hlvl Hv. apply attr_nested_cycle; [exact Hv| |];
  unfold entity_levels, ld_max_depth in Hlvl; cbn in Hlvl; lia.
Qed.

Corollary cycle_in_normalize_attribute : forall v c,
  attr_value_into v -> c_entities c = es ->
  exists p, normalize_attribute text v c = Err (EntityReferenceLoop p).
Proof.
  intros v c Hv Hes. unfold normalize_attribute.
  assert (Hex : existsb (fun x => (x =? 38) || (x =? 9) || (x =? 10) || (x =? 13))
                        (slice_bytes text v) = true).
  { destruct Hv as (pre & m & rest & _ & _ & Hv3 & _). rewrite Hv3, existsb_app. cbn [existsb].
    replace (38 =? 38) with true by reflexivity. cbn [orb]. apply orb_true_r. }
  rewrite Hex, Hes.
  destruct (cycle_in_attribute entity_levels v tb_new (c_ld c) (le_n _) Hv) as [p Hp].
  rewrite Hp. cbn [bind]. eauto.
Qed.

Corollary cycle_in_process_attribute : forall r q e p l v c,
  attr_value_into v -> c_entities c = es ->
  exists pos, process_attribute text r q e p l v c = Err (EntityReferenceLoop pos).
Proof.
  intros r q e p l v c Hv Hes. unfold process_attribute.
  destruct (cycle_in_normalize_attribute v c Hv Hes) as [pos Hn]. rewrite Hn. cbn [bind]. eauto.
Qed.

End CycleAttr.
