(* Proofs/CstSound.v -- C08, soundness half on the fragment of Spec/Cst.v, milestone 1:
   the byte-level fragment [in_fragment], the side conditions on the parse result, the statement
   of the theorem and sanity examples (accepted inputs with their witness, rejected inputs, and the
   inputs that show why each condition is there).

   [in_fragment text] (all byte-level, on the input):
     F1  every byte is printable ASCII, TAB or LF        (Cst.is_plain: no CR, no DEL, no byte >= 127)
     F2  no '&' (38) anywhere                            (no references)
     F3  no ':' (58) anywhere                            (no qualified names; Cst names have no ':')
     F4  no "<!D" and no "<![" anywhere                  (no DOCTYPE, no CDATA)
     F5  no "<?xml" anywhere                             (no XML declaration, no PI target xml...)
     F6  no "xmlns" anywhere                             (no namespace declaration; Cst also refuses the
                                                          element / attribute NAME xmlns)
   One condition cannot be read off the bytes without lexing; it is stated on the result:
     S1  [attrs_raw d]   every attribute value is stored Borrowed, i.e. was not normalised: with F1/F2
                         this says the literal value contains no TAB / LF (Cst.wf_attr refuses them)
   (A second one, "a PI content does not start right after the target", was needed for the first
   version of the model: the crate accepted <?a+b?>.  That was a defect, found by this development;
   it is fixed in the crate and in Model/Tokenizer.v parse_pi, see [fixed_pi_sep] below.) *)
From Coq Require Import String.
From Coq Require Import List NArith Bool Lia.
Import ListNotations.
From RX Require Import Generated.
From RX.Model Require Import Base CharClass Stream Tokenizer Doc Builder Parse.
From RX.Spec Require Cst.
Open Scope N_scope.

Definition in_fragment (text : bytes) : bool :=
  forallb Cst.is_plain text &&
  negb (mem_b 38 text) && negb (mem_b 58 text) &&
  negb (contains_b (b "<!D") text) && negb (contains_b (b "<![") text) &&
  negb (contains_b (b "<?xml") text) && negb (contains_b (b "xmlns") text).

Definition attrs_raw (d : document) : Prop :=
  forall a, In a (d_attrs d) -> exists s, ad_value a = Borrowed (SIn s).

(* the statement proved in the last file of the series *)
Definition parse_sound_fragment_stmt : Prop :=
  forall text opt d, in_fragment text = true -> parse text opt = Ok d -> attrs_raw d ->
  exists c : Cst.doc, Cst.wf_doc c = true /\ Cst.render c = text.

(* ------------------------------------------------------------------------------------------ *)
(* Sanity examples                                                                              *)

Definition accepted (text : bytes) : bool := match parse_default text with Ok _ => true | _ => false end.
Definition attrs_raw_b (d : document) : bool :=
  forallb (fun a => match ad_value a with Borrowed (SIn _) => true | _ => false end) (d_attrs d).
Definition side_ok (text : bytes) : bool :=
  match parse_default text with Ok d => attrs_raw_b d | _ => false end.
Definition bytes_eq (x y : bytes) : bool := bytes_eqb x y.
(* [c] is a witness for [text] *)
Definition witness (text : bytes) (c : Cst.doc) : bool :=
  in_fragment text && accepted text && side_ok text && Cst.wf_doc c && bytes_eq (Cst.render c) text.

Definition mkattr ws n w1 w2 q v : Cst.attr :=
  {| Cst.a_ws := ws; Cst.a_name := n; Cst.a_ws1 := w1; Cst.a_ws2 := w2; Cst.a_quote := q; Cst.a_value := v |}.
Definition mkdoc w0 before root after wend : Cst.doc :=
  {| Cst.d_before := before; Cst.d_ws0 := w0; Cst.d_root := root; Cst.d_after := after; Cst.d_ws_end := wend |}.

(* accepted inputs and their abstract documents *)
Example ex_ok1 : witness (b "<a/>") (mkdoc [] [] (Cst.IElem (b "a") [] [] None) [] []) = true.
Proof. vm_compute. reflexivity. Qed.
Example ex_ok2 :
  witness (b " <!--c--> <?p q r?><a b = 'x' c=""y>"" ><b/>t<!--d--><?z?></a > <!--e--> ")
    (mkdoc (b " ") [(Cst.IComment (b "c"), b " "); (Cst.IPI (b "p") (b " ") (b "q r"), [])]
       (Cst.IElem (b "a") [mkattr (b " ") (b "b") (b " ") (b " ") 39 (b "x");
                           mkattr (b " ") (b "c") [] [] 34 (b "y>")] (b " ")
          (Some ([Cst.IElem (b "b") [] [] None; Cst.IText (b "t"); Cst.IComment (b "d"); Cst.IPI (b "z") [] []], b " ")))
       [(b " ", Cst.IComment (b "e"))] (b " ")) = true.
Proof. vm_compute. reflexivity. Qed.
Example ex_ok3 : witness (b "<a><b><c></c></b><b/></a>")
    (mkdoc [] [] (Cst.IElem (b "a") [] [] (Some ([Cst.IElem (b "b") [] [] (Some ([Cst.IElem (b "c") [] [] (Some ([], []))], []));
                                                     Cst.IElem (b "b") [] [] None], []))) [] []) = true.
Proof. vm_compute. reflexivity. Qed.
Example ex_ok4 : witness (b "<x-1._y>  a > b ]] </x-1._y>")
    (mkdoc [] [] (Cst.IElem (b "x-1._y") [] [] (Some ([Cst.IText (b "  a > b ]] ")], []))) [] []) = true.
Proof. vm_compute. reflexivity. Qed.
Example ex_ok5 : witness (b "<?XML v?><r/>")   (* only the lower-case target is reserved in Cst *)
    (mkdoc [] [(Cst.IPI (b "XML") (b " ") (b "v"), [])] (Cst.IElem (b "r") [] [] None) [] []) = true.
Proof. vm_compute. reflexivity. Qed.

(* inputs of the fragment that the parser rejects (and that no well-formed document renders to) *)
Example ex_rej1 : in_fragment (b "<a><b></a></b>") && negb (accepted (b "<a><b></a></b>")) = true.
Proof. vm_compute. reflexivity. Qed.
Example ex_rej2 : in_fragment (b "<a b='1' b='2'/>") && negb (accepted (b "<a b='1' b='2'/>")) = true.
Proof. vm_compute. reflexivity. Qed.
Example ex_rej3 : in_fragment (b "<a b='1'c='2'/>") && negb (accepted (b "<a b='1'c='2'/>")) = true.
Proof. vm_compute. reflexivity. Qed.
Example ex_rej4 : in_fragment (b "<a>]]></a>") && negb (accepted (b "<a>]]></a>")) = true.
Proof. vm_compute. reflexivity. Qed.
Example ex_rej5 : in_fragment (b "<!--a---><a/>") && negb (accepted (b "<!--a---><a/>")) = true.
Proof. vm_compute. reflexivity. Qed.
Example ex_rej6 : in_fragment (b "<a/><b/>") && negb (accepted (b "<a/><b/>")) = true.
Proof. vm_compute. reflexivity. Qed.
Example ex_rej7 : in_fragment (b "<a>") && negb (accepted (b "<a>")) = true.
Proof. vm_compute. reflexivity. Qed.
Example ex_rej8 : in_fragment (b "x<a/>") && negb (accepted (b "x<a/>")) && negb (accepted (b "<a/>x"))
                  && negb (accepted (b "")) && negb (accepted (b "<!--c-->")) = true.
Proof. vm_compute. reflexivity. Qed.
Example ex_rej9 : in_fragment (b "<a b='<'/>") && negb (accepted (b "<a b='<'/>")) = true.
Proof. vm_compute. reflexivity. Qed.

(* why the conditions are there: accepted inputs that are NOT renderings of well-formed documents.
   Each is accepted, satisfies all the other conditions, and fails exactly the one named. *)
Definition only_fails (text : bytes) (cond : bool) : bool := accepted text && negb cond.
(* a PI content glued to the target (production [16] wants a separator): accepted by the first
   version of the model, rejected since the fix of parse_pi *)
Example fixed_pi_sep : in_fragment (b "<?a+b?><r/>") && negb (accepted (b "<?a+b?><r/>"))
                       && accepted (b "<?a?><r/>") && accepted (b "<?a ?><r/>") && accepted (b "<?a b?><r/>") = true.
Proof. vm_compute. reflexivity. Qed.
(* S1: TAB / LF in an attribute value is legal XML; the value is normalised, Cst.wf_attr excludes it *)
Example cex_attr_tab : in_fragment (b "<a b='x	y'/>") && only_fails (b "<a b='x	y'/>") (side_ok (b "<a b='x	y'/>")) = true.
Proof. vm_compute. reflexivity. Qed.
(* F5: the crate accepts the reserved PI target xml when it is not followed by a space (0x20) *)
Example cex_pi_xml : side_ok (b "<?xml?><r/>") && only_fails (b "<?xml?><r/>") (in_fragment (b "<?xml?><r/>"))
                     && side_ok (b "<r><?xml	x?></r>") && only_fails (b "<r><?xml	x?></r>") (in_fragment (b "<r><?xml	x?></r>")) = true.
Proof. vm_compute. reflexivity. Qed.
(* F6: legal XML that Cst.wf_item excludes (an element named xmlns; a default namespace declaration) *)
Example cex_xmlns : side_ok (b "<xmlns/>") && only_fails (b "<xmlns/>") (in_fragment (b "<xmlns/>"))
                    && side_ok (b "<a xmlns='u'/>") && only_fails (b "<a xmlns='u'/>") (in_fragment (b "<a xmlns='u'/>")) = true.
Proof. vm_compute. reflexivity. Qed.
(* F3: ':' is a NameChar for the crate: xml:lang, and PI targets with ':' *)
Example cex_colon : side_ok (b "<a xml:lang='en'/>") && only_fails (b "<a xml:lang='en'/>") (in_fragment (b "<a xml:lang='en'/>"))
                    && side_ok (b "<?a:b?><r/>") && only_fails (b "<?a:b?><r/>") (in_fragment (b "<?a:b?><r/>")) = true.
Proof. vm_compute. reflexivity. Qed.
