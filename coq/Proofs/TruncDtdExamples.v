(* TruncDtdExamples.v -- C08, truncation, general case: a document with a DOCTYPE whose entity
   holds an element and is expanded twice; every prefix by vm_compute, and the theorem applied. *)
From Coq Require Import Ascii String.
From Coq Require Import Lia ZifyBool ZifyN ZifyNat.
From RX.Model Require Import Base CharClass Stream Tokenizer Doc Builder Parse.
From RX.Proofs Require Import TruncMain TruncExamples TruncDtdMain.

Definition doc3 : bytes :=
  b "<!DOCTYPE r [<!ENTITY a ""<x>y</x>""><!ENTITY b ""&a;z""><!ENTITY c ""w"">]><r q=""&c;"">&a;t&b;</r> ".

Example doc3_accepted : is_ok (parse doc3 o) = true.
Proof. vm_compute. reflexivity. Qed.

(* no prefix shorter than the end of the root element that is valid UTF-8 is accepted;
   all are rejected with an error *)
Example doc3_all_prefixes : check doc3 = Some (92, []).
Proof. vm_compute. reflexivity. Qed.

Example doc3_instance : forall n d, parse doc3 o = Ok d -> n < root_element_end d ->
  valid_utf8_b (firstn_N n doc3) = true -> exists e, parse (firstn_N n doc3) o = Err e.
Proof.
  intros n d Hd Hn Hv.
  eapply (truncation_rejected doc3 o d n); [ | | exact Hd | exact Hn | exact Hv ].
  - apply N.leb_le. vm_compute. reflexivity.
  - vm_compute. reflexivity.
Qed.

(* skipped declarations whose quoted literals contain '>' and the other quote: a cut inside such a
   declaration, inside a literal or not, is rejected like any other *)
Definition doc4 : bytes :=
  b "<!DOCTYPE r [<!NOTATION n SYSTEM '>""'><!ATTLIST r a CDATA "">'""><!ENTITY e ""v"">]><r>&e;</r> ".

Example doc4_accepted : is_ok (parse doc4 o) = true.
Proof. vm_compute. reflexivity. Qed.

Example doc4_all_prefixes : check doc4 = Some (90, []).
Proof. vm_compute. reflexivity. Qed.
