(* Proofs/NsRejDefs.v -- C06/C08, rejection half for Spec/CstNs.v, the part without the parser.
   [CstNs.wf_doc] is split into the syntactic conditions [wf_syntax_ns] (layout, NCNames, values,
   no adjacent texts, ...) and the namespace conditions N1-N7 [ns_conditions]
   ([wf_doc_split_ns]).  [first_violation] computes, in the order in which the parser checks
   them, the first namespace rule a document violates; it is [None] exactly when
   [ns_conditions] holds ([ns_conditions_first]).

   Order of the checks (the order of roxmltree): start tags in document order; within one start
   tag: N1 (prefix of the element name), then the declarations in source order (N3, N4, N5, N6 --
   for xmlns="..." the order is N5, N4, N6), then the ordinary attributes in source order (N2 then
   N7 for each), then N2 for the element name. *)
From Coq Require Import List NArith PeanoNat Bool Btauto Lia ZifyBool ZifyN ZifyNat.
Import ListNotations.
From RX.Spec Require Cst Scope.
From RX.Spec Require Import CstNs.
From RX.Proofs Require Import CstNsTree.
Open Scope N_scope.

(* ------------------------------------------------------------------------------------------ *)
(* the split of wf_doc                                                                        *)
(* ------------------------------------------------------------------------------------------ *)

Definition syn_entry (e : entry) : bool :=
  wf_layout (e_layout e) && wf_value (l_quote (e_layout e)) (e_value e) &&
  match e with
  | EAttr _ n _ =>
    wf_qname n && negb (Scope.bytes_eqb (q_prefix n) xmlns_b)
    && negb (match q_prefix n with [] => Scope.bytes_eqb (q_local n) xmlns_b | _ => false end)
  | EDecl _ p u => match p with [] => true | _ => Cst.wf_name p end
  end.

Definition ns_entry (e : entry) : bool :=
  match e with
  | EAttr _ _ _ => true
  | EDecl _ p u =>
    negb (Scope.bytes_eqb p xmlns_b)                                                     (* N3 *)
    && negb (Scope.bytes_eqb u xmlns_uri)                                                (* N4 *)
    && (if Scope.bytes_eqb p Scope.xml_prefix then Scope.bytes_eqb u Scope.xml_uri
        else negb (Scope.bytes_eqb u Scope.xml_uri))                                     (* N5 *)
  end.

Lemma wf_entry_split e : wf_entry e = syn_entry e && ns_entry e.
Proof.
  destruct e as [l n v|l p u]; unfold wf_entry, syn_entry, ns_entry.
  - rewrite andb_true_r. reflexivity.
  - rewrite !andb_assoc. reflexivity.
Qed.

Lemma forallb_andb {A} (f g h : A -> bool) l : (forall x, f x = g x && h x) ->
  forallb f l = forallb g l && forallb h l.
Proof.
  intros H. induction l as [|x l IH]; [reflexivity|]. cbn [forallb]. rewrite H, IH.
  destruct (g x), (h x), (forallb g l), (forallb h l); reflexivity.
Qed.

Lemma wf_entries_split es : forallb wf_entry es = forallb syn_entry es && forallb ns_entry es.
Proof. apply forallb_andb. apply wf_entry_split. Qed.

(* the namespace conditions of one start tag *)
Definition ns_tag (inh : list Scope.binding) (name : qname) (es : list entry) : bool :=
  let sc := esc es inh in
  negb (Scope.bytes_eqb (q_prefix name) xmlns_b)                                         (* N1 *)
  && forallb ns_entry es                                                                 (* N3-N5 *)
  && Scope.prefixes_unique (own_bindings es)                                             (* N6 *)
  && is_bound (Scope.resolve_elem sc (q_prefix name))                                    (* N2 *)
  && forallb (fun e => match e with EAttr _ n _ => is_bound (Scope.resolve_attr sc (q_prefix n))
                                   | EDecl _ _ _ => true end) es                         (* N2 *)
  && enames_distinct (map (fun a => (fst (fst a), snd (fst a))) (sem_attrs sc es)).      (* N7 *)

Fixpoint syn_item (i : item) : bool :=
  match i with
  | IElem name es ws_end body =>
    wf_qname name && forallb syn_entry es && Cst.wf_ws ws_end &&
    match body with
    | None => true
    | Some (children, ws2) =>
      Cst.wf_ws ws2 && no_adj children &&
      (fix all (l : list item) : bool := match l with [] => true | c :: r => syn_item c && all r end) children
    end
  | IText bs => Cst.wf_item (Cst.IText bs)
  | IComment bs => Cst.wf_item (Cst.IComment bs)
  | IPI t s v => Cst.wf_item (Cst.IPI t s v)
  end.
Fixpoint syn_items (l : list item) : bool :=
  match l with [] => true | c :: r => syn_item c && syn_items r end.

Fixpoint ns_item (inh : list Scope.binding) (i : item) : bool :=
  match i with
  | IElem name es _ body =>
    ns_tag inh name es &&
    match body with
    | None => true
    | Some (children, _) =>
      (fix all (l : list item) : bool :=
         match l with [] => true | c :: r => ns_item (esc es inh) c && all r end) children
    end
  | _ => true
  end.
Fixpoint ns_items (inh : list Scope.binding) (l : list item) : bool :=
  match l with [] => true | c :: r => ns_item inh c && ns_items inh r end.

Lemma syn_item_elem name es ws body :
  syn_item (IElem name es ws body) =
  wf_qname name && forallb syn_entry es && Cst.wf_ws ws &&
  match body with None => true | Some (cs, ws2) => Cst.wf_ws ws2 && no_adj cs && syn_items cs end.
Proof.
  destruct body as [[cs ws2]|]; [|reflexivity]. cbn [syn_item].
  assert (E : (fix all (l : list item) : bool := match l with [] => true | c :: r => syn_item c && all r end) cs = syn_items cs).
  { induction cs as [|c r IH]; [reflexivity|]. cbn [syn_items]. rewrite <- IH. reflexivity. }
  rewrite E. reflexivity.
Qed.

Lemma ns_item_elem inh name es ws body :
  ns_item inh (IElem name es ws body) =
  ns_tag inh name es && match body with None => true | Some (cs, _) => ns_items (esc es inh) cs end.
Proof.
  destruct body as [[cs ws2]|]; [|reflexivity]. cbn [ns_item].
  assert (E : (fix all (l : list item) : bool :=
                 match l with [] => true | c :: r => ns_item (esc es inh) c && all r end) cs = ns_items (esc es inh) cs).
  { induction cs as [|c r IH]; [reflexivity|]. cbn [ns_items]. rewrite <- IH. reflexivity. }
  rewrite E. reflexivity.
Qed.

Lemma wf_item_split : forall i inh, wf_item inh i = syn_item i && ns_item inh i.
Proof.
  intros i. induction i as [n a w|n a w cs w2 IH|bs|bs|t s v] using item_ind'; intros inh;
    try (cbn [wf_item syn_item ns_item]; rewrite andb_true_r; reflexivity).
  - rewrite wf_item_elem, syn_item_elem, ns_item_elem. cbv zeta. unfold ns_tag. cbv zeta.
    rewrite wf_entries_split.
    generalize (wf_qname n) (Scope.bytes_eqb (q_prefix n) xmlns_b) (forallb syn_entry a) (forallb ns_entry a)
      (Scope.prefixes_unique (own_bindings a)) (is_bound (Scope.resolve_elem (esc a inh) (q_prefix n)))
      (forallb (fun e => match e with EAttr _ n0 _ => is_bound (Scope.resolve_attr (esc a inh) (q_prefix n0))
                                     | EDecl _ _ _ => true end) a)
      (enames_distinct (map (fun a0 => (fst (fst a0), snd (fst a0))) (sem_attrs (esc a inh) a)))
      (Cst.wf_ws w).
    intros b1 b2 b3 b4 b5 b6 b7 b8 b9. btauto.
  - rewrite wf_item_elem, syn_item_elem, ns_item_elem. cbv zeta. unfold ns_tag. cbv zeta.
    rewrite wf_entries_split.
    assert (Hcs : wf_items (esc a inh) cs = syn_items cs && ns_items (esc a inh) cs).
    { generalize (esc a inh). intros sc. induction IH as [|c r Hc _ IHr]; [reflexivity|].
      cbn [wf_items syn_items ns_items]. rewrite Hc, IHr.
      destruct (syn_item c), (ns_item sc c), (syn_items r), (ns_items sc r); reflexivity. }
    rewrite Hcs.
    generalize (wf_qname n) (Scope.bytes_eqb (q_prefix n) xmlns_b) (forallb syn_entry a) (forallb ns_entry a)
      (Scope.prefixes_unique (own_bindings a)) (is_bound (Scope.resolve_elem (esc a inh) (q_prefix n)))
      (forallb (fun e => match e with EAttr _ n0 _ => is_bound (Scope.resolve_attr (esc a inh) (q_prefix n0))
                                     | EDecl _ _ _ => true end) a)
      (enames_distinct (map (fun a0 => (fst (fst a0), snd (fst a0))) (sem_attrs (esc a inh) a)))
      (Cst.wf_ws w) (Cst.wf_ws w2) (no_adj cs) (syn_items cs) (ns_items (esc a inh) cs).
    intros b1 b2 b3 b4 b5 b6 b7 b8 b9 b10 b11 b12 b13. btauto.
Qed.

Lemma misc_ns_true i inh : is_misc i = true -> ns_item inh i = true.
Proof. destruct i; try discriminate; reflexivity. Qed.

(* everything in wf_doc that is not one of N1-N7 *)
Definition wf_syntax_ns (d : doc) : bool :=
  Cst.wf_ws (d_ws0 d) && Cst.wf_ws (d_ws_end d) &&
  forallb (fun p => is_misc (fst p) && syn_item (fst p) && Cst.wf_ws (snd p)) (d_before d) &&
  match d_root d with IElem _ _ _ _ => syn_item (d_root d) | _ => false end &&
  forallb (fun p => Cst.wf_ws (fst p) && is_misc (snd p) && syn_item (snd p)) (d_after d).

(* N1-N7 on every start tag (comments and PIs have no names) *)
Definition ns_conditions (d : doc) : bool := ns_item [] (d_root d).

Lemma forallb_ext' {A} (f g : A -> bool) l : (forall x, f x = g x) -> forallb f l = forallb g l.
Proof. intros H. induction l as [|x l IH]; [reflexivity|]. cbn [forallb]. rewrite H, IH. reflexivity. Qed.

Theorem wf_doc_split_ns d : wf_doc d = wf_syntax_ns d && ns_conditions d.
Proof.
  unfold wf_doc, wf_syntax_ns, ns_conditions.
  rewrite (forallb_ext' (fun p => is_misc (fst p) && wf_item [] (fst p) && Cst.wf_ws (snd p))
                        (fun p => is_misc (fst p) && syn_item (fst p) && Cst.wf_ws (snd p))).
  2:{ intros [i w]. cbn [fst snd]. rewrite wf_item_split. destruct (is_misc i) eqn:E; [|reflexivity].
      rewrite (misc_ns_true i [] E), andb_true_r. reflexivity. }
  rewrite (forallb_ext' (fun p => Cst.wf_ws (fst p) && is_misc (snd p) && wf_item [] (snd p))
                        (fun p => Cst.wf_ws (fst p) && is_misc (snd p) && syn_item (snd p))).
  2:{ intros [w i]. cbn [fst snd]. rewrite wf_item_split. destruct (is_misc i) eqn:E; [|rewrite !andb_false_r; reflexivity].
      rewrite (misc_ns_true i [] E), !andb_true_r. reflexivity. }
  destruct (d_root d) as [n a w body| | |]; try (rewrite !andb_false_r; reflexivity).
  rewrite (wf_item_split (IElem n a w body) []).
  generalize (Cst.wf_ws (d_ws0 d)) (Cst.wf_ws (d_ws_end d)) (syn_item (IElem n a w body)) (ns_item [] (IElem n a w body))
    (forallb (fun p => is_misc (fst p) && syn_item (fst p) && Cst.wf_ws (snd p)) (d_before d))
    (forallb (fun p => Cst.wf_ws (fst p) && is_misc (snd p) && syn_item (snd p)) (d_after d)).
  intros b1 b2 b3 b4 b5 b6. btauto.
Qed.

(* ------------------------------------------------------------------------------------------ *)
(* the first violated rule, in the order of the parser                                        *)
(* ------------------------------------------------------------------------------------------ *)

Inductive rule :=
| ElemPrefixXmlns                (* N1: the element name has the prefix xmlns *)
| UnboundPrefix (p : Scope.bytes)      (* N2: a prefix of an element or attribute name is not bound *)
| DeclXmlns                      (* N3: xmlns:xmlns="..." *)
| XmlnsUriBound                  (* N4: the xmlns URI is bound *)
| XmlPrefixOtherUri              (* N5: xmlns:xml with another URI *)
| XmlUriOtherPrefix              (* N5: the xml URI on another prefix or as the default namespace *)
| DupPrefix (p : Scope.bytes)          (* N6: xmlns:p twice on one tag *)
| DupDefault                     (* N6: xmlns= twice on one tag *)
| DupAttr (local : Scope.bytes).       (* N7: two attributes with one expanded name *)

Definition is_none {A} (o : option A) : bool := match o with None => true | Some _ => false end.

(* own1: the bindings declared so far on this tag *)
Definition declared (own1 : list Scope.binding) (p : option Scope.bytes) : bool :=
  existsb (fun o => Scope.prefix_eqb (fst o) p) own1.

Definition entry_viol (own1 : list Scope.binding) (e : entry) : option rule :=
  match e with
  | EAttr _ _ _ => None
  | EDecl _ [] u =>
    if Scope.bytes_eqb u Scope.xml_uri then Some XmlUriOtherPrefix
    else if Scope.bytes_eqb u xmlns_uri then Some XmlnsUriBound
    else if declared own1 None then Some DupDefault
    else None
  | EDecl _ p u =>
    if Scope.bytes_eqb p xmlns_b then Some DeclXmlns
    else if Scope.bytes_eqb u xmlns_uri then Some XmlnsUriBound
    else if Scope.bytes_eqb p Scope.xml_prefix then
      (if Scope.bytes_eqb u Scope.xml_uri then None else Some XmlPrefixOtherUri)
    else if Scope.bytes_eqb u Scope.xml_uri then Some XmlUriOtherPrefix
    else if declared own1 (Some p) then Some (DupPrefix p)
    else None
  end.

Fixpoint entries_viol (own1 : list Scope.binding) (es : list entry) : option rule :=
  match es with
  | [] => None
  | e :: r =>
    match entry_viol own1 e with
    | Some x => Some x
    | None => entries_viol (own1 ++ own_bindings [e]) r
    end
  end.

(* the ordinary attributes of a tag: (prefix, local) in source order *)
Definition attr_names (es : list entry) : list (Scope.bytes * Scope.bytes) :=
  flat_map (fun e => match e with EAttr _ n _ => [(q_prefix n, q_local n)] | EDecl _ _ _ => [] end) es.
Definition ename_of (sc : list Scope.binding) (pl : Scope.bytes * Scope.bytes) : option Scope.bytes * Scope.bytes :=
  (ns_of (Scope.resolve_attr sc (fst pl)), snd pl).

Fixpoint pl_viol (sc : list Scope.binding) (seen : list (option Scope.bytes * Scope.bytes)) (l : list (Scope.bytes * Scope.bytes))
  : option rule :=
  match l with
  | [] => None
  | pl :: r =>
    if is_bound (Scope.resolve_attr sc (fst pl)) then
      if existsb (fun x => ename_eqb x (ename_of sc pl)) seen then Some (DupAttr (snd pl))
      else pl_viol sc (seen ++ [ename_of sc pl]) r
    else Some (UnboundPrefix (fst pl))
  end.

Definition tag_viol (inh : list Scope.binding) (name : qname) (es : list entry) : option rule :=
  if Scope.bytes_eqb (q_prefix name) xmlns_b then Some ElemPrefixXmlns else
  match entries_viol [] es with
  | Some x => Some x
  | None =>
    let sc := esc es inh in
    match pl_viol sc [] (attr_names es) with
    | Some x => Some x
    | None => if is_bound (Scope.resolve_elem sc (q_prefix name)) then None
              else Some (UnboundPrefix (q_prefix name))
    end
  end.

Fixpoint item_viol (inh : list Scope.binding) (i : item) : option rule :=
  match i with
  | IElem name es _ body =>
    match tag_viol inh name es with
    | Some x => Some x
    | None =>
      match body with
      | None => None
      | Some (children, _) =>
        (fix go (l : list item) : option rule :=
           match l with
           | [] => None
           | c :: r => match item_viol (esc es inh) c with Some x => Some x | None => go r end
           end) children
      end
    end
  | _ => None
  end.
Fixpoint items_viol (inh : list Scope.binding) (l : list item) : option rule :=
  match l with
  | [] => None
  | c :: r => match item_viol inh c with Some x => Some x | None => items_viol inh r end
  end.

Lemma item_viol_elem inh name es ws body :
  item_viol inh (IElem name es ws body) =
  match tag_viol inh name es with
  | Some x => Some x
  | None => match body with None => None | Some (cs, _) => items_viol (esc es inh) cs end
  end.
Proof.
  destruct body as [[cs ws2]|]; [|reflexivity]. cbn [item_viol]. destruct (tag_viol inh name es); [reflexivity|].
  induction cs as [|c r IH]; [reflexivity|]. cbn [items_viol]. rewrite <- IH. reflexivity.
Qed.

Definition first_violation (d : doc) : option rule := item_viol [] (d_root d).

(* ---- prefixes_unique / enames_distinct, seen from the end of the list ---- *)
Lemma sbytes_eqb_sym : forall x y, Scope.bytes_eqb x y = Scope.bytes_eqb y x.
Proof.
  induction x as [|a x IH]; intros [|c y]; cbn [Scope.bytes_eqb]; try reflexivity.
  rewrite IH, N.eqb_sym. reflexivity.
Qed.

Lemma sprefix_eqb_sym x y : Scope.prefix_eqb x y = Scope.prefix_eqb y x.
Proof. destruct x, y; cbn [Scope.prefix_eqb]; try reflexivity. apply sbytes_eqb_sym. Qed.

Lemma bool_snoc (a p u e : bool) : negb (a || p) && (u && negb e) = negb a && u && negb (p || e).
Proof. destruct a, p, u, e; reflexivity. Qed.

Lemma pu_snoc : forall own1 b0,
  Scope.prefixes_unique (own1 ++ [b0]) = Scope.prefixes_unique own1 && negb (declared own1 (fst b0)).
Proof.
  unfold declared. induction own1 as [|x l IH]; intros b0; cbn [app Scope.prefixes_unique existsb]; [reflexivity|].
  rewrite IH, existsb_app. cbn [existsb]. rewrite orb_false_r, (sprefix_eqb_sym (fst b0) (fst x)).
  apply bool_snoc.
Qed.

Lemma pu_app_l : forall l1 l2, Scope.prefixes_unique (l1 ++ l2) = true -> Scope.prefixes_unique l1 = true.
Proof.
  induction l1 as [|x l1 IH]; intros l2 H; [reflexivity|]. cbn [app Scope.prefixes_unique] in *.
  apply andb_true_iff in H. destruct H as [H1 H2]. rewrite (IH _ H2), andb_true_r.
  rewrite existsb_app in H1. apply negb_true_iff in H1. apply orb_false_iff in H1. destruct H1 as [H1 _].
  apply negb_true_iff. exact H1.
Qed.

Lemma ename_eqb_sym x y : ename_eqb x y = ename_eqb y x.
Proof. unfold ename_eqb. rewrite sprefix_eqb_sym, sbytes_eqb_sym. reflexivity. Qed.

Lemma ed_snoc : forall l x,
  enames_distinct (l ++ [x]) = enames_distinct l && negb (existsb (fun y => ename_eqb y x) l).
Proof.
  induction l as [|a l IH]; intros x; cbn [app enames_distinct existsb]; [reflexivity|].
  rewrite IH, existsb_app. cbn [existsb]. rewrite orb_false_r, (ename_eqb_sym a x).
  apply bool_snoc.
Qed.

Lemma ed_app_l : forall l1 l2, enames_distinct (l1 ++ l2) = true -> enames_distinct l1 = true.
Proof.
  induction l1 as [|x l1 IH]; intros l2 H; [reflexivity|]. cbn [app enames_distinct] in *.
  apply andb_true_iff in H. destruct H as [H1 H2]. rewrite (IH _ H2), andb_true_r.
  rewrite existsb_app in H1. apply negb_true_iff in H1. apply orb_false_iff in H1. destruct H1 as [H1 _].
  apply negb_true_iff. exact H1.
Qed.

Lemma own_cons' e es : own_bindings (e :: es) = own_bindings [e] ++ own_bindings es.
Proof. unfold own_bindings. cbn [flat_map]. rewrite app_nil_r. reflexivity. Qed.

Lemma own_app es1 es2 : own_bindings (es1 ++ es2) = own_bindings es1 ++ own_bindings es2.
Proof. unfold own_bindings. apply flat_map_app. Qed.

(* ---- one declaration ---- *)
Lemma dup_none {A} (d : bool) (x : A) : negb d = is_none (if d then Some x else None).
Proof. destruct d; reflexivity. Qed.

Lemma entry_viol_spec own1 e : Scope.prefixes_unique own1 = true ->
  ns_entry e && Scope.prefixes_unique (own1 ++ own_bindings [e]) = is_none (entry_viol own1 e).
Proof.
  intros Hu. destruct e as [l n v|l p u].
  - cbn. rewrite app_nil_r. exact Hu.
  - unfold ns_entry, entry_viol, own_bindings. cbn [flat_map]. rewrite app_nil_r.
    destruct p as [|x p].
    + change (Scope.bytes_eqb [] xmlns_b) with false. change (Scope.bytes_eqb [] Scope.xml_prefix) with false.
      cbv iota. rewrite pu_snoc, Hu. cbn [fst negb andb].
      destruct (Scope.bytes_eqb u Scope.xml_uri), (Scope.bytes_eqb u xmlns_uri), (declared own1 None); reflexivity.
    + destruct (Scope.bytes_eqb (x :: p) xmlns_b); [reflexivity|].
      destruct (Scope.bytes_eqb u xmlns_uri); [reflexivity|]. cbn [negb andb].
      destruct (Scope.bytes_eqb (x :: p) Scope.xml_prefix).
      * rewrite app_nil_r, Hu, andb_true_r. destruct (Scope.bytes_eqb u Scope.xml_uri); reflexivity.
      * destruct (Scope.bytes_eqb u Scope.xml_uri); [reflexivity|]. cbn [negb andb].
        rewrite pu_snoc, Hu. cbn [fst andb]. apply dup_none.
Qed.

Lemma entries_viol_spec : forall es own1, Scope.prefixes_unique own1 = true ->
  forallb ns_entry es && Scope.prefixes_unique (own1 ++ own_bindings es) = is_none (entries_viol own1 es).
Proof.
  induction es as [|e es IH]; intros own1 Hu.
  - cbn. rewrite app_nil_r. exact Hu.
  - cbn [forallb entries_viol]. rewrite own_cons', app_assoc. pose proof (entry_viol_spec own1 e Hu) as He.
    destruct (entry_viol own1 e) as [x|]; cbn [is_none] in *.
    + apply andb_false_iff in He. destruct He as [He|He]; [rewrite He; reflexivity|].
      destruct (Scope.prefixes_unique ((own1 ++ own_bindings [e]) ++ own_bindings es)) eqn:E.
      * apply pu_app_l in E. congruence.
      * apply andb_false_r.
    + apply andb_true_iff in He. destruct He as [He1 He2]. rewrite He1. cbn [andb]. apply IH. exact He2.
Qed.

(* what precedes the first violation among the declarations is fine *)
Lemma entries_viol_split : forall es own1 x, entries_viol own1 es = Some x ->
  exists es1 e es2, es = es1 ++ e :: es2 /\ entries_viol own1 es1 = None /\
                    entry_viol (own1 ++ own_bindings es1) e = Some x.
Proof.
  induction es as [|e es IH]; intros own1 x H; [discriminate|]. cbn [entries_viol] in H.
  destruct (entry_viol own1 e) as [y|] eqn:Ee.
  - injection H as <-. exists [], e, es. split; [reflexivity|]. split; [reflexivity|].
    cbn. rewrite app_nil_r. exact Ee.
  - destruct (IH _ _ H) as (es1 & e' & es2 & -> & H1 & H2). exists (e :: es1), e', es2.
    split; [reflexivity|]. split; [cbn [entries_viol]; rewrite Ee; exact H1|].
    rewrite own_cons', app_assoc. exact H2.
Qed.

(* ---- the ordinary attributes ---- *)
Lemma sem_attrs_names sc es :
  map (fun a => (fst (fst a), snd (fst a))) (sem_attrs sc es) = map (ename_of sc) (attr_names es).
Proof.
  unfold sem_attrs, attr_names. induction es as [|e es IH]; [reflexivity|]. cbn [flat_map].
  rewrite !map_app, IH. destruct e; reflexivity.
Qed.

Lemma bound_names sc es :
  forallb (fun e => match e with EAttr _ n _ => is_bound (Scope.resolve_attr sc (q_prefix n)) | EDecl _ _ _ => true end) es =
  forallb (fun pl => is_bound (Scope.resolve_attr sc (fst pl))) (attr_names es).
Proof.
  unfold attr_names. induction es as [|e es IH]; [reflexivity|]. cbn [flat_map forallb].
  rewrite forallb_app, IH. destruct e; cbn [forallb fst]; [rewrite andb_true_r|]; reflexivity.
Qed.

Lemma pl_viol_spec sc : forall l seen, enames_distinct seen = true ->
  forallb (fun pl => is_bound (Scope.resolve_attr sc (fst pl))) l && enames_distinct (seen ++ map (ename_of sc) l)
  = is_none (pl_viol sc seen l).
Proof.
  induction l as [|pl l IH]; intros seen Hd.
  - cbn. rewrite app_nil_r. exact Hd.
  - cbn [forallb map pl_viol]. destruct (is_bound (Scope.resolve_attr sc (fst pl))); [|reflexivity]. cbn [andb].
    replace (seen ++ ename_of sc pl :: map (ename_of sc) l) with ((seen ++ [ename_of sc pl]) ++ map (ename_of sc) l)
      by (rewrite <- app_assoc; reflexivity).
    pose proof (ed_snoc seen (ename_of sc pl)) as Hs. rewrite Hd in Hs. cbn [andb] in Hs.
    destruct (existsb (fun x => ename_eqb x (ename_of sc pl)) seen); cbn [negb] in Hs.
    + cbn [is_none].
      destruct (enames_distinct ((seen ++ [ename_of sc pl]) ++ map (ename_of sc) l)) eqn:E.
      * apply ed_app_l in E. congruence.
      * apply andb_false_r.
    + apply IH. exact Hs.
Qed.

(* ---- a start tag ---- *)
Lemma tag_viol_spec inh name es : ns_tag inh name es = is_none (tag_viol inh name es).
Proof.
  unfold ns_tag, tag_viol. cbv zeta.
  destruct (Scope.bytes_eqb (q_prefix name) xmlns_b); [reflexivity|]. cbn [negb andb].
  pose proof (entries_viol_spec es [] eq_refl) as H1. cbn [app] in H1.
  pose proof (pl_viol_spec (esc es inh) (attr_names es) [] eq_refl) as H2. cbn [app] in H2.
  rewrite <- sem_attrs_names, <- bound_names in H2.
  destruct (entries_viol [] es); cbn [is_none] in *.
  - rewrite H1. reflexivity.
  - rewrite H1. cbn [andb]. destruct (pl_viol (esc es inh) [] (attr_names es)); cbn [is_none] in *.
    + rewrite <- andb_assoc, H2. apply andb_false_r.
    + rewrite <- andb_assoc, H2, andb_true_r. destruct (is_bound (Scope.resolve_elem (esc es inh) (q_prefix name))); reflexivity.
Qed.

(* what holds of a tag before its first violation *)
Lemma entries_viol_none es own1 : Scope.prefixes_unique own1 = true -> entries_viol own1 es = None ->
  forallb ns_entry es = true /\ Scope.prefixes_unique (own1 ++ own_bindings es) = true.
Proof.
  intros Hu H. pose proof (entries_viol_spec es own1 Hu) as S. rewrite H in S. cbn [is_none] in S.
  apply andb_true_iff in S. exact S.
Qed.

Lemma pl_viol_none sc l : pl_viol sc [] l = None ->
  forallb (fun pl => is_bound (Scope.resolve_attr sc (fst pl))) l = true /\ enames_distinct (map (ename_of sc) l) = true.
Proof.
  intros H. pose proof (pl_viol_spec sc l [] eq_refl) as S. rewrite H in S. cbn [is_none app] in S.
  apply andb_true_iff in S. exact S.
Qed.

(* ---- items and documents ---- *)
Lemma item_viol_spec : forall i inh, ns_item inh i = is_none (item_viol inh i).
Proof.
  intros i. induction i as [n a w|n a w cs w2 IH|bs|bs|t s v] using item_ind'; intros inh; try reflexivity.
  - rewrite ns_item_elem, item_viol_elem, tag_viol_spec. destruct (tag_viol inh n a); reflexivity.
  - rewrite ns_item_elem, item_viol_elem, tag_viol_spec. destruct (tag_viol inh n a); [reflexivity|]. cbn [is_none andb].
    generalize (esc a inh). intros sc. induction IH as [|c r Hc _ IHr]; [reflexivity|].
    cbn [ns_items items_viol]. rewrite Hc, IHr. destruct (item_viol sc c); reflexivity.
Qed.

Theorem ns_conditions_first d : ns_conditions d = is_none (first_violation d).
Proof. apply item_viol_spec. Qed.

Corollary ns_conditions_false d : ns_conditions d = false -> exists x, first_violation d = Some x.
Proof. rewrite ns_conditions_first. destruct (first_violation d) as [x|]; [eauto|discriminate]. Qed.

Print Assumptions wf_doc_split_ns.
Print Assumptions ns_conditions_first.
