(* Proofs/CstLex.v -- C03, lexer completeness: on the rendering of a well-formed production of
   Spec/Cst.v the token parsers of Model/Tokenizer.v succeed, advance exactly over the production
   and deliver the expected tokens.  Generic in the callback; every lemma is an equation
   "parser (stream at p) c = callback applied to the expected tokens, then the stream after". *)
From Coq Require Import Ascii String.
From Coq Require Import List NArith PeanoNat Bool Lia ZifyBool ZifyN ZifyNat.
Import ListNotations.
From RX Require Import Generated.
From RX.Model Require Import Base CharClass Stream Tokenizer.
From RX.Spec Require Cst.
Open Scope N_scope.

(* ------------------------------------------------------------------------------------------ *)
(* lists                                                                                      *)
(* ------------------------------------------------------------------------------------------ *)

Lemma skipn_len_app {A} (a r : list A) : skipn (length a) (a ++ r) = r.
Proof. induction a; cbn; auto. Qed.

Lemma firstn_len_app {A} (a r : list A) : firstn (length a) (a ++ r) = a.
Proof. induction a; cbn; auto. f_equal; auto. Qed.

Lemma firstn_len {A} (a : list A) : firstn (length a) a = a.
Proof. induction a; cbn; auto. f_equal; auto. Qed.

Lemma skipn_plus {A} : forall (a c : nat) (l : list A), skipn (a + c) l = skipn c (skipn a l).
Proof.
  induction a as [|a IH]; intros c l; [reflexivity|].
  destruct l as [|x l]; cbn [skipn Nat.add]; [destruct c; reflexivity|apply IH].
Qed.

Lemma blen_app (a r : bytes) : blen (a ++ r) = blen a + blen r.
Proof. unfold blen. rewrite app_length. lia. Qed.

Lemma blen_cons x (r : bytes) : blen (x :: r) = 1 + blen r.
Proof. unfold blen. cbn [length]. lia. Qed.

Lemma blen_nil : blen [] = 0.
Proof. reflexivity. Qed.

Lemma prefix_b_app_same p r : prefix_b p (p ++ r) = true.
Proof. induction p as [|a p IH]; cbn [prefix_b app]; [reflexivity|]. rewrite N.eqb_refl. apply IH. Qed.

Lemma Forall_skipn {A} (P : A -> Prop) n l : Forall P l -> Forall P (skipn n l).
Proof.
  revert l. induction n as [|n IH]; intros l H; [exact H|].
  destruct l as [|x l]; [constructor|]. cbn [skipn]. apply IH. inversion H; assumption.
Qed.

(* Cst.contains is contains_b *)
Lemma contains_eq : forall needle l, Cst.contains needle l = contains_b needle l.
Proof.
  intros needle l. induction l as [|x l IH]; cbn [Cst.contains contains_b]; [reflexivity|].
  rewrite IH. reflexivity.
Qed.

(* ------------------------------------------------------------------------------------------ *)
(* character classes of the fragment against the tables of the crate                          *)
(* ------------------------------------------------------------------------------------------ *)

Ltac cls := unfold Cst.is_ws, Cst.is_name_char, Cst.is_name_start, Cst.is_plain,
  byte_is_char, byte_is_space, byte_is_name_start, byte_is_name, in_ranges,
  byte_space_ranges, byte_name_start_ranges, byte_name_ranges, byte_char_gt in *;
  cbn [existsb fst snd] in *.

Lemma ws_space x : Cst.is_ws x = true -> byte_is_space x = true.
Proof. cls. lia. Qed.

Lemma ws_not_name x : Cst.is_ws x = true -> Cst.is_name_char x = false.
Proof. cls. lia. Qed.

Lemma name_start_char x : Cst.is_name_start x = true -> Cst.is_name_char x = true.
Proof. cls. lia. Qed.

Lemma name_start_byte x : Cst.is_name_start x = true ->
  x < 128 /\ byte_is_name_start x = true /\ byte_is_space x = false /\ x <> 47 /\ x <> 62 /\ x <> 33 /\ x <> 63 /\ x <> 60.
Proof. cls. lia. Qed.

Lemma name_char_byte x : Cst.is_name_char x = true ->
  x < 128 /\ x <> 58 /\ byte_is_name x = true.
Proof. cls. lia. Qed.

(* what may follow a name: a byte that is not a name byte of the crate *)
Definition not_name_byte (x : N) : Prop := x < 128 /\ x <> 58 /\ byte_is_name x = false.

Lemma ws_not_name_byte x : Cst.is_ws x = true -> not_name_byte x.
Proof. unfold not_name_byte. cls. lia. Qed.

Lemma not_name_byte_lit x : x = 47 \/ x = 62 \/ x = 61 \/ x = 63 -> not_name_byte x.
Proof. unfold not_name_byte. cls. lia. Qed.

Lemma not_name_byte_char x : not_name_byte x -> Cst.is_name_char x = false.
Proof. unfold not_name_byte. cls. lia. Qed.

Lemma char_is_name_start_ascii x : x < 128 -> char_is_name_start x = byte_is_name_start x.
Proof.
  intros H. unfold char_is_name_start, char_name_start_ascii_cut.
  rewrite N.mod_small by lia. replace (x <? 129) with true by lia. reflexivity.
Qed.

Lemma char_is_name_ascii x : x < 128 -> char_is_name x = byte_is_name x.
Proof.
  intros H. unfold char_is_name, char_name_ascii_cut.
  rewrite N.mod_small by lia. replace (x <? 129) with true by lia. reflexivity.
Qed.

Lemma plain_char x : Cst.is_plain x = true -> x < 128 /\ char_is_char x = true /\ x <> 13.
Proof.
  intros H. assert (L : x < 128) by (cls; lia). split; [exact L|]. split; [|cls; lia].
  unfold char_is_char, char_char_ctl_cut, char_char_excluded. rewrite N.mod_small by lia.
  destruct (x <? 32) eqn:E.
  - cls. lia.
  - cls. lia.
Qed.

Lemma plain_byte_char x : Cst.is_plain x = true -> x <> 9 -> x <> 10 -> byte_is_char x = true.
Proof. cls. lia. Qed.

Lemma plain_space x : Cst.is_plain x = true -> Cst.is_ws x = false -> byte_is_space x = false.
Proof. cls. lia. Qed.

Lemma decode1_ascii x r : x < 128 -> decode1 (x :: r) = Some (x, 1).
Proof. intros H. unfold decode1. replace (x <? 128) with true by lia. reflexivity. Qed.

(* ------------------------------------------------------------------------------------------ *)
(* streams positioned in an ASCII text                                                        *)
(* ------------------------------------------------------------------------------------------ *)

Definition sl (a e : N) : slice := {| sl_start := a; sl_end := e |}.

Section Lex.
Variable text : bytes.
Hypothesis Hascii : Forall (fun x => x < 128) text.

(* the stream at position p, whose remaining input is r *)
Definition st (p : N) (r : bytes) : stream := {| s_pos := p; s_end := tlen text; s_rest := r |}.
(* r really is the input from p on *)
Definition W (p : N) (r : bytes) : Prop := skipn (N.to_nat p) text = r /\ p + blen r = tlen text.

Lemma W_app p x l : W p (x ++ l) -> W (p + blen x) l.
Proof.
  intros [H1 H2]. split.
  - unfold blen. replace (N.to_nat (p + N.of_nat (length x))) with (N.to_nat p + length x)%nat by lia.
    rewrite skipn_plus, H1. apply skipn_len_app.
  - rewrite blen_app in H2. lia.
Qed.

Lemma W_cons p x l : W p (x :: l) -> W (p + 1) l.
Proof. intros H. apply (W_app p [x] l). exact H. Qed.

Lemma W_sub p x l : W p (x ++ l) -> sub text p (p + blen x) = x.
Proof.
  intros [H1 _]. unfold sub. rewrite H1.
  replace (N.to_nat (p + blen x - p)) with (length x) by (unfold blen; lia).
  apply firstn_len_app.
Qed.

Lemma W_slice p x l : W p (x ++ l) -> slice_bytes text (sl p (p + blen x)) = x.
Proof. intros H. unfold slice_bytes, sl. cbn [sl_start sl_end]. apply W_sub with (l := l). exact H. Qed.

Lemma W_ascii p r : W p r -> Forall (fun x => x < 128) r.
Proof. intros [H _]. rewrite <- H. apply Forall_skipn. exact Hascii. Qed.

Lemma W_le p r : W p r -> p <= tlen text.
Proof. intros [_ H]. lia. Qed.

Lemma W_new : W 0 text.
Proof. split; [reflexivity|]. unfold tlen. lia. Qed.

Lemma st_new : stream_new text = st 0 text.
Proof. reflexivity. Qed.

Lemma boundary_ok p : p <= tlen text -> is_boundary text p = true.
Proof.
  intros H. unfold is_boundary. destruct (p =? 0) eqn:E0; [reflexivity|].
  destruct (nth_error text (N.to_nat p)) as [x|] eqn:En.
  - apply nth_error_In in En. rewrite Forall_forall in Hascii. apply Hascii in En.
    unfold is_cont. lia.
  - apply nth_error_None in En. unfold tlen, blen in *. lia.
Qed.

Lemma mk_slice_ok a e : a <= e -> e <= tlen text -> mk_slice text a e = Ok (sl a e).
Proof.
  intros H1 H2. unfold mk_slice. replace ((e <? a) || (tlen text <? e)) with false by lia.
  rewrite !boundary_ok by lia. reflexivity.
Qed.

Lemma at_end_st p r : W p r -> at_end (st p r) = match r with [] => true | _ => false end.
Proof.
  intros [_ H]. unfold at_end, st. cbn [s_pos s_end].
  destruct r; [rewrite blen_nil in H|rewrite blen_cons in H]; lia.
Qed.

Lemma avail_st p r : W p r -> avail (st p r) = r.
Proof.
  intros [_ H]. unfold avail, st. cbn [s_pos s_end s_rest].
  replace (N.to_nat (tlen text - p)) with (length r) by (unfold blen in H; lia).
  apply firstn_len.
Qed.

Lemma starts_with_st p r lit : W p r -> starts_with (st p r) lit = prefix_b lit r.
Proof. intros H. unfold starts_with. rewrite avail_st by exact H. reflexivity. Qed.

Lemma advance_st n p x l : n = blen x -> W p (x ++ l) ->
  advance n (st p (x ++ l)) = Ok (st (p + n) l).
Proof.
  intros -> [_ H]. unfold advance, st. cbn [s_pos s_end s_rest]. rewrite blen_app in H.
  replace (tlen text <? p + blen x) with false by lia.
  unfold blen at 2. rewrite Nat2N.id, skipn_len_app. reflexivity.
Qed.

Lemma advance1_st p x l : W p (x :: l) -> advance 1 (st p (x :: l)) = Ok (st (p + 1) l).
Proof. intros H. apply (advance_st 1 p [x] l); [reflexivity|exact H]. Qed.

Lemma curr_byte_st p x l : W p (x :: l) -> curr_byte (st p (x :: l)) = Ok x.
Proof. intros H. unfold curr_byte. rewrite at_end_st by exact H. reflexivity. Qed.

Lemma curr_byte_opt_st p x l : W p (x :: l) -> curr_byte_opt (st p (x :: l)) = Some x.
Proof. intros H. unfold curr_byte_opt. rewrite at_end_st by exact H. reflexivity. Qed.

Lemma next_byte_st p x y l : W p (x :: y :: l) -> next_byte (st p (x :: y :: l)) = Ok y.
Proof.
  intros [_ H]. unfold next_byte, st. cbn [s_pos s_end s_rest]. rewrite !blen_cons in H.
  replace (tlen text <=? p + 1) with false by lia. reflexivity.
Qed.

Lemma consume_byte_st p c l : W p (c :: l) -> consume_byte text c (st p (c :: l)) = Ok (st (p + 1) l).
Proof.
  intros H. unfold consume_byte. rewrite curr_byte_st by exact H. cbn [bind].
  rewrite N.eqb_refl. cbn [negb]. apply advance1_st. exact H.
Qed.

Lemma skip_string_st p lit l : W p (lit ++ l) ->
  skip_string text lit (st p (lit ++ l)) = Ok (st (p + blen lit) l).
Proof.
  intros H. unfold skip_string. rewrite starts_with_st by exact H.
  rewrite prefix_b_app_same. cbn [negb]. apply advance_st; [reflexivity|exact H].
Qed.

(* where a run of bytes accepted by f stops *)
Definition stops (f : N -> bool) (l : bytes) : Prop :=
  match l with [] => True | c :: _ => f c = false end.

Lemma scan_run f : forall x l room, forallb f x = true -> stops f l -> (length x <= room)%nat ->
  scan f (x ++ l) room = length x.
Proof.
  induction x as [|a x IH]; intros l room Hx Hl Hr.
  - cbn [app length]. destruct l as [|c l]; [destruct room; reflexivity|]. destruct room; [reflexivity|].
    cbn [scan]. cbn [stops] in Hl. rewrite Hl. reflexivity.
  - cbn [forallb] in Hx. apply andb_true_iff in Hx. destruct Hx as [Ha Hx].
    cbn [length] in Hr. destruct room as [|room]; [lia|]. cbn [app scan length]. rewrite Ha.
    f_equal. apply IH; [exact Hx|exact Hl|lia].
Qed.

Lemma skip_bytes_st f p x l : W p (x ++ l) -> forallb f x = true -> stops f l ->
  skip_bytes f (st p (x ++ l)) = st (p + blen x) l.
Proof.
  intros [_ H] Hx Hl. unfold skip_bytes, st. cbn [s_pos s_end s_rest]. rewrite blen_app in H.
  rewrite scan_run; [|exact Hx|exact Hl|unfold blen in *; lia].
  rewrite skipn_len_app. reflexivity.
Qed.

Lemma skip_spaces_st p x l : W p (x ++ l) -> forallb byte_is_space x = true -> stops byte_is_space l ->
  skip_spaces (st p (x ++ l)) = st (p + blen x) l.
Proof. apply skip_bytes_st. Qed.

Lemma ws_spaces w : Cst.wf_ws w = true -> forallb byte_is_space w = true.
Proof.
  unfold Cst.wf_ws. induction w as [|x w IH]; cbn [forallb]; [reflexivity|].
  intros H. apply andb_true_iff in H. destruct H as [H1 H2]. rewrite (ws_space _ H1), IH by exact H2.
  reflexivity.
Qed.

(* ---- char-level: consume_chars ---- *)

(* every byte of x is an ASCII Char accepted by f in the state in which it is met *)
Fixpoint walk_ok (f : stream -> N -> bool) (p : N) (x l : bytes) : Prop :=
  match x with
  | [] => True
  | c :: x' => char_is_char c = true /\ f (st p (x ++ l)) c = true /\ walk_ok f (p + 1) x' l
  end.
Definition walk_stop (f : stream -> N -> bool) (p : N) (l : bytes) : Prop :=
  match l with [] => True | c :: _ => char_is_char c = true /\ f (st p l) c = false end.

Lemma next_char_st p c l : W p (c :: l) -> next_char (st p (c :: l)) = Ok (Some (c, 1)).
Proof.
  intros H. unfold next_char. rewrite at_end_st by exact H.
  pose proof (W_ascii _ _ H) as Ha. inversion Ha as [|? ? Hc _]; subst.
  cbn [s_rest st]. rewrite decode1_ascii by exact Hc.
  destruct H as [_ H]. rewrite blen_cons in H. cbn [st s_end s_pos].
  replace (tlen text <? p + 1) with false by lia. reflexivity.
Qed.

Lemma next_char_end p : W p [] -> next_char (st p []) = Ok None.
Proof. intros H. unfold next_char. rewrite at_end_st by exact H. reflexivity. Qed.

Lemma skip_chars_loop_st f : forall x p l fuel, W p (x ++ l) -> walk_ok f p x l -> walk_stop f (p + blen x) l ->
  (length x < fuel)%nat ->
  skip_chars_loop text fuel f (st p (x ++ l)) = Ok (st (p + blen x) l).
Proof.
  induction x as [|c x IH]; intros p l fuel HW Hx Hl Hf.
  - cbn [app] in *. rewrite blen_nil, N.add_0_r in *. destruct fuel as [|fu]; [cbn in Hf; lia|].
    cbn [skip_chars_loop]. destruct l as [|c l].
    + rewrite next_char_end by exact HW. reflexivity.
    + rewrite next_char_st by exact HW. cbn [bind]. destruct Hl as [H1 H2]. rewrite H1, H2. reflexivity.
  - destruct fuel as [|fu]; [cbn in Hf; lia|]. cbn [length] in Hf.
    cbn [app] in *. cbn [skip_chars_loop]. rewrite next_char_st by exact HW. cbn [bind].
    cbn [walk_ok app] in Hx. destruct Hx as (H1 & H2 & H3). rewrite H1, H2. cbn [negb].
    rewrite advance1_st by exact HW. cbn [bind]. rewrite blen_cons.
    replace (p + (1 + blen x)) with (p + 1 + blen x) by lia.
    apply IH; [apply W_cons in HW; exact HW|exact H3| |lia].
    replace (p + 1 + blen x) with (p + blen (c :: x)) by (rewrite blen_cons; lia). exact Hl.
Qed.

Lemma consume_chars_st f x p l : W p (x ++ l) -> walk_ok f p x l -> walk_stop f (p + blen x) l ->
  consume_chars text f (st p (x ++ l)) = Ok (sl p (p + blen x), st (p + blen x) l).
Proof.
  intros HW Hx Hl. unfold consume_chars, skip_chars.
  rewrite skip_chars_loop_st; [|exact HW|exact Hx|exact Hl|cbn [st s_rest]; rewrite app_length; lia].
  cbn [bind]. unfold slice_back. cbn [st s_pos].
  pose proof (W_le _ _ (W_app _ _ _ HW)) as Hle.
  rewrite mk_slice_ok by lia. reflexivity.
Qed.

(* ---- names ---- *)

Definition name_stop (l : bytes) : Prop := match l with [] => True | c :: _ => not_name_byte c end.

Lemma consume_qname_loop_st start : forall x p l fuel, W p (x ++ l) ->
  forallb Cst.is_name_char x = true -> name_stop l -> (length x < fuel)%nat ->
  consume_qname_loop text fuel start None (st p (x ++ l)) = Ok (None, st (p + blen x) l).
Proof.
  induction x as [|c x IH]; intros p l fuel HW Hx Hl Hf.
  - cbn [app] in *. rewrite blen_nil, N.add_0_r. destruct fuel as [|fu]; [cbn in Hf; lia|].
    cbn [consume_qname_loop]. rewrite at_end_st by exact HW. destruct l as [|c l]; [reflexivity|].
    cbn [curr_byte_unchecked st s_rest bind]. destruct Hl as (H1 & H2 & H3).
    replace (c <? 128) with true by lia. replace (c =? 58) with false by lia. rewrite H3. reflexivity.
  - destruct fuel as [|fu]; [cbn in Hf; lia|]. cbn [length] in Hf. cbn [app] in *.
    cbn [forallb] in Hx. apply andb_true_iff in Hx. destruct Hx as [Hc Hx].
    destruct (name_char_byte _ Hc) as (H1 & H2 & H3).
    cbn [consume_qname_loop]. rewrite at_end_st by exact HW.
    cbn [curr_byte_unchecked st s_rest bind].
    replace (c <? 128) with true by lia. replace (c =? 58) with false by lia. rewrite H3.
    fold (st p (c :: x ++ l)). rewrite advance1_st by exact HW. cbn [bind].
    rewrite blen_cons. replace (p + (1 + blen x)) with (p + 1 + blen x) by lia.
    apply IH; [apply W_cons in HW; exact HW|exact Hx|exact Hl|lia].
Qed.

Lemma consume_qname_st name p l : W p (name ++ l) -> Cst.wf_name name = true -> name_stop l ->
  consume_qname text (st p (name ++ l)) = Ok (sl p p, sl p (p + blen name), st (p + blen name) l).
Proof.
  intros HW Hn Hl. unfold consume_qname. cbn [st s_pos s_rest].
  destruct name as [|c x]; [discriminate|]. cbn [Cst.wf_name] in Hn.
  apply andb_true_iff in Hn. destruct Hn as [Hc Hx].
  fold (st p ((c :: x) ++ l)).
  rewrite (consume_qname_loop_st p (c :: x) p l); [|exact HW| |exact Hl|rewrite app_length; lia].
  2:{ cbn [forallb]. rewrite (name_start_char _ Hc), Hx. reflexivity. }
  cbn [bind]. unfold slice_back. cbn [st s_pos].
  pose proof (W_le _ _ (W_app _ _ _ HW)) as Hle.
  rewrite !mk_slice_ok by lia. cbn [bind].
  unfold slice_len. cbn [sl sl_start sl_end]. rewrite N.sub_diag. cbn [N.eqb negb andb].
  replace (0 =? 0) with true by reflexivity. cbn [negb andb].
  fold (sl p (p + blen (c :: x))). rewrite (W_slice p (c :: x) l) by exact HW.
  cbn [str_is_name_start]. destruct (name_start_byte _ Hc) as (H1 & H2 & _).
  replace (c <? 128) with true by lia. rewrite H2. reflexivity.
Qed.

Lemma skip_name_loop_st : forall x p l fuel, W p (x ++ l) ->
  forallb Cst.is_name_char x = true -> name_stop l -> (length x < fuel)%nat ->
  skip_name_loop fuel (st p (x ++ l)) = Ok (st (p + blen x) l).
Proof.
  induction x as [|c x IH]; intros p l fuel HW Hx Hl Hf.
  - cbn [app] in *. rewrite blen_nil, N.add_0_r. destruct fuel as [|fu]; [cbn in Hf; lia|].
    cbn [skip_name_loop]. destruct l as [|c l].
    + rewrite next_char_end by exact HW. reflexivity.
    + rewrite next_char_st by exact HW. cbn [bind]. destruct Hl as (H1 & H2 & H3).
      rewrite char_is_name_ascii by exact H1. rewrite H3. reflexivity.
  - destruct fuel as [|fu]; [cbn in Hf; lia|]. cbn [length] in Hf. cbn [app] in *.
    cbn [forallb] in Hx. apply andb_true_iff in Hx. destruct Hx as [Hc Hx].
    destruct (name_char_byte _ Hc) as (H1 & H2 & H3).
    cbn [skip_name_loop]. rewrite next_char_st by exact HW. cbn [bind].
    rewrite char_is_name_ascii by exact H1. rewrite H3.
    rewrite advance1_st by exact HW. cbn [bind].
    rewrite blen_cons. replace (p + (1 + blen x)) with (p + 1 + blen x) by lia.
    apply IH; [apply W_cons in HW; exact HW|exact Hx|exact Hl|lia].
Qed.

Lemma consume_name_st name p l : W p (name ++ l) -> Cst.wf_name name = true -> name_stop l ->
  consume_name text (st p (name ++ l)) = Ok (sl p (p + blen name), st (p + blen name) l).
Proof.
  intros HW Hn Hl. unfold consume_name, skip_name. cbn [st s_pos].
  destruct name as [|c x]; [discriminate|]. cbn [Cst.wf_name] in Hn.
  apply andb_true_iff in Hn. destruct Hn as [Hc Hx]. cbn [app] in *.
  fold (st p (c :: x ++ l)). rewrite next_char_st by exact HW. cbn [bind].
  destruct (name_start_byte _ Hc) as (H1 & H2 & _).
  rewrite char_is_name_start_ascii by exact H1. rewrite H2.
  rewrite advance1_st by exact HW. cbn [bind].
  rewrite skip_name_loop_st; [|apply W_cons in HW; exact HW|exact Hx|exact Hl|cbn [st s_rest]; rewrite app_length; lia].
  cbn [bind]. unfold slice_back. cbn [st s_pos].
  pose proof (W_le _ _ (W_app _ (c :: x) _ HW)) as Hle. rewrite blen_cons in *.
  rewrite mk_slice_ok by lia. cbn [bind]. unfold slice_len. cbn [sl sl_start sl_end].
  replace (p + 1 + blen x - p =? 0) with false by lia.
  replace (p + 1 + blen x) with (p + (1 + blen x)) by lia. reflexivity.
Qed.

(*CONT*)
(* ------------------------------------------------------------------------------------------ *)
(* M1: the productions                                                                        *)
(* ------------------------------------------------------------------------------------------ *)

Variable C : Type.
Variable ev : token -> C -> res C.

(* ---- comments ---- *)

Definition comment_ok (bs : bytes) : Prop :=
  forallb Cst.is_plain bs = true /\ contains_b [45; 45] bs = false /\ ends_with_byte 45 bs = false.

Lemma ends_with_cons c x r : ends_with_byte c (x :: r) =
  match r with [] => x =? c | _ => ends_with_byte c r end.
Proof.
  unfold ends_with_byte. destruct r as [|y r]; [reflexivity|].
  cbn [rev]. destruct (rev r ++ [y]) as [|z t] eqn:E.
  - destruct (rev r); discriminate.
  - reflexivity.
Qed.

Definition comment_f (s : stream) (ch : N) : bool := negb ((ch =? 45) && starts_with s [45; 45; 62]).

Lemma comment_walk : forall bs p post, W p (bs ++ [45; 45; 62] ++ post) -> comment_ok bs ->
  walk_ok comment_f p bs ([45; 45; 62] ++ post).
Proof.
  induction bs as [|c r IH]; intros p post HW (H1 & H2 & H3); cbn [walk_ok]; [exact I|].
  cbn [forallb] in H1. apply andb_true_iff in H1. destruct H1 as [Hc H1].
  destruct (plain_char _ Hc) as (L & K & _).
  cbn [contains_b] in H2. apply orb_false_iff in H2. destruct H2 as [H2 H2'].
  rewrite ends_with_cons in H3.
  split; [exact K|]. split.
  - unfold comment_f. rewrite starts_with_st by exact HW.
    destruct (c =? 45) eqn:E; [|reflexivity]. cbn [andb]. apply N.eqb_eq in E. subst c.
    destruct r as [|y r].
    + discriminate.
    + cbn [app prefix_b] in *. rewrite N.eqb_refl in *. cbn [andb] in *.
      destruct (45 =? y); [discriminate|reflexivity].
  - apply IH; [apply (W_cons _ _ _ HW)|]. split; [exact H1|]. split; [exact H2'|].
    destruct r; [reflexivity|exact H3].
Qed.

Lemma lex_comment p bs post c : W p ([60; 33; 45; 45] ++ bs ++ [45; 45; 62] ++ post) -> comment_ok bs ->
  parse_comment text C ev (st p ([60; 33; 45; 45] ++ bs ++ [45; 45; 62] ++ post)) c =
  let! c' := ev (TComment (sl (p + 4) (p + 4 + blen bs)) (p, p + 4 + blen bs + 3)) c in
  Ok (st (p + 4 + blen bs + 3) post, c').
Proof.
  intros HW Hok. unfold parse_comment. cbv zeta.
  rewrite (advance_st 4 p [60; 33; 45; 45]) by (try reflexivity; exact HW). cbn [bind].
  pose proof (W_app _ _ _ HW) as HW1. change (blen [60; 33; 45; 45]) with 4 in HW1.
  change (b "-->") with [45; 45; 62]. change (b "--") with [45; 45].
  change (fun (s : stream) (ch : N) => negb ((ch =? 45) && starts_with s [45; 45; 62])) with comment_f.
  rewrite consume_chars_st; [|exact HW1|apply comment_walk; assumption|].
  2:{ cbn [walk_stop app]. split; [reflexivity|]. unfold comment_f.
      rewrite starts_with_st by (apply (W_app _ _ _ HW1)). reflexivity. }
  cbn [bind]. pose proof (W_app _ _ _ HW1) as HW2.
  rewrite skip_string_st by exact HW2. cbn [bind].
  rewrite (W_slice _ _ _ HW1). destruct Hok as (_ & H2 & H3). rewrite H2, H3.
  cbn [st s_pos]. change (blen [45; 45; 62]) with 3. reflexivity.
Qed.

(* ---- text ---- *)

Definition text_ok (bs : bytes) : Prop :=
  forallb (fun x => Cst.is_plain x && negb (x =? 60) && negb (x =? 38)) bs = true /\
  contains_b [93; 93; 62] bs = false.
Definition text_stop (l : bytes) : Prop := match l with [] => True | c :: _ => c = 60 end.

Definition text_f (_ : stream) (ch : N) : bool := negb (ch =? 60).

Lemma text_walk : forall bs p post,
  forallb (fun x => Cst.is_plain x && negb (x =? 60) && negb (x =? 38)) bs = true ->
  walk_ok text_f p bs post.
Proof.
  induction bs as [|c r IH]; intros p post H; cbn [walk_ok]; [exact I|].
  cbn [forallb] in H. apply andb_true_iff in H. destruct H as [Hc H].
  apply andb_true_iff in Hc. destruct Hc as [Hc H38]. apply andb_true_iff in Hc. destruct Hc as [Hc H60].
  destruct (plain_char _ Hc) as (L & K & _).
  split; [exact K|]. split; [exact H60|]. apply IH. exact H.
Qed.

Lemma lex_text p bs post c : W p (bs ++ post) -> text_ok bs -> text_stop post ->
  parse_text text C ev (st p (bs ++ post)) c =
  let! c' := ev (TText (sl p (p + blen bs)) (p, p + blen bs)) c in Ok (st (p + blen bs) post, c').
Proof.
  intros HW [H1 H2] Hs. unfold parse_text. cbv zeta.
  change (fun (_ : stream) (ch : N) => negb (ch =? 60)) with text_f.
  rewrite consume_chars_st; [|exact HW|apply text_walk; exact H1|].
  2:{ destruct post as [|x post]; cbn [walk_stop]; [exact I|]. cbn [text_stop] in Hs. subst x.
      split; reflexivity. }
  cbn [bind]. rewrite (W_slice _ _ _ HW). change (b "]]>") with [93; 93; 62]. rewrite H2, andb_false_r.
  reflexivity.
Qed.

(* ---- processing instructions ---- *)

Definition pi_f (s : stream) (ch : N) : bool := negb ((ch =? 63) && starts_with s [63; 62]).

Lemma pi_walk : forall v p post, W p (v ++ [63; 62] ++ post) ->
  forallb Cst.is_plain v = true -> contains_b [63; 62] v = false ->
  walk_ok pi_f p v ([63; 62] ++ post).
Proof.
  induction v as [|c r IH]; intros p post HW H1 H2; cbn [walk_ok]; [exact I|].
  cbn [forallb] in H1. apply andb_true_iff in H1. destruct H1 as [Hc H1].
  destruct (plain_char _ Hc) as (L & K & _).
  cbn [contains_b] in H2. apply orb_false_iff in H2. destruct H2 as [H2 H2'].
  split; [exact K|]. split.
  - unfold pi_f. rewrite starts_with_st by exact HW.
    destruct (c =? 63) eqn:E; [|reflexivity]. cbn [andb]. apply N.eqb_eq in E. subst c.
    destruct r as [|y r].
    + reflexivity.
    + cbn [app prefix_b] in *. rewrite N.eqb_refl in *. cbn [andb] in *.
      destruct (62 =? y); [discriminate|reflexivity].
  - apply IH; [apply (W_cons _ _ _ HW)|exact H1|exact H2'].
Qed.

Definition pi_ok (target sep value : bytes) : Prop :=
  Cst.wf_name target = true /\ Cst.wf_ws sep = true /\ forallb Cst.is_plain value = true /\
  contains_b [63; 62] value = false /\ Cst.prefix_is_xml target = false /\
  match value with
  | [] => True
  | x :: _ => Cst.is_ws x = false /\ sep <> []
  end.

(* the byte after a PI target is not a name byte; the byte after the separator is not a space *)
Lemma pi_after_target target sep value post : pi_ok target sep value ->
  name_stop (sep ++ value ++ [63; 62] ++ post) /\ stops byte_is_space (value ++ [63; 62] ++ post).
Proof.
  intros (_ & Hs & Hv & _ & _ & Hx). split.
  - destruct sep as [|s sep].
    + destruct value as [|x v]; [|destruct Hx as [_ Hx]; congruence].
      cbn [app name_stop]. apply not_name_byte_lit. auto.
    + cbn [app name_stop]. cbn [Cst.wf_ws forallb] in Hs. apply andb_true_iff in Hs.
      apply ws_not_name_byte. apply Hs.
  - destruct value as [|x v]; cbn [app stops]; [reflexivity|].
    cbn [forallb] in Hv. apply andb_true_iff in Hv. destruct Hv as [Hp _]. destruct Hx as [Hx _].
    apply plain_space; assumption.
Qed.

Lemma not_xml_decl target rest : Cst.wf_name target = true -> Cst.prefix_is_xml target = false ->
  match rest with [] => True | c :: _ => Cst.is_name_char c = false end ->
  prefix_b [120; 109; 108; 32] (target ++ rest) = false.
Proof.
  intros Hn Hx Hr.
  assert (Hall : forallb Cst.is_name_char target = true).
  { destruct target as [|a t]; [discriminate|]. cbn [Cst.wf_name] in Hn.
    apply andb_true_iff in Hn. destruct Hn as [Ha Ht]. cbn [forallb].
    rewrite (name_start_char _ Ha), Ht. reflexivity. }
  destruct (prefix_b [120; 109; 108; 32] (target ++ rest)) eqn:E; [|reflexivity]. exfalso.
  destruct target as [|a [|b0 [|c0 [|d0 t]]]]; cbn [app prefix_b forallb] in *.
  - discriminate.
  - destruct rest as [|r rest]; [rewrite andb_false_r in E; discriminate|].
    assert (r = 109) by lia. subst r. vm_compute in Hr. discriminate.
  - destruct rest as [|r rest]; [rewrite !andb_false_r in E; discriminate|].
    assert (r = 108) by lia. subst r. vm_compute in Hr. discriminate.
  - assert (a = 120 /\ b0 = 109 /\ c0 = 108) as (-> & -> & ->) by lia. discriminate.
  - assert (d0 = 32) by lia. subst d0. rewrite !andb_true_iff in Hall.
    destruct Hall as (_ & _ & _ & Hd & _). vm_compute in Hd. discriminate.
Qed.

Lemma name_stop_char l : name_stop l -> match l with [] => True | c :: _ => Cst.is_name_char c = false end.
Proof. destruct l; [auto|]. cbn [name_stop]. apply not_name_byte_char. Qed.

Lemma lex_pi p target sep value post c :
  W p ([60; 63] ++ target ++ sep ++ value ++ [63; 62] ++ post) -> pi_ok target sep value ->
  let e := p + 2 + blen target + blen sep + blen value in
  parse_pi text C ev (st p ([60; 63] ++ target ++ sep ++ value ++ [63; 62] ++ post)) c =
  let! c' := ev (TPI (sl (p + 2) (p + 2 + blen target))
                     (match value with [] => None | _ => Some (sl (p + 2 + blen target + blen sep) e) end)
                     (p, e + 2)) c in
  Ok (st (e + 2) post, c').
Proof.
  intros HW Hok e. pose proof (pi_after_target _ _ _ post Hok) as [Hst1 Hst2].
  destruct Hok as (Hn & Hs & Hv & Hc & Hx & Hfirst).
  unfold parse_pi. rewrite starts_with_st by exact HW.
  change (b "<?xml ") with [60; 63; 120; 109; 108; 32]. cbn [app prefix_b]. rewrite !N.eqb_refl. cbn [andb].
  change (match target ++ sep ++ value ++ 63 :: 62 :: post with
          | [] => false
          | c0 :: l' => (120 =? c0) && match l' with [] => false | c1 :: l'0 => (109 =? c1) && match l'0 with [] => false | c2 :: l'1 => (108 =? c2) && match l'1 with [] => false | c3 :: _ => (32 =? c3) && true end end end end)
    with (prefix_b [120; 109; 108; 32] (target ++ sep ++ value ++ [63; 62] ++ post)).
  rewrite not_xml_decl; [|exact Hn|exact Hx|apply name_stop_char; exact Hst1]. cbv zeta.
  change (60 :: 63 :: target ++ sep ++ value ++ 63 :: 62 :: post)
    with ([60; 63] ++ target ++ sep ++ value ++ [63; 62] ++ post).
  rewrite (advance_st 2 p [60; 63]) by (try reflexivity; exact HW). cbn [bind].
  pose proof (W_app _ _ _ HW) as HW1. change (blen [60; 63]) with 2 in HW1.
  rewrite consume_name_st; [|exact HW1|exact Hn|exact Hst1]. cbn [bind].
  pose proof (W_app _ _ _ HW1) as HW2.
  change (b "?>") with [63; 62].
  assert (Hsp : (if starts_with (st (p + 2 + blen target) (sep ++ value ++ [63; 62] ++ post)) [63; 62]
                 then Ok (st (p + 2 + blen target) (sep ++ value ++ [63; 62] ++ post))
                 else consume_spaces text (st (p + 2 + blen target) (sep ++ value ++ [63; 62] ++ post)))
                = Ok (st (p + 2 + blen target + blen sep) (value ++ [63; 62] ++ post))).
  { rewrite starts_with_st by exact HW2. destruct sep as [|w sep'].
    - destruct value as [|x v]; [|destruct Hfirst as [_ Hf]; congruence].
      cbn [app prefix_b]. rewrite blen_nil, N.add_0_r. reflexivity.
    - assert (Hw : Cst.is_ws w = true).
      { cbn [Cst.wf_ws forallb] in Hs. apply andb_true_iff in Hs. apply Hs. }
      replace (prefix_b [63; 62] ((w :: sep') ++ value ++ [63; 62] ++ post)) with false.
      2:{ cbn [app prefix_b]. destruct (63 =? w) eqn:E63; [|reflexivity].
          apply N.eqb_eq in E63. subst w. discriminate. }
      unfold consume_spaces. cbn [app]. rewrite at_end_st by exact HW2.
      unfold starts_with_space. rewrite curr_byte_opt_st by exact HW2.
      rewrite (ws_space _ Hw). cbn [negb].
      f_equal. apply (skip_spaces_st (p + 2 + blen target) (w :: sep') (value ++ [63; 62] ++ post));
        [exact HW2|apply ws_spaces; exact Hs|exact Hst2]. }
  rewrite Hsp. cbn [bind]. clear Hsp.
  pose proof (W_app _ _ _ HW2) as HW3.
  change (fun (s : stream) (ch : N) => negb ((ch =? 63) && starts_with s [63; 62])) with pi_f.
  rewrite consume_chars_st; [|exact HW3|apply pi_walk; assumption|].
  2:{ cbn [walk_stop app]. split; [reflexivity|]. unfold pi_f.
      rewrite starts_with_st by (apply (W_app _ _ _ HW3)). reflexivity. }
  cbn [bind]. pose proof (W_app _ _ _ HW3) as HW4.
  rewrite skip_string_st by exact HW4. cbn [bind]. cbn [st s_pos]. change (blen [63; 62]) with 2.
  unfold slice_len. cbn [sl sl_start sl_end]. fold e.
  replace (p + 2 + blen target + blen sep + blen value) with e by reflexivity.
  destruct value as [|x v].
  - rewrite blen_nil in *. replace (e - (p + 2 + blen target + blen sep) =? 0) with true by (unfold e; rewrite blen_nil; lia).
    reflexivity.
  - replace (e - (p + 2 + blen target + blen sep) =? 0) with false by (unfold e; rewrite blen_cons; lia).
    reflexivity.
Qed.

(* ---- start tags ---- *)

Fixpoint evs (l : list token) (c : C) : res C :=
  match l with [] => Ok c | t :: r => let! c' := ev t c in evs r c' end.

Lemma evs_app l1 l2 c : evs (l1 ++ l2) c = let! c' := evs l1 c in evs l2 c'.
Proof.
  revert c. induction l1 as [|t l1 IH]; intros c; cbn [app evs bind]; [reflexivity|].
  destruct (ev t c); cbn [bind]; auto.
Qed.

Lemma is_xml_str_ascii_ok : forall l i, forallb byte_is_char l = true -> is_xml_str_ascii text l i = Ok tt.
Proof.
  induction l as [|x l IH]; intros i H; cbn [is_xml_str_ascii]; [reflexivity|].
  cbn [forallb] in H. apply andb_true_iff in H. destruct H as [H1 H2]. rewrite H1. cbn [negb].
  apply IH. exact H2.
Qed.

Lemma find_idx_run f : forall x c l, forallb (fun y => negb (f y)) x = true -> f c = true ->
  find_idx f (x ++ c :: l) = Some (blen x).
Proof.
  induction x as [|a x IH]; intros c l Hx Hc; cbn [app find_idx].
  - rewrite Hc. reflexivity.
  - cbn [forallb] in Hx. apply andb_true_iff in Hx. destruct Hx as [Ha Hx].
    destruct (f a); [discriminate|]. rewrite IH by assumption. rewrite blen_cons. f_equal. lia.
Qed.

Definition attr_tok (q : N) (a : Cst.attr) : token :=
  let start := q + blen (Cst.a_ws a) in
  let ne := start + blen (Cst.a_name a) in
  let eqe := ne + blen (Cst.a_ws1 a) + 1 + blen (Cst.a_ws2 a) in
  let vs := eqe + 1 in
  let ve := vs + blen (Cst.a_value a) in
  TAttribute (start, ve + 1) (N.min (ne - start) qname_len_sat) (N.min (eqe - ne) eq_len_sat)
             (sl start start) (sl start ne) (sl vs ve).

Fixpoint attr_toks (q : N) (attrs : list Cst.attr) : list token :=
  match attrs with
  | [] => []
  | a :: r => attr_tok q a :: attr_toks (q + blen (Cst.r_attr a)) r
  end.

Lemma wf_attr_parts a : Cst.wf_attr a = true ->
  Cst.a_ws a <> [] /\ Cst.wf_ws (Cst.a_ws a) = true /\ Cst.wf_name (Cst.a_name a) = true /\
  Cst.wf_ws (Cst.a_ws1 a) = true /\ Cst.wf_ws (Cst.a_ws2 a) = true /\
  (Cst.a_quote a = 39 \/ Cst.a_quote a = 34) /\
  forallb (fun x => Cst.is_plain x && negb (x =? 60) && negb (x =? 38) && negb (x =? Cst.a_quote a)
                    && negb (x =? 9) && negb (x =? 10)) (Cst.a_value a) = true.
Proof.
  unfold Cst.wf_attr. rewrite !andb_true_iff. intros (((((H1 & H2) & H3) & H4) & H5) & H6).
  repeat split; try assumption.
  - unfold Cst.wf_ws1 in H1. destruct (Cst.a_ws a); [discriminate|discriminate].
  - unfold Cst.wf_ws1 in H1. unfold Cst.wf_ws. destruct (Cst.a_ws a); [reflexivity|exact H1].
  - lia.
Qed.

Lemma forallb_imp {A} (f g : A -> bool) l : (forall x, f x = true -> g x = true) ->
  forallb f l = true -> forallb g l = true.
Proof.
  intros H. induction l as [|x l IH]; cbn [forallb]; [reflexivity|].
  intros K. apply andb_true_iff in K. destruct K as [K1 K2]. rewrite (H _ K1), IH by exact K2. reflexivity.
Qed.

Lemma ws_stop_name w l : Cst.wf_ws w = true -> name_stop l -> name_stop (w ++ l).
Proof.
  destruct w as [|x w]; [auto|]. intros H _. cbn [app name_stop].
  cbn [Cst.wf_ws forallb] in H. apply andb_true_iff in H. apply ws_not_name_byte. apply H.
Qed.

Lemma attr_value_facts quote value :
  forallb (fun x => Cst.is_plain x && negb (x =? 60) && negb (x =? 38) && negb (x =? quote)
                    && negb (x =? 9) && negb (x =? 10)) value = true ->
  forallb (fun y => negb ((y =? quote) || (y =? 60))) value = true /\
  forallb (fun x => x <? 128) value = true /\ forallb byte_is_char value = true.
Proof.
  intros Hv. split; [|split].
  - eapply forallb_imp; [|exact Hv]. intros x Hx. cbv beta in Hx. lia.
  - eapply forallb_imp; [|exact Hv]. intros x Hx. cbv beta in Hx.
    assert (Hp : Cst.is_plain x = true) by lia. destruct (plain_char _ Hp). lia.
  - eapply forallb_imp; [|exact Hv]. intros x Hx. cbv beta in Hx.
    apply plain_byte_char; lia.
Qed.

Lemma lex_attr_iter fuel ts q a more c : W q (Cst.r_attr a ++ more) -> Cst.wf_attr a = true ->
  parse_element_loop text C ev (S fuel) ts (st q (Cst.r_attr a ++ more)) c =
  let! c' := ev (attr_tok q a) c in
  parse_element_loop text C ev fuel ts (st (q + blen (Cst.r_attr a)) more) c'.
Proof.
  intros HW Hwf. destruct (wf_attr_parts _ Hwf) as (Hne & Hws & Hn & Hw1 & Hw2 & Hq & Hv).
  unfold attr_tok. cbv zeta.
  assert (Elen : q + blen (Cst.r_attr a) = q + blen (Cst.a_ws a) + blen (Cst.a_name a) + blen (Cst.a_ws1 a) + 1
                  + blen (Cst.a_ws2 a) + 1 + blen (Cst.a_value a) + 1).
  { clear. unfold Cst.r_attr. rewrite !blen_app, !blen_cons, blen_nil. lia. }
  rewrite Elen. clear Elen.
  unfold Cst.r_attr in *. rewrite <- !app_assoc in *. cbn [app] in *.
  destruct a as [ws name ws1 ws2 quote value]. cbn [Cst.a_ws Cst.a_name Cst.a_ws1 Cst.a_ws2 Cst.a_quote Cst.a_value] in *.
  destruct (attr_value_facts _ _ Hv) as (Hv1 & Hv2 & Hv3). clear Hv Hwf.
  assert (Hqq : (quote =? 39) || (quote =? 34) = true) by (clear - Hq; lia).
  assert (Hqsp : byte_is_space quote = false) by (clear - Hq; destruct Hq as [-> | ->]; reflexivity).
  clear Hq.
  destruct ws as [|w ws]; [congruence|]. clear Hne.
  destruct name as [|n name]; [discriminate|].
  assert (Hn0 : Cst.is_name_start n = true).
  { cbn [Cst.wf_name] in Hn. apply andb_true_iff in Hn. apply Hn. }
  destruct (name_start_byte _ Hn0) as (_ & _ & Hnsp & Hn47 & Hn62 & _).
  apply N.eqb_neq in Hn47, Hn62. clear Hn0.
  assert (Hwsp : byte_is_space w = true).
  { cbn [Cst.wf_ws forallb] in Hws. apply andb_true_iff in Hws. apply ws_space. apply Hws. }
  cbn [parse_element_loop]. rewrite at_end_st by exact HW. cbn [app].
  unfold starts_with_space. rewrite curr_byte_opt_st by exact HW.
  rewrite Hwsp. cbv zeta.
  change (w :: ws ++ ?l) with ((w :: ws) ++ l) in HW |- *.
  rewrite skip_spaces_st; [|exact HW|apply ws_spaces; exact Hws|cbn [app stops]; exact Hnsp].
  pose proof (W_app _ _ _ HW) as HW1. cbn [st s_pos].
  try match goal with |- context [ {| s_pos := ?a; s_end := tlen text; s_rest := ?r |} ] => fold (st a r) end.
  cbn [app] in HW1 |- *.
  rewrite curr_byte_st by exact HW1. cbn [bind].
  rewrite Hn47, Hn62.
  change (n :: name ++ ?l) with ((n :: name) ++ l) in HW1 |- *.
  rewrite consume_qname_st; [|exact HW1|exact Hn|].
  2:{ apply ws_stop_name; [exact Hw1|]. cbn [name_stop]. apply not_name_byte_lit. auto. }
  cbn [bind]. pose proof (W_app _ _ _ HW1) as HW2.
  unfold consume_eq.
  rewrite skip_spaces_st; [|exact HW2|apply ws_spaces; exact Hw1|reflexivity].
  pose proof (W_app _ _ _ HW2) as HW3.
  rewrite consume_byte_st by exact HW3. cbn [bind].
  pose proof (W_cons _ _ _ HW3) as HW4.
  rewrite skip_spaces_st; [|exact HW4|apply ws_spaces; exact Hw2|cbn [stops]; exact Hqsp].
  pose proof (W_app _ _ _ HW4) as HW5. cbn [st s_pos].
  try match goal with |- context [ {| s_pos := ?a; s_end := tlen text; s_rest := ?r |} ] => fold (st a r) end.
  unfold consume_quote. rewrite curr_byte_st by exact HW5. cbn [bind].
  rewrite Hqq.
  rewrite advance1_st by exact HW5. cbn [bind].
  pose proof (W_cons _ _ _ HW5) as HW6. cbn [st s_pos].
  try match goal with |- context [ {| s_pos := ?a; s_end := tlen text; s_rest := ?r |} ] => fold (st a r) end.
  unfold advance_until2. rewrite avail_st by exact HW6.
  rewrite find_idx_run; [|exact Hv1|rewrite N.eqb_refl; reflexivity].
  rewrite advance_st by (try reflexivity; exact HW6). cbn [bind].
  pose proof (W_app _ _ _ HW6) as HW7. unfold slice_back. cbn [st s_pos].
  pose proof (W_le _ _ HW7) as Hle7.
  rewrite mk_slice_ok by (clear - Hle7; lia). cbn [bind].
  unfold is_xml_str. rewrite (W_slice _ _ _ HW6).
  rewrite Hv2. rewrite is_xml_str_ascii_ok by exact Hv3.
  cbn [bind].
  try match goal with |- context [ {| s_pos := ?a; s_end := tlen text; s_rest := ?r |} ] => fold (st a r) end.
  rewrite consume_byte_st by exact HW7. cbn [bind]. cbn [st s_pos].
  reflexivity.
Qed.

Definition end_tok (q : N) (empty : bool) : token :=
  TElementEnd (if empty then EEmpty else EOpen) (q, q + (if empty then 2 else 1)).
Definition tag_tail (empty : bool) : bytes := if empty then [47; 62] else [62].

Lemma lex_elem_end fuel ts q ws_end empty post c :
  W q (ws_end ++ tag_tail empty ++ post) -> Cst.wf_ws ws_end = true ->
  parse_element_loop text C ev (S fuel) ts (st q (ws_end ++ tag_tail empty ++ post)) c =
  let! c' := ev (end_tok (q + blen ws_end) empty) c in
  Ok (negb empty, st (q + blen ws_end + blen (tag_tail empty)) post, c').
Proof.
  intros HW Hws. cbn [parse_element_loop]. rewrite at_end_st by exact HW.
  replace (match ws_end ++ tag_tail empty ++ post with [] => true | _ => false end) with false
    by (destruct ws_end, empty; reflexivity). cbv zeta.
  rewrite skip_spaces_st; [|exact HW|apply ws_spaces; exact Hws|destruct empty; reflexivity].
  pose proof (W_app _ _ _ HW) as HW1. unfold end_tok. destruct empty; cbn [tag_tail app negb] in *.
  - rewrite curr_byte_st by exact HW1. cbn [bind]. change (47 =? 47) with true. cbv iota.
    rewrite advance1_st by exact HW1. cbn [bind].
    rewrite consume_byte_st by (apply (W_cons _ _ _ HW1)). cbn [bind st s_pos].
    change (blen [47; 62]) with 2. replace (q + blen ws_end + 1 + 1) with (q + blen ws_end + 2) by lia.
    reflexivity.
  - rewrite curr_byte_st by exact HW1. cbn [bind]. change (62 =? 47) with false. change (62 =? 62) with true. cbv iota.
    rewrite advance1_st by exact HW1. cbn [bind st s_pos]. change (blen [62]) with 1. reflexivity.
Qed.

Lemma lex_elem_loop ts ws_end empty post : forall attrs q c fuel,
  W q (flat_map Cst.r_attr attrs ++ ws_end ++ tag_tail empty ++ post) ->
  forallb Cst.wf_attr attrs = true -> Cst.wf_ws ws_end = true -> (length attrs < fuel)%nat ->
  parse_element_loop text C ev fuel ts (st q (flat_map Cst.r_attr attrs ++ ws_end ++ tag_tail empty ++ post)) c =
  let q' := q + blen (flat_map Cst.r_attr attrs) + blen ws_end in
  let! c1 := evs (attr_toks q attrs) c in
  let! c2 := ev (end_tok q' empty) c1 in
  Ok (negb empty, st (q' + blen (tag_tail empty)) post, c2).
Proof.
  induction attrs as [|a attrs IH]; intros q c fuel HW Ha Hws Hf; cbv zeta.
  - cbn [flat_map app attr_toks evs bind] in *. rewrite blen_nil, N.add_0_r.
    destruct fuel as [|fu]; [cbn in Hf; lia|]. apply lex_elem_end; assumption.
  - cbn [forallb] in Ha. apply andb_true_iff in Ha. destruct Ha as [Ha1 Ha2].
    cbn [length] in Hf. destruct fuel as [|fu]; [lia|].
    cbn [flat_map attr_toks evs] in *. rewrite <- app_assoc in *.
    rewrite lex_attr_iter by assumption.
    destruct (ev (attr_tok q a) c) as [c'| | |]; cbn [bind]; try reflexivity.
    rewrite IH; [|apply (W_app _ _ _ HW)|exact Ha2|exact Hws|lia]. cbv zeta.
    rewrite blen_app. rewrite !N.add_assoc. reflexivity.
Qed.

Lemma flat_attr_len attrs : (length attrs <= length (flat_map Cst.r_attr attrs))%nat.
Proof.
  induction attrs as [|a attrs IH]; cbn [flat_map length]; [lia|]. rewrite app_length.
  unfold Cst.r_attr at 1. rewrite !app_length. cbn [length]. lia.
Qed.

Lemma attrs_name_stop attrs ws_end empty post :
  forallb Cst.wf_attr attrs = true -> Cst.wf_ws ws_end = true ->
  name_stop (flat_map Cst.r_attr attrs ++ ws_end ++ tag_tail empty ++ post).
Proof.
  intros Ha Hws. destruct attrs as [|a attrs].
  - cbn [flat_map app]. apply ws_stop_name; [exact Hws|]. destruct empty; cbn [tag_tail app name_stop];
      apply not_name_byte_lit; auto.
  - cbn [forallb] in Ha. apply andb_true_iff in Ha. destruct Ha as [Ha _].
    destruct (wf_attr_parts _ Ha) as (Hne & Hw & _). cbn [flat_map]. unfold Cst.r_attr.
    destruct (Cst.a_ws a) as [|w ws]; [congruence|]. cbn [app name_stop].
    cbn [Cst.wf_ws forallb] in Hw. apply andb_true_iff in Hw. apply ws_not_name_byte. apply Hw.
Qed.

Definition start_toks (p : N) (name : bytes) (attrs : list Cst.attr) : list token :=
  TElementStart (sl (p + 1) (p + 1)) (sl (p + 1) (p + 1 + blen name)) p :: attr_toks (p + 1 + blen name) attrs.

Lemma lex_element p name attrs ws_end empty post c :
  W p ([60] ++ name ++ flat_map Cst.r_attr attrs ++ ws_end ++ tag_tail empty ++ post) ->
  Cst.wf_name name = true -> forallb Cst.wf_attr attrs = true -> Cst.wf_ws ws_end = true ->
  let q' := p + 1 + blen name + blen (flat_map Cst.r_attr attrs) + blen ws_end in
  parse_element text C ev (st p ([60] ++ name ++ flat_map Cst.r_attr attrs ++ ws_end ++ tag_tail empty ++ post)) c =
  let! c1 := evs (start_toks p name attrs) c in
  let! c2 := ev (end_tok q' empty) c1 in
  Ok (negb empty, st (q' + blen (tag_tail empty)) post, c2).
Proof.
  intros HW Hn Ha Hws q'. unfold parse_element. cbv zeta. cbn [st s_pos].
  fold (st p ([60] ++ name ++ flat_map Cst.r_attr attrs ++ ws_end ++ tag_tail empty ++ post)).
  rewrite (advance_st 1 p [60]) by (try reflexivity; exact HW). cbn [bind].
  pose proof (W_app _ _ _ HW) as HW1. change (blen [60]) with 1 in HW1.
  rewrite consume_qname_st; [|exact HW1|exact Hn|apply attrs_name_stop; assumption]. cbn [bind].
  unfold start_toks. cbn [evs].
  destruct (ev _ c) as [c0| | |]; cbn [bind]; try reflexivity.
  pose proof (W_app _ _ _ HW1) as HW2.
  rewrite lex_elem_loop; [|exact HW2|exact Ha|exact Hws|].
  2:{ cbn [st s_rest]. rewrite app_length. pose proof (flat_attr_len attrs). lia. }
  reflexivity.
Qed.

(* ---- end tags ---- *)

Lemma lex_close p name ws2 post c : W p ([60; 47] ++ name ++ ws2 ++ [62] ++ post) ->
  Cst.wf_name name = true -> Cst.wf_ws ws2 = true ->
  let e := p + 2 + blen name + blen ws2 + 1 in
  parse_close_element text C ev (st p ([60; 47] ++ name ++ ws2 ++ [62] ++ post)) c =
  let! c' := ev (TElementEnd (EClose (sl (p + 2) (p + 2)) (sl (p + 2) (p + 2 + blen name))) (p, e)) c in
  Ok (st e post, c').
Proof.
  intros HW Hn Hws e. unfold parse_close_element. cbv zeta. cbn [st s_pos].
  fold (st p ([60; 47] ++ name ++ ws2 ++ [62] ++ post)).
  rewrite (advance_st 2 p [60; 47]) by (try reflexivity; exact HW). cbn [bind].
  pose proof (W_app _ _ _ HW) as HW1. change (blen [60; 47]) with 2 in HW1.
  rewrite consume_qname_st; [|exact HW1|exact Hn|].
  2:{ apply ws_stop_name; [exact Hws|]. cbn [app name_stop]. apply not_name_byte_lit. auto. }
  cbn [bind]. pose proof (W_app _ _ _ HW1) as HW2.
  rewrite skip_spaces_st; [|exact HW2|apply ws_spaces; exact Hws|reflexivity].
  pose proof (W_app _ _ _ HW2) as HW3. cbn [app] in *.
  rewrite consume_byte_st by exact HW3. cbn [bind st s_pos]. reflexivity.
Qed.

End Lex.

Print Assumptions lex_comment.
Print Assumptions lex_pi.
Print Assumptions lex_text.
Print Assumptions lex_element.
Print Assumptions lex_close.
Print Assumptions consume_qname_st.
