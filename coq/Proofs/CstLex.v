(* Proofs/CstLex.v -- C03, lexer completeness: on the rendering of a well-formed production of
   Spec/Cst.v the token parsers of Model/Tokenizer.v succeed, advance exactly over the production
   and deliver the expected tokens.  Generic in the callback; every lemma is an equation
   "parser (stream at p) c = callback applied to the expected tokens, then the stream after". *)
From Coq Require Import Ascii String.
From Coq Require Import List NArith PeanoNat Bool Lia ZifyBool ZifyN ZifyNat.
Import ListNotations.
From RX Require Import Generated.
From RX.Model Require Import Base CharClass Stream Tokenizer.
From RX.Spec Require Cst.
Open Scope N_scope.

(* ------------------------------------------------------------------------------------------ *)
(* lists                                                                                      *)
(* ------------------------------------------------------------------------------------------ *)

Lemma skipn_len_app {A} (a r : list A) : skipn (length a) (a ++ r) = r.
Proof. induction a; cbn; auto. Qed.

Lemma firstn_len_app {A} (a r : list A) : firstn (length a) (a ++ r) = a.
Proof. induction a; cbn; auto. f_equal; auto. Qed.

Lemma firstn_len {A} (a : list A) : firstn (length a) a = a.
Proof. induction a; cbn; auto. f_equal; auto. Qed.

Lemma skipn_plus {A} : forall (a c : nat) (l : list A), skipn (a + c) l = skipn c (skipn a l).
Proof.
  induction a as [|a IH]; intros c l; [reflexivity|].
  destruct l as [|x l]; cbn [skipn Nat.add]; [destruct c; reflexivity|apply IH].
Qed.

Lemma blen_app (a r : bytes) : blen (a ++ r) = blen a + blen r.
Proof. unfold blen. rewrite app_length. lia. Qed.

Lemma blen_cons x (r : bytes) : blen (x :: r) = 1 + blen r.
Proof. unfold blen. cbn [length]. lia. Qed.

Lemma blen_nil : blen [] = 0.
Proof. reflexivity. Qed.

Lemma prefix_b_app_same p r : prefix_b p (p ++ r) = true.
Proof. induction p as [|a p IH]; cbn [prefix_b app]; [reflexivity|]. rewrite N.eqb_refl. apply IH. Qed.

Lemma Forall_skipn {A} (P : A -> Prop) n l : Forall P l -> Forall P (skipn n l).
Proof.
  revert l. induction n as [|n IH]; intros l H; [exact H|].
  destruct l as [|x l]; [constructor|]. cbn [skipn]. apply IH. inversion H; assumption.
Qed.

(* Cst.contains is contains_b *)
Lemma contains_eq : forall needle l, Cst.contains needle l = contains_b needle l.
Proof.
  intros needle l. induction l as [|x l IH]; cbn [Cst.contains contains_b]; [reflexivity|].
  rewrite IH. reflexivity.
Qed.

(* ------------------------------------------------------------------------------------------ *)
(* character classes of the fragment against the tables of the crate                          *)
(* ------------------------------------------------------------------------------------------ *)

Ltac cls := unfold Cst.is_ws, Cst.is_name_char, Cst.is_name_start, Cst.is_plain,
  byte_is_char, byte_is_space, byte_is_name_start, byte_is_name, in_ranges,
  byte_space_ranges, byte_name_start_ranges, byte_name_ranges, byte_char_gt in *;
  cbn [existsb fst snd] in *.

Lemma ws_space x : Cst.is_ws x = true -> byte_is_space x = true.
Proof. cls. lia. Qed.

Lemma ws_not_name x : Cst.is_ws x = true -> Cst.is_name_char x = false.
Proof. cls. lia. Qed.

Lemma name_start_char x : Cst.is_name_start x = true -> Cst.is_name_char x = true.
Proof. cls. lia. Qed.

Lemma name_start_byte x : Cst.is_name_start x = true ->
  x < 128 /\ byte_is_name_start x = true /\ byte_is_space x = false /\ x <> 47 /\ x <> 62 /\ x <> 33 /\ x <> 63 /\ x <> 60.
Proof. cls. lia. Qed.

Lemma name_char_byte x : Cst.is_name_char x = true ->
  x < 128 /\ x <> 58 /\ byte_is_name x = true.
Proof. cls. lia. Qed.

(* what may follow a name: a byte that is not a name byte of the crate *)
Definition not_name_byte (x : N) : Prop := x < 128 /\ x <> 58 /\ byte_is_name x = false.

Lemma ws_not_name_byte x : Cst.is_ws x = true -> not_name_byte x.
Proof. unfold not_name_byte. cls. lia. Qed.

Lemma not_name_byte_lit x : x = 47 \/ x = 62 \/ x = 61 \/ x = 63 -> not_name_byte x.
Proof. unfold not_name_byte. cls. lia. Qed.

Lemma not_name_byte_char x : not_name_byte x -> Cst.is_name_char x = false.
Proof. unfold not_name_byte. cls. lia. Qed.

Lemma char_is_name_start_ascii x : x < 128 -> char_is_name_start x = byte_is_name_start x.
Proof.
  intros H. unfold char_is_name_start, char_name_start_ascii_cut.
  rewrite N.mod_small by lia. replace (x <? 129) with true by lia. reflexivity.
Qed.

Lemma char_is_name_ascii x : x < 128 -> char_is_name x = byte_is_name x.
Proof.
  intros H. unfold char_is_name, char_name_ascii_cut.
  rewrite N.mod_small by lia. replace (x <? 129) with true by lia. reflexivity.
Qed.

Lemma plain_char x : Cst.is_plain x = true -> x < 128 /\ char_is_char x = true /\ x <> 13.
Proof.
  intros H. assert (L : x < 128) by (cls; lia). split; [exact L|]. split; [|cls; lia].
  unfold char_is_char, char_char_ctl_cut, char_char_excluded. rewrite N.mod_small by lia.
  destruct (x <? 32) eqn:E.
  - cls. lia.
  - cls. lia.
Qed.

Lemma plain_byte_char x : Cst.is_plain x = true -> x <> 9 -> x <> 10 -> byte_is_char x = true.
Proof. cls. lia. Qed.

Lemma plain_space x : Cst.is_plain x = true -> Cst.is_ws x = false -> byte_is_space x = false.
Proof. cls. lia. Qed.

Lemma decode1_ascii x r : x < 128 -> decode1 (x :: r) = Some (x, 1).
Proof. intros H. unfold decode1. replace (x <? 128) with true by lia. reflexivity. Qed.

(* ------------------------------------------------------------------------------------------ *)
(* streams positioned in an ASCII text                                                        *)
(* ------------------------------------------------------------------------------------------ *)

Definition sl (a e : N) : slice := {| sl_start := a; sl_end := e |}.

Section Lex.
Variable text : bytes.
Hypothesis Hascii : Forall (fun x => x < 128) text.

(* the stream at position p, whose remaining input is r *)
Definition st (p : N) (r : bytes) : stream := {| s_pos := p; s_end := tlen text; s_rest := r |}.
(* r really is the input from p on *)
Definition W (p : N) (r : bytes) : Prop := skipn (N.to_nat p) text = r /\ p + blen r = tlen text.

Lemma W_app p x l : W p (x ++ l) -> W (p + blen x) l.
Proof.
  intros [H1 H2]. split.
  - unfold blen. replace (N.to_nat (p + N.of_nat (length x))) with (N.to_nat p + length x)%nat by lia.
    rewrite skipn_plus, H1. apply skipn_len_app.
  - rewrite blen_app in H2. lia.
Qed.

Lemma W_cons p x l : W p (x :: l) -> W (p + 1) l.
Proof. intros H. apply (W_app p [x] l). exact H. Qed.

Lemma W_sub p x l : W p (x ++ l) -> sub text p (p + blen x) = x.
Proof.
  intros [H1 _]. unfold sub. rewrite H1.
  replace (N.to_nat (p + blen x - p)) with (length x) by (unfold blen; lia).
  apply firstn_len_app.
Qed.

Lemma W_slice p x l : W p (x ++ l) -> slice_bytes text (sl p (p + blen x)) = x.
Proof. intros H. unfold slice_bytes, sl. cbn [sl_start sl_end]. apply W_sub with (l := l). exact H. Qed.

Lemma W_ascii p r : W p r -> Forall (fun x => x < 128) r.
Proof. intros [H _]. rewrite <- H. apply Forall_skipn. exact Hascii. Qed.

Lemma W_le p r : W p r -> p <= tlen text.
Proof. intros [_ H]. lia. Qed.

Lemma W_new : W 0 text.
Proof. split; [reflexivity|]. unfold tlen. lia. Qed.

Lemma st_new : stream_new text = st 0 text.
Proof. reflexivity. Qed.

Lemma boundary_ok p : p <= tlen text -> is_boundary text p = true.
Proof.
  intros H. unfold is_boundary. destruct (p =? 0) eqn:E0; [reflexivity|].
  destruct (nth_error text (N.to_nat p)) as [x|] eqn:En.
  - apply nth_error_In in En. rewrite Forall_forall in Hascii. apply Hascii in En.
    unfold is_cont. lia.
  - apply nth_error_None in En. unfold tlen, blen in *. lia.
Qed.

Lemma mk_slice_ok a e : a <= e -> e <= tlen text -> mk_slice text a e = Ok (sl a e).
Proof.
  intros H1 H2. unfold mk_slice. replace ((e <? a) || (tlen text <? e)) with false by lia.
  rewrite !boundary_ok by lia. reflexivity.
Qed.

Lemma at_end_st p r : W p r -> at_end (st p r) = match r with [] => true | _ => false end.
Proof.
  intros [_ H]. unfold at_end, st. cbn [s_pos s_end].
  destruct r; [rewrite blen_nil in H|rewrite blen_cons in H]; lia.
Qed.

Lemma avail_st p r : W p r -> avail (st p r) = r.
Proof.
  intros [_ H]. unfold avail, st. cbn [s_pos s_end s_rest].
  replace (N.to_nat (tlen text - p)) with (length r) by (unfold blen in H; lia).
  apply firstn_len.
Qed.

Lemma starts_with_st p r lit : W p r -> starts_with (st p r) lit = prefix_b lit r.
Proof. intros H. unfold starts_with. rewrite avail_st by exact H. reflexivity. Qed.

Lemma advance_st n p x l : n = blen x -> W p (x ++ l) ->
  advance n (st p (x ++ l)) = Ok (st (p + n) l).
Proof.
  intros -> [_ H]. unfold advance, st. cbn [s_pos s_end s_rest]. rewrite blen_app in H.
  replace (tlen text <? p + blen x) with false by lia.
  unfold blen at 2. rewrite Nat2N.id, skipn_len_app. reflexivity.
Qed.

Lemma advance1_st p x l : W p (x :: l) -> advance 1 (st p (x :: l)) = Ok (st (p + 1) l).
Proof. intros H. apply (advance_st 1 p [x] l); [reflexivity|exact H]. Qed.

Lemma curr_byte_st p x l : W p (x :: l) -> curr_byte (st p (x :: l)) = Ok x.
Proof. intros H. unfold curr_byte. rewrite at_end_st by exact H. reflexivity. Qed.

Lemma curr_byte_opt_st p x l : W p (x :: l) -> curr_byte_opt (st p (x :: l)) = Some x.
Proof. intros H. unfold curr_byte_opt. rewrite at_end_st by exact H. reflexivity. Qed.

Lemma next_byte_st p x y l : W p (x :: y :: l) -> next_byte (st p (x :: y :: l)) = Ok y.
Proof.
  intros [_ H]. unfold next_byte, st. cbn [s_pos s_end s_rest]. rewrite !blen_cons in H.
  replace (tlen text <=? p + 1) with false by lia. reflexivity.
Qed.

Lemma consume_byte_st p c l : W p (c :: l) -> consume_byte text c (st p (c :: l)) = Ok (st (p + 1) l).
Proof.
  intros H. unfold consume_byte. rewrite curr_byte_st by exact H. cbn [bind].
  rewrite N.eqb_refl. cbn [negb]. apply advance1_st. exact H.
Qed.

Lemma skip_string_st p lit l : W p (lit ++ l) ->
  skip_string text lit (st p (lit ++ l)) = Ok (st (p + blen lit) l).
Proof.
  intros H. unfold skip_string. rewrite starts_with_st by exact H.
  rewrite prefix_b_app_same. cbn [negb]. apply advance_st; [reflexivity|exact H].
Qed.

(* where a run of bytes accepted by f stops *)
Definition stops (f : N -> bool) (l : bytes) : Prop :=
  match l with [] => True | c :: _ => f c = false end.

Lemma scan_run f : forall x l room, forallb f x = true -> stops f l -> (length x <= room)%nat ->
  scan f (x ++ l) room = length x.
Proof.
  induction x as [|a x IH]; intros l room Hx Hl Hr.
  - cbn [app length]. destruct room; [reflexivity|]. destruct l as [|c l]; [reflexivity|].
    cbn [scan]. cbn [stops] in Hl. rewrite Hl. reflexivity.
  - cbn [forallb] in Hx. apply andb_true_iff in Hx. destruct Hx as [Ha Hx].
    cbn [length] in Hr. destruct room as [|room]; [lia|]. cbn [app scan length]. rewrite Ha.
    f_equal. apply IH; [exact Hx|exact Hl|lia].
Qed.

Lemma skip_bytes_st f p x l : W p (x ++ l) -> forallb f x = true -> stops f l ->
  skip_bytes f (st p (x ++ l)) = st (p + blen x) l.
Proof.
  intros [_ H] Hx Hl. unfold skip_bytes, st. cbn [s_pos s_end s_rest]. rewrite blen_app in H.
  rewrite scan_run; [|exact Hx|exact Hl|unfold blen in *; lia].
  rewrite skipn_len_app. reflexivity.
Qed.

Lemma skip_spaces_st p x l : W p (x ++ l) -> forallb byte_is_space x = true -> stops byte_is_space l ->
  skip_spaces (st p (x ++ l)) = st (p + blen x) l.
Proof. apply skip_bytes_st. Qed.

Lemma ws_spaces w : Cst.wf_ws w = true -> forallb byte_is_space w = true.
Proof.
  unfold Cst.wf_ws. induction w as [|x w IH]; cbn [forallb]; [reflexivity|].
  intros H. apply andb_true_iff in H. destruct H as [H1 H2]. rewrite (ws_space _ H1), IH by exact H2.
  reflexivity.
Qed.

(* ---- char-level: consume_chars ---- *)

(* every byte of x is an ASCII Char accepted by f in the state in which it is met *)
Fixpoint walk_ok (f : stream -> N -> bool) (p : N) (x l : bytes) : Prop :=
  match x with
  | [] => True
  | c :: x' => char_is_char c = true /\ f (st p (x ++ l)) c = true /\ walk_ok f (p + 1) x' l
  end.
Definition walk_stop (f : stream -> N -> bool) (p : N) (l : bytes) : Prop :=
  match l with [] => True | c :: _ => char_is_char c = true /\ f (st p l) c = false end.

Lemma next_char_st p c l : W p (c :: l) -> next_char (st p (c :: l)) = Ok (Some (c, 1)).
Proof.
  intros H. unfold next_char. rewrite at_end_st by exact H.
  pose proof (W_ascii _ _ H) as Ha. inversion Ha as [|? ? Hc _]; subst.
  cbn [s_rest st]. rewrite decode1_ascii by exact Hc.
  destruct H as [_ H]. rewrite blen_cons in H. cbn [s_end s_pos].
  replace (tlen text <? p + 1) with false by lia. reflexivity.
Qed.

Lemma next_char_end p : W p [] -> next_char (st p []) = Ok None.
Proof. intros H. unfold next_char. rewrite at_end_st by exact H. reflexivity. Qed.

Lemma skip_chars_loop_st f : forall x p l fuel, W p (x ++ l) -> walk_ok f p x l -> walk_stop f (p + blen x) l ->
  (length x < fuel)%nat ->
  skip_chars_loop text fuel f (st p (x ++ l)) = Ok (st (p + blen x) l).
Proof.
  induction x as [|c x IH]; intros p l fuel HW Hx Hl Hf.
  - cbn [app] in *. rewrite blen_nil, N.add_0_r in *. destruct fuel as [|fu]; [cbn in Hf; lia|].
    cbn [skip_chars_loop]. destruct l as [|c l].
    + rewrite next_char_end by exact HW. reflexivity.
    + rewrite next_char_st by exact HW. cbn [bind]. destruct Hl as [H1 H2]. rewrite H1, H2. reflexivity.
  - destruct fuel as [|fu]; [cbn in Hf; lia|]. cbn [length] in Hf.
    cbn [app] in *. cbn [skip_chars_loop]. rewrite next_char_st by exact HW. cbn [bind].
    destruct Hx as (H1 & H2 & H3). rewrite H1, H2. cbn [negb].
    rewrite advance1_st by exact HW. cbn [bind]. rewrite blen_cons.
    replace (p + (1 + blen x)) with (p + 1 + blen x) by lia.
    apply IH; [apply W_cons in HW; exact HW|exact H3| |lia].
    replace (p + 1 + blen x) with (p + blen (c :: x)) by (rewrite blen_cons; lia). exact Hl.
Qed.

Lemma consume_chars_st f x p l : W p (x ++ l) -> walk_ok f p x l -> walk_stop f (p + blen x) l ->
  consume_chars text f (st p (x ++ l)) = Ok (sl p (p + blen x), st (p + blen x) l).
Proof.
  intros HW Hx Hl. unfold consume_chars, skip_chars.
  rewrite skip_chars_loop_st; [|exact HW|exact Hx|exact Hl|cbn [st s_rest]; rewrite app_length; lia].
  cbn [bind]. unfold slice_back. cbn [st s_pos].
  pose proof (W_le _ _ (W_app _ _ _ HW)) as Hle.
  rewrite mk_slice_ok by lia. reflexivity.
Qed.

(* ---- names ---- *)

Definition name_stop (l : bytes) : Prop := match l with [] => True | c :: _ => not_name_byte c end.

Lemma consume_qname_loop_st start : forall x p l fuel, W p (x ++ l) ->
  forallb Cst.is_name_char x = true -> name_stop l -> (length x < fuel)%nat ->
  consume_qname_loop text fuel start None (st p (x ++ l)) = Ok (None, st (p + blen x) l).
Proof.
  induction x as [|c x IH]; intros p l fuel HW Hx Hl Hf.
  - cbn [app] in *. rewrite blen_nil, N.add_0_r. destruct fuel as [|fu]; [cbn in Hf; lia|].
    cbn [consume_qname_loop]. rewrite at_end_st by exact HW. destruct l as [|c l]; [reflexivity|].
    cbn [curr_byte_unchecked st s_rest bind]. destruct Hl as (H1 & H2 & H3).
    replace (c <? 128) with true by lia. replace (c =? 58) with false by lia. rewrite H3. reflexivity.
  - destruct fuel as [|fu]; [cbn in Hf; lia|]. cbn [length] in Hf. cbn [app] in *.
    cbn [forallb] in Hx. apply andb_true_iff in Hx. destruct Hx as [Hc Hx].
    destruct (name_char_byte _ Hc) as (H1 & H2 & H3).
    cbn [consume_qname_loop]. rewrite at_end_st by exact HW.
    cbn [curr_byte_unchecked st s_rest bind].
    replace (c <? 128) with true by lia. replace (c =? 58) with false by lia. rewrite H3.
    fold (st p (c :: x ++ l)). rewrite advance1_st by exact HW. cbn [bind].
    rewrite blen_cons. replace (p + (1 + blen x)) with (p + 1 + blen x) by lia.
    apply IH; [apply W_cons in HW; exact HW|exact Hx|exact Hl|lia].
Qed.

Lemma consume_qname_st name p l : W p (name ++ l) -> Cst.wf_name name = true -> name_stop l ->
  consume_qname text (st p (name ++ l)) = Ok (sl p p, sl p (p + blen name), st (p + blen name) l).
Proof.
  intros HW Hn Hl. unfold consume_qname. cbn [st s_pos s_rest].
  destruct name as [|c x]; [discriminate|]. cbn [Cst.wf_name] in Hn.
  apply andb_true_iff in Hn. destruct Hn as [Hc Hx].
  fold (st p ((c :: x) ++ l)).
  rewrite (consume_qname_loop_st p (c :: x) p l); [|exact HW| |exact Hl|rewrite app_length; lia].
  2:{ cbn [forallb]. rewrite (name_start_char _ Hc), Hx. reflexivity. }
  cbn [bind]. unfold slice_back. cbn [st s_pos].
  pose proof (W_le _ _ (W_app _ _ _ HW)) as Hle.
  rewrite !mk_slice_ok by lia. cbn [bind].
  unfold slice_len. cbn [sl sl_start sl_end]. rewrite N.sub_diag. cbn [N.eqb negb andb].
  replace (0 =? 0) with true by reflexivity. cbn [negb andb].
  fold (sl p (p + blen (c :: x))). rewrite (W_slice p (c :: x) l) by exact HW.
  cbn [str_is_name_start]. destruct (name_start_byte _ Hc) as (H1 & H2 & _).
  replace (c <? 128) with true by lia. rewrite H2. reflexivity.
Qed.

Lemma skip_name_loop_st : forall x p l fuel, W p (x ++ l) ->
  forallb Cst.is_name_char x = true -> name_stop l -> (length x < fuel)%nat ->
  skip_name_loop fuel (st p (x ++ l)) = Ok (st (p + blen x) l).
Proof.
  induction x as [|c x IH]; intros p l fuel HW Hx Hl Hf.
  - cbn [app] in *. rewrite blen_nil, N.add_0_r. destruct fuel as [|fu]; [cbn in Hf; lia|].
    cbn [skip_name_loop]. destruct l as [|c l].
    + rewrite next_char_end by exact HW. reflexivity.
    + rewrite next_char_st by exact HW. cbn [bind]. destruct Hl as (H1 & H2 & H3).
      rewrite char_is_name_ascii by exact H1. rewrite H3. reflexivity.
  - destruct fuel as [|fu]; [cbn in Hf; lia|]. cbn [length] in Hf. cbn [app] in *.
    cbn [forallb] in Hx. apply andb_true_iff in Hx. destruct Hx as [Hc Hx].
    destruct (name_char_byte _ Hc) as (H1 & H2 & H3).
    cbn [skip_name_loop]. rewrite next_char_st by exact HW. cbn [bind].
    rewrite char_is_name_ascii by exact H1. rewrite H3.
    rewrite advance1_st by exact HW. cbn [bind].
    rewrite blen_cons. replace (p + (1 + blen x)) with (p + 1 + blen x) by lia.
    apply IH; [apply W_cons in HW; exact HW|exact Hx|exact Hl|lia].
Qed.

Lemma consume_name_st name p l : W p (name ++ l) -> Cst.wf_name name = true -> name_stop l ->
  consume_name text (st p (name ++ l)) = Ok (sl p (p + blen name), st (p + blen name) l).
Proof.
  intros HW Hn Hl. unfold consume_name, skip_name. cbn [st s_pos].
  destruct name as [|c x]; [discriminate|]. cbn [Cst.wf_name] in Hn.
  apply andb_true_iff in Hn. destruct Hn as [Hc Hx]. cbn [app] in *.
  fold (st p (c :: x ++ l)). rewrite next_char_st by exact HW. cbn [bind].
  destruct (name_start_byte _ Hc) as (H1 & H2 & _).
  rewrite char_is_name_start_ascii by exact H1. rewrite H2.
  rewrite advance1_st by exact HW. cbn [bind].
  rewrite skip_name_loop_st; [|apply W_cons in HW; exact HW|exact Hx|exact Hl|cbn [st s_rest]; rewrite app_length; lia].
  cbn [bind]. unfold slice_back. cbn [st s_pos].
  pose proof (W_le _ _ (W_app _ (c :: x) _ HW)) as Hle. rewrite blen_cons in *.
  rewrite mk_slice_ok by lia. cbn [bind]. unfold slice_len. cbn [sl sl_start sl_end].
  replace (p + 1 + blen x - p =? 0) with false by lia.
  replace (p + 1 + blen x) with (p + (1 + blen x)) by lia. reflexivity.
Qed.

End Lex.
