(* Proofs/TextMerge.v -- "exactly one Text node per run of text fragments" (second half of C04),
   at the builder level: append_text / merge_text / reset_after_text / append_node / process_cdata. *)
From Coq Require Import List NArith PeanoNat Bool Lia ZifyBool ZifyN.
Import ListNotations.
From RX Require Import Generated.
From RX.Model Require Import Base Stream Tokenizer Doc Builder.
From RX.Spec Require Import Text.
Open Scope N_scope.

Fixpoint append_texts (ts : list cow) (r : range) (c : context) : res context :=
  match ts with
  | [] => Ok c
  | t :: rest => let! c' := append_text t r c in append_texts rest r c'
  end.

(* the same with one range per fragment, as in the real run *)
Fixpoint append_texts_r (ts : list (cow * range)) (c : context) : res context :=
  match ts with
  | [] => Ok c
  | (t, r) :: rest => let! c' := append_text t r c in append_texts_r rest c'
  end.

Lemma append_texts_as_r : forall ts r c,
  append_texts ts r c = append_texts_r (map (fun t => (t, r)) ts) c.
Proof.
  induction ts as [|t ts IH]; intros r c; cbn [append_texts append_texts_r map]; [reflexivity|].
  destruct (append_text t r c); cbn [bind]; auto.
Qed.

(* ------------------------------------------------------------------------------------------ *)
(* lists: list_upd / upd_node / nth_N / len_N                                                 *)
(* ------------------------------------------------------------------------------------------ *)

Lemma list_upd_spec : forall A (l : list A) i f l',
  list_upd l i f = Some l' ->
  length l' = length l /\
  forall j, nth_error l' j = if Nat.eqb j i then option_map f (nth_error l j) else nth_error l j.
Proof.
  induction l as [|x l IH]; intros i f l' H; simpl in H; [discriminate|].
  destruct i as [|i].
  - injection H as <-. split; [reflexivity|]. intros [|j]; reflexivity.
  - destruct (list_upd l i f) as [r'|] eqn:E; [|discriminate]. injection H as <-.
    destruct (IH _ _ _ E) as [L Nn]. split; [simpl; congruence|].
    intros [|j]; simpl; [reflexivity|apply Nn].
Qed.

Lemma list_upd_lt : forall A (l : list A) i f, (i < length l)%nat -> exists l', list_upd l i f = Some l'.
Proof.
  induction l as [|x l IH]; intros i f H; simpl in H; [lia|].
  destruct i as [|i]; simpl; [eauto|].
  destruct (IH i f) as [l' E]; [lia|]. rewrite E. eauto.
Qed.

Lemma upd_node_spec : forall nodes i f nodes',
  upd_node nodes i f = Ok nodes' ->
  len_N nodes' = len_N nodes /\
  forall j, nth_N nodes' j = if j =? i then option_map f (nth_N nodes j) else nth_N nodes j.
Proof.
  intros nodes i f nodes' H. unfold upd_node in H.
  destruct (list_upd nodes (N.to_nat i) f) as [l|] eqn:E; [|discriminate]. injection H as <-.
  apply list_upd_spec in E. destruct E as [L Nn].
  split; [unfold len_N; congruence|].
  intros j. unfold nth_N, len_N. rewrite L.
  destruct (N.of_nat (length nodes) <=? j) eqn:Ej.
  - destruct (j =? i); reflexivity.
  - rewrite Nn. destruct (j =? i) eqn:Eji.
    + apply N.eqb_eq in Eji. subst j. rewrite Nat.eqb_refl. reflexivity.
    + destruct (Nat.eqb (N.to_nat j) (N.to_nat i)) eqn:E2; [|reflexivity].
      apply Nat.eqb_eq in E2. apply N.eqb_neq in Eji. lia.
Qed.

Lemma len_N_snoc : forall A (l : list A) x, len_N (l ++ [x]) = len_N l + 1.
Proof. intros. unfold len_N. rewrite app_length. cbn [length]. lia. Qed.

Lemma nth_N_snoc : forall A (l : list A) x, nth_N (l ++ [x]) (len_N l) = Some x.
Proof.
  intros A l x. unfold nth_N. rewrite len_N_snoc.
  destruct (len_N l + 1 <=? len_N l) eqn:E; [lia|].
  unfold len_N. rewrite Nat2N.id, nth_error_app2 by lia.
  rewrite Nat.sub_diag. reflexivity.
Qed.

(* ------------------------------------------------------------------------------------------ *)
(* append_node: one more row, the new row has the given kind and range; after_text untouched  *)
(* ------------------------------------------------------------------------------------------ *)

(* row [n] is the last one and has kind [k] and range [r] *)
Definition last_row (l : list node_data) (n : N) (k : node_kind) (r : range) : Prop :=
  len_N l = n + 1 /\ exists nd, nth_N l n = Some nd /\ nd_kind nd = k /\ nd_range nd = r.

Lemma last_row_upd : forall l n k r i f l',
  (forall nd, nd_kind (f nd) = nd_kind nd /\ nd_range (f nd) = nd_range nd) ->
  last_row l n k r -> upd_node l i f = Ok l' -> last_row l' n k r.
Proof.
  intros l n k r i f l' Hf [L [nd [Hn [Hk Hr]]]] H.
  apply upd_node_spec in H. destruct H as [L' Nn]. split; [congruence|].
  rewrite Nn, Hn. destruct (n =? i); cbn [option_map]; eexists; split; try reflexivity.
  - destruct (Hf nd) as [-> ->]. auto.
  - auto.
Qed.

Lemma last_row_all : forall ids l n k r v l',
  last_row l n k r -> set_next_subtree_all l ids v = Ok l' -> last_row l' n k r.
Proof.
  induction ids as [|i ids IH]; intros l n k r v l' HL H; cbn [set_next_subtree_all] in H.
  - injection H as <-. exact HL.
  - destruct (upd_node l i (fun nd => nd_set_next_subtree nd (Some v))) as [l1| | |] eqn:E;
      cbn [bind] in H; try discriminate.
    eapply IH; [|exact H]. eapply last_row_upd; [|exact HL|exact E].
    intros nd; split; reflexivity.
Qed.

Lemma append_node_spec : forall kind r c id c',
  append_node kind r c = Ok (id, c') ->
  c_after_text c' = c_after_text c /\
  last_row (d_nodes (c_doc c')) (len_N (d_nodes (c_doc c))) kind r.
Proof.
  intros kind r c id c' H. unfold append_node in H. cbv zeta in H.
  destruct (nodes_limit (c_opt c) <=? len_N (d_nodes (c_doc c))); [discriminate|].
  destruct (node_id_new (len_N (d_nodes (c_doc c)))) as [nid| | |] eqn:En;
    cbn [bind] in H; try discriminate.
  match type of H with
  | bind (match nth_N ?l ?p with _ => _ end) _ = _ =>
    destruct (nth_N l p) as [pnd|] eqn:Ep; cbn [bind] in H; [|discriminate]
  end.
  match type of H with
  | bind (upd_node ?l ?i ?f) _ = _ =>
    destruct (upd_node l i f) as [l1| | |] eqn:E1; cbn [bind] in H; try discriminate
  end.
  match type of H with
  | bind (upd_node ?l ?i ?f) _ = _ =>
    destruct (upd_node l i f) as [l2| | |] eqn:E2; cbn [bind] in H; try discriminate
  end.
  match type of H with
  | bind (set_next_subtree_all ?l ?i ?v) _ = _ =>
    destruct (set_next_subtree_all l i v) as [l3| | |] eqn:E3; cbn [bind] in H; try discriminate
  end.
  injection H as _ <-. split; [reflexivity|].
  change (last_row l3 (len_N (d_nodes (c_doc c))) kind r).
  eapply last_row_all; [|exact E3].
  eapply last_row_upd; [| |exact E2]; [intros nd; split; reflexivity|].
  eapply last_row_upd; [| |exact E1]; [intros nd; split; reflexivity|].
  split; [apply len_N_snoc|]. eexists. split; [apply nth_N_snoc|]. split; reflexivity.
Qed.

(* ------------------------------------------------------------------------------------------ *)
(* append_text                                                                                *)
(* ------------------------------------------------------------------------------------------ *)

Definition cow_storage (t : cow) : storage :=
  match t with CowBorrowed s => Borrowed (SIn s) | CowOwned bs => Owned bs end.

Lemma cow_storage_bytes : forall text t, storage_bytes text (cow_storage t) = cow_bytes text t.
Proof. intros text [s|bs]; reflexivity. Qed.

Lemma append_text_cont : forall t r c, c_after_text c <> [] ->
  append_text t r c = Ok (set_after_text c (c_after_text c ++ [t])).
Proof.
  intros t r c H. unfold append_text.
  destruct (c_after_text c) eqn:E; [congruence|]. cbn [bind]. rewrite E. reflexivity.
Qed.

(* further fragments never append a node and never fail *)
Theorem append_text_continuation : forall t r c, c_after_text c <> [] ->
  exists c', append_text t r c = Ok c' /\ d_nodes (c_doc c') = d_nodes (c_doc c) /\
             c_after_text c' = c_after_text c ++ [t].
Proof.
  intros t r c H. rewrite append_text_cont by assumption.
  eexists. split; [reflexivity|]. split; reflexivity.
Qed.
Print Assumptions append_text_continuation.

Lemma append_text_first : forall t r c c0,
  c_after_text c = [] -> append_text t r c = Ok c0 ->
  c_after_text c0 = [t] /\
  last_row (d_nodes (c_doc c0)) (len_N (d_nodes (c_doc c))) (KText (cow_storage t)) r.
Proof.
  intros t r c c0 Hc H. unfold append_text in H. rewrite Hc in H.
  fold (cow_storage t) in H.
  destruct (append_node (KText (cow_storage t)) r c) as [[id c']| | |] eqn:EA;
    cbn [bind] in H; try discriminate.
  injection H as <-. apply append_node_spec in EA. destruct EA as [AT LR].
  split; [|exact LR]. cbn. rewrite AT, Hc. reflexivity.
Qed.

Lemma append_texts_r_cont : forall ts c c1,
  c_after_text c <> [] -> append_texts_r ts c = Ok c1 ->
  c_after_text c1 = c_after_text c ++ map fst ts /\ c_doc c1 = c_doc c.
Proof.
  induction ts as [|[t r] ts IH]; intros c c1 Hc H; cbn [append_texts_r map fst] in *.
  - injection H as <-. rewrite app_nil_r. auto.
  - rewrite append_text_cont in H by assumption. cbn [bind] in H.
    apply IH in H.
    + destruct H as [A D]. cbn in A, D. rewrite A, D, <- app_assoc. auto.
    + cbn. destruct (c_after_text c); discriminate.
Qed.

(* ------------------------------------------------------------------------------------------ *)
(* the run of fragments and the reset                                                         *)
(* ------------------------------------------------------------------------------------------ *)

Theorem fragments_merge_ranges : forall text t0 r0 ts c c0 c1 c2,
  c_after_text c = [] ->
  append_text t0 r0 c = Ok c0 ->
  append_texts_r ts c0 = Ok c1 ->
  reset_after_text text c1 = Ok c2 ->
  len_N (d_nodes (c_doc c2)) = len_N (d_nodes (c_doc c)) + 1 /\
  c_after_text c2 = [] /\
  (forall i, i < len_N (d_nodes (c_doc c)) ->
             nth_N (d_nodes (c_doc c2)) i = nth_N (d_nodes (c_doc c0)) i) /\
  exists nd st, nth_N (d_nodes (c_doc c2)) (len_N (d_nodes (c_doc c))) = Some nd /\
     nd_kind nd = KText st /\
     storage_bytes text st = concat (map (cow_bytes text) (t0 :: map fst ts)) /\
     (exists nd0, nth_N (d_nodes (c_doc c0)) (len_N (d_nodes (c_doc c))) = Some nd0 /\
        nd_parent nd = nd_parent nd0 /\ nd_prev_sibling nd = nd_prev_sibling nd0 /\
        nd_next_subtree nd = nd_next_subtree nd0 /\ nd_last_child nd = nd_last_child nd0 /\
        nd_range nd = nd_range nd0 /\ nd_range nd = r0).
Proof.
  intros text t0 r0 ts c c0 c1 c2 Hc H0 H1 H2.
  destruct (append_text_first _ _ _ _ Hc H0) as [A0 [L0 [nd0 [N0 [K0 R0]]]]].
  assert (Hne : c_after_text c0 <> []) by (rewrite A0; discriminate).
  destruct (append_texts_r_cont _ _ _ Hne H1) as [A1 D1].
  rewrite A0 in A1. cbn [app] in A1.
  set (n := len_N (d_nodes (c_doc c))) in *.
  unfold reset_after_text in H2. rewrite A1 in H2.
  destruct ts as [|[t1 r1] ts]; cbn [map fst] in *.
  - (* a single fragment: nothing to merge *)
    injection H2 as <-. cbn. rewrite D1.
    split; [exact L0|]. split; [reflexivity|]. split; [reflexivity|].
    exists nd0, (cow_storage t0). split; [exact N0|]. split; [exact K0|].
    split; [rewrite cow_storage_bytes, app_nil_r; reflexivity|].
    exists nd0. repeat split; auto.
  - (* several fragments: the last row gets the concatenation *)
    destruct (merge_text text c1) as [cm| | |] eqn:EM; cbn [bind] in H2; try discriminate.
    injection H2 as <-. unfold merge_text in EM. cbv zeta in EM.
    destruct (rev (d_nodes (c_doc c1))) as [|ndl rl]; [discriminate|].
    destruct (nd_kind ndl); try discriminate.
    match type of EM with
    | bind (upd_node ?l ?i ?f) _ = _ =>
      destruct (upd_node l i f) as [l1| | |] eqn:EU; cbn [bind] in EM; try discriminate
    end.
    injection EM as <-. cbn.
    rewrite D1 in EU. apply upd_node_spec in EU. destruct EU as [LU NU].
    assert (Ei : len_N (d_nodes (c_doc c0)) - 1 = n) by lia.
    rewrite Ei in NU.
    split; [lia|]. split; [reflexivity|]. split.
    + intros i Hi. rewrite NU. destruct (i =? n) eqn:E; [lia|reflexivity].
    + rewrite NU, N.eqb_refl, N0. cbn [option_map].
      eexists. eexists. split; [reflexivity|]. split; [reflexivity|].
      split; [rewrite A1; reflexivity|].
      exists nd0. repeat split; auto.
Qed.
Print Assumptions fragments_merge_ranges.

(* any number (>= 1) of consecutive text fragments followed by the reset that every non-text
   token performs yields exactly ONE new node, a Text node holding the concatenation; nothing
   else about the nodes changes except what append_node does for the first fragment *)
Theorem fragments_merge : forall text t0 ts r c c0 c1 c2,
  c_after_text c = [] ->
  append_text t0 r c = Ok c0 ->                 (* the first fragment appends the node *)
  append_texts ts r c0 = Ok c1 ->               (* further fragments of the same run *)
  reset_after_text text c1 = Ok c2 ->
  len_N (d_nodes (c_doc c2)) = len_N (d_nodes (c_doc c)) + 1 /\
  c_after_text c2 = [] /\
  (forall i, i < len_N (d_nodes (c_doc c)) -> nth_N (d_nodes (c_doc c2)) i = nth_N (d_nodes (c_doc c0)) i) /\
  exists nd st, nth_N (d_nodes (c_doc c2)) (len_N (d_nodes (c_doc c))) = Some nd /\ nd_kind nd = KText st /\
     storage_bytes text st = concat (map (cow_bytes text) (t0 :: ts)) /\
     (* links and range of the node are those given by append_node for the first fragment *)
     (exists nd0, nth_N (d_nodes (c_doc c0)) (len_N (d_nodes (c_doc c))) = Some nd0 /\
        nd_parent nd = nd_parent nd0 /\ nd_prev_sibling nd = nd_prev_sibling nd0 /\
        nd_next_subtree nd = nd_next_subtree nd0 /\ nd_last_child nd = nd_last_child nd0 /\ nd_range nd = nd_range nd0).
Proof.
  intros text t0 ts r c c0 c1 c2 Hc H0 H1 H2.
  rewrite append_texts_as_r in H1.
  destruct (fragments_merge_ranges _ _ _ _ _ _ _ _ Hc H0 H1 H2)
    as (L & A & Nlt & nd & st & Hn & Hk & Hs & nd0 & Hn0 & P1 & P2 & P3 & P4 & P5 & _).
  rewrite map_map in Hs. cbn [fst] in Hs. rewrite map_id in Hs.
  split; [exact L|]. split; [exact A|]. split; [exact Nlt|].
  exists nd, st. split; [exact Hn|]. split; [exact Hk|]. split; [exact Hs|].
  exists nd0. repeat split; assumption.
Qed.
Print Assumptions fragments_merge.

(* a single borrowed fragment stays borrowed: the fast path of C18 *)
Theorem single_fragment_storage : forall text t r c c0 c2, c_after_text c = [] ->
  append_text t r c = Ok c0 -> reset_after_text text c0 = Ok c2 ->
  exists nd, nth_N (d_nodes (c_doc c2)) (len_N (d_nodes (c_doc c))) = Some nd /\
    nd_kind nd = KText (match t with CowBorrowed s => Borrowed (SIn s) | CowOwned bs => Owned bs end).
Proof.
  intros text t r c c0 c2 Hc H0 H2.
  destruct (append_text_first _ _ _ _ Hc H0) as [A0 [L0 [nd0 [N0 [K0 R0]]]]].
  unfold reset_after_text in H2. rewrite A0 in H2. injection H2 as <-.
  exists nd0. split; [exact N0|exact K0].
Qed.
Print Assumptions single_fragment_storage.

(* reset_after_text never panics when the invariant "after_text non-empty -> last node is Text" holds *)
Theorem reset_after_text_safe : forall text c,
  (c_after_text c <> [] -> exists nd st, hd_error (rev (d_nodes (c_doc c))) = Some nd /\ nd_kind nd = KText st) ->
  exists c', reset_after_text text c = Ok c'.
Proof.
  intros text c H. unfold reset_after_text.
  destruct (c_after_text c) as [|t1 [|t2 l]] eqn:E; [eauto|eauto|].
  destruct H as [nd [st [Hh Hk]]]; [discriminate|].
  unfold merge_text. cbv zeta.
  destruct (rev (d_nodes (c_doc c))) as [|ndl rl] eqn:ER; [discriminate|].
  cbn [hd_error] in Hh. injection Hh as ->. rewrite Hk.
  assert (Hlen : (0 < length (d_nodes (c_doc c)))%nat).
  { rewrite <- rev_length, ER. cbn [length]. lia. }
  unfold upd_node.
  match goal with
  | |- context [list_upd ?l0 ?i0 ?f0] =>
    destruct (list_upd_lt _ l0 i0 f0) as [l' El]; [unfold len_N; lia|]
  end.
  rewrite El. cbn [bind]. eauto.
Qed.
Print Assumptions reset_after_text_safe.

(* process_cdata is append_text of the normalised section; borrowed when it has no CR *)
Theorem process_cdata_spec : forall text txt r c,
  process_cdata text txt r c =
  append_text (if mem_b 13 (slice_bytes text txt) then CowOwned (Text.norm_eol (slice_bytes text txt)) else CowBorrowed txt) r c.
Proof.
  intros text txt r c. unfold process_cdata.
  destruct (mem_b 13 (slice_bytes text txt)); reflexivity.
Qed.
Print Assumptions process_cdata_spec.
