(* Proofs/CstEntRun.v -- C07, a whole run of character data with references and CDATA sections (no
   parser): its segments, the expansion of every stretch, the strings appended and their meaning;
   how the inlining function of Spec/CstEnt.v sees a run when all entities are character data. *)
From Coq Require Import List NArith PeanoNat Wf_nat Bool Lia ZifyBool ZifyN ZifyNat.
Import ListNotations.
From RX Require Import Generated.
From RX.Model Require Import Base Stream Builder Parse.
From RX.Spec Require Cst CstText CstEnt Chars Detector.
From RX.Spec Require Import Text.
From RX.Proofs Require Import TextMachine HoistProofs NoPanicUtf8 CstTextSem CstTextLex CstEntSem CstEntText CstEntAttr CstEntMeaning.
Open Scope N_scope.

(* ------------------------------------------------------------------------------------------ *)
(* segments of a run of epieces                                                               *)
(* ------------------------------------------------------------------------------------------ *)

Inductive eseg := ESS (ps : list E.epiece) | ESC (bs : bytes).

Definition is_ecdata (p : E.epiece) : bool := match p with E.EP (T.PCData _) => true | _ => false end.

Fixpoint esegs (ps : list E.epiece) : list eseg :=
  match ps with
  | [] => []
  | E.EP (T.PCData bs) :: r => ESC bs :: esegs r
  | p :: r => match esegs r with ESS l :: t => ESS (p :: l) :: t | t => ESS [p] :: t end
  end.

Definition r_eseg (s : eseg) : bytes :=
  match s with ESS l => E.r_epieces l | ESC bs => T.cdata_open ++ bs ++ T.cdata_close end.
Definition is_ess (s : eseg) : bool := match s with ESS _ => true | ESC _ => false end.

Fixpoint ealt (l : list eseg) : Prop :=
  match l with
  | a :: ((c :: _) as r) => (is_ess a = true -> is_ess c = false) /\ ealt r
  | _ => True
  end.

Definition eseg_wf (s : eseg) : Prop :=
  match s with
  | ESS l => l <> [] /\ Forall (ep_ok false) l /\ E.no_adjacent_elit l = true /\
             contains_b CstTextLex.n3 (E.r_epieces l) = false
  | ESC bs => forallb T.is_tplain bs = true /\ contains_b T.cdata_close bs = false
  end.

Lemma esegs_cons_plain p r : is_ecdata p = false ->
  esegs (p :: r) = match esegs r with ESS l :: t => ESS (p :: l) :: t | t => ESS [p] :: t end.
Proof. destruct p as [[bs|hex ds|e|bs]|n]; try reflexivity. discriminate. Qed.

Lemma r_epieces_cons p ps : E.r_epieces (p :: ps) = E.r_epiece p ++ E.r_epieces ps.
Proof. reflexivity. Qed.

Lemma esegs_render : forall ps, flat_map r_eseg (esegs ps) = E.r_epieces ps.
Proof.
  induction ps as [|p ps IH]; [reflexivity|]. rewrite r_epieces_cons, <- IH.
  destruct (is_ecdata p) eqn:Ec.
  - destruct p as [[bs|hex ds|e|bs]|n]; try discriminate. reflexivity.
  - rewrite esegs_cons_plain by exact Ec.
    destruct (esegs ps) as [|[l|b0] t]; cbn [flat_map r_eseg]; rewrite ?r_epieces_cons, ?app_nil_r, <- ?app_assoc; reflexivity.
Qed.

Lemma esegs_ne : forall ps, ps <> [] -> esegs ps <> [].
Proof.
  intros [|p ps] H; [congruence|]. destruct (is_ecdata p) eqn:Ec.
  - destruct p as [[bs|hex ds|e|bs]|n]; discriminate.
  - rewrite esegs_cons_plain by exact Ec. destruct (esegs ps) as [|[l|b0] t]; discriminate.
Qed.

Lemma ealt_esegs : forall ps, ealt (esegs ps).
Proof.
  induction ps as [|p ps IH]; [exact I|]. destruct (is_ecdata p) eqn:Ec.
  - destruct p as [[bs|hex ds|e|bs]|n]; try discriminate. cbn [esegs].
    destruct (esegs ps) as [|c t]; [exact I|]. split; [discriminate|exact IH].
  - rewrite esegs_cons_plain by exact Ec. destruct (esegs ps) as [|[l|b0] t].
    + exact I.
    + destruct t as [|c t']; [exact I|]. exact IH.
    + split; [intros _; reflexivity|exact IH].
Qed.

(* "]]>" does not arise in a stretch *)
Lemma estretch_no_cdata_end : forall l, Forall (fun p => E.wf_epiece 60 true true false p = true) l ->
  forallb (fun p => negb (is_ecdata p)) l = true -> E.no_adjacent_elit l = true ->
  contains_b CstTextLex.n3 (E.r_epieces l) = false.
Proof.
  induction l as [|pc l IH]; intros Hwf Hnc Hadj; [reflexivity|].
  apply Forall_cons_iff in Hwf. destruct Hwf as [Hw1 Hw2].
  cbn [forallb] in Hnc. apply andb_true_iff in Hnc. destruct Hnc as [Hn1 Hn2].
  specialize (IH Hw2 Hn2 (no_adj_etail _ _ Hadj)). rewrite r_epieces_cons.
  assert (Href : forall p, E.is_elit p = false -> is_ecdata p = false -> E.wf_epiece 60 true true false p = true ->
            forallb (fun c => negb (c =? 93)) (E.r_epiece p) = true /\ exists r, E.r_epiece p = 38 :: r).
  { intros p Hl Hc Hw. destruct p as [[bs|hex ds|e|bs]|n]; try discriminate.
    - cbn [E.wf_epiece E.r_epiece] in *. rewrite !andb_true_iff in Hw. destruct Hw as [[_ Hv] _].
      apply (refp_no93 (T.PCharRef hex ds) eq_refl Hv).
    - apply (refp_no93 (T.PPredef e) eq_refl eq_refl).
    - cbn [E.wf_epiece E.r_epiece] in *. apply andb_true_iff in Hw. destruct Hw as [Hn _]. split; [|cbn; eauto].
      apply CstTextLex.forallb_app'; [reflexivity|]. apply CstTextLex.forallb_app'; [|reflexivity].
      destruct n as [|x n]; [discriminate|]. cbn [Cst.wf_name] in Hn. apply andb_true_iff in Hn. destruct Hn as [H1 H2].
      cbn [forallb]. apply andb_true_iff. split; [unfold Cst.is_name_start in H1; lia|].
      revert H2. apply CstLex.forallb_imp. intros y Hy. unfold Cst.is_name_char, Cst.is_name_start in Hy. lia. }
  destruct (E.is_elit pc) eqn:El.
  - destruct pc as [[bs|hex ds|e|bs]|n]; try discriminate. cbn [E.r_epiece T.r_piece E.wf_epiece] in *.
    rewrite !andb_true_iff in Hw1. destruct Hw1 as [[Ht _] _]. cbn [T.wf_tpiece] in Ht. apply andb_true_iff in Ht.
    destruct Ht as [_ Hc]. apply negb_true_iff in Hc. rewrite CstLex.contains_eq in Hc.
    rewrite contains_lit; [exact IH|exact Hc|].
    destruct l as [|d r]; [exact I|]. cbn [E.no_adjacent_elit E.is_elit andb] in Hadj. apply andb_true_iff in Hadj.
    destruct Hadj as [Hd _]. apply negb_true_iff in Hd.
    cbn [forallb] in Hn2. apply andb_true_iff in Hn2. destruct Hn2 as [Hdc _]. apply negb_true_iff in Hdc.
    apply Forall_cons_iff in Hw2. destruct Hw2 as [Hwd _].
    destruct (Href d Hd Hdc Hwd) as [_ [r0 Er]]. rewrite r_epieces_cons, Er. cbn [app]. split; lia.
  - apply negb_true_iff in Hn1. destruct (Href pc El Hn1 Hw1) as [H93 _].
    rewrite contains_no93 by exact H93. exact IH.
Qed.

(* ------------------------------------------------------------------------------------------ *)
(* the expansion of a run, segment by segment                                                 *)
(* ------------------------------------------------------------------------------------------ *)

Section Run.
Variable decls : list E.edecl.
Hypothesis Hdecls : Forall decl_ok decls.

Inductive RunExp : list eseg -> list T.piece -> list Detector.lop -> list (list bytes) -> Prop :=
| RunExp_nil : RunExp [] [] [] []
| RunExp_ss : forall ps q tr F L Q tr' FF,
    Exp decls false [] ps q tr F -> RunExp L Q tr' FF ->
    RunExp (ESS ps :: L) (q ++ Q) (tr ++ tr') (F :: FF)
| RunExp_sc : forall bs L Q tr' FF,
    RunExp L Q tr' FF -> RunExp (ESC bs :: L) (T.PCData bs :: Q) tr' ([norm_eol bs] :: FF).

(* nothing is appended exactly when there are only marks *)
Lemma Exp_empty : forall m acc ps q tr F, Exp decls m acc ps q tr F ->
  Forall (ep_ok m) ps -> Forall (chunk_okm m) acc ->
  (F = [] <-> (acc = [] /\ forallb E.is_mark q = true)).
Proof.
  intros m acc ps q tr F H.
  induction H as [m acc|m acc p r q tr F _ IH|m acc n r d vps qv trv Fv q tr F Hfd Hval _ IHv _ IHr];
    intros Hok Hacc.
  - unfold emit. destruct (emit_valid m acc Hacc) as [Eo _]. rewrite Eo. cbn [forallb].
    destruct acc as [|c acc'].
    + change (decode_chunks []) with (@nil N). tauto.
    + assert (Hne : decode_chunks (c :: acc') <> []).
      { rewrite decode_chunks_gen. apply gen_cons_ne. apply Forall_cons_iff in Hacc. destruct Hacc as [(_ & Hc & _) _].
        destruct c as [x|bs]; [exact I|]. intros E0. apply Hc. cbv beta in E0. rewrite E0. reflexivity. }
      destruct (decode_chunks (c :: acc')); [congruence|]. split; [discriminate|intros [? _]; discriminate].
  - apply Forall_cons_iff in Hok. destruct Hok as [Hp Hr].
    pose proof (ep_nonmark _ _ Hp) as Em. destruct (nonmark_chunks p Em) as (Hne & _).
    rewrite IH; [|exact Hr|apply Forall_app; split; [exact Hacc|apply ep_chunks; exact Hp]].
    cbn [forallb]. rewrite Em. split.
    + intros [E0 _]. apply app_eq_nil in E0. destruct E0 as [_ E0]. congruence.
    + intros [_ E0]. discriminate.
  - apply Forall_cons_iff in Hok. destruct Hok as [_ Hr].
    pose proof (first_decl_ok decls Hdecls _ _ _ Hfd Hval) as Hvok.
    specialize (IHv Hvok ltac:(constructor)). specialize (IHr Hr ltac:(constructor)).
    cbn [forallb E.is_mark E.mark]. rewrite forallb_app. cbn [forallb E.is_mark E.mark].
    split.
    + intros E0. apply app_eq_nil in E0. destruct E0 as [E1 E2]. apply app_eq_nil in E2. destruct E2 as [E2 E3].
      destruct (proj1 IHv E2) as [_ M1]. destruct (proj1 IHr E3) as [_ M2]. rewrite M1, M2.
      split; [|reflexivity].
      unfold emit in E1. destruct (emit_valid m acc Hacc) as [Eo _]. rewrite Eo in E1.
      destruct acc as [|c acc']; [reflexivity|].
      assert (Hne : decode_chunks (c :: acc') <> []).
      { rewrite decode_chunks_gen. apply gen_cons_ne. apply Forall_cons_iff in Hacc. destruct Hacc as [(_ & Hc & _) _].
        destruct c as [x|bs]; [exact I|]. intros E0. apply Hc. cbv beta in E0. rewrite E0. reflexivity. }
      destruct (decode_chunks (c :: acc')); [congruence|discriminate].
    + intros [-> M]. rewrite !andb_true_iff in M. destruct M as (_ & M1 & _ & M2).
      rewrite (proj2 IHv (conj eq_refl M1)), (proj2 IHr (conj eq_refl M2)). reflexivity.
Qed.

Lemma alt_segs : forall ps, alt (segs ps).
Proof.
  induction ps as [|p ps IH]; [exact I|]. destruct p as [bs|hex ds|e|bs].
  4:{ cbn [segs]. destruct (segs ps) as [|c t]; [exact I|]. split; [discriminate|exact IH]. }
  all: rewrite segs_cons_plain by reflexivity; destruct (segs ps) as [|[l|b0] t];
    [exact I|destruct t; [exact I|exact IH]|split; [intros _; reflexivity|exact IH]].
Qed.

Lemma text_sem_any ps : T.text_sem ps = concat (map seg_sem (segs ps)).
Proof. unfold T.text_sem. rewrite <- segs_chunks. apply decode_segs. apply alt_segs. Qed.

(* the segments of the inlined pieces are the inlined segments *)
Lemma segs_app_ss : forall q Q, forallb no_cdata q = true -> q <> [] ->
  match Q with T.PCData _ :: _ => True | [] => True | _ => False end ->
  segs (q ++ Q) = SS q :: segs Q.
Proof.
  induction q as [|p q IH]; intros Q Hn Hne HQ; [congruence|]. cbn [forallb] in Hn. apply andb_true_iff in Hn.
  destruct Hn as [Hp Hq]. cbn [app]. rewrite segs_cons_plain by exact Hp.
  destruct q as [|p' q'].
  - cbn [app]. destruct Q as [|[| | |bs] Q']; try contradiction; [reflexivity|]. cbn [segs]. reflexivity.
  - rewrite IH by (assumption || discriminate). reflexivity.
Qed.

Lemma Exp_no_cdata : forall m acc ps q tr F, Exp decls m acc ps q tr F -> Forall (ep_ok m) ps ->
  forallb no_cdata q = true.
Proof.
  intros m acc ps q tr F H.
  induction H as [m acc|m acc p r q tr F _ IH|m acc n r d vps qv trv Fv q tr F Hfd Hval _ IHv _ IHr]; intros Hok.
  - reflexivity.
  - apply Forall_cons_iff in Hok. destruct Hok as [[Hv _] Hr]. cbn [forallb]. rewrite (IH Hr), andb_true_r.
    destruct p; try reflexivity. discriminate.
  - apply Forall_cons_iff in Hok. destruct Hok as [_ Hr].
    cbn [forallb no_cdata E.mark]. rewrite forallb_app. cbn [forallb no_cdata E.mark].
    rewrite (IHv (first_decl_ok decls Hdecls _ _ _ Hfd Hval)), (IHr Hr). reflexivity.
Qed.

Lemma Exp_ne : forall m acc ps q tr F, Exp decls m acc ps q tr F -> ps <> [] -> q <> [].
Proof. intros m acc ps q tr F H. destruct H; intros Hne; [congruence|discriminate|discriminate]. Qed.

Lemma RunExp_sem : forall L Q tr FF, RunExp L Q tr FF -> Forall eseg_wf L -> ealt L ->
  E.crlf_split_ok Q = true ->
  concat (map (@concat N) FF) = T.text_sem Q.
Proof.
  intros L Q tr FF H. rewrite text_sem_any.
  induction H as [|ps q tr F L Q tr' FF He HR IH|bs L Q tr' FF HR IH]; intros Hwf Ha Hs.
  - reflexivity.
  - apply Forall_cons_iff in Hwf. destruct Hwf as [(Hne & Hok & _) Hwf].
    assert (Ha' : ealt L) by (destruct L; [exact I|apply Ha]).
    assert (HQ : match Q with T.PCData _ :: _ => True | [] => True | _ => False end).
    { destruct L as [|[l|b0] L']; inversion HR; subst; try exact I. destruct Ha as [Ha _]. specialize (Ha eq_refl). discriminate. }
    rewrite segs_app_ss; [|apply (Exp_no_cdata _ _ _ _ _ _ He Hok)|apply (Exp_ne _ _ _ _ _ _ He Hne)|exact HQ].
    cbn [map concat seg_sem]. rewrite (IH Hwf Ha' (crlf_split_app_r _ _ Hs)). f_equal.
    rewrite (Exp_sem decls Hdecls _ _ _ _ _ _ He Hok ltac:(constructor) eq_refl (crlf_split_app_l _ _ Hs)). reflexivity.
  - apply Forall_cons_iff in Hwf. destruct Hwf as [_ Hwf].
    assert (Ha' : ealt L) by (destruct L; [exact I|apply Ha]).
    cbn [segs map concat seg_sem]. rewrite app_nil_r. rewrite (IH Hwf Ha' (crlf_split_tail _ _ Hs)). reflexivity.
Qed.

End Run.

Print Assumptions RunExp_sem.
Print Assumptions Exp_empty.
