(* Proofs/CstEntCText.v -- C07 with content entities: character data whose references may stand for ITEMS.  The state
   of the content machine between two tokens is a frame c0 (the context before the open run of
   character data) and the strings appended to the run so far; the run is closed by the next
   token that is not character data -- which may lie inside the value of an entity, or behind the
   end of one. *)
From Coq Require Import Ascii String.
From Coq Require Import List NArith PeanoNat Bool Lia ZifyBool ZifyN ZifyNat.
Import ListNotations.
From RX Require Import Generated.
From RX.Model Require Import Base CharClass Stream Tokenizer Doc Builder Parse.
From RX.Spec Require Cst CstText CstEnt Detector.
From RX.Spec Require Import Text.
From RX.Proofs Require Import Tactics CstLex CstBuild CstTree CstItems CstDoc TextMachine TextMerge HoistProofs NoPanicUtf8 DetectorProofs.
From RX.Proofs Require Import CstTextSem CstTextLex CstTextBuild CstTextItems.
From RX.Proofs Require Import CstEntSem CstEntText CstEntAttr CstEntMeaning CstEntRun CstEntLex CstEntDtd CstEntBuild CstEntInline CstEntItems CstEntDoc CstEntMain.
From RX.Proofs Require Import CstEntCFloor CstEntCAttr CstEntCBuild CstEntCSem CstEntCLex CstEntCLex2 CstEntCLoop.
Open Scope N_scope.

(* ------------------------------------------------------------------------------------------ *)
(* the pieces of the open run (semantic side)                                                 *)
(* ------------------------------------------------------------------------------------------ *)

(* the run ends with an entity boundary or a CDATA section, or is empty: what is appended next is
   decoded on its own *)
Definition is_pcdata (p : T.piece) : bool := match p with T.PCData _ => true | _ => false end.
Definition bnd (acc : list T.piece) : bool :=
  match rev acc with [] => true | x :: _ => E.is_mark x || is_pcdata x end.

Lemma bnd_snoc acc x : bnd (acc ++ [x]) = E.is_mark x || is_pcdata x.
Proof. unfold bnd. rewrite rev_app_distr. reflexivity. Qed.

Lemma bnd_nil : bnd [] = true.
Proof. reflexivity. Qed.

Lemma all_marks_app a b0 : all_marks (a ++ b0) = all_marks a && all_marks b0.
Proof. unfold all_marks. apply forallb_app. Qed.

Lemma starts10_app a b0 : a <> [] -> starts10 (a ++ b0) = starts10 a.
Proof. destruct a; [congruence|reflexivity]. Qed.

Lemma ends13_nil : ends13 [] = false.
Proof. reflexivity. Qed.

Lemma nosplit_bnd acc g X : bnd acc = true -> E.crlf_split_ok (acc ++ g ++ X) = true ->
  ends13 (chunks acc) && starts10 (chunks g) = false.
Proof.
  intros Hb Hs. destruct (ends13 (chunks acc)) eqn:E13; [|reflexivity]. cbn [andb].
  destruct (exists_last (l := acc)) as (a' & x & ->).
  { intros ->. discriminate. }
  rewrite bnd_snoc in Hb. destruct (E.is_mark x) eqn:Em.
  - rewrite chunks_app in E13. unfold chunks at 2 in E13. cbn [flat_map] in E13. rewrite (mark_chunks x Em), !app_nil_r in E13.
    assert (Ex : x = E.mark) by (destruct x as [[|? ?]| | |]; try discriminate; reflexivity). subst x.
    rewrite <- app_assoc in Hs. cbn [app] in Hs.
    pose proof (crlf_ok_true_starts _ (crlf_cut a' (g ++ X) Hs E13)) as H10. rewrite chunks_app in H10.
    destruct (chunks g) as [|c0 cg] eqn:Eg; [reflexivity|]. exact H10.
  - cbn [orb] in Hb. destruct x as [| | |bs]; try discriminate.
    rewrite chunks_app in E13. unfold chunks at 2 in E13. cbn [flat_map T.piece_chunks] in E13. rewrite app_nil_r in E13.
    rewrite ends13_app in E13 by discriminate. unfold ends13 in E13.
    change (CRef [] :: map CLit bs ++ [CRef []]) with ((CRef [] :: map CLit bs) ++ [CRef []]) in E13. rewrite last_last in E13. discriminate.
Qed.

Section Sem.
Variable text : bytes.

(* the strings appended to the open run are the meaning of its pieces *)
Definition SemI (frs : list cow) (acc : list T.piece) : Prop :=
  concat (map (cow_bytes text) frs) = T.text_sem acc /\ (frs = [] <-> all_marks acc = true).

Lemma SemI_nil : SemI [] [].
Proof. split; [reflexivity|]. split; reflexivity. Qed.

Lemma SemI_marks frs acc M : SemI frs acc -> all_marks M = true -> SemI frs (acc ++ M).
Proof.
  intros [H1 H2] HM. split.
  - rewrite text_sem_marks by exact HM. exact H1.
  - rewrite all_marks_app, HM, andb_true_r. exact H2.
Qed.

Lemma SemI_ext frs acc G g : SemI frs acc ->
  concat (map (cow_bytes text) G) = decode_chunks (chunks g) -> (G = [] <-> all_marks g = true) ->
  ends13 (chunks acc) && starts10 (chunks g) = false ->
  SemI (frs ++ G) (acc ++ g).
Proof.
  intros [H1 H2] HG Hm Hn. split.
  - rewrite map_app, concat_app, H1, HG. unfold T.text_sem. fold (chunks acc). fold (chunks (acc ++ g)).
    rewrite chunks_app. symmetry. apply decode_app_nosplit. exact Hn.
  - rewrite all_marks_app. split.
    + intros E0. apply app_eq_nil in E0. destruct E0 as [E1 E2]. rewrite (proj1 H2 E1), (proj1 Hm E2). reflexivity.
    + intros E0. apply andb_true_iff in E0. destruct E0 as [E1 E2]. rewrite (proj2 H2 E1), (proj2 Hm E2). reflexivity.
Qed.

End Sem.

(* every run in what the items stand for, closed or still open, satisfies the line-end proviso *)
Definition Pok (a : list T.piece) (its : list T.item) : Prop :=
  forallb E.provisos_item (fst (walk a its)) = true /\ E.crlf_split_ok (snd (walk a its)) = true.

Lemma crlf_marks_ok M : all_marks M = true -> E.crlf_split_ok M = true.
Proof. intros H. rewrite <- (app_nil_l M). apply crlf_split_marks; [exact H|reflexivity]. Qed.

Lemma Pok_acc : forall its a, Pok a its -> E.crlf_split_ok a = true.
Proof.
  induction its as [|i r IH]; intros a [H1 H2].
  - exact H2.
  - destruct (is_titext i) eqn:Ei.
    + destruct i as [|ps| |]; try discriminate. cbn [walk] in H1, H2.
      apply (crlf_split_app_l a ps). apply IH. split; assumption.
    + rewrite walk_nontext in H1 by exact Ei. cbn [fst] in H1. rewrite forallb_app in H1. apply andb_true_iff in H1.
      destruct H1 as [H1 _]. unfold flush in H1. destruct (all_marks a) eqn:Em; [apply crlf_marks_ok; exact Em|].
      cbn [forallb E.provisos_item] in H1. rewrite andb_true_r in H1. exact H1.
Qed.

Lemma Pok_app a x y : Pok a (x ++ y) -> Pok a x /\ Pok (snd (walk a x)) y.
Proof.
  intros [H1 H2]. rewrite walk_app in H1, H2. cbn [fst snd] in H1, H2. rewrite forallb_app in H1.
  apply andb_true_iff in H1. destruct H1 as [H1 H1'].
  assert (Py : Pok (snd (walk a x)) y) by (split; assumption).
  split; [|exact Py]. split; [exact H1|apply (Pok_acc y _ Py)].
Qed.

Lemma Pok_text a ps r : Pok a (T.IText ps :: r) -> Pok (a ++ ps) r.
Proof. intros H. exact H. Qed.

(* a run with a piece that is no mark yields a node, sooner or later *)
Lemma nsize_text ps : nsize (erase (T.IText ps)) = 1.
Proof. reflexivity. Qed.

Lemma flush_later : forall y a,
  nsizes (map erase (flush a)) <= nsizes (map erase (fst (walk a y) ++ flush (snd (walk a y)))).
Proof.
  induction y as [|i r IH]; intros a.
  - cbn [walk fst snd app]. apply N.le_refl.
  - destruct (is_titext i) eqn:Ei.
    + destruct i as [|ps| |]; try discriminate. cbn [walk]. etransitivity; [|apply IH].
      unfold flush. rewrite all_marks_app. destruct (all_marks a); cbn [andb].
      * change (nsizes (map erase [])) with 0. lia.
      * cbn [map]. rewrite !nsizes_cons, !nsize_text. lia.
    + rewrite walk_nontext by exact Ei. cbn [fst snd]. rewrite <- app_assoc, map_app, nsizes_app. lia.
Qed.

(* ------------------------------------------------------------------------------------------ *)
(* the machine side                                                                           *)
(* ------------------------------------------------------------------------------------------ *)
Definition decl_cont (d : E.edecl) : Prop :=
  match E.e_value d with
  | E.EContent its => forallb (E.wf_item true) its = true /\ E.no_adjacent_text its = true
  | _ => True
  end.

Section Machine.
Variable text : bytes.
Hypothesis Hascii : Forall (fun x => x < 128) text.
Variable decls : list E.edecl.
Variable es : list entity.
Hypothesis Henv : Forall2 (ent_ok text) decls es.
Hypothesis Hdecls : Forall decl_ok decls.
Hypothesis Hadjs : Forall decl_adj decls.
Hypothesis Hcont : Forall decl_cont decls.

Notation W := (CstLex.W text).
Notation evl := (CstEntCBuild.evl text).

(* c0: the frame, the context before the open run; c: the context; frs: the strings of the run *)
Record OR (c0 c : context) (frs : list cow) : Prop := mkOR {
  or_ci : CI c0; or_at : c_after_text c0 = []; or_fl : c_entity_floor c0 = 0; or_ld : c_ld c0 = ld_init;
  or_run : Run c0 c frs; or_es : c_entities c = es }.

Lemma OR_frame c0 c c' frs : OR c0 c frs -> same_frame c c' -> OR c0 c' frs.
Proof.
  intros [A1 A2 A3 A4 A5 A6] F. constructor; try assumption; [eapply Run_frame; eassumption|].
  destruct F as (_ & _ & _ & _ & _ & F6 & _). congruence.
Qed.

(* what is known after a stretch of content that stands for the items its, met with the pieces
   acc in the open run *)
Definition Res (c0 c : context) (acc : list T.piece) (its : list T.item) (ld' : loop_detector)
               (c0' c' : context) (frs' : list cow) (K : list row) (ext : list attr_data) : Prop :=
  Step c0 c0' K ext /\ OR c0' c' frs' /\ SemI text frs' (snd (walk acc its)) /\
  Forall2 (km text (d_attrs (c_doc c0'))) K
    (tag_list (c_parent_id c0) (len_N (d_nodes (c_doc c0))) (map erase (fst (walk acc its)))) /\
  length ext = nattrs_items (map erase (fst (walk acc its))) /\
  c_ld c' = ld' /\ ld_depth ld' = ld_depth (c_ld c) /\ c_entity_floor c' = c_entity_floor c /\
  (tn_set c -> tn_set c').

Definition Rooms (c0 : context) (acc : list T.piece) (its : list T.item) : Prop :=
  node_room c0 (nsizes (map erase (fst (walk acc its) ++ flush (snd (walk acc its))))) /\
  attr_room c0 (nattrs_items (map erase (fst (walk acc its)))).

Lemma Res_app c0 c acc x y ld1 ld2 c0a ca frsa K1 e1 c0b cb frsb K2 e2 :
  Res c0 c acc x ld1 c0a ca frsa K1 e1 -> Res c0a ca (snd (walk acc x)) y ld2 c0b cb frsb K2 e2 ->
  Res c0 c acc (x ++ y) ld2 c0b cb frsb (K1 ++ K2) (e1 ++ e2).
Proof.
  intros (S1 & O1 & M1 & F1 & L1 & D1 & D1' & Fl1 & T1) (S2 & O2 & M2 & F2 & L2 & D2 & D2' & Fl2 & T2).
  unfold Res. rewrite walk_app. cbn [fst snd].
  split; [eapply Step_trans; eassumption|]. split; [exact O2|]. split; [exact M2|].
  pose proof (Step_nodes_len _ _ _ _ S1) as Ln1.
  rewrite (Forall2_len_N _ _ _ F1) in Ln1. unfold len_N at 3 in Ln1. rewrite tag_list_len in Ln1.
  split.
  { rewrite map_app, tag_list_app. apply Forall2_app.
    - rewrite (s_attrs _ _ _ _ (proj1 S2)). apply km_Forall2_ext. exact F1.
    - destruct S1 as (_ & P1 & _). rewrite P1, Ln1 in F2. exact F2. }
  split; [rewrite app_length, map_app, nattrs_items_app, L1, L2; reflexivity|].
  split; [exact D2|]. split; [rewrite D2', D1; exact D1'|]. split; [congruence|auto].
Qed.

Lemma Rooms_app_l c0 acc x y : Rooms c0 acc (x ++ y) -> Rooms c0 acc x.
Proof.
  unfold Rooms. rewrite walk_app. cbn [fst snd]. intros [N1 A1]. split.
  - pose proof (flush_later y (snd (walk acc x))) as Hl.
    unfold node_room in *. rewrite !map_app, !nsizes_app in *. lia.
  - unfold attr_room in *. rewrite map_app, nattrs_items_app in A1. lia.
Qed.

Lemma Rooms_app_r c0 c acc x y ld1 c0a ca frsa K1 e1 :
  Res c0 c acc x ld1 c0a ca frsa K1 e1 -> Rooms c0 acc (x ++ y) -> Rooms c0a (snd (walk acc x)) y.
Proof.
  intros (S1 & _ & _ & F1 & L1 & _) [N1 A1]. rewrite walk_app in N1, A1. cbn [fst snd] in N1, A1.
  pose proof (Step_nodes_len _ _ _ _ S1) as Ln1.
  rewrite (Forall2_len_N _ _ _ F1) in Ln1. unfold len_N at 3 in Ln1. rewrite tag_list_len in Ln1.
  pose proof (Step_opt _ _ _ _ (proj1 S1)) as Lo1.
  pose proof (Step_attrs_len _ _ _ _ (proj1 S1)) as La1. unfold len_N at 3 in La1. rewrite L1 in La1.
  split.
  - unfold node_room in *. rewrite Ln1, Lo1. rewrite <- app_assoc, map_app, nsizes_app in N1. lia.
  - unfold attr_room in *. rewrite La1. rewrite map_app, nattrs_items_app in A1. lia.
Qed.

(* nothing happens *)
Lemma Res_nil c0 c acc frs : OR c0 c frs -> SemI text frs acc -> Res c0 c acc [] (c_ld c) c0 c frs [] [].
Proof.
  intros O M. unfold Res. cbn [walk fst snd map tag_list nattrs_items length].
  split; [apply Step_refl|]. split; [exact O|]. split; [exact M|]. split; [constructor|]. repeat split; auto.
Qed.

(* ---- one more string: the buffer of a text token, flushed ---- *)
Lemma emit_concat m bacc : Forall (chunk_okm m) bacc -> concat (emit m bacc) = decode_chunks bacc.
Proof.
  intros H. destruct (emit_valid m bacc H) as [Eo _]. unfold emit. rewrite <- Eo.
  destruct (run_text_chunks m bacc); cbn [concat]; rewrite ?app_nil_r; reflexivity.
Qed.

Lemma emit_nil_iff m bacc : Forall (chunk_okm m) bacc -> (emit m bacc = [] <-> bacc = []).
Proof.
  intros H. destruct (emit_valid m bacc H) as [Eo _]. unfold emit. rewrite Eo. destruct bacc as [|c0 r].
  - change (decode_chunks []) with (@nil N). tauto.
  - assert (Hne : decode_chunks (c0 :: r) <> []).
    { rewrite decode_chunks_gen. apply gen_cons_ne. apply Forall_cons_iff in H. destruct H as [(_ & Hc & _) _].
      destruct c0 as [x|bs]; [exact I|]. intros E0. apply Hc. cbv beta in E0. rewrite E0. reflexivity. }
    destruct (decode_chunks (c0 :: r)); [congruence|]. split; discriminate.
Qed.

Definition nomarks (ps : list T.piece) : Prop := Forall (fun p => E.is_mark p = false) ps.

Lemma nomarks_chunks_nil ps : nomarks ps -> (chunks ps = [] <-> ps = []).
Proof.
  intros H. split; [|intros ->; reflexivity]. destruct ps as [|p r]; [reflexivity|].
  apply Forall_cons_iff in H. destruct H as [Hp _]. destruct (nonmark_chunks p Hp) as [Hne _].
  unfold chunks. cbn [flat_map]. intros E0. apply app_eq_nil in E0. destruct E0. congruence.
Qed.

Lemma nomarks_all ps : nomarks ps -> (all_marks ps = true <-> ps = []).
Proof.
  intros H. split; [|intros ->; reflexivity]. destruct ps as [|p r]; [reflexivity|].
  apply Forall_cons_iff in H. destruct H as [Hp _]. unfold all_marks. cbn [forallb]. rewrite Hp. discriminate.
Qed.

Lemma buf_flush m bacc bps r c0 c frs acc :
  Forall (chunk_okm m) bacc -> bacc = chunks bps -> nomarks bps ->
  OR c0 c frs -> SemI text frs acc -> bnd acc = true -> E.crlf_split_ok (acc ++ bps) = true ->
  (all_marks acc = true -> bps <> [] -> room c0) ->
  exists c' G, finish_text r (push_text_chunks m bacc tb_new) c = Ok c' /\
    OR c0 c' (frs ++ G) /\ SemI text (frs ++ G) (acc ++ bps) /\
    c_ld c' = c_ld c /\ c_tag_name c' = c_tag_name c /\ c_entity_floor c' = c_entity_floor c.
Proof.
  intros Hacc Hb Hnm [A1 A2 A3 A4 A5 A6] HS Hbnd Hcr Hroom.
  destruct (finish_emit text m bacc r c0 c frs Hacc A5 A1) as (c' & G & E & HR' & HG & L1 & L2 & L3); [|exact A2|].
  { intros Z0 Z1. apply Hroom; [apply (proj2 HS); exact Z0|].
    intros ->. apply Z1. apply (emit_nil_iff m bacc Hacc). rewrite Hb. reflexivity. }
  exists c', G. split; [exact E|]. split.
  { constructor; try assumption. rewrite (Run_entities _ _ _ HR'). rewrite <- A6. symmetry. apply (Run_entities _ _ _ A5). }
  split; [|auto].
  apply SemI_ext; [exact HS| | |].
  - rewrite HG, emit_concat by exact Hacc. rewrite Hb. reflexivity.
  - rewrite (nomarks_all bps Hnm). rewrite <- (nomarks_chunks_nil bps Hnm), <- Hb, <- (emit_nil_iff m bacc Hacc), <- HG.
    split; [intros ->; reflexivity|]. destruct G; [reflexivity|discriminate].
  - apply (nosplit_bnd acc bps []); [exact Hbnd|rewrite app_nil_r; exact Hcr].
Qed.

(* ------------------------------------------------------------------------------------------ *)
(* what is proved of lists of items                                                           *)
(* ------------------------------------------------------------------------------------------ *)
Definition bnd_if (cs : list E.item) (acc : list T.piece) : Prop :=
  match cs with i :: _ => E.is_text i = true -> bnd acc = true | [] => True end.

Definition ItemsOK (tb : E.table) (cs : list E.item) : Prop :=
  forall m en tl p post c0 c frs acc lvl depth fuel its tr ld',
    forallb (E.wf_item m) cs = true -> E.no_adjacent_text cs = true ->
    CstEntCLex.W text en tl p (E.r_items cs ++ post) -> text_stop post ->
    OR c0 c frs -> SemI text frs acc -> bnd_if cs acc ->
    m = (0 <? ld_depth (c_ld c)) -> N.of_nat lvl + ld_depth (c_ld c) = 12 ->
    c_entity_floor c <= len_N (c_parent_prefixes c) ->
    E.inline_items tb m cs = Some (its, tr) -> ld_run (c_ld c) tr = Some ld' ->
    Pok acc its -> Rooms c0 acc its ->
    exists c0' c' frs' K ext,
      parse_content_loop text context (evl lvl) (esteps_list cs + fuel) depth (CstEntCLex.st en tl p (E.r_items cs ++ post)) c =
      parse_content_loop text context (evl lvl) fuel depth (CstEntCLex.st en tl (p + blen (E.r_items cs)) post) c' /\
      Res c0 c acc its ld' c0' c' frs' K ext.

(* ---- a reference inside a text token: the computation ---- *)
Lemma enter_depth ld ld1 : ld_enter ld = Some ld1 -> ld_depth ld1 = ld_depth ld + 1 /\ ld_depth ld < 10.
Proof.
  intros Eenter. rewrite (mk_eta ld) in Eenter. apply ld_enter_some in Eenter. destruct Eenter as [Hlt [[H0 ->]|[H0 [_ ->]]]].
  - unfold DetectorProofs.mk. cbn. rewrite H0. split; [reflexivity|lia].
  - unfold DetectorProofs.mk. cbn. split; [reflexivity|exact Hlt].
Qed.

Lemma ref_step pc r fu s buf c value s1 c1 ld1 sv s' c2' :
  at_end s = false -> parse_next_chunk text s (c_entities c) = Ok (ChText value, s1) ->
  finish_text r buf c = Ok c1 -> ld_enter (c_ld c1) = Some ld1 ->
  stream_from_substr text (sl_start value) (sl_end value) = Ok sv ->
  pc sv (set_entity_floor (set_tag_name (set_ld c1 ld1) tag_name_null) (len_N (c_parent_prefixes c1))) = Ok (s', c2') ->
  len_N (c_parent_prefixes c2') = c_entity_floor c2' ->
  text_loop text pc r (S fu) s buf c =
  text_loop text pc r fu s1 tb_new
    (set_ld (set_entity_floor (set_tag_name c2' (c_tag_name c1)) (c_entity_floor c1)) (dec_depth (c_ld c2'))).
Proof.
  intros He Hp Ef Een Es Epc Hpp. rewrite (text_loop_entity_step text pc r fu s buf c value s1 He Hp).
  rewrite Ef. cbn [bind]. destruct (enter_model text s1 _ _ Een) as (l0 & Ei1 & Ei2).
  rewrite Ei1. cbn [bind]. rewrite Ei2. cbn [bind]. rewrite Es. cbn [bind]. cbv zeta.
  cbn [c_parent_prefixes c_tag_name c_entity_floor set_ld]. rewrite Epc. cbn [bind].
  rewrite Hpp, N.eqb_refl. reflexivity.
Qed.

Lemma wf_item_true_false : forall i, E.wf_item true i = true -> E.wf_item false i = true.
Proof.
  assert (Hp : forall q cd ch p, E.wf_epiece q cd ch true p = true -> E.wf_epiece q cd ch false p = true).
  { intros q cd ch [[bs|hex ds|e|bs]|n]; cbn [E.wf_epiece]; intros H; try exact H.
    all: rewrite !andb_true_iff in *; destruct H as [[A B0] _]; auto. }
  assert (Hps : forall q cd ch ps, E.wf_epieces q cd ch true ps = true -> E.wf_epieces q cd ch false ps = true).
  { intros q cd ch ps. unfold E.wf_epieces. rewrite !andb_true_iff. intros [A B0]. split; [|exact B0].
    revert A. apply forallb_imp. apply Hp. }
  assert (Ha : forall a, E.wf_attr true a = true -> E.wf_attr false a = true).
  { intros a. unfold E.wf_attr. rewrite !andb_true_iff. intros [A B0]. split; [exact A|apply Hps; exact B0]. }
  intros i. induction i as [n a w|n a w cs w2 IH|ps|bs|t s0 v] using eitem_ind; intros H.
  - rewrite CstEntMain.wf_item_elem_gen in *. rewrite !andb_true_iff in *. destruct H as [[[[[[A1 A2] A3] A4] A5] A6] A7].
    repeat split; try assumption. revert A3. apply forallb_imp. exact Ha.
  - rewrite CstEntMain.wf_item_elem_gen in *. rewrite !andb_true_iff in *. destruct H as [[[[[[A1 A2] A3] A4] A5] A6] [[A7 A8] A9]].
    repeat split; try assumption; [revert A3; apply forallb_imp; exact Ha|].
    clear - IH A9. induction IH as [|c r Hc _ IHr]; [reflexivity|]. cbn [forallb] in *. apply andb_true_iff in A9.
    destruct A9 as [B1 B2]. rewrite (Hc B1), (IHr B2). reflexivity.
  - cbn [E.wf_item] in *. apply andb_true_iff in H. destruct H as [A B0]. rewrite A. apply Hps. exact B0.
  - exact H.
  - exact H.
Qed.

(* ---- the value of a character-data entity (Proofs/CstEntText.v) ---- *)
Lemma value_text L d en vps qv trv Fv c0 c2 frs2 acc2 ld1' :
  E.e_value d = E.EText vps -> ent_ok text d en -> decl_ok d ->
  Exp decls true [] vps qv trv Fv ->
  OR c0 c2 frs2 -> SemI text frs2 acc2 -> bnd acc2 = true ->
  0 < ld_depth (c_ld c2) <= 10 -> N.of_nat L + ld_depth (c_ld c2) = 13 ->
  ld_run (c_ld c2) trv = Some ld1' ->
  E.crlf_split_ok (acc2 ++ qv) = true ->
  (all_marks acc2 = true -> all_marks qv = false -> room c0) ->
  exists sv s' c2' Gv,
    stream_from_substr text (sl_start (en_value en)) (sl_end (en_value en)) = Ok sv /\
    parse_content_lvl text L sv c2 = Ok (s', c2') /\
    OR c0 c2' (frs2 ++ Gv) /\ SemI text (frs2 ++ Gv) (acc2 ++ qv) /\
    c_ld c2' = ld1' /\ ld_depth ld1' = ld_depth (c_ld c2) /\
    c_tag_name c2' = c_tag_name c2 /\ c_entity_floor c2' = c_entity_floor c2.
Proof.
  intros Hval (Hen & vs & tail & Eval & HWv) Hdok Hv [A1 A2 A3 A4 A5 A6] HS Hbnd Hd0 Hlvl Erun1 Hcr Hroom.
  unfold decl_ok in Hdok. rewrite Hval in Hdok. destruct Hdok as [Hvok Hvn3].
  rewrite Hval in Eval, HWv. cbn [E.r_value] in Eval, HWv.
  rewrite Eval. cbn [sl sl_start sl_end].
  rewrite (stream_from_substr_W text vs (E.r_epieces vps) tail HWv).
  destruct L as [|lvl']; [lia|].
  set (ve := vs + blen (E.r_epieces vps)) in *.
  pose proof (CstLex.W_le _ _ _ (CstLex.W_app _ _ _ _ HWv)) as Hlev. fold ve in Hlev.
  pose proof (ep_bytes true vps Hvok) as Hvb.
  pose proof (Exp_empty decls Hdecls _ _ _ _ _ _ Hv Hvok ltac:(constructor)) as Hemp.
  assert (HFroom : frs2 = [] -> Fv <> [] -> room c0).
  { intros Z0 Z1. apply Hroom; [apply (proj2 HS); exact Z0|].
    destruct (all_marks qv) eqn:Em; [|reflexivity]. exfalso. apply Z1. apply (proj2 Hemp). split; [reflexivity|exact Em]. }
  assert (Hinner : exists c2' Gv,
            parse_content_lvl text (S lvl') (sst ve vs (E.r_epieces vps ++ tail)) c2 = Ok (sst ve ve tail, c2') /\
            Run c0 c2' (frs2 ++ Gv) /\ map (cow_bytes text) Gv = Fv /\
            c_ld c2' = ld1' /\ ld_depth ld1' = ld_depth (c_ld c2) /\
            c_tag_name c2' = c_tag_name c2 /\ c_entity_floor c2' = c_entity_floor c2).
  { assert (Epc : forall s0 cc, parse_content_lvl text (S lvl') s0 cc =
              parse_content_loop text context (token_with text (process_text_with text (parse_content_lvl text lvl')))
                (S (length (s_rest s0))) 0 s0 cc) by reflexivity.
    rewrite Epc. cbn [sst s_rest].
    destruct (list_eq_dec N.eq_dec (E.r_epieces vps) []) as [Ex|Hne].
    - assert (Evps : vps = []).
      { destruct vps as [|[qq|nn] vr]; [reflexivity| |discriminate Ex].
        apply Forall_cons_iff in Hvok. destruct Hvok as [Hq0 _]. cbn [ep_ok] in Hq0. destruct Hq0 as [Hq _].
        destruct (r_piece_ne 60 qq Hq) as (x1 & r1 & E1).
        cbn [E.r_epieces flat_map E.r_epiece] in Ex. rewrite E1 in Ex. discriminate. }
      subst vps. inversion Hv; subst. cbn [E.r_epieces flat_map app length] in *.
      cbn [parse_content_loop]. rewrite at_end_sst. unfold ve. rewrite blen_nil, N.add_0_r.
      replace (vs <=? vs) with true by lia.
      exists c2, []. rewrite app_nil_r. cbn [ld_run] in Erun1. injection Erun1 as <-.
      repeat split; auto.
    - assert (Hlen : (1 <= length (E.r_epieces vps ++ tail))%nat).
      { rewrite app_length. destruct (E.r_epieces vps); [congruence|cbn; lia]. }
      destruct (length (E.r_epieces vps ++ tail)) as [|len'] eqn:El; [lia|].
      rewrite (content_loop_text_ne text Hascii context _ ve vs (E.r_epieces vps) tail c2 len' HWv eq_refl Hlev Hvb Hvn3 Hne).
      cbn [token_with].
      rewrite process_text_with_unfold. unfold slice_bytes at 1. cbn [sl sl_start sl_end].
      unfold ve. rewrite (CstLex.W_sub _ _ _ _ HWv). fold ve.
      destruct (existsb (fun x => (x =? 38) || (x =? 13)) (E.r_epieces vps)) eqn:Efast; cbn [negb].
      + cbn [fst snd]. unfold ve. rewrite (stream_from_substr_W text vs (E.r_epieces vps) tail HWv). fold ve. cbn [bind].
        destruct (TL text Hascii decls es Henv Hdecls true [] vps qv trv Fv Hv ve vs tail c0 c2 frs2
                    (S (length (s_rest (sst ve vs (E.r_epieces vps ++ tail))))) lvl' (vs, ve) ld1')
          as (c2' & Gv & Ev & HRv & HGv & Lv1 & Lv2 & Lv3 & Lv4); try assumption; try reflexivity.
        * replace (0 <? ld_depth (c_ld c2)) with true by lia. reflexivity.
        * constructor.
        * lia.
        * cbn [sst s_rest]. rewrite app_length. lia.
        * cbn [push_text_chunks sst s_rest] in Ev |- *. rewrite Ev. cbn [bind]. exists c2', Gv. repeat split; auto.
      + destruct (existsb_or_false _ _ _ Efast) as [E38 E13].
        destruct (exp_plain decls true vps [] qv trv Fv Hv Hvok E38) as [-> ->]. cbn [app].
        assert (Hemit : emit true ([] ++ map CLit (E.r_epieces vps)) = [E.r_epieces vps]).
        { cbn [app]. unfold emit. rewrite text_chunks_in_entity.
          replace (concat (map chunk_bytes (map CLit (E.r_epieces vps)))) with (E.r_epieces vps)
            by (clear; induction (E.r_epieces vps) as [|z l IHl]; [reflexivity|cbn; rewrite <- IHl; reflexivity]).
          rewrite norm_eol_nocr by exact E13. destruct (E.r_epieces vps); [congruence|reflexivity]. }
        destruct (run_append (CowBorrowed (sl vs ve)) (vs, ve) c0 c2 frs2 A5 A1
                    (fun Z0 => HFroom Z0 ltac:(rewrite Hemit; discriminate)) A2)
          as (c2' & Ea & HRa & La1 & La2 & La3).
        rewrite Ea. cbn [bind]. exists c2', [CowBorrowed (sl vs ve)]. cbn [ld_run] in Erun1. injection Erun1 as <-.
        split; [reflexivity|]. split; [exact HRa|]. split.
        { cbn [map cow_bytes]. unfold slice_bytes, ve. cbn [sl sl_start sl_end]. rewrite (CstLex.W_sub _ _ _ _ HWv).
          cbn [app] in Hemit. rewrite Hemit. reflexivity. }
        repeat split; auto. }
  destruct Hinner as (c2' & Gv & Ein & HRv & HGv & Lv1 & Lv2 & Lv3 & Lv4).
  eexists. exists (sst ve ve tail), c2', Gv. split; [reflexivity|]. split; [exact Ein|]. split.
  { constructor; try assumption. rewrite (Run_entities _ _ _ HRv). rewrite <- A6. symmetry. apply (Run_entities _ _ _ A5). }
  split; [|repeat split; assumption].
  apply SemI_ext; [exact HS| | |].
  - rewrite HGv. rewrite (Exp_sem decls Hdecls true [] vps qv trv Fv Hv Hvok ltac:(constructor) eq_refl
                            (crlf_split_app_r _ _ Hcr)). reflexivity.
  - rewrite <- HGv in Hemp. split.
    + intros ->. apply Hemp. reflexivity.
    + intros Em. destruct Gv; [reflexivity|]. exfalso.
      assert (X : map (cow_bytes text) (c :: Gv) = []) by (apply (proj2 Hemp); split; [reflexivity|exact Em]). discriminate.
  - apply (nosplit_bnd acc2 qv []); [exact Hbnd|rewrite app_nil_r; exact Hcr].
Qed.

Lemma ewf_items_true cs : forallb (E.wf_item true) cs = true -> ewf_items cs = true.
Proof.
  induction cs as [|c r IH]; intros H; [reflexivity|]. cbn [forallb ewf_items] in *. apply andb_true_iff in H.
  destruct H as [H1 H2]. rewrite (wf_item_true_false _ H1), (IH H2). reflexivity.
Qed.

Lemma ewf_items_false cs : forallb (E.wf_item false) cs = true -> ewf_items cs = true.
Proof.
  induction cs as [|c r IH]; intros H; [reflexivity|]. cbn [forallb ewf_items] in *. apply andb_true_iff in H.
  destruct H as [H1 H2]. rewrite H1, (IH H2). reflexivity.
Qed.

Lemma ewf_items_any m cs : forallb (E.wf_item m) cs = true -> ewf_items cs = true.
Proof. destruct m; [apply ewf_items_true|apply ewf_items_false]. Qed.

Section Level.
Variable k : nat.
Hypothesis IHk : forall k', k = S k' -> forall cs, ItemsOK (E.level decls k') cs.
Notation tb := (E.level decls k).

(* the value of a declared entity, read as content *)
Lemma value_ok n v d en L c0 c2 frs2 acc2 ld1' :
  E.lookup tb n = Some v -> first_decl decls n = Some d -> ent_ok text d en ->
  OR c0 c2 frs2 -> SemI text frs2 acc2 -> bnd acc2 = true ->
  0 < ld_depth (c_ld c2) <= 10 -> N.of_nat L + ld_depth (c_ld c2) = 13 ->
  c_entity_floor c2 = len_N (c_parent_prefixes c2) ->
  ld_run (c_ld c2) (E.x_trace v) = Some ld1' ->
  Pok acc2 (E.x_items v) -> Rooms c0 acc2 (E.x_items v) ->
  exists sv s' c0' c2' frs' K ext,
    stream_from_substr text (sl_start (en_value en)) (sl_end (en_value en)) = Ok sv /\
    parse_content_lvl text L sv c2 = Ok (s', c2') /\
    Res c0 c2 acc2 (E.x_items v) ld1' c0' c2' frs' K ext.
Proof.
  intros El Hfd Hent HO HS Hbnd Hd0 Hlvl Hfl Hld HP HR.
  rewrite lookup_level in El. destruct k as [|k'] eqn:Ek; [discriminate|]. rewrite Hfd in El.
  pose proof (first_decl_in decls _ _ Hfd) as Hin.
  destruct (E.e_value d) as [vps|its_v] eqn:Hval; cbn [E.inline_value] in El.
  - (* character data *)
    destruct (E.inline_ps (E.level decls k') false true vps) as [[qv trv]|] eqn:Ei; [|discriminate].
    cbn [E.obind fst snd] in El. injection El as <-. cbn [E.x_items E.x_trace] in *.
    destruct (inline_Exp decls k' true vps qv trv Ei true []) as [Fv Hv].
    assert (Hdok : decl_ok d) by (rewrite Forall_forall in Hdecls; apply Hdecls; exact Hin).
    destruct HP as [_ HP2]. cbn [walk snd] in HP2.
    destruct (value_text L d en vps qv trv Fv c0 c2 frs2 acc2 ld1' Hval Hent Hdok Hv HO HS Hbnd Hd0 Hlvl Hld HP2)
      as (sv & s' & c2' & Gv & Es & Ep & HO' & HS' & L1 & L2 & L3 & L4).
    { intros Z0 Z1. destruct HR as [HR _]. cbn [walk fst snd app] in HR. apply (node_room_room _ _ HR).
      unfold flush. rewrite all_marks_app, Z0, Z1. cbn [andb map]. rewrite nsizes_cons, nsize_text. change (nsizes []) with 0. lia. }
    exists sv, s', c0, c2', (frs2 ++ Gv), [], []. split; [exact Es|]. split; [exact Ep|].
    unfold Res. cbn [walk fst snd map tag_list nattrs_items length].
    split; [apply Step_refl|]. split; [exact HO'|]. split; [exact HS'|]. split; [constructor|].
    split; [reflexivity|]. split; [exact L1|]. split; [exact L2|]. split; [exact L4|].
    unfold tn_set. rewrite L3. auto.
  - (* items *)
    destruct (E.inline_items (E.level decls k') true its_v) as [[itv trv]|] eqn:Ei; [|discriminate].
    cbn [E.obind fst snd] in El. injection El as <-. cbn [E.x_items E.x_trace] in *.
    assert (Hc : decl_cont d) by (rewrite Forall_forall in Hcont; apply Hcont; exact Hin).
    unfold decl_cont in Hc. rewrite Hval in Hc. destruct Hc as [Hwf Hna].
    destruct Hent as (Hen & vs & tail & Eval & HWv). rewrite Hval in Eval, HWv. cbn [E.r_value] in Eval, HWv.
    rewrite Eval. cbn [sl sl_start sl_end].
    rewrite (stream_from_substr_W text vs (E.r_items its_v) tail HWv).
    destruct L as [|L']; [lia|].
    set (ve := vs + blen (E.r_items its_v)).
    pose proof (esteps_list_le its_v (ewf_items_true _ Hwf)) as Hst.
    assert (HW' : CstEntCLex.W text ve tail vs (E.r_items its_v ++ [])).
    { split; [rewrite app_nil_r; exact HWv|rewrite app_nil_r; reflexivity]. }
    destruct (IHk k' eq_refl its_v true ve tail vs [] c0 c2 frs2 acc2 L' 0
                (S (length (E.r_items its_v ++ tail) - esteps_list its_v)) itv trv ld1'
                Hwf Hna HW' I HO HS)
      as (c0' & c2' & frs' & K & ext & El & HRes); try assumption.
    { destruct its_v; [exact I|]. intros _. exact Hbnd. }
    { replace (0 <? ld_depth (c_ld c2)) with true by lia. reflexivity. }
    { lia. }
    { lia. }
    exists (sst ve vs (E.r_items its_v ++ tail)), (CstEntCLex.st ve tail (vs + blen (E.r_items its_v)) []), c0', c2', frs', K, ext.
    split; [reflexivity|]. split; [|exact HRes].
    rewrite parse_content_lvl_S. unfold parse_content. cbn [sst s_rest].
    replace (S (length (E.r_items its_v ++ tail)))
      with (esteps_list its_v + S (length (E.r_items its_v ++ tail) - esteps_list its_v))%nat
      by (rewrite app_length; lia).
    change (sst ve vs (E.r_items its_v ++ tail)) with (CstEntCLex.st ve tail vs (E.r_items its_v)).
    rewrite <- (app_nil_r (E.r_items its_v)) at 2.
    rewrite El. apply (loop_end text ve tail context (evl L')).
    apply (CstEntCLex.W_app text ve tail _ _ _ HW').
Qed.

(* ---- the loop of process_text_with on character data whose references may stand for items ---- *)
Lemma TLc : forall ps bps bacc m e p more c0 c frs acc fuel L r its tr ld',
  Forall (ep_ok m) ps -> W p (E.r_epieces ps ++ more) -> p + blen (E.r_epieces ps) = e -> e <= tlen text ->
  m = (0 <? ld_depth (c_ld c)) -> N.of_nat L + ld_depth (c_ld c) = 12 ->
  Forall (chunk_okm m) bacc -> bacc = chunks bps -> nomarks bps ->
  OR c0 c frs -> SemI text frs acc -> bnd acc = true ->
  c_entity_floor c <= len_N (c_parent_prefixes c) ->
  E.inline_run tb m ps = Some (its, tr) -> ld_run (c_ld c) tr = Some ld' ->
  Pok (acc ++ bps) its -> Rooms c0 (acc ++ bps) its ->
  (length (E.r_epieces ps) < fuel)%nat ->
  exists c0' c' frs' K ext,
    (let! (b0, c1) := text_loop text (parse_content_lvl text L) r fuel (sst e p (E.r_epieces ps ++ more))
                        (push_text_chunks m bacc tb_new) c in finish_text r b0 c1) = Ok c' /\
    Res c0 c (acc ++ bps) its ld' c0' c' frs' K ext /\ c_tag_name c' = c_tag_name c.
Proof.
  induction ps as [|pc0 rest IH]; intros bps bacc m e p more c0 c frs acc fuel L r its tr ld'
    Hok HW He Hle Hm Hlvl Hacc Hb Hnm HO HS Hbnd Hfl Hin Hld HP HR Hfu.
  - (* the end of the token *)
    cbn [E.inline_run] in Hin. injection Hin as <- <-.
    cbn [E.r_epieces flat_map app] in *. rewrite blen_nil, N.add_0_r in He. subst p.
    destruct fuel as [|fu]; [lia|]. cbn [text_loop]. rewrite at_end_sst. replace (e <=? e) with true by lia.
    cbn [bind]. cbn [ld_run] in Hld. injection Hld as <-.
    destruct HP as [_ HP2]. cbn [walk snd] in HP2.
    destruct (buf_flush m bacc bps r c0 c frs acc Hacc Hb Hnm HO HS Hbnd HP2) as (c' & G & E & HO' & HS' & L1 & L2 & L3).
    { intros Z0 Z1. destruct HR as [HR _]. cbn [walk fst snd app] in HR. apply (node_room_room _ _ HR).
      unfold flush. rewrite all_marks_app, Z0. cbn [andb].
      destruct (all_marks bps) eqn:Em; [apply (nomarks_all bps Hnm) in Em; congruence|].
      cbn [map]. rewrite nsizes_cons, nsize_text. change (nsizes []) with 0. lia. }
    exists c0, c', (frs ++ G), [], []. split; [exact E|]. split; [|exact L2].
    unfold Res. cbn [walk fst snd map tag_list nattrs_items length].
    split; [apply Step_refl|]. split; [exact HO'|]. split; [exact HS'|]. split; [constructor|].
    split; [reflexivity|]. split; [exact L1|]. split; [reflexivity|]. split; [exact L3|].
    unfold tn_set. rewrite L2. auto.
  - apply Forall_cons_iff in Hok. destruct Hok as [Hp Hrest]. destruct pc0 as [q|n].
    + (* a piece *)
      cbn [E.inline_run] in Hin. destruct (E.inline_run tb m rest) as [[itr trr]|] eqn:Er; [|discriminate].
      cbn [E.obind fst snd] in Hin. injection Hin as <- <-.
      cbn [E.r_epieces flat_map E.r_epiece] in *. fold (E.r_epieces rest) in *.
      rewrite <- app_assoc in HW |- *. rewrite blen_app in He.
      pose proof Hp as [Hvp _]. pose proof (chunks_le_piece q Hvp) as Hcl. rewrite app_length in Hfu.
      replace fuel with (length (T.piece_chunks q) + (fuel - length (T.piece_chunks q)))%nat by lia.
      rewrite (loop_piece text Hascii) by (try assumption; lia). rewrite <- Hm.
      rewrite <- push_text_chunks_app.
      destruct (IH (bps ++ [q]) (bacc ++ T.piece_chunks q) m e (p + blen (T.r_piece q)) more c0 c frs acc
                  (fuel - length (T.piece_chunks q))%nat L r itr trr ld') as (c0' & c' & frs' & K & ext & E & HRes & Ht);
        try assumption; try lia.
      * apply (CstLex.W_app _ _ _ _ HW).
      * apply Forall_app. split; [exact Hacc|apply ep_chunks; exact Hp].
      * rewrite chunks_app, Hb. f_equal. unfold chunks. cbn [flat_map]. rewrite app_nil_r. reflexivity.
      * apply Forall_app. split; [exact Hnm|]. constructor; [apply (ep_nonmark _ _ Hp)|constructor].
      * rewrite app_assoc. exact HP.
      * rewrite app_assoc. exact HR.
      * exists c0', c', frs', K, ext. split; [exact E|]. split; [|exact Ht].
        unfold Res in *. cbn [walk]. rewrite <- app_assoc. exact HRes.
    + (* a reference *)
      destruct Hp as [Hn Hpre].
      cbn [E.inline_run] in Hin. destruct (E.lookup tb n) as [v|] eqn:El; [|discriminate]. cbn [E.obind] in Hin.
      destruct (E.inline_run tb m rest) as [[itr trr]|] eqn:Er; [|discriminate].
      cbn [E.obind fst snd] in Hin. injection Hin as <- <-.
      cbn [E.r_epieces flat_map E.r_epiece] in *. fold (E.r_epieces rest) in *.
      rewrite <- !app_assoc in HW |- *. rewrite !blen_app in He. change (blen [38]) with 1 in He. change (blen [59]) with 1 in He.
      assert (Hfd : exists d, first_decl decls n = Some d).
      { rewrite lookup_level in El. destruct k; [discriminate|]. destruct (first_decl decls n); [eauto|discriminate]. }
      destruct Hfd as [d Hfd].
      destruct (pnc_entity text Hascii decls es Henv Hdecls e p n (E.r_epieces rest ++ more) d HW Hn Hpre ltac:(lia) Hle Hfd)
        as (en & Epnc & Hent & _).
      destruct fuel as [|fu]; [lia|].
      (* what the items stand for *)
      set (acc1 := acc ++ bps) in *.
      set (acc2 := acc1 ++ [E.mark]).
      assert (Eits : T.IText [E.mark] :: E.x_items v ++ T.IText [E.mark] :: itr =
                     (T.IText [E.mark] :: E.x_items v ++ [T.IText [E.mark]]) ++ itr)
        by (cbn [app]; rewrite <- app_assoc; reflexivity).
      assert (Ew1 : walk acc1 (T.IText [E.mark] :: E.x_items v ++ [T.IText [E.mark]]) =
                    (fst (walk acc2 (E.x_items v)), snd (walk acc2 (E.x_items v)) ++ [E.mark])).
      { cbn [walk]. fold acc2. rewrite walk_app. cbn [walk fst snd]. rewrite app_nil_r. reflexivity. }
      rewrite Eits in HP, HR |- *.
      destruct (Pok_app _ _ _ HP) as [HP1 HP2]. rewrite Ew1 in HP2. cbn [snd] in HP2.
      assert (HPv : Pok acc2 (E.x_items v)).
      { destruct HP1 as [X1 X2]. rewrite Ew1 in X1, X2. cbn [fst snd] in X1, X2. split; [exact X1|].
        apply (crlf_split_app_l _ [E.mark]). exact X2. }
      pose proof (Rooms_app_l _ _ _ _ HR) as HR1.
      (* flush *)
      destruct (buf_flush m bacc bps r c0 c frs acc Hacc Hb Hnm HO HS Hbnd) as (c1 & G0 & E0 & HO1 & HS1 & L1 & L2 & L3).
      { apply (crlf_split_app_l _ [E.mark]). apply (Pok_acc _ _ HPv). }
      { intros Z0 Z1. destruct HR1 as [HR1 _]. rewrite Ew1 in HR1. cbn [fst snd] in HR1.
        apply (node_room_room _ _ HR1).
        pose proof (flush_later (E.x_items v ++ [T.IText [E.mark]]) acc2) as Hl.
        rewrite walk_app in Hl. cbn [walk fst snd] in Hl. rewrite app_nil_r in Hl.
        assert (X : nsizes (map erase (flush acc2)) = 1).
        { unfold flush, acc2, acc1. rewrite !all_marks_app, Z0. cbn [andb].
          destruct (all_marks bps) eqn:Em; [apply (nomarks_all bps Hnm) in Em; congruence|].
          cbn [andb map]. rewrite nsizes_cons, nsize_text. change (nsizes []) with 0. lia. }
        lia. }
      (* the detector *)
      cbn [ld_run] in Hld. destruct (ld_enter (c_ld c)) as [ld1|] eqn:Eenter; [|discriminate].
      rewrite ld_run_app in Hld. destruct (ld_run ld1 (E.x_trace v)) as [ld1'|] eqn:Erun1; [|discriminate]. cbn [ld_run] in Hld.
      destruct (enter_depth _ _ Eenter) as [Hd1 Hd10].
      (* inside the value *)
      set (c2 := set_entity_floor (set_tag_name (set_ld c1 ld1) tag_name_null) (len_N (c_parent_prefixes c1))).
      assert (HO2 : OR c0 c2 (frs ++ G0)) by (apply (OR_frame c0 c1 c2 _ HO1); unfold c2; repeat split).
      assert (HS2 : SemI text (frs ++ G0) acc2) by (apply SemI_marks; [exact HS1|reflexivity]).
      destruct (value_ok n v d en L c0 c2 (frs ++ G0) acc2 ld1' El Hfd Hent HO2 HS2)
        as (sv & s' & c0a & c2' & frsa & K1 & e1 & Es & Epc & HRes1).
      { unfold acc2. rewrite bnd_snoc. reflexivity. }
      { unfold c2. cbn. lia. }
      { unfold c2. cbn. lia. }
      { unfold c2. reflexivity. }
      { unfold c2. cbn. exact Erun1. }
      { exact HPv. }
      { destruct HR1 as [X1 X2]. rewrite Ew1 in X1, X2. cbn [fst snd] in X1, X2. split; [|exact X2].
        unfold node_room in *. rewrite !map_app, !nsizes_app in *.
        assert (Y : nsizes (map erase (flush (snd (walk acc2 (E.x_items v))))) <=
                    nsizes (map erase (flush (snd (walk acc2 (E.x_items v)) ++ [E.mark])))).
        { unfold flush. rewrite all_marks_app. change (all_marks [E.mark]) with true. rewrite andb_true_r.
          destruct (all_marks (snd (walk acc2 (E.x_items v)))); [apply N.le_refl|].
          cbn [map]. rewrite !nsizes_cons, !nsize_text. lia. }
        lia. }
      pose proof HRes1 as (S1 & O1 & M1 & F1 & Le1 & D1 & D1' & Fl1 & T1).
      (* back from the value *)
      assert (Hpp : len_N (c_parent_prefixes c2') = c_entity_floor c2').
      { rewrite Fl1. change (c_entity_floor c2) with (len_N (c_parent_prefixes c1)).
        rewrite (Run_pp _ _ _ (or_run _ _ _ O1)), (Run_pp _ _ _ (or_run _ _ _ HO1)).
        destruct S1 as (_ & _ & ->). reflexivity. }
      rewrite (ref_step (parse_content_lvl text L) r fu (sst e p ([38] ++ n ++ [59] ++ E.r_epieces rest ++ more))
                 (push_text_chunks m bacc tb_new) c (en_value en) (sst e (p + 2 + blen n) (E.r_epieces rest ++ more)) c1 ld1 sv s' c2');
        try assumption.
      2:{ rewrite at_end_sst. lia. }
      2:{ rewrite (or_es _ _ _ HO). exact Epnc. }
      2:{ rewrite L1. exact Eenter. }
      set (c3 := set_ld (set_entity_floor (set_tag_name c2' (c_tag_name c1)) (c_entity_floor c1)) (dec_depth (c_ld c2'))).
      assert (HO3 : OR c0a c3 frsa) by (apply (OR_frame c0a c2' c3 _ O1); unfold c3; repeat split).
      assert (Eld3 : c_ld c3 = dec_depth ld1') by (unfold c3; cbn; rewrite D1; reflexivity).
      assert (Hdd : ld_depth (dec_depth ld1') = ld_depth (c_ld c)).
      { unfold dec_depth. cbn [ld_depth]. rewrite D1'. unfold c2. cbn [c_ld set_entity_floor set_tag_name set_ld].
        rewrite Hd1. replace (0 <? ld_depth (c_ld c) + 1) with true by lia. lia. }
      (* the entity as a whole *)
      assert (HResE : Res c0 c acc1 (T.IText [E.mark] :: E.x_items v ++ [T.IText [E.mark]]) (dec_depth ld1') c0a c3 frsa K1 e1).
      { unfold Res. rewrite Ew1. cbn [fst snd].
        split; [exact S1|]. split; [exact HO3|]. split; [apply SemI_marks; [exact M1|reflexivity]|].
        split; [exact F1|]. split; [exact Le1|]. split; [exact Eld3|]. split; [exact Hdd|].
        split; [unfold c3; cbn; exact L3|]. unfold tn_set, c3. cbn. rewrite L2. auto. }
      (* the rest of the token *)
      destruct (IH [] [] m e (p + 2 + blen n) more c0a c3 frsa (snd (walk acc2 (E.x_items v)) ++ [E.mark]) fu L r itr trr ld')
        as (c0' & c' & frs' & K2 & e2 & E' & HRes2 & Ht2); try assumption.
      * pose proof (CstLex.W_app _ _ n _ (CstLex.W_cons _ _ _ _ HW)) as Y. apply CstLex.W_cons in Y.
        replace (p + 2 + blen n) with (p + 1 + blen n + 1) by lia. exact Y.
      * lia.
      * rewrite Eld3, Hdd. exact Hm.
      * rewrite Eld3, Hdd. exact Hlvl.
      * constructor.
      * reflexivity.
      * constructor.
      * apply SemI_marks; [exact M1|reflexivity].
      * rewrite bnd_snoc. reflexivity.
      * unfold c3. cbn [c_entity_floor c_parent_prefixes set_ld set_entity_floor set_tag_name].
        rewrite (Run_pp _ _ _ (or_run _ _ _ O1)). destruct S1 as (_ & _ & ->). rewrite L3.
        rewrite <- (Run_pp _ _ _ (or_run _ _ _ HO)). exact Hfl.
      * rewrite Eld3. exact Hld.
      * rewrite app_nil_r. exact HP2.
      * rewrite app_nil_r. pose proof (Rooms_app_r _ _ _ _ _ _ _ _ _ _ _ HResE HR) as X. rewrite Ew1 in X. exact X.
      * rewrite !app_length in Hfu. cbn [length] in Hfu. lia.
      * exists c0', c', frs', (K1 ++ K2), (e1 ++ e2). cbn [push_text_chunks] in E'. split; [exact E'|].
        split.
        { apply (Res_app _ _ _ _ _ _ _ _ _ _ _ _ _ _ _ _ _ HResE). rewrite Ew1. cbn [snd].
          rewrite app_nil_r in HRes2. exact HRes2. }
        rewrite Ht2. unfold c3. cbn. exact L2.
Qed.

End Level.

End Machine.

Print Assumptions value_ok.
Print Assumptions TLc.
