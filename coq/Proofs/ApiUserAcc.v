(* Proofs/ApiUserAcc.v -- Part 2 of Proofs/ApiUserCore.v: what the entry [api_node] computes for a node determines what
   each accessor of the public API returns on that node.  Only the definitions of Model/Api.v are used: no arena, no
   hypothesis on the document.
     element entry VElem ns local attrs nss n:
       [elem_tag_name] [elem_has_tag_name] [elem_attribute] [elem_has_attribute] [elem_lookup_namespace_uri]
       [elem_default_namespace] [elem_lookup_prefix] [elem_children]
     any entry: [entry_node_type]; text / comment / PI entries: [text_entry] [comment_entry] [pi_entry] *)
From Coq Require Import Ascii String.
From Coq Require Import List Arith NArith Bool Lia.
Import ListNotations.
From RX Require Import Generated.
From RX.Model Require Import Base CharClass Stream Tokenizer Doc Builder Parse Api.
From RX.Spec Require Scope Cst CstNs.
From RX.Proofs Require Import Tactics.
From RX.Proofs Require Import ApiViewAcc ApiView ApiUserCore.
Open Scope N_scope.

Lemma bytes_eqb_scope x y : Scope.bytes_eqb x y = bytes_eqb x y.
Proof. reflexivity. Qed.
Lemma prefix_eqb_scope x y : Scope.prefix_eqb x y = opt_str_eqb x y.
Proof. destruct x, y; reflexivity. Qed.
Lemma xml_uri_scope : ns_xml_uri = Scope.xml_uri.
Proof. reflexivity. Qed.
Lemma xml_prefix_scope : ns_xml_prefix = Scope.xml_prefix.
Proof. reflexivity. Qed.

Section Acc.
Variable text : bytes.
Variable d : document.

(* ---- what an element entry consists of ---- *)
Lemma elem_inv id ns local attrs nss n :
  api_node text d id = Ok (Some (CstNs.VElem ns local attrs nss n)) ->
  exists nd nsi loc ar nr ait nit ch,
    node_data_of d id = Ok nd /\ nd_kind nd = KElement nsi loc ar nr /\
    ns_uri_at text d nsi = Ok ns /\ slice_bytes text loc = local /\
    attributes d id = Ok ait /\ mapM (api_attr text d) (sit_list ait) = Ok attrs /\
    namespaces d id = Ok nit /\ mapM (api_binding text d) (sit_list nit) = Ok nss /\
    children_list d id = Ok ch /\ length ch = n.
Proof.
  unfold api_node, node_type. intros H. apply bind_ok in H. destruct H as (ty & H1 & H2).
  apply bind_ok in H1. destruct H1 as (nd & Hnd & H1). injection H1 as <-.
  destruct (nd_kind nd) as [|nsi loc ar nr|tg vv|s|s] eqn:Ek.
  - discriminate.
  - apply bind_ok in H2. destruct H2 as (tn & T1 & H2). apply bind_ok in H2. destruct H2 as (ait & A1 & H2).
    apply bind_ok in H2. destruct H2 as (la & A2 & H2). apply bind_ok in H2. destruct H2 as (nit & N1 & H2).
    apply bind_ok in H2. destruct H2 as (ls & N2 & H2). apply bind_ok in H2. destruct H2 as (ch & C1 & H2).
    injection H2 as <- <- <- <- <-.
    unfold tag_name in T1. rewrite Hnd in T1. cbn [bind] in T1. rewrite Ek in T1.
    apply bind_ok in T1. destruct T1 as (u & U1 & T1). injection T1 as <-. cbn [fst snd].
    exists nd, nsi, loc, ar, nr, ait, nit, ch. repeat split; assumption || reflexivity.
  - apply bind_ok in H2. destruct H2 as (? & _ & H2). discriminate.
  - apply bind_ok in H2. destruct H2 as (? & _ & H2). discriminate.
  - apply bind_ok in H2. destruct H2 as (? & _ & H2). discriminate.
Qed.

Section Elem.
Variables (id : N) (ns : option bytes) (local : bytes) (attrs : list (option bytes * bytes * bytes)) (nss : list Scope.binding) (n : nat).
Hypothesis Hent : api_node text d id = Ok (Some (CstNs.VElem ns local attrs nss n)).

Theorem elem_tag_name : tag_name text d id = Ok (ns, local).
Proof.
  destruct (elem_inv _ _ _ _ _ _ Hent) as (nd & nsi & loc & ar & nr & ait & nit & ch & Hnd & Ek & U & L & _).
  unfold tag_name. rewrite Hnd. cbn [bind]. rewrite Ek, U. cbn [bind]. rewrite L. reflexivity.
Qed.

(* has_tag_name((ns', local')) compares the expanded names; has_tag_name(local') -- a query without a namespace --
   compares the local names only *)
Theorem elem_has_tag_name name :
  has_tag_name text d id name =
  Ok (match fst name with Some _ => ename_eqb (ns, local) name | None => bytes_eqb local (snd name) end).
Proof.
  destruct (elem_inv _ _ _ _ _ _ Hent) as (nd & nsi & loc & ar & nr & ait & nit & ch & Hnd & Ek & U & L & _).
  unfold has_tag_name. rewrite Hnd. cbn [bind]. rewrite Ek. destruct (fst name); [rewrite U; cbn [bind]|]; rewrite L; reflexivity.
Qed.

(* ---- attributes ---- *)
Lemma find_attr_mapM name : forall l la, mapM (api_attr text d) l = Ok la ->
  exists o, find_attr text d l name = Ok o /\
    match o with
    | Some i => exists a, attr_at d i = Ok a /\ first_attr la name = Some (storage_bytes text (ad_value a))
    | None => first_attr la name = None
    end.
Proof.
  induction l as [|i r IH]; intros la H.
  - injection H as <-. exists None. split; reflexivity.
  - cbn [mapM] in H. apply bind_ok in H. destruct H as (y & Hy & H). apply bind_ok in H. destruct H as (ys & Hys & H). injection H as <-.
    unfold api_attr in Hy. apply bind_ok in Hy. destruct Hy as (a & Ha & Hy). apply bind_ok in Hy. destruct Hy as (nm & Hn & Hy). injection Hy as <-.
    cbn [find_attr]. rewrite Ha. cbn [bind]. rewrite Hn. cbn [bind first_attr fst snd]. destruct nm as [u l0]. cbn [fst snd].
    destruct (ename_eqb (u, l0) name).
    + exists (Some i). split; [reflexivity|]. exists a. split; [exact Ha|reflexivity].
    + apply IH. exact Hys.
Qed.

(* attribute((ns', local')): the value of the FIRST attribute with that expanded name *)
Theorem elem_attribute name : attribute text d id name = Ok (first_attr attrs name).
Proof.
  destruct (elem_inv _ _ _ _ _ _ Hent) as (nd & nsi & loc & ar & nr & ait & nit & ch & _ & _ & _ & _ & A1 & A2 & _).
  unfold attribute, attribute_node. rewrite A1. cbn [bind].
  destruct (find_attr_mapM name _ _ A2) as (o & F & Ho). rewrite F. cbn [bind].
  destruct o as [i|]; [destruct Ho as (a & Ha & E); rewrite Ha, E; reflexivity|rewrite Ho; reflexivity].
Qed.

Theorem elem_has_attribute name :
  has_attribute text d id name = Ok (match first_attr attrs name with Some _ => true | None => false end).
Proof.
  destruct (elem_inv _ _ _ _ _ _ Hent) as (nd & nsi & loc & ar & nr & ait & nit & ch & _ & _ & _ & _ & A1 & A2 & _).
  unfold has_attribute, attribute_node. rewrite A1. cbn [bind].
  destruct (find_attr_mapM name _ _ A2) as (o & F & Ho). rewrite F. cbn [bind].
  destruct o as [i|]; [destruct Ho as (a & Ha & E); rewrite E; reflexivity|rewrite Ho; reflexivity].
Qed.

(* ---- namespaces ---- *)
Lemma find_ns_mapM (pred : namespace -> bool) (q : Scope.binding -> bool) :
  (forall v, pred v = q (ns_name_bytes text v, storage_bytes text (ns_uri v))) ->
  forall l ls, mapM (api_binding text d) l = Ok ls ->
  exists o, find_ns_by d l pred = Ok o /\
    find q ls = match o with Some v => Some (ns_name_bytes text v, storage_bytes text (ns_uri v)) | None => None end.
Proof.
  intros Hq. induction l as [|p r IH]; intros ls H.
  - injection H as <-. exists None. split; reflexivity.
  - cbn [mapM] in H. apply bind_ok in H. destruct H as (y & Hy & H). apply bind_ok in H. destruct H as (ys & Hys & H). injection H as <-.
    unfold api_binding in Hy. apply bind_ok in Hy. destruct Hy as (v & Hv & Hy). injection Hy as <-.
    cbn [find_ns_by find]. rewrite Hv. cbn [bind]. rewrite <- Hq. destruct (pred v).
    + exists (Some v). split; reflexivity.
    + apply IH. exact Hys.
Qed.

Lemma lookup_find sc p (q : Scope.binding -> bool) : (forall b, q b = opt_str_eqb (fst b) p) ->
  Scope.lookup sc p = option_map snd (find q sc).
Proof.
  intros Hq. induction sc as [|b r IH]; [reflexivity|]. cbn [Scope.lookup find]. rewrite Hq.
  change (Scope.prefix_eqb (fst b) p) with (opt_str_eqb (fst b) p). destruct (opt_str_eqb (fst b) p); [reflexivity|exact IH].
Qed.
Lemma first_prefix_find sc uri (q : Scope.binding -> bool) : (forall b, q b = bytes_eqb (snd b) uri) ->
  first_prefix sc uri = match find q sc with Some b => fst b | None => None end.
Proof.
  intros Hq. induction sc as [|b r IH]; [reflexivity|]. cbn [first_prefix find]. rewrite Hq.
  destruct (bytes_eqb (snd b) uri); [reflexivity|exact IH].
Qed.

(* lookup_namespace_uri(prefix): the URI of the first binding of that prefix among the bindings in scope
   (Spec/Scope.v [lookup]) *)
Theorem elem_lookup_namespace_uri prefix : lookup_namespace_uri text d id prefix = Ok (Scope.lookup nss prefix).
Proof.
  destruct (elem_inv _ _ _ _ _ _ Hent) as (nd & nsi & loc & ar & nr & ait & nit & ch & _ & _ & _ & _ & _ & _ & N1 & N2 & _).
  unfold lookup_namespace_uri. rewrite N1. cbn [bind].
  pose (q := fun b : Scope.binding => opt_str_eqb (fst b) prefix).
  destruct (find_ns_mapM (fun v => opt_str_eqb (ns_name_bytes text v) prefix) q ltac:(reflexivity) _ _ N2) as (o & F & E).
  rewrite F. cbn [bind]. f_equal. etransitivity; [|symmetry; apply (lookup_find nss _ q); reflexivity]. rewrite E. destruct o; reflexivity.
Qed.

Theorem elem_default_namespace : default_namespace text d id = Ok (Scope.lookup nss None).
Proof.
  destruct (elem_inv _ _ _ _ _ _ Hent) as (nd & nsi & loc & ar & nr & ait & nit & ch & _ & _ & _ & _ & _ & _ & N1 & N2 & _).
  unfold default_namespace. rewrite N1. cbn [bind].
  pose (q := fun b : Scope.binding => opt_str_eqb (fst b) None).
  destruct (find_ns_mapM (fun v => match ns_name v with None => true | Some _ => false end) q
              ltac:(intros v; unfold q, ns_name_bytes; cbn [fst]; destruct (ns_name v); reflexivity) _ _ N2) as (o & F & E).
  rewrite F. cbn [bind]. f_equal. etransitivity; [|symmetry; apply (lookup_find nss _ q); reflexivity]. rewrite E. destruct o; reflexivity.
Qed.

(* lookup_prefix(uri): "xml" for the XML namespace, else the prefix of the first binding in scope with that URI *)
Theorem elem_lookup_prefix uri :
  lookup_prefix text d id uri = Ok (if bytes_eqb uri Scope.xml_uri then Some Scope.xml_prefix else first_prefix nss uri).
Proof.
  destruct (elem_inv _ _ _ _ _ _ Hent) as (nd & nsi & loc & ar & nr & ait & nit & ch & _ & _ & _ & _ & _ & _ & N1 & N2 & _).
  unfold lookup_prefix. rewrite xml_uri_scope, xml_prefix_scope. destruct (bytes_eqb uri Scope.xml_uri); [reflexivity|].
  rewrite N1. cbn [bind].
  pose (q := fun b : Scope.binding => bytes_eqb (snd b) uri).
  destruct (find_ns_mapM (fun v => bytes_eqb (storage_bytes text (ns_uri v)) uri) q ltac:(reflexivity) _ _ N2) as (o & F & E).
  rewrite F. cbn [bind]. f_equal. etransitivity; [|symmetry; apply (first_prefix_find nss _ q); reflexivity]. rewrite E. destruct o; reflexivity.
Qed.

(* ---- children ---- *)
Theorem elem_children : exists ch, children_list d id = Ok ch /\ length ch = n.
Proof.
  destruct (elem_inv _ _ _ _ _ _ Hent) as (nd & nsi & loc & ar & nr & ait & nit & ch & _ & _ & _ & _ & _ & _ & _ & _ & C1 & C2).
  exists ch. split; assumption.
Qed.

End Elem.

(* ---- every entry ---- *)
Theorem entry_node_type id v : api_node text d id = Ok (Some v) -> node_type d id = Ok (ntype_of v).
Proof.
  unfold api_node. intros H. apply bind_ok in H. destruct H as (ty & H1 & H2). rewrite H1. f_equal.
  destruct ty.
  - discriminate.
  - repeat (apply bind_ok in H2; destruct H2 as (? & _ & H2)). injection H2 as <-. reflexivity.
  - apply bind_ok in H2. destruct H2 as (? & _ & H2). injection H2 as <-. reflexivity.
  - apply bind_ok in H2. destruct H2 as (? & _ & H2). injection H2 as <-. reflexivity.
  - apply bind_ok in H2. destruct H2 as (? & _ & H2). injection H2 as <-. reflexivity.
Qed.

Lemma entry_kind id v : api_node text d id = Ok (Some v) ->
  exists nd, node_data_of d id = Ok nd /\
    match v, nd_kind nd with
    | CstNs.VElem _ _ _ _ _, KElement _ _ _ _ | CstNs.VText _, KText _ | CstNs.VComment _, KComment _ | CstNs.VPI _ _, KPI _ _ => True
    | _, _ => False
    end.
Proof.
  intros H. pose proof (entry_node_type id v H) as T. unfold node_type in T. apply bind_ok in T. destruct T as (nd & Hnd & T).
  exists nd. split; [exact Hnd|]. injection T as T. destruct v, (nd_kind nd); try discriminate; exact I.
Qed.

(* text() of a text node / of a comment: the entry's bytes *)
Theorem text_entry id bs : api_node text d id = Ok (Some (CstNs.VText bs)) ->
  exists st, text_storage d id = Ok (Some st) /\ storage_bytes text st = bs.
Proof.
  intros H. destruct (entry_kind id _ H) as (nd & Hnd & K).
  unfold api_node, node_type in H. rewrite Hnd in H. cbn [bind] in H.
  destruct (nd_kind nd) as [| | | |s] eqn:Ek; try contradiction.
  apply bind_ok in H. destruct H as (x & Hx & H). injection H as <-.
  unfold api_text in Hx. apply bind_ok in Hx. destruct Hx as (o & Ho & Hx). destruct o as [st|]; [|discriminate]. injection Hx as <-.
  exists st. split; [exact Ho|reflexivity].
Qed.

Theorem comment_entry id bs : api_node text d id = Ok (Some (CstNs.VComment bs)) ->
  exists st, text_storage d id = Ok (Some st) /\ storage_bytes text st = bs.
Proof.
  intros H. destruct (entry_kind id _ H) as (nd & Hnd & K).
  unfold api_node, node_type in H. rewrite Hnd in H. cbn [bind] in H.
  destruct (nd_kind nd) as [| | |s|] eqn:Ek; try contradiction.
  apply bind_ok in H. destruct H as (x & Hx & H). injection H as <-.
  unfold api_text in Hx. apply bind_ok in Hx. destruct Hx as (o & Ho & Hx). destruct o as [st|]; [|discriminate]. injection Hx as <-.
  exists st. split; [exact Ho|reflexivity].
Qed.

Theorem pi_entry id target value : api_node text d id = Ok (Some (CstNs.VPI target value)) ->
  pi text d id = Ok (Some (target, value)).
Proof.
  intros H. destruct (entry_kind id _ H) as (nd & Hnd & K).
  unfold api_node, node_type in H. rewrite Hnd in H. cbn [bind] in H.
  destruct (nd_kind nd) as [| |tg vv| |] eqn:Ek; try contradiction.
  apply bind_ok in H. destruct H as (x & Hx & H). injection H as <- <-.
  unfold api_pi in Hx. apply bind_ok in Hx. destruct Hx as (o & Ho & Hx). destruct o as [pp|]; [|discriminate]. injection Hx as <-.
  rewrite Ho. destruct pp; reflexivity.
Qed.

(* a comment, a PI and a text have no attributes, no namespaces, no children ... *)
End Acc.

Print Assumptions elem_tag_name.
Print Assumptions elem_has_tag_name.
Print Assumptions elem_attribute.
Print Assumptions elem_has_attribute.
Print Assumptions elem_lookup_namespace_uri.
Print Assumptions elem_default_namespace.
Print Assumptions elem_lookup_prefix.
Print Assumptions elem_children.
Print Assumptions entry_node_type.
Print Assumptions text_entry.
Print Assumptions comment_entry.
Print Assumptions pi_entry.
