(* Proofs/NoPanicFinal.v -- parse(text, opt) never panics on valid UTF-8: the tokenizer run with the
   real callback (NoPanicParse.v) followed by the root().children().any(is_element) check, which
   is safe because the arena is the encoding of a tree (invariant of KeystoneBuilder.v,
   carried through the tokenizer in KeystoneParse.v). *)
From Coq Require Import Ascii String.
From Coq Require Import List Arith NArith Bool Lia ZifyBool ZifyN ZifyNat.
Import ListNotations.
From RX Require Import Generated.
From RX.Model Require Import Base CharClass Stream Tokenizer Doc Builder Parse.
From RX.Spec Require Import Tree.
From RX.Proofs Require Import Tactics KeystoneEnc KeystoneBuilder KeystoneParse.
From RX.Proofs Require Import NoPanicUtf8 NoPanicStream NoPanicTokenizer NoPanicBuilder
     NoPanicBuilderCtx NoPanicText NoPanicParse.
Open Scope N_scope.

(* the tree around the hole has a Root at the top *)
Lemma plug_root : forall outer k cs, kinds_ok k outer -> exists cs', plug outer (T k cs) = T KdRoot cs'.
Proof.
  induction outer as [|[k' cs1] o IH]; intros k cs H; cbn [kinds_ok plug] in *.
  - subst. eauto.
  - destruct H as [_ H]. apply IH; auto.
Qed.

Section RootSafe.
Variable d : document.
Variable cs : list tree.
Hypothesis Hrows : links_of_nodes (d_nodes d) = encode (T KdRoot cs).

Lemma len_d : len_N (d_nodes d) = 1 + sizes cs.
Proof. rewrite <- links_of_nodes_len, Hrows, encode_len, size_T. reflexivity. Qed.

Lemma get_node_lt i : i < 1 + sizes cs -> exists nd, get_node d i = Some nd.
Proof. intros H. unfold get_node. apply nth_N_some. rewrite len_d. exact H. Qed.

Lemma root_row nd : get_node d 0 = Some nd ->
  link_of nd = row_of (1 + sizes cs) None None 0 KdRoot cs.
Proof.
  intros Eg. unfold get_node in Eg. apply nth_N_Some in Eg. destruct Eg as [Eg _].
  apply (map_nth_error link_of) in Eg. rewrite <- links_of_nodes_map, (root_rows d cs Hrows) in Eg.
  cbn [N.to_nat nth_error] in Eg. congruence.
Qed.

Lemma last_child_id_lt first l x : last_child_id first l = Some x ->
  first <= x /\ x < first + sizes l.
Proof.
  intros H. destruct l as [|c r]; [discriminate|].
  destruct (@exists_last _ (c :: r) ltac:(discriminate)) as (l1 & c1 & E). rewrite E in *.
  rewrite last_child_id_app_one in H. inversion H; subst.
  rewrite sizes_app, sizes_cons, sizes_nil. pose proof (size_pos c1). lia.
Qed.

Lemma children_safe : safe (children d 0) (fun it => good_front cs (ch_front it)).
Proof.
  destruct (get_node_lt 0 ltac:(lia)) as [nd Eg]. pose proof (root_row nd Eg) as Hrow.
  assert (Hl : nd_last_child nd = last_child_id 1 cs).
  { change (nd_last_child nd) with (l_last (link_of nd)). rewrite Hrow. reflexivity. }
  assert (Hnp : safe (children d 0) (fun _ => True)).
  { unfold children, first_child, last_child, node_data_of. rewrite Eg. cbn [bind].
    destruct (nd_last_child nd) as [x|] eqn:El; [|exact I].
    symmetry in Hl. apply last_child_id_lt in Hl.
    unfold node_id_new. change (u32_max <=? 0 + 1) with false. cbn [bind].
    unfold opt_unwrap_node, node_unwrap.
    destruct (get_node_lt (0 + 1) ltac:(lia)) as [nd1 ->]. cbn [bind].
    destruct (get_node_lt x ltac:(lia)) as [ndx ->]. exact I. }
  destruct (children d 0) as [it| | |] eqn:E; cbn in *; auto.
  eapply children_good; eauto.
Qed.

Lemma next_sibling_safe n : child_pos cs n -> safe (next_sibling d n) (fun _ => True).
Proof.
  intros [cs1 [c [cs2 [Hcs ->]]]]. destruct c as [kc ccs].
  assert (Hlt : 1 + sizes cs1 < 1 + sizes cs).
  { rewrite Hcs, sizes_app, sizes_cons, size_T. lia. }
  destruct (get_node_lt _ Hlt) as [nd Eg].
  pose proof (child_row d cs Hrows _ _ _ _ _ Hcs Eg) as Hrow.
  unfold next_sibling, node_data_of. rewrite Eg. cbn [bind].
  assert (Hnext : nd_next_subtree nd = l_next_subtree (link_of nd)) by reflexivity.
  rewrite Hrow in Hnext. unfold row_of in Hnext. cbn [l_next_subtree] in Hnext. rewrite Hnext.
  destruct (1 + sizes cs1 + (1 + sizes ccs) <? 1 + sizes cs) eqn:E; [|exact I].
  unfold node_unwrap.
  destruct (get_node_lt (1 + sizes cs1 + (1 + sizes ccs)) ltac:(lia)) as [nnd Eg2]. rewrite Eg2.
  cbn [bind]. rewrite Eg2.
  (* the node there is the next child: it has a previous sibling *)
  destruct cs2 as [|[k2 ccs2] cs2'].
  { rewrite Hcs, sizes_app, sizes_cons, sizes_nil, size_T in E. lia. }
  assert (Hcs' : cs = (cs1 ++ [T kc ccs]) ++ T k2 ccs2 :: cs2') by (rewrite Hcs, <- app_assoc; reflexivity).
  assert (Eg2' : get_node d (1 + sizes (cs1 ++ [T kc ccs])) = Some nnd).
  { rewrite sizes_app, sizes_cons, sizes_nil, size_T.
    replace (1 + (sizes cs1 + (1 + sizes ccs + 0))) with (1 + sizes cs1 + (1 + sizes ccs)) by lia.
    exact Eg2. }
  pose proof (child_row d cs Hrows _ _ _ _ _ Hcs' Eg2') as Hrow2.
  assert (Hprev : nd_prev_sibling nnd = l_prev (link_of nnd)) by reflexivity.
  rewrite Hrow2 in Hprev. unfold row_of in Hprev. cbn [l_prev] in Hprev.
  rewrite prev_after_None, last_child_id_app_one in Hprev. cbn [bind]. rewrite Hprev.
  destruct (_ =? _); exact I.
Qed.

Lemma children_next_safe it : good_front cs (ch_front it) ->
  safe (children_next d it) (fun _ => True).
Proof.
  intros Hg. unfold children_next. destruct (opt_N_eqb _ _); [exact I|].
  destruct (ch_front it) as [n|]; [|exact I].
  eapply safe_bind; [apply next_sibling_safe; exact Hg|]. intros; exact I.
Qed.

Lemma node_is_element_safe n : child_pos cs n -> safe (node_is_element d n) (fun _ => True).
Proof.
  intros [cs1 [c [cs2 [Hcs ->]]]].
  assert (Hlt : 1 + sizes cs1 < 1 + sizes cs).
  { rewrite Hcs, sizes_app, sizes_cons. pose proof (size_pos c). lia. }
  destruct (get_node_lt _ Hlt) as [nd Eg].
  unfold node_is_element, node_data_of. rewrite Eg. exact I.
Qed.

Lemma children_any_element_safe : forall fuel it, good_front cs (ch_front it) ->
  safe (children_any_element fuel d it) (fun _ => True).
Proof.
  induction fuel as [|fu IH]; intros it Hg; cbn [children_any_element]; [exact I|].
  eapply safe_bind_eq; [apply children_next_safe; auto|].
  intros [o it'] Hn _. cbv beta iota.
  destruct (children_next_good d cs Hrows _ _ _ Hg Hn) as [-> Hg'].
  destruct (ch_front it) as [n|] eqn:Ef; [|exact I].
  eapply safe_bind; [apply node_is_element_safe; exact Hg|]. intros e _.
  destruct e; [exact I|apply IH; auto].
Qed.

End RootSafe.

Theorem parse_no_panic : forall text opt p, valid_utf8_b text = true -> nodes_limit opt <= u32_max -> parse text opt <> Panic p.
Proof.
  intros text opt p Hvalid Hl. eapply safe_no_panic with (Q := fun _ => True).
  unfold parse.
  destruct (init_context text opt) as [c0| | |] eqn:Hi; cbn [bind safe]; auto.
  2:{ (* init_context is a constant computation: it cannot panic *)
    revert Hi. unfold init_context, push_ns. cbn [d_ns_values find_ns ns_name xml_ns ns_uri].
    change (ns_values_limit <? len_N []) with false. cbn. discriminate. }
  eapply safe_bind_eq; [apply parse_document_token_safe; auto; eapply init_core; eauto|].
  intros c Hc _. cbv beta zeta.
  assert (HP : P c).
  { eapply (parse_document_Q text context (token text) P);
      [|exists KdRoot, [], []; apply (init_context_Inv text opt); exact Hi|exact Hc].
    intros tok x x'. apply token_P. }
  destruct HP as [k [cs [outer HI]]].
  pose proof (inv_rows _ _ _ _ HI) as Hrows. unfold ztree in Hrows.
  destruct (plug_root outer k cs (inv_kinds _ _ _ _ HI)) as [cs' Ecs]. rewrite Ecs in Hrows.
  eapply safe_bind; [apply (children_safe (c_doc c) cs' Hrows)|]. intros it Hit. cbv beta.
  eapply safe_bind; [apply (children_any_element_safe (c_doc c) cs' Hrows); exact Hit|].
  intros he _. destruct (negb he); [exact I|]. destruct (_ <? _); exact I.
Qed.
Print Assumptions parse_no_panic.
