(* Proofs/NoPanicParse.v -- the real callback (Context::token): process_text (which re-enters the
   tokenizer on entity values), token_with, and the theorems about [token]. *)
From Coq Require Import Ascii String.
From Coq Require Import List Arith NArith Bool Lia ZifyBool ZifyN ZifyNat.
Import ListNotations.
From RX Require Import Generated.
From RX.Model Require Import Base CharClass Stream Tokenizer Doc Builder Parse.
From RX.Proofs Require Import Tactics NoPanicUtf8 NoPanicStream NoPanicTokenizer
     NoPanicBuilder NoPanicBuilderCtx NoPanicText.
Open Scope N_scope.

(* ---------------------------------------------------------------------------------------- *)
(* the loop of process_text_with, by name                                                   *)
(* ---------------------------------------------------------------------------------------- *)

Section TextLoop.
Variable text : bytes.
Notation stream := Stream.stream.
Variable pc : stream -> context -> res (stream * context).
Variable r : range.
Fixpoint text_loop (fuel : nat) (s : stream) (buf : text_buffer) (c : context) {struct fuel}
  : res (text_buffer * context) :=
  match fuel with
  | O => OutOfFuel
  | S fu =>
    if at_end s then Ok (buf, c) else
    let! (ch, s) := parse_next_chunk text s (c_entities c) in
    match ch with
    | ChByte x => text_loop fu s (tb_push_from_text x buf) c
    | ChChar cp =>
      text_loop fu s (push_char_bytes_text (encode_utf8 cp) (0 <? ld_depth (c_ld c)) buf) c
    | ChText value =>
      let! c := if negb (tb_is_empty buf)
                then let! bs := tb_finish buf in append_text (CowOwned bs) r c
                else Ok c in
      let! ld := inc_references text s (c_ld c) in
      let! ld := inc_depth text s ld in
      let c := set_ld c ld in
      let! es := stream_from_substr text (sl_start value) (sl_end value) in
      let prev_tag_name := c_tag_name c in
      let prev_floor := c_entity_floor c in
      let c := set_entity_floor (set_tag_name c tag_name_null) (len_N (c_parent_prefixes c)) in
      let! (_, c) := pc es c in
      if negb (len_N (c_parent_prefixes c) =? c_entity_floor c) then Err UnexpectedEndOfStream
      else
        let c := set_entity_floor (set_tag_name c prev_tag_name) prev_floor in
        let c := set_ld c (dec_depth (c_ld c)) in
        text_loop fu s tb_new c
    end
  end.
End TextLoop.

Lemma process_text_with_eq text pc t r c :
  process_text_with text pc t r c =
  let tb := slice_bytes text t in
  if negb (existsb (fun x => (x =? 38) || (x =? 13)) tb) then append_text (CowBorrowed t) r c
  else
    let! s0 := stream_from_substr text (fst r) (snd r) in
    let! (buf, c) := text_loop text pc r (S (length (s_rest s0))) s0 tb_new c in
    if negb (tb_is_empty buf)
    then let! bs := tb_finish buf in append_text (CowOwned bs) r c
    else Ok c.
Proof. reflexivity. Qed.

Section WithText.
Variable text : bytes.
Hypothesis Hvalid : valid_utf8_b text = true.
Variable allow : panic_site -> Prop.

Notation Bd := (Boundary text).
Notation stream := Stream.stream.
Notation SInv0 := (SInv0 text).
Notation SInv := (SInv text).
Notation Ext := (Ext text).
Notation Core := (Core text).
Notation safeA := (safeP allow).

(* what we know of the function that parses the content of an entity value *)
Definition PcOk (pc : stream -> context -> res (stream * context)) : Prop :=
  forall s c, SInv s -> Core c -> safeA (pc s c) (fun r => Ext s (fst r) /\ Core (snd r)).

Lemma Core_set_tag c tn : Core c -> Core (set_tag_name c tn).
Proof. clear Hvalid. intros [L Ch P Aw Af Ns D En Cu]. split; cbn; auto. Qed.

Lemma Core_set_floor c v : Core c -> Core (set_entity_floor c v).
Proof. clear Hvalid. intros [L Ch P Aw Af Ns D En Cu]. split; cbn; auto. Qed.

Lemma finish_append_safe buf r c : Valid (tb_buf buf) -> Core c ->
  safe (if negb (tb_is_empty buf)
        then let! bs := tb_finish buf in append_text (CowOwned bs) r c
        else Ok c)
       (fun c' => Core c' /\ c_tag_name c' = c_tag_name c).
Proof.
  intros Hb Hc. destruct (negb (tb_is_empty buf)); [|cbn; auto].
  eapply safe_bind; [apply tb_finish_safe; auto|]. intros bs _. apply append_text_safe; auto.
Qed.

Lemma text_loop_safe pc r : PcOk pc ->
  forall fuel s buf c, SInv0 s -> PV text buf (s_pos s) -> Core c ->
    safeA (text_loop text pc r fuel s buf c)
          (fun res => Valid (tb_buf (fst res)) /\ Core (snd res) /\
                      c_tag_name (snd res) = c_tag_name c).
Proof.
  intros Hpc. induction fuel as [|fu IH]; intros s buf c Hs Hb Hc; cbn [text_loop]; [exact I|].
  destruct (at_end s) eqn:Eend.
  { cbn. split; auto. eapply PV_valid; eauto. apply SInv0_at_end_Bd; auto. }
  eapply safeP_bind; [apply safe_safeP, parse_next_chunk_safe; auto; apply Hc|].
  intros [ch s1] [He1 Hch]. cbn [fst snd] in He1, Hch. cbv beta iota.
  destruct ch as [x|cp|value].
  - destruct Hch as (Hs1 & Hp1 & r' & Hr').
    apply IH; auto. rewrite Hp1. eapply PV_byte_text; eauto. eapply SInv0_byte; eauto.
  - destruct Hch as (Hs1 & Hcp & Hbp).
    apply IH; auto; [apply Hs1|]. apply PV_of_valid; [|apply Hs1].
    apply push_char_bytes_text_valid; auto. eapply PV_valid; eauto.
  - destruct Hch as (Hs1 & Hv & Hbp).
    eapply safeP_bind; [apply safe_safeP, finish_append_safe; auto; eapply PV_valid; eauto|].
    intros c1 [H1 Ht1]. cbv beta.
    eapply safeP_bind; [apply safe_safeP, inc_references_safe; auto; apply Hs1|]. intros ld1 _. cbv beta.
    eapply safeP_bind; [apply safe_safeP, inc_depth_safe; auto; apply Hs1|]. intros ld2 _. cbv beta zeta.
    destruct Hv as (Hva & Hve & Hvae).
    eapply safeP_bind; [apply safe_safeP, stream_from_substr_safe; auto|].
    intros es (Hes & _ & _). cbv beta.
    eapply safeP_bind.
    { apply Hpc; auto. apply Core_set_floor, Core_set_tag, Core_set_ld; auto. }
    intros [s2 c2] [_ H2]. cbn [snd] in H2. cbv beta iota.
    destruct (negb _); [exact I|].
    eapply safeP_mono.
    { apply IH; [apply Hs1| |].
      - apply PV_of_valid; [apply Valid_nil|apply Hs1].
      - apply Core_set_ld, Core_set_floor, Core_set_tag; exact H2. }
    intros res (Hr1 & Hr2 & Hr3). split; auto. split; auto. rewrite Hr3. cbn. exact Ht1.
Qed.

Lemma process_text_with_safe pc t r c : PcOk pc -> TokOk text (TText t r) -> Core c ->
  safeA (process_text_with text pc t r c) (fun c' => Core c' /\ c_tag_name c' = c_tag_name c).
Proof.
  intros Hpc (Ha & He & Hae & _) Hc. rewrite process_text_with_eq. cbv zeta.
  destruct (negb (existsb _ _)); [apply safe_safeP, append_text_safe; auto|].
  eapply safeP_bind; [apply safe_safeP, stream_from_substr_safe; auto|].
  intros s0 (Hs0 & _ & _). cbv beta.
  eapply safeP_bind.
  { apply text_loop_safe; auto; [apply Hs0|]. apply PV_of_valid; [apply Valid_nil|apply Hs0]. }
  intros [buf c1] (Hb & H1 & Ht1). cbn [fst snd] in Hb, H1, Ht1. cbv beta iota.
  eapply safeP_mono; [apply safe_safeP, finish_append_safe; auto|].
  intros c2 [H2 Ht2]. split; auto. congruence.
Qed.

(* ---- token_with ---- *)

Definition TagPost (tok : Tokenizer.token) (c c' : context) : Prop :=
  match tok with
  | TElementStart _ _ _ => InTag c'
  | _ => c_tag_name c' = c_tag_name c
  end.

Lemma token_with_safe (ptext : slice -> range -> context -> res context) (TOk : Tokenizer.token -> Prop) :
  (forall tok, TOk tok -> TokOk text tok) ->
  (forall t r c, TOk (TText t r) -> Core c ->
     safeA (ptext t r c) (fun c' => Core c' /\ c_tag_name c' = c_tag_name c)) ->
  forall tok c, TOk tok -> Core c -> (tok_pre tok = true -> InTag c) ->
    safeA (token_with text ptext tok c) (fun c' => Core c' /\ TagPost tok c c').
Proof.
  intros HTOk Hptext tok c Htok Hc Htag. pose proof (HTOk _ Htok) as Hok.
  destruct tok as [target content r|txt r|name value|prefix local start|r qn eq prefix local value|e r|txt r|txt r];
    cbn [token_with TagPost].
  - eapply safeP_bind; [apply safe_safeP, reset_after_text_safe; auto|].
    intros c1 (H1 & Ha1 & Ht1 & _). cbv beta.
    eapply safeP_bind; [apply safe_safeP, (append_node_core text); auto; exact I|].
    intros [id c2] (H2 & _ & Ht2 & _). cbn. split; auto. congruence.
  - eapply safeP_bind; [apply safe_safeP, reset_after_text_safe; auto|].
    intros c1 (H1 & Ha1 & Ht1 & _). cbv beta.
    eapply safeP_bind; [apply safe_safeP, (append_node_core text); auto; exact I|].
    intros [id c2] (H2 & _ & Ht2 & _). cbn. split; auto. congruence.
  - cbn. split; auto. destruct Hc as [L Ch P Aw Af Ns D En Cu]. split; cbn; auto.
    apply Forall_app; split; auto.
  - eapply safeP_bind; [apply safe_safeP, reset_after_text_safe; auto|].
    intros c1 (H1 & Ha1 & Ht1 & _). cbv beta.
    destruct (bytes_eqb _ _); [apply safe_safeP, err_from_safe; auto|].
    cbn. split; [apply Core_set_tag; auto|]. unfold InTag. cbn. exact Hok.
  - apply safe_safeP, process_attribute_safe; auto; apply Hok.
  - eapply safeP_bind; [apply safe_safeP, reset_after_text_safe; auto|].
    intros c1 (H1 & Ha1 & Ht1 & Hn1). cbv beta.
    eapply safeP_mono; [apply process_element_safe; auto|].
    + destruct e; auto; unfold InTag in *; rewrite Ht1; apply Htag; reflexivity.
    + intros c2 [H2 Ht2]. split; auto. congruence.
  - apply Hptext; auto.
  - apply safe_safeP, process_cdata_safe; auto.
Qed.

End WithText.

(* ---------------------------------------------------------------------------------------- *)
(* the nesting levels                                                                       *)
(* ---------------------------------------------------------------------------------------- *)

(* no panic site is tolerated *)
Definition allowD : panic_site -> Prop := fun _ => False.

Section Levels.
Variable text : bytes.
Hypothesis Hvalid : valid_utf8_b text = true.

Notation Core := (Core text).

Definition Iout (c : context) : Prop := Core c.
Definition Iin (c : context) : Prop := Core c /\ InTag c.

Lemma callback_ok ptext :
  (forall t r c, TokOk text (TText t r) -> Core c ->
     safeP allowD (ptext t r c) (fun c' => Core c' /\ c_tag_name c' = c_tag_name c)) ->
  forall tok c, TokOk text tok -> St context Iout Iin (tok_pre tok) c ->
    safeP allowD (token_with text ptext tok c) (St context Iout Iin (tok_post tok)).
Proof.
  intros Hptext tok c Htok Hst.
  assert (Hc : Core c) by (destruct (tok_pre tok); [apply Hst|exact Hst]).
  eapply safeP_mono.
  { apply (token_with_safe text Hvalid allowD ptext (TokOk text)); auto.
    intros E. rewrite E in Hst. apply Hst. }
  intros c' [H1 H2]. unfold St, Iout, Iin.
  destruct tok; cbn [tok_post tok_pre TagPost] in *; auto.
  split; auto. unfold InTag in *. rewrite H2. apply Hst.
Qed.

Lemma parse_content_lvl_safe : forall lvl, PcOk text allowD (parse_content_lvl text lvl).
Proof.
  induction lvl as [|lvl IH]; intros s c Hs Hc; [exact I|].
  cbn [parse_content_lvl].
  apply (parse_content_safe text Hvalid context _ allowD Iout Iin); auto.
  apply callback_ok. intros t r c0 Htok Hc0. apply process_text_with_safe; auto.
Qed.

Lemma process_text_safe t r c : TokOk text (TText t r) -> Core c ->
  safeP allowD (process_text text t r c) (fun c' => Core c' /\ c_tag_name c' = c_tag_name c).
Proof.
  intros. unfold process_text. apply process_text_with_safe; auto. apply parse_content_lvl_safe.
Qed.

(* the callback, every token, any state satisfying the invariant and the tag protocol *)
Lemma token_safe tok c : TokOk text tok -> Core c -> (tok_pre tok = true -> InTag c) ->
  safe (token text tok c) (fun c' => Core c' /\ TagPost tok c c').
Proof.
  intros Htok Hc Htag. unfold token. apply safeP_noP.
  apply (token_with_safe text Hvalid allowD (process_text text) (TokOk text)); auto.
  intros; apply process_text_safe; auto.
Qed.

(* the initial context satisfies the invariant *)
Lemma init_core opt c : nodes_limit opt <= u32_max -> init_context text opt = Ok c -> Core c.
Proof.
  clear Hvalid.
  intros Hl. unfold init_context, push_ns. cbn [d_ns_values find_ns ns_name xml_ns ns_uri].
  change (ns_values_limit <? len_N []) with false. cbn. intros H; inversion H; subst; clear H.
  split; cbn; auto.
  - eexists; split; [reflexivity|reflexivity].
  - discriminate.
  - intros H; contradiction.
  - unfold len_N; cbn; lia.
  - split; cbn; auto.
    + constructor; auto. unfold len_N; cbn; lia.
    + unfold len_N; cbn; lia.
    + constructor; auto. exact I.
Qed.

(* the whole tokenizer run with the real callback *)
Lemma parse_document_token_safe dtd c : Core c ->
  safe (parse_document text context (token text) dtd c) Core.
Proof.
  intros Hc. apply safeP_noP.
  apply (parse_document_safe text Hvalid context (token text) allowD Iout Iin); auto.
  apply (callback_ok (process_text text)). apply process_text_safe.
Qed.

End Levels.

(* ---------------------------------------------------------------------------------------- *)
(* statements                                                                               *)
(* ---------------------------------------------------------------------------------------- *)

(* Every token, including text with entity references (nested tokenizer runs), in any state
   that satisfies the invariant [Core] and the protocol of the tokenizer (ElementEnd Open/Empty
   and Attribute arrive only after an ElementStart: [InTag]). *)
Theorem token_no_panic : forall text tok c p, valid_utf8_b text = true -> Core text c -> NoPanicTokenizer.TokOk text tok ->
  (tok_pre tok = true -> InTag c) -> token text tok c <> Panic p.
Proof.
  intros text tok c p Hvalid Hc Htok Htag.
  eapply safe_no_panic. apply token_safe; auto.
Qed.
Print Assumptions token_no_panic.

Theorem token_preserves_core : forall text tok c c',
  valid_utf8_b text = true -> Core text c -> NoPanicTokenizer.TokOk text tok -> (tok_pre tok = true -> InTag c) ->
  token text tok c = Ok c' -> Core text c' /\ TagPost tok c c'.
Proof.
  intros text tok c c' Hvalid Hc Htok Htag H.
  pose proof (token_safe text Hvalid tok c Htok Hc Htag) as Hs. rewrite H in Hs. exact Hs.
Qed.
Print Assumptions token_preserves_core.

(* the whole tokenizer run with the real callback, from the initial context *)
Theorem parse_document_token_no_panic : forall text opt c p, valid_utf8_b text = true -> nodes_limit opt <= u32_max ->
  init_context text opt = Ok c -> parse_document text context (token text) (allow_dtd opt) c <> Panic p.
Proof.
  intros text opt c p Hvalid Hl Hi.
  eapply safe_no_panic. apply parse_document_token_safe; auto. eapply init_core; eauto.
Qed.
Print Assumptions parse_document_token_no_panic.

Theorem parse_document_token_core : forall text opt c c', valid_utf8_b text = true -> nodes_limit opt <= u32_max ->
  init_context text opt = Ok c -> parse_document text context (token text) (allow_dtd opt) c = Ok c' -> Core text c'.
Proof.
  intros text opt c c' Hvalid Hl Hi H.
  pose proof (parse_document_token_safe text Hvalid (allow_dtd opt) c (init_core text opt c Hl Hi)) as Hs.
  rewrite H in Hs. exact Hs.
Qed.

(* The statement in the shape asked for first.  A token ElementEnd(Open/Empty) panics
   (unreachable!()) in a state whose current tag name is empty, e.g. the initial context; the
   tokenizer never does that (protocol), so an invariant on the state alone that covers these
   tokens must contain [InTag] (which holds from the first ElementStart on, and is preserved).
   [token_no_panic] above is the statement with the protocol made explicit. *)
Definition CtxInv (text : bytes) (c : context) : Prop := Core text c /\ InTag c.
Definition TokOk (text : bytes) (tok : Tokenizer.token) : Prop := NoPanicTokenizer.TokOk text tok.

Theorem token_no_panic_partial : forall text tok c p, valid_utf8_b text = true -> CtxInv text c -> TokOk text tok -> token text tok c <> Panic p.
Proof.
  intros text tok c p Hvalid (Hc & Htag) Htok. apply token_no_panic; auto.
Qed.
Print Assumptions token_no_panic_partial.

Theorem token_preserves_CtxInv : forall text tok c c', valid_utf8_b text = true -> CtxInv text c -> TokOk text tok ->
  token text tok c = Ok c' -> CtxInv text c'.
Proof.
  intros text tok c c' Hvalid (Hc & Htag) Htok H.
  destruct (token_preserves_core text tok c c' Hvalid Hc Htok (fun _ => Htag) H) as [H1 H2].
  split; auto. destruct tok; cbn [TagPost] in H2; auto; unfold InTag in *; rewrite H2; auto.
Qed.
Print Assumptions token_preserves_CtxInv.
