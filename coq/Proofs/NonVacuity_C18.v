(* Proofs/NonVacuity_C18.v -- non-vacuity of the hypotheses of the model-level theorems pinned under
   C18 (BorrowLocal, BorrowTokenizer, BorrowParse, TextMerge), on the document of NonVacuity_Doc.v and the
   builder state cD of NonVacuity_C01.v.  (parse_render_storage*: instantiated by the examples of
   CstRangeMain / TMain / EMain / FS2 / G5 / G6.) *)
From Coq Require Import Ascii String List NArith Bool Lia.
Import ListNotations.
From RX Require Import Generated.
From RX.Model Require Import Base CharClass Stream Tokenizer Doc Builder Parse Api.
From RX.Proofs Require Import BorrowLocal BorrowTokenizer BorrowParse TextMerge NonVacuity_Doc NonVacuity_C01.
Open Scope N_scope.

Ltac vs := repeat split; vm_compute; first [reflexivity | discriminate].

(* mk_slice_valid *)
Example nv_mk_slice_valid : exists s, mk_slice text0 59 63 = Ok s.
Proof. eexists. vm_compute. reflexivity. Qed.

(* the fast paths: text / attribute value / CDATA without '&', CR (TAB, LF) *)
Example nv_fast_path_text :
  existsb (fun x => (x =? 38) || (x =? 13)) (slice_bytes text0 {| sl_start := 73; sl_end := 74 |}) = false.
Proof. vm_compute. reflexivity. Qed.
Example nv_fast_path_attr :
  existsb (fun x => (x =? 38) || (x =? 9) || (x =? 10) || (x =? 13)) (slice_bytes text0 {| sl_start := 48; sl_end := 49 |}) = false.
Proof. vm_compute. reflexivity. Qed.
Example nv_fast_path_attr_applied :
  normalize_attribute text0 {| sl_start := 48; sl_end := 49 |} cD = Ok (Borrowed (SIn {| sl_start := 48; sl_end := 49 |}), cD).
Proof. exact (fast_path_attr text0 _ cD nv_fast_path_attr). Qed.
Example nv_fast_path_cdata : mem_b 13 (slice_bytes text0 {| sl_start := 73; sl_end := 74 |}) = false.
Proof. vm_compute. reflexivity. Qed.

(* token_ok and ctx_borrows_ok *)
Example nv_token_ok : token_ok text0 tokA /\ token_ok text0 tokT.
Proof. split; vs. Qed.

Example nv_ctx_borrows_ok : ctx_borrows_ok text0 cD.
Proof.
  split; [|split; [|split; [|split; [|split]]]].
  - split; [|split; [|split]].
    + vm_compute d_nodes. repeat (constructor; [unfold node_ok; cbn; try exact I; vs|]). constructor.
    + vm_compute d_attrs. repeat (constructor; [split; [vs|cbn; try exact I; vs]|]). constructor.
    + vm_compute d_ns_values. repeat (constructor; [split; cbn; try exact I; vs|]). constructor.
    + vm_compute d_ns_values. constructor; [intros _; reflexivity|].
      constructor; [|constructor]. intros [[b0 E]|[b0 E]]; discriminate E.
  - constructor; [split; vs|constructor].
  - constructor.
  - repeat (constructor; [vs|]). constructor.
  - split; vs.
  - constructor.
Qed.

Example nv_token_preserves_borrows_applied :
  exists c', token text0 tokA cD = Ok c' /\ ctx_borrows_ok text0 c'.
Proof.
  assert (E : exists c', token text0 tokA cD = Ok c') by (eexists; vm_compute; reflexivity).
  destruct E as [c' E]. exists c'. split; [exact E|].
  exact (token_preserves_borrows text0 tokA cD c' (proj1 nv_token_ok) nv_ctx_borrows_ok E).
Qed.

(* tokenizer_tokens_ok / tokenizer_content_tokens_ok: a callback that collects the value slices of
   the attribute tokens; P = all collected slices are valid *)
Definition ev_vals (tok : Tokenizer.token) (c : list slice) : res (list slice) :=
  Ok (match tok with TAttribute _ _ _ _ _ v => v :: c | _ => c end).

Example nv_tokenizer_tokens_ok :
  (forall tok c0 c1, token_ok text0 tok -> Forall (valid_slice text0) c0 -> ev_vals tok c0 = Ok c1 ->
                     Forall (valid_slice text0) c1) /\
  Forall (valid_slice text0) [] /\
  exists c', parse_document text0 (list slice) ev_vals true [] = Ok c' /\ length c' = 3%nat.
Proof.
  split; [|split; [constructor|eexists; split; vm_compute; reflexivity]].
  intros tok c0 c1 Ht Hc E. destruct tok; cbn in E; inversion E; subst; auto.
  constructor; auto. apply Ht.
Qed.

(* static_only_xml: the namespace table of d0 has the built-in xml entry (static) and p (borrowed) *)
Example nv_static_only_xml :
  exists v, In v (d_ns_values d0) /\ (exists b0, ns_name v = Some (SStatic b0)).
Proof. eexists. split; [left; reflexivity|]. eexists. reflexivity. Qed.

(* single_fragment_storage: one borrowed text fragment appended in state cD, then the run is closed *)
Example nv_single_fragment_storage :
  c_after_text cD = [] /\
  exists c0 c2, append_text (CowBorrowed {| sl_start := 73; sl_end := 74 |}) (73, 74) cD = Ok c0 /\
                reset_after_text text0 c0 = Ok c2.
Proof. split; [reflexivity|]. do 2 eexists. split; vm_compute; reflexivity. Qed.
