(* Proofs/DeclBodyLex.v -- the loop of consume_decl (Model/Tokenizer.v: a skipped <!ELEMENT /
   <!ATTLIST / <!NOTATION declaration ends at the first '>' that is not inside a quoted literal)
   against the state machine [decl_body_scan] of Spec/CstFullS5.v, on the canonical streams
   [st p l] / [W p l] of CstLex.v.  Both directions: a body accepted by the machine, followed by
   '>', is consumed exactly ([consume_decl_loop_fwd]); a successful run consumed such a body and
   the '>' after it ([consume_decl_loop_inv]).  The machine reads bytes or scalars alike
   ([scan_utf8s]): the bytes of a non-ASCII scalar are never '>' or a quote. *)
From Coq Require Import List Arith NArith Bool Lia ZifyBool ZifyN ZifyNat.
Import ListNotations.
From RX Require Import Generated.
From RX.Model Require Import Base CharClass Stream Tokenizer.
From RX.Spec Require Import CstFullS5.
From RX.Proofs Require Import Tactics CstLex CstULex.
From RX.Proofs Require CstSoundLex.
Open Scope N_scope.

(* the bytes skipped outside a literal *)
Definition plain (x : N) : bool := negb (x =? 62) && negb (x =? 34) && negb (x =? 39).
Definition not_q (q x : N) : bool := negb (x =? q).

(* ---- the machine ---- *)
Lemma scan_plain : forall x t, forallb plain x = true -> decl_body_scan None (x ++ t) = decl_body_scan None t.
Proof.
  induction x as [|a x IH]; intros t H; [reflexivity|]. cbn [forallb] in H. apply andb_true_iff in H.
  destruct H as [Ha H]. unfold plain in Ha. cbn [app decl_body_scan].
  replace (a =? 62) with false by lia. replace ((a =? 34) || (a =? 39)) with false by lia. apply IH. exact H.
Qed.

Lemma scan_in q : forall m t, forallb (not_q q) m = true ->
  decl_body_scan (Some q) (m ++ q :: t) = decl_body_scan None t.
Proof.
  induction m as [|a m IH]; intros t H.
  - cbn [app decl_body_scan]. rewrite N.eqb_refl. reflexivity.
  - cbn [forallb] in H. apply andb_true_iff in H. destruct H as [Ha H]. unfold not_q in Ha.
    cbn [app decl_body_scan]. replace (a =? q) with false by lia. apply IH. exact H.
Qed.

Lemma scan_high st l t : Forall (fun y => 128 <= y) l ->
  match st with Some q => q < 128 | None => True end ->
  decl_body_scan st (l ++ t) = decl_body_scan st t.
Proof.
  intros Hl Hst. induction Hl as [|x l Hx _ IH]; [reflexivity|]. cbn [app decl_body_scan]. destruct st as [q|].
  - replace (x =? q) with false by lia. exact IH.
  - replace (x =? 62) with false by lia. replace ((x =? 34) || (x =? 39)) with false by lia. exact IH.
Qed.

(* bytes or scalars *)
Lemma scan_utf8s : forall cs st, match st with Some q => q < 128 | None => True end ->
  decl_body_scan st (utf8s cs) = decl_body_scan st cs.
Proof.
  induction cs as [|a cs IH]; intros st Hst; [reflexivity|]. rewrite utf8s_cons.
  destruct (N.lt_ge_cases a 128) as [L|L].
  - rewrite (utf8_ascii a L). cbn [app decl_body_scan]. destruct st as [q|].
    + destruct (a =? q); apply IH; [exact I|exact Hst].
    + destruct (a =? 62); [reflexivity|]. destruct ((a =? 34) || (a =? 39)); apply IH; [exact L|exact I].
  - rewrite (scan_high st (utf8 a) (utf8s cs)) by (try apply (utf8_high a L); exact Hst).
    cbn [decl_body_scan]. destruct st as [q|].
    + replace (a =? q) with false by lia. apply IH. exact Hst.
    + replace (a =? 62) with false by lia. replace ((a =? 34) || (a =? 39)) with false by lia. apply IH. exact I.
Qed.

Lemma decl_body_ok_utf8s cs : decl_body_ok (utf8s cs) = decl_body_ok cs.
Proof. apply scan_utf8s. exact I. Qed.

(* what an accepted body is made of *)
Lemma scan_some_split q : forall t, decl_body_scan (Some q) t = true ->
  exists m r, t = m ++ q :: r /\ forallb (not_q q) m = true /\ decl_body_scan None r = true.
Proof.
  induction t as [|a t IH]; intros H; [discriminate|]. cbn [decl_body_scan] in H.
  destruct (a =? q) eqn:E.
  - assert (a = q) by lia. subst a. exists [], t. split; [reflexivity|]. split; [reflexivity|exact H].
  - destruct (IH H) as (m & r & -> & Hm & Hr). exists (a :: m), r. split; [reflexivity|]. split; [|exact Hr].
    cbn [forallb]. unfold not_q at 1. rewrite E. exact Hm.
Qed.

Lemma scan_none_split : forall l, decl_body_scan None l = true ->
  exists x r, l = x ++ r /\ forallb plain x = true /\
    (r = [] \/ exists q m r', r = q :: m ++ q :: r' /\ (q = 34 \/ q = 39) /\ forallb (not_q q) m = true /\
                              decl_body_scan None r' = true).
Proof.
  induction l as [|a l IH]; intros H.
  - exists [], []. split; [reflexivity|]. split; [reflexivity|]. left. reflexivity.
  - cbn [decl_body_scan] in H. destruct (a =? 62) eqn:E62; [discriminate|].
    destruct ((a =? 34) || (a =? 39)) eqn:Eq.
    + destruct (scan_some_split a l H) as (m & r' & -> & Hm & Hr).
      exists [], (a :: m ++ a :: r'). split; [reflexivity|]. split; [reflexivity|]. right.
      exists a, m, r'. split; [reflexivity|]. split; [lia|]. split; assumption.
    + destruct (IH H) as (x & r & -> & Hx & Hr). exists (a :: x), r. split; [reflexivity|]. split; [|exact Hr].
      cbn [forallb]. rewrite Hx, andb_true_r. unfold plain. lia.
Qed.

(* a keyword (or any run of plain bytes) before the body *)
Lemma plain_prefix : forall kw l2 l l', forallb plain kw = true -> kw ++ l2 = l ++ 62 :: l' ->
  decl_body_scan None l = true -> exists b', l = kw ++ b' /\ l2 = b' ++ 62 :: l' /\ decl_body_scan None b' = true.
Proof.
  induction kw as [|a kw IH]; intros l2 l l' Hk E H.
  - exists l. split; [reflexivity|]. split; [exact E|exact H].
  - cbn [forallb] in Hk. apply andb_true_iff in Hk. destruct Hk as [Ha Hk]. destruct l as [|y l].
    + cbn [app] in E. injection E as -> _. discriminate.
    + cbn [app] in E. injection E as <- E. change (a :: l) with ([a] ++ l) in H.
      rewrite (scan_plain [a] l) in H by (cbn [forallb]; rewrite Ha; reflexivity).
      destruct (IH l2 l l' Hk E H) as (b' & -> & -> & Hb). exists b'. split; [reflexivity|]. split; [reflexivity|exact Hb].
Qed.

Lemma kw_plain k : forallb plain (kw_of k) = true.
Proof. destruct k; reflexivity. Qed.

Section Lex.
Variable text : bytes.
Notation st := (CstLex.st text).
Notation W := (CstLex.W text).

(* ---- an accepted body followed by '>' is consumed exactly ---- *)
Lemma consume_decl_loop_fwd : forall fuel l q post, (length l < fuel)%nat -> W q (l ++ 62 :: post) ->
  decl_body_scan None l = true ->
  consume_decl_loop text fuel (st q (l ++ 62 :: post)) = Ok (st (q + blen l + 1) post).
Proof.
  induction fuel as [|fu IH]; intros l q post Hf HW H; [lia|].
  destruct (scan_none_split l H) as (x & r & -> & Hx & [-> | (c & m & r' & -> & Hc & Hm & Hr)]).
  - rewrite app_nil_r in *. cbn [consume_decl_loop]. cbv zeta. fold plain.
    rewrite (skip_bytes_st text) by (try exact HW; try exact Hx; reflexivity).
    pose proof (W_app text _ _ _ HW) as HW1.
    rewrite (curr_byte_st text) by exact HW1. cbn [bind].
    rewrite (advance1_st text) by exact HW1. cbn [bind]. reflexivity.
  - rewrite <- app_assoc in HW |- *. cbn [consume_decl_loop]. cbv zeta. fold plain.
    rewrite (skip_bytes_st text); [|exact HW|exact Hx|cbn [app stops]; unfold plain; destruct Hc as [-> | ->]; reflexivity].
    pose proof (W_app text _ _ _ HW) as HW1. cbn [app] in HW1 |- *.
    rewrite (curr_byte_st text) by exact HW1. cbn [bind].
    rewrite (advance1_st text) by exact HW1. cbn [bind].
    replace (c =? 62) with false by (destruct Hc as [-> | ->]; reflexivity).
    pose proof (W_cons text _ _ _ HW1) as HW2. rewrite <- app_assoc in HW2 |- *. cbn [app] in HW2 |- *.
    change (fun y : N => negb (y =? c)) with (not_q c).
    rewrite (skip_bytes_st text); [|exact HW2|exact Hm|cbn [stops]; unfold not_q; rewrite N.eqb_refl; reflexivity].
    pose proof (W_app text _ _ _ HW2) as HW3.
    rewrite (consume_byte_st text) by exact HW3. cbn [bind].
    pose proof (W_cons text _ _ _ HW3) as HW4.
    rewrite (IH r' _ post); [|rewrite !app_length in Hf; cbn [length] in Hf; rewrite app_length in Hf; cbn [length] in Hf; lia|exact HW4|exact Hr].
    f_equal. f_equal. repeat (rewrite ?blen_app, ?blen_cons). lia.
Qed.

(* ---- a successful run consumed an accepted body and the '>' after it ---- *)
Lemma consume_decl_loop_inv : forall fuel q l0 s', W q l0 -> consume_decl_loop text fuel (st q l0) = Ok s' ->
  exists l l', l0 = l ++ 62 :: l' /\ decl_body_scan None l = true /\ s' = st (q + blen l + 1) l' /\
               W (q + blen l + 1) l'.
Proof.
  induction fuel as [|fu IH]; intros q l0 s' HW H; [discriminate|].
  cbn [consume_decl_loop] in H. cbv zeta in H. fold plain in H.
  destruct (CstSoundLex.skip_bytes_inv text plain q l0 HW) as (x & l1 & -> & Hx & Hstop & Esk). rewrite Esk in H.
  pose proof (W_app text _ _ _ HW) as HW1.
  apply bind_ok in H. destruct H as (c & Hc & H).
  destruct (CstSoundLex.curr_byte_inv text _ _ _ HW1 Hc) as (l2 & ->). cbn [stops] in Hstop.
  rewrite (advance1_st text) in H by exact HW1. cbn [bind] in H.
  pose proof (W_cons text _ _ _ HW1) as HW2.
  destruct (c =? 62) eqn:E62.
  - assert (c = 62) by lia. subst c. injection H as <-. exists x, l2. split; [reflexivity|]. split.
    { rewrite <- (app_nil_r x). apply scan_plain. exact Hx. }
    split; [reflexivity|exact HW2].
  - change (fun y : N => negb (y =? c)) with (not_q c) in H.
    destruct (CstSoundLex.skip_bytes_inv text (not_q c) _ l2 HW2) as (m & l3 & -> & Hm & _ & Esk2). rewrite Esk2 in H.
    pose proof (W_app text _ _ _ HW2) as HW3.
    apply bind_ok in H. destruct H as (sb & Hb & H).
    destruct (CstSoundLex.consume_byte_inv text _ _ _ _ HW3 Hb) as (l4 & -> & -> & HW4).
    destruct (IH _ _ _ HW4 H) as (l & l' & -> & Hl & -> & HW5).
    exists (x ++ c :: m ++ c :: l), l'. split; [rewrite <- !app_assoc; cbn [app]; rewrite <- app_assoc; reflexivity|]. split.
    { rewrite scan_plain by exact Hx. cbn [decl_body_scan]. rewrite E62.
      replace ((c =? 34) || (c =? 39)) with true by (unfold plain in Hstop; lia).
      rewrite scan_in by exact Hm. exact Hl. }
    assert (Ep : q + blen x + 1 + blen m + 1 + blen l + 1 = q + blen (x ++ c :: m ++ c :: l) + 1).
    { repeat (rewrite ?blen_app, ?blen_cons). lia. }
    rewrite Ep in *. split; [reflexivity|exact HW5].
Qed.

(* ---- consume_decl ---- *)
Lemma consume_decl_fwd l q post : W q (l ++ 62 :: post) -> decl_body_scan None l = true ->
  consume_decl text (st q (l ++ 62 :: post)) = Ok (st (q + blen l + 1) post).
Proof.
  intros HW H. unfold consume_decl. cbn [CstLex.st s_rest]. apply consume_decl_loop_fwd; [|exact HW|exact H].
  rewrite app_length. cbn [length]. lia.
Qed.

Lemma consume_decl_inv q l0 s' : W q l0 -> consume_decl text (st q l0) = Ok s' ->
  exists l l', l0 = l ++ 62 :: l' /\ decl_body_scan None l = true /\ s' = st (q + blen l + 1) l' /\
               W (q + blen l + 1) l'.
Proof. intros HW H. unfold consume_decl in H. eapply consume_decl_loop_inv; eassumption. Qed.

End Lex.
