(* Proofs/CstFullS6Sanity.v -- the capstone fragment, stage S6 (Spec/CstFullS6.v): the model on sample documents, by
   computation: every construct of S4 and of S5 at once; the earlier stages embed. *)
From Coq Require Import Ascii String.
From Coq Require Import List NArith Bool.
Import ListNotations.
From RX.Model Require Import Base Stream Tokenizer Doc Builder Parse.
From RX.Spec Require CstNs CstU.
From RX.Spec Require Import CstFull CstFullS6.
From RX.Proofs Require Import CstNsView.
From RX.Proofs Require CstFullS4Sanity CstFullS5Sanity.
Open Scope N_scope.

Definition vnode_eq_dec : forall x y : CstNs.vnode, {x = y} + {x <> y}.
Proof. repeat decide equality. Defined.

Definition layb ws w1 w2 q := {| CstNs.l_ws := ws; CstNs.l_ws1 := w1; CstNs.l_ws2 := w2; CstNs.l_quote := q |}.
Definition qn (p l : scalars) : qname := {| q_prefix := p; q_local := l |}.
Definition tx (r : list E.epiece) : uitem := @IText epieces r.
Definition lit cs := E.EP (T.PLit cs).
Definition rf n := E.ERef n.
Definition cr := 13.
(* in the document: double quotes for attributes; in entity values (quoted by the double quote): single quotes *)
Definition at2 p l v : uentry := EAttr (layb [cr] [cr] [] 34) (qn p l) v.
Definition at1 p l v : uentry := EAttr (layb [cr; 32] [] [cr] 39) (qn p l) v.
Definition dc1 p u : uentry := EDecl (layb [cr] [32] [cr] 39) p u.
Definition el p l es cs : uitem := IElem (qn p l) es [cr] (Some (cs, [cr; 32])).
Definition em p l es : uitem := IElem (qn p l) es [cr] None.
Definition xd n v : X4.xdecl :=
  {| X4.x_ws0 := [cr; 10]; X4.x_ws1 := [cr]; X4.x_name := n; X4.x_ws2 := [cr]; X4.x_quote := 34; X4.x_value := v; X4.x_ws3 := [cr] |}.
Definition ps ws w1 w2 q v : X5.pseudo := {| X5.p_ws := ws; X5.p_ws1 := w1; X5.p_ws2 := w2; X5.p_quote := q; X5.p_value := v |}.

Definition opt_dtd := {| allow_dtd := true; nodes_limit := 1000 |}.
Definition opt_nodtd := {| allow_dtd := false; nodes_limit := 1000 |}.

Definition check_with (o : options) (c : S6.doc) : bool * bool * bool :=
  (S6.wf_doc c, valid_utf8_b (S6.render c),
   match parse (S6.render c) o with
   | Ok d => match view (S6.render c) d with
             | Some v => if list_eq_dec vnode_eq_dec v (S6.sem c) then true else false
             | None => false end
   | _ => false
   end).
Definition check := check_with opt_dtd.
Definition rejected (c : S6.doc) : bool * bool :=
  (S6.wf_doc c, match parse (S6.render c) opt_dtd with Err _ => true | _ => false end).

Definition na := 21517. Definition eacute := 233. Definition p_ := b "p".

(* ------------------------------------------------------------------------------------------ *)
(* everything at once                                                                         *)
(* ------------------------------------------------------------------------------------------ *)
Definition subset1 : subset6 :=
  {| zu_decls :=
       [ XOther (X5.SMisc [10] (IComment (b " in the subset ")));
         XOther (X5.SParam [10] [32] [cr] (b "m") [32] (X5.PLiteral 39 (b "<b> & %c;")) [cr]);         (* %m; binds nothing *)
         XOther (X5.SExternal [10] [9] (b "m") [32] (X5.XSystem [32] 34 (b "m.ent")) (Some ([cr], [9], b "gif")) []);
         XEntity (xd (b "u") (X4.XText [lit (b "urn:"); rf [na]]));                                      (* &u; = "urn:&U+540D;" *)
         XOther (X5.SMarkup [10] X5.MElement (b " r (#PCDATA|c)*"));
         XEntity (xd [na] (X4.XText [lit [na; cr]]));
         (* &m; = <p:x CR xmlns:p CR = CR 'inner' CR SP p:a= CR '&u;' CR /> text <q:y CR > &u; </q:y CR SP > : markup with CR in the tags;
            q is bound only at the place of the reference *)
         XEntity (xd (b "m") (X4.XContent [ em p_ (b "x") [dc1 p_ [lit (b "inner")]; at1 p_ (b "a") [rf (b "u")]];
                                            tx [lit (b " text ")];
                                            el (b "q") (b "y") [] [tx [rf (b "u")]] ]));
         XOther (X5.SMisc [10] (IPI (b "pi") [cr; 32] (b "in the subset")));
         XEntity (xd (b "u") (X4.XText [lit (b "ignored")])) ];
     zu_ws3 := [cr; 10]; zu_ws4 := [cr] |}.

Definition ex1 : S6.doc :=
  {| S6.x_bom := true;
     S6.x_decl := Some {| X5.xd_version := ps [32; cr] [cr] [9] 39 (b "1.0"); X5.xd_encoding := Some (ps [10] [] [] 34 (b "UTF-8"));
                          X5.xd_standalone := Some (ps [cr] [32] [] 39 (b "no")); X5.xd_ws := [cr] |};
     S6.x_dtd := Some
       {| S6.g_ws0 := [cr; 10]; S6.g_before := [(IComment (b "before"), [cr]); (IPI (b "p") [] [], [])];
          S6.g_dtd := {| z_ws1 := [cr]; z_name := [na]; z_ws2 := [32];
                         z_ext := Some (X5.XPublic [32] 34 (b "-//A//B") [cr] 39 (b "p.dtd"), [10]);
                         z_subset := Some subset1 |} |};
     S6.x_main := {| d_before := [(IComment [128512], [cr])]; d_ws0 := [cr; 10];
                     d_root := el p_ [na] [@EDecl epieces (layb [cr] [cr] [cr] 39) p_ [rf (b "u")];
                                           @EDecl epieces (layb [cr] [] [] 34) (b "q") [lit (b "outer-q")];
                                           at2 [] (b "a") [rf [na]; lit (b "x")]]
                                  [ tx [rf (b "m"); lit [cr; 10]];
                                    el [] (b "c") [@EDecl epieces (layb [32] [] [] 34) (b "q") [lit (b "other-q")]] [tx [lit (b "a"); rf (b "m"); lit (b "b")]] ];
                     d_after := [([cr], IComment (b "after"))]; d_ws_end := [cr; 10] |} |}.
Eval vm_compute in (check ex1).
Eval vm_compute in (S6.sem ex1).
Eval vm_compute in (match parse (S6.render ex1) opt_nodtd with Err DtdDetected => true | _ => false end).

(* no DOCTYPE *)
Definition ex2 : S6.doc :=
  {| S6.x_bom := true; S6.x_decl := None; S6.x_dtd := None;
     S6.x_main := {| d_before := []; d_ws0 := []; d_root := el [] (b "r") [] [tx [lit (b "t"); E.EP (T.PPredef T.Amp)]]; d_after := []; d_ws_end := [] |} |}.
Eval vm_compute in (check_with opt_nodtd ex2, check_with opt_dtd ex2).

(* ------------------------------------------------------------------------------------------ *)
(* the earlier stages inside S6                                                               *)
(* ------------------------------------------------------------------------------------------ *)
Definition same4 (d : X4.S4.doc) : bool * bool * bool * bool :=
  (X4.S4.wf_doc d, S6.wf_doc (S6.of_s4 d),
   if list_eq_dec N.eq_dec (S6.render (S6.of_s4 d)) (X4.S4.render d) then true else false,
   if list_eq_dec vnode_eq_dec (S6.sem (S6.of_s4 d)) (X4.S4.sem d) then true else false).
Eval vm_compute in (map same4 [CstFullS4Sanity.ex1; CstFullS4Sanity.ex2; CstFullS4Sanity.ex3; CstFullS4Sanity.ex5; CstFullS4Sanity.ex6]).
Eval vm_compute in (map (fun d => check (S6.of_s4 d)) [CstFullS4Sanity.ex1; CstFullS4Sanity.ex5; CstFullS4Sanity.ex6]).

Definition same5 (d : X5.S5.doc) : bool * bool * bool * bool :=
  (X5.S5.wf_doc d, S6.wf_doc (S6.of_s5 d),
   if list_eq_dec N.eq_dec (S6.render (S6.of_s5 d)) (X5.S5.render d) then true else false,
   if list_eq_dec vnode_eq_dec (S6.sem (S6.of_s5 d)) (X5.S5.sem d) then true else false).
Eval vm_compute in (map same5 [CstFullS5Sanity.ex1; CstFullS5Sanity.ex_bare; CstFullS5Sanity.ex_sys_sub; CstFullS5Sanity.ex_nodtd3;
                               X5.S5.of_s3 CstFullS5Sanity.s3doc]).

(* ------------------------------------------------------------------------------------------ *)
(* excluded, and rejected by the model                                                        *)
(* ------------------------------------------------------------------------------------------ *)
Definition with_sub (ds : list sdecl6) (root : uitem) : S6.doc :=
  {| S6.x_bom := false; S6.x_decl := None;
     S6.x_dtd := Some {| S6.g_ws0 := []; S6.g_before := [];
                         S6.g_dtd := {| z_ws1 := [32]; z_name := b "r"; z_ws2 := []; z_ext := None;
                                        z_subset := Some {| zu_decls := ds; zu_ws3 := []; zu_ws4 := [] |} |} |};
     S6.x_main := {| d_before := []; d_ws0 := []; d_root := root; d_after := []; d_ws_end := [] |} |}.
Definition mkp := xd (b "e") (X4.XContent [em [] (b "x") []]).
Definition bad_value := with_sub [XEntity mkp] (em [] (b "r") [at2 [] (b "a") [rf (b "e")]]).          (* markup entity in a value *)
Definition bad_rec := with_sub [XEntity (xd (b "e") (X4.XContent [tx [rf (b "e")]]))] (el [] (b "r") [] [tx [rf (b "e")]]).
Definition bad_pe := with_sub [XOther (X5.SParam [] [32] [32] (b "e") [32] (X5.PLiteral 39 (b "<x/>")) [])] (el [] (b "r") [] [tx [rf (b "e")]]).
Definition bad_unbound := with_sub [XEntity (xd (b "e") (X4.XContent [em (b "q") (b "x") []]))] (el [] (b "r") [] [tx [rf (b "e")]]).   (* q unbound at the reference *)
Definition bad_s3 := with_sub [XOther (X5.SEntity (CstFullS5Sanity.decl (b "e") [lit (b "v")]))] (el [] (b "r") [] [tx [rf (b "e")]]).  (* not the S6 syntax for it: wf only *)
Eval vm_compute in (map rejected [bad_value; bad_rec; bad_pe; bad_unbound]).
Eval vm_compute in (S6.wf_doc bad_s3).
