(* Proofs/CstFullS9Items.v -- the capstone fragment, stage S9 (Spec/CstFullS9.v):
   Proofs/CstFullS7Items.v (parse_content_loop on the rendering of the items) with the conditions of Spec/CstFullS9.v.
   An adapted copy: the statements and proofs are those of that file over the definitions of Proofs/CstFullS9aSem.v. *)
From Coq Require Import Ascii String.
From Coq Require Import List NArith PeanoNat Bool Lia ZifyBool ZifyN ZifyNat.
Import ListNotations.
From RX Require Import Generated.
From RX.Model Require Import Base CharClass Stream Tokenizer Doc Builder Parse.
From RX.Spec Require Cst CstText CstEnt Detector Scope CstU CstNs.
From RX.Spec Require Chars.
From RX.Spec Require Import CstFullS5.
From RX.Spec Require Import Text CstFull CstFullS4.
From RX.Spec Require Import CstFullS6 CstFullS7 CstFullS8 CstFullS9.
From RX.Proofs Require Import Tactics CstLex CstBuild CstULex TextMachine TextMerge HoistProofs NoPanicUtf8 DetectorProofs.
From RX.Proofs Require Import CstTextSem CstTextLex CstTextBuild CstEntSem CstEntMeaning CstEntRun CstEntInline.
From RX.Proofs Require Import CstNsLex CstNsView CstNsBuild CstFullLex CstFullBuild CstFullTree.
From RX.Proofs Require Import CstFullS2Sem CstFullS2Lex CstFullS2Build CstFullS9aSem CstFullS9aText CstFullS9aRun CstFullS9aPlug.
From RX.Proofs Require Import CstEntCFloor CstEntCBuild CstEntCSem CstEntCLoop.
From RX.Proofs Require Import CstFullS4Sem CstFullS9bSem CstFullS9bText CstFullS4Build CstFullS9bAttr CstFullS9Text.
From RX.Proofs Require Import CstFullS5Ws CstFullS5Lex.
From RX.Proofs Require CstFullS5Items.
From RX.Proofs Require CstEntText CstEntCLex CstEntCText CstFullS7Lex CstNsItems CstNsDoc CstFullItems CstTextItems CstUItems.
Open Scope N_scope.

Module SL := CstFullS7Lex.

(* ---- runs of items that are all character data ---- *)
Fixpoint pieces_of (l : list bitem) : list T.piece :=
  match l with [] => [] | IText ps :: r => ps ++ pieces_of r | _ :: r => pieces_of r end.

Lemma walk_texts : forall its acc, forallb is_btext its = true -> walk acc its = ([], acc ++ pieces_of its).
Proof.
  induction its as [|i r IH]; intros acc H; [cbn [walk pieces_of]; rewrite app_nil_r; reflexivity|].
  cbn [forallb] in H. apply andb_true_iff in H. destruct H as [H1 H2]. destruct i as [|ps| |]; try discriminate.
  cbn [walk pieces_of]. rewrite IH by exact H2. rewrite app_assoc. reflexivity.
Qed.

Lemma inline_run_app tb m : forall a b0 its tr, inline_run tb m (a ++ b0) = Some (its, tr) ->
  exists ia tra ib trb, inline_run tb m a = Some (ia, tra) /\ inline_run tb m b0 = Some (ib, trb) /\
                        its = ia ++ ib /\ tr = tra ++ trb.
Proof.
  induction a as [|p a IH]; intros b0 its tr H.
  - exists [], [], its, tr. auto.
  - cbn [app inline_run] in *. destruct p as [q|n].
    + destruct (inline_run tb m (a ++ b0)) as [[i0 t0]|] eqn:Ea; [|discriminate]. cbn [E.obind fst snd] in H.
      injection H as <- <-. destruct (IH _ _ _ Ea) as (ia & tra & ib & trb & E1 & E2 & -> & ->).
      rewrite E1. cbn [E.obind fst snd]. exists (@IText bpieces [q] :: ia), tra, ib, trb. auto.
    + destruct (ylookup tb n) as [v|]; [|discriminate]. cbn [E.obind] in *.
      destruct (inline_run tb m (a ++ b0)) as [[i0 t0]|] eqn:Ea; [|discriminate]. cbn [E.obind fst snd] in H.
      injection H as <- <-. destruct (IH _ _ _ Ea) as (ia & tra & ib & trb & E1 & E2 & -> & ->).
      rewrite E1. cbn [E.obind fst snd]. eexists. eexists. exists ib, trb. split; [reflexivity|]. split; [exact E2|].
      split; [cbn [app]; rewrite <- app_assoc; reflexivity|]. cbn [app]. rewrite <- !app_assoc. reflexivity.
Qed.

(* a stretch without '&': the pieces are literals, inlined to themselves *)
Lemma inline_run_plain tb m : forall ps its tr, existsb (fun x => x =? 38) (E.r_epieces ps) = false ->
  Forall (uep_ok m) ps -> inline_run tb m ps = Some (its, tr) ->
  tr = [] /\ forallb is_btext its = true /\ chunks (pieces_of its) = map CLit (E.r_epieces ps) /\
  nomarks (pieces_of its) /\ (ps <> [] -> pieces_of its <> []).
Proof.
  induction ps as [|p ps IH]; intros its tr Hn Hok Hin.
  - injection Hin as <- <-. repeat split; try constructor. congruence.
  - rewrite r_epieces_cons, existsb_app in Hn. apply orb_false_iff in Hn. destruct Hn as [Hn1 Hn2].
    apply Forall_cons_iff in Hok. destruct Hok as [Hp Hr].
    cbn [inline_run] in Hin. destruct p as [q|n]; [|cbn in Hn1; discriminate].
    destruct (inline_run tb m ps) as [[i0 t0]|] eqn:Er; [|discriminate]. cbn [E.obind fst snd] in Hin.
    injection Hin as <- <-. destruct (IH _ _ Hn2 Hr eq_refl) as (I1 & I2 & I3 & I4 & _).
    split; [exact I1|]. split; [exact I2|]. cbn [pieces_of app]. split; [|split; [|discriminate]].
    + unfold chunks in *. cbn [flat_map]. rewrite I3, r_epieces_cons, map_app. f_equal.
      destruct Hp as [Hv _]. destruct q as [bs|hex ds|e|bs]; cbn [bvpiece E.r_epiece T.r_piece T.piece_chunks] in *;
        try reflexivity; try discriminate; try contradiction.
    + constructor; [apply (uep_nonmark _ _ Hp)|exact I4].
Qed.

Section CItems.
Variable text : bytes.
Variable D : list Scope.binding.
Hypothesis HD : forall l, NoDup l -> incl l D -> N.of_nat (length l) <= 65535.
Variable decls : list xdecl.
Variable es : list entity.
Hypothesis Henv : Forall2 (uent_ok text) (map pd decls) es.
Hypothesis Hdecls : Forall udecl_okc (map pd decls).
Hypothesis Hcont : Forall decl_cont decls.
Variable k : nat.
Hypothesis IHk : forall k', k = S k' -> forall cs, ItemsOK text D es (level decls k') cs.

Notation tb := (level decls k).
Notation W := (CstLex.W text).
Notation WV := (CstULex.WV text).
Notation WVs := (SL.WV text).
Notation sst4 := CstEntCLex.st.
Notation evl := (CstEntCBuild.evl text).
Notation CIn := (CstNsBuild.CIn text D).
Notation kmn := (CstNsBuild.kmn text).
Notation OR := (CstFullS9Text.OR text D es).
Notation Res := (CstFullS9Text.Res text D es).
Notation Rooms := (CstFullS9Text.Rooms).
Notation NsOk := (CstFullS9Text.NsOk D).
Notation SemI := (CstEntCText.SemI text).
Notation decls3 := (map pd decls).
Notation Res_app := (CstFullS9Text.Res_app text D HD es).
Notation Rooms_app_l := (CstFullS9Text.Rooms_app_l D HD).
Notation Rooms_app_r := (CstFullS9Text.Rooms_app_r text D HD es).
Notation Res_nil := (CstFullS9Text.Res_nil text D HD es).
Notation TLc := (CstFullS9Text.TLc text D HD decls es Henv Hdecls Hcont k IHk).

(* ---- a text token ---- *)
Lemma tok_stretch_c inh l p more m c0 c frs acc L its tr ld' :
  WV p (E.r_epieces l ++ more) -> Forall (uep_ok m) l -> l <> [] ->
  m = (0 <? ld_depth (c_ld c)) -> N.of_nat L + ld_depth (c_ld c) = 12 -> ld_ok (c_ld c) ->
  OR inh c0 c frs -> SemI frs acc -> bnd acc = true -> c_entity_floor c <= len_N (c_parent_prefixes c) ->
  inline_run tb m l = Some (its, tr) -> ld_run (c_ld c) tr = Some ld' ->
  Pok acc its -> Rooms inh c0 acc its -> NsOk inh acc its ->
  exists c0' c' frs' K ext,
    evl L (TText (sl p (p + blen (E.r_epieces l))) (p, p + blen (E.r_epieces l))) c = Ok c' /\
    Res inh c0 c acc its ld' c0' c' frs' K ext.
Proof.
  intros HWv Hok Hne Hm Hlvl Hk HO HS Hbnd Hfl Hin Hld HP HR HN. pose proof (WV_W _ _ _ HWv) as HW.
  unfold CstEntCBuild.evl. cbn [token_with].
  rewrite process_text_with_unfold. unfold slice_bytes at 1. cbn [sl sl_start sl_end].
  rewrite (CstLex.W_sub _ _ _ _ HW).
  pose proof (CstLex.W_le _ _ _ (CstLex.W_app _ _ _ _ HW)) as Hle.
  destruct (existsb (fun x => (x =? 38) || (x =? 13)) (E.r_epieces l)) eqn:Efast; cbn [negb].
  - cbn [fst snd]. rewrite (stream_from_substr_W text p (E.r_epieces l) more HW). cbn [bind].
    destruct (TLc l [] [] inh m (p + blen (E.r_epieces l)) p more c0 c frs acc
                (S (length (s_rest (sst (p + blen (E.r_epieces l)) p (E.r_epieces l ++ more))))) L
                (p, p + blen (E.r_epieces l)) its tr ld')
      as (c0' & c' & frs' & K & ext & E' & HRes & _); try assumption; try reflexivity.
    + apply acc_nil.
    + constructor.
    + rewrite app_nil_r. exact HP.
    + rewrite app_nil_r. exact HR.
    + rewrite app_nil_r. exact HN.
    + cbn [sst s_rest]. rewrite app_length. lia.
    + cbn [push_text_chunks] in E'. rewrite E'. exists c0', c', frs', K, ext. split; [reflexivity|].
      rewrite app_nil_r in HRes. exact HRes.
  - destruct (existsb_or_false _ _ _ Efast) as [E38 E13].
    destruct (inline_run_plain tb m l its tr E38 Hok Hin) as (-> & Htx & Hch & Hnm & Hpne).
    cbn [ld_run] in Hld. injection Hld as <-.
    set (g := pieces_of its) in *.
    assert (Ew : walk acc its = ([], acc ++ g)) by (apply walk_texts; exact Htx).
    destruct HO as [A1 A2 A3 A4 A5 A6].
    assert (Hcr : E.crlf_split_ok (acc ++ g) = true) by (destruct HP as [_ X]; rewrite Ew in X; exact X).
    destruct (run_append_n text D inh (CowBorrowed (sl p (p + blen (E.r_epieces l)))) (p, p + blen (E.r_epieces l)) c0 c frs A5 A1)
      as (c' & Ea & HRa & La1 & La2 & La3); [|exact A2|].
    { intros Z0. destruct HR as [HR _]. rewrite Ew in HR. cbn [fst snd app] in HR. apply (CstFullItems.node_room_room _ _ HR).
      rewrite nsizes_flush, all_marks_app, (proj1 (proj2 HS) Z0). cbn [andb].
      destruct (all_marks g) eqn:Em; [apply (nomarks_all g Hnm) in Em; exfalso; apply (Hpne Hne); exact Em|]. lia. }
    rewrite Ea. exists c0, c', (frs ++ [CowBorrowed (sl p (p + blen (E.r_epieces l)))]), [], []. split; [reflexivity|].
    unfold CstFullS9Text.Res. rewrite Ew. cbn [fst snd CstFullTree.dens NT.tag_list NT.nattrs_items NT.ns_costs length].
    split; [apply Stepn_refl|]. split.
    { constructor; try assumption. rewrite (CstEntText.Run_entities _ _ _ HRa). rewrite <- A6. symmetry. apply (CstEntText.Run_entities _ _ _ A5). }
    split.
    { apply SemI_ext; [exact HS| | |].
      - cbn [map concat cow_bytes]. rewrite app_nil_r. unfold slice_bytes. cbn [sl sl_start sl_end].
        rewrite (CstLex.W_sub _ _ _ _ HW). rewrite Hch, decode_lits, norm_eol_nocr by exact E13. reflexivity.
      - split; [discriminate|]. intros Em. apply (nomarks_all g Hnm) in Em. exfalso. apply (Hpne Hne). exact Em.
      - apply (nosplit_bnd acc g []); [exact Hbnd|rewrite app_nil_r; exact Hcr]. }
    split; [constructor|]. split; [reflexivity|]. split; [lia|]. split; [exact La1|]. split; [reflexivity|]. split; [exact La3|].
    unfold tn_set. rewrite La2. auto.
Qed.

(* ---- a CDATA section ---- *)
Lemma tok_cdata_c inh bs p post c0 c frs acc L :
  W p (T.cdata_open ++ bs ++ n3 ++ post) ->
  OR inh c0 c frs -> SemI frs acc -> E.crlf_split_ok (acc ++ [T.PCData bs]) = true -> (frs = [] -> room c0) ->
  exists c',
    evl L (TCdata (sl (p + 9) (p + 9 + blen bs)) (p, p + 9 + blen bs + 3)) c = Ok c' /\
    Res inh c0 c acc [@IText bpieces [T.PCData bs]] (c_ld c) c0 c' (frs ++ [if mem_b 13 bs then CowOwned (norm_eol bs) else CowBorrowed (sl (p + 9) (p + 9 + blen bs))]) [] [].
Proof.
  intros HW [A1 A2 A3 A4 A5 A6] HS Hcr Hroom.
  unfold CstEntCBuild.evl. cbn [token_with]. rewrite process_cdata_spec.
  pose proof (CstLex.W_app _ _ _ _ HW) as HW1. change (blen T.cdata_open) with 9 in HW1.
  rewrite (CstLex.W_slice _ _ _ _ HW1).
  set (t := if mem_b 13 bs then CowOwned (norm_eol bs) else CowBorrowed (sl (p + 9) (p + 9 + blen bs))).
  destruct (run_append_n text D inh t (p, p + 9 + blen bs + 3) c0 c frs A5 A1 Hroom A2) as (c' & Ea & HRa & La1 & La2 & La3).
  rewrite Ea. exists c'. split; [reflexivity|].
  unfold CstFullS9Text.Res. cbn [walk fst snd CstFullTree.dens NT.tag_list NT.nattrs_items NT.ns_costs length].
  split; [apply Stepn_refl|]. split.
  { constructor; try assumption. rewrite (CstEntText.Run_entities _ _ _ HRa). rewrite <- A6. symmetry. apply (CstEntText.Run_entities _ _ _ A5). }
  split.
  { apply SemI_ext; [exact HS| | |].
    - cbn [map concat]. rewrite app_nil_r. unfold chunks. cbn [flat_map T.piece_chunks]. rewrite app_nil_r.
      rewrite decode_ref_nil, decode_app_ref, decode_lits. change (decode_chunks []) with (@nil N). rewrite !app_nil_r.
      unfold t. destruct (mem_b 13 bs) eqn:E13; cbn [cow_bytes]; [reflexivity|].
      rewrite (CstLex.W_slice _ _ _ _ HW1). rewrite mem_b_existsb in E13. rewrite norm_eol_nocr by exact E13. reflexivity.
    - split; discriminate.
    - unfold chunks at 2. cbn [flat_map T.piece_chunks]. rewrite andb_false_r. reflexivity. }
  split; [constructor|]. split; [reflexivity|]. split; [lia|]. split; [exact La1|]. split; [reflexivity|]. split; [exact La3|].
  unfold tn_set. rewrite La2. auto.
Qed.


(* ---- the segments of a run ---- *)
Definition ueseg_wfm (m : bool) (s : eseg) : Prop :=
  ueseg_wf s /\ match s with ESS l => Forall (uep_ok m) l | ESC _ => True end.

Definition seg_bnd (L : list eseg) (acc : list T.piece) : Prop :=
  match L with ESS _ :: _ => bnd acc = true | _ => True end.

Lemma WVs_full en tl p r : WVs en tl p r -> WV p (r ++ tl).
Proof. intros [H _]. exact H. Qed.

Lemma segs_c inh post en tl : text_stop post ->
  forall L prev p m c0 c frs acc lvl depth fuel its tr ld',
  Forall (ueseg_wfm m) L -> ealt (prev :: L) -> WVs en tl p (flat_map r_eseg L ++ post) ->
  m = (0 <? ld_depth (c_ld c)) -> N.of_nat lvl + ld_depth (c_ld c) = 12 -> ld_ok (c_ld c) ->
  OR inh c0 c frs -> SemI frs acc -> seg_bnd L acc -> c_entity_floor c <= len_N (c_parent_prefixes c) ->
  inline_run tb m (flat_map seg_pieces L) = Some (its, tr) -> ld_run (c_ld c) tr = Some ld' ->
  Pok acc its -> Rooms inh c0 acc its -> NsOk inh acc its ->
  exists c0' c' frs' K ext,
    parse_content_loop text context (evl lvl) (length L + fuel) depth (sst4 en tl p (flat_map r_eseg L ++ post)) c =
    parse_content_loop text context (evl lvl) fuel depth (sst4 en tl (p + blen (flat_map r_eseg L)) post) c' /\
    Res inh c0 c acc its ld' c0' c' frs' K ext.
Proof.
  intros Hpost. induction L as [|s L IH]; intros prev p m c0 c frs acc lvl depth fuel its tr ld'
    HF A HW Hm Hlvl Hk HO HS Hb Hfl Hin Hld HP HR HN.
  - cbn [flat_map inline_run] in Hin. injection Hin as <- <-. cbn [ld_run] in Hld. injection Hld as <-.
    cbn [length flat_map app Nat.add]. rewrite blen_nil, N.add_0_r.
    exists c0, c, frs, [], []. split; [reflexivity|]. apply Res_nil; assumption.
  - apply Forall_cons_iff in HF. destruct HF as [[Hs Hsm] HL].
    assert (A' : ealt (s :: L)) by (destruct A as [_ A]; exact A).
    cbn [flat_map] in Hin, HW |- *. rewrite <- app_assoc in HW |- *.
    destruct (inline_run_app _ _ _ _ _ _ Hin) as (ia & tra & ib & trb & Ea & Eb & -> & ->).
    rewrite ld_run_app in Hld. destruct (ld_run (c_ld c) tra) as [ld1|] eqn:El1; [|discriminate].
    destruct (Pok_app _ _ _ HP) as [HPa HPb]. pose proof (Rooms_app_l _ _ _ _ _ HR) as HRa.
    destruct (CstFullS9Text.NsOk_app _ _ _ _ _ HN) as [HNa HNb].
    cbn [length Nat.add].
    assert (Hstep : exists c0a ca frsa K1 e1,
              parse_content_loop text context (evl lvl) (S (length L + fuel)) depth (sst4 en tl p (r_eseg s ++ flat_map r_eseg L ++ post)) c =
              parse_content_loop text context (evl lvl) (length L + fuel) depth (sst4 en tl (p + blen (r_eseg s)) (flat_map r_eseg L ++ post)) ca /\
              Res inh c0 c acc ia ld1 c0a ca frsa K1 e1 /\ seg_bnd L (snd (walk acc ia))).
    { destruct s as [l|bs]; cbn [r_eseg seg_pieces] in *.
      - (* a stretch *)
        destruct (ess_bytes_u D HD l Hs) as (Hu & Hb60 & x & r & Ex & Hx60). destruct Hs as (Hne & _ & _ & Hn3).
        pose proof (SL.WV_W text _ _ HW) as HW0.
        assert (El : parse_content_loop text context (evl lvl) (S (length L + fuel)) depth (sst4 en tl p (E.r_epieces l ++ flat_map r_eseg L ++ post)) c =
                     let! (s0, c1) := parse_text text context (evl lvl) (sst4 en tl p (E.r_epieces l ++ flat_map r_eseg L ++ post)) c in
                     parse_content_loop text context (evl lvl) (length L + fuel) depth s0 c1).
        { revert HW0. rewrite Ex. cbn [app]. intros HW0. apply (loop_text text en tl); assumption. }
        rewrite El. clear El.
        assert (Hstop : text_stop (flat_map r_eseg L ++ post)).
        { destruct L as [|[l'|bs'] L']; cbn [flat_map app]; [exact Hpost| |reflexivity].
          destruct A' as [A' _]. specialize (A' eq_refl). discriminate. }
        rewrite (SL.lex_text_g text en tl) by assumption.
        pose proof (WVs_full _ _ _ _ HW) as HWf. rewrite <- app_assoc in HWf.
        destruct (tok_stretch_c inh l p _ m c0 c frs acc lvl ia tra ld1 HWf Hsm Hne Hm Hlvl Hk HO HS Hb Hfl Ea El1 HPa HRa HNa)
          as (c0a & ca & frsa & K1 & e1 & E1 & HRes1).
        rewrite E1. cbn [bind]. exists c0a, ca, frsa, K1, e1. split; [reflexivity|]. split; [exact HRes1|].
        destruct L as [|[l'|bs'] L']; [exact I| |exact I]. destruct A' as [A' _]. specialize (A' eq_refl). discriminate.
      - (* a CDATA section *)
        cbn [inline_run E.obind fst snd] in Ea. injection Ea as <- <-. cbn [ld_run] in El1. injection El1 as <-.
        destruct Hs as [H1 H2]. rewrite <- !app_assoc in HW |- *.
        rewrite (loop_cdata text en tl) by (apply (SL.WV_W text _ _ HW)).
        change T.cdata_close with n3 in *.
        rewrite (SL.lex_cdata_u text en tl) by assumption.
        pose proof (WVs_full _ _ _ _ HW) as HWf. rewrite <- !app_assoc in HWf.
        destruct (tok_cdata_c inh bs p _ c0 c frs acc lvl (WV_W _ _ _ HWf) HO HS) as (ca & E1 & HRes1).
        { destruct HPa as [_ X]. cbn [walk snd] in X. exact X. }
        { intros Z0. destruct HRa as [X _]. cbn [walk fst snd app] in X. apply (CstFullItems.node_room_room _ _ X).
          rewrite nsizes_flush, all_marks_app. change (all_marks [T.PCData bs]) with false. rewrite andb_false_r. lia. }
        rewrite E1. cbn [bind]. eexists c0, ca, _, [], []. split.
        { f_equal. f_equal. rewrite !blen_app. change (blen T.cdata_open) with 9. change (blen n3) with 3. lia. }
        split; [exact HRes1|]. cbn [walk snd]. destruct L as [|[l'|bs'] L']; try exact I.
        cbn [seg_bnd]. rewrite bnd_snoc. reflexivity. }
    destruct Hstep as (c0a & ca & frsa & K1 & e1 & E1 & HRes1 & Hb1). rewrite E1.
    pose proof HRes1 as (S1 & O1 & M1 & F1 & Le1 & Nc1 & D1 & D1' & Fl1 & T1).
    assert (Hvs : U8.Valid (r_eseg s)) by (apply (eseg_valid D HD); exact Hs).
    destruct (IH s (p + blen (r_eseg s)) m c0a ca frsa (snd (walk acc ia)) lvl depth fuel ib trb ld' HL A')
      as (c0' & c' & frs' & K2 & e2 & E2 & HRes2); try assumption.
    + apply (SL.WV_app text _ _ _ HW Hvs).
    + rewrite D1, D1'. exact Hm.
    + rewrite D1, D1'. exact Hlvl.
    + rewrite D1. apply (ld_ok_run _ _ _ El1 Hk).
    + rewrite Fl1. rewrite (CstEntText.Run_pp _ _ _ (or_run _ _ _ _ _ _ _ O1)). destruct S1 as (_ & _ & ->).
      rewrite <- (CstEntText.Run_pp _ _ _ (or_run _ _ _ _ _ _ _ HO)). exact Hfl.
    + rewrite D1. exact Hld.
    + apply (Rooms_app_r _ _ _ _ _ _ _ _ _ _ _ _ HRes1 HR).
    + rewrite E2. exists c0', c', frs', (K1 ++ K2), (e1 ++ e2). split.
      { rewrite blen_app, N.add_assoc. reflexivity. }
      apply (Res_app _ _ _ _ _ _ _ _ _ _ _ _ _ _ _ _ _ _ HRes1 HRes2).
Qed.


(* ---- a token that is not character data closes the open run ---- *)
Lemma nattrs_flush acc : NT.nattrs_items (bdens (flush acc)) = O.
Proof. rewrite bdens_flush, bden_text. destruct (all_marks acc); reflexivity. Qed.

Lemma ns_costs_flush inh acc : NT.ns_costs inh (bdens (flush acc)) = O.
Proof. rewrite bdens_flush, bden_text. destruct (all_marks acc); reflexivity. Qed.

Lemma flush_res inh c0 c frs acc : OR inh c0 c frs -> SemI frs acc ->
  exists cr Kt,
    reset_after_text text c = Ok cr /\ c_after_text cr = [] /\ Stepn c0 (sh cr) Kt [] /\ CIn inh (sh cr) /\
    c_ld cr = c_ld c /\ c_tag_name cr = c_tag_name c /\ c_entity_floor cr = c_entity_floor c /\
    d_ns_tree (c_doc cr) = d_ns_tree (c_doc c0) /\
    (forall d, Forall2 (kmn d) Kt (NT.tag_list inh (c_parent_id c0) (len_N (d_nodes (c_doc c0))) (bdens (flush acc)))) /\
    c_entities cr = es /\ c_parent_prefixes cr = c_parent_prefixes c.
Proof.
  intros [A1 A2 A3 A4 A5 A6] [S1 S2].
  destruct (flush_run_n text D HD inh c0 c frs A1 A2 A3 A4 A5) as (cr & K & Er & Ar & St & Ir & L1 & L2 & L3 & Tr & HK).
  exists cr, K. repeat (split; [assumption|]).
  assert (Hent : c_entities cr = es /\ c_parent_prefixes cr = c_parent_prefixes c).
  { destruct (sn_keep _ _ _ _ (proj1 St)) as (_ & K3 & _). change (c_entities (sh cr)) with (c_entities cr) in K3.
    destruct St as (_ & _ & P2). change (c_parent_prefixes (sh cr)) with (c_parent_prefixes cr) in P2.
    rewrite K3, P2. rewrite <- (CstEntText.Run_entities _ _ _ A5), (CstEntText.Run_pp _ _ _ A5). auto. }
  split; [|exact Hent]. intros d. rewrite bdens_flush, bden_text. destruct frs as [|t0 rest].
  - subst K. rewrite (proj1 S2 eq_refl). constructor.
  - destruct HK as (stg & -> & Hb). destruct (all_marks acc) eqn:Em; [discriminate (proj2 S2 eq_refl)|].
    cbn [NT.tag_list NT.tag app]. constructor; [|constructor]. split; [reflexivity|]. cbn [snd]. rewrite Hb. exact S1.
Qed.

Lemma Res_item inh c0 c frs acc cr Kt i' c' Kx ex ld' :
  OR inh c0 c frs ->
  Stepn c0 (sh cr) Kt [] -> c_ld cr = c_ld c -> c_entity_floor cr = c_entity_floor c -> c_tag_name cr = c_tag_name c ->
  d_ns_tree (c_doc cr) = d_ns_tree (c_doc c0) ->
  (forall d, Forall2 (kmn d) Kt (NT.tag_list inh (c_parent_id c0) (len_N (d_nodes (c_doc c0))) (bdens (flush acc)))) ->
  Stepn (sh cr) (sh c') Kx ex -> CIn inh (sh c') -> c_after_text c' = [] ->
  Forall2 (kmn (c_doc c')) Kx (NT.tag_list inh (c_parent_id cr) (len_N (d_nodes (c_doc cr))) (bden i')) ->
  length ex = NT.nattrs_items (bden i') -> is_btext i' = false ->
  len_N (d_ns_tree (c_doc c')) = len_N (d_ns_tree (c_doc cr)) + N.of_nat (NT.ns_costs inh (bden i')) ->
  c_ld c' = ld' -> ld_depth ld' = ld_depth (c_ld cr) -> c_entity_floor c' = c_entity_floor cr -> (tn_set cr -> tn_set c') ->
  Res inh c0 c acc [i'] ld' (sh c') c' [] (Kt ++ Kx) ex.
Proof.
  intros HO St L1 L3 L2 Tr0 HKt Sx Ix Ax Fx Lx Hnt Nx D1 D2 Fl Tn.
  unfold CstFullS9Text.Res. rewrite walk_nontext by exact Hnt. cbn [walk fst snd].
  split; [apply (Stepn_trans _ _ _ _ _ _ _ St Sx)|]. split.
  { constructor; try assumption; try reflexivity.
    - apply CstEntText.same_frame_sym. apply sh_frame.
    - destruct (sn_keep _ _ _ _ (proj1 Sx)) as (_ & K3 & _). destruct (sn_keep _ _ _ _ (proj1 St)) as (_ & K3' & _).
      change (c_entities (sh c')) with (c_entities c') in K3. change (c_entities (sh cr)) with (c_entities cr) in K3, K3'.
      rewrite K3, K3'. rewrite <- (CstEntText.Run_entities _ _ _ (or_run _ _ _ _ _ _ _ HO)). apply (or_es _ _ _ _ _ _ _ HO). }
  split; [apply SemI_nil|].
  pose proof (Stepn_len _ _ _ _ St) as Ln. rewrite (F2_len D HD _ _ _ (HKt (c_doc c'))) in Ln. unfold len_N at 3 in Ln.
  rewrite NT.tag_list_len in Ln. change (d_nodes (c_doc (sh cr))) with (d_nodes (c_doc cr)) in Ln.
  change (c_doc (sh c')) with (c_doc c').
  split.
  { rewrite bdens_app, CstNsDoc.tag_list_app. apply Forall2_app; [apply HKt|]. cbn [CstFullTree.dens]. rewrite app_nil_r.
    destruct St as (_ & P1 & _). change (c_parent_id (sh cr)) with (c_parent_id cr) in P1. rewrite P1, Ln in Fx. exact Fx. }
  split; [rewrite bdens_app, nattrs_items_app, nattrs_flush; cbn [CstFullTree.dens]; rewrite app_nil_r; lia|].
  split; [rewrite bdens_app, ns_costs_app, ns_costs_flush; cbn [CstFullTree.dens]; rewrite app_nil_r, Nx, Tr0; lia|].
  split; [exact D1|]. split; [rewrite D2, L1; reflexivity|]. split; [congruence|].
  intros T. apply Tn. unfold tn_set in *. rewrite L2. exact T.
Qed.

(* room for the rows of one item after the open run *)
Lemma room_after inh c0 cr Kt acc X : Stepn c0 (sh cr) Kt [] ->
  (forall d, Forall2 (kmn d) Kt (NT.tag_list inh (c_parent_id c0) (len_N (d_nodes (c_doc c0))) (bdens (flush acc)))) ->
  node_room c0 (NT.nsizes (bdens (flush acc)) + X) -> node_room cr X.
Proof.
  intros St HKt NR.
  pose proof (Stepn_len _ _ _ _ St) as Ln. rewrite (F2_len D HD _ _ _ (HKt (c_doc c0))) in Ln. unfold len_N at 3 in Ln.
  rewrite NT.tag_list_len in Ln. change (d_nodes (c_doc (sh cr))) with (d_nodes (c_doc cr)) in Ln.
  pose proof (CstFullItems.Stepn_opt _ _ _ _ (proj1 St)) as Lo. change (c_opt (sh cr)) with (c_opt cr) in Lo.
  unfold node_room in *. rewrite Ln, Lo. lia.
Qed.

Lemma rooms_single inh c0 acc i cr Kt : is_btext i = false -> Rooms inh c0 acc [i] -> Stepn c0 (sh cr) Kt [] ->
  d_ns_tree (c_doc cr) = d_ns_tree (c_doc c0) ->
  (forall d, Forall2 (kmn d) Kt (NT.tag_list inh (c_parent_id c0) (len_N (d_nodes (c_doc c0))) (bdens (flush acc)))) ->
  node_room cr (NT.nsizes (bden i)) /\ attr_room cr (NT.nattrs_items (bden i)) /\ ns_room cr (NT.ns_costs inh (bden i)).
Proof.
  intros Hnt (NR & AR & SR) St Tr HKt. rewrite walk_single in NR, AR, SR by exact Hnt. cbn [fst snd flush all_marks forallb] in NR, AR, SR.
  rewrite app_nil_r, bdens_app, nsizes_app in NR. cbn [CstFullTree.dens] in NR. rewrite app_nil_r in NR.
  split; [apply (room_after inh c0 cr Kt acc _ St HKt); exact NR|].
  rewrite bdens_app, nattrs_items_app, nattrs_flush in AR. cbn [CstFullTree.dens] in AR. rewrite app_nil_r in AR.
  rewrite bdens_app, ns_costs_app, ns_costs_flush in SR. cbn [CstFullTree.dens] in SR. rewrite app_nil_r in SR.
  pose proof (CstFullItems.Stepn_attrs_len _ _ _ _ (proj1 St)) as La. change (len_N []) with 0 in La.
  change (d_attrs (c_doc (sh cr))) with (d_attrs (c_doc cr)) in La.
  split; [unfold attr_room in *; rewrite La; lia|]. unfold ns_room in *. rewrite Tr. exact SR.
Qed.

Lemma nsok_single inh acc i : is_btext i = false -> NsOk inh acc [i] ->
  ns_oks inh (bden i) = true /\ incl (NT.items_decls (bden i)) D.
Proof.
  intros Hnt [N1 N2]. rewrite walk_single in N1, N2 by exact Hnt. cbn [fst] in N1, N2.
  rewrite bdens_app, ns_oks_app in N1. rewrite bdens_app, items_decls_app in N2. cbn [CstFullTree.dens] in N1, N2. rewrite app_nil_r in N1, N2.
  apply andb_true_iff in N1. split; [apply N1|]. intros z Hz. apply N2. apply in_or_app. right. exact Hz.
Qed.

(* ------------------------------------------------------------------------------------------ *)
(* items                                                                                      *)
(* ------------------------------------------------------------------------------------------ *)
Definition ItemOK (i : uitem) : Prop :=
  forall inh m en tl p post c0 c frs acc lvl depth fuel its tr ld',
    wf_uitem9 m i = true -> WVs en tl p (r_item i ++ post) ->
    (is_text epieces i = true -> text_stop post) ->
    OR inh c0 c frs -> SemI frs acc -> (is_text epieces i = true -> bnd acc = true) ->
    m = (0 <? ld_depth (c_ld c)) -> N.of_nat lvl + ld_depth (c_ld c) = 12 -> ld_ok (c_ld c) ->
    c_entity_floor c <= len_N (c_parent_prefixes c) ->
    inline_item tb m i = Some (its, tr) -> ld_run (c_ld c) tr = Some ld' ->
    Pok acc its -> Rooms inh c0 acc its -> NsOk inh acc its ->
    exists c0' c' frs' K ext,
      parse_content_loop text context (evl lvl) (usteps i + fuel) depth (sst4 en tl p (r_item i ++ post)) c =
      parse_content_loop text context (evl lvl) fuel depth (sst4 en tl (p + blen (r_item i)) post) c' /\
      Res inh c0 c acc its ld' c0' c' frs' K ext.

Lemma uep_ok_of m p : uep_ok false p -> wf_uepiece9 60 true true m p = true -> is_ecdata p = false -> uep_ok m p.
Proof.
  destruct m; [|auto]. destruct p as [[bs|hex ds|e|bs]|n]; cbn [uep_ok wf_uepiece9 is_ecdata]; intros H Hw Hc; try discriminate; try exact H.
  all: destruct H as [H _]; split; [exact H|]; intros _; rewrite !andb_true_iff in Hw; apply Hw.
Qed.

Lemma esegs_wfm m ps : wf_uepieces9 60 true true m ps = true -> Forall (ueseg_wfm m) (esegs (enc_epieces ps)).
Proof.
  intros Hw. pose proof (esegs_wf_u ps (wf_uepieces_any m _ _ _ _ Hw)) as HF.
  pose proof (esegs_flat (enc_epieces ps)) as Hflat.
  apply Forall_forall. intros s Hs. rewrite Forall_forall in HF. split; [apply HF; exact Hs|].
  destruct s as [l|bs]; [|exact I]. apply Forall_forall. intros p Hp.
  assert (Hin : In p (enc_epieces ps)).
  { rewrite <- Hflat. apply in_flat_map. exists (ESS l). split; [exact Hs|exact Hp]. }
  unfold enc_epieces in Hin. apply in_map_iff in Hin. destruct Hin as (p0 & <- & Hin0).
  unfold wf_uepieces9 in Hw. apply andb_true_iff in Hw. destruct Hw as [Hw _]. rewrite forallb_forall in Hw. specialize (Hw p0 Hin0).
  destruct (HF _ Hs) as (_ & Hok & _). rewrite Forall_forall in Hok. specialize (Hok _ Hp).
  destruct m; [|exact Hok].
  destruct p0 as [[bs|hex ds|e|bs]|n]; cbn [enc_epiece enc_piece uep_ok wf_uepiece9] in *.
  - destruct Hok as [H _]. split; [exact H|]. intros _. reflexivity.
  - destruct Hok as [H _]. split; [exact H|]. intros _. rewrite !andb_true_iff in Hw. apply Hw.
  - destruct Hok as [H _]. split; [exact H|]. intros _. reflexivity.
  - destruct Hok as [H _]. contradiction.
  - exact Hok.
Qed.

Lemma ItemOK_text ps : ItemOK (IText ps).
Proof.
  intros inh m en tl p post c0 c frs acc lvl depth fuel its tr ld' Hwf HW Hstop HO HS Hb Hm Hlvl Hk Hfl Hin Hld HP HR HN.
  specialize (Hstop eq_refl). specialize (Hb eq_refl).
  cbn [wf_uitem9 r_item r_run epieces usteps inline_item] in *.
  apply andb_true_iff in Hwf. destruct Hwf as [Hne Hw].
  pose proof (esegs_wfm m ps Hw) as HF.
  rewrite <- (esegs_render (enc_epieces ps)) in HW |- *. rewrite <- (esegs_flat (enc_epieces ps)) in Hin.
  destruct (segs_c inh post en tl Hstop (esegs (enc_epieces ps)) (ESC []) p m c0 c frs acc lvl depth fuel its tr ld' HF)
    as (c0' & c' & frs' & K & ext & E' & HRes); try assumption.
  - apply ealt_sc. apply ealt_esegs.
  - destruct (esegs (enc_epieces ps)) as [|[l|bs] L]; try exact I. exact Hb.
  - exists c0', c', frs', K, ext. split; [exact E'|exact HRes].
Qed.

(* ---- comments and processing instructions ---- *)
Lemma ItemOK_comment bs : ItemOK (IComment bs).
Proof.
  intros inh m en tl p post c0 c frs acc lvl depth fuel its tr ld' Hwf HW _ HO HS _ Hm Hlvl Hk Hfl Hin Hld HP HR HN.
  cbn [inline_item] in Hin. injection Hin as <- <-. cbn [ld_run] in Hld. injection Hld as <-.
  assert (Hok : SL.comment_ok_u bs) by (exact (SL.wf_comment7_ok _ Hwf)).
  cbn [r_item Cst.r_item usteps Nat.add] in *. rewrite <- !app_assoc in HW |- *.
  rewrite (loop_comment text en tl) by (apply (SL.WV_W text _ _ HW)).
  rewrite (SL.lex_comment_u text en tl) by assumption.
  destruct (flush_res inh c0 c frs acc HO HS) as (cr & Kt & Er & Ar & St & Ir & L1 & L2 & L3 & Tr0 & HKt & _).
  rewrite (evl_reset text lvl (TComment (sl (p + 4) (p + 4 + blen (utf8s bs))) (p, p + 4 + blen (utf8s bs) + 3)) c cr I Er Ar).
  destruct (rooms_single inh c0 acc (@IComment bpieces bs) cr Kt eq_refl HR St Tr0 HKt) as (NR & _ & _).
  destruct (tok_comment_gn text D HD lvl inh (sl (p + 4) (p + 4 + blen (utf8s bs))) (p, p + 4 + blen (utf8s bs) + 3) cr Ir
              (CstFullItems.node_room_room _ _ NR ltac:(cbn; lia)))
    as (c' & E & S & I' & A & T & Dd & Fl & Tr).
  rewrite E. cbn [bind]. eexists (sh c'), c', [], _, []. split.
  { f_equal. f_equal. rewrite !blen_app. change (blen [60; 33; 45; 45]) with 4. change (blen [45; 45; 62]) with 3. lia. }
  apply (Res_item inh c0 c frs acc cr Kt (@IComment bpieces bs) c' _ [] (c_ld c) HO St L1 L3 L2 Tr0 HKt S I' A); try reflexivity; try congruence.
  - cbn [den NT.tag_list NT.tag app]. constructor; [|constructor]. split; [reflexivity|]. cbn [snd].
    pose proof (CstEntCLex.W_app text _ _ _ (SL.WV_W text _ _ HW)) as HW1. change (blen [60; 33; 45; 45]) with 4 in HW1.
    apply (CstEntCLex.W_slice text _ _ _ HW1).
  - cbn [den NT.ns_costs CstNs.ns_cost]. rewrite Tr. cbn. lia.
Qed.


Lemma ItemOK_pi t s0 v : ItemOK (IPI t s0 v).
Proof.
  intros inh m en tl p post c0 c frs acc lvl depth fuel its tr ld' Hwf HW _ HO HS _ Hm Hlvl Hk Hfl Hin Hld HP HR HN.
  cbn [inline_item] in Hin. injection Hin as <- <-. cbn [ld_run] in Hld. injection Hld as <-.
  assert (Hok : SL.pi_ok_u t s0 v) by (exact (SL.wf_pi7_ok _ _ _ Hwf)).
  cbn [r_item Cst.r_item usteps Nat.add] in *. rewrite <- !app_assoc in HW |- *.
  rewrite (loop_pi text en tl) by (apply (SL.WV_W text _ _ HW)).
  rewrite (SL.lex_pi_u text en tl) by assumption. cbv zeta.
  set (vs := match v with [] => None | _ :: _ => Some (sl (p + 2 + blen (utf8s t) + blen s0) (p + 2 + blen (utf8s t) + blen s0 + blen (utf8s v))) end).
  destruct (flush_res inh c0 c frs acc HO HS) as (cr & Kt & Er & Ar & St & Ir & L1 & L2 & L3 & Tr0 & HKt & _).
  rewrite (evl_reset text lvl (TPI (sl (p + 2) (p + 2 + blen (utf8s t))) vs (p, p + 2 + blen (utf8s t) + blen s0 + blen (utf8s v) + 2)) c cr I Er Ar).
  destruct (rooms_single inh c0 acc (@IPI bpieces t s0 v) cr Kt eq_refl HR St Tr0 HKt) as (NR & _ & _).
  destruct (tok_pi_gn text D HD lvl inh (sl (p + 2) (p + 2 + blen (utf8s t))) vs (p, p + 2 + blen (utf8s t) + blen s0 + blen (utf8s v) + 2) cr Ir
              (CstFullItems.node_room_room _ _ NR ltac:(cbn; lia)))
    as (c' & E & S & I' & A & T & Dd & Fl & Tr).
  rewrite E. cbn [bind]. eexists (sh c'), c', [], _, []. split.
  { f_equal. f_equal. rewrite !blen_app. change (blen [60; 63]) with 2. change (blen [63; 62]) with 2. lia. }
  apply (Res_item inh c0 c frs acc cr Kt (@IPI bpieces t s0 v) c' _ [] (c_ld c) HO St L1 L3 L2 Tr0 HKt S I' A); try reflexivity; try congruence.
  - cbn [den NT.tag_list NT.tag app]. constructor; [|constructor]. split; [reflexivity|]. cbn [snd].
    pose proof (CstEntCLex.W_app text _ _ _ (SL.WV_W text _ _ HW)) as HW1. change (blen [60; 63]) with 2 in HW1.
    split; [apply (CstEntCLex.W_slice text _ _ _ HW1)|].
    pose proof (CstEntCLex.W_app text _ _ _ HW1) as HW2. pose proof (CstEntCLex.W_app text _ _ _ HW2) as HW3.
    unfold vs. destruct v as [|x v]; [exact Logic.I|].
    assert (Hne : utf8s (x :: v) <> []).
    { rewrite utf8s_cons. pose proof (utf8_len x). destruct (utf8 x); [unfold blen in *; cbn in *; lia|discriminate]. }
    destruct (utf8s (x :: v)) as [|y0 yr] eqn:Ey; [congruence|]. rewrite <- Ey in *. apply (CstEntCLex.W_slice text _ _ _ HW3).
  - cbn [den NT.ns_costs CstNs.ns_cost]. rewrite Tr. cbn. lia.
Qed.


(* ---- the entries of a start tag: their values normalised where the tag stands, and at the top level ---- *)
Lemma balT_level : forall k0, CstEntRejSem.BalT (E.level decls3 k0).
Proof.
  induction k0 as [|k0 IH]; intros n v Hl; rewrite lookup_level in Hl; [discriminate|].
  destruct (first_decl decls3 n) as [d|]; [|discriminate]. apply (CstEntRejSem.bal_value (E.level decls3 k0) IH _ _ Hl).
Qed.

Lemma uentry_of4 m e : wf_uentry9 m e = true -> uentry_ok_s (x_entry epieces (r_val epieces) e).
Proof.
  unfold wf_uentry9. rewrite !andb_true_iff. intros [[H1 H2] H3].
  assert (Hv : uval_ok (CstNs.l_quote (e_layout epieces e)) (r_val epieces (e_value epieces e))).
  { apply uepieces_vbytes; [apply CstFullS5Items.layout_quote; exact H1|apply (wf_uepieces_any m); exact H2]. }
  destruct e as [l n v|l p v]; cbn [e_layout e_value x_entry] in *; unfold uentry_ok_s; cbn [CstNs.e_layout CstNs.e_value e_qname].
  - split; [exact H1|]. split; [apply CstFullItems.uq_of; exact H3|exact Hv].
  - split; [exact H1|]. split; [|exact Hv].
    destruct p as [|c x].
    + exists [], CstFullItems.xmlns_sc. split; [reflexivity|]. split; [left; reflexivity|vm_compute; reflexivity].
    + destruct (uname_ne _ H3) as (b0 & r & E). rewrite E. rewrite <- E.
      exists CstFullItems.xmlns_sc, (c :: x). split; [reflexivity|]. split; [right; vm_compute; reflexivity|exact H3].
Qed.

Lemma uentries_of4 m ens : forallb (wf_uentry9 m) ens = true -> Forall uentry_ok_s (map (x_entry epieces (r_val epieces)) ens).
Proof.
  induction ens as [|e ens IH]; intros H; [constructor|]. cbn [forallb] in H. apply andb_true_iff in H.
  destruct H as [H1 H2]. cbn [map]. constructor; [apply (uentry_of4 m); exact H1|apply IH; exact H2].
Qed.

Lemma r_entries_x4 (ens : list uentry) : flat_map r_entry ens = flat_map CstNs.r_entry (map (x_entry epieces (r_val epieces)) ens).
Proof. induction ens as [|e ens IH]; [reflexivity|]. cbn [flat_map map]. rewrite IH. reflexivity. Qed.

Lemma sentries_at more m : forall ens q ens' tr ld ld',
  WV q (flat_map r_entry ens ++ more) -> forallb (wf_uentry9 m) ens = true ->
  m = (0 <? ld_depth ld) -> ld_ok ld ->
  inline_entries tb m ens = Some (ens', tr) -> ld_run ld tr = Some ld' ->
  forallb (fun e => E.crlf_split_ok (e_value bpieces e)) ens' = true ->
  exists xs, raws xs = map (x_entry epieces (r_val epieces)) ens /\
             CstFullBuild.dens xs = map (x_entry bpieces T.value_sem) ens' /\
             sentries_ok text es q xs /\ norms text es q xs ld ld' /\ ld_depth ld' = ld_depth ld.
Proof.
  induction ens as [|e ens IH]; intros q ens' tr ld ld' HW Hwf Hm Hk Hin Hld Hpr.
  - cbn [inline_entries] in Hin. injection Hin as <- <-. cbn [ld_run] in Hld. injection Hld as <-.
    exists []. repeat split.
  - cbn [forallb] in Hwf. apply andb_true_iff in Hwf. destruct Hwf as [H1 H2].
    cbn [inline_entries] in Hin.
    destruct (inline_entry tb m e) as [[e' tre]|] eqn:Ee; [|discriminate]. cbn [E.obind fst snd] in Hin.
    destruct (inline_entries tb m ens) as [[er trr]|] eqn:Er; [|discriminate]. cbn [E.obind fst snd] in Hin. injection Hin as <- <-.
    cbn [forallb] in Hpr. apply andb_true_iff in Hpr. destruct Hpr as [Hp1 Hp2].
    rewrite ld_run_app in Hld. destruct (ld_run ld tre) as [ld1|] eqn:El1; [|discriminate].
    cbn [flat_map] in HW. rewrite <- app_assoc in HW.
    pose proof (uentry_valid_s _ (uentry_of4 m e H1)) as Hv. change (CstNs.r_entry (x_entry epieces (r_val epieces) e)) with (r_entry e) in Hv.
    assert (Hl : wf_layout_s (e_layout epieces e) = true /\
                 wf_uepieces9 (CstNs.l_quote (e_layout epieces e)) false false m (e_value epieces e) = true).
    { unfold wf_uentry9 in H1. rewrite !andb_true_iff in H1. tauto. }
    destruct Hl as [Hl Hvw]. pose proof (CstFullS5Items.layout_quote _ Hl) as Hq.
    set (re := x_entry epieces (r_val epieces) e).
    assert (Ere : CstNs.e_layout re = e_layout epieces e /\ CstNs.e_value re = r_val epieces (e_value epieces e)) by (destruct e; split; reflexivity).
    destruct Ere as [Ere1 Ere2].
    set (ps := e_value epieces e) in *. pose (quote := CstNs.l_quote (e_layout epieces e)).
    change (CstNs.l_quote (e_layout epieces e)) with quote in Hq, Hvw.
    (* the value stands between the quotes *)
    assert (HWv : WV (q + blen (CstNs.l_ws (CstNs.e_layout re)) + blen (CstNs.r_qname (e_qname re)) + blen (CstNs.l_ws1 (CstNs.e_layout re)) + 1
                      + blen (CstNs.l_ws2 (CstNs.e_layout re)) + 1)
                     (E.r_epieces (enc_epieces ps) ++ [quote] ++ (flat_map r_entry ens ++ more))).
    { destruct (uentry_parts_s _ (uentry_of4 m e H1)) as (_ & Hw & Hw1 & Hw2 & Hqq & _ & Hn). fold re in Hw, Hw1, Hw2, Hqq, Hn.
      rewrite Ere1 in Hw, Hw1, Hw2, Hqq.
      revert HW. change (r_entry e) with (CstNs.r_entry re). unfold CstNs.r_entry. cbv zeta.
      rewrite e_name_qname, Ere2, Ere1, <- !app_assoc. intros HW.
      pose proof (WV_lit _ _ _ _ HW (s_lit _ Hw)) as A1.
      pose proof (WV_app _ _ _ _ A1 (uq_valid _ Hn)) as A2.
      pose proof (WV_lit _ _ _ _ A2 (s_lit _ Hw1)) as A3.
      pose proof (WV_lit _ _ _ _ A3 (eq_refl : forallb (fun y => y <? 128) [61] = true)) as A4. change (blen [61]) with 1 in A4.
      pose proof (WV_lit _ _ _ _ A4 (s_lit _ Hw2)) as A5.
      assert (Hq1 : forallb (fun y => y <? 128) [quote] = true) by (cbn; destruct Hq as [Hq' | Hq']; rewrite Hq'; reflexivity).
      pose proof (WV_lit _ _ _ _ A5 Hq1) as A6. change (blen [quote]) with 1 in A6. exact A6. }
    (* the inlined value *)
    assert (Hval : exists Q, E.inline_ps (E.level decls3 k) true m (enc_epieces ps) = Some (Q, tre) /\ e_value bpieces e' = Q /\
                             x_entry bpieces T.value_sem e' = match e with
                               | EAttr l n _ => CstNs.EAttr l (x_qname n) (T.value_sem Q)
                               | EDecl l p _ => CstNs.EDecl l (utf8s p) (T.value_sem Q) end).
    { unfold inline_entry in Ee. fold ps in Ee. destruct e as [l n v|l p v]; cbn [e_value] in ps; subst ps;
        rewrite inline_ps_level in Ee;
        (destruct (E.inline_ps (E.level decls3 k) true m (enc_epieces v)) as [[Q trq]|]; [|discriminate]);
        cbn [E.obind fst snd] in Ee; injection Ee as <- <-; exists Q; repeat split. }
    destruct Hval as (Q & EQ & EQ' & Eden). rewrite EQ' in Hp1.
    pose proof Hvw as Hw0. unfold wf_uepieces9 in Hw0. apply andb_true_iff in Hw0. destruct Hw0 as [Hwp _].
    pose proof (no_cdata_of _ _ _ _ Hwp) as Hnc.
    destruct (uepieces_ok quote false false m ps ltac:(lia) Hvw Hnc) as (Hok & Hadj & _).
    assert (Hok0 : Forall (uep_ok false) (enc_epieces ps)).
    { destruct m; [|exact Hok]. revert Hok. apply Forall_impl. apply uep_weaken. }
    set (vq := q + blen (CstNs.l_ws (CstNs.e_layout re)) + blen (CstNs.r_qname (e_qname re)) + blen (CstNs.l_ws1 (CstNs.e_layout re)) + 1
               + blen (CstNs.l_ws2 (CstNs.e_layout re)) + 1) in *.
    set (stor := if needs_norm (E.r_epieces (enc_epieces ps)) then Owned (T.value_sem Q)
                 else Borrowed (SIn (sl vq (vq + blen (E.r_epieces (enc_epieces ps)))))).
    assert (Hbal : CstEntRejSem.Bal tre) by (apply (CstEntRejSem.bal_ps _ (balT_level k) _ _ _ _ _ EQ)).
    assert (EQ0 : E.inline_ps (E.level decls3 k) true false (enc_epieces ps) = Some (Q, tre)).
    { destruct m; [apply inline_ps_out; exact EQ|exact EQ]. }
    pose proof (ld_run_top tre ld ld1 Hbal El1 Hk) as Htop.
    assert (Hdep : ld_depth ld1 = ld_depth ld).
    { pose proof El1 as X. rewrite (mk_eta ld) in X.
      destruct (ld_run_lower tre Hbal (ld_depth ld) (ld_references ld) (ld_depth ld) (ld_references ld) ld1 X ltac:(lia) ltac:(lia) Hk) as (_ & _ & _ & Y & _).
      exact Y. }
    destruct (IH (q + blen (r_entry e)) er trr ld1 ld' (WV_app _ _ _ _ HW Hv) H2) as (xs & E1 & E2 & E3 & E4 & E5); try assumption; try reflexivity.
    { rewrite Hdep. exact Hm. }
    { apply (ld_ok_run _ _ _ El1 Hk). }
    exists ({| s_raw := re; s_den := x_entry bpieces T.value_sem e'; s_stor := stor |} :: xs).
    cbn [raws CstFullBuild.dens map s_raw s_den]. fold (raws xs). fold (CstFullBuild.dens xs). rewrite E1, E2.
    split; [reflexivity|]. split; [reflexivity|].
    assert (Evsl : vsl q re = sl vq (vq + blen (E.r_epieces (enc_epieces ps)))).
    { unfold vsl. cbv zeta. rewrite Ere2. reflexivity. }
    split; [|split].
    + cbn [sentries_ok s_raw]. split; [|exact E3].
      split; [rewrite Eden; destruct e; reflexivity|]. cbn [s_raw s_den s_stor]. split.
      * rewrite Evsl. intros c [Hes Hc].
        destruct (normalize_attribute_gu text D HD decls3 es Henv Hdecls vq (enc_epieces ps) quote _ c k Q tre ld_init false HWv Hok0 Hadj) as [En _];
          try assumption; try (rewrite Hc; assumption); try (rewrite Hc; reflexivity).
        fold stor in En. rewrite En. rewrite <- Hc. f_equal. f_equal. destruct c. reflexivity.
      * rewrite Eden. unfold stor. destruct (needs_norm (E.r_epieces (enc_epieces ps))) eqn:En.
        { destruct e; reflexivity. }
        cbn [storage_bytes str_bytes]. rewrite (CstLex.W_slice _ _ _ _ (WV_W _ _ _ HWv)).
        assert (Evs : E.r_epieces (enc_epieces ps) = T.value_sem Q).
        { symmetry. unfold T.value_sem. unfold needs_norm in En.
          assert (H38 : existsb (fun x => x =? 38) (E.r_epieces (enc_epieces ps)) = false).
          { clear - En. induction (E.r_epieces (enc_epieces ps)) as [|x l IHl]; [reflexivity|]. cbn [existsb] in *. apply orb_false_iff in En.
            destruct En as [X1 X2]. rewrite (IHl X2). lia. }
          assert (Hnc' : forallb (fun p0 => negb (is_ecdata p0)) (enc_epieces ps) = true).
          { clear - Hnc. unfold enc_epieces. rewrite forallb_forall in *. intros p0 Hp. apply in_map_iff in Hp. destruct Hp as (p1 & <- & Hp1).
            rewrite enc_is_ecdata. apply Hnc. exact Hp1. }
          pose proof (CstEntBuild.inline_plain _ true false _ Q tre H38 Hnc' EQ0) as Ech. unfold chunks in Ech. rewrite Ech.
          apply norm_attr_lits_plain.
          clear - En. induction (E.r_epieces (enc_epieces ps)) as [|x l IHl]; [reflexivity|]. cbn [existsb] in *. apply orb_false_iff in En.
          destruct En as [X1 X2]. rewrite (IHl X2). lia. }
        rewrite Evs. destruct e; reflexivity.
    + cbn [norms s_raw s_stor]. exists ld1. split; [|exact E4].
      rewrite Evsl. intros c Hes Hc.
      destruct (normalize_attribute_gu text D HD decls3 es Henv Hdecls vq (enc_epieces ps) quote _ c k Q tre ld1 m HWv Hok Hadj) as [En _];
        try assumption; try (rewrite Hc; assumption).
    + rewrite E5. exact Hdep.
Qed.


(* ---- elements ---- *)
Lemma evs_reset lvl tok r c cr : resets tok -> reset_after_text text c = Ok cr -> c_after_text cr = [] ->
  evs context (evl lvl) (tok :: r) c = evs context (evl lvl) (tok :: r) cr.
Proof. intros Ht E A. cbn [evs]. rewrite (evl_reset text lvl tok c cr Ht E A). reflexivity. Qed.

Notation bd := (map (x_entry bpieces T.value_sem)).

(* what the namespace rules say of a start tag *)
Lemma elem_ns inh name (ens' : list bentry) ws body :
  ns_oks inh (bden (@IElem bpieces name ens' ws body)) = true ->
  let sc := NT.esc (bd ens') inh in
  Scope.bytes_eqb (CstNs.q_prefix (x_qname name)) CstNs.xmlns_b = false /\
  forallb ns_entry_ok (bd ens') = true /\
  Scope.prefixes_unique (CstNs.own_bindings (bd ens')) = true /\
  CstNs.is_bound (Scope.resolve_elem sc (CstNs.q_prefix (x_qname name))) = true /\
  forallb (fun e => match e with
                    | CstNs.EAttr _ n _ => CstNs.is_bound (Scope.resolve_attr sc (CstNs.q_prefix n))
                    | CstNs.EDecl _ _ _ => true end) (bd ens') = true /\
  CstNs.enames_distinct (map (fun a => (fst (fst a), snd (fst a))) (CstNs.sem_attrs sc (bd ens'))) = true /\
  match body with None => True | Some (cs, _) => ns_oks sc (bdens cs) = true end.
Proof.
  rewrite den_elem. cbn [CstFullTree.ns_oks]. rewrite andb_true_r, ns_ok_elem. cbv zeta.
  rewrite !andb_true_iff. intros [[[[[[N1 N2] N3] N4] N5] N6] N7].
  split; [apply negb_true_iff; exact N1|]. repeat (split; [assumption|]).
  destruct body as [[cs ws2]|]; [exact N7|exact I].
Qed.

Lemma wf_elem_parts4 m name ens ws body : wf_uitem9 m (IElem name ens ws body) = true ->
  wf_qname name = true /\ forallb (wf_uentry9 m) ens = true /\ wf_s ws = true /\
  match body with
  | None => True
  | Some (cs, ws2) => wf_s ws2 = true /\ no_adjacent_text epieces cs = true /\ forallb (wf_uitem9 m) cs = true
  end.
Proof.
  rewrite wf_uitem_elem, !andb_true_iff. intros [[[H1 H2] H3] H4].
  repeat split; try assumption. destruct body as [[cs ws2]|]; [|exact Logic.I].
  rewrite !andb_true_iff in H4. rewrite wf_uitems_forallb. tauto.
Qed.

Lemma prov_elem name (ens' : list bentry) ws body :
  provisos_item (@IElem bpieces name ens' ws body) =
  forallb (fun e => E.crlf_split_ok (e_value bpieces e)) ens' &&
  match body with None => true | Some (cs, _) => forallb provisos_item cs end.
Proof.
  destruct body as [[cs ws2]|]; reflexivity.
Qed.

Lemma inline_entries_len m : forall ens ens' tr, inline_entries tb m ens = Some (ens', tr) -> length ens' = length ens.
Proof.
  induction ens as [|e r IH]; intros ens' tr H; cbn [inline_entries] in H.
  - injection H as <- _. reflexivity.
  - destruct (inline_entry tb m e) as [[e' t1]|]; [|discriminate]. cbn [E.obind fst snd] in H.
    destruct (inline_entries tb m r) as [[r' t2]|] eqn:Er; [|discriminate]. cbn [E.obind fst snd] in H. injection H as <- _.
    cbn [length]. rewrite (IH _ _ eq_refl). reflexivity.
Qed.

Lemma own_cost_eq own sc : own_cost own sc = N.of_nat (match own with [] => 0 | _ => length sc end).
Proof. unfold own_cost. destruct own; unfold len_N; lia. Qed.

Lemma elem_empty_c inh name ens ws m en tl p post c0 c frs acc lvl its tr ld' :
  wf_uitem9 m (IElem name ens ws None) = true ->
  WVs en tl p (r_item (@IElem epieces name ens ws None) ++ post) ->
  OR inh c0 c frs -> SemI frs acc ->
  m = (0 <? ld_depth (c_ld c)) -> ld_ok (c_ld c) ->
  inline_item tb m (IElem name ens ws None) = Some (its, tr) -> ld_run (c_ld c) tr = Some ld' ->
  Pok acc its -> Rooms inh c0 acc its -> NsOk inh acc its ->
  exists c0' c' frs' K ext,
    parse_element text context (evl lvl) (sst4 en tl p (r_item (@IElem epieces name ens ws None) ++ post)) c =
    Ok (false, sst4 en tl (p + blen (r_item (@IElem epieces name ens ws None))) post, c') /\
    Res inh c0 c acc its ld' c0' c' frs' K ext.
Proof.
  intros Hwf HW HO HS Hm Hk Hin Hld HP HR HN.
  destruct (wf_elem_parts4 _ _ _ _ _ Hwf) as (Hn & Ha & Hw & _). clear Hwf.
  rewrite inline_item_elem in Hin. destruct (inline_entries tb m ens) as [[ens' tra]|] eqn:Eat; [|discriminate].
  cbn [E.obind fst snd] in Hin. injection Hin as <- <-.
  set (el := @IElem bpieces name ens' ws None) in *.
  assert (Hprov : forallb (fun e => E.crlf_split_ok (e_value bpieces e)) ens' = true).
  { destruct HP as [X _]. rewrite walk_single in X by reflexivity. cbn [fst] in X. rewrite forallb_app in X.
    apply andb_true_iff in X. destruct X as [_ X]. cbn [forallb] in X. unfold el in X. rewrite prov_elem, !andb_true_r in X. exact X. }
  destruct (nsok_single inh acc el eq_refl HN) as [Hns HinD].
  destruct (elem_ns inh name ens' ws None Hns) as (N1 & Nent & N6 & N2e & N2a & N7 & _).
  unfold el in HinD. rewrite den_elem in HinD. cbn [NT.items_decls] in HinD. rewrite NT.item_decls_elem, !app_nil_r in HinD.
  rewrite r_uitem_elem in *. rewrite <- !app_assoc in HW |- *.
  change ([47; 62] ++ post) with (tag_tail true ++ post) in *.
  unfold r_qname in HW |- *. rewrite r_entries_x4 in HW |- *.
  rewrite (SL.lex_element_full text en tl context (evl lvl) p (x_qname name) _ ws true post c HW (CstFullItems.uq_of _ Hn))
    by (try exact Hw; apply (uentries_of4 m); exact Ha).
  cbv zeta.
  destruct (flush_res inh c0 c frs acc HO HS) as (cr & Kt & Er & Ar & St & Ir & L1 & L2 & L3 & Tr0 & HKt & Ees & Epp).
  unfold start_toks_ns.
  match goal with |- context [evs context (evl lvl) (?tk :: ?r) c] => rewrite (evs_reset lvl tk r c cr I Er Ar) end.
  destruct (rooms_single inh c0 acc el cr Kt eq_refl HR St Tr0 HKt) as (NR & AR & SR).
  unfold el in NR, AR, SR. rewrite den_elem in NR, AR, SR.
  cbn [NT.nattrs_items NT.ns_costs] in AR, SR. rewrite NT.nattrs_elem, !Nat.add_0_r in AR. rewrite NT.ns_cost_elem, !Nat.add_0_r in SR.
  pose proof (WVs_full _ _ _ _ HW) as HWf. rewrite <- !app_assoc in HWf.
  pose proof (WV_lit _ _ _ _ HWf (eq_refl : forallb (fun y => y <? 128) [60] = true)) as HW1. change (blen [60]) with 1 in HW1.
  pose proof (WV_app _ _ _ _ HW1 (uq_valid _ (CstFullItems.uq_of _ Hn))) as HW2.
  rewrite <- r_entries_x4 in HW2.
  destruct (sentries_at _ m ens _ ens' tra (c_ld cr) ld' HW2 Ha ltac:(rewrite L1; exact Hm) ltac:(rewrite L1; exact Hk) Eat ltac:(rewrite L1; exact Hld) Hprov)
    as (xs & Ex1 & Ex2 & Hok & Hnorms & Hdep).
  rewrite <- Ex1 in HWf |- *.
  destruct (start_tag_gn text D HD es lvl inh p (x_qname name) xs ws true (post ++ tl) cr ld' (WV_W _ _ _ HWf)
              (CstFullItems.uq_local_ne _ Hn) N1 Hok Hnorms)
    as (c' & kind & ext & E & S0 & Lx & Hkm & A & Tt & Lns & D1 & Fl & I' & P1 & P2); try (rewrite Ex2; assumption); try assumption.
  { apply (CstFullItems.node_room_room _ _ NR). cbn. lia. }
  { rewrite Ex2, NT.sem_attrs_len. unfold attr_room in AR. exact AR. }
  { rewrite Ex2, own_cost_eq. unfold ns_room in SR. fold (NT.esc (bd ens') inh). exact SR. }
  rewrite Ex2 in *. cbv zeta in E. apply bind_ok in E. destruct E as (c1 & E1 & E2).
  unfold start_toks_ns in E1. rewrite E1. cbn [bind]. rewrite E2. cbn [bind negb].
  eexists (sh c'), c', [], _, _. split.
  { replace (p + blen ([60] ++ CstNs.r_qname (x_qname name) ++ flat_map CstNs.r_entry (raws xs) ++ ws ++ [47; 62]))
      with (p + 1 + blen (CstNs.r_qname (x_qname name)) + blen (flat_map CstNs.r_entry (raws xs)) + blen ws + blen (tag_tail true)); [reflexivity|].
    rewrite !blen_app. change (blen [60]) with 1. change (blen (tag_tail true)) with 2. change (blen [47; 62]) with 2. lia. }
  apply (Res_item inh c0 c frs acc cr Kt el c' [(Some (c_parent_id cr), kind)] ext ld' HO St L1 L3 L2 Tr0 HKt); try assumption; try reflexivity.
  - split; [exact S0|]. split; assumption.
  - unfold el. rewrite den_elem. cbn [NT.tag_list NT.tag app]. constructor; [|constructor]. apply Hkm.
  - unfold el. rewrite den_elem. cbn [NT.nattrs_items]. rewrite NT.nattrs_elem, !Nat.add_0_r, Lx, NT.sem_attrs_len. reflexivity.
  - unfold el. rewrite den_elem. cbn [NT.ns_costs]. rewrite NT.ns_cost_elem, !Nat.add_0_r, Lns, own_cost_eq. reflexivity.
  - intros _. exact Tt.
Qed.

Lemma ItemOK_empty name ens ws : ItemOK (IElem name ens ws None).
Proof.
  intros inh m en tl p post c0 c frs acc lvl depth fuel its tr ld' Hwf HW _ HO HS _ Hm Hlvl Hk Hfl Hin Hld HP HR HN.
  destruct (elem_empty_c inh name ens ws m en tl p post c0 c frs acc lvl its tr ld' Hwf HW HO HS Hm Hk Hin Hld HP HR HN)
    as (c0' & c' & frs' & K & ext & E & HRes).
  destruct (wf_elem_parts4 _ _ _ _ _ Hwf) as (Hn & _).
  exists c0', c', frs', K, ext. split; [|exact HRes].
  cbn [usteps Nat.add]. rewrite r_uitem_elem in HW, E |- *. rewrite <- !app_assoc in HW, E |- *.
  unfold r_qname in HW, E |- *.
  rewrite (SL.loop_elem_q text en tl) by (try apply (SL.WV_W text _ _ HW); apply CstFullItems.uq_of; exact Hn).
  rewrite E. reflexivity.
Qed.



Lemma uentries_valid4 m ens : forallb (wf_uentry9 m) ens = true -> U8.Valid (flat_map r_entry ens).
Proof.
  induction ens as [|e r IH]; intros Ha; [constructor|]. cbn [forallb] in Ha. apply andb_true_iff in Ha. destruct Ha as [X1 X2].
  cbn [flat_map]. apply U8.Valid_app; [apply (uentry_valid_s _ (uentry_of4 m e X1))|apply IH; exact X2].
Qed.

Lemma uitem_valid m : forall i, wf_uitem9 m i = true -> U8.Valid (r_item i).
Proof.
  intros i. induction i as [n a w|n a w cs w2 IH|r|bs|t s0 v] using fitem_ind; intros Hwf.
  - destruct (wf_elem_parts4 _ _ _ _ _ Hwf) as (Hn & Ha & Hw & _). rewrite r_uitem_elem.
    repeat apply U8.Valid_app; try (apply Valid_lit; reflexivity).
    + apply (uq_valid _ (CstFullItems.uq_of _ Hn)).
    + apply (uentries_valid4 m); exact Ha.
    + apply Valid_lit, s_lit; exact Hw.
  - destruct (wf_elem_parts4 _ _ _ _ _ Hwf) as (Hn & Ha & Hw & Hw2 & _ & Hcs). rewrite r_uitem_elem.
    repeat apply U8.Valid_app; try (apply Valid_lit; reflexivity).
    + apply (uq_valid _ (CstFullItems.uq_of _ Hn)).
    + apply (uentries_valid4 m); exact Ha.
    + apply Valid_lit, s_lit; exact Hw.
    + clear - IH Hcs. induction IH as [|c r Hc _ IHr]; [constructor|].
      cbn [forallb] in Hcs. apply andb_true_iff in Hcs. destruct Hcs as [H1 H2].
      cbn [r_uitems flat_map]. apply U8.Valid_app; [apply Hc; exact H1|apply IHr; exact H2].
    + apply (uq_valid _ (CstFullItems.uq_of _ Hn)).
    + apply Valid_lit, s_lit; exact Hw2.
  - cbn [wf_uitem9] in Hwf. apply andb_true_iff in Hwf. destruct Hwf as [_ Hw].
    cbn [r_item r_run epieces]. rewrite <- (esegs_render (enc_epieces r)).
    apply esegs_valid. apply esegs_wf_u. apply (wf_uepieces_any m). exact Hw.
  - apply SL.comment7_valid. exact Hwf.
  - apply SL.pi7_valid. exact Hwf.
Qed.

Lemma uitems_valid m cs : forallb (wf_uitem9 m) cs = true -> U8.Valid (r_uitems cs).
Proof.
  induction cs as [|c r IH]; intros H; [constructor|]. cbn [forallb] in H. apply andb_true_iff in H. destruct H as [H1 H2].
  cbn [r_uitems flat_map]. apply U8.Valid_app; [apply (uitem_valid m); exact H1|apply IH; exact H2].
Qed.

Lemma nattrs_walk itsc : NT.nattrs_items (bdens (regroup itsc)) = NT.nattrs_items (bdens (fst (walk [] itsc))).
Proof. rewrite bdens_regroup, bdens_app, nattrs_items_app, nattrs_flush. lia. Qed.

Lemma ns_costs_walk sc itsc : NT.ns_costs sc (bdens (regroup itsc)) = NT.ns_costs sc (bdens (fst (walk [] itsc))).
Proof. rewrite bdens_regroup, bdens_app, ns_costs_app, ns_costs_flush. lia. Qed.

Lemma elem_open_c name ens ws cs ws2 : ItemsOK text D es tb cs ->
  forall inh m en tl p post c0 c frs acc lvl d fuel its tr ld',
  wf_uitem9 m (IElem name ens ws (Some (cs, ws2))) = true ->
  WVs en tl p (r_item (@IElem epieces name ens ws (Some (cs, ws2))) ++ post) ->
  OR inh c0 c frs -> SemI frs acc ->
  m = (0 <? ld_depth (c_ld c)) -> N.of_nat lvl + ld_depth (c_ld c) = 12 -> ld_ok (c_ld c) ->
  c_entity_floor c <= len_N (c_parent_prefixes c) ->
  inline_item tb m (IElem name ens ws (Some (cs, ws2))) = Some (its, tr) -> ld_run (c_ld c) tr = Some ld' ->
  Pok acc its -> Rooms inh c0 acc its -> NsOk inh acc its ->
  let q := p + 1 + blen (r_qname name) + blen (flat_map r_entry ens) + blen ws + 1 in
  let post2 := [60; 47] ++ r_qname name ++ ws2 ++ [62] ++ post in
  let pe := p + blen (r_item (@IElem epieces name ens ws (Some (cs, ws2)))) in
  exists c1 c0' c' frs' K ext,
    parse_element text context (evl lvl) (sst4 en tl p (r_item (@IElem epieces name ens ws (Some (cs, ws2))) ++ post)) c =
      Ok (true, sst4 en tl q (r_uitems cs ++ post2), c1) /\
    parse_content_loop text context (evl lvl) (usteps_list cs + S fuel) d (sst4 en tl q (r_uitems cs ++ post2)) c1 =
      (if d =? 0 then Ok (sst4 en tl pe post, c')
       else parse_content_loop text context (evl lvl) fuel (d - 1) (sst4 en tl pe post) c') /\
    Res inh c0 c acc its ld' c0' c' frs' K ext.
Proof.
  intros HL inh m en tl p post c0 c frs acc lvl d fuel its tr ld' Hwf HW HO HS Hm Hlvl Hk Hfl Hin Hld HP HR HN q0 post20 pe.
  assert (Epe : pe = p + 1 + blen (r_qname name) + blen (flat_map r_entry ens) + blen ws + 1 + blen (r_uitems cs) + 2 + blen (r_qname name) + blen ws2 + 1).
  { unfold pe. rewrite r_uitem_elem, !blen_app. change (blen [60]) with 1. change (blen [60; 47]) with 2. change (blen [62]) with 1. lia. }
  clearbody pe. subst q0 post20.
  destruct (wf_elem_parts4 _ _ _ _ _ Hwf) as (Hn & Ha & Hw & Hw2 & Hna & Hcs). clear Hwf.
  rewrite inline_item_elem in Hin. destruct (inline_entries tb m ens) as [[ens' tra]|] eqn:Eat; [|discriminate].
  cbn [E.obind fst snd] in Hin. destruct (inline_items tb m cs) as [[itsc trc]|] eqn:Ecs; [|discriminate].
  cbn [E.obind fst snd] in Hin. injection Hin as <- <-.
  set (el := @IElem bpieces name ens' ws (Some (regroup itsc, ws2))) in *.
  assert (Hprov : forallb (fun e => E.crlf_split_ok (e_value bpieces e)) ens' = true /\ forallb provisos_item (regroup itsc) = true).
  { destruct HP as [X _]. rewrite walk_single in X by reflexivity. cbn [fst] in X. rewrite forallb_app in X.
    apply andb_true_iff in X. destruct X as [_ X]. cbn [forallb] in X. unfold el in X. rewrite prov_elem, andb_true_r in X.
    apply andb_true_iff in X. exact X. }
  destruct Hprov as [Hpa Hpc]. destruct (provisos_walk itsc Hpc) as [Pc1 Pc2].
  set (outc := fst (walk [] itsc)) in *. set (accc := snd (walk [] itsc)) in *.
  destruct (nsok_single inh acc el eq_refl HN) as [Hns HinD].
  destruct (elem_ns inh name ens' ws _ Hns) as (N1 & Nent & N6 & N2e & N2a & N7 & Nch).
  set (des := bd ens') in *. set (sc := NT.esc des inh) in *.
  unfold el in HinD. rewrite den_elem in HinD. cbn [NT.items_decls] in HinD. rewrite NT.item_decls_elem, app_nil_r in HinD.
  change (@val_sem bpieces bmeaning) with T.value_sem in HinD. fold des in HinD.
  rewrite bdens_regroup in Nch. fold outc accc in Nch. rewrite bdens_app, ns_oks_app in Nch. apply andb_true_iff in Nch. destruct Nch as [Nch _].
  rewrite ld_run_app in Hld. destruct (ld_run (c_ld c) tra) as [lda|] eqn:Ela; [|discriminate].
  rewrite r_uitem_elem in *. rewrite <- !app_assoc in HW |- *.
  set (post2 := [60; 47] ++ r_qname name ++ ws2 ++ [62] ++ post) in *.
  change ([62] ++ r_uitems cs ++ post2) with (tag_tail false ++ (r_uitems cs ++ post2)) in *.
  unfold r_qname at 1 in HW. unfold r_qname at 1. rewrite r_entries_x4 in HW |- *.
  rewrite (SL.lex_element_full text en tl context (evl lvl) p (x_qname name) _ ws false (r_uitems cs ++ post2) c HW (CstFullItems.uq_of _ Hn))
    by (try exact Hw; apply (uentries_of4 m); exact Ha).
  cbv zeta.
  destruct (flush_res inh c0 c frs acc HO HS) as (cr & Kt & Er & Ar & St & Ir & L1 & L2 & L3 & Tr0 & HKt & Ees & Epp).
  unfold start_toks_ns.
  match goal with |- context [evs context (evl lvl) (?tk :: ?r) c] => rewrite (evs_reset lvl tk r c cr I Er Ar) end.
  destruct (rooms_single inh c0 acc el cr Kt eq_refl HR St Tr0 HKt) as (NR & AR & SR).
  unfold el in NR, AR, SR. rewrite den_elem in NR, AR, SR. change (@val_sem bpieces bmeaning) with T.value_sem in NR, AR, SR. fold des in NR, AR, SR.
  rewrite nsizes_one, NT.nsize_elem in NR.
  cbn [NT.nattrs_items NT.ns_costs] in AR, SR. rewrite NT.nattrs_elem, Nat.add_0_r in AR. rewrite NT.ns_cost_elem, Nat.add_0_r in SR.
  fold sc in SR. rewrite nattrs_walk in AR. rewrite ns_costs_walk in SR. rewrite bdens_regroup in NR. fold outc accc in NR, AR, SR.
  pose proof (WVs_full _ _ _ _ HW) as HWf. rewrite <- !app_assoc in HWf.
  pose proof (WV_lit _ _ _ _ HWf (eq_refl : forallb (fun y => y <? 128) [60] = true)) as HW1. change (blen [60]) with 1 in HW1.
  pose proof (WV_app _ _ _ _ HW1 (uq_valid _ (CstFullItems.uq_of _ Hn))) as HW2.
  rewrite <- r_entries_x4 in HW2.
  destruct (sentries_at _ m ens _ ens' tra (c_ld cr) lda HW2 Ha ltac:(rewrite L1; exact Hm) ltac:(rewrite L1; exact Hk) Eat ltac:(rewrite L1; exact Ela) Hpa)
    as (xs & Ex1 & Ex2 & Hok & Hnorms & Hdep).
  fold des in Ex2. rewrite <- Ex1 in HWf, HW |- *.
  destruct (start_tag_gn text D HD es lvl inh p (x_qname name) xs ws false (r_uitems cs ++ post2 ++ tl) cr lda (WV_W _ _ _ HWf)
              (CstFullItems.uq_local_ne _ Hn) N1 Hok Hnorms)
    as (c1 & kind & ext1 & E & S1 & Lx & Hkm & A1 & T1 & Lns1 & D1 & Fl1 & I1 & P1 & P2 & P3); try (rewrite Ex2; assumption); try assumption.
  { rewrite Ex2. intros z Hz. apply HinD. apply in_or_app. left. exact Hz. }
  { unfold node_room, room in *. clia. }
  { rewrite Ex2, NT.sem_attrs_len. unfold attr_room in AR. clia. }
  { rewrite Ex2, own_cost_eq. unfold ns_room in SR. change (Scope.scope_of (CstNs.own_bindings des) inh) with sc. destruct (CstNs.own_bindings des); clia. }
  rewrite Ex2 in *. fold sc in Lx, Hkm, Lns1, I1.
  cbv zeta in E. apply bind_ok in E. destruct E as (cx & E0 & E1).
  unfold start_toks_ns in E0. rewrite E0. cbn [bind]. rewrite E1. cbn [bind negb]. clear E0 E1 cx.
  exists c1.
  assert (Hlsl : exists tns lsl ar nss, kind = KElement tns lsl ar nss /\ slice_bytes text lsl = CstNs.q_local (x_qname name)).
  { destruct (Hkm O) as [_ Hk0]. cbn [snd] in Hk0.
    destruct kind as [|tns lsl ar nss| | |]; try contradiction.
    exists tns, lsl, ar, nss. split; [reflexivity|apply Hk0]. }
  destruct Hlsl as (tns & lsl & ar & nss & -> & Hlsl).
  set (row := (Some (c_parent_id cr), KElement tns lsl ar nss)) in *.
  (* the children *)
  set (q := p + 1 + blen (CstNs.r_qname (x_qname name)) + blen (flat_map CstNs.r_entry (raws xs)) + blen ws + blen (tag_tail false)) in *.
  assert (HW5 : WVs en tl q (r_uitems cs ++ post2)).
  { pose proof (SL.WV_lit text _ _ _ HW (eq_refl : forallb (fun y => y <? 128) [60] = true)) as B1. change (blen [60]) with 1 in B1.
    pose proof (SL.WV_app text _ _ _ B1 (uq_valid _ (CstFullItems.uq_of _ Hn))) as B2.
    assert (Hve : U8.Valid (flat_map CstNs.r_entry (raws xs))).
    { rewrite Ex1. clear - Ha. induction ens as [|e r IH]; [constructor|]. cbn [forallb] in Ha. apply andb_true_iff in Ha. destruct Ha as [X1 X2].
      cbn [map flat_map]. apply U8.Valid_app; [apply (uentry_valid_s _ (uentry_of4 m e X1))|apply IH; exact X2]. }
    pose proof (SL.WV_app text _ _ _ B2 Hve) as B3.
    pose proof (SL.WV_lit text _ _ _ B3 (s_lit _ Hw)) as B4.
    pose proof (SL.WV_lit text _ _ _ B4 (eq_refl : forallb (fun y => y <? 128) (tag_tail false) = true)) as B5. exact B5. }
  pose proof (Step0n_len _ _ _ _ S1) as Ln1. change (len_N [_]) with 1 in Ln1.
  change (d_nodes (c_doc (sh c1))) with (d_nodes (c_doc c1)) in Ln1. change (d_nodes (c_doc (sh cr))) with (d_nodes (c_doc cr)) in Ln1.
  pose proof (CstFullItems.Stepn_attrs_len _ _ _ _ S1) as La1. unfold len_N at 3 in La1. rewrite Lx, NT.sem_attrs_len in La1.
  change (d_attrs (c_doc (sh c1))) with (d_attrs (c_doc c1)) in La1. change (d_attrs (c_doc (sh cr))) with (d_attrs (c_doc cr)) in La1.
  pose proof (CstFullItems.Stepn_opt _ _ _ _ S1) as Lo1. change (c_opt (sh c1)) with (c_opt c1) in Lo1. change (c_opt (sh cr)) with (c_opt cr) in Lo1.
  destruct (sn_keep _ _ _ _ S1) as (_ & Kes & _).
  change (c_entities (sh c1)) with (c_entities c1) in Kes. change (c_entities (sh cr)) with (c_entities cr) in Kes.
  assert (HO1 : OR sc (sh c1) c1 []).
  { constructor; try assumption; try reflexivity; [apply CstEntText.same_frame_sym; apply sh_frame|congruence]. }
  destruct (HL sc m en tl q post2 (sh c1) c1 [] [] lvl d (S fuel) itsc trc ld' Hcs Hna HW5 ltac:(reflexivity) HO1 (SemI_nil text))
    as (c0b & cb & frsb & Kc & ec & Ec & HResc); try assumption.
  { destruct cs; [exact I|]. intros _. reflexivity. }
  { rewrite D1, Hdep, L1. exact Hm. }
  { rewrite D1, Hdep, L1. exact Hlvl. }
  { rewrite D1. apply (ld_ok_run _ _ _ Ela Hk). }
  { rewrite Fl1, L3, P2, len_N_app, Epp. change (len_N [_]) with 1. clia. }
  { rewrite D1. exact Hld. }
  { split; assumption. }
  { fold outc accc. split; [|split].
    - unfold node_room in *. change (d_nodes (c_doc (sh c1))) with (d_nodes (c_doc c1)). change (c_opt (sh c1)) with (c_opt c1).
      rewrite Ln1, Lo1. fold outc accc. clia.
    - unfold attr_room in *. change (d_attrs (c_doc (sh c1))) with (d_attrs (c_doc c1)). rewrite La1. fold outc. clia.
    - unfold ns_room in *. change (d_ns_tree (c_doc (sh c1))) with (d_ns_tree (c_doc c1)). rewrite Lns1, own_cost_eq. fold outc. change (Scope.scope_of (CstNs.own_bindings des) inh) with sc. destruct (CstNs.own_bindings des); clia. }
  { fold outc. split; [exact Nch|]. intros z Hz. apply HinD. apply in_or_app. right.
    rewrite bdens_regroup. fold outc accc. rewrite bdens_app, items_decls_app. apply in_or_app. left. exact Hz. }
  change (p + 1 + blen (r_qname name) + blen (flat_map CstNs.r_entry (raws xs)) + blen ws + 1) with q.
  rewrite Ec. clear Ec. fold outc accc in HResc.
  destruct HResc as (Sc & Ob & Mb & Fc & Lc & Ncb & Db & Db' & Flb & Tb).
  (* the end tag *)
  assert (Hvc : U8.Valid (r_uitems cs)).
  { apply (uitems_valid m). exact Hcs. }
  pose proof (SL.WV_app text _ _ _ HW5 Hvc) as HW6. set (e := q + blen (r_uitems cs)) in *.
  unfold post2 in HW6 |- *. rewrite (loop_close text en tl) by (apply (SL.WV_W text _ _ HW6)).
  unfold r_qname in HW6 |- *.
  rewrite (SL.lex_close_full text en tl context (evl lvl) e (x_qname name) ws2 post cb HW6 (CstFullItems.uq_of _ Hn) Hw2). cbv zeta.
  destruct (flush_res sc c0b cb frsb accc Ob Mb) as (cr2 & Kt2 & Er2 & Ar2 & St2 & Ir2 & M1 & M2 & M3 & Tr2 & HKt2 & Ees2 & Epp2).
  match goal with |- context [evl lvl ?tk cb] => rewrite (evl_reset text lvl tk cb cr2 I Er2 Ar2) end.
  (* the contexts in between *)
  destruct Sc as (Sc & Pidc & Ppc). destruct St2 as (St2 & Pid2 & Pp2).
  change (c_parent_id (sh c1)) with (c_parent_id c1) in Pidc. change (c_parent_prefixes (sh c1)) with (c_parent_prefixes c1) in Ppc.
  change (c_parent_id (sh cr2)) with (c_parent_id cr2) in Pid2. change (c_parent_prefixes (sh cr2)) with (c_parent_prefixes cr2) in Pp2.
  pose proof (cn_pid _ _ _ _ Ir : c_parent_id cr < len_N (d_nodes (c_doc cr))) as Hpidr.
  pose proof (Step0n_len _ _ _ _ Sc) as Lnc. change (d_nodes (c_doc (sh c1))) with (d_nodes (c_doc c1)) in Lnc.
  pose proof (Step0n_len _ _ _ _ St2) as Ln2. change (d_nodes (c_doc (sh cr2))) with (d_nodes (c_doc cr2)) in Ln2.
  pose proof (CstLex.W_app _ _ _ _ (WV_W _ _ _ HWf)) as HWq1. change (blen [60]) with 1 in HWq1.
  destruct (qname_slices text D HD _ _ _ HWq1) as [Sp1 Sl1].
  pose proof (WVs_full _ _ _ _ HW6) as HW6f. rewrite <- !app_assoc in HW6f.
  pose proof (CstLex.W_app _ _ _ _ (WV_W _ _ _ HW6f)) as HW7. change (blen [60; 47]) with 2 in HW7.
  destruct (qname_slices text D HD _ _ _ HW7) as [Sp7 Sl7].
  destruct (cn_par _ _ _ _ Ir) as (par0 & k0 & Ep0 & Hk0).
  change (absn (c_doc (sh cr))) with (absn (c_doc cr)) in Ep0. change (c_parent_id (sh cr)) with (c_parent_id cr) in Ep0.
  change (c_doc (sh cr)) with (c_doc cr) in Hk0.
  assert (Habs2 : absn (c_doc cr2) = absn (c_doc cr) ++ row :: Kc ++ Kt2).
  { change (absn (c_doc cr2)) with (absn (c_doc (sh cr2))). rewrite (sn_nodes _ _ _ _ St2), (sn_nodes _ _ _ _ Sc).
    change (absn (c_doc (sh c1))) with (absn (c_doc c1)). change (absn (c_doc c1)) with (absn (c_doc (sh c1))). rewrite (sn_nodes _ _ _ _ S1).
    change (absn (c_doc (sh cr))) with (absn (c_doc cr)). rewrite <- !app_assoc. reflexivity. }
  destruct (close_tag_gn text D HD lvl inh sc (sl (e + 2) (e + 2 + blen (CstNs.q_prefix (x_qname name))))
              (sl (e + 2 + q_off (x_qname name)) (e + 2 + blen (CstNs.r_qname (x_qname name))))
              (e, e + 2 + blen (CstNs.r_qname (x_qname name)) + blen ws2 + 1) cr2 (c_parent_id cr) tns lsl ar nss (x_qname name)
              (c_parent_prefixes cr) (sl (p + 1) (p + 1 + blen (CstNs.q_prefix (x_qname name)))) Ir2)
    as (c3 & E3 & S3 & I3 & Pid3 & Pp3 & A3 & Tn3 & D3 & Fl3 & Tr3).
  { rewrite Pid2, Pidc, P1, Habs2.
    replace (N.to_nat (len_N (d_nodes (c_doc cr)))) with (length (absn (c_doc cr)))
      by (unfold absn, len_N; rewrite map_length; clia).
    rewrite nth_error_app2 by clia. rewrite Nat.sub_diag. reflexivity. }
  { exact Hlsl. }
  { exact Sl7. }
  { exact Sp7. }
  { rewrite Pp2, Ppc, P2. reflexivity. }
  { apply (cn_pp _ _ _ _ Ir). }
  { exact Sp1. }
  { unfold tn_set in *. rewrite M2. apply Tb. exact T1. }
  { rewrite M3, Flb, Fl1, L3, Epp. exact Hfl. }
  { rewrite Ln2, Lnc, Ln1. clia. }
  { exists par0, k0. split.
    - rewrite Habs2. rewrite nth_error_app1; [exact Ep0|]. rewrite <- absn_len in Hpidr. unfold len_N in Hpidr. clia.
    - apply (par_ok_ext text D HD (c_doc cr)); [|exact Hk0].
      eapply NsExt_trans; [apply (sn_ns _ _ _ _ S1)|]. eapply NsExt_trans; [apply (sn_ns _ _ _ _ Sc)|apply (sn_ns _ _ _ _ St2)]. }
  { apply (cn_uniq _ _ _ _ Ir). }
  rewrite E3. cbn [bind].
  eexists (sh c3), c3, [], (Kt ++ row :: Kc ++ Kt2), (ext1 ++ ec).
  assert (Epos : e + 2 + blen (CstNs.r_qname (x_qname name)) + blen ws2 + 1 = pe).
  { rewrite Epe. unfold e, q. change (blen (tag_tail false)) with 1. unfold r_qname. rewrite Ex1, <- r_entries_x4. clear. clia. }
  rewrite Epos. split; [reflexivity|]. split; [reflexivity|].
  pose proof (Step0n_trans _ _ _ _ _ _ _ (Step0n_trans _ _ _ _ _ _ _ (Step0n_trans _ _ _ _ _ _ _ S1 Sc) St2) S3) as S13.
  rewrite !app_nil_r in S13. cbn [app] in S13.
  assert (X13 : DocExt (c_doc c1) (c_doc c3)).
  { eapply DocExt_trans; [apply (Step0n_DocExt _ _ _ _ Sc)|]. eapply DocExt_trans; [apply (Step0n_DocExt _ _ _ _ St2)|apply (Step0n_DocExt _ _ _ _ S3)]. }
  assert (Xb3 : DocExt (c_doc c0b) (c_doc c3)).
  { eapply DocExt_trans; [apply (Step0n_DocExt _ _ _ _ St2)|apply (Step0n_DocExt _ _ _ _ S3)]. }
  apply (Res_item inh c0 c frs acc cr Kt el c3 (row :: Kc ++ Kt2) (ext1 ++ ec) ld' HO St L1 L3 L2 Tr0 HKt); try assumption; try reflexivity.
  - split; [exact S13|]. split; [exact Pid3|exact Pp3].
  - unfold el. rewrite den_elem. change (@val_sem bpieces bmeaning) with T.value_sem. fold des.
    cbn [NT.tag_list]. rewrite app_nil_r, NT.tag_elem. fold sc. rewrite bdens_regroup. fold outc accc.
    constructor.
    + apply (kmn_ext text D HD (c_doc c1)); [exact X13|]. apply Hkm.
    + rewrite bdens_app, CstNsDoc.tag_list_app. apply Forall2_app.
      * apply (kmn_F2_ext text D HD (c_doc c0b)); [exact Xb3|].
        change (c_parent_id (sh c1)) with (c_parent_id c1) in Fc. change (d_nodes (c_doc (sh c1))) with (d_nodes (c_doc c1)) in Fc.
        rewrite P1, Ln1 in Fc. exact Fc.
      * pose proof (HKt2 (c_doc c3)) as X. rewrite Pidc, P1 in X.
        rewrite (F2_len D HD _ _ _ Fc) in Lnc. unfold len_N at 3 in Lnc. rewrite NT.tag_list_len in Lnc.
        rewrite Lnc, Ln1 in X. exact X.
  - unfold el. rewrite den_elem. change (@val_sem bpieces bmeaning) with T.value_sem. fold des.
    cbn [NT.nattrs_items]. rewrite NT.nattrs_elem, Nat.add_0_r, app_length, Lx, NT.sem_attrs_len, Lc, nattrs_walk. reflexivity.
  - unfold el. rewrite den_elem. change (@val_sem bpieces bmeaning) with T.value_sem. fold des.
    cbn [NT.ns_costs]. rewrite NT.ns_cost_elem, Nat.add_0_r. fold sc. rewrite ns_costs_walk. fold outc.
    rewrite Tr3, Tr2, Ncb. change (d_ns_tree (c_doc (sh c1))) with (d_ns_tree (c_doc c1)). rewrite Lns1, own_cost_eq.
    change (Scope.scope_of (CstNs.own_bindings des) inh) with sc. fold outc. destruct (CstNs.own_bindings des); clia.
  - rewrite D3, M1. exact Db.
  - rewrite Db', D1, Hdep. reflexivity.
  - rewrite Fl3, M3, Flb. exact Fl1.
  - intros _. unfold tn_set in *. rewrite Tn3, M2. apply Tb. exact T1.
Qed.


Lemma ItemOK_open name ens ws cs ws2 : ItemsOK text D es tb cs -> ItemOK (IElem name ens ws (Some (cs, ws2))).
Proof.
  intros HL inh m en tl p post c0 c frs acc lvl depth fuel its tr ld' Hwf HW _ HO HS _ Hm Hlvl Hk Hfl Hin Hld HP HR HN.
  destruct (elem_open_c name ens ws cs ws2 HL inh m en tl p post c0 c frs acc lvl (depth + 1) fuel its tr ld'
              Hwf HW HO HS Hm Hlvl Hk Hfl Hin Hld HP HR HN) as (c1 & c0' & c' & frs' & K & ext & E1 & E2 & HRes).
  destruct (wf_elem_parts4 _ _ _ _ _ Hwf) as (Hn & _).
  exists c0', c', frs', K, ext. split; [|exact HRes].
  rewrite usteps_elem. cbn [Nat.add].
  assert (El : parse_content_loop text context (evl lvl) (S (usteps_list cs + 1 + fuel)) depth (sst4 en tl p (r_item (@IElem epieces name ens ws (Some (cs, ws2))) ++ post)) c =
               let! (open, s0, c2) := parse_element text context (evl lvl) (sst4 en tl p (r_item (@IElem epieces name ens ws (Some (cs, ws2))) ++ post)) c in
               parse_content_loop text context (evl lvl) (usteps_list cs + 1 + fuel) (if open then depth + 1 else depth) s0 c2).
  { revert HW. rewrite r_uitem_elem, <- !app_assoc. unfold r_qname at 1 3. intros HW.
    apply (SL.loop_elem_q text en tl); [apply (SL.WV_W text _ _ HW)|apply CstFullItems.uq_of; exact Hn]. }
  rewrite El, E1. cbn [bind].
  replace (usteps_list cs + 1 + fuel)%nat with (usteps_list cs + S fuel)%nat by lia.
  rewrite E2. replace (depth + 1 =? 0) with false by lia. replace (depth + 1 - 1) with depth by lia. reflexivity.
Qed.

(* ---- lists of items ---- *)
Lemma inline_nontext_g m i its tr : is_text epieces i = false -> inline_item tb m i = Some (its, tr) ->
  exists x, its = [x] /\ is_btext x = false.
Proof.
  destruct i as [n a w body|ps|bs|t s0 v]; intros Ht H; try discriminate.
  - rewrite inline_item_elem in H. destruct (inline_entries tb m a) as [[a' ta]|]; [|discriminate]. cbn [E.obind] in H.
    destruct body as [[cs w2]|].
    + destruct (inline_items tb m cs) as [[b0 tb0]|]; [|discriminate]. cbn [E.obind] in H. injection H as <- _. eauto.
    + injection H as <- _. eauto.
  - cbn in H. injection H as <- _. eauto.
  - cbn in H. injection H as <- _. eauto.
Qed.

Lemma nontext_stop m (d : uitem) rest : is_text epieces d = false -> wf_uitem9 m d = true -> text_stop (r_item d ++ rest).
Proof.
  intros Ht Hwf. destruct d as [n a w body|ps|bs|t s0 v]; try discriminate.
  - rewrite r_uitem_elem. reflexivity.
  - reflexivity.
  - reflexivity.
Qed.

Lemma ItemsOK_of cs : Forall ItemOK cs -> ItemsOK text D es tb cs.
Proof.
  induction 1 as [|i r Hi _ IH]; intros inh m en tl p post c0 c frs acc lvl depth fuel its tr ld'
    Hwf Hna HW Hpost HO HS Hb Hm Hlvl Hk Hfl Hin Hld HP HR HN.
  - cbn [inline_items] in Hin. injection Hin as <- <-. cbn [ld_run] in Hld. injection Hld as <-.
    cbn [usteps_list r_uitems flat_map app Nat.add]. rewrite blen_nil, N.add_0_r.
    exists c0, c, frs, [], []. split; [reflexivity|]. apply Res_nil; assumption.
  - cbn [forallb] in Hwf. apply andb_true_iff in Hwf. destruct Hwf as [Hw1 Hw2].
    cbn [r_uitems flat_map] in HW |- *. fold (r_uitems r) in HW |- *. rewrite <- app_assoc in HW |- *.
    cbn [inline_items] in Hin.
    destruct (inline_item tb m i) as [[its1 tr1]|] eqn:Ei; [|discriminate]. cbn [E.obind fst snd] in Hin.
    destruct (inline_items tb m r) as [[its2 tr2]|] eqn:Er; [|discriminate]. cbn [E.obind fst snd] in Hin.
    injection Hin as <- <-.
    assert (Hna2 : no_adjacent_text epieces r = true).
    { destruct r as [|d r']; [reflexivity|]. cbn [no_adjacent_text] in Hna. apply andb_true_iff in Hna. apply Hna. }
    assert (Hnext : forall d r', r = d :: r' -> is_text epieces i = true -> is_text epieces d = false).
    { intros d r' -> Hi1. cbn [no_adjacent_text] in Hna. apply andb_true_iff in Hna.
      destruct Hna as [Hna _]. rewrite Hi1 in Hna. cbn [andb] in Hna. apply negb_true_iff in Hna. exact Hna. }
    rewrite ld_run_app in Hld. destruct (ld_run (c_ld c) tr1) as [ld1|] eqn:El1; [|discriminate].
    destruct (Pok_app _ _ _ HP) as [HP1 HP2]. pose proof (Rooms_app_l _ _ _ _ _ HR) as HR1.
    destruct (CstFullS9Text.NsOk_app _ _ _ _ _ HN) as [HN1 HN2].
    destruct (Hi inh m en tl p (r_uitems r ++ post) c0 c frs acc lvl depth (usteps_list r + fuel)%nat its1 tr1 ld1 Hw1 HW)
      as (c0a & ca & frsa & K1 & e1 & E1 & HRes1); try assumption.
    { intros Hi1. destruct r as [|d r']; [exact Hpost|]. cbn [r_uitems flat_map]. rewrite <- app_assoc.
      apply (nontext_stop m); [apply (Hnext d r' eq_refl Hi1)|]. cbn [forallb] in Hw2. apply andb_true_iff in Hw2. apply Hw2. }
    pose proof HRes1 as (S1 & O1 & M1 & F1 & Le1 & Nc1 & D1 & D1' & Fl1 & T1).
    destruct (IH inh m en tl (p + blen (r_item i)) post c0a ca frsa (snd (walk acc its1)) lvl depth fuel its2 tr2 ld' Hw2 Hna2)
      as (c0' & c' & frs' & K2 & e2 & E2 & HRes2); try assumption.
    + apply (SL.WV_app text _ _ _ HW (uitem_valid m i Hw1)).
    + destruct r as [|d r']; [exact I|]. intros Hd. destruct (is_text epieces i) eqn:Eti.
      * rewrite (Hnext d r' eq_refl eq_refl) in Hd. discriminate.
      * destruct (inline_nontext_g m i its1 tr1 Eti Ei) as (x & -> & Hx). rewrite walk_single by exact Hx. reflexivity.
    + rewrite D1, D1'. exact Hm.
    + rewrite D1, D1'. exact Hlvl.
    + rewrite D1. apply (ld_ok_run _ _ _ El1 Hk).
    + rewrite Fl1. rewrite (CstEntText.Run_pp _ _ _ (or_run _ _ _ _ _ _ _ O1)). destruct S1 as (_ & _ & ->).
      rewrite <- (CstEntText.Run_pp _ _ _ (or_run _ _ _ _ _ _ _ HO)). exact Hfl.
    + rewrite D1. exact Hld.
    + apply (Rooms_app_r _ _ _ _ _ _ _ _ _ _ _ _ HRes1 HR).
    + exists c0', c', frs', (K1 ++ K2), (e1 ++ e2). split.
      { cbn [usteps_list]. rewrite <- Nat.add_assoc, E1, E2. f_equal. f_equal. rewrite blen_app. lia. }
      apply (Res_app _ _ _ _ _ _ _ _ _ _ _ _ _ _ _ _ _ _ HRes1 HRes2).
Qed.

Theorem ItemOK_all : forall i, ItemOK i.
Proof.
  intros i. induction i as [n a w|n a w cs w2 IH|ps|bs|t s v] using fitem_ind.
  - apply ItemOK_empty.
  - apply ItemOK_open. apply ItemsOK_of. exact IH.
  - apply ItemOK_text.
  - apply ItemOK_comment.
  - apply ItemOK_pi.
Qed.

Theorem ItemsOK_level : forall cs, ItemsOK text D es tb cs.
Proof. intros cs. apply ItemsOK_of. apply Forall_forall. intros i _. apply ItemOK_all. Qed.

End CItems.

(* every level of the table *)
Theorem ItemsOK_all text D (HD : forall l, NoDup l -> incl l D -> N.of_nat (length l) <= 65535) decls es :
  Forall2 (uent_ok text) (map pd decls) es -> Forall udecl_okc (map pd decls) -> Forall decl_cont decls ->
  forall k cs, ItemsOK text D es (level decls k) cs.
Proof.
  intros Henv Hdecls Hcont. induction k as [|k IH]; intros cs.
  - apply (ItemsOK_level text D HD decls es Henv Hdecls Hcont 0). intros k' E0. discriminate.
  - apply (ItemsOK_level text D HD decls es Henv Hdecls Hcont (S k)). intros k' E0. injection E0 as <-. exact IH.
Qed.

Print Assumptions ItemsOK_all.
