(* Proofs/CstFullS9Text.v -- the capstone fragment, stage S9 (Spec/CstFullS9.v):
   Proofs/CstFullS7Text.v (character data whose references may stand for items) with the conditions of Spec/CstFullS9.v.
   An adapted copy: the statements and proofs are those of that file over the definitions of Proofs/CstFullS9aSem.v. *)
From Coq Require Import Ascii String.
From Coq Require Import List NArith PeanoNat Bool Lia ZifyBool ZifyN ZifyNat.
Import ListNotations.
From RX Require Import Generated.
From RX.Model Require Import Base CharClass Stream Tokenizer Doc Builder Parse.
From RX.Spec Require Cst CstText CstEnt Detector Scope CstU CstNs.
From RX.Spec Require Chars.
From RX.Spec Require Import CstFullS5.
From RX.Spec Require Import Text CstFull CstFullS4.
From RX.Spec Require Import CstFullS6 CstFullS7 CstFullS8 CstFullS9.
From RX.Proofs Require Import Tactics CstLex CstBuild CstULex TextMachine TextMerge HoistProofs NoPanicUtf8 DetectorProofs.
From RX.Proofs Require Import CstTextSem CstTextLex CstTextBuild CstEntSem CstEntMeaning CstEntRun CstEntInline.
From RX.Proofs Require Import CstNsLex CstNsView CstNsBuild CstFullLex CstFullBuild CstFullTree.
From RX.Proofs Require Import CstFullS2Sem CstFullS2Lex CstFullS2Build CstFullS9aSem CstFullS9aText CstFullS9aPlug.
From RX.Proofs Require Import CstEntCFloor CstEntCBuild CstEntCSem CstEntCLoop.
From RX.Proofs Require Import CstFullS4Sem CstFullS9bSem CstFullS9bText CstFullS4Build CstFullS9bAttr.
From RX.Proofs Require Import CstFullS5Ws.
From RX.Proofs Require CstEntText CstEntCLex CstEntCText CstFullS7Lex CstNsItems CstNsDoc CstFullItems CstTextItems.
Open Scope N_scope.

Ltac clia := repeat match goal with H : @eq bool _ true |- _ => clear H end; lia.

Notation bnd := CstEntCText.bnd.
Notation bnd_snoc := CstEntCText.bnd_snoc.
Notation nosplit_bnd := CstEntCText.nosplit_bnd.
Notation SemI := CstEntCText.SemI.
Notation SemI_nil := CstEntCText.SemI_nil.
Notation SemI_marks := CstEntCText.SemI_marks.
Notation SemI_ext := CstEntCText.SemI_ext.
Notation all_marks_app := CstEntCText.all_marks_app.
Notation nomarks := CstEntCText.nomarks.
Notation node_room := CstNsItems.node_room.
Notation attr_room := CstNsItems.attr_room.
Notation ns_room := CstNsItems.ns_room.
Notation Run := CstEntText.Run.
Notation same_frame := CstEntText.same_frame.
Notation bden := (den bmeaning).
Notation bdens := (CstFullTree.dens bpieces bmeaning).
Notation ns_oks := CstFullTree.ns_oks.
Notation text_follow := CstTextItems.text_follow.

(* ------------------------------------------------------------------------------------------ *)
(* sizes                                                                                      *)
(* ------------------------------------------------------------------------------------------ *)
Lemma nsizes_bdens_text ps : NT.nsizes (bden (@IText bpieces ps)) = if all_marks ps then 0 else 1.
Proof. rewrite bden_text. destruct (all_marks ps); reflexivity. Qed.

Lemma nsizes_flush a : NT.nsizes (bdens (flush a)) = if all_marks a then 0 else 1.
Proof. rewrite bdens_flush. apply nsizes_bdens_text. Qed.

(* a run with a piece that is no mark yields a node, sooner or later *)
Lemma flush_later : forall y a,
  NT.nsizes (bdens (flush a)) <= NT.nsizes (bdens (fst (walk a y) ++ flush (snd (walk a y)))).
Proof.
  induction y as [|i r IH]; intros a.
  - cbn [walk fst snd app]. apply N.le_refl.
  - destruct (is_btext i) eqn:Ei.
    + destruct i as [|ps| |]; try discriminate. cbn [walk]. etransitivity; [|apply IH].
      rewrite !nsizes_flush, all_marks_app. destruct (all_marks a); cbn [andb]; [|apply N.le_refl].
      destruct (all_marks ps); lia.
    + rewrite walk_nontext by exact Ei. cbn [fst snd]. rewrite <- app_assoc, bdens_app, nsizes_app. lia.
Qed.

Lemma nomarks_all ps : nomarks ps -> (all_marks ps = true <-> ps = []).
Proof.
  intros H. split; [|intros ->; reflexivity]. destruct ps as [|p r]; [reflexivity|].
  apply Forall_cons_iff in H. destruct H as [Hp _]. unfold all_marks. cbn [forallb]. rewrite Hp. discriminate.
Qed.

Lemma nomarks_chunks_nil ps : nomarks ps -> (chunks ps = [] <-> ps = []).
Proof.
  intros H. split; [|intros ->; reflexivity]. destruct ps as [|p r]; [reflexivity|].
  apply Forall_cons_iff in H. destruct H as [Hp _]. destruct (nonmark_chunks p Hp) as [Hne _].
  unfold chunks. cbn [flat_map]. intros E0. apply app_eq_nil in E0. destruct E0. congruence.
Qed.

(* ---- one more string: the buffer of a text token, flushed ---- *)
Lemma emit_concat_u m bacc : acc_ok m bacc -> concat (emit m bacc) = decode_chunks bacc.
Proof.
  intros H. destruct (emit_valid_u m bacc H) as [Eo _]. unfold emit. rewrite <- Eo.
  destruct (run_text_chunks m bacc); cbn [concat]; rewrite ?app_nil_r; reflexivity.
Qed.

Lemma emit_nil_iff_u m bacc : acc_ok m bacc -> (emit m bacc = [] <-> bacc = []).
Proof.
  intros H. destruct (emit_valid_u m bacc H) as [Eo _]. unfold emit. rewrite Eo. destruct bacc as [|c0 r].
  - change (decode_chunks []) with (@nil N). tauto.
  - pose proof (acc_decode_ne m c0 r H) as Hne.
    destruct (decode_chunks (c0 :: r)); [congruence|]. split; discriminate.
Qed.

(* ------------------------------------------------------------------------------------------ *)
(* the machine side                                                                           *)
(* ------------------------------------------------------------------------------------------ *)
Definition decl_cont (d : xdecl) : Prop :=
  match x_value d with
  | XContent its => forallb (wf_uitem9 true) its = true /\ no_adjacent_text epieces its = true
  | _ => True
  end.

Section Machine.
Variable text : bytes.
Variable D : list Scope.binding.
Hypothesis HD : forall l, NoDup l -> incl l D -> N.of_nat (length l) <= 65535.
Variable decls : list xdecl.
Variable es : list entity.
Hypothesis Henv : Forall2 (uent_ok text) (map pd decls) es.
Hypothesis Hdecls : Forall udecl_okc (map pd decls).
Hypothesis Hcont : Forall decl_cont decls.

Notation W := (CstLex.W text).
Notation WV := (CstULex.WV text).
Notation evl := (CstEntCBuild.evl text).
Notation CIn := (CstNsBuild.CIn text D).
Notation kmn := (CstNsBuild.kmn text).
Notation decls3 := (map pd decls).

(* c0: the frame, the context before the open run; c: the context; frs: the strings of the run *)
Record OR (inh : list Scope.binding) (c0 c : context) (frs : list cow) : Prop := mkOR {
  or_ci : CIn inh c0; or_at : c_after_text c0 = []; or_fl : c_entity_floor c0 = 0; or_ld : c_ld c0 = ld_init;
  or_run : Run c0 c frs; or_es : c_entities c = es }.

Lemma OR_frame inh c0 c c' frs : OR inh c0 c frs -> same_frame c c' -> OR inh c0 c' frs.
Proof.
  intros [A1 A2 A3 A4 A5 A6] F. constructor; try assumption; [eapply CstEntText.Run_frame; eassumption|].
  destruct F as (_ & _ & _ & _ & _ & F6 & _). congruence.
Qed.

(* what is known after a stretch of content that stands for the items its, met with the pieces
   acc in the open run, in the content of an element whose scope is inh *)
Definition Res (inh : list Scope.binding) (c0 c : context) (acc : list T.piece) (its : list bitem) (ld' : loop_detector)
               (c0' c' : context) (frs' : list cow) (K : list row) (ext : list attr_data) : Prop :=
  Stepn c0 c0' K ext /\ OR inh c0' c' frs' /\ SemI text frs' (snd (walk acc its)) /\
  Forall2 (kmn (c_doc c0')) K
    (NT.tag_list inh (c_parent_id c0) (len_N (d_nodes (c_doc c0))) (bdens (fst (walk acc its)))) /\
  length ext = NT.nattrs_items (bdens (fst (walk acc its))) /\
  len_N (d_ns_tree (c_doc c0')) = len_N (d_ns_tree (c_doc c0)) + N.of_nat (NT.ns_costs inh (bdens (fst (walk acc its)))) /\
  c_ld c' = ld' /\ ld_depth ld' = ld_depth (c_ld c) /\ c_entity_floor c' = c_entity_floor c /\
  (tn_set c -> tn_set c').

Definition Rooms (inh : list Scope.binding) (c0 : context) (acc : list T.piece) (its : list bitem) : Prop :=
  node_room c0 (NT.nsizes (bdens (fst (walk acc its) ++ flush (snd (walk acc its))))) /\
  attr_room c0 (NT.nattrs_items (bdens (fst (walk acc its)))) /\
  ns_room c0 (NT.ns_costs inh (bdens (fst (walk acc its)))).

(* the namespace rules hold of what the complete items denote, and its declarations are among D *)
Definition NsOk (inh : list Scope.binding) (acc : list T.piece) (its : list bitem) : Prop :=
  ns_oks inh (bdens (fst (walk acc its))) = true /\ incl (NT.items_decls (bdens (fst (walk acc its)))) D.

Lemma NsOk_app inh acc x y : NsOk inh acc (x ++ y) -> NsOk inh acc x /\ NsOk inh (snd (walk acc x)) y.
Proof.
  unfold NsOk. rewrite walk_app. cbn [fst snd]. rewrite bdens_app, ns_oks_app, items_decls_app, andb_true_iff.
  intros [[A1 A2] B0]. split; (split; [assumption|]); intros z Hz; apply B0; apply in_or_app; [left|right]; exact Hz.
Qed.

Lemma Stepn_len c c' K ext : Stepn c c' K ext -> len_N (d_nodes (c_doc c')) = len_N (d_nodes (c_doc c)) + len_N K.
Proof. intros [S _]. apply (Step0n_len _ _ _ _ S). Qed.

Lemma F2_len {A B} (R : A -> B -> Prop) l l' : Forall2 R l l' -> len_N l = len_N l'.
Proof. induction 1; [reflexivity|]. unfold len_N in *. cbn [length]. lia. Qed.

Lemma kmn_F2_ext d d' K T : DocExt d d' -> Forall2 (kmn d) K T -> Forall2 (kmn d') K T.
Proof. intros HE. induction 1; constructor; [apply (kmn_ext text D HD d d' _ _ HE); assumption|assumption]. Qed.

Lemma Res_app inh c0 c acc x y ld1 ld2 c0a ca frsa K1 e1 c0b cb frsb K2 e2 :
  Res inh c0 c acc x ld1 c0a ca frsa K1 e1 -> Res inh c0a ca (snd (walk acc x)) y ld2 c0b cb frsb K2 e2 ->
  Res inh c0 c acc (x ++ y) ld2 c0b cb frsb (K1 ++ K2) (e1 ++ e2).
Proof.
  intros (S1 & O1 & M1 & F1 & L1 & N1 & D1 & D1' & Fl1 & T1) (S2 & O2 & M2 & F2 & L2 & N2 & D2 & D2' & Fl2 & T2).
  unfold Res. rewrite walk_app. cbn [fst snd].
  split; [eapply Stepn_trans; eassumption|]. split; [exact O2|]. split; [exact M2|].
  pose proof (Stepn_len _ _ _ _ S1) as Ln1.
  rewrite (F2_len _ _ _ F1) in Ln1. unfold len_N at 3 in Ln1. rewrite NT.tag_list_len in Ln1.
  split.
  { rewrite bdens_app, CstNsDoc.tag_list_app. apply Forall2_app.
    - apply (kmn_F2_ext (c_doc c0a)); [apply (Step0n_DocExt _ _ _ _ (proj1 S2))|exact F1].
    - destruct S1 as (_ & P1 & _). rewrite P1, Ln1 in F2. exact F2. }
  split; [rewrite app_length, bdens_app, nattrs_items_app, L1, L2; reflexivity|].
  split; [rewrite N2, N1, bdens_app, ns_costs_app; lia|].
  split; [exact D2|]. split; [rewrite D2', D1; exact D1'|]. split; [congruence|auto].
Qed.

Lemma Rooms_app_l inh c0 acc x y : Rooms inh c0 acc (x ++ y) -> Rooms inh c0 acc x.
Proof.
  unfold Rooms. rewrite walk_app. cbn [fst snd]. intros (N1 & A1 & C1). split; [|split].
  - pose proof (flush_later y (snd (walk acc x))) as Hl.
    unfold node_room in *. rewrite !bdens_app, !nsizes_app in *. lia.
  - unfold attr_room in *. rewrite bdens_app, nattrs_items_app in A1. lia.
  - unfold ns_room in *. rewrite bdens_app, ns_costs_app in C1. lia.
Qed.

Lemma Rooms_app_r inh c0 c acc x y ld1 c0a ca frsa K1 e1 :
  Res inh c0 c acc x ld1 c0a ca frsa K1 e1 -> Rooms inh c0 acc (x ++ y) -> Rooms inh c0a (snd (walk acc x)) y.
Proof.
  intros (S1 & _ & _ & F1 & L1 & Nc1 & _) (N1 & A1 & C1). rewrite walk_app in N1, A1, C1. cbn [fst snd] in N1, A1, C1.
  pose proof (Stepn_len _ _ _ _ S1) as Ln1.
  rewrite (F2_len _ _ _ F1) in Ln1. unfold len_N at 3 in Ln1. rewrite NT.tag_list_len in Ln1.
  pose proof (CstFullItems.Stepn_opt _ _ _ _ (proj1 S1)) as Lo1.
  pose proof (CstFullItems.Stepn_attrs_len _ _ _ _ (proj1 S1)) as La1. unfold len_N at 3 in La1. rewrite L1 in La1.
  split; [|split].
  - unfold node_room in *. rewrite Ln1, Lo1. rewrite <- app_assoc, bdens_app, nsizes_app in N1. lia.
  - unfold attr_room in *. rewrite La1. rewrite bdens_app, nattrs_items_app in A1. lia.
  - unfold ns_room in *. rewrite Nc1. rewrite bdens_app, ns_costs_app in C1. lia.
Qed.

(* nothing happens *)
Lemma Res_nil inh c0 c acc frs : OR inh c0 c frs -> SemI text frs acc -> Res inh c0 c acc [] (c_ld c) c0 c frs [] [].
Proof.
  intros O M. unfold Res. cbn [walk fst snd CstFullTree.dens NT.tag_list NT.nattrs_items NT.ns_costs length].
  split; [apply Stepn_refl|]. split; [exact O|]. split; [exact M|]. split; [constructor|]. repeat split; auto. lia.
Qed.

Lemma buf_flush inh m bacc bps r c0 c frs acc :
  acc_ok m bacc -> bacc = chunks bps -> nomarks bps ->
  OR inh c0 c frs -> SemI text frs acc -> bnd acc = true -> E.crlf_split_ok (acc ++ bps) = true ->
  (all_marks acc = true -> bps <> [] -> room c0) ->
  exists c' G, finish_text r (push_text_chunks m bacc tb_new) c = Ok c' /\
    OR inh c0 c' (frs ++ G) /\ SemI text (frs ++ G) (acc ++ bps) /\
    c_ld c' = c_ld c /\ c_tag_name c' = c_tag_name c /\ c_entity_floor c' = c_entity_floor c.
Proof.
  intros Hacc Hb Hnm [A1 A2 A3 A4 A5 A6] HS Hbnd Hcr Hroom.
  destruct (finish_emit_u text D inh m bacc r c0 c frs Hacc A5 A1) as (c' & G & E & HR' & HG & L1 & L2 & L3); [|exact A2|].
  { intros Z0 Z1. apply Hroom; [apply (proj2 HS); exact Z0|].
    intros ->. apply Z1. apply (emit_nil_iff_u m bacc Hacc). rewrite Hb. reflexivity. }
  exists c', G. split; [exact E|]. split.
  { constructor; try assumption. rewrite (CstEntText.Run_entities _ _ _ HR'). rewrite <- A6. symmetry. apply (CstEntText.Run_entities _ _ _ A5). }
  split; [|auto].
  apply SemI_ext; [exact HS| | |].
  - rewrite HG, emit_concat_u by exact Hacc. rewrite Hb. reflexivity.
  - rewrite (nomarks_all bps Hnm). rewrite <- (nomarks_chunks_nil bps Hnm), <- Hb, <- (emit_nil_iff_u m bacc Hacc), <- HG.
    split; [intros ->; reflexivity|]. destruct G; [reflexivity|discriminate].
  - apply (nosplit_bnd acc bps []); [exact Hbnd|rewrite app_nil_r; exact Hcr].
Qed.

(* ------------------------------------------------------------------------------------------ *)
(* what is proved of lists of items                                                           *)
(* ------------------------------------------------------------------------------------------ *)

Definition bnd_if (cs : list uitem) (acc : list T.piece) : Prop :=
  match cs with i :: _ => is_text epieces i = true -> bnd acc = true | [] => True end.

(* iterations of the content loop *)
Fixpoint usteps (i : uitem) : nat :=
  match i with
  | IElem _ _ _ (Some (cs, _)) =>
    S ((fix go (l : list uitem) : nat := match l with [] => O | c :: r => usteps c + go r end) cs + 1)
  | IText r => length (esegs (enc_epieces r))
  | _ => 1
  end%nat.
Fixpoint usteps_list (l : list uitem) : nat :=
  match l with [] => O | c :: r => (usteps c + usteps_list r)%nat end.

Lemma usteps_elem n a w cs w2 : usteps (IElem n a w (Some (cs, w2))) = S (usteps_list cs + 1)%nat.
Proof. reflexivity. Qed.

Notation sst4 := CstEntCLex.st.
Notation WVs := (CstFullS7Lex.WV text).

Definition ItemsOK (tb : ytable) (cs : list uitem) : Prop :=
  forall inh m en tl p post c0 c frs acc lvl depth fuel its tr ld',
    forallb (wf_uitem9 m) cs = true -> no_adjacent_text epieces cs = true ->
    WVs en tl p (r_uitems cs ++ post) -> text_stop post ->
    OR inh c0 c frs -> SemI text frs acc -> bnd_if cs acc ->
    m = (0 <? ld_depth (c_ld c)) -> N.of_nat lvl + ld_depth (c_ld c) = 12 -> ld_ok (c_ld c) ->
    c_entity_floor c <= len_N (c_parent_prefixes c) ->
    inline_items tb m cs = Some (its, tr) -> ld_run (c_ld c) tr = Some ld' ->
    Pok acc its -> Rooms inh c0 acc its -> NsOk inh acc its ->
    exists c0' c' frs' K ext,
      parse_content_loop text context (evl lvl) (usteps_list cs + fuel) depth (sst4 en tl p (r_uitems cs ++ post)) c =
      parse_content_loop text context (evl lvl) fuel depth (sst4 en tl (p + blen (r_uitems cs)) post) c' /\
      Res inh c0 c acc its ld' c0' c' frs' K ext.

Definition enter_depth := CstEntCText.enter_depth.
Definition ref_step := CstEntCText.ref_step.

(* ---- the value of a character-data entity (Proofs/CstFullS9bText.v) ---- *)
Lemma value_text inh L d en vps qv trv Fv c0 c2 frs2 acc2 ld1' :
  E.e_value d = E.EText vps -> uent_ok text d en -> udecl_okc d ->
  Exp decls3 true [] vps qv trv Fv ->
  OR inh c0 c2 frs2 -> SemI text frs2 acc2 -> bnd acc2 = true ->
  0 < ld_depth (c_ld c2) <= 10 -> N.of_nat L + ld_depth (c_ld c2) = 13 ->
  ld_run (c_ld c2) trv = Some ld1' ->
  E.crlf_split_ok (acc2 ++ qv) = true ->
  (all_marks acc2 = true -> all_marks qv = false -> room c0) ->
  exists sv s' c2' Gv,
    stream_from_substr text (sl_start (en_value en)) (sl_end (en_value en)) = Ok sv /\
    parse_content_lvl text L sv c2 = Ok (s', c2') /\
    OR inh c0 c2' (frs2 ++ Gv) /\ SemI text (frs2 ++ Gv) (acc2 ++ qv) /\
    c_ld c2' = ld1' /\ ld_depth ld1' = ld_depth (c_ld c2) /\
    c_tag_name c2' = c_tag_name c2 /\ c_entity_floor c2' = c_entity_floor c2.
Proof.
  intros Hval (Hen & vs & tail & Eval & HWv) Hdok Hv [A1 A2 A3 A4 A5 A6] HS Hbnd Hd0 Hlvl Erun1 Hcr Hroom.
  unfold udecl_okc in Hdok. rewrite Hval in Hdok. destruct Hdok as (Hvok & Hvn3 & _).
  rewrite Hval in Eval, HWv. cbn [E.r_value] in Eval, HWv.
  rewrite Eval. cbn [sl sl_start sl_end].
  rewrite (stream_from_substr_W text vs (E.r_epieces vps) tail (WV_W _ _ _ HWv)).
  destruct L as [|lvl']; [lia|].
  set (ve := vs + blen (E.r_epieces vps)) in *.
  pose proof (CstLex.W_le _ _ _ (CstLex.W_app _ _ _ _ (WV_W _ _ _ HWv))) as Hlev. fold ve in Hlev.
  destruct (uep_bytes true vps Hvok) as [Hvu Hvb].
  pose proof (Exp_empty_u decls3 Hdecls _ _ _ _ _ _ Hv Hvok (acc_nil true)) as Hemp.
  assert (HFroom : frs2 = [] -> Fv <> [] -> room c0).
  { intros Z0 Z1. apply Hroom; [apply (proj2 HS); exact Z0|].
    destruct (all_marks qv) eqn:Em; [|reflexivity]. exfalso. apply Z1. apply (proj2 Hemp). split; [reflexivity|exact Em]. }
  assert (Hinner : exists c2' Gv,
            parse_content_lvl text (S lvl') (sst ve vs (E.r_epieces vps ++ tail)) c2 = Ok (sst ve ve tail, c2') /\
            Run c0 c2' (frs2 ++ Gv) /\ map (cow_bytes text) Gv = Fv /\
            c_ld c2' = ld1' /\ ld_depth ld1' = ld_depth (c_ld c2) /\
            c_tag_name c2' = c_tag_name c2 /\ c_entity_floor c2' = c_entity_floor c2).
  { assert (Epc : forall s0 cc, parse_content_lvl text (S lvl') s0 cc =
              parse_content_loop text context (token_with text (process_text_with text (parse_content_lvl text lvl')))
                (S (length (s_rest s0))) 0 s0 cc) by reflexivity.
    rewrite Epc. cbn [sst s_rest].
    destruct (list_eq_dec N.eq_dec (E.r_epieces vps) []) as [Ex|Hne].
    - assert (Evps : vps = []).
      { destruct vps as [|pp vr]; [reflexivity|].
        apply Forall_cons_iff in Hvok. destruct Hvok as [Hq0 _].
        destruct (uep_piece_ne true pp Hq0) as (x1 & r1 & E1).
        rewrite r_epieces_cons, E1 in Ex. discriminate. }
      subst vps. inversion Hv; subst. cbn [E.r_epieces flat_map app length] in *.
      cbn [parse_content_loop]. rewrite at_end_sst. unfold ve. rewrite blen_nil, N.add_0_r.
      replace (vs <=? vs) with true by lia.
      exists c2, []. rewrite app_nil_r. cbn [ld_run] in Erun1. injection Erun1 as <-.
      repeat split; auto.
    - assert (Hlen : (1 <= length (E.r_epieces vps ++ tail))%nat).
      { rewrite app_length. destruct (E.r_epieces vps); [congruence|cbn; lia]. }
      destruct (length (E.r_epieces vps ++ tail)) as [|len'] eqn:El; [lia|].
      rewrite (content_loop_text_ne_u text context _ ve vs (E.r_epieces vps) tail c2 len' HWv eq_refl Hlev Hvu Hvb Hvn3 Hne).
      cbn [token_with].
      rewrite process_text_with_unfold. unfold slice_bytes at 1. cbn [sl sl_start sl_end].
      unfold ve. rewrite (CstLex.W_sub _ _ _ _ (WV_W _ _ _ HWv)). fold ve.
      destruct (existsb (fun x => (x =? 38) || (x =? 13)) (E.r_epieces vps)) eqn:Efast; cbn [negb].
      + cbn [fst snd]. unfold ve. rewrite (stream_from_substr_W text vs (E.r_epieces vps) tail (WV_W _ _ _ HWv)). fold ve. cbn [bind].
        destruct (TL_u text D HD decls3 es Henv Hdecls true [] vps qv trv Fv Hv inh ve vs tail c0 c2 frs2
                    (S (length (s_rest (sst ve vs (E.r_epieces vps ++ tail))))) lvl' (vs, ve) ld1')
          as (c2' & Gv & Ev & HRv & HGv & Lv1 & Lv2 & Lv3 & Lv4); try assumption; try reflexivity.
        * replace (0 <? ld_depth (c_ld c2)) with true by lia. reflexivity.
        * apply acc_nil.
        * lia.
        * cbn [sst s_rest]. rewrite app_length. lia.
        * cbn [push_text_chunks sst s_rest] in Ev |- *. rewrite Ev. cbn [bind]. exists c2', Gv. repeat split; auto.
      + destruct (existsb_or_false _ _ _ Efast) as [E38 E13].
        destruct (exp_plain_u decls3 true vps [] qv trv Fv Hv Hvok E38) as [-> ->]. cbn [app].
        assert (Hemit : emit true ([] ++ map CLit (E.r_epieces vps)) = [E.r_epieces vps]).
        { cbn [app]. unfold emit. rewrite text_chunks_in_entity.
          replace (concat (map chunk_bytes (map CLit (E.r_epieces vps)))) with (E.r_epieces vps)
            by (clear; induction (E.r_epieces vps) as [|z l IHl]; [reflexivity|cbn; rewrite <- IHl; reflexivity]).
          rewrite norm_eol_nocr by exact E13. destruct (E.r_epieces vps); [congruence|reflexivity]. }
        destruct (run_append_n text D inh (CowBorrowed (sl vs ve)) (vs, ve) c0 c2 frs2 A5 A1
                    (fun Z0 => HFroom Z0 ltac:(rewrite Hemit; discriminate)) A2)
          as (c2' & Ea & HRa & La1 & La2 & La3).
        rewrite Ea. cbn [bind]. exists c2', [CowBorrowed (sl vs ve)]. cbn [ld_run] in Erun1. injection Erun1 as <-.
        split; [reflexivity|]. split; [exact HRa|]. split.
        { cbn [map cow_bytes]. unfold slice_bytes, ve. cbn [sl sl_start sl_end]. rewrite (CstLex.W_sub _ _ _ _ (WV_W _ _ _ HWv)).
          cbn [app] in Hemit. rewrite Hemit. reflexivity. }
        repeat split; auto. }
  destruct Hinner as (c2' & Gv & Ein & HRv & HGv & Lv1 & Lv2 & Lv3 & Lv4).
  eexists. exists (sst ve ve tail), c2', Gv. split; [reflexivity|]. split; [exact Ein|]. split.
  { constructor; try assumption. rewrite (CstEntText.Run_entities _ _ _ HRv). rewrite <- A6. symmetry. apply (CstEntText.Run_entities _ _ _ A5). }
  split; [|repeat split; assumption].
  apply SemI_ext; [exact HS| | |].
  - rewrite HGv. rewrite (Exp_sem_u decls3 Hdecls true [] vps qv trv Fv Hv Hvok (acc_nil true) eq_refl
                            (crlf_split_app_r _ _ Hcr)). reflexivity.
  - rewrite <- HGv in Hemp. split.
    + intros ->. apply Hemp. reflexivity.
    + intros Em. destruct Gv; [reflexivity|]. exfalso.
      assert (X : map (cow_bytes text) (c :: Gv) = []) by (apply (proj2 Hemp); split; [reflexivity|exact Em]). discriminate.
  - apply (nosplit_bnd acc2 qv []); [exact Hbnd|rewrite app_nil_r; exact Hcr].
Qed.


Lemma first_xdecl_in n d : first_xdecl decls n = Some d -> In d decls.
Proof. unfold first_xdecl. intros H. apply find_some in H. apply H. Qed.

(* ---- the syntax of items ---- *)
Definition wf_uitems (m : bool) : list uitem -> bool :=
  fix go (l : list uitem) : bool := match l with [] => true | c :: r => wf_uitem9 m c && go r end.

Lemma wf_uitems_forallb m l : forallb (wf_uitem9 m) l = wf_uitems m l.
Proof. induction l as [|c r IH]; [reflexivity|]. cbn [forallb wf_uitems]. rewrite IH. reflexivity. Qed.

Lemma wf_uitem_elem m name ens ws body :
  wf_uitem9 m (IElem name ens ws body) =
  wf_qname name && forallb (wf_uentry9 m) ens && wf_s ws &&
  match body with
  | None => true
  | Some (cs, ws2) => wf_s ws2 && no_adjacent_text epieces cs && wf_uitems m cs
  end.
Proof. destruct body as [[cs ws2]|]; reflexivity. Qed.

Lemma r_uitem_elem name ens ws body :
  r_item (@IElem epieces name ens ws body) =
  [60] ++ r_qname name ++ flat_map r_entry ens ++ ws ++
  match body with
  | None => [47; 62]
  | Some (cs, ws2) => [62] ++ r_uitems cs ++ [60; 47] ++ r_qname name ++ ws2 ++ [62]
  end.
Proof. destruct body as [[cs ws2]|]; reflexivity. Qed.

Lemma wf_uepieces_drop q cd ch ps : wf_uepieces9 q cd ch true ps = true -> wf_uepieces9 q cd ch false ps = true.
Proof.
  unfold wf_uepieces9. rewrite !andb_true_iff. intros [A B0]. split; [|exact B0]. revert A. apply CstLex.forallb_imp.
  intros [[bs|hex ds|e|bs]|n]; cbn [wf_uepiece9]; intros H; try exact H.
  all: rewrite !andb_true_iff in *; destruct H as [[X Y] _]; auto.
Qed.

Lemma wf_uepieces_any m q cd ch ps : wf_uepieces9 q cd ch m ps = true -> wf_uepieces9 q cd ch false ps = true.
Proof. destruct m; [apply wf_uepieces_drop|auto]. Qed.

Lemma usteps_le m : forall i, wf_uitem9 m i = true -> (usteps i <= length (r_item i))%nat.
Proof.
  intros i. induction i as [n a w|n a w cs w2 IH|r|bs|t s0 v] using fitem_ind; intros Hwf.
  - rewrite r_uitem_elem, !app_length. cbn [usteps length]. lia.
  - rewrite wf_uitem_elem, !andb_true_iff in Hwf. destruct Hwf as [_ [_ Hcs]].
    rewrite usteps_elem, r_uitem_elem, !app_length. cbn [length].
    assert (G : (usteps_list cs <= length (r_uitems cs))%nat).
    { clear - IH Hcs. induction IH as [|c r Hc _ IHr]; [cbn; lia|].
      cbn [wf_uitems] in Hcs. apply andb_true_iff in Hcs. destruct Hcs as [H1 H2].
      cbn [usteps_list r_uitems flat_map]. rewrite app_length. specialize (Hc H1). specialize (IHr H2). unfold r_uitems in IHr. lia. }
    lia.
  - cbn [wf_uitem9] in Hwf. apply andb_true_iff in Hwf. destruct Hwf as [_ Hw].
    cbn [usteps r_item r_run epieces]. rewrite <- (esegs_render (enc_epieces r)).
    apply esegs_len_le. apply esegs_wf_u. apply (wf_uepieces_any m). exact Hw.
  - cbn [usteps r_item Cst.r_item]. rewrite !app_length. cbn [length]. lia.
  - cbn [usteps r_item Cst.r_item]. rewrite !app_length. cbn [length]. lia.
Qed.

Lemma usteps_list_le m : forall cs, forallb (wf_uitem9 m) cs = true -> (usteps_list cs <= length (r_uitems cs))%nat.
Proof.
  induction cs as [|c r IH]; intros Hwf; [cbn; lia|].
  cbn [forallb] in Hwf. apply andb_true_iff in Hwf. destruct Hwf as [H1 H2].
  cbn [usteps_list r_uitems flat_map]. rewrite app_length. pose proof (usteps_le m c H1). specialize (IH H2). unfold r_uitems in IH. lia.
Qed.

Section Level.
Variable k : nat.
Hypothesis IHk : forall k', k = S k' -> forall cs, ItemsOK (level decls k') cs.
Notation tb := (level decls k).

(* the value of a declared entity, read as content *)
Lemma value_ok inh n v d en L c0 c2 frs2 acc2 ld1' :
  ylookup tb n = Some v -> first_xdecl decls n = Some d -> uent_ok text (pd d) en ->
  OR inh c0 c2 frs2 -> SemI text frs2 acc2 -> bnd acc2 = true ->
  0 < ld_depth (c_ld c2) <= 10 -> N.of_nat L + ld_depth (c_ld c2) = 13 -> ld_ok (c_ld c2) ->
  c_entity_floor c2 = len_N (c_parent_prefixes c2) ->
  ld_run (c_ld c2) (y_trace v) = Some ld1' ->
  Pok acc2 (y_items v) -> Rooms inh c0 acc2 (y_items v) -> NsOk inh acc2 (y_items v) ->
  exists sv s' c0' c2' frs' K ext,
    stream_from_substr text (sl_start (en_value en)) (sl_end (en_value en)) = Ok sv /\
    parse_content_lvl text L sv c2 = Ok (s', c2') /\
    Res inh c0 c2 acc2 (y_items v) ld1' c0' c2' frs' K ext.
Proof.
  intros El Hfd Hent HO HS Hbnd Hd0 Hlvl Hok Hfl Hld HP HR HN.
  rewrite ylookup_level in El. destruct k as [|k'] eqn:Ek; [discriminate|]. rewrite Hfd in El.
  pose proof (first_xdecl_in _ _ Hfd) as Hin.
  destruct (x_value d) as [vps|its_v] eqn:Hval; cbn [inline_value] in El.
  - (* character data *)
    rewrite inline_ps_level in El.
    destruct (E.inline_ps (E.level decls3 k') false true (enc_epieces vps)) as [[qv trv]|] eqn:Ei; [|discriminate].
    cbn [E.obind fst snd] in El. injection El as <-. cbn [y_items y_trace] in *.
    destruct (inline_Exp decls3 k' true (enc_epieces vps) qv trv Ei true []) as [Fv Hv].
    assert (Hdok : udecl_okc (pd d)) by (rewrite Forall_forall in Hdecls; apply Hdecls; apply in_map; exact Hin).
    assert (Hval' : E.e_value (pd d) = E.EText (enc_epieces vps)) by (cbn [pd E.e_value]; rewrite Hval; reflexivity).
    destruct HP as [_ HP2]. cbn [walk snd] in HP2.
    destruct (value_text inh L (pd d) en (enc_epieces vps) qv trv Fv c0 c2 frs2 acc2 ld1' Hval' Hent Hdok Hv HO HS Hbnd Hd0 Hlvl Hld HP2)
      as (sv & s' & c2' & Gv & Es & Ep & HO' & HS' & L1 & L2 & L3 & L4).
    { intros Z0 Z1. destruct HR as [HR _]. cbn [walk fst snd app] in HR. apply (CstFullItems.node_room_room _ _ HR).
      rewrite nsizes_flush, all_marks_app, Z0, Z1. cbn [andb]. lia. }
    exists sv, s', c0, c2', (frs2 ++ Gv), [], []. split; [exact Es|]. split; [exact Ep|].
    unfold Res. cbn [walk fst snd CstFullTree.dens NT.tag_list NT.nattrs_items NT.ns_costs length].
    split; [apply Stepn_refl|]. split; [exact HO'|]. split; [exact HS'|]. split; [constructor|].
    split; [reflexivity|]. split; [lia|]. split; [exact L1|]. split; [exact L2|]. split; [exact L4|].
    unfold tn_set. rewrite L3. auto.
  - (* items *)
    destruct (inline_items (level decls k') true its_v) as [[itv trv]|] eqn:Ei; [|discriminate].
    cbn [E.obind fst snd] in El. injection El as <-. cbn [y_items y_trace] in *.
    assert (Hc : decl_cont d) by (rewrite Forall_forall in Hcont; apply Hcont; exact Hin).
    unfold decl_cont in Hc. rewrite Hval in Hc. destruct Hc as [Hwf Hna].
    destruct Hent as (Hen & vs & tail & Eval & HWv).
    change (E.e_value (pd d)) with (pv (x_value d)) in Eval, HWv. rewrite r_value_pv, Hval in Eval, HWv. cbn [r_xvalue] in Eval, HWv.
    rewrite Eval. cbn [sl sl_start sl_end].
    rewrite (stream_from_substr_W text vs (r_uitems its_v) tail (WV_W _ _ _ HWv)).
    destruct L as [|L']; [lia|].
    set (ve := vs + blen (r_uitems its_v)).
    pose proof (usteps_list_le true its_v Hwf) as Hst.
    assert (HW' : WVs ve tail vs (r_uitems its_v ++ [])).
    { split; [rewrite app_nil_r; exact HWv|rewrite app_nil_r; reflexivity]. }
    destruct (IHk k' eq_refl its_v inh true ve tail vs [] c0 c2 frs2 acc2 L' 0
                (S (length (r_uitems its_v ++ tail) - usteps_list its_v)) itv trv ld1'
                Hwf Hna HW' I HO HS)
      as (c0' & c2' & frs' & K & ext & El & HRes); try assumption.
    { destruct its_v; [exact I|]. intros _. exact Hbnd. }
    { replace (0 <? ld_depth (c_ld c2)) with true by lia. reflexivity. }
    { lia. }
    { lia. }
    exists (sst ve vs (r_uitems its_v ++ tail)), (sst4 ve tail (vs + blen (r_uitems its_v)) []), c0', c2', frs', K, ext.
    split; [reflexivity|]. split; [|exact HRes].
    rewrite parse_content_lvl_S. unfold parse_content. cbn [sst s_rest].
    replace (S (length (r_uitems its_v ++ tail)))
      with (usteps_list its_v + S (length (r_uitems its_v ++ tail) - usteps_list its_v))%nat
      by (rewrite app_length; lia).
    change (sst ve vs (r_uitems its_v ++ tail)) with (sst4 ve tail vs (r_uitems its_v)).
    rewrite <- (app_nil_r (r_uitems its_v)) at 2.
    rewrite El. apply (loop_end text ve tail context (evl L')).
    apply (CstEntCLex.W_app text _ _ _ (CstFullS7Lex.WV_W text _ _ HW')).
Qed.

(* ---- the loop of process_text_with on character data whose references may stand for items ---- *)
Lemma TLc : forall ps bps bacc inh m e p more c0 c frs acc fuel L r its tr ld',
  Forall (uep_ok m) ps -> WV p (E.r_epieces ps ++ more) -> p + blen (E.r_epieces ps) = e -> e <= tlen text ->
  m = (0 <? ld_depth (c_ld c)) -> N.of_nat L + ld_depth (c_ld c) = 12 -> ld_ok (c_ld c) ->
  acc_ok m bacc -> bacc = chunks bps -> nomarks bps ->
  OR inh c0 c frs -> SemI text frs acc -> bnd acc = true ->
  c_entity_floor c <= len_N (c_parent_prefixes c) ->
  inline_run tb m ps = Some (its, tr) -> ld_run (c_ld c) tr = Some ld' ->
  Pok (acc ++ bps) its -> Rooms inh c0 (acc ++ bps) its -> NsOk inh (acc ++ bps) its ->
  (length (E.r_epieces ps) < fuel)%nat ->
  exists c0' c' frs' K ext,
    (let! (b0, c1) := text_loop text (parse_content_lvl text L) r fuel (sst e p (E.r_epieces ps ++ more))
                        (push_text_chunks m bacc tb_new) c in finish_text r b0 c1) = Ok c' /\
    Res inh c0 c (acc ++ bps) its ld' c0' c' frs' K ext /\ c_tag_name c' = c_tag_name c.
Proof.
  induction ps as [|pc0 rest IH]; intros bps bacc inh m e p more c0 c frs acc fuel L r its tr ld'
    Hok HW He Hle Hm Hlvl Hk Hacc Hb Hnm HO HS Hbnd Hfl Hin Hld HP HR HN Hfu.
  - (* the end of the token *)
    cbn [inline_run] in Hin. injection Hin as <- <-.
    cbn [E.r_epieces flat_map app] in *. rewrite blen_nil, N.add_0_r in He. subst p.
    destruct fuel as [|fu]; [lia|]. cbn [text_loop]. rewrite at_end_sst. replace (e <=? e) with true by lia.
    cbn [bind]. cbn [ld_run] in Hld. injection Hld as <-.
    destruct HP as [_ HP2]. cbn [walk snd] in HP2.
    destruct (buf_flush inh m bacc bps r c0 c frs acc Hacc Hb Hnm HO HS Hbnd HP2) as (c' & G & E & HO' & HS' & L1 & L2 & L3).
    { intros Z0 Z1. destruct HR as [HR _]. cbn [walk fst snd app] in HR. apply (CstFullItems.node_room_room _ _ HR).
      rewrite nsizes_flush, all_marks_app, Z0. cbn [andb].
      destruct (all_marks bps) eqn:Em; [apply (nomarks_all bps Hnm) in Em; congruence|]. lia. }
    exists c0, c', (frs ++ G), [], []. split; [exact E|]. split; [|exact L2].
    unfold Res. cbn [walk fst snd CstFullTree.dens NT.tag_list NT.nattrs_items NT.ns_costs length].
    split; [apply Stepn_refl|]. split; [exact HO'|]. split; [exact HS'|]. split; [constructor|].
    split; [reflexivity|]. split; [lia|]. split; [exact L1|]. split; [reflexivity|]. split; [exact L3|].
    unfold tn_set. rewrite L2. auto.
  - apply Forall_cons_iff in Hok. destruct Hok as [Hp Hrest]. destruct pc0 as [q|n].
    + (* a piece *)
      cbn [inline_run] in Hin. destruct (inline_run tb m rest) as [[itr trr]|] eqn:Er; [|discriminate].
      cbn [E.obind fst snd] in Hin. injection Hin as <- <-.
      cbn [E.r_epieces flat_map E.r_epiece] in *. fold (E.r_epieces rest) in *.
      rewrite <- app_assoc in HW |- *. rewrite blen_app in He.
      pose proof Hp as [Hvp _]. pose proof (chunks_le_piece_u D HD q Hvp) as Hcl. rewrite app_length in Hfu.
      replace fuel with (length (T.piece_chunks q) + (fuel - length (T.piece_chunks q)))%nat by lia.
      rewrite (loop_piece_u text D HD) by (try assumption; lia). rewrite <- Hm.
      rewrite <- push_text_chunks_app.
      destruct (IH (bps ++ [q]) (bacc ++ T.piece_chunks q) inh m e (p + blen (T.r_piece q)) more c0 c frs acc
                  (fuel - length (T.piece_chunks q))%nat L r itr trr ld') as (c0' & c' & frs' & K & ext & E & HRes & Ht);
        try assumption; try lia.
      * apply (WV_app _ _ _ _ HW (vpiece_valid 60 q Hvp)).
      * apply acc_app; [exact Hacc|apply uep_chunks; exact Hp].
      * rewrite chunks_app, Hb. f_equal. unfold chunks. cbn [flat_map]. rewrite app_nil_r. reflexivity.
      * apply Forall_app. split; [exact Hnm|]. constructor; [apply (uep_nonmark _ _ Hp)|constructor].
      * rewrite app_assoc. exact HP.
      * rewrite app_assoc. exact HR.
      * rewrite app_assoc. exact HN.
      * exists c0', c', frs', K, ext. split; [exact E|]. split; [|exact Ht].
        unfold Res in *. cbn [walk]. rewrite <- app_assoc. exact HRes.
    + (* a reference *)
      destruct Hp as [Hn Hpre].
      cbn [inline_run] in Hin. destruct (ylookup tb n) as [v|] eqn:El; [|discriminate]. cbn [E.obind] in Hin.
      destruct (inline_run tb m rest) as [[itr trr]|] eqn:Er; [|discriminate].
      cbn [E.obind fst snd] in Hin. injection Hin as <- <-.
      cbn [E.r_epieces flat_map E.r_epiece] in *. fold (E.r_epieces rest) in *.
      rewrite <- !app_assoc in HW |- *. rewrite !blen_app in He. change (blen [38]) with 1 in He. change (blen [59]) with 1 in He.
      assert (Hfd : exists d, first_xdecl decls n = Some d).
      { rewrite ylookup_level in El. destruct k; [discriminate|]. destruct (first_xdecl decls n); [eauto|discriminate]. }
      destruct Hfd as [d Hfd].
      assert (Hfd3 : first_decl decls3 n = Some (pd d)) by (rewrite first_decl_pd, Hfd; reflexivity).
      destruct (pnc_entity_u text D HD decls3 es Henv e p n (E.r_epieces rest ++ more) (pd d) HW Hn Hpre ltac:(lia) Hle Hfd3)
        as (en & Epnc & Hent).
      destruct fuel as [|fu]; [lia|].
      (* what the items stand for *)
      set (acc1 := acc ++ bps) in *.
      set (acc2 := acc1 ++ [E.mark]).
      assert (Eits : bmark :: y_items v ++ bmark :: itr = (bmark :: y_items v ++ [bmark]) ++ itr)
        by (cbn [app]; rewrite <- app_assoc; reflexivity).
      assert (Ew1 : walk acc1 (bmark :: y_items v ++ [bmark]) =
                    (fst (walk acc2 (y_items v)), snd (walk acc2 (y_items v)) ++ [E.mark])).
      { unfold bmark. cbn [walk]. fold acc2. rewrite walk_app. cbn [walk fst snd]. rewrite app_nil_r. reflexivity. }
      rewrite Eits in HP, HR, HN |- *.
      destruct (Pok_app _ _ _ HP) as [HP1 HP2]. rewrite Ew1 in HP2. cbn [snd] in HP2.
      destruct (NsOk_app _ _ _ _ HN) as [HN1 HN2]. rewrite Ew1 in HN2. cbn [snd] in HN2.
      assert (HNv : NsOk inh acc2 (y_items v)).
      { unfold NsOk in HN1 |- *. rewrite Ew1 in HN1. cbn [fst] in HN1. exact HN1. }
      assert (HPv : Pok acc2 (y_items v)).
      { destruct HP1 as [X1 X2]. rewrite Ew1 in X1, X2. cbn [fst snd] in X1, X2. split; [exact X1|].
        apply (crlf_split_app_l _ [E.mark]). exact X2. }
      pose proof (Rooms_app_l _ _ _ _ _ HR) as HR1.
      (* flush *)
      destruct (buf_flush inh m bacc bps r c0 c frs acc Hacc Hb Hnm HO HS Hbnd) as (c1 & G0 & E0 & HO1 & HS1 & L1 & L2 & L3).
      { apply (crlf_split_app_l _ [E.mark]). apply (Pok_acc _ _ HPv). }
      { intros Z0 Z1. destruct HR1 as [HR1 _]. rewrite Ew1 in HR1. cbn [fst snd] in HR1.
        apply (CstFullItems.node_room_room _ _ HR1).
        pose proof (flush_later (y_items v ++ [bmark]) acc2) as Hl.
        rewrite walk_app in Hl. unfold bmark in Hl. cbn [walk fst snd] in Hl. rewrite app_nil_r in Hl.
        assert (X : NT.nsizes (bdens (flush acc2)) = 1).
        { rewrite nsizes_flush. unfold acc2, acc1. rewrite !all_marks_app, Z0. cbn [andb].
          destruct (all_marks bps) eqn:Em; [apply (nomarks_all bps Hnm) in Em; congruence|]. reflexivity. }
        lia. }
      (* the detector *)
      cbn [ld_run] in Hld. destruct (ld_enter (c_ld c)) as [ld1|] eqn:Eenter; [|discriminate].
      rewrite ld_run_app in Hld. destruct (ld_run ld1 (y_trace v)) as [ld1'|] eqn:Erun1; [|discriminate]. cbn [ld_run] in Hld.
      destruct (enter_depth _ _ Eenter) as [Hd1 Hd10].
      (* inside the value *)
      set (c2 := set_entity_floor (set_tag_name (set_ld c1 ld1) tag_name_null) (len_N (c_parent_prefixes c1))).
      assert (HO2 : OR inh c0 c2 (frs ++ G0)) by (apply (OR_frame inh c0 c1 c2 _ HO1); unfold c2; repeat split).
      assert (HS2 : SemI text (frs ++ G0) acc2) by (apply SemI_marks; [exact HS1|reflexivity]).
      destruct (value_ok inh n v d en L c0 c2 (frs ++ G0) acc2 ld1' El Hfd Hent HO2 HS2)
        as (sv & s' & c0a & c2' & frsa & K1 & e1 & Es & Epc & HRes1).
      { unfold acc2. rewrite bnd_snoc. reflexivity. }
      { unfold c2. cbn. lia. }
      { unfold c2. cbn. lia. }
      { unfold c2. cbn. apply (ld_ok_enter _ _ Eenter Hk). }
      { unfold c2. reflexivity. }
      { unfold c2. cbn. exact Erun1. }
      { exact HPv. }
      { destruct HR1 as (X1 & X2 & X3). rewrite Ew1 in X1, X2, X3. cbn [fst snd] in X1, X2, X3. split; [|split; assumption].
        unfold node_room in *. rewrite !bdens_app, !nsizes_app in *.
        assert (Y : NT.nsizes (bdens (flush (snd (walk acc2 (y_items v))))) <=
                    NT.nsizes (bdens (flush (snd (walk acc2 (y_items v)) ++ [E.mark])))).
        { rewrite !nsizes_flush, all_marks_app. change (all_marks [E.mark]) with true. rewrite andb_true_r. apply N.le_refl. }
        lia. }
      { exact HNv. }
      pose proof HRes1 as (S1 & O1 & M1 & F1 & Le1 & Nc1 & D1 & D1' & Fl1 & T1).
      (* back from the value *)
      assert (Hpp : len_N (c_parent_prefixes c2') = c_entity_floor c2').
      { rewrite Fl1. change (c_entity_floor c2) with (len_N (c_parent_prefixes c1)).
        rewrite (CstEntText.Run_pp _ _ _ (or_run _ _ _ _ O1)), (CstEntText.Run_pp _ _ _ (or_run _ _ _ _ HO1)).
        destruct S1 as (_ & _ & ->). reflexivity. }
      rewrite (ref_step text (parse_content_lvl text L) r fu (sst e p ([38] ++ n ++ [59] ++ E.r_epieces rest ++ more))
                 (push_text_chunks m bacc tb_new) c (en_value en) (sst e (p + 2 + blen n) (E.r_epieces rest ++ more)) c1 ld1 sv s' c2');
        try assumption.
      2:{ rewrite at_end_sst. lia. }
      2:{ rewrite (or_es _ _ _ _ HO). exact Epnc. }
      2:{ rewrite L1. exact Eenter. }
      set (c3 := set_ld (set_entity_floor (set_tag_name c2' (c_tag_name c1)) (c_entity_floor c1)) (dec_depth (c_ld c2'))).
      assert (HO3 : OR inh c0a c3 frsa) by (apply (OR_frame inh c0a c2' c3 _ O1); unfold c3; repeat split).
      assert (Eld3 : c_ld c3 = dec_depth ld1') by (unfold c3; cbn; rewrite D1; reflexivity).
      assert (Hdd : ld_depth (dec_depth ld1') = ld_depth (c_ld c)).
      { unfold dec_depth. cbn [ld_depth]. rewrite D1'. unfold c2. cbn [c_ld set_entity_floor set_tag_name set_ld].
        rewrite Hd1. replace (0 <? ld_depth (c_ld c) + 1) with true by lia. lia. }
      (* the entity as a whole *)
      assert (HResE : Res inh c0 c acc1 (bmark :: y_items v ++ [bmark]) (dec_depth ld1') c0a c3 frsa K1 e1).
      { unfold Res. rewrite Ew1. cbn [fst snd].
        split; [exact S1|]. split; [exact HO3|]. split; [apply SemI_marks; [exact M1|reflexivity]|].
        split; [exact F1|]. split; [exact Le1|]. split; [exact Nc1|]. split; [exact Eld3|]. split; [exact Hdd|].
        split; [unfold c3; cbn; exact L3|]. unfold tn_set, c3. cbn. rewrite L2. auto. }
      (* the rest of the token *)
      assert (HWn : WV (p + 2 + blen n) (E.r_epieces rest ++ more)).
      { pose proof (WV_cons _ _ _ _ HW ltac:(lia)) as X1. cbn [app] in X1.
        destruct (uname_bytes n Hn) as (Hun & _). pose proof (WV_app _ _ _ _ X1 (ustr_valid _ Hun)) as X2.
        pose proof (WV_cons _ _ _ _ X2 ltac:(lia)) as X3.
        replace (p + 2 + blen n) with (p + 1 + blen n + 1) by lia. exact X3. }
      destruct (IH [] [] inh m e (p + 2 + blen n) more c0a c3 frsa (snd (walk acc2 (y_items v)) ++ [E.mark]) fu L r itr trr ld')
        as (c0' & c' & frs' & K2 & e2 & E' & HRes2 & Ht2); try assumption.
      * lia.
      * rewrite Eld3, Hdd. exact Hm.
      * rewrite Eld3, Hdd. exact Hlvl.
      * rewrite Eld3. apply ld_ok_dec. apply (ld_ok_run _ _ _ Erun1). apply (ld_ok_enter _ _ Eenter Hk).
      * apply acc_nil.
      * reflexivity.
      * constructor.
      * apply SemI_marks; [exact M1|reflexivity].
      * rewrite bnd_snoc. reflexivity.
      * unfold c3. cbn [c_entity_floor c_parent_prefixes set_ld set_entity_floor set_tag_name].
        rewrite (CstEntText.Run_pp _ _ _ (or_run _ _ _ _ O1)). destruct S1 as (_ & _ & ->). rewrite L3.
        rewrite <- (CstEntText.Run_pp _ _ _ (or_run _ _ _ _ HO)). exact Hfl.
      * rewrite Eld3. exact Hld.
      * rewrite app_nil_r. exact HP2.
      * rewrite app_nil_r. pose proof (Rooms_app_r _ _ _ _ _ _ _ _ _ _ _ _ HResE HR) as X. rewrite Ew1 in X. exact X.
      * rewrite app_nil_r. exact HN2.
      * rewrite !app_length in Hfu. cbn [length] in Hfu. lia.
      * exists c0', c', frs', (K1 ++ K2), (e1 ++ e2). cbn [push_text_chunks] in E'. split; [exact E'|].
        split.
        { apply (Res_app _ _ _ _ _ _ _ _ _ _ _ _ _ _ _ _ _ _ HResE). rewrite Ew1. cbn [snd].
          rewrite app_nil_r in HRes2. exact HRes2. }
        rewrite Ht2. unfold c3. cbn. exact L2.
Qed.

End Level.

End Machine.

Print Assumptions value_ok.
Print Assumptions TLc.
