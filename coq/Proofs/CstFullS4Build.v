(* Proofs/CstFullS4Build.v -- the capstone fragment, stage S4: the namespace-aware builder in ANY context that can occur
   while the value of an entity is read (entity floor, loop detector and the level of the callback are arbitrary).
   As in Proofs/CstEntCBuild.v the invariants and steps (here those of Proofs/CstNsBuild.v) are stated of the SHADOW
   [sh c] of a context (floor 0, fresh detector), and what a token does to c is what it does to the shadow, put back:
   [evl_shadow] for the tokens that look neither at the detector nor at the text callback, [attr_transport] for an
   attribute whose value is normalised in the same way at both places.  So the start tag of Proofs/CstFullBuild.v
   ([start_tag_ok_g]), the leaves and the end tag of Proofs/CstNsBuild.v are used as they are. *)
From Coq Require Import Ascii String.
From Coq Require Import List NArith PeanoNat Bool Lia ZifyBool ZifyN ZifyNat.
Import ListNotations.
From RX Require Import Generated.
From RX.Model Require Import Base CharClass Stream Tokenizer Doc Builder Parse.
From RX.Spec Require Cst CstText CstEnt Detector Scope CstNs CstFull.
From RX.Spec Require Import Text.
From RX.Proofs Require Import Tactics CstLex CstBuild CstNsLex CstNsView CstNsBuild CstFullBuild.
From RX.Proofs Require Import CstEntText CstEntCFloor CstEntCBuild CstFullS2Build.
Open Scope N_scope.

Import CstNs.

(* x with floor f and detector l *)
Definition bk (f : N) (l : loop_detector) (y : context) : context := set_ld (set_entity_floor y f) l.

Lemma bk_sh c : bk (c_entity_floor c) (c_ld c) (sh c) = c.
Proof. destruct c. reflexivity. Qed.

Lemma sh_bk f l y : c_entity_floor y = 0 -> c_ld y = ld_init -> sh (bk f l y) = y.
Proof. destruct y. cbn. intros -> ->. reflexivity. Qed.

Lemma bk_back c y : back c y = bk (c_entity_floor c) (c_ld c) y.
Proof. reflexivity. Qed.

Lemma bk_floor f l y : c_entity_floor (bk f l y) = f. Proof. reflexivity. Qed.
Lemma bk_ld f l y : c_ld (bk f l y) = l. Proof. reflexivity. Qed.
Lemma bk_entities f l y : c_entities (bk f l y) = c_entities y. Proof. reflexivity. Qed.

(* ------------------------------------------------------------------------------------------ *)
(* invariants and steps only look at the frame, the floor and the detector                    *)
(* ------------------------------------------------------------------------------------------ *)
Section FrameN.
Variable text : bytes.
Variable D : list Scope.binding.
Notation CIn := (CstNsBuild.CIn text D).

Lemma CIn_frame inh a b0 : same_frame a b0 -> c_entity_floor b0 = 0 -> CIn inh a -> CIn inh b0.
Proof.
  intros (H1 & H2 & H3 & H4 & H5 & H6 & H7 & H8 & H9) Hf [A1 A2 A3 A4 A5 A6 A7 A8 A9 A10].
  constructor; rewrite <- ?H9, <- ?H8, <- ?H7, <- ?H5, <- ?H4, <- ?H3, <- ?H2; assumption.
Qed.

Lemma Step0n_frame a b0 b' K ext : same_frame b0 b' -> c_entity_floor b' = c_entity_floor b0 -> c_ld b' = c_ld b0 ->
  Step0n a b0 K ext -> Step0n a b' K ext.
Proof.
  intros (H1 & H2 & H3 & H4 & H5 & H6 & H7 & H8 & H9) Hf Hl [(K1 & K2 & K3 & K4) S2 S3 S4 S5].
  constructor; [|congruence|rewrite <- H9; assumption|rewrite <- H9; assumption|rewrite <- H9; assumption].
  unfold Keepn. rewrite <- H1, <- H6, Hf, Hl. repeat split; assumption.
Qed.

Lemma Stepn_frame a b0 b' K ext : same_frame b0 b' -> c_entity_floor b' = c_entity_floor b0 -> c_ld b' = c_ld b0 ->
  Stepn a b0 K ext -> Stepn a b' K ext.
Proof.
  intros F Hf Hl [S [P1 P2]]. split; [apply (Step0n_frame _ _ _ _ _ F Hf Hl S)|].
  destruct F as (H1 & H2 & H3 & H4 & H5 & H6 & H7 & H8 & H9). split; congruence.
Qed.

Lemma Step0n_frame_l a a' b0 K ext : same_frame a a' -> c_entity_floor a' = c_entity_floor a -> c_ld a' = c_ld a ->
  Step0n a b0 K ext -> Step0n a' b0 K ext.
Proof.
  intros (H1 & H2 & H3 & H4 & H5 & H6 & H7 & H8 & H9) Hf Hl [(K1 & K2 & K3 & K4) S2 S3 S4 S5].
  constructor; [|congruence|rewrite <- H9; assumption|rewrite <- H9; assumption|rewrite <- H9; assumption].
  unfold Keepn. rewrite <- H1, <- H6, Hf, Hl. repeat split; assumption.
Qed.

Lemma Stepn_frame_l a a' b0 K ext : same_frame a a' -> c_entity_floor a' = c_entity_floor a -> c_ld a' = c_ld a ->
  Stepn a b0 K ext -> Stepn a' b0 K ext.
Proof.
  intros F Hf Hl [S [P1 P2]]. split; [apply (Step0n_frame_l _ _ _ _ _ F Hf Hl S)|].
  destruct F as (H1 & H2 & H3 & H4 & H5 & H6 & H7 & H8 & H9). split; congruence.
Qed.

End FrameN.

(* ------------------------------------------------------------------------------------------ *)
(* what a token keeps                                                                         *)
(* ------------------------------------------------------------------------------------------ *)
Section Keeps.
Variable text : bytes.

Lemma fl_id c : fl (c_entity_floor c) c = c.
Proof. destruct c. reflexivity. Qed.
Lemma sld_id c : sld (c_ld c) c = c.
Proof. destruct c. reflexivity. Qed.

(* a token that is neither Text nor Attribute keeps the floor and the detector *)
Lemma plain_keeps ptext tk c c' : plain_tok tk ->
  token_with text ptext tk c = Ok c' -> c_entity_floor c' = c_entity_floor c /\ c_ld c' = c_ld c.
Proof.
  intros [Hnt Hna] E.
  assert (Hcl : forall e r, tk = TElementEnd e r -> close_agrees (c_entity_floor c) e c) by (intros e r _; destruct e; reflexivity).
  pose proof (fl_token text (c_entity_floor c) ptext tk c Hnt Hcl) as F. rewrite fl_id, E in F. cbn [rmap] in F.
  pose proof (sl_token text (c_ld c) ptext tk c Hnt Hna) as L. rewrite sld_id, E in L. cbn [rmap] in L.
  injection F as F. injection L as L. split; [rewrite F|rewrite L]; reflexivity.
Qed.

Lemma reset_entities c c' : reset_after_text text c = Ok c' -> c_entities c' = c_entities c.
Proof.
  unfold reset_after_text. destruct (c_after_text c) as [|x [|y l]].
  - intros E. injection E as <-. reflexivity.
  - intros E. injection E as <-. reflexivity.
  - unfold merge_text. destruct (rev (d_nodes (c_doc c))); [discriminate|].
    destruct (nd_kind n); try discriminate. cbn [bind].
    destruct (upd_node _ _ _); cbn [bind]; try discriminate. intros E. injection E as <-. reflexivity.
Qed.

Lemma start_entities ptext pr lo st c c' : token_with text ptext (TElementStart pr lo st) c = Ok c' -> c_entities c' = c_entities c.
Proof.
  cbn [token_with]. destruct (reset_after_text text c) as [c1| | |] eqn:E1; cbn [bind]; try discriminate.
  destruct (bytes_eqb _ _).
  - unfold err_from. match goal with |- context [bind ?x _] => destruct x end; discriminate.
  - intros E. injection E as <-. cbn. apply (reset_entities _ _ E1).
Qed.

(* an attribute: what its value is normalised to decides *)
Lemma err_from_not_ok {A} p mk (x : A) : err_from text p mk = Ok x -> False.
Proof. unfold err_from. destruct (gen_text_pos_from text p); discriminate. Qed.

Lemma attr_result r ql el pr lo v c stor c1 c' (P : context -> Prop) :
  normalize_attribute text v c = Ok (stor, c1) ->
  (forall d, P (set_doc c1 d)) -> P c1 -> (forall a, P (set_cur_attrs c1 a)) ->
  process_attribute text r ql el pr lo v c = Ok c' -> P c'.
Proof.
  intros En P1 P2 P3 E. unfold process_attribute in E. rewrite En in E. cbn [bind] in E. cbv zeta in E.
  repeat match type of E with
  | (if ?b then _ else _) = _ => destruct b
  | bind ?x _ = _ => destruct x; cbn [bind] in E; try discriminate E
  | err_from _ _ _ = Ok _ => exfalso; apply (err_from_not_ok _ _ _ E)
  | Ok _ = Ok _ => injection E as <-
  end; auto.
Qed.

Lemma attr_keeps r ql el pr lo v c stor c1 c' :
  normalize_attribute text v c = Ok (stor, c1) -> process_attribute text r ql el pr lo v c = Ok c' ->
  c_entity_floor c' = c_entity_floor c1 /\ c_ld c' = c_ld c1 /\ c_entities c' = c_entities c1.
Proof.
  intros En E.
  apply (attr_result r ql el pr lo v c stor c1 c'
           (fun x => c_entity_floor x = c_entity_floor c1 /\ c_ld x = c_ld c1 /\ c_entities x = c_entities c1) En); try exact E;
    intros; repeat split.
Qed.

(* an attribute whose value is normalised to the same storage at c and at its shadow *)
Lemma attr_transport lvl r ql el pr lo v c stor ld1 :
  normalize_attribute text v c = Ok (stor, set_ld c ld1) ->
  normalize_attribute text v (sh c) = Ok (stor, sh c) ->
  evl text lvl (TAttribute r ql el pr lo v) c =
  rmap (bk (c_entity_floor c) ld1) (CstBuild.tok_ev text (TAttribute r ql el pr lo v) (sh c)).
Proof.
  intros E1 E2. unfold evl, CstBuild.tok_ev, Parse.token. cbn [token_with]. unfold process_attribute.
  rewrite E1, E2. cbn [bind]. destruct c. cbn. brk.
Qed.

End Keeps.

(* ------------------------------------------------------------------------------------------ *)
(* start tags at any depth                                                                    *)
(* ------------------------------------------------------------------------------------------ *)
Section StartN.
Variable text : bytes.
Variable D : list Scope.binding.
Hypothesis HD : forall l, NoDup l -> incl l D -> N.of_nat (length l) <= 65535.
Variable es0 : list entity.

Notation W := (CstLex.W text).
Notation ev := (CstBuild.tok_ev text).
Notation evl := (CstEntCBuild.evl text).
Notation CIn := (CstNsBuild.CIn text D).
Notation kmn := (CstNsBuild.kmn text).

(* the value at v is normalised to stor by a context with the entities es0 and the detector ld, which becomes ld1 *)
Definition NormAt (ld : loop_detector) (v : slice) (stor : storage) (ld1 : loop_detector) : Prop :=
  forall c, c_entities c = es0 -> c_ld c = ld -> normalize_attribute text v c = Ok (stor, set_ld c ld1).

Fixpoint norms (q : N) (xs : list sentry) (ld ld' : loop_detector) : Prop :=
  match xs with
  | [] => ld' = ld
  | x :: r => exists ld1, NormAt ld (vsl q (s_raw x)) (s_stor x) ld1 /\ norms (q + blen (r_entry (s_raw x))) r ld1 ld'
  end.

Lemma set_ld_id c : set_ld c (c_ld c) = c.
Proof. destruct c. reflexivity. Qed.

Lemma entries_transport lvl : forall xs q c ld',
  sentries_ok text es0 q xs -> norms q xs (c_ld c) ld' -> c_entities c = es0 ->
  evs context (evl lvl) (entry_toks q (raws xs)) c =
  rmap (bk (c_entity_floor c) ld') (evs context ev (entry_toks q (raws xs)) (sh c)).
Proof.
  induction xs as [|x xs IH]; intros q c ld' Hok Hn Hes.
  - cbn [norms] in Hn. subst ld'. cbn [raws map entry_toks evs rmap]. rewrite bk_sh. reflexivity.
  - destruct Hok as [(Hsh & Hnorm & Hst) Hok']. destruct Hn as (ld1 & N1 & Hn').
    cbn [raws map entry_toks evs]. fold (raws xs).
    assert (E2 : normalize_attribute text (vsl q (s_raw x)) (sh c) = Ok (s_stor x, sh c)).
    { apply Hnorm. split; [exact Hes|reflexivity]. }
    unfold entry_tok. cbv zeta.
    match goal with |- context [TAttribute ?r ?ql ?el ?pr ?lo ?v] =>
      change v with (vsl q (s_raw x)); rewrite (attr_transport text lvl r ql el pr lo (vsl q (s_raw x)) c (s_stor x) ld1 (N1 c Hes eq_refl) E2);
      destruct (CstBuild.tok_ev text (TAttribute r ql el pr lo (vsl q (s_raw x))) (sh c)) as [x1| | |] eqn:Ex; cbn [rmap bind]; try reflexivity;
      destruct (attr_keeps text r ql el pr lo (vsl q (s_raw x)) (sh c) (s_stor x) (sh c) x1 E2 Ex) as (K1 & K2 & K3)
    end.
    rewrite (IH (q + blen (r_entry (s_raw x))) (bk (c_entity_floor c) ld1 x1) ld' Hok' Hn' ltac:(rewrite bk_entities, K3; exact Hes)).
    rewrite bk_floor, (sh_bk _ _ x1 K1 K2). reflexivity.
Qed.

Lemma start_tag_gn lvl inh p name xs ws_end empty post c ld' :
  W p ([60] ++ r_qname name ++ flat_map r_entry (raws xs) ++ ws_end ++ tag_tail empty ++ post) ->
  let own := own_bindings (CstFullBuild.dens xs) in
  let sc := Scope.scope_of own inh in
  q_local name <> [] -> Scope.bytes_eqb (q_prefix name) xmlns_b = false ->
  sentries_ok text es0 (p + 1 + blen (r_qname name)) xs ->
  norms (p + 1 + blen (r_qname name)) xs (c_ld c) ld' ->
  forallb CstFull.ns_entry_ok (CstFullBuild.dens xs) = true -> Scope.prefixes_unique own = true ->
  is_bound (Scope.resolve_elem sc (q_prefix name)) = true ->
  forallb (fun e => match e with EAttr _ n _ => is_bound (Scope.resolve_attr sc (q_prefix n)) | EDecl _ _ _ => true end) (CstFullBuild.dens xs) = true ->
  enames_distinct (map (fun a => (fst (fst a), snd (fst a))) (sem_attrs sc (CstFullBuild.dens xs))) = true ->
  incl own D ->
  CIn inh (sh c) -> c_entities c = es0 -> room c ->
  len_N (d_attrs (c_doc c)) + N.of_nat (length (sem_attrs sc (CstFullBuild.dens xs))) < u32_max ->
  len_N (d_ns_tree (c_doc c)) + own_cost own sc <= u32_max ->
  let q' := p + 1 + blen (r_qname name) + blen (flat_map r_entry (raws xs)) + blen ws_end in
  let id := len_N (d_nodes (c_doc c)) in
  exists c' kind ext,
    (let! c1 := evs context (evl lvl) (start_toks_ns p name (raws xs)) c in evl lvl (end_tok q' empty) c1) = Ok c' /\
    Step0n (sh c) (sh c') [(Some (c_parent_id c), kind)] ext /\ length ext = length (sem_attrs sc (CstFullBuild.dens xs)) /\
    (forall m, kmn (c_doc c') (Some (c_parent_id c), kind)
                 (c_parent_id c, VElem (ns_of (Scope.resolve_elem sc (q_prefix name))) (q_local name) (sem_attrs sc (CstFullBuild.dens xs)) sc m)) /\
    c_after_text c' = [] /\ tn_set c' /\
    len_N (d_ns_tree (c_doc c')) = len_N (d_ns_tree (c_doc c)) + own_cost own sc /\
    c_ld c' = ld' /\ c_entity_floor c' = c_entity_floor c /\
    if empty
    then CIn inh (sh c') /\ c_parent_id c' = c_parent_id c /\ c_parent_prefixes c' = c_parent_prefixes c
    else CIn sc (sh c') /\ c_parent_id c' = id /\
         c_parent_prefixes c' = c_parent_prefixes c ++ [sl (p + 1) (p + 1 + blen (q_prefix name))] /\
         c_awaiting c' = [].
Proof.
  intros HW own sc Hn N1 Hok Hnorms Hns N6 N2e N2a N7 HinD I Hes R Hlim Hnsc q' id.
  destruct (start_tag_ok_g text D HD es0 inh p name xs ws_end empty post (sh c) HW Hn N1 Hok Hns N6 N2e N2a N7 HinD I
              ltac:(split; [exact Hes|reflexivity]) R Hlim Hnsc)
    as (x' & kind & ext & E & S & Lext & Hkm & Hat & Htn & Lns & Hfin).
  fold q' in E.
  destruct (sn_keep _ _ _ _ S) as (_ & _ & Kf & Kl). change (c_entity_floor (sh c)) with 0 in Kf. change (c_ld (sh c)) with ld_init in Kl.
  exists (bk (c_entity_floor c) ld' x'), kind, ext.
  rewrite (sh_bk _ _ x' Kf Kl).
  split.
  { unfold start_toks_ns in *. cbn [evs] in *.
    (* ElementStart *)
    match goal with |- context [evl lvl ?tk c] => set (tk0 := tk) in * end.
    assert (Hp0 : plain_tok tk0) by (split; discriminate).
    rewrite (evl_shadow text lvl tk0 c Hp0) by (intros pr lo r0 Ht; discriminate Ht).
    destruct (ev tk0 (sh c)) as [x0| | |] eqn:E0; cbn [bind rmap] in E |- *; try discriminate.
    destruct (plain_keeps text (process_text text) tk0 (sh c) x0 Hp0 E0) as [F0 L0].
    pose proof (start_entities text (process_text text) _ _ _ _ _ E0) as Es0.
    change (c_entity_floor (sh c)) with 0 in F0. change (c_ld (sh c)) with ld_init in L0. change (c_entities (sh c)) with (c_entities c) in Es0.
    rewrite bk_back.
    (* the entries *)
    rewrite (entries_transport lvl xs _ (bk (c_entity_floor c) (c_ld c) x0) ld' Hok Hnorms ltac:(rewrite bk_entities, Es0; exact Hes)).
    rewrite bk_floor, (sh_bk _ _ x0 F0 L0).
    destruct (evs context ev (entry_toks (p + 1 + blen (r_qname name)) (raws xs)) x0) as [x1| | |] eqn:E1; cbn [bind rmap] in E |- *; try discriminate.
    (* ElementEnd *)
    assert (Hp1 : plain_tok (end_tok q' empty)) by (split; discriminate).
    assert (K1 : c_entity_floor x1 = 0 /\ c_ld x1 = ld_init).
    { destruct (plain_keeps text (process_text text) (end_tok q' empty) x1 x' Hp1 E) as [A B0]. split; congruence. }
    destruct K1 as [F1 L1].
    rewrite (evl_shadow text lvl (end_tok q' empty) _ Hp1) by (intros pr lo r0 Ht; unfold end_tok in Ht; destruct empty; discriminate Ht).
    rewrite (sh_bk _ _ x1 F1 L1), E. cbn [rmap]. rewrite bk_back, bk_floor, bk_ld. reflexivity. }
  change (sh c) with (sh c) in S.
  split; [exact S|]. split; [exact Lext|]. split; [exact Hkm|]. split; [exact Hat|]. split; [exact Htn|].
  split; [exact Lns|]. split; [reflexivity|]. split; [reflexivity|].
  destruct empty; exact Hfin.
Qed.

End StartN.

(* ------------------------------------------------------------------------------------------ *)
(* the open run, leaves and end tags at any depth                                             *)
(* ------------------------------------------------------------------------------------------ *)
Section GenN.
Variable text : bytes.
Variable D : list Scope.binding.
Hypothesis HD : forall l, NoDup l -> incl l D -> N.of_nat (length l) <= 65535.

Notation ev := (CstBuild.tok_ev text).
Notation evl := (CstEntCBuild.evl text).
Notation CIn := (CstNsBuild.CIn text D).

(* c0: the context before the run; K: the Text node of the run if there is one *)
Lemma flush_run_n inh c0 c frs : CIn inh c0 -> c_after_text c0 = [] -> c_entity_floor c0 = 0 -> c_ld c0 = ld_init -> Run c0 c frs ->
  exists cr K,
    reset_after_text text c = Ok cr /\ c_after_text cr = [] /\ Stepn c0 (sh cr) K [] /\ CIn inh (sh cr) /\
    c_ld cr = c_ld c /\ c_tag_name cr = c_tag_name c /\ c_entity_floor cr = c_entity_floor c /\
    d_ns_tree (c_doc cr) = d_ns_tree (c_doc c0) /\
    match frs with
    | [] => K = []
    | _ => exists st, K = [(Some (c_parent_id c0), KText st)] /\
                     storage_bytes text st = concat (map (cow_bytes text) frs)
    end.
Proof.
  intros I Hat Hf Hl HR. destruct frs as [|t0 rest]; cbn [Run] in HR.
  - pose proof HR as (H1 & H2 & H3 & H4 & H5 & H6 & H7 & H8 & H9).
    assert (Hatc : c_after_text c = []) by (rewrite <- H7; exact Hat).
    exists c, []. split; [unfold reset_after_text; rewrite Hatc; reflexivity|]. split; [exact Hatc|].
    assert (F : same_frame c0 (sh c)) by (eapply same_frame_trans; [exact HR|apply sh_frame]).
    split; [apply (Stepn_frame c0 c0 (sh c) [] [] F); [rewrite Hf; reflexivity|rewrite Hl; reflexivity|apply Stepn_refl]|].
    split; [apply (CIn_frame text D inh c0 (sh c) F eq_refl I)|]. split; [reflexivity|]. split; [reflexivity|]. split; [reflexivity|].
    split; [rewrite <- H9; reflexivity|reflexivity].
  - destruct HR as (nodes' & M & S).
    destruct (run_reset_n text D HD inh c0 nodes' t0 rest I M) as (c2 & stg & E2 & S2 & I2 & A2 & T2 & Tr2 & B2).
    destruct (reset_frame text _ c c2 S E2) as (cr & Er & Fr & L1 & L2 & L3).
    assert (F : same_frame c2 (sh cr)) by (eapply same_frame_trans; [exact Fr|apply sh_frame]).
    destruct (sn_keep _ _ _ _ (proj1 S2)) as (_ & _ & K4 & K5).
    exists cr, [(Some (c_parent_id c0), KText stg)]. split; [exact Er|].
    split; [destruct Fr as (_ & _ & _ & _ & _ & _ & F7 & _); rewrite <- F7; exact A2|].
    split; [apply (Stepn_frame c0 c2 (sh cr) _ _ F); [rewrite K4, Hf; reflexivity|rewrite K5, Hl; reflexivity|exact S2]|].
    split; [apply (CIn_frame text D inh c2 (sh cr) F eq_refl I2)|].
    split; [exact L1|]. split; [exact L2|]. split; [exact L3|].
    split; [destruct Fr as (_ & _ & _ & _ & _ & _ & _ & _ & F9); rewrite <- F9; exact Tr2|].
    exists stg. split; [reflexivity|exact B2].
Qed.

(* ---- comments and processing instructions ---- *)
Lemma leaf_shadow_n lvl inh tk kind c :
  plain_tok tk -> (forall pr lo r, tk <> TElementEnd (EClose pr lo) r) ->
  (forall x, CIn inh x -> room x -> exists x', ev tk x = Ok x' /\ Stepn x x' [(Some (c_parent_id x), kind)] [] /\ CIn inh x' /\
                                          c_after_text x' = [] /\ c_tag_name x' = c_tag_name x /\ d_ns_tree (c_doc x') = d_ns_tree (c_doc x)) ->
  CIn inh (sh c) -> room c ->
  exists c', evl lvl tk c = Ok c' /\ Stepn (sh c) (sh c') [(Some (c_parent_id c), kind)] [] /\ CIn inh (sh c') /\
             c_after_text c' = [] /\ c_tag_name c' = c_tag_name c /\ c_ld c' = c_ld c /\ c_entity_floor c' = c_entity_floor c /\
             d_ns_tree (c_doc c') = d_ns_tree (c_doc c).
Proof.
  intros Hp Hnc Hx I R. destruct (Hx (sh c) I R) as (x' & E & S & I' & A & T & Tr).
  rewrite (evl_shadow text lvl tk c Hp) by (intros pr lo r Et; exfalso; apply (Hnc pr lo r Et)).
  rewrite E. cbn [rmap]. exists (back c x').
  destruct (sn_keep _ _ _ _ (proj1 S)) as (_ & _ & K4 & K5).
  rewrite (sh_back c x') by (rewrite ?K4, ?K5; reflexivity).
  split; [reflexivity|]. split; [exact S|]. split; [exact I'|]. repeat split; assumption.
Qed.

Lemma tok_comment_gn lvl inh s r c : CIn inh (sh c) -> room c ->
  exists c', evl lvl (TComment s r) c = Ok c' /\ Stepn (sh c) (sh c') [(Some (c_parent_id c), KComment s)] [] /\ CIn inh (sh c') /\
             c_after_text c' = [] /\ c_tag_name c' = c_tag_name c /\ c_ld c' = c_ld c /\ c_entity_floor c' = c_entity_floor c /\
             d_ns_tree (c_doc c') = d_ns_tree (c_doc c).
Proof.
  apply leaf_shadow_n; [split; discriminate|discriminate|]. intros x. apply (tokn_comment text D HD).
Qed.

Lemma tok_pi_gn lvl inh t v r c : CIn inh (sh c) -> room c ->
  exists c', evl lvl (TPI t v r) c = Ok c' /\ Stepn (sh c) (sh c') [(Some (c_parent_id c), KPI t v)] [] /\ CIn inh (sh c') /\
             c_after_text c' = [] /\ c_tag_name c' = c_tag_name c /\ c_ld c' = c_ld c /\ c_entity_floor c' = c_entity_floor c /\
             d_ns_tree (c_doc c') = d_ns_tree (c_doc c).
Proof.
  apply leaf_shadow_n; [split; discriminate|discriminate|]. intros x. apply (tokn_pi text D HD).
Qed.

(* ---- end tags ---- *)
Lemma close_tag_gn lvl inh sc pfx loc r c opid ns lsl ar nss name pp px :
  CIn sc (sh c) ->
  nth_error (absn (c_doc c)) (N.to_nat (c_parent_id c)) = Some (Some opid, KElement ns lsl ar nss) ->
  slice_bytes text lsl = q_local name -> slice_bytes text loc = q_local name ->
  slice_bytes text pfx = q_prefix name ->
  c_parent_prefixes c = pp ++ [px] -> pp <> [] -> slice_bytes text px = q_prefix name ->
  tn_set c -> c_entity_floor c <= len_N pp ->
  opid < len_N (d_nodes (c_doc c)) ->
  (exists par k, nth_error (absn (c_doc c)) (N.to_nat opid) = Some (par, k) /\ CstNsBuild.par_ok text (c_doc c) inh k) ->
  Scope.prefixes_unique inh = true ->
  exists c', evl lvl (TElementEnd (EClose pfx loc) r) c = Ok c' /\
    Step0n (sh c) (sh c') [] [] /\ CIn inh (sh c') /\ c_parent_id c' = opid /\ c_parent_prefixes c' = pp /\
    c_after_text c' = [] /\ c_tag_name c' = c_tag_name c /\ c_ld c' = c_ld c /\ c_entity_floor c' = c_entity_floor c /\
    d_ns_tree (c_doc c') = d_ns_tree (c_doc c).
Proof.
  intros I Erow Hl Hloc Hpfx Hpp Hppne Hpx Htn Hfl Hop Hopar Hu.
  destruct (close_tag_ok_ns text D HD inh sc pfx loc r (sh c) opid ns lsl ar nss name pp px I Erow Hl Hloc Hpfx Hpp Hppne Hpx Htn Hop Hopar Hu)
    as (x' & E & S & I' & P1 & P2 & A & T & Tr).
  rewrite (evl_shadow text lvl _ c); [|split; discriminate|].
  2:{ intros pr lo r0 _. rewrite Hpp, len_N_app. change (len_N [px]) with 1. lia. }
  rewrite E. cbn [rmap]. exists (back c x').
  destruct (sn_keep _ _ _ _ S) as (_ & _ & K4 & K5).
  rewrite (sh_back c x') by (rewrite ?K4, ?K5; reflexivity).
  split; [reflexivity|]. split; [exact S|]. split; [exact I'|]. repeat split; assumption.
Qed.

End GenN.

Print Assumptions flush_run_n.
Print Assumptions close_tag_gn.

Print Assumptions attr_transport.
Print Assumptions start_tag_gn.
