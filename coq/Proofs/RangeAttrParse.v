(* Proofs/RangeAttrParse.v -- C13 (attribute sub-ranges), part 3: the builder stores the pieces
   of an attribute token unchanged, and the theorem about range_qname / range_value. *)
From Coq Require Import Ascii String.
From Coq Require Import List Arith NArith Bool Lia ZifyBool ZifyN ZifyNat.
Import ListNotations.
From RX Require Import Generated.
From RX.Model Require Import Base CharClass Stream Tokenizer Doc Builder Parse Api.
From RX.Proofs Require Import Tactics NoPanicUtf8 NoPanicStream NoPanicTokenizer BorrowLocal BorrowParse
  RangeTokenizer RangeArena RangeInv RangeBuilder RangeParse RangeAttrLocal RangeAttrTok.
Open Scope N_scope.

Section WithText.
Variable text : bytes.
Hypothesis Hvalid : valid_utf8_b text = true.
Notation stream := Stream.stream.

Definition val_rel (st : storage) (vs : slice) : Prop := forall v, st = Borrowed (SIn v) -> v = vs.
Definition attr_rel (a : attr_data) : Prop :=
  ARel text (ad_range a) (ad_qname_len a) (ad_eq_len a) (ad_local a) (val_rel (ad_value a)).
Definition tattr_rel (a : temp_attr) : Prop :=
  ARel text (ta_range a) (ta_qname_len a) (ta_eq_len a) (ta_local a) (val_rel (ta_value a)).

Definition AA (c : context) : Prop :=
  Forall attr_rel (d_attrs (c_doc c)) /\ Forall tattr_rel (c_cur_attrs c) /\
  Forall (ent_ok text) (c_entities c).

Definition same3 (c c' : context) : Prop :=
  d_attrs (c_doc c') = d_attrs (c_doc c) /\ c_cur_attrs c' = c_cur_attrs c /\
  c_entities c' = c_entities c.

Lemma same3_refl c : same3 c c.
Proof. unfold same3; auto. Qed.
Lemma same3_trans a b c : same3 a b -> same3 b c -> same3 a c.
Proof. unfold same3. intros (A1 & A2 & A3) (B1 & B2 & B3). repeat split; congruence. Qed.
Lemma AA_same3 c c' : AA c -> same3 c c' -> AA c'.
Proof. unfold AA. intros H (E1 & E2 & E3). rewrite E1, E2, E3. exact H. Qed.
Lemma same_all_same3 c c' : same_all c c' -> same3 c c'.
Proof. intros (_ & (E1 & E2 & _) & E3 & _). unfold same3. auto. Qed.

Ltac cproj :=
  cbn [c_opt c_ns_start_idx c_cur_attrs c_awaiting c_parent_prefixes c_entities c_after_text
       c_parent_id c_tag_name c_entity_floor c_ld c_doc
       set_doc set_ns_start_idx set_cur_attrs set_awaiting set_parent_prefixes set_entities
       set_after_text set_parent_id set_tag_name set_entity_floor set_ld
       d_nodes d_attrs d_ns_values d_ns_tree set_nodes set_attrs fst snd] in *.

Ltac s3 := unfold same3; cproj; auto.

Lemma merge_text_same3 c : okP (merge_text text c) (same3 c).
Proof.
  eapply okP_weaken; [apply merge_text_nodes|]. intros c' (nodes' & -> & _). s3.
Qed.

Lemma reset_after_text_same3 c : okP (reset_after_text text c) (same3 c).
Proof.
  unfold reset_after_text. destruct (c_after_text c) as [|x [|y l]].
  - apply okP_ret. apply same3_refl.
  - apply okP_ret. s3.
  - eapply okP_bind; [apply merge_text_same3|]. intros c1 H1. apply okP_ret.
    eapply same3_trans; [exact H1|]. s3.
Qed.

Lemma append_node_same3 kind r c : okP (append_node kind r c) (fun x => same3 c (snd x)).
Proof. unfold append_node. repeat ok_step fail. s3. Qed.

Lemma append_text_same3 t r c : okP (append_text t r c) (same3 c).
Proof.
  unfold append_text.
  repeat ok_step ltac:(first [apply append_node_same3]).
  - eapply same3_trans; [eassumption|]. s3.
  - s3.
Qed.

Lemma process_cdata_same3 t r c : okP (process_cdata text t r c) (same3 c).
Proof. unfold process_cdata. cbv zeta. destruct (mem_b 13 _); apply append_text_same3. Qed.

Lemma normalize_attribute_val value c :
  okP (normalize_attribute text value c)
      (fun x => fst x = Borrowed (SIn value) \/ exists bs, fst x = Owned bs).
Proof. unfold normalize_attribute. repeat ok_step fail; cbn [fst]; eauto. Qed.

Lemma process_attribute_A r ql el prefix local value c :
  AA c -> AttrTok text (TAttribute r ql el prefix local value) ->
  okP (process_attribute text r ql el prefix local value c) AA.
Proof.
  intros HA HT. cbn [AttrTok] in HT. unfold process_attribute.
  eapply okP_bind.
  { intros x Hx. exact (conj (normalize_attribute_same text value c x Hx)
                             (normalize_attribute_val value c x Hx)). }
  intros [v c1] [HS Hv]. cproj.
  pose proof (AA_same3 _ _ HA (same_all_same3 _ _ HS)) as HA1.
  assert (Hdoc : forall d', d_nodes d' = d_nodes (c_doc c1) /\ d_attrs d' = d_attrs (c_doc c1) ->
                 AA (set_doc c1 d')).
  { intros d' [_ E2]. eapply AA_same3; [exact HA1|]. s3. }
  repeat ok_step ltac:(first [apply (push_ns_same text)]); auto.
  destruct HA1 as (A1 & A2 & A3). unfold AA. cproj. split; [exact A1|]. split; [|exact A3].
  apply Forall_app. split; [exact A2|]. constructor; [|constructor].
  unfold tattr_rel. cbn [ta_range ta_qname_len ta_eq_len ta_local ta_value].
  eapply ARel_impl; [|exact HT]. cbv beta. intros vs <- v0 Hv0.
  destruct Hv as [Hv|[bs Hv]]; rewrite Hv in Hv0; [injection Hv0 as <-; reflexivity|discriminate].
Qed.

Lemma resolve_attrs_loop_fields nss start : forall l d,
  okP (resolve_attrs_loop text nss start l d)
      (fun d' => exists new, d_attrs d' = d_attrs d ++ new /\
         Forall2 (fun ta ad => ad_range ad = ta_range ta /\ ad_qname_len ad = ta_qname_len ta /\
                               ad_eq_len ad = ta_eq_len ta /\ ad_local ad = ta_local ta /\
                               ad_value ad = ta_value ta) l new).
Proof.
  induction l as [|a l IH]; intros d; cbn [resolve_attrs_loop].
  - apply okP_ret. exists []. rewrite app_nil_r. split; [reflexivity|constructor].
  - cbv zeta. repeat ok_step fail.
    all: eapply okP_weaken; [apply IH|]; cbv beta; intros d' (new & E2 & HF); cproj;
      eexists (_ :: new); split;
      [rewrite E2, <- app_assoc; reflexivity|constructor; [repeat split; reflexivity|exact HF]].
Qed.

Lemma resolve_attributes_A nss c : AA c -> okP (resolve_attributes text nss c) (fun x => AA (snd x)).
Proof.
  intros (A1 & A2 & A3). unfold resolve_attributes.
  destruct (c_cur_attrs c) as [|a0 l0] eqn:Ecur.
  - apply okP_ret. cproj. unfold AA. rewrite Ecur. auto.
  - set (l := a0 :: l0) in *. cbv zeta. destruct (u32_max <=? _); [apply okP_err|].
    eapply okP_bind; [apply resolve_attrs_loop_fields|]. intros d' (new & E2 & HF).
    apply okP_bind_any. intros r. apply okP_ret. unfold AA. cproj. rewrite E2.
    split; [|split; [constructor|exact A3]].
    apply Forall_app. split; [exact A1|]. apply Forall_forall. intros ad Hin.
    destruct (Forall2_nth_r _ _ _ HF ad Hin) as [ta [Hta (R1 & R2 & R3 & R4 & R5)]].
    rewrite Forall_forall in A2. specialize (A2 ta Hta). unfold attr_rel, tattr_rel in *.
    rewrite R1, R2, R3, R4, R5. exact A2.
Qed.

Lemma upd_node_any {A} nodes i f (Q : A -> Prop) (k : list node_data -> res A) :
  (forall l, okP (k l) Q) -> okP (bind (upd_node nodes i f) k) Q.
Proof. intros H. apply okP_bind_any. exact H. Qed.

Lemma process_element_A e r c : AA c -> okP (process_element text e r c) AA.
Proof.
  intros HA. unfold process_element.
  destruct (slice_len _ =? 0). { destruct e; first [apply okP_panic|apply okP_err_from]. }
  eapply okP_bind; [apply resolve_namespaces_same|]. intros [nss c1] HS1. cproj.
  assert (HA2 : AA (set_ns_start_idx c1 (len_N (d_ns_tree (c_doc c1))))).
  { eapply AA_same3; [exact HA|]. eapply same3_trans; [apply same_all_same3; exact HS1|]. s3. }
  eapply okP_bind; [apply resolve_attributes_A; exact HA2|]. intros [ar c3] HA3. cproj.
  assert (Hfin : forall c', same3 c3 c' -> AA c') by (intros; eapply AA_same3; eauto).
  destruct e.
  - repeat ok_step ltac:(first [apply append_node_same3]).
    apply Hfin. eapply same3_trans; [eassumption|]. s3.
  - repeat ok_step fail. all: apply Hfin; s3.
  - repeat ok_step ltac:(first [apply append_node_same3]).
    apply Hfin. eapply same3_trans; [eassumption|]. s3.
Qed.

(* ---- the callback ---- *)
Lemma token_with_A ptext :
  (forall t r c, AA c -> okP (ptext t r c) AA) ->
  forall tok c p0 p1, AA c -> TokAt2 text p0 p1 tok -> okP (token_with text ptext tok c) AA.
Proof.
  intros Hp tok c p0 p1 HA [HT HT2]. unfold token_with.
  assert (Hfin : forall c', same3 c c' -> AA c') by (intros; eapply AA_same3; eauto).
  destruct tok as [tgt content r | t r | name value | prefix local start | r ql el prefix local value
                  | e r | t r | t r].
  - repeat ok_step ltac:(first [apply reset_after_text_same3 | apply append_node_same3]).
    apply Hfin. eapply same3_trans; eassumption.
  - repeat ok_step ltac:(first [apply reset_after_text_same3 | apply append_node_same3]).
    apply Hfin. eapply same3_trans; eassumption.
  - apply okP_ret. destruct HA as (A1 & A2 & A3). unfold AA. cproj. split; [exact A1|]. split; [exact A2|].
    apply Forall_app. split; [exact A3|]. constructor; [|constructor]. cbn [TokAt] in HT. apply HT.
  - repeat ok_step ltac:(first [apply reset_after_text_same3]).
    apply Hfin. eapply same3_trans; [eassumption|]. s3.
  - apply process_attribute_A; assumption.
  - eapply okP_bind; [apply reset_after_text_same3|]. intros c1 H1.
    apply process_element_A. apply Hfin. exact H1.
  - apply Hp. exact HA.
  - eapply okP_weaken; [apply process_cdata_same3|]. exact Hfin.
Qed.

Definition pc_okA (pc : stream -> context -> res (stream * context)) : Prop :=
  forall es c, SInv text es -> AA c -> okP (pc es c) (fun x => AA (snd x)).

Lemma ptext_loop_A pc r : pc_okA pc ->
  forall fuel s buf c, AA c -> okP (ptext_loop text pc r fuel s buf c) (fun x => AA (snd x)).
Proof.
  intros Hpc. induction fuel as [|fu IH]; intros s buf c HA; cbn [ptext_loop]; [apply okP_fuel|].
  destruct (at_end s); [apply okP_ret; exact HA|].
  eapply okP_bind.
  { intros x Hx. exact (parse_next_chunk_ent text s (c_entities c) x Hx). }
  intros [ch s1] Hch. cbn [fst] in Hch. destruct ch.
  - apply IH; assumption.
  - apply IH; assumption.
  - destruct Hch as [e [Hin ->]].
    eapply okP_bind with (Q' := fun c1 => AA c1).
    { destruct (negb (tb_is_empty buf)); [|apply okP_ret; exact HA].
      apply okP_bind_any. intros bs. eapply okP_weaken; [apply append_text_same3|].
      intros c1 H1. eapply AA_same3; eauto. }
    intros c1 HA1. apply okP_bind_any. intros ld1. apply okP_bind_any. intros ld2. cbv zeta.
    assert (Hv : valid_slice text (en_value e)).
    { destruct HA as (_ & _ & Hent). rewrite Forall_forall in Hent. exact (Hent e Hin). }
    destruct Hv as (V1 & V2 & V3 & V4).
    eapply okP_bind.
    { apply okP_safe. apply (stream_from_substr_safe text); [split| |exact V1].
      - exact V3.
      - unfold tlen in V2. lia.
      - split; [exact V4|exact V2]. }
    intros es (Hes & _). cproj.
    eapply okP_bind.
    { apply (Hpc es); [exact Hes|]. eapply AA_same3; [exact HA1|]. s3. }
    intros [s2 c2] HA2. cproj.
    destruct (negb _); [apply okP_err|]. apply IH. eapply AA_same3; [exact HA2|]. s3.
Qed.

Lemma process_text_with_A pc : pc_okA pc ->
  forall t r c, AA c -> okP (process_text_with text pc t r c) AA.
Proof.
  intros Hpc t r c HA. rewrite process_text_with_eq. cbv zeta.
  assert (Hfin : forall c0 c', AA c0 -> same3 c0 c' -> AA c') by (intros; eapply AA_same3; eauto).
  destruct (negb _). { eapply okP_weaken; [apply append_text_same3|]. exact (fun c' => Hfin c c' HA). }
  apply okP_bind_any. intros s0.
  eapply okP_bind; [apply ptext_loop_A; eassumption|]. intros [buf c1] HA1. cproj.
  destruct (negb _); [|apply okP_ret; exact HA1].
  apply okP_bind_any. intros bs. eapply okP_weaken; [apply append_text_same3|]. exact (fun c' => Hfin c1 c' HA1).
Qed.

Lemma parse_content_lvl_A : forall lvl, pc_okA (parse_content_lvl text lvl).
Proof.
  induction lvl as [|lvl IH]; intros es c Hes HA; cbn [parse_content_lvl]; [apply okP_fuel|].
  eapply okP_weaken.
  - apply (parse_content_R2 text Hvalid context _ (fun _ _ => AA)); [|exact Hes|].
    + intros tok c0 c1 p0 p1 H0 HT Hr.
      refine (token_with_A _ _ tok c0 p0 p1 H0 HT c1 Hr).
      intros t r c2 H2. apply process_text_with_A; assumption.
    + exists (s_pos es). split; [lia|exact HA].
  - intros [s' c'] [_ [p' [_ Hj]]]. exact Hj.
Qed.

Lemma token_A tok c p0 p1 : AA c -> TokAt2 text p0 p1 tok -> okP (Parse.token text tok c) AA.
Proof.
  intros HA HT. unfold Parse.token, process_text. apply (token_with_A _) with (p0 := p0) (p1 := p1); [|assumption|assumption].
  intros t r c2 H2. apply process_text_with_A; [apply parse_content_lvl_A|assumption].
Qed.

Lemma parse_A opt d : parse text opt = Ok d -> Forall attr_rel (d_attrs d).
Proof.
  unfold parse. intros H.
  apply bind_ok in H. destruct H as [c0 [H0 H]].
  apply bind_ok in H. destruct H as [c1 [H1 H]].
  apply bind_ok in H. destruct H as [it [_ H]].
  apply bind_ok in H. destruct H as [he [_ H]].
  destruct (negb he); [discriminate|]. destruct (1 <? _); [discriminate|]. injection H as <-.
  assert (HA0 : AA c0).
  { unfold init_context in H0. apply bind_ok in H0. destruct H0 as [d0 [Hd H0]]. injection H0 as <-.
    destruct (push_ns_same text _ _ _ d0 Hd) as [_ E2]. unfold AA. cproj. rewrite E2. cbn.
    repeat split; constructor. }
  destruct (parse_document_R2 text Hvalid context (Parse.token text) (fun _ _ => AA)
              (fun tok c c' p0 p1 Hj Ht Hr => token_A tok c p0 p1 Hj Ht c' Hr)
              (allow_dtd opt) c0) with (a := c1) as [p Hp].
  - exists 0. split; [cbn; lia|exact HA0].
  - exact H1.
  - apply Hp.
Qed.

End WithText.

(* ------------------------------------------------------------------ *)
Theorem parse_attr_subranges : forall text opt d a, valid_utf8_b text = true -> parse text opt = Ok d -> In a (d_attrs d) ->
  ad_qname_len a < qname_len_sat -> ad_eq_len a < eq_len_sat ->
  (* the qname sub-range ends where the local name ends, and starts with the (possibly empty) prefix *)
  snd (attr_range_qname a) = sl_end (ad_local a) /\ fst (ad_range a) <= sl_start (ad_local a) /\
  (* the value sub-range is delimited by the same quote character on both sides *)
  exists vr q, attr_range_value a = Ok vr /\ (q = 39 \/ q = 34) /\
    nth_N text (fst vr - 1) = Some q /\ nth_N text (snd vr) = Some q /\ snd vr + 1 = snd (ad_range a) /\
    fst vr <= snd vr /\
    (* a borrowed value is exactly that sub-range *)
    (forall v, ad_value a = Borrowed (SIn v) -> (sl_start v, sl_end v) = vr) /\
    (* between the qname and the opening quote there is only whitespace and one '=' *)
    (exists w1 w2, sub text (snd (attr_range_qname a)) (fst vr - 1) = w1 ++ [61] ++ w2 /\ forallb byte_is_space w1 = true /\ forallb byte_is_space w2 = true).
Proof.
  intros text opt d a Hv H Hin Hq He.
  pose proof (parse_A text Hv opt d H) as HF. rewrite Forall_forall in HF. specialize (HF a Hin).
  destruct HF as (q & qpos & H1 & H2 & H3 & H4 & H5 & H6 & H7 & H8 & H9 & H10 & H11 & w1 & w2 & Hw & Hw1 & Hw2).
  assert (Eq : ad_qname_len a = sl_end (ad_local a) - fst (ad_range a)) by lia.
  assert (Ee : ad_eq_len a = qpos - sl_end (ad_local a)) by lia.
  unfold attr_range_qname, attr_range_value. cbn [fst snd].
  split; [lia|]. split; [exact H2|].
  exists (qpos + 1, snd (ad_range a) - 1), q. cbn [fst snd].
  replace (snd (ad_range a) =? 0) with false by lia.
  split; [f_equal; f_equal; lia|]. split; [exact H1|].
  replace (qpos + 1 - 1) with qpos by lia.
  split; [exact H7|]. split; [exact H8|]. split; [lia|]. split; [exact H10|].
  split.
  - intros v Hvv. rewrite (H9 v Hvv). reflexivity.
  - exists w1, w2. replace (fst (ad_range a) + ad_qname_len a) with (sl_end (ad_local a)) by lia. auto.
Qed.
Print Assumptions parse_attr_subranges.
