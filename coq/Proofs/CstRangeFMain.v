(* Proofs/CstRangeFMain.v -- C13 / C18 on the capstone fragment (Spec/CstFull.v), part 5: the whole-document
   statement for a stage WITHOUT a DOCTYPE, given what the stage supplies
   ([parse_observed_frame]): for the rendering of every well-formed document of the frame, the
   ranges of the nodes, the slices they hold, the ordinary attributes and the namespace table of
   the parsed document are those computed from the abstract document in CstRangeFDefs.v. *)
From Coq Require Import Ascii String.
From Coq Require Import List NArith PeanoNat Bool Lia ZifyBool ZifyN ZifyNat.
Import ListNotations.
From RX Require Import Generated.
From RX.Model Require Import Base CharClass Stream Tokenizer Doc Builder Parse.
From RX.Spec Require Cst Scope CstNs CstU.
From RX.Spec Require Import CstFull.
From RX.Proofs Require Import Tactics CstLex CstBuild CstNsLex CstNsView CstNsBuild CstULex CstFullLex CstFullBuild CstFullTree CstFullItems CstFullDoc CstFullMain.
From RX.Proofs Require CstNsItems CstNsDoc CstNsMain.
From RX.Proofs Require Import CstRangeDefs CstRangeBuild CstRangeTDefs CstRangeTBuild CstRangeFDefs CstRangeFBuild CstRangeFItems CstRangeFDoc.
Open Scope N_scope.

Lemma parse_is_doc_ns text opt cf d :
  parse_document text context (Parse.token text) (allow_dtd opt) (init_ctx text opt) = Ok cf ->
  parse text opt = Ok d -> d = c_doc cf.
Proof.
  intros E H. unfold parse in H. rewrite CstNsMain.init_context_eq in H. cbn [bind] in H. rewrite E in H. cbn [bind] in H.
  apply bind_ok in H. destruct H as [it [_ H]]. apply bind_ok in H. destruct H as [he [_ H]].
  destruct (negb he); [discriminate|]. destruct (_ <? _); [discriminate|]. injection H as <-. reflexivity.
Qed.

Section FrameR.
Variable Sy : syntax.
Variable M : meaning Sy.
Variable run_steps : run Sy -> nat.
Variable vstore : N -> val Sy -> tstore.
Variable run_nodes : N -> run Sy -> list ((N * N) * tstore).
Hypothesis Hval_lex : forall q v, wf_val M q v = true -> q = 39 \/ q = 34 -> uval_ok q (r_val Sy v).
Hypothesis Hrun_valid : forall r, wf_run M r = true -> U8.Valid (r_run Sy r).
Hypothesis Hrun_steps : forall r, wf_run M r = true -> (1 <= run_steps r <= length (r_run Sy r))%nat.
(* no entities are declared: es0 = [] *)
Hypothesis Hval_norm_r : forall text q v p more, wf_val M q v = true -> q = 39 \/ q = 34 ->
  CstULex.WV text p (r_val Sy v ++ [q] ++ more) ->
  exists stor, norm_ok text [] (sl p (p + blen (r_val Sy v))) stor /\ storage_bytes text stor = val_sem M v /\
               stored stor (vstore p v).
Hypothesis Hrun_r : forall text D, (forall l, NoDup l -> incl l D -> N.of_nat (length l) <= 65535) ->
  forall r, PIf_r Sy M run_steps vstore run_nodes text D [] (IText r).

Theorem parse_observed_frame : forall (c : doc Sy) (opt : options) d,
  wf_doc M c = true ->
  N.of_nat (length (sem M c)) < nodes_limit opt ->               (* room for all nodes + the Root *)
  N.of_nat (length (render c)) <= u32_max ->                      (* the input is at most u32::MAX bytes long *)
  distinct_decls_le M c (N.to_nat 65535) ->                       (* at most 65535 distinct declared bindings *)
  1 + N.of_nat (ns_cost M c) <= u32_max ->                        (* the namespace table fits *)
  parse (render c) opt = Ok d ->
  map nd_range (d_nodes d) = (0, tlen (render c)) :: fspans Sy run_nodes c /\
  (exists k0, map nd_kind (d_nodes d) = KRoot :: k0 /\ Forall2 fkshape k0 (fshapes Sy run_nodes c)) /\
  Forall2 fattr_obs (d_attrs d) (fattr_spans Sy vstore c) /\
  d_ns_values d = xml_ns :: map nsv_of (fns_table Sy M vstore c).
Proof.
  intros c opt d Hwf Hlim Hsz Hdist Hcost H.
  destruct (render_bounds_f Sy M run_steps Hrun_steps c Hwf) as [B1 B2]. set (text := render c) in *.
  set (D := doc_decls M c).
  assert (HD : forall l, NoDup l -> incl l D -> N.of_nat (length l) <= 65535).
  { intros l N1 N2. pose proof (Hdist l N1 N2). lia. }
  assert (Hsz' : NT.nsizes (CstFullTree.dens Sy M (doc_items c)) = N.of_nat (length (sem M c))).
  { rewrite (sem_dens Sy M), sem_items_len. reflexivity. }
  destruct (parse_document_ok_f_r Sy M run_steps vstore run_nodes Hval_lex Hrun_valid Hrun_steps text D HD []
              (Hval_norm_r text) (Hrun_r text D HD)
              c (allow_dtd opt) (init_ctx text opt) Hwf eq_refl (incl_refl _) (CstNsMain.init_ctx_CIn text D opt))
    as (cf & K & ext & E & S & I & F & (X1 & X2 & X3 & X4)).
  { split; reflexivity. }
  { reflexivity. }
  { unfold CstNsItems.node_room. cbn. rewrite Hsz'. unfold len_N. cbn [length]. unfold u32_max in *. lia. }
  { unfold CstNsItems.attr_room. cbn. unfold u32_max in *. lia. }
  { unfold CstNsItems.ns_room. cbn. unfold len_N. cbn [length]. lia. }
  unfold tok_ev in E. rewrite (parse_is_doc_ns text opt cf d E H).
  destruct S as (S0 & _).
  split; [exact X3|]. split; [|split].
  - exists (map snd K). split; [|exact X1].
    rewrite <- absn_kinds, (sn_nodes _ _ _ _ S0), map_app. reflexivity.
  - rewrite (sn_attrs _ _ _ _ S0). cbn [CstNsMain.init_ctx c_doc d_attrs app]. exact X2.
  - destruct X4 as [_ X4]. rewrite X4. reflexivity.
Qed.

End FrameR.

Print Assumptions parse_observed_frame.
