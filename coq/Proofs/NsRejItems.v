(* Proofs/NsRejItems.v -- C06/C08, rejection half: parse_content_loop with the real callback on the
   rendering of an item of Spec/CstNs.v that is syntactically well formed but whose first
   violation of a namespace rule is [rl] stops with the error of that rule.  Everything before
   the violating start tag is parsed by the success lemmas of Proofs/CstNsItems.v. *)
From Coq Require Import Ascii String.
From Coq Require Import List NArith PeanoNat Bool Lia ZifyBool ZifyN ZifyNat.
Import ListNotations.
From RX Require Import Generated.
From RX.Model Require Import Base CharClass Stream Tokenizer Doc Builder Parse.
From RX.Spec Require Cst Scope CstNs.
From RX.Proofs Require Import Tactics CstLex CstBuild CstNsLex CstNsView CstNsBuild CstNsTree CstNsItems.
From RX.Proofs Require Import NsRejDefs NsRejLex NsRejBuild.
From RX.Proofs Require CstItems.
Open Scope N_scope.

Import CstNs.

Lemma bind_err_assoc {A B C} (a : res A) (f : A -> res B) (g : B -> res C) er :
  bind a f = Err er -> bind a (fun x => bind (f x) g) = Err er.
Proof. destruct a; cbn [bind]; intros H; try discriminate H; [rewrite H; reflexivity|injection H as ->; reflexivity]. Qed.

(* the number of iterations is bounded by the length of the rendering (syntax only) *)
Lemma steps_le_syn : forall i, syn_item i = true -> (steps i <= length (r_item i))%nat.
Proof.
  intros i. induction i as [n a w|n a w cs w2 IH|bs|bs|t s v] using item_ind'; intros Hwf.
  - rewrite r_item_elem, !app_length. cbn [steps length]. lia.
  - rewrite syn_item_elem in Hwf. rewrite !andb_true_iff in Hwf. destruct Hwf as [_ [_ Hcs]].
    rewrite r_item_elem, steps_elem, !app_length. cbn [length].
    assert (G : (steps_list cs <= length (r_items cs))%nat).
    { clear - IH Hcs. induction IH as [|c r Hc _ IHr]; [cbn; lia|].
      cbn [syn_items] in Hcs. apply andb_true_iff in Hcs. destruct Hcs as [H1 H2].
      cbn [steps_list r_items]. rewrite app_length. specialize (Hc H1). specialize (IHr H2). lia. }
    lia.
  - destruct (CstItems.wf_text _ Hwf) as (_ & Hne & _). destruct bs; [congruence|]. cbn. lia.
  - cbn [r_item steps]. rewrite !app_length. cbn [length]. lia.
  - cbn [r_item steps]. rewrite !app_length. cbn [length]. lia.
Qed.

Lemma steps_list_le_syn : forall cs, syn_items cs = true -> (steps_list cs <= length (r_items cs))%nat.
Proof.
  induction cs as [|c r IH]; intros Hwf; [cbn; lia|].
  cbn [syn_items] in Hwf. apply andb_true_iff in Hwf. destruct Hwf as [H1 H2].
  cbn [steps_list r_items]. rewrite app_length. pose proof (steps_le_syn c H1). specialize (IH H2). lia.
Qed.

Lemma wf_of_syn_none inh i : syn_item i = true -> item_viol inh i = None -> wf_item inh i = true.
Proof. intros H1 H2. rewrite wf_item_split, H1, item_viol_spec, H2. reflexivity. Qed.

Section Items.
Variable text : bytes.
Hypothesis Hascii : Forall (fun x => x < 128) text.
Variable D : list Scope.binding.
Hypothesis HD : forall l, NoDup l -> incl l D -> N.of_nat (length l) <= 65535.

Notation ev := (tok_ev text).
Notation loop := (parse_content_loop text context (tok_ev text)).
Notation st := (CstLex.st text).
Notation W := (CstLex.W text).
Notation CIn := (CstNsBuild.CIn text D).

Definition Rej (rl : rule) {A} (r : res A) : Prop := exists er, r = Err er /\ rule_error rl er = true.

Definition RIn (i : item) : Prop :=
  forall inh p post c depth fuel rl,
    syn_item i = true -> item_viol inh i = Some rl -> incl (item_decls i) D -> W p (r_item i ++ post) ->
    CIn inh c -> node_room c (nsize i) -> attr_room c (nattrs i) -> ns_room c (ns_cost inh i) ->
    Rej rl (loop (steps i + fuel) depth (st p (r_item i ++ post)) c).

Definition RLn (cs : list item) : Prop :=
  forall inh p post c depth fuel rl,
    syn_items cs = true -> items_viol inh cs = Some rl -> incl (items_decls cs) D -> no_adj cs = true ->
    W p (r_items cs ++ post) -> text_stop post -> CIn inh c -> head_text_ok cs c ->
    node_room c (nsizes cs) -> attr_room c (nattrs_items cs) -> ns_room c (ns_costs inh cs) ->
    Rej rl (loop (steps_list cs + fuel) depth (st p (r_items cs ++ post)) c).

(* ---- the start tag of an element: refused, or accepted with a violation among the children ---- *)
Lemma elem_start inh name es ws body p post c rl :
  syn_item (IElem name es ws body) = true -> item_viol inh (IElem name es ws body) = Some rl ->
  incl (item_decls (IElem name es ws body)) D -> W p (r_item (IElem name es ws body) ++ post) ->
  CIn inh c -> node_room c (nsize (IElem name es ws body)) -> attr_room c (nattrs (IElem name es ws body)) ->
  ns_room c (ns_cost inh (IElem name es ws body)) ->
  Rej rl (parse_element text context ev (st p (r_item (IElem name es ws body) ++ post)) c) \/
  (exists cs ws2 c1, body = Some (cs, ws2) /\
     let sc := esc es inh in
     let post2 := [60; 47] ++ r_qname name ++ ws2 ++ [62] ++ post in
     let q := p + 1 + blen (r_qname name) + blen (flat_map r_entry es) + blen ws + 1 in
     parse_element text context ev (st p (r_item (IElem name es ws body) ++ post)) c =
       Ok (true, st q (r_items cs ++ post2), c1) /\
     syn_items cs = true /\ items_viol sc cs = Some rl /\ incl (items_decls cs) D /\ no_adj cs = true /\
     W q (r_items cs ++ post2) /\ CIn sc c1 /\ head_text_ok cs c1 /\
     node_room c1 (nsizes cs) /\ attr_room c1 (nattrs_items cs) /\ ns_room c1 (ns_costs sc cs)).
Proof.
  intros Hsyn Hviol HinD HW I NR AR SR.
  rewrite syn_item_elem in Hsyn. rewrite !andb_true_iff in Hsyn. destruct Hsyn as [[[Hn Hes] Hw] Hbody].
  rewrite item_viol_elem in Hviol. rewrite r_item_elem in *. rewrite <- !app_assoc in HW |- *.
  rewrite item_decls_elem in HinD. rewrite nattrs_elem in AR. rewrite ns_cost_elem in SR.
  assert (HinD1 : incl (own_bindings es) D) by (intros x Hx; apply HinD; apply in_or_app; left; exact Hx).
  assert (Hattr : len_N (d_attrs (c_doc c)) + N.of_nat (length (sem_attrs (Scope.scope_of (own_bindings es) inh) es)) < u32_max).
  { unfold attr_room in AR. rewrite sem_attrs_len. clia. }
  assert (Hns : len_N (d_ns_tree (c_doc c)) + own_cost (own_bindings es) (Scope.scope_of (own_bindings es) inh) <= u32_max).
  { unfold ns_room in SR. unfold own_cost. change (Scope.scope_of (own_bindings es) inh) with (esc es inh).
    destruct (own_bindings es); clia. }
  destruct (tag_viol inh name es) as [x|] eqn:Etv.
  - (* the start tag is refused *)
    injection Hviol as ->. left. destruct body as [[cs ws2]|].
    + rewrite <- !app_assoc in HW |- *.
      set (post2 := r_items cs ++ [60; 47] ++ r_qname name ++ ws2 ++ [62] ++ post) in *.
      change ([62] ++ post2) with (tag_tail false ++ post2) in *.
      rewrite (lex_element_syn text Hascii) by assumption. cbv zeta.
      destruct (start_tag_rej text Hascii D HD inh p name es ws false post2 c rl HW Hn Hes Etv HinD1 I Hattr Hns) as (er & E & R).
      exists er. split; [|exact R]. apply bind_err_assoc with (1 := E).
    + change ([47; 62] ++ post) with (tag_tail true ++ post) in *.
      rewrite (lex_element_syn text Hascii) by assumption. cbv zeta.
      destruct (start_tag_rej text Hascii D HD inh p name es ws true post c rl HW Hn Hes Etv HinD1 I Hattr Hns) as (er & E & R).
      exists er. split; [|exact R]. apply bind_err_assoc with (1 := E).
  - (* the start tag is accepted *)
    destruct body as [[cs ws2]|]; [|discriminate]. right. exists cs, ws2.
    rewrite <- !app_assoc in HW |- *.
    rewrite !andb_true_iff in Hbody. destruct Hbody as [[Hw2 Hna] Hcs].
    pose proof (tag_viol_spec inh name es) as Ht. rewrite Etv in Ht. cbn [is_none] in Ht.
    unfold ns_tag in Ht. cbv zeta in Ht. rewrite !andb_true_iff in Ht.
    destruct Ht as [[[[[N1 Hnse] N6] N2e] N2a] N7]. apply negb_true_iff in N1.
    assert (Hwf : forallb wf_entry es = true) by (rewrite wf_entries_split, Hes, Hnse; reflexivity).
    set (post2 := [60; 47] ++ r_qname name ++ ws2 ++ [62] ++ post) in *.
    change ([62] ++ r_items cs ++ post2) with (tag_tail false ++ (r_items cs ++ post2)) in *.
    rewrite nsize_elem in NR.
    set (sc := esc es inh) in *.
    rewrite (lex_element_ns text Hascii) by assumption. cbv zeta.
    destruct (start_tag_ok_ns text D HD inh p name es ws false (r_items cs ++ post2) c HW Hn N1 Hwf N6 N2e N2a N7)
      with (2 := I) as (c1 & kind & ext1 & E & S1 & Lx & Hkm & A1 & T1 & Tr1 & I1 & P1 & P2 & P3).
    { exact HinD1. }
    { unfold node_room, room in *. clia. }
    { exact Hattr. }
    { exact Hns. }
    change (Scope.scope_of (own_bindings es) inh) with sc in Hkm, Tr1, I1, Lx.
    exists c1. cbv zeta.
    cbv zeta in E. apply bind_ok in E. destruct E as (c0 & E0 & E1).
    rewrite E0. cbn [bind]. rewrite E1. cbn [bind negb].
    pose proof (W_app _ _ _ _ HW) as HW1. change (blen [60]) with 1 in HW1.
    pose proof (W_app _ _ _ _ HW1) as HW2. pose proof (W_app _ _ _ _ HW2) as HW3.
    pose proof (W_app _ _ _ _ HW3) as HW4. pose proof (W_app _ _ _ _ HW4) as HW5.
    change (blen (tag_tail false)) with 1 in *.
    pose proof (Step0n_len _ _ _ _ S1) as Ln1. change (len_N [_]) with 1 in Ln1.
    pose proof (Stepn_attrs_len _ _ _ _ S1) as La1. unfold len_N at 3 in La1. rewrite Lx, sem_attrs_len in La1.
    pose proof (Stepn_opt _ _ _ _ S1) as Lo1.
    split; [reflexivity|]. split; [reflexivity|]. split; [exact Hcs|]. split; [exact Hviol|].
    split; [intros x Hx; apply HinD; apply in_or_app; right; exact Hx|]. split; [exact Hna|].
    split; [exact HW5|]. split; [exact I1|].
    split; [destruct cs; [exact Logic.I|]; intros _; exact A1|].
    split; [unfold node_room in *; rewrite Ln1, Lo1; clia|].
    split; [unfold attr_room in *; rewrite La1; clia|].
    unfold ns_room in *. rewrite Tr1. unfold own_cost. destruct (own_bindings es); clia.
Qed.

(* ---- lists of children ---- *)
Lemma RLn_of cs : Forall RIn cs -> RLn cs.
Proof.
  induction 1 as [|i r Hi _ IH]; intros inh p post c depth fuel rl Hsyn Hviol HinD Hna HW Hstop I Hhd NR AR SR.
  - discriminate.
  - cbn [syn_items] in Hsyn. apply andb_true_iff in Hsyn. destruct Hsyn as [Hs1 Hs2].
    cbn [items_viol] in Hviol.
    cbn [r_items] in HW |- *. rewrite <- app_assoc in HW |- *.
    rewrite nsizes_cons in NR. cbn [nattrs_items] in AR. cbn [ns_costs] in SR. cbn [items_decls] in HinD.
    destruct (item_viol inh i) as [x|] eqn:Ev.
    + (* the violation is in the first item *)
      injection Hviol as ->. cbn [steps_list]. rewrite <- Nat.add_assoc.
      apply (Hi inh p (r_items r ++ post) c depth (steps_list r + fuel)%nat rl Hs1 Ev).
      * intros x Hx. apply HinD. apply in_or_app. left. exact Hx.
      * exact HW.
      * exact I.
      * unfold node_room in *. clia.
      * unfold attr_room in *. clia.
      * unfold ns_room in *. clia.
    + (* the first item is parsed *)
      pose proof (wf_of_syn_none inh i Hs1 Ev) as Hw1.
      assert (Hna2 : no_adj r = true).
      { destruct r as [|d r']; [reflexivity|]. cbn [no_adj] in Hna. apply andb_true_iff in Hna. apply Hna. }
      assert (Hnext : forall d r', r = d :: r' -> is_text i = true -> is_text d = false).
      { intros d r' -> Hi1. cbn [no_adj] in Hna. apply andb_true_iff in Hna.
        destruct Hna as [Hna _]. rewrite Hi1 in Hna. cbn [andb] in Hna. apply negb_true_iff in Hna. exact Hna. }
      assert (Hfollow : is_text i = true -> text_stop (r_items r ++ post)).
      { intros Hi1. destruct r as [|d r']; [exact Hstop|].
        destruct (nontext_starts d (Hnext d r' eq_refl Hi1)) as [l El].
        cbn [r_items]. rewrite El. reflexivity. }
      destruct (PIn_all text Hascii D HD i inh p (r_items r ++ post) c depth (steps_list r + fuel)%nat Hw1)
        with (3 := Hfollow) (4 := I) (5 := Hhd)
        as (c1 & K1 & e1 & E1 & S1 & I1 & A1 & T1 & _ & F1 & L1 & Tr1).
      { intros x Hx. apply HinD. apply in_or_app. left. exact Hx. }
      { exact HW. }
      { unfold node_room in *. clia. }
      { unfold attr_room in *. clia. }
      { unfold ns_room in *. clia. }
      pose proof (Stepn_nodes_len _ _ _ _ S1) as Ln1.
      rewrite (Forall2_len_N D HD _ _ _ F1) in Ln1. unfold len_N at 3 in Ln1. rewrite tag_len in Ln1.
      pose proof (Stepn_attrs_len _ _ _ _ (proj1 S1)) as La1. unfold len_N at 3 in La1. rewrite L1 in La1.
      pose proof (Stepn_opt _ _ _ _ (proj1 S1)) as Lo1.
      cbn [steps_list]. rewrite <- Nat.add_assoc, E1.
      apply (IH inh (p + blen (r_item i)) post c1 depth fuel rl Hs2 Hviol).
      * intros x Hx. apply HinD. apply in_or_app. right. exact Hx.
      * exact Hna2.
      * apply (W_app _ _ _ _ HW).
      * exact Hstop.
      * exact I1.
      * destruct r as [|d r']; [exact Logic.I|]. cbn [head_text_ok]. intros Hd. apply A1.
        destruct (is_text i) eqn:Ei; [|reflexivity].
        rewrite (Hnext d r' eq_refl eq_refl) in Hd. discriminate.
      * unfold node_room in *. rewrite Ln1, Lo1. clia.
      * unfold attr_room in *. rewrite La1. clia.
      * unfold ns_room in *. rewrite Tr1. clia.
Qed.

Lemma RIn_elem name es ws body :
  match body with None => True | Some (cs, _) => RLn cs end -> RIn (IElem name es ws body).
Proof.
  intros HRL inh p post c depth fuel rl Hsyn Hviol HinD HW I NR AR SR.
  assert (Hn : wf_qname name = true).
  { rewrite syn_item_elem in Hsyn. rewrite !andb_true_iff in Hsyn. apply Hsyn. }
  destruct (elem_start inh name es ws body p post c rl Hsyn Hviol HinD HW I NR AR SR)
    as [(er & E & R)|(cs & ws2 & c1 & -> & Hr)].
  - assert (Hst : exists k, steps (IElem name es ws body) = S k).
    { destruct body as [[cs ws2]|]; [rewrite steps_elem|cbn [steps]]; eauto. }
    destruct Hst as [k ->]. cbn [Nat.add].
    rewrite r_item_elem in *. rewrite <- !app_assoc in HW, E |- *.
    rewrite (loop_elem_ns text) by assumption. rewrite E. cbn [bind]. exists er. split; [reflexivity|exact R].
  - cbv zeta in Hr. destruct Hr as (E & Hcs & Hv & Hd & Hna & HW5 & I1 & Hhd & NR1 & AR1 & SR1).
    rewrite steps_elem. cbn [Nat.add].
    rewrite r_item_elem in *. rewrite <- !app_assoc in HW, E |- *.
    rewrite (loop_elem_ns text) by assumption. rewrite E. cbn [bind].
    replace (steps_list cs + 1 + fuel)%nat with (steps_list cs + S fuel)%nat by clia.
    apply (HRL (esc es inh) _ _ c1 (depth + 1) (S fuel) rl Hcs Hv Hd Hna HW5); try assumption. reflexivity.
Qed.

Theorem RIn_all : forall i, RIn i.
Proof.
  intros i. induction i as [n a w|n a w cs w2 IH|bs|bs|t s v] using item_ind'.
  - apply RIn_elem. exact Logic.I.
  - apply RIn_elem. apply RLn_of. exact IH.
  - intros inh p post c depth fuel rl _ Hv. discriminate Hv.
  - intros inh p post c depth fuel rl _ Hv. discriminate Hv.
  - intros inh p post c depth fuel rl _ Hv. discriminate Hv.
Qed.

Theorem RLn_all : forall cs, RLn cs.
Proof. intros cs. apply RLn_of. apply Forall_forall. intros i _. apply RIn_all. Qed.

(* ---- the root element: parse_element, then parse_content at depth 0 ---- *)
Lemma root_rej inh name es ws body p post c rl :
  syn_item (IElem name es ws body) = true -> item_viol inh (IElem name es ws body) = Some rl ->
  incl (item_decls (IElem name es ws body)) D -> W p (r_item (IElem name es ws body) ++ post) ->
  CIn inh c -> node_room c (nsize (IElem name es ws body)) -> attr_room c (nattrs (IElem name es ws body)) ->
  ns_room c (ns_cost inh (IElem name es ws body)) ->
  Rej rl (let! (open, s, c) := parse_element text context ev (st p (r_item (IElem name es ws body) ++ post)) c in
          if open then parse_content text context ev s c else Ok (s, c)).
Proof.
  intros Hsyn Hviol HinD HW I NR AR SR.
  destruct (elem_start inh name es ws body p post c rl Hsyn Hviol HinD HW I NR AR SR)
    as [(er & E & R)|(cs & ws2 & c1 & -> & Hr)].
  - rewrite E. cbn [bind]. exists er. split; [reflexivity|exact R].
  - cbv zeta in Hr. destruct Hr as (E & Hcs & Hv & Hd & Hna & HW5 & I1 & Hhd & NR1 & AR1 & SR1).
    rewrite E. cbn [bind]. unfold parse_content. cbn [CstLex.st s_rest].
    set (post2 := [60; 47] ++ r_qname name ++ ws2 ++ [62] ++ post) in *.
    set (q := p + 1 + blen (r_qname name) + blen (flat_map r_entry es) + blen ws + 1) in *.
    pose proof (steps_list_le_syn cs Hcs) as Hst.
    replace (S (length (r_items cs ++ post2)))
      with (steps_list cs + S (length (r_items cs ++ post2) - steps_list cs))%nat
      by (rewrite app_length; clia).
    fold (st q (r_items cs ++ post2)).
    apply (RLn_all cs (esc es inh) q post2 c1 0 _ rl Hcs Hv Hd Hna HW5); try assumption. reflexivity.
Qed.

End Items.

Print Assumptions RIn_all.
Print Assumptions root_rej.
