(* BudgetBytesBuild.v -- C09, bytes: the potential
     B c = (text bytes of the nodes, the open text run counted through its fragments)
         + (attribute value bytes, resolved and pending)
   and what each builder function does to it. *)
From Coq Require Import Ascii String.
From Coq Require Import Lia ZifyBool ZifyN ZifyNat.
From RX Require Import Generated.
From RX.Model Require Import Base CharClass Stream Tokenizer Doc Builder Parse.
From RX.Proofs Require Import Tactics OptionsParam OptionsBuild BudgetStream BudgetBuild.

Definition text_len (text : bytes) (d : document) : N :=
  fold_right (fun nd acc => match nd_kind nd with
                            | KText st => blen (storage_bytes text st) + acc
                            | _ => acc end) 0 (d_nodes d).
Definition value_len (text : bytes) (d : document) : N :=
  fold_right (fun a acc => blen (storage_bytes text (ad_value a)) + acc) 0 (d_attrs d).

Lemma blen_app (x y : bytes) : blen (x ++ y) = blen x + blen y.
Proof. unfold blen. rewrite app_length. lia. Qed.

Lemma list_upd_map {A B} (g : A -> B) (f : A -> A) : (forall x, g (f x) = g x) ->
  forall l i l', list_upd l i f = Some l' -> map g l' = map g l.
Proof.
  intros Hg. induction l; intros i l' H; destruct i; cbn in H; try discriminate.
  - inversion H; subst. cbn. rewrite Hg. reflexivity.
  - destruct (list_upd l i f) eqn:E; [|discriminate]. inversion H; subst. cbn. f_equal. eauto.
Qed.

Lemma list_upd_last {A} (f : A -> A) : forall (l0 : list A) x l',
  list_upd (l0 ++ [x]) (length l0) f = Some l' -> l' = l0 ++ [f x].
Proof.
  induction l0; intros x l' H; cbn in H.
  - inversion H; reflexivity.
  - destruct (list_upd (l0 ++ [x]) (length l0) f) eqn:E; [|discriminate].
    inversion H; subst. cbn. f_equal. eauto.
Qed.

Section WithText.
Variable text : bytes.

Definition klen (k : node_kind) : N :=
  match k with KText st => blen (storage_bytes text st) | _ => 0 end.
Definition tl (ks : list node_kind) : N := fold_right (fun k acc => klen k + acc) 0 ks.
Definition ltl (ks : list node_kind) : N := match rev ks with k :: _ => klen k | [] => 0 end.
Definition fragsum (l : list cow) : N :=
  fold_right (fun t acc => blen (cow_bytes text t) + acc) 0 l.
Definition curval (l : list temp_attr) : N :=
  fold_right (fun a acc => blen (storage_bytes text (ta_value a)) + acc) 0 l.
Definition vl (l : list attr_data) : N :=
  fold_right (fun a acc => blen (storage_bytes text (ad_value a)) + acc) 0 l.

Definition kinds (c : context) : list node_kind := map nd_kind (d_nodes (c_doc c)).
Definition Pt (c : context) : N := tl (kinds c) + (fragsum (c_after_text c) - ltl (kinds c)).
Definition Va (c : context) : N := vl (d_attrs (c_doc c)) + curval (c_cur_attrs c).
Definition B (c : context) : N := Pt c + Va c.

Lemma text_len_tl d : text_len text d = tl (map nd_kind (d_nodes d)).
Proof.
  unfold text_len. induction (d_nodes d) as [|nd l IH]; [reflexivity|].
  cbn [fold_right map tl]. fold (tl (map nd_kind l)). rewrite IH.
  unfold klen. destruct (nd_kind nd); lia.
Qed.

Lemma final_le_B c : text_len text (c_doc c) + value_len text (c_doc c) <= B c.
Proof.
  rewrite text_len_tl. change (value_len text (c_doc c)) with (vl (d_attrs (c_doc c))).
  unfold B, Pt, Va, kinds. lia.
Qed.

Lemma tl_cons x l : tl (x :: l) = klen x + tl l. Proof. reflexivity. Qed.
Lemma vl_cons x l : vl (x :: l) = blen (storage_bytes text (ad_value x)) + vl l. Proof. reflexivity. Qed.
Lemma fragsum_cons x l : fragsum (x :: l) = blen (cow_bytes text x) + fragsum l. Proof. reflexivity. Qed.
Lemma curval_cons x l : curval (x :: l) = blen (storage_bytes text (ta_value x)) + curval l. Proof. reflexivity. Qed.

Lemma tl_app a b : tl (a ++ b) = tl a + tl b.
Proof. induction a as [|x a IH]; [reflexivity|]. cbn [app]. rewrite !tl_cons, IH. lia. Qed.
Lemma vl_app a b : vl (a ++ b) = vl a + vl b.
Proof. induction a as [|x a IH]; [reflexivity|]. cbn [app]. rewrite !vl_cons, IH. lia. Qed.
Lemma fragsum_app a b : fragsum (a ++ b) = fragsum a + fragsum b.
Proof. induction a as [|x a IH]; [reflexivity|]. cbn [app]. rewrite !fragsum_cons, IH. lia. Qed.
Lemma curval_app a b : curval (a ++ b) = curval a + curval b.
Proof. induction a as [|x a IH]; [reflexivity|]. cbn [app]. rewrite !curval_cons, IH. lia. Qed.

Lemma ltl_snoc ks k : ltl (ks ++ [k]) = klen k.
Proof. unfold ltl. rewrite rev_app_distr. reflexivity. Qed.

Lemma blen_concat l : blen (concat (map (cow_bytes text) l)) = fragsum l.
Proof.
  induction l; [reflexivity|]. cbn [map concat fragsum fold_right]. fold (fragsum l).
  rewrite blen_app, IHl. reflexivity.
Qed.

(* ---- updates of the node vector that keep the kinds ---- *)
Lemma upd_node_kinds nodes i f l : (forall nd, nd_kind (f nd) = nd_kind nd) ->
  upd_node nodes i f = Ok l -> map nd_kind l = map nd_kind nodes.
Proof.
  intros Hf H. unfold upd_node in H. destruct (list_upd nodes (N.to_nat i) f) eqn:E; [|discriminate].
  inversion H; subst. eapply list_upd_map; eauto.
Qed.

Lemma set_next_subtree_all_kinds ids : forall nodes v l,
  set_next_subtree_all nodes ids v = Ok l -> map nd_kind l = map nd_kind nodes.
Proof.
  induction ids; intros nodes v l H; cbn [set_next_subtree_all] in H.
  - inversion H; reflexivity.
  - usteps. apply IHids in H. apply upd_node_kinds in Hb; [congruence|reflexivity].
Qed.

(* everything B looks at, besides the kinds *)
Definition same_rest (c c' : context) : Prop :=
  c_after_text c' = c_after_text c /\ c_cur_attrs c' = c_cur_attrs c /\
  d_attrs (c_doc c') = d_attrs (c_doc c) /\ c_ld c' = c_ld c.

Lemma append_node_view k r c id c' : append_node k r c = Ok (id, c') ->
  kinds c' = kinds c ++ [k] /\ same_rest c c'.
Proof.
  unfold append_node. intros H. usteps.
  apply upd_node_kinds in Hb1; [|reflexivity]. apply upd_node_kinds in Hb2; [|reflexivity].
  apply set_next_subtree_all_kinds in Hb3.
  unfold kinds, same_rest. cproj. rewrite Hb3, Hb2, Hb1, map_app. cbn [map nd_kind].
  repeat split; reflexivity.
Qed.

Lemma cow_klen t :
  klen (KText match t with CowBorrowed s => Borrowed (SIn s) | CowOwned bs => Owned bs end)
  = blen (cow_bytes text t).
Proof. destruct t; reflexivity. Qed.

Lemma B_append_text t r c c' : append_text t r c = Ok c' ->
  B c' <= B c + blen (cow_bytes text t) /\ c_ld c' = c_ld c.
Proof.
  unfold append_text. intros H. usteps.
  - apply append_node_view in Hb0. destruct Hb0 as (Hk & Ha & Hc & Hd & Hl).
    unfold B, Pt, Va, kinds in *. cproj. rewrite Hk, Ha, Hc, Hd, Heql, tl_app, ltl_snoc.
    cbn [app fragsum fold_right tl]. rewrite cow_klen. split; [lia|assumption].
  - unfold B, Pt, Va, kinds. cproj. rewrite fragsum_app. cbn [fragsum fold_right].
    split; [lia|reflexivity].
Qed.

Lemma upd_node_last_kinds (l : list node_data) nd r0 k l' : rev l = nd :: r0 ->
  upd_node l (len_N l - 1) (fun x => nd_set_kind x k) = Ok l' ->
  exists ks, map nd_kind l = ks ++ [nd_kind nd] /\ map nd_kind l' = ks ++ [k].
Proof.
  intros Hr H. assert (El : l = rev r0 ++ [nd]).
  { rewrite <- (rev_involutive l), Hr. reflexivity. }
  unfold upd_node in H. destruct (list_upd l _ _) eqn:E; [|discriminate]. inversion H; subst l0.
  rewrite El in E. replace (N.to_nat (len_N (rev r0 ++ [nd]) - 1)) with (length (rev r0)) in E.
  - apply list_upd_last in E. subst l'. exists (map nd_kind (rev r0)).
    rewrite El, !map_app. split; reflexivity.
  - unfold len_N. rewrite app_length. cbn [length]. lia.
Qed.

Lemma B_merge_text c c' : merge_text text c = Ok c' ->
  B c' <= B c /\ c_ld c' = c_ld c /\ c_after_text c' = c_after_text c /\
  tl (kinds c') <= B c - Va c /\ Va c' = Va c.
Proof.
  unfold merge_text. intros H. usteps.
  destruct (upd_node_last_kinds _ _ _ _ _ Heql Hb) as [ks [E1 E2]].
  unfold B, Pt, Va, kinds. cproj. rewrite E1, E2, !tl_app, !ltl_snoc.
  cbn [tl fold_right klen storage_bytes]. rewrite blen_concat. fold (klen (nd_kind n)).
  repeat split; try reflexivity; lia.
Qed.

Lemma B_reset_after_text c c' : reset_after_text text c = Ok c' ->
  B c' <= B c /\ c_ld c' = c_ld c /\ c_after_text c' = [].
Proof.
  unfold reset_after_text. intros H. usteps.
  - split; [lia|]. split; [reflexivity|assumption].
  - unfold B, Pt, Va, kinds. cproj. cbn [fragsum fold_right]. repeat split; lia.
  - apply B_merge_text in Hb. destruct Hb as (H1 & H2 & H3 & H4 & H5).
    unfold B, Pt, Va, kinds in *. cproj. cbn [fragsum fold_right].
    repeat split; try assumption; lia.
Qed.

(* ---- namespaces and attributes ---- *)
Lemma push_ns_attrs n u d d' : push_ns text n u d = Ok d' -> d_attrs d' = d_attrs d.
Proof. unfold push_ns. intros H. usteps; reflexivity. Qed.
Lemma push_ref_attrs i d d' : push_ref i d = Ok d' -> d_attrs d' = d_attrs d.
Proof. unfold push_ref. intros H. usteps; reflexivity. Qed.
Lemma resolve_ns_loop_attrs st is : forall d d',
  resolve_ns_loop text st is d = Ok d' -> d_attrs d' = d_attrs d.
Proof.
  induction is; intros d d' H; cbn [resolve_ns_loop] in H.
  - inversion H; reflexivity.
  - usteps; apply IHis in H; try apply push_ref_attrs in Hb2; congruence.
Qed.

Lemma resolve_attrs_loop_vl nss st l : forall d d',
  resolve_attrs_loop text nss st l d = Ok d' -> vl (d_attrs d') = vl (d_attrs d) + curval l.
Proof.
  induction l; intros d d' H; cbn [resolve_attrs_loop] in H.
  - inversion H; subst. cbn [curval fold_right]. lia.
  - usteps; apply IHl in H; rewrite H; cbn [set_attrs d_attrs]; rewrite vl_app;
    cbn [vl fold_right ad_value curval]; fold (curval l); lia.
Qed.

Lemma B_resolve_namespaces c x c' : resolve_namespaces text c = Ok (x, c') ->
  kinds c' = kinds c /\ same_rest c c'.
Proof.
  unfold resolve_namespaces, kinds, same_rest. intros H. usteps; cproj;
  try (pose proof (resolve_ns_loop_nodes _ _ _ _ _ Hb0) as E1;
       pose proof (resolve_ns_loop_attrs _ _ _ _ Hb0) as E2; rewrite E1, E2);
  repeat split; reflexivity.
Qed.

Lemma B_resolve_attributes nss c x c' : resolve_attributes text nss c = Ok (x, c') ->
  kinds c' = kinds c /\ c_after_text c' = c_after_text c /\ c_ld c' = c_ld c /\ Va c' = Va c.
Proof.
  unfold resolve_attributes, kinds, Va. intros H. usteps; cproj.
  - try rewrite Heql. repeat split; reflexivity.
  - pose proof (resolve_attrs_loop_nodes _ _ _ _ _ _ Hb) as E1.
    pose proof (resolve_attrs_loop_vl _ _ _ _ _ Hb) as E2. rewrite E1, E2. try rewrite Heql.
    cbn [curval fold_right]. repeat split; try reflexivity. lia.
Qed.

(* an element token after the reset: nothing changes *)
Lemma B_process_element e r c c' : process_element text e r c = Ok c' ->
  c_after_text c = [] -> B c' <= B c /\ c_ld c' = c_ld c.
Proof.
  unfold process_element. intros H Hat. usteps;
  repeat match goal with
  | H : resolve_namespaces _ _ = Ok _ |- _ => apply B_resolve_namespaces in H;
      destruct H as (?Hk & ?Ha & ?Hc & ?Hd & ?Hl)
  | H : resolve_attributes _ _ _ = Ok _ |- _ => apply B_resolve_attributes in H;
      destruct H as (?Hk & ?Ha & ?Hl & ?Hv)
  | H : append_node _ _ _ = Ok _ |- _ => apply append_node_view in H;
      destruct H as (?Hk & ?Ha & ?Hc & ?Hd & ?Hl)
  | H : upd_node _ _ _ = Ok _ |- _ => apply upd_node_kinds in H; [|intros; reflexivity]
  end;
  unfold B, Pt, Va, kinds in *; cproj;
  repeat match goal with H : map nd_kind _ = _ |- _ => rewrite H in *; clear H end;
  repeat match goal with H : c_after_text _ = _ |- _ => rewrite H in *; clear H end;
  repeat match goal with H : c_cur_attrs _ = _ |- _ => rewrite H in *; clear H end;
  repeat match goal with H : d_attrs _ = _ |- _ => rewrite H in *; clear H end;
  repeat match goal with H : c_ld _ = _ |- _ => rewrite H in *; clear H end;
  try rewrite tl_app; cbn [fragsum fold_right tl klen] in *; split; try reflexivity; lia.
Qed.

Lemma cdata_norm_len l : blen (cdata_norm l) <= blen l.
Proof.
  unfold blen. assert (H : forall n l, (length l <= n)%nat -> (length (cdata_norm l) <= length l)%nat).
  { induction n; intros l0 Hl.
    - destruct l0; [cbn; lia | cbn [length] in Hl; lia].
    - destruct l0 as [|x r]; [cbn; lia|]. cbn [length] in Hl. cbn [cdata_norm].
      destruct (x =? 13).
      + destruct r as [|y r']; [cbn; lia|]. destruct (y =? 10); cbn [length] in *.
        * specialize (IHn r' ltac:(lia)). lia.
        * specialize (IHn (y :: r') ltac:(cbn [length]; lia)). cbn [length] in IHn. lia.
      + cbn [length]. specialize (IHn r ltac:(lia)). lia. }
  specialize (H (length l) l ltac:(lia)). lia.
Qed.

Lemma B_process_cdata t r c c' : process_cdata text t r c = Ok c' ->
  B c' <= B c + blen (slice_bytes text t) /\ c_ld c' = c_ld c.
Proof.
  unfold process_cdata. intros H. destruct (mem_b 13 (slice_bytes text t));
  apply B_append_text in H; cbn [cow_bytes] in H; destruct H as [H1 H2]; split; try assumption.
  pose proof (cdata_norm_len (slice_bytes text t)). lia.
Qed.

Lemma slice_bytes_len sl : blen (slice_bytes text sl) <= sl_end sl - sl_start sl.
Proof.
  unfold slice_bytes, sub, blen. rewrite firstn_length. lia.
Qed.

(* ---- the text buffer ---- *)
Definition sz (t : text_buffer) : N := blen (tb_buf t) + (if tb_pending_cr t then 1 else 0).

Lemma sz_new : sz tb_new = 0.
Proof. reflexivity. Qed.

Lemma sz_push_raw x t : sz (tb_push_raw x t) = sz t + 1.
Proof.
  unfold tb_push_raw, tb_flush, sz. destruct (tb_pending_cr t); cbn [tb_buf tb_pending_cr];
  rewrite !blen_app; unfold blen; cbn [length]; lia.
Qed.

Lemma sz_push_from_attr x o t : sz (tb_push_from_attr x o t) <= sz t + 1.
Proof.
  unfold tb_push_from_attr, sz. destruct (_ && _); [lia|]. cbn [tb_buf tb_pending_cr].
  rewrite blen_app. unfold blen; cbn [length]. lia.
Qed.

Lemma sz_push_from_text x t : sz (tb_push_from_text x t) <= sz t + 1.
Proof.
  unfold tb_push_from_text, sz. destruct (tb_pending_cr t) eqn:E.
  - destruct (x =? 10); cbn [tb_buf tb_pending_cr].
    + rewrite blen_app. unfold blen; cbn [length]. lia.
    + destruct (x =? 13); cbn [tb_buf tb_pending_cr]; rewrite ?blen_app; unfold blen; cbn [length]; lia.
  - destruct (x =? 13); cbn [tb_buf tb_pending_cr]; rewrite ?E, ?blen_app; unfold blen; cbn [length]; lia.
Qed.

Lemma sz_finish t bs : tb_finish t = Ok bs -> blen bs = sz t.
Proof.
  unfold tb_finish, tb_flush, sz. destruct (tb_pending_cr t); cbn [tb_buf tb_pending_cr];
  intros H; usteps; rewrite ?blen_app; unfold blen; cbn [length]; lia.
Qed.

Lemma sz_empty t : tb_is_empty t = true -> sz t = 0.
Proof.
  unfold tb_is_empty, sz. destruct (tb_buf t); [|discriminate].
  destruct (tb_pending_cr t); [discriminate|reflexivity].
Qed.

Lemma sz_push_chars_text bs ie : forall t, sz (push_char_bytes_text bs ie t) <= sz t + blen bs.
Proof.
  induction bs; intros t; cbn [push_char_bytes_text]; [unfold blen; cbn; lia|].
  specialize (IHbs (if ie then tb_push_from_text a t else tb_push_raw a t)).
  pose proof (sz_push_from_text a t). pose proof (sz_push_raw a t).
  replace (blen (a :: bs)) with (blen bs + 1) by (unfold blen; cbn [length]; lia).
  destruct ie; lia.
Qed.

Lemma sz_push_chars_attr bs ie : forall t t',
  push_char_bytes_attr bs ie t = Some t' -> sz t' <= sz t + blen bs.
Proof.
  induction bs; intros t t' H; cbn [push_char_bytes_attr] in H.
  - inversion H; subst. unfold blen; cbn; lia.
  - replace (blen (a :: bs)) with (blen bs + 1) by (unfold blen; cbn [length]; lia).
    destruct ie.
    + destruct (a =? 60); [discriminate|]. apply IHbs in H.
      pose proof (sz_push_from_attr a None t). lia.
    + apply IHbs in H. pose proof (sz_push_raw a t). lia.
Qed.

Lemma encode_utf8_len c : blen (encode_utf8 c) <= 4.
Proof.
  unfold encode_utf8, blen.
  destruct (c <? 128); [cbn; lia|]. destruct (c <? 2048); [cbn; lia|].
  destruct (c <? 65536); cbn; lia.
Qed.

End WithText.
