(* Proofs/NavElem.v -- the remaining navigation API against the tree: has_siblings, the *_element
   variants, root_element, text / tail. *)
From Coq Require Import List PeanoNat NArith Bool Lia ZifyBool ZifyN ZifyNat.
From RX.Model Require Import Base Doc Builder Api.
From RX.Spec Require Import Tree Deque.
From RX.Proofs Require Import NavEnc NavLinks NavIter NavAxes.
Import ListNotations.
Open Scope N_scope.

Definition is_elem_id (t : tree) (i : N) : bool :=
  match find (fun e => fst (fst e) =? i) (table t) with
  | Some (_, _, T KdElem _) => true
  | _ => false
  end.
Definition first_elem (t : tree) (l : list N) : option N := find (is_elem_id t) l.

(* ------------------------------------------------------------------ *)
(* helpers *)
Lemma node_data_of_get d id nd : node_data_of d id = Ok nd -> get_node d id = Some nd.
Proof.
  unfold node_data_of. destruct (get_node d id); intros E; [injection E as ->; reflexivity | discriminate].
Qed.

Lemma hd_error_rev_cons {A} (x : A) l : exists y, hd_error (rev (x :: l)) = Some y.
Proof.
  destruct (rev (x :: l)) as [|y r] eqn:E; [|exists y; reflexivity].
  exfalso. apply (rev_ne (x :: l)); [discriminate | exact E].
Qed.

Lemma kind_of_elem k : is_element_kind k = match kind_of k with KdElem => true | _ => false end.
Proof. destruct k; reflexivity. Qed.

(* the kind column of the arena *)
Lemma arena_kind d t id par pv s :
  Arena' d t -> In (id, par, pv, s) (table' t) ->
  exists nd, get_node d id = Some nd /\ kind_of (nd_kind nd) = tkind s.
Proof.
  intros HA Hin. pose proof (arena_len _ _ HA) as Hlen. destruct HA as [HA _].
  pose proof (table'_bounds _ _ _ _ _ Hin) as Hb. pose proof (size_pos s) as Hs.
  pose proof (encode_row _ _ _ _ _ Hin) as Hrow.
  rewrite <- HA in Hrow. unfold links_of_nodes in Hrow. rewrite nth_error_map in Hrow.
  unfold get_node, nth_N. rewrite Hlen.
  destruct (size t <=? id) eqn:E; [apply N.leb_le in E; lia|].
  destruct (nth_error (d_nodes d) (N.to_nat id)) as [nd|]; cbn [option_map] in Hrow; [|discriminate].
  exists nd. split; [reflexivity|].
  injection Hrow as E1 _ _ _ _. cbn [link_of] in *. exact E1.
Qed.

Lemma table_get d t id par s :
  Arena' d t -> In (id, par, s) (table t) -> exists nd, get_node d id = Some nd.
Proof.
  intros HA Hin. destruct (in_table_table'' _ _ _ _ Hin) as [pv Hin'].
  destruct (arena_kind _ _ _ _ _ _ HA Hin') as (nd & Hg & _). eauto.
Qed.

Lemma node_is_element_spec d t i pi si :
  Arena' d t -> In (i, pi, si) (table t) -> node_is_element d i = Ok (is_elem_id t i).
Proof.
  intros HA Hin. destruct (in_table_table'' _ _ _ _ Hin) as [pv Hin'].
  destruct (arena_kind _ _ _ _ _ _ HA Hin') as (nd & Hg & Hk).
  unfold node_is_element, node_data_of. rewrite Hg. cbn [bind].
  unfold is_elem_id. rewrite (table_find _ _ _ _ Hin).
  destruct si as [k cs]. cbn [tkind] in Hk. rewrite kind_of_elem, Hk.
  destruct k; reflexivity.
Qed.

Definition in_table (t : tree) (i : N) : Prop := exists pi si, In (i, pi, si) (table t).

Lemma find_element_spec d t l :
  Arena' d t -> (forall i, In i l -> in_table t i) ->
  find_element d l = Ok (first_elem t l).
Proof.
  intros HA. induction l as [|a l IH]; intros Hl; [reflexivity|].
  destruct (Hl a (or_introl eq_refl)) as (pa & sa & Ha).
  cbn [find_element]. rewrite (node_is_element_spec _ _ _ _ _ HA Ha). cbn [bind].
  unfold first_elem. cbn [find]. destruct (is_elem_id t a); [reflexivity|].
  apply IH. intros i Hi. apply Hl. right. exact Hi.
Qed.

(* the lists the variants range over consist of table ids *)
Lemma children_in_table d t id par s :
  Arena' d t -> In (id, par, s) (table t) ->
  forall i, In i (child_ids (id + 1) (tchildren s)) -> in_table t i.
Proof.
  intros HA Hin i Hi. destruct (child_row d t id par s i HA Hin Hi) as (sx & Hrow & _).
  exists (Some id), sx. exact Hrow.
Qed.

Lemma anc_chain_facts t : forall fuel id par s x,
  In (id, par, s) (table t) -> In x (anc_chain fuel t par) -> x < id /\ in_table t x.
Proof.
  induction fuel as [|f IH]; intros id par s x Hin Hx; cbn [anc_chain] in Hx; [contradiction|].
  destruct par as [p|]; [|contradiction].
  destruct (in_table_table'' _ _ _ _ Hin) as [pv Hin'].
  destruct (table'_parent _ _ _ _ _ Hin') as (pp & ppv & k & l1 & l2 & Hp' & E & _).
  pose proof (in_table'_table' _ _ _ _ _ Hp') as Hp.
  rewrite (table_find _ _ _ _ Hp) in Hx. destruct Hx as [<- | Hx].
  - split; [lia|]. exists pp, (T k (l1 ++ s :: l2)). exact Hp.
  - destruct (IH _ _ _ _ Hp Hx) as [Hlt Ht]. split; [lia | exact Ht].
Qed.

Lemma siblings_in_table d t id par s :
  Arena' d t -> In (id, par, s) (table t) ->
  (forall i, In i (before N.eqb id (sibling_ids t id par)) -> in_table t i) /\
  (forall i, In i (after N.eqb id (sibling_ids t id par)) -> in_table t i) /\
  ~ In id (before N.eqb id (sibling_ids t id par)) /\
  ~ In id (after N.eqb id (sibling_ids t id par)).
Proof.
  intros HA Hin. destruct par as [p|].
  - destruct (table_siblings _ _ _ _ Hin) as (pp & sp & pre & post & Hp & E & Eb & Ea).
    rewrite Eb, Ea.
    pose proof (child_ids_NoDup (p + 1) (tchildren sp)) as ND. rewrite E in ND.
    apply NoDup_remove_2 in ND.
    repeat split.
    + intros i Hi. apply (children_in_table d t p pp sp HA Hp). rewrite E.
      apply in_or_app. left. exact Hi.
    + intros i Hi. apply (children_in_table d t p pp sp HA Hp). rewrite E.
      apply in_or_app. right. right. exact Hi.
    + intros Hi. apply ND. apply in_or_app. left. exact Hi.
    + intros Hi. apply ND. apply in_or_app. right. exact Hi.
  - cbn [sibling_ids before after]. rewrite N.eqb_refl. cbn [In]. tauto.
Qed.

(* ------------------------------------------------------------------ *)
(* 1. has_siblings *)
Theorem nav_has_siblings' : forall d t id par s,
  Arena' d t -> In (id, par, s) (table t) ->
  has_siblings d id = Ok (negb (length (sibling_ids t id par) <=? 1)%nat).
Proof.
  intros d t id par s HA Hin.
  pose proof (nav_next_sibling' _ _ _ _ _ HA Hin) as Hns.
  destruct (in_table_table'' _ _ _ _ Hin) as [pv Hin'].
  destruct (arena_get _ _ _ _ _ _ HA Hin') as (nd & Hg & _ & Hprev & _).
  unfold has_siblings, node_data_of. rewrite Hg. cbn [bind]. rewrite Hprev, Hns.
  destruct par as [p|].
  - destruct (table'_siblings _ _ _ _ _ Hin')
      as (pp & ppv & k & l1 & l2 & Hp & Eid & Epv & Es & Eb & Ea).
    rewrite Ea, Es, app_length. cbn [length]. rewrite !child_ids_length.
    destruct l1 as [|c1 l1].
    + cbn [child_ids rev hd_error] in Epv. rewrite Epv. cbn [bind length].
      destruct l2 as [|c2 l2]; reflexivity.
    + cbn [child_ids] in Epv.
      destruct (hd_error_rev_cons (p + 1) (child_ids (p + 1 + size c1) l1)) as [y Hy].
      rewrite Hy in Epv. rewrite Epv. cbn [length].
      replace (S (length l1) + S (length l2) <=? 1)%nat with false
        by (symmetry; apply Nat.leb_gt; lia).
      reflexivity.
  - apply table'_root in Hin'. destruct Hin' as (_ & -> & _).
    cbn [sibling_ids after]. rewrite N.eqb_refl. reflexivity.
Qed.
Print Assumptions nav_has_siblings'.

(* ------------------------------------------------------------------ *)
(* 2. the *_element variants *)
Theorem nav_element_variants_exclude_self' : forall d t id par s,
  Arena' d t -> In (id, par, s) (table t) ->
  ~ In id (ancestor_ids t par) /\
  ~ In id (before N.eqb id (sibling_ids t id par)) /\
  ~ In id (after N.eqb id (sibling_ids t id par)) /\
  ~ In id (child_ids (id + 1) (tchildren s)).
Proof.
  intros d t id par s HA Hin.
  destruct (siblings_in_table d t id par s HA Hin) as (_ & _ & Hb & Ha).
  repeat split; auto.
  - intros Hi. apply (anc_chain_facts t _ _ _ _ _ Hin) in Hi. lia.
  - intros Hi. apply child_ids_In in Hi. lia.
Qed.
Print Assumptions nav_element_variants_exclude_self'.

Theorem nav_parent_element' : forall d t id par s,
  Arena' d t -> In (id, par, s) (table t) ->
  parent_element d id = Ok (first_elem t (ancestor_ids t par)).
Proof.
  intros d t id par s HA Hin. unfold parent_element.
  rewrite (nav_ancestors' _ _ _ _ _ HA Hin). cbn [bind tl].
  apply find_element_spec; [exact HA|].
  intros i Hi. apply (anc_chain_facts t _ _ _ _ _ Hin Hi).
Qed.
Print Assumptions nav_parent_element'.

Theorem nav_prev_sibling_element' : forall d t id par s,
  Arena' d t -> In (id, par, s) (table t) ->
  prev_sibling_element d id =
  Ok (first_elem t (rev (before N.eqb id (sibling_ids t id par)))).
Proof.
  intros d t id par s HA Hin. unfold prev_sibling_element.
  rewrite (nav_prev_siblings' _ _ _ _ _ HA Hin). cbn [bind tl].
  apply find_element_spec; [exact HA|].
  intros i Hi. apply in_rev in Hi.
  apply (proj1 (siblings_in_table d t id par s HA Hin)). exact Hi.
Qed.
Print Assumptions nav_prev_sibling_element'.

Theorem nav_next_sibling_element' : forall d t id par s,
  Arena' d t -> In (id, par, s) (table t) ->
  next_sibling_element d id = Ok (first_elem t (after N.eqb id (sibling_ids t id par))).
Proof.
  intros d t id par s HA Hin. unfold next_sibling_element.
  rewrite (nav_next_siblings' _ _ _ _ _ HA Hin). cbn [bind tl].
  apply find_element_spec; [exact HA|].
  apply (proj1 (proj2 (siblings_in_table d t id par s HA Hin))).
Qed.
Print Assumptions nav_next_sibling_element'.

Theorem nav_first_element_child' : forall d t id par s,
  Arena' d t -> In (id, par, s) (table t) ->
  first_element_child d id = Ok (first_elem t (child_ids (id + 1) (tchildren s))).
Proof.
  intros d t id par s HA Hin. unfold first_element_child.
  rewrite (nav_children' _ _ _ _ _ HA Hin). cbn [bind].
  apply find_element_spec; [exact HA|].
  apply (children_in_table d t id par s HA Hin).
Qed.
Print Assumptions nav_first_element_child'.

Theorem nav_last_element_child' : forall d t id par s,
  Arena' d t -> In (id, par, s) (table t) ->
  last_element_child d id = Ok (first_elem t (rev (child_ids (id + 1) (tchildren s)))).
Proof.
  intros d t id par s HA Hin. unfold last_element_child.
  rewrite (nav_children' _ _ _ _ _ HA Hin). cbn [bind].
  apply find_element_spec; [exact HA|].
  intros i Hi. apply in_rev in Hi.
  apply (children_in_table d t id par s HA Hin). exact Hi.
Qed.
Print Assumptions nav_last_element_child'.

(* ------------------------------------------------------------------ *)
(* 3. root_element *)
Lemma table_root t : In (0, None, t) (table t).
Proof.
  unfold table. destruct t as [k cs]. rewrite nodes_of_T. left. reflexivity.
Qed.

Lemma root_first_element_child d t :
  Arena' d t -> first_element_child d 0 = Ok (first_elem t (child_ids 1 (tchildren t))).
Proof.
  intros HA. rewrite (nav_first_element_child' d t 0 None t HA (table_root t)). reflexivity.
Qed.

Theorem nav_root_element' : forall d t i,
  Arena' d t -> first_elem t (child_ids 1 (tchildren t)) = Some i -> root_element d = Ok i.
Proof.
  intros d t i HA Hi. unfold root_element.
  rewrite (root_first_element_child d t HA), Hi. reflexivity.
Qed.
Print Assumptions nav_root_element'.

Theorem nav_root_element_none' : forall d t,
  Arena' d t -> first_elem t (child_ids 1 (tchildren t)) = None ->
  root_element d = Panic P_unwrap.
Proof.
  intros d t HA Hi. unfold root_element.
  rewrite (root_first_element_child d t HA), Hi. reflexivity.
Qed.
Print Assumptions nav_root_element_none'.

(* ------------------------------------------------------------------ *)
(* 4. text / tail *)
Definition text_of_node (d : document) (o : option N) : option storage :=
  match o with
  | Some c =>
    match get_node d c with
    | Some cnd => match nd_kind cnd with KText st => Some st | _ => None end
    | None => None
    end
  | None => None
  end.

Theorem nav_text_storage' : forall d t id par s nd,
  Arena' d t -> In (id, par, s) (table t) -> node_data_of d id = Ok nd ->
  text_storage d id =
  Ok (match nd_kind nd with
      | KElement _ _ _ _ =>
        match hd_error (child_ids (id + 1) (tchildren s)) with
        | Some c =>
          match get_node d c with
          | Some cnd => match nd_kind cnd with KText st => Some st | _ => None end
          | None => None
          end
        | None => None
        end
      | KComment sl => Some (Borrowed (SIn sl))
      | KText st => Some st
      | _ => None
      end).
Proof.
  intros d t id par s nd HA Hin Hnd.
  unfold text_storage. rewrite Hnd. cbn [bind].
  destruct (nd_kind nd); try reflexivity.
  rewrite (nav_first_child' _ _ _ _ _ HA Hin). cbn [bind].
  destruct (hd_error (child_ids (id + 1) (tchildren s))) as [c|] eqn:Ec; [|reflexivity].
  assert (Hc : In c (child_ids (id + 1) (tchildren s))).
  { destruct (child_ids (id + 1) (tchildren s)); [discriminate|].
    injection Ec as ->. left. reflexivity. }
  destruct (children_in_table d t id par s HA Hin c Hc) as (pc & sc & Hrow).
  destruct (table_get _ _ _ _ _ HA Hrow) as [cnd Hg].
  unfold node_data_of. rewrite Hg. cbn [bind].
  destruct (nd_kind cnd); reflexivity.
Qed.
Print Assumptions nav_text_storage'.

Theorem nav_tail_storage' : forall d t id par s nd,
  Arena' d t -> In (id, par, s) (table t) -> node_data_of d id = Ok nd ->
  tail_storage d id =
  Ok (match nd_kind nd with
      | KElement _ _ _ _ =>
        match hd_error (after N.eqb id (sibling_ids t id par)) with
        | Some c =>
          match get_node d c with
          | Some cnd => match nd_kind cnd with KText st => Some st | _ => None end
          | None => None
          end
        | None => None
        end
      | _ => None
      end).
Proof.
  intros d t id par s nd HA Hin Hnd.
  unfold tail_storage. rewrite Hnd. cbn [bind].
  destruct (nd_kind nd); try reflexivity.
  cbn [is_element_kind negb].
  rewrite (nav_next_sibling' _ _ _ _ _ HA Hin). cbn [bind].
  destruct (hd_error (after N.eqb id (sibling_ids t id par))) as [c|] eqn:Ec; [|reflexivity].
  assert (Hc : In c (after N.eqb id (sibling_ids t id par))).
  { destruct (after N.eqb id (sibling_ids t id par)); [discriminate|].
    injection Ec as ->. left. reflexivity. }
  destruct (proj1 (proj2 (siblings_in_table d t id par s HA Hin)) c Hc) as (pc & sc & Hrow).
  destruct (table_get _ _ _ _ _ HA Hrow) as [cnd Hg].
  unfold node_data_of. rewrite Hg. cbn [bind].
  destruct (nd_kind cnd); reflexivity.
Qed.
Print Assumptions nav_tail_storage'.

(* ------------------------------------------------------------------ *)
(* the theorems for [Arena] (strict bound) *)
Theorem nav_has_siblings : forall d t id par s,
  Arena d t -> In (id, par, s) (table t) ->
  has_siblings d id = Ok (negb (length (sibling_ids t id par) <=? 1)%nat).
Proof.
  intros *. intros HA. generalize (Arena_weaken _ _ HA). clear HA. apply nav_has_siblings'.
Qed.
Print Assumptions nav_has_siblings.

Theorem nav_element_variants_exclude_self : forall d t id par s,
  Arena d t -> In (id, par, s) (table t) ->
  ~ In id (ancestor_ids t par) /\
  ~ In id (before N.eqb id (sibling_ids t id par)) /\
  ~ In id (after N.eqb id (sibling_ids t id par)) /\
  ~ In id (child_ids (id + 1) (tchildren s)).
Proof.
  intros *. intros HA. generalize (Arena_weaken _ _ HA). clear HA. apply nav_element_variants_exclude_self'.
Qed.
Print Assumptions nav_element_variants_exclude_self.

Theorem nav_parent_element : forall d t id par s,
  Arena d t -> In (id, par, s) (table t) ->
  parent_element d id = Ok (first_elem t (ancestor_ids t par)).
Proof.
  intros *. intros HA. generalize (Arena_weaken _ _ HA). clear HA. apply nav_parent_element'.
Qed.
Print Assumptions nav_parent_element.

Theorem nav_prev_sibling_element : forall d t id par s,
  Arena d t -> In (id, par, s) (table t) ->
  prev_sibling_element d id =
  Ok (first_elem t (rev (before N.eqb id (sibling_ids t id par)))).
Proof.
  intros *. intros HA. generalize (Arena_weaken _ _ HA). clear HA. apply nav_prev_sibling_element'.
Qed.
Print Assumptions nav_prev_sibling_element.

Theorem nav_next_sibling_element : forall d t id par s,
  Arena d t -> In (id, par, s) (table t) ->
  next_sibling_element d id = Ok (first_elem t (after N.eqb id (sibling_ids t id par))).
Proof.
  intros *. intros HA. generalize (Arena_weaken _ _ HA). clear HA. apply nav_next_sibling_element'.
Qed.
Print Assumptions nav_next_sibling_element.

Theorem nav_first_element_child : forall d t id par s,
  Arena d t -> In (id, par, s) (table t) ->
  first_element_child d id = Ok (first_elem t (child_ids (id + 1) (tchildren s))).
Proof.
  intros *. intros HA. generalize (Arena_weaken _ _ HA). clear HA. apply nav_first_element_child'.
Qed.
Print Assumptions nav_first_element_child.

Theorem nav_last_element_child : forall d t id par s,
  Arena d t -> In (id, par, s) (table t) ->
  last_element_child d id = Ok (first_elem t (rev (child_ids (id + 1) (tchildren s)))).
Proof.
  intros *. intros HA. generalize (Arena_weaken _ _ HA). clear HA. apply nav_last_element_child'.
Qed.
Print Assumptions nav_last_element_child.

Theorem nav_root_element : forall d t i,
  Arena d t -> first_elem t (child_ids 1 (tchildren t)) = Some i -> root_element d = Ok i.
Proof.
  intros *. intros HA. generalize (Arena_weaken _ _ HA). clear HA. apply nav_root_element'.
Qed.
Print Assumptions nav_root_element.

Theorem nav_root_element_none : forall d t,
  Arena d t -> first_elem t (child_ids 1 (tchildren t)) = None ->
  root_element d = Panic P_unwrap.
Proof.
  intros *. intros HA. generalize (Arena_weaken _ _ HA). clear HA. apply nav_root_element_none'.
Qed.
Print Assumptions nav_root_element_none.

Theorem nav_text_storage : forall d t id par s nd,
  Arena d t -> In (id, par, s) (table t) -> node_data_of d id = Ok nd ->
  text_storage d id =
  Ok (match nd_kind nd with
      | KElement _ _ _ _ =>
        match hd_error (child_ids (id + 1) (tchildren s)) with
        | Some c =>
          match get_node d c with
          | Some cnd => match nd_kind cnd with KText st => Some st | _ => None end
          | None => None
          end
        | None => None
        end
      | KComment sl => Some (Borrowed (SIn sl))
      | KText st => Some st
      | _ => None
      end).
Proof.
  intros *. intros HA. generalize (Arena_weaken _ _ HA). clear HA. apply nav_text_storage'.
Qed.
Print Assumptions nav_text_storage.

Theorem nav_tail_storage : forall d t id par s nd,
  Arena d t -> In (id, par, s) (table t) -> node_data_of d id = Ok nd ->
  tail_storage d id =
  Ok (match nd_kind nd with
      | KElement _ _ _ _ =>
        match hd_error (after N.eqb id (sibling_ids t id par)) with
        | Some c =>
          match get_node d c with
          | Some cnd => match nd_kind cnd with KText st => Some st | _ => None end
          | None => None
          end
        | None => None
        end
      | _ => None
      end).
Proof.
  intros *. intros HA. generalize (Arena_weaken _ _ HA). clear HA. apply nav_tail_storage'.
Qed.
Print Assumptions nav_tail_storage.

