(* Proofs/CstFullS4Sem.v -- the capstone fragment, stage S4 (Spec/CstFullS4.v), facts that do not involve the parser:
   the declarations seen as declarations of Spec/CstEnt.v ([pd]: a markup value is carried as its bytes), so that
   the character-data machinery of S3 applies to them; the table of S4 and the table of Spec/CstEnt.v agree on
   character data; the items of an inlined document read from left to right ([walk]: the open run and the
   complete items, as Proofs/CstEntCSem.v) and what they denote. *)
From Coq Require Import List NArith PeanoNat Bool Lia ZifyBool ZifyN ZifyNat.
Import ListNotations.
From RX Require Import Generated.
From RX.Model Require Import Base Builder.
From RX.Spec Require Cst CstText CstEnt Chars CstU CstNs Detector Scope.
From RX.Spec Require Import Text CstFull CstFullS4.
From RX.Proofs Require Import CstTextSem CstEntSem CstEntMeaning CstEntInline CstEntCSem CstFullTree.
Open Scope N_scope.

(* ------------------------------------------------------------------------------------------ *)
(* the declarations as declarations of Spec/CstEnt.v                                          *)
(* ------------------------------------------------------------------------------------------ *)
(* a markup value is carried as ONE literal with the bytes of its rendering: the character-data machine never
   looks inside, the lexer of the DOCTYPE and the table of entities only see the bytes *)
Definition pv (v : xvalue) : E.evalue :=
  match v with
  | XText ps => E.EText (enc_epieces ps)
  | XContent its => E.EContent [E.IText [E.EP (T.PLit (r_uitems its))]]
  end.
Definition pd (d : xdecl) : E.edecl :=
  {| E.e_ws0 := x_ws0 d; E.e_ws1 := x_ws1 d; E.e_name := utf8s (x_name d); E.e_ws2 := x_ws2 d;
     E.e_quote := x_quote d; E.e_value := pv (x_value d); E.e_ws3 := x_ws3 d |}.
Definition pdtd (t : xdtd) : E.dtd :=
  {| E.t_ws1 := t_ws1 t; E.t_name := utf8s (t_name t); E.t_ws2 := t_ws2 t; E.t_decls := map pd (t_decls t);
     E.t_ws3 := t_ws3 t; E.t_ws4 := t_ws4 t |}.

Lemma r_value_pv v : E.r_value (pv v) = r_xvalue v.
Proof.
  destruct v as [ps|its]; [reflexivity|]. cbn [pv E.r_value E.r_items flat_map E.r_item E.r_epieces E.r_epiece T.r_piece r_xvalue].
  rewrite !app_nil_r. reflexivity.
Qed.

Lemma r_decl_pd d : E.r_decl (pd d) = r_xdecl d.
Proof. unfold E.r_decl, r_xdecl, pd. cbn [E.e_ws0 E.e_ws1 E.e_name E.e_ws2 E.e_quote E.e_value E.e_ws3]. rewrite r_value_pv. reflexivity. Qed.

Lemma r_decls_pd ds : flat_map E.r_decl (map pd ds) = flat_map r_xdecl ds.
Proof. induction ds as [|d r IH]; [reflexivity|]. cbn [map flat_map]. rewrite r_decl_pd, IH. reflexivity. Qed.

Lemma r_dtd_pd t : E.r_dtd (pdtd t) = r_xdtd t.
Proof. unfold E.r_dtd, r_xdtd, pdtd. cbn [E.t_ws1 E.t_name E.t_ws2 E.t_decls E.t_ws3 E.t_ws4]. rewrite r_decls_pd. reflexivity. Qed.

(* ---- the first declaration of a name ---- *)
Definition first_xdecl (decls : list xdecl) (n : bytes) : option xdecl :=
  find (fun d => E.beq (utf8s (x_name d)) n) decls.

Lemma first_decl_pd decls n : first_decl (map pd decls) n = option_map pd (first_xdecl decls n).
Proof.
  unfold first_decl, first_xdecl. induction decls as [|d r IH]; [reflexivity|]. cbn [map find].
  change (E.e_name (pd d)) with (utf8s (x_name d)). destruct (E.beq (utf8s (x_name d)) n); [reflexivity|exact IH].
Qed.

Lemma ylookup_map (g : xdecl -> option yval) n : forall l,
  ylookup (map (fun e => (utf8s (x_name e), g e)) l) n =
  match first_xdecl l n with Some d => g d | None => None end.
Proof.
  unfold first_xdecl. induction l as [|e l IH]; [reflexivity|]. cbn [map ylookup find].
  destruct (E.beq (utf8s (x_name e)) n); [reflexivity|exact IH].
Qed.

Lemma ylookup_level decls k n :
  ylookup (level decls k) n =
  match k with
  | O => None
  | S k' => match first_xdecl decls n with
            | Some d => inline_value (level decls k') (x_value d)
            | None => None
            end
  end.
Proof.
  destruct k as [|k']; cbn [level].
  - rewrite (ylookup_map (fun _ => None)). destruct (first_xdecl decls n); reflexivity.
  - apply (ylookup_map (fun e => inline_value (level decls k') (x_value e))).
Qed.

Lemma lookup_ptable tb n :
  E.lookup (ptable tb) n =
  match ylookup tb n with
  | Some v => Some {| E.x_items := []; E.x_pieces := y_pieces v; E.x_trace := y_trace v |}
  | None => None
  end.
Proof.
  induction tb as [|[m v] r IH]; [reflexivity|]. cbn [ptable map E.lookup ylookup fst snd].
  destruct (E.beq m n); [reflexivity|exact IH].
Qed.

(* ---- the two tables agree on character data ---- *)
(* what a reference in character data sees of an entry *)
Definition pview (v : option E.xval) : option (list T.piece * list Detector.lop) :=
  match v with
  | Some x => match E.x_pieces x with Some q => Some (q, E.x_trace x) | None => None end
  | None => None
  end.
Definition teq (t1 t2 : E.table) : Prop := forall n, pview (E.lookup t1 n) = pview (E.lookup t2 n).

Lemma inline_ps_teq t1 t2 fa ie : teq t1 t2 -> forall ps, E.inline_ps t1 fa ie ps = E.inline_ps t2 fa ie ps.
Proof.
  intros Ht. induction ps as [|p ps IH]; [reflexivity|]. cbn [E.inline_ps]. destruct p as [p|n].
  - rewrite IH. reflexivity.
  - specialize (Ht n). unfold pview in Ht.
    destruct (E.lookup t1 n) as [v1|], (E.lookup t2 n) as [v2|]; cbn [E.obind].
    + destruct (E.x_pieces v1) as [q1|], (E.x_pieces v2) as [q2|]; cbn [E.obind]; try discriminate; [|reflexivity].
      injection Ht as -> ->. rewrite IH. reflexivity.
    + destruct (E.x_pieces v1); [discriminate|reflexivity].
    + destruct (E.x_pieces v2); [discriminate|reflexivity].
    + reflexivity.
Qed.

Lemma level_teq decls : forall k, teq (ptable (level decls k)) (E.level (map pd decls) k).
Proof.
  induction k as [|k IH]; intros n; rewrite lookup_ptable, ylookup_level, lookup_level.
  - reflexivity.
  - rewrite first_decl_pd. destruct (first_xdecl decls n) as [d|]; cbn [option_map]; [|reflexivity].
    change (E.e_value (pd d)) with (pv (x_value d)).
    destruct (x_value d) as [ps|its]; cbn [inline_value pv E.inline_value].
    + rewrite (inline_ps_teq _ _ false true IH).
      destruct (E.inline_ps (E.level (map pd decls) k) false true (enc_epieces ps)) as [[q tr]|]; reflexivity.
    + destruct (inline_items (level decls k) true its) as [[x tr]|]; reflexivity.
Qed.

Lemma inline_ps_level decls k fa ie ps :
  E.inline_ps (ptable (level decls k)) fa ie ps = E.inline_ps (E.level (map pd decls) k) fa ie ps.
Proof. apply inline_ps_teq. apply level_teq. Qed.

(* ------------------------------------------------------------------------------------------ *)
(* items                                                                                      *)
(* ------------------------------------------------------------------------------------------ *)
Notation bden := (den bmeaning).
Notation bdens := (CstFullTree.dens bpieces bmeaning).

Lemma inline_item_elem tb ie name es ws body :
  inline_item tb ie (IElem name es ws body) =
  E.obind (inline_entries tb ie es) (fun a =>
  match body with
  | None => Some ([@IElem bpieces name (fst a) ws None], snd a)
  | Some (cs, ws2) =>
    E.obind (inline_items tb ie cs) (fun b0 =>
    Some ([@IElem bpieces name (fst a) ws (Some (regroup (fst b0), ws2))], snd a ++ snd b0))
  end).
Proof.
  destruct body as [[cs ws2]|]; [|reflexivity]. cbn [inline_item]. destruct (inline_entries tb ie es); [|reflexivity].
  cbn [E.obind].
  assert (Ego : forall l, (fix go (l : list uitem) : option (list bitem * list Detector.lop) :=
                  match l with
                  | [] => Some ([], [])
                  | c :: r => E.obind (inline_item tb ie c) (fun x => E.obind (go r) (fun y =>
                              Some (fst x ++ fst y, snd x ++ snd y)))
                  end) l = inline_items tb ie l).
  { induction l as [|c r IH]; [reflexivity|]. cbn [inline_items]. rewrite IH. reflexivity. }
  rewrite Ego. reflexivity.
Qed.

Definition is_btext (i : bitem) : bool := match i with IText _ => true | _ => false end.

(* a run that ends: no item if it has no piece but boundary marks *)
Definition flush (acc : list T.piece) : list bitem := if all_marks acc then [] else [@IText bpieces acc].

(* acc: the pieces of the open run; result: the complete items, and the pieces of the run open at the end *)
Fixpoint walk (acc : list T.piece) (its : list bitem) : list bitem * list T.piece :=
  match its with
  | [] => ([], acc)
  | IText ps :: r => walk (acc ++ ps) r
  | i :: r => let (out, acc') := walk [] r in (flush acc ++ i :: out, acc')
  end.

Lemma walk_nontext acc i r : is_btext i = false ->
  walk acc (i :: r) = (flush acc ++ i :: fst (walk [] r), snd (walk [] r)).
Proof. intros H. destruct i; try discriminate; cbn [walk]; destruct (walk [] r); reflexivity. Qed.

Lemma walk_app : forall a b0 acc,
  walk acc (a ++ b0) = (fst (walk acc a) ++ fst (walk (snd (walk acc a)) b0), snd (walk (snd (walk acc a)) b0)).
Proof.
  induction a as [|i a IH]; intros b0 acc.
  - cbn [app walk fst snd]. destruct (walk acc b0); reflexivity.
  - cbn [app]. destruct (is_btext i) eqn:Ei.
    + destruct i as [|ps| |]; try discriminate. cbn [walk]. apply IH.
    + rewrite !walk_nontext by exact Ei. cbn [fst snd]. rewrite (IH b0 []). cbn [fst snd].
      rewrite <- app_assoc. reflexivity.
Qed.

Lemma walk_single a i : is_btext i = false -> walk a [i] = (flush a ++ [i], []).
Proof. intros H. rewrite walk_nontext by exact H. reflexivity. Qed.

(* ---- what the items denote ---- *)
Lemma bden_text ps : bden (@IText bpieces ps) = if all_marks ps then [] else [CstNs.IText (T.text_sem ps)].
Proof. cbn [den run_sem bmeaning]. unfold all_marks. destruct (forallb E.is_mark ps); reflexivity. Qed.

Lemma bdens_app l1 l2 : bdens (l1 ++ l2) = bdens l1 ++ bdens l2.
Proof. induction l1 as [|i r IH]; [reflexivity|]. cbn [app CstFullTree.dens]. rewrite IH, app_assoc. reflexivity. Qed.

Lemma bdens_flush acc : bdens (flush acc) = bden (@IText bpieces acc).
Proof. rewrite bden_text. unfold flush. destruct (all_marks acc) eqn:E; [reflexivity|]. cbn [CstFullTree.dens]. rewrite bden_text, E, app_nil_r. reflexivity. Qed.

Lemma regroup_merge a b0 r : regroup (@IText bpieces a :: @IText bpieces b0 :: r) = regroup (@IText bpieces (a ++ b0) :: r).
Proof.
  cbn [regroup]. destruct (regroup r) as [|[| qs | |] r']; rewrite ?app_assoc; reflexivity.
Qed.

Lemma regroup_nontext i r : is_btext i = false -> regroup (i :: r) = i :: regroup r.
Proof. destruct i; try discriminate; reflexivity. Qed.

Lemma regroup_text_nontext a i r : is_btext i = false -> regroup (@IText bpieces a :: i :: r) = @IText bpieces a :: i :: regroup r.
Proof. intros H. destruct i; try discriminate; reflexivity. Qed.

Lemma bdens_regroup_nil r : bdens (regroup (@IText bpieces [] :: r)) = bdens (regroup r).
Proof.
  cbn [regroup]. destruct (regroup r) as [|[| qs | |] r']; cbn [CstFullTree.dens app]; try reflexivity.
Qed.

Lemma bdens_regroup_walk : forall its acc,
  bdens (regroup (@IText bpieces acc :: its)) = bdens (fst (walk acc its) ++ flush (snd (walk acc its))).
Proof.
  induction its as [|i r IH]; intros acc.
  - cbn [walk fst snd app regroup]. rewrite bdens_flush. cbn [CstFullTree.dens]. rewrite app_nil_r. reflexivity.
  - destruct (is_btext i) eqn:Ei.
    + destruct i as [|ps| |]; try discriminate. rewrite regroup_merge. cbn [walk]. apply IH.
    + rewrite regroup_text_nontext, walk_nontext by exact Ei. cbn [fst snd].
      rewrite <- app_assoc, bdens_app, bdens_flush. cbn [CstFullTree.dens app]. f_equal. f_equal.
      rewrite <- bdens_regroup_nil. apply IH.
Qed.

(* the children of an element, read from left to right *)
Lemma bdens_regroup its : bdens (regroup its) = bdens (fst (walk [] its) ++ flush (snd (walk [] its))).
Proof. rewrite <- bdens_regroup_nil. apply bdens_regroup_walk. Qed.

(* ---- the line-end proviso ---- *)
Definition Pok (a : list T.piece) (its : list bitem) : Prop :=
  forallb provisos_item (fst (walk a its)) = true /\ E.crlf_split_ok (snd (walk a its)) = true.

Lemma crlf_marks_ok M : all_marks M = true -> E.crlf_split_ok M = true.
Proof. intros H. rewrite <- (app_nil_l M). apply crlf_split_marks; [exact H|reflexivity]. Qed.

Lemma provisos_flush acc : forallb provisos_item (flush acc) = true <-> (all_marks acc = true \/ E.crlf_split_ok acc = true).
Proof.
  unfold flush. destruct (all_marks acc) eqn:E; cbn [forallb provisos_item].
  - split; auto.
  - rewrite andb_true_r. split; [auto|]. intros [H|H]; [discriminate|exact H].
Qed.

Lemma provisos_walk_gen : forall its acc,
  forallb provisos_item (regroup (@IText bpieces acc :: its)) = true -> Pok acc its.
Proof.
  induction its as [|i r IH]; intros acc H.
  - cbn [regroup forallb provisos_item] in H. rewrite andb_true_r in H. split; [reflexivity|exact H].
  - destruct (is_btext i) eqn:Ei.
    + destruct i as [|ps| |]; try discriminate. rewrite regroup_merge in H. unfold Pok. cbn [walk]. apply IH. exact H.
    + rewrite regroup_text_nontext in H by exact Ei. cbn [forallb] in H. rewrite !andb_true_iff in H.
      destruct H as [H1 [H2 H3]]. cbn [provisos_item] in H1.
      assert (H0 : forallb provisos_item (regroup (@IText bpieces [] :: r)) = true).
      { cbn [regroup]. destruct (regroup r) as [|[| qs | |] r'] eqn:Er; cbn [forallb provisos_item app] in *; rewrite ?H3; reflexivity. }
      destruct (IH [] H0) as [K1 K2]. unfold Pok. rewrite walk_nontext by exact Ei. cbn [fst snd].
      split; [|exact K2]. rewrite forallb_app. cbn [forallb]. rewrite H2, K1, andb_true_r.
      apply provisos_flush. right. exact H1.
Qed.

Lemma provisos_walk its : forallb provisos_item (regroup its) = true -> Pok [] its.
Proof.
  intros H. apply provisos_walk_gen.
  cbn [regroup]. destruct (regroup its) as [|[| qs | |] r'] eqn:Er; cbn [forallb provisos_item app] in *; rewrite ?H; reflexivity.
Qed.

Lemma Pok_acc : forall its a, Pok a its -> E.crlf_split_ok a = true.
Proof.
  induction its as [|i r IH]; intros a [H1 H2].
  - exact H2.
  - destruct (is_btext i) eqn:Ei.
    + destruct i as [|ps| |]; try discriminate. cbn [walk] in H1, H2.
      apply (crlf_split_app_l a ps). apply IH. split; assumption.
    + rewrite walk_nontext in H1 by exact Ei. cbn [fst] in H1. rewrite forallb_app in H1. apply andb_true_iff in H1.
      destruct H1 as [H1 _]. apply provisos_flush in H1. destruct H1 as [H1|H1]; [apply crlf_marks_ok; exact H1|exact H1].
Qed.

Lemma Pok_app a x y : Pok a (x ++ y) -> Pok a x /\ Pok (snd (walk a x)) y.
Proof.
  intros [H1 H2]. rewrite walk_app in H1, H2. cbn [fst snd] in H1, H2. rewrite forallb_app in H1.
  apply andb_true_iff in H1. destruct H1 as [H1 H1'].
  assert (Py : Pok (snd (walk a x)) y) by (split; assumption).
  split; [|exact Py]. split; [exact H1|apply (Pok_acc y _ Py)].
Qed.

Print Assumptions inline_ps_level.
Print Assumptions bdens_regroup.
Print Assumptions provisos_walk.
