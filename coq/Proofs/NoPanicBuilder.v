(* Proofs/NoPanicBuilder.v -- the invariant of the tree builder (Context) and the panic-freedom
   of its helper functions: node arena, namespaces, attributes. *)
From Coq Require Import Ascii String.
From Coq Require Import List Arith NArith Bool Lia ZifyBool ZifyN ZifyNat.
Import ListNotations.
From RX Require Import Generated.
From RX.Model Require Import Base CharClass Stream Tokenizer Doc Builder.
From RX.Proofs Require Import Tactics NoPanicUtf8 NoPanicStream.
Open Scope N_scope.

(* ---------------------------------------------------------------------------------------- *)
(* indexing                                                                                 *)
(* ---------------------------------------------------------------------------------------- *)

Lemma nth_N_some {A} (l : list A) i : i < len_N l -> exists x, nth_N l i = Some x.
Proof.
  intros H. unfold nth_N, len_N in *. destruct (N.of_nat (length l) <=? i) eqn:E; [lia|].
  destruct (nth_error l (N.to_nat i)) eqn:En; eauto.
  apply nth_error_None in En. lia.
Qed.

Lemma nth_N_inv {A} (l : list A) i x : nth_N l i = Some x ->
  i < len_N l /\ nth_error l (N.to_nat i) = Some x.
Proof.
  unfold nth_N, len_N. destruct (N.of_nat (length l) <=? i) eqn:E; [discriminate|].
  intros H. split; [lia|exact H].
Qed.

Lemma nth_N_of_nth_error {A} (l : list A) i x :
  nth_error l (N.to_nat i) = Some x -> nth_N l i = Some x.
Proof.
  intros H. unfold nth_N, len_N.
  assert (N.to_nat i < length l)%nat by (apply nth_error_Some; congruence).
  destruct (N.of_nat (length l) <=? i) eqn:E; [lia|exact H].
Qed.

Lemma len_N_app {A} (l r : list A) : len_N (l ++ r) = len_N l + len_N r.
Proof. unfold len_N. rewrite app_length. lia. Qed.

Lemma Forall_skipn {A} (P : A -> Prop) n l : Forall P l -> Forall P (skipn n l).
Proof. revert l; induction n; intros l H; cbn; auto. destruct l; auto. inversion H; auto. Qed.

Lemma Forall_firstn {A} (P : A -> Prop) n l : Forall P l -> Forall P (firstn n l).
Proof. revert l; induction n; intros l H; cbn; auto. destruct l; auto. inversion H; subst. constructor; auto. Qed.

Lemma Forall_nth_N {A} (P : A -> Prop) l i x : Forall P l -> nth_N l i = Some x -> P x.
Proof.
  intros H Hn. apply nth_N_inv in Hn as [_ Hn]. apply nth_error_In in Hn.
  rewrite Forall_forall in H. auto.
Qed.

(* ---------------------------------------------------------------------------------------- *)
(* updates of the node arena keep the parent links and the kinds (up to Text -> Text)       *)
(* ---------------------------------------------------------------------------------------- *)

Definition KindSim (k k' : node_kind) : Prop :=
  k' = k \/ (is_text_kind k = true /\ is_text_kind k' = true).

Lemma KindSim_refl k : KindSim k k.
Proof. left; reflexivity. Qed.

Lemma KindSim_trans k1 k2 k3 : KindSim k1 k2 -> KindSim k2 k3 -> KindSim k1 k3.
Proof.
  intros [->|[H1 H2]] [->|[H3 H4]]; unfold KindSim; auto.
Qed.

Definition NodesSim (l l' : list node_data) : Prop :=
  length l' = length l /\
  forall j nd, nth_error l j = Some nd ->
    exists nd', nth_error l' j = Some nd' /\ nd_parent nd' = nd_parent nd /\
                KindSim (nd_kind nd) (nd_kind nd').

Lemma NodesSim_refl l : NodesSim l l.
Proof. split; auto. intros j nd H. exists nd. auto using KindSim_refl. Qed.

Lemma NodesSim_trans l1 l2 l3 : NodesSim l1 l2 -> NodesSim l2 l3 -> NodesSim l1 l3.
Proof.
  intros [L1 H1] [L2 H2]. split; [congruence|]. intros j nd Hj.
  destruct (H1 _ _ Hj) as (nd' & Hj' & P1 & K1). destruct (H2 _ _ Hj') as (nd'' & Hj'' & P2 & K2).
  exists nd''. repeat split; auto; [congruence|eapply KindSim_trans; eauto].
Qed.

Lemma NodesSim_len l l' : NodesSim l l' -> len_N l' = len_N l.
Proof. intros [H _]. unfold len_N. congruence. Qed.

Lemma list_upd_spec {A} (f : A -> A) : forall (l : list A) i,
  (i < length l)%nat ->
  exists l', list_upd l i f = Some l' /\ length l' = length l /\
    forall j, nth_error l' j = if Nat.eqb j i then option_map f (nth_error l j) else nth_error l j.
Proof.
  induction l as [|x l IH]; intros i Hi; cbn in Hi; [lia|].
  destruct i as [|i]; cbn [list_upd].
  - eexists; split; [reflexivity|]. split; [reflexivity|]. intros [|j]; reflexivity.
  - destruct (IH i ltac:(lia)) as (l' & -> & Hl & Hn). eexists; split; [reflexivity|].
    split; [cbn; lia|]. intros [|j]; cbn; auto.
Qed.

Definition GoodAt (nodes : list node_data) (i : N) (f : node_data -> node_data) : Prop :=
  forall nd, nth_error nodes (N.to_nat i) = Some nd ->
    nd_parent (f nd) = nd_parent nd /\ KindSim (nd_kind nd) (nd_kind (f nd)).

Lemma upd_node_safe nodes i f : i < len_N nodes -> GoodAt nodes i f ->
  safe (upd_node nodes i f) (NodesSim nodes).
Proof.
  intros Hi Hg. unfold upd_node, len_N in *.
  destruct (list_upd_spec f nodes (N.to_nat i) ltac:(lia)) as (l' & -> & Hl & Hn).
  cbn. split; auto. intros j nd Hj. rewrite Hn.
  destruct (Nat.eqb j (N.to_nat i)) eqn:E.
  - apply Nat.eqb_eq in E. subst j. rewrite Hj. cbn. exists (f nd).
    destruct (Hg nd Hj). auto.
  - exists nd. auto using KindSim_refl.
Qed.

Lemma GoodAt_keep nodes i f :
  (forall nd, nd_parent (f nd) = nd_parent nd /\ nd_kind (f nd) = nd_kind nd) -> GoodAt nodes i f.
Proof. intros H nd _. destruct (H nd) as [H1 H2]. split; auto. left; auto. Qed.

Lemma set_next_subtree_all_safe : forall ids nodes v,
  Forall (fun i => i < len_N nodes) ids ->
  safe (set_next_subtree_all nodes ids v) (NodesSim nodes).
Proof.
  induction ids as [|i ids IH]; intros nodes v H; cbn [set_next_subtree_all].
  - cbn. apply NodesSim_refl.
  - inversion H as [|? ? Hi Hr]; subst.
    eapply safe_bind; [apply upd_node_safe; auto; apply GoodAt_keep; intros; cbn; auto|].
    intros nodes1 H1. cbv beta.
    eapply safe_mono; [apply IH|].
    + rewrite (NodesSim_len _ _ H1). auto.
    + intros nodes2 H2. eapply NodesSim_trans; eauto.
Qed.

(* ancestor chain of a node: n parent links up to a node without parent *)
Fixpoint Chain (nodes : list node_data) (id : N) (n : nat) : Prop :=
  exists nd, nth_N nodes id = Some nd /\
  match n with
  | O => nd_parent nd = None
  | S m => exists p, nd_parent nd = Some p /\ Chain nodes p m
  end.

Lemma Chain_lt nodes id n : Chain nodes id n -> id < len_N nodes.
Proof. destruct n; intros (nd & H & _); apply nth_N_inv in H; apply H. Qed.

Lemma Chain_sim l l' : NodesSim l l' -> forall n id, Chain l id n -> Chain l' id n.
Proof.
  intros Hs. induction n; intros id (nd & Hn & H).
  - apply nth_N_inv in Hn as [Hlt Hn]. destruct (proj2 Hs _ _ Hn) as (nd' & Hn' & P & _).
    exists nd'. split; [apply nth_N_of_nth_error; auto|congruence].
  - destruct H as (p & Hp & Hc).
    apply nth_N_inv in Hn as [Hlt Hn]. destruct (proj2 Hs _ _ Hn) as (nd' & Hn' & P & _).
    exists nd'. split; [apply nth_N_of_nth_error; auto|]. exists p. split; [congruence|auto].
Qed.

Lemma nth_N_app_old {A} (l : list A) x i y : nth_N l i = Some y -> nth_N (l ++ [x]) i = Some y.
Proof.
  intros H. apply nth_N_inv in H as [Hlt H]. apply nth_N_of_nth_error.
  rewrite nth_error_app1; auto. unfold len_N in Hlt. lia.
Qed.

Lemma Chain_app l x : forall n id, Chain l id n -> Chain (l ++ [x]) id n.
Proof.
  induction n; intros id (nd & Hn & H).
  - exists nd. split; auto using nth_N_app_old.
  - destruct H as (p & Hp & Hc). exists nd. split; auto using nth_N_app_old. eauto.
Qed.

Lemma nth_N_app_new {A} (l : list A) x : nth_N (l ++ [x]) (len_N l) = Some x.
Proof.
  apply nth_N_of_nth_error. unfold len_N. rewrite Nat2N.id.
  rewrite nth_error_app2 by lia. rewrite Nat.sub_diag. reflexivity.
Qed.

(* ---------------------------------------------------------------------------------------- *)
(* the document invariant                                                                   *)
(* ---------------------------------------------------------------------------------------- *)

Definition RangeOk (d : document) (r : range) : Prop :=
  fst r <= snd r /\ snd r <= len_N (d_ns_tree d).

Definition NsIdxOk (d : document) (o : option N) : Prop :=
  match o with Some i => i < len_N (d_ns_values d) | None => True end.

Definition KindOk (d : document) (k : node_kind) : Prop :=
  match k with
  | KElement ns _ ats nss =>
    RangeOk d nss /\ fst ats <= snd ats /\ snd ats <= len_N (d_attrs d) /\ NsIdxOk d ns
  | _ => True
  end.

Definition AttrOk (d : document) (a : attr_data) : Prop :=
  NsIdxOk d (ad_ns_idx a) /\ snd (ad_range a) <> 0.

Record DocOk (d : document) : Prop := {
  dok_tree : Forall (fun i => i < len_N (d_ns_values d)) (d_ns_tree d);
  dok_values : 0 < len_N (d_ns_values d);
  dok_nodes : Forall (fun nd => KindOk d (nd_kind nd)) (d_nodes d);
  dok_attrs : Forall (AttrOk d) (d_attrs d)
}.

(* d' is a later state of d with the same node arena up to link/text updates *)
Record DocRel (d d' : document) : Prop := {
  drel_nodes : NodesSim (d_nodes d) (d_nodes d');
  drel_tree : len_N (d_ns_tree d) <= len_N (d_ns_tree d');
  drel_values : len_N (d_ns_values d) <= len_N (d_ns_values d');
  drel_ok : DocOk d'
}.

Lemma DocRel_refl d : DocOk d -> DocRel d d.
Proof. intros H. split; auto using NodesSim_refl; lia. Qed.

Lemma DocRel_trans d1 d2 d3 : DocRel d1 d2 -> DocRel d2 d3 -> DocRel d1 d3.
Proof.
  intros [N1 T1 V1 _] [N2 T2 V2 O]. split; auto; try lia. eapply NodesSim_trans; eauto.
Qed.

Lemma KindSim_ok d k k' : KindSim k k' -> KindOk d k -> KindOk d k'.
Proof. intros [->|[_ H]] Hk; auto. destruct k'; try discriminate. exact I. Qed.

Lemma NsIdxOk_mono d d' o : len_N (d_ns_values d) <= len_N (d_ns_values d') -> NsIdxOk d o -> NsIdxOk d' o.
Proof. unfold NsIdxOk. destruct o; auto. lia. Qed.

Lemma KindOk_mono d d' k : len_N (d_ns_tree d) <= len_N (d_ns_tree d') ->
  len_N (d_attrs d) <= len_N (d_attrs d') -> len_N (d_ns_values d) <= len_N (d_ns_values d') ->
  KindOk d k -> KindOk d' k.
Proof.
  intros H1 H2 H3. destruct k; cbn; auto. unfold RangeOk. intros (A & B & C & D).
  repeat split; try lia. eapply NsIdxOk_mono; eauto.
Qed.

Lemma RangeOk_mono d d' r : len_N (d_ns_tree d) <= len_N (d_ns_tree d') -> RangeOk d r -> RangeOk d' r.
Proof. unfold RangeOk. lia. Qed.

Lemma AttrOk_mono d d' a : len_N (d_ns_values d) <= len_N (d_ns_values d') -> AttrOk d a -> AttrOk d' a.
Proof. unfold AttrOk. intros H [A B]. split; auto. eapply NsIdxOk_mono; eauto. Qed.

Lemma nodes_ok_sim d l l' :
  NodesSim l l' -> Forall (fun nd => KindOk d (nd_kind nd)) l ->
  Forall (fun nd => KindOk d (nd_kind nd)) l'.
Proof.
  intros [Hl Hs] H. rewrite Forall_forall in *. intros nd' Hin.
  apply In_nth_error in Hin as [j Hj].
  assert (j < length l)%nat by (rewrite <- Hl; apply nth_error_Some; congruence).
  destruct (nth_error l j) as [nd|] eqn:E; [|apply nth_error_None in E; lia].
  destruct (Hs _ _ E) as (nd'' & Hj' & _ & K). rewrite Hj in Hj'. inversion Hj'; subst nd''.
  eapply KindSim_ok; eauto. apply H. eapply nth_error_In; eauto.
Qed.

Section WithText.
Variable text : bytes.
Hypothesis Hvalid : valid_utf8_b text = true.

Notation Bd := (Boundary text).

(* ---- namespaces ---- *)

Lemma find_ns_lt : forall vals name uri i k,
  find_ns text vals name uri i = Some k -> i <= k /\ k < i + len_N vals.
Proof.
  clear Hvalid.
  induction vals as [|v vals IH]; intros name uri i k; cbn [find_ns]; [discriminate|].
  destruct (_ && _).
  - intros H; inversion H; subst. unfold len_N; cbn [length]. lia.
  - intros H. apply IH in H. unfold len_N in *; cbn [length]. lia.
Qed.

Definition SameNA (d d' : document) : Prop :=
  d_nodes d' = d_nodes d /\ d_attrs d' = d_attrs d.

Lemma DocOk_push_tree d idx :
  DocOk d -> idx < len_N (d_ns_values d) ->
  DocOk {| d_nodes := d_nodes d; d_attrs := d_attrs d; d_ns_values := d_ns_values d;
           d_ns_tree := d_ns_tree d ++ [idx] |}.
Proof.
  clear Hvalid.
  intros [T V Nn A] Hi. split; cbn; auto.
  - apply Forall_app; split; auto.
  - eapply Forall_impl; [|exact Nn]. intros nd. apply KindOk_mono; cbn; try lia. rewrite len_N_app. lia.
Qed.

Lemma push_ns_safe name uri d : DocOk d ->
  safe (push_ns text name uri d)
       (fun d' => DocRel d d' /\ SameNA d d' /\ len_N (d_ns_tree d') = len_N (d_ns_tree d) + 1).
Proof.
  clear Hvalid.
  intros Hd. unfold push_ns.
  destruct (find_ns _ _ _ _ 0) as [idx|] eqn:E.
  - apply find_ns_lt in E. cbn.
    assert (Ho : DocOk {| d_nodes := d_nodes d; d_attrs := d_attrs d; d_ns_values := d_ns_values d;
           d_ns_tree := d_ns_tree d ++ [idx] |}) by (apply DocOk_push_tree; auto; lia).
    split; [|split; [split; reflexivity|cbn; rewrite len_N_app; reflexivity]].
    split; cbn; auto using NodesSim_refl; try lia. rewrite len_N_app. lia.
  - destruct (ns_values_limit <? len_N (d_ns_values d)); [exact I|]. cbn.
    destruct Hd as [T V Nn A].
    assert (Ho : DocOk {| d_nodes := d_nodes d; d_attrs := d_attrs d;
            d_ns_values := d_ns_values d ++ [{| ns_name := name; ns_uri := uri |}];
            d_ns_tree := d_ns_tree d ++ [len_N (d_ns_values d)] |}).
    { split; cbn.
      - apply Forall_app; split.
        + eapply Forall_impl; [|exact T]. intros i Hi. cbn in Hi. rewrite len_N_app. lia.
        + constructor; auto. rewrite len_N_app. unfold len_N at 3; cbn. lia.
      - rewrite len_N_app. lia.
      - eapply Forall_impl; [|exact Nn]. intros nd. apply KindOk_mono; cbn; try rewrite !len_N_app; lia.
      - eapply Forall_impl; [|exact A]. intros a. apply AttrOk_mono. cbn. rewrite len_N_app. lia. }
    split; [|split; [split; reflexivity|cbn; rewrite len_N_app; reflexivity]].
    split; cbn; auto using NodesSim_refl; rewrite len_N_app; lia.
Qed.

Lemma push_ref_safe i d : DocOk d -> i < len_N (d_ns_tree d) ->
  safe (push_ref i d)
       (fun d' => DocRel d d' /\ SameNA d d' /\ len_N (d_ns_tree d') = len_N (d_ns_tree d) + 1 /\
                  d_ns_values d' = d_ns_values d).
Proof.
  clear Hvalid.
  intros Hd Hi. unfold push_ref. destruct (nth_N_some _ _ Hi) as [idx E]. rewrite E. cbn.
  assert (Hidx : idx < len_N (d_ns_values d)).
  { eapply (Forall_nth_N _ _ _ _ (dok_tree d Hd) E). }
  assert (Ho := DocOk_push_tree d idx Hd Hidx).
  split; [|split; [split; reflexivity|split; [cbn; rewrite len_N_app; reflexivity|reflexivity]]].
  split; cbn; auto using NodesSim_refl; try lia. rewrite len_N_app. lia.
Qed.

Lemma ns_prefix_at_safe d idx : idx < len_N (d_ns_values d) ->
  safe (ns_prefix_at text d idx) (fun _ => True).
Proof.
  clear Hvalid. intros H. unfold ns_prefix_at. destruct (nth_N_some _ _ H) as [v ->]. exact I.
Qed.

Lemma any_prefix_safe d : forall idxs prefix,
  Forall (fun i => i < len_N (d_ns_values d)) idxs ->
  safe (any_prefix text d idxs prefix) (fun _ => True).
Proof.
  clear Hvalid.
  induction idxs as [|i r IH]; intros prefix H; cbn [any_prefix]; [exact I|].
  inversion H; subst.
  eapply safe_bind; [apply ns_prefix_at_safe; auto|]. intros p _. cbv beta.
  destruct (opt_str_eqb p prefix); [exact I|auto].
Qed.

Lemma find_prefix_idx_safe d : forall idxs prefix,
  Forall (fun i => i < len_N (d_ns_values d)) idxs ->
  safe (find_prefix_idx text d idxs prefix)
       (fun o => match o with Some i => i < len_N (d_ns_values d) | None => True end).
Proof.
  clear Hvalid.
  induction idxs as [|i r IH]; intros prefix H; cbn [find_prefix_idx]; [exact I|].
  inversion H; subst.
  eapply safe_bind; [apply ns_prefix_at_safe; auto|]. intros p _. cbv beta.
  destruct (opt_str_eqb p prefix); [cbn; auto|auto].
Qed.

Lemma ns_exists_safe d start prefix : DocOk d -> start <= len_N (d_ns_tree d) ->
  safe (ns_exists text d start prefix) (fun _ => True).
Proof.
  clear Hvalid.
  intros Hd Hs. unfold ns_exists. destruct (len_N (d_ns_tree d) <? start) eqn:E; [lia|].
  apply any_prefix_safe. apply Forall_skipn. apply Hd.
Qed.

Lemma ns_range_slice_safe d nss : DocOk d -> RangeOk d nss ->
  safe (ns_range_slice d nss) (Forall (fun i => i < len_N (d_ns_values d))).
Proof.
  clear Hvalid.
  intros Hd [H1 H2]. unfold ns_range_slice. destruct nss as [a e]. cbn [fst snd] in *.
  destruct ((e <? a) || (len_N (d_ns_tree d) <? e)) eqn:E; [lia|]. cbn.
  apply Forall_firstn, Forall_skipn. apply Hd.
Qed.

Lemma get_ns_idx_by_prefix_safe nss pos prefix d : DocOk d -> RangeOk d nss ->
  safe (get_ns_idx_by_prefix text nss pos prefix d)
       (fun o => match o with Some i => i < len_N (d_ns_values d) | None => True end).
Proof.
  intros Hd Hr. unfold get_ns_idx_by_prefix. cbv zeta.
  destruct (bytes_eqb _ ns_xml_prefix). { cbn. apply Hd. }
  eapply safe_bind; [apply ns_range_slice_safe; auto|]. intros idxs Hidxs. cbv beta.
  eapply safe_bind; [apply find_prefix_idx_safe; auto|]. intros [i|] Hi; [cbn; auto|].
  destruct (slice_bytes text prefix); [exact I|apply err_from_safe; auto].
Qed.

Lemma resolve_ns_loop_safe start : forall is d,
  DocOk d -> start <= len_N (d_ns_tree d) ->
  Forall (fun i => i < len_N (d_ns_tree d)) is ->
  safe (resolve_ns_loop text start is d)
       (fun d' => DocRel d d' /\ SameNA d d' /\
                  len_N (d_ns_tree d) <= len_N (d_ns_tree d') /\
                  len_N (d_ns_tree d') <= len_N (d_ns_tree d) + len_N is).
Proof.
  clear Hvalid.
  induction is as [|i r IH]; intros d Hd Hs Hf; cbn [resolve_ns_loop].
  { cbn. split; [apply DocRel_refl; auto|]. split; [split; reflexivity|]. unfold len_N; cbn. lia. }
  inversion Hf as [|? ? H1 H2]; subst.
  destruct (nth_N_some _ _ H1) as [vidx E]. rewrite E. cbn [bind].
  assert (Hv : vidx < len_N (d_ns_values d)) by (eapply (Forall_nth_N _ _ _ _ (dok_tree d Hd) E)).
  eapply safe_bind; [apply ns_prefix_at_safe; auto|]. intros name _. cbv beta.
  eapply safe_bind; [apply ns_exists_safe; auto|]. intros ex _. cbv beta.
  eapply safe_bind with (Q := fun d' => DocRel d d' /\ SameNA d d' /\
                  len_N (d_ns_tree d) <= len_N (d_ns_tree d') /\
                  len_N (d_ns_tree d') <= len_N (d_ns_tree d) + 1).
  { destruct ex.
    - cbn. split; [apply DocRel_refl; auto|]. split; [split; reflexivity|]. lia.
    - eapply safe_mono; [apply push_ref_safe; auto|]. intros d' (R & S & L & _). split; [exact R|]. split; [exact S|]. lia. }
  intros d1 (R1 & S1 & L1 & L1'). cbv beta.
  eapply safe_mono; [apply IH|].
  - apply R1.
  - lia.
  - eapply Forall_impl; [|exact H2]. cbn. intros; lia.
  - intros d2 (R2 & S2 & L2 & L2'). split; [eapply DocRel_trans; eauto|].
    split. { destruct S1, S2. split; congruence. }
    unfold len_N in *; cbn [length] in *. lia.
Qed.

Lemma N_range_lt : forall n a e, a + N.of_nat n <= e -> Forall (fun i => i < e) (N_range a n).
Proof.
  clear Hvalid.
  induction n; intros a e H; cbn [N_range]; constructor; [lia|]. apply IHn. lia.
Qed.

Lemma N_range_len n : forall a, length (N_range a n) = n.
Proof. induction n; intros; cbn; auto. Qed.

(* ---- attributes ---- *)

Lemma attr_expanded_name_safe d ns_idx local :
  NsIdxOk d ns_idx ->
  safe (attr_expanded_name text d ns_idx local) (fun _ => True).
Proof.
  clear Hvalid. intros H. unfold attr_expanded_name. destruct ns_idx as [i|]; [|exact I].
  destruct (nth_N_some _ _ H) as [v ->]. exact I.
Qed.

Lemma any_same_name_safe d : forall l name, Forall (AttrOk d) l ->
  safe (any_same_name text d l name) (fun _ => True).
Proof.
  clear Hvalid.
  induction l as [|a r IH]; intros name H; cbn [any_same_name]; [exact I|].
  inversion H as [|? ? Ha Hr]; subst.
  eapply safe_bind; [apply attr_expanded_name_safe; apply Ha|]. intros n _. cbv beta.
  destruct (_ && _); [exact I|auto].
Qed.

Definition SameNT (d d' : document) : Prop :=
  d_nodes d' = d_nodes d /\ d_ns_tree d' = d_ns_tree d /\ d_ns_values d' = d_ns_values d.

Lemma resolve_attrs_loop_safe nss start : forall l d,
  DocOk d -> RangeOk d nss -> Forall (fun a => snd (ta_range a) <> 0) l ->
  safe (resolve_attrs_loop text nss start l d)
       (fun d' => DocRel d d' /\ SameNT d d' /\ len_N (d_attrs d') = len_N (d_attrs d) + len_N l).
Proof.
  induction l as [|a r IH]; intros d Hd Hr Hl; cbn [resolve_attrs_loop].
  { cbn. split; [apply DocRel_refl; auto|]. split; [repeat split|]. unfold len_N; cbn; lia. }
  inversion Hl as [|? ? Hla Hlr]; subst.
  cbv zeta.
  eapply safe_bind with (Q := NsIdxOk d).
  { destruct (bytes_eqb _ ns_xml_prefix). { cbn. apply Hd. }
    destruct (slice_bytes text (ta_prefix a)) eqn:E; [exact I|].
    apply get_ns_idx_by_prefix_safe; auto. }
  intros ns_idx Hidx. cbv beta.
  eapply safe_bind; [apply attr_expanded_name_safe; auto|]. intros name _. cbv beta.
  eapply safe_bind; [apply any_same_name_safe; apply Forall_skipn; apply Hd|]. intros dup _. cbv beta.
  destruct dup; [apply err_from_safe; auto|].
  set (na := {| ad_ns_idx := ns_idx; ad_local := ta_local a; ad_value := ta_value a;
                ad_range := ta_range a; ad_qname_len := ta_qname_len a; ad_eq_len := ta_eq_len a |}).
  assert (Hd1 : DocOk (set_attrs d (d_attrs d ++ [na]))).
  { destruct Hd as [T V Nn A]. split; cbn; auto.
    - eapply Forall_impl; [|exact Nn]. intros nd. apply KindOk_mono; cbn; try rewrite !len_N_app; lia.
    - apply Forall_app; split; auto. constructor; auto. split; auto. }
  assert (R1 : DocRel d (set_attrs d (d_attrs d ++ [na]))).
  { split; cbn; auto using NodesSim_refl; lia. }
  eapply safe_mono; [apply IH; auto|].
  intros d2 (R2 & (S1 & S2 & S3) & L2). cbn in *.
  split; [eapply DocRel_trans; eauto|]. split; [repeat split; auto|].
  rewrite L2, len_N_app. unfold len_N; cbn [length]. lia.
Qed.

End WithText.
