(* CycleStream.v -- C09, reference cycles, part 1: exact symbolic execution of the stream
   primitives over a known list of bytes (ASCII), up to a reference "&name;". *)
From Coq Require Import Ascii String.
From Coq Require Import Lia ZifyBool ZifyN ZifyNat.
From RX Require Import Generated.
From RX.Model Require Import Base CharClass Stream Tokenizer.
From RX.Proofs Require Import Tactics OptionsParam BudgetStream.

(** * Byte classes (all ASCII), decided by enumeration *)

(* character data that is neither markup nor a reference start nor '>' *)
Definition plain_b (x : N) : bool :=
  (x <? 128) && byte_is_char x && negb (x =? 38) && negb (x =? 60) && negb (x =? 62).
(* ASCII name bytes *)
Definition nstart_b (x : N) : bool := (x <? 128) && byte_is_name_start x.
Definition nchar_b (x : N) : bool := (x <? 128) && byte_is_name x.

Definition ascii_name (m : bytes) : Prop :=
  match m with
  | [] => False
  | x :: r => nstart_b x = true /\ forallb nchar_b r = true
  end.

(* the five predefined entity names are not entity references *)
Definition predefined_b (m : bytes) : bool :=
  bytes_eqb m (b "quot") || bytes_eqb m (b "amp") || bytes_eqb m (b "apos")
  || bytes_eqb m (b "lt") || bytes_eqb m (b "gt").

Lemma below128 (P : N -> bool) :
  forallb P (map N.of_nat (seq 0 128)) = true -> forall x, x < 128 -> P x = true.
Proof.
  intros H x Hx. rewrite forallb_forall in H. apply H.
  replace x with (N.of_nat (N.to_nat x)) by lia. apply in_map. apply in_seq. lia.
Qed.

Definition tab_plain (x : N) : bool :=
  implb (plain_b x) (char_is_char x && negb (x =? 60) && negb (x =? 38) && negb (x =? 62)).
Definition tab_nchar (x : N) : bool :=
  implb (nchar_b x) (char_is_name x && char_is_char x && negb (x =? 60) && negb (x =? 62)
                     && negb (x =? 59) && negb (x =? 38)).
Definition tab_nstart (x : N) : bool :=
  implb (nstart_b x) (char_is_name_start x && nchar_b x && negb (x =? 35)).

Lemma plain_facts x : plain_b x = true ->
  x < 128 /\ char_is_char x = true /\ x <> 60 /\ x <> 38 /\ x <> 62.
Proof.
  intros H. assert (Hx : x < 128) by (unfold plain_b in H; lia).
  assert (T : tab_plain x = true) by (apply below128; [vm_compute; reflexivity|exact Hx]).
  unfold tab_plain in T. rewrite H in T. cbn [implb] in T. lia.
Qed.

Lemma nchar_facts x : nchar_b x = true ->
  x < 128 /\ char_is_name x = true /\ char_is_char x = true /\ x <> 60 /\ x <> 62 /\ x <> 59 /\ x <> 38.
Proof.
  intros H. assert (Hx : x < 128) by (unfold nchar_b in H; lia).
  assert (T : tab_nchar x = true) by (apply below128; [vm_compute; reflexivity|exact Hx]).
  unfold tab_nchar in T. rewrite H in T. cbn [implb] in T. lia.
Qed.

Lemma nstart_facts x : nstart_b x = true ->
  x < 128 /\ char_is_name_start x = true /\ nchar_b x = true /\ x <> 35.
Proof.
  intros H. assert (Hx : x < 128) by (unfold nstart_b in H; lia).
  assert (T : tab_nstart x = true) by (apply below128; [vm_compute; reflexivity|exact Hx]).
  unfold tab_nstart in T. rewrite H in T. cbn [implb] in T. lia.
Qed.

Lemma nth_error_skipn {A} : forall n (l : list A) x r, skipn n l = x :: r -> nth_error l n = Some x.
Proof.
  induction n; intros l x r H; destruct l; cbn in *; try discriminate.
  - inversion H; reflexivity.
  - eauto.
Qed.

Lemma blen_cons x (l : bytes) : blen (x :: l) = blen l + 1.
Proof. unfold blen. cbn [length]. lia. Qed.
Lemma blen_app2 (x y : bytes) : blen (x ++ y) = blen x + blen y.
Proof. unfold blen. rewrite app_length. lia. Qed.

Section WithText.
Variable text : bytes.
Notation stream := Stream.stream.
Notation wfl := (wfl text).

(* the stream is exactly at the list l: [pos, end) holds l *)
Definition sat (s : stream) (l : bytes) : Prop :=
  wfl s /\ s_end s = s_pos s + blen l /\ exists z, s_rest s = l ++ z.

Lemma sat_head s x l : sat s (x :: l) ->
  at_end s = false /\ curr_byte_unchecked s = Ok x /\ curr_byte s = Ok x /\ curr_byte_opt s = Some x.
Proof.
  intros (W & E & z & R). rewrite blen_cons in E.
  assert (Ha : at_end s = false) by (unfold at_end; lia).
  unfold curr_byte, curr_byte_opt, curr_byte_unchecked. rewrite Ha, R. cbn [app]. auto.
Qed.

Lemma sat_nil s : sat s [] -> at_end s = true.
Proof. intros (W & E & _). unfold at_end. unfold blen in E. cbn in E. lia. Qed.

Lemma sat_adv1 s x l : sat s (x :: l) ->
  exists s', advance 1 s = Ok s' /\ sat s' l /\ s_pos s' = s_pos s + 1 /\ s_end s' = s_end s.
Proof.
  intros (W & E & z & R). rewrite blen_cons in E.
  destruct (advance 1 s) as [s'| | |] eqn:Ea;
    try (unfold advance in Ea; destruct (s_end s <? s_pos s + 1) eqn:Hc; [lia|discriminate]).
  exists s'. pose proof (mv_advance _ _ _ _ Ea W) as (W' & E' & P').
  split; [reflexivity|]. split; [|split; assumption].
  split; [assumption|]. split; [lia|].
  unfold advance in Ea. destruct (s_end s <? s_pos s + 1); [discriminate|]. inversion Ea; subst s'.
  cbn [s_rest]. rewrite R. exists z. reflexivity.
Qed.

Lemma sat_text s l : sat s l -> exists z, skipn (N.to_nat (s_pos s)) text = l ++ z.
Proof. intros ((R & _) & _ & z & Rz). exists z. congruence. Qed.

Lemma boundary_at p x r : skipn (N.to_nat p) text = x :: r -> x < 128 -> is_boundary text p = true.
Proof.
  intros H Hx. unfold is_boundary. destruct (p =? 0); [reflexivity|].
  rewrite (nth_error_skipn _ _ _ _ H). unfold is_cont. lia.
Qed.

Lemma sat_boundary s x l : sat s (x :: l) -> x < 128 -> is_boundary text (s_pos s) = true.
Proof. intros H Hx. destruct (sat_text _ _ H) as [z Hz]. eapply boundary_at; eauto. Qed.

Lemma sat_next_char s x l : sat s (x :: l) -> x < 128 -> next_char s = Ok (Some (x, 1)).
Proof.
  intros H Hx. destruct (sat_head _ _ _ H) as (Ha & _). destruct H as (W & E & z & R).
  rewrite blen_cons in E. unfold next_char. rewrite Ha, R. cbn [app decode1].
  replace (x <? 128) with true by lia. replace (s_end s <? s_pos s + 1) with false by lia.
  reflexivity.
Qed.

Lemma sat_from_substr a e l : a <= e -> e <= tlen text -> sub text a e = l ->
  exists s0, stream_from_substr text a e = Ok s0 /\ sat s0 l /\ s_pos s0 = a /\ s_end s0 = e.
Proof.
  intros Hae He Hl. unfold stream_from_substr.
  replace ((e <? a) || (tlen text <? e)) with false by lia.
  eexists. split; [reflexivity|]. cbn [s_pos s_end]. split; [|split; reflexivity].
  unfold sat, BudgetStream.wfl. cbn [s_pos s_end s_rest].
  split; [split; [reflexivity|lia]|].
  unfold sub in Hl. subst l.
  assert (Hlen : (N.to_nat (e - a) <= length (skipn (N.to_nat a) text))%nat).
  { rewrite skipn_length. unfold tlen, blen in He. lia. }
  split.
  - unfold blen. rewrite firstn_length. lia.
  - exists (skipn (N.to_nat (e - a)) (skipn (N.to_nat a) text)). symmetry. apply firstn_skipn.
Qed.

(* the bytes of a slice taken over a known stretch of the text *)
Lemma sub_at p l z : skipn (N.to_nat p) text = l ++ z -> sub text p (p + blen l) = l.
Proof.
  intros H. unfold sub. rewrite H. replace (N.to_nat (p + blen l - p)) with (length l)
    by (unfold blen; lia).
  rewrite firstn_app. replace (length l - length l)%nat with 0%nat by lia.
  rewrite firstn_all. cbn. apply app_nil_r.
Qed.

(** * err_at at a boundary *)
Lemma err_at_boundary {X} s mk : wfl s -> is_boundary text (s_pos s) = true ->
  exists p, @err_at text X s mk = Err (mk p).
Proof.
  intros (_ & ? & ?) Hb. unfold err_at, gen_text_pos, gen_text_pos_at.
  replace (tlen text <? s_pos s) with false by lia. rewrite Hb. cbn. eauto.
Qed.

(** * skip_chars over good ASCII bytes *)
Lemma skip_chars_ascii f : forall l1 l2 fuel s,
  sat s (l1 ++ l2) ->
  forallb (fun x => (x <? 128) && char_is_char x) l1 = true ->
  (forall t x, In x l1 -> f t x = true) ->
  match l2 with [] => True | y :: _ => y < 128 /\ char_is_char y = true /\ forall t, f t y = false end ->
  (length l1 < fuel)%nat ->
  exists s', skip_chars_loop text fuel f s = Ok s' /\ sat s' l2 /\ s_pos s' = s_pos s + blen l1.
Proof.
  induction l1 as [|x l1 IH]; intros l2 fuel s Hs Hall Hf H2 Hfuel;
    (destruct fuel as [|fuel]; [cbn in Hfuel; lia|]); cbn [skip_chars_loop].
  - cbn [app] in Hs. destruct l2 as [|y l2].
    + unfold next_char. rewrite (sat_nil _ Hs). cbn [bind]. exists s.
      split; [reflexivity|]. split; [assumption|]. unfold blen; cbn; lia.
    + destruct H2 as (Hy & Hc & Hfy). rewrite (sat_next_char _ _ _ Hs Hy). cbn [bind].
      rewrite Hc, Hfy. cbn [negb]. exists s. split; [reflexivity|]. split; [assumption|].
      unfold blen; cbn; lia.
  - cbn [app] in Hs. cbn [forallb] in Hall. apply andb_true_iff in Hall. destruct Hall as [Hx Hall].
    assert (Hx1 : x < 128) by lia. assert (Hx2 : char_is_char x = true) by lia.
    rewrite (sat_next_char _ _ _ Hs Hx1). cbn [bind]. rewrite Hx2. cbn [negb].
    rewrite (Hf s x (or_introl eq_refl)).
    destruct (sat_adv1 _ _ _ Hs) as (s1 & Ea & Hs1 & P1 & E1). rewrite Ea. cbn [bind].
    destruct (IH l2 fuel s1 Hs1 Hall) as (s' & Hr & Hs' & P'); try assumption.
    + intros t y Hy. apply Hf. right. exact Hy.
    + cbn [length] in Hfuel. lia.
    + exists s'. split; [exact Hr|]. split; [exact Hs'|]. rewrite blen_cons. lia.
Qed.

(** * The name of a reference *)
Lemma skip_name_loop_ascii : forall m l fuel s,
  sat s (m ++ 59 :: l) -> forallb nchar_b m = true -> (length m < fuel)%nat ->
  exists s', skip_name_loop fuel s = Ok s' /\ sat s' (59 :: l) /\ s_pos s' = s_pos s + blen m.
Proof.
  induction m as [|x m IH]; intros l fuel s Hs Hall Hfuel;
    (destruct fuel as [|fuel]; [cbn in Hfuel; lia|]); cbn [skip_name_loop].
  - cbn [app] in Hs. rewrite (sat_next_char _ _ _ Hs ltac:(lia)). cbn [bind].
    replace (char_is_name 59) with false by (vm_compute; reflexivity).
    exists s. split; [reflexivity|]. split; [assumption|]. unfold blen; cbn; lia.
  - cbn [app] in Hs. cbn [forallb] in Hall. apply andb_true_iff in Hall. destruct Hall as [Hx Hall].
    destruct (nchar_facts _ Hx) as (Hx1 & Hx2 & _).
    rewrite (sat_next_char _ _ _ Hs Hx1). cbn [bind]. rewrite Hx2.
    destruct (sat_adv1 _ _ _ Hs) as (s1 & Ea & Hs1 & P1 & E1). rewrite Ea. cbn [bind].
    destruct (IH l fuel s1 Hs1 Hall) as (s' & Hr & Hs' & P'); [cbn [length] in Hfuel; lia|].
    exists s'. split; [exact Hr|]. split; [exact Hs'|]. rewrite blen_cons. lia.
Qed.

Lemma mk_slice_ok a e : a <= e -> e <= tlen text ->
  is_boundary text a = true -> is_boundary text e = true ->
  mk_slice text a e = Ok {| sl_start := a; sl_end := e |}.
Proof.
  intros H1 H2 B1 B2. unfold mk_slice.
  replace ((e <? a) || (tlen text <? e)) with false by lia. rewrite B1, B2. reflexivity.
Qed.

Lemma consume_name_ascii m l s : sat s (m ++ 59 :: l) -> ascii_name m ->
  exists nm s', consume_name text s = Ok (nm, s') /\ slice_bytes text nm = m /\
                sat s' (59 :: l) /\ s_pos s' = s_pos s + blen m.
Proof.
  intros Hs Hm. destruct m as [|x m]; [contradiction|]. destruct Hm as [Hx Hall].
  destruct (nstart_facts _ Hx) as (Hx1 & Hx2 & Hx3 & _).
  cbn [app] in Hs. unfold consume_name, skip_name.
  rewrite (sat_next_char _ _ _ Hs Hx1). cbn [bind]. rewrite Hx2.
  destruct (sat_adv1 _ _ _ Hs) as (s1 & Ea & Hs1 & P1 & E1). rewrite Ea. cbn [bind].
  destruct (skip_name_loop_ascii m l (S (length (s_rest s1))) s1 Hs1 Hall) as (s' & Hr & Hs' & P').
  { destruct Hs1 as (_ & _ & z & R). rewrite R, !app_length. cbn [length]. lia. }
  rewrite Hr. cbn [bind]. unfold slice_back.
  destruct (sat_text _ _ Hs) as [z Hz].
  assert (Hpos : s_pos s' = s_pos s + blen (x :: m)) by (rewrite blen_cons; lia).
  assert (He : s_pos s' <= tlen text) by (destruct Hs' as ((_ & ? & ?) & _); lia).
  rewrite (mk_slice_ok (s_pos s) (s_pos s')); try lia.
  - cbn [bind]. unfold slice_len. cbn [sl_start sl_end].
    replace (s_pos s' - s_pos s =? 0) with false by (rewrite blen_cons in Hpos; lia).
    eexists. exists s'. split; [reflexivity|]. split; [|split; assumption].
    unfold slice_bytes. cbn [sl_start sl_end]. rewrite Hpos.
    change (x :: m ++ 59 :: l) with ((x :: m) ++ 59 :: l) in Hz. rewrite <- app_assoc in Hz.
    eapply sub_at. exact Hz.
  - eapply sat_boundary; eauto.
  - eapply sat_boundary; [exact Hs'|lia].
Qed.

(* "&name;" with a name that is not predefined is a reference to the entity [name] *)
Lemma consume_reference_entity m l s : sat s (38 :: m ++ 59 :: l) -> ascii_name m ->
  predefined_b m = false ->
  exists nm s', consume_reference text s = Ok (Some (RefEntity nm, s')) /\
                slice_bytes text nm = m /\ sat s' l /\ s_pos s' = s_pos s + blen m + 2.
Proof.
  intros Hs Hm Hp. unfold consume_reference.
  destruct (sat_head _ _ _ Hs) as (_ & _ & _ & Ho).
  destruct (sat_adv1 _ _ _ Hs) as (s1 & Ea & Hs1 & P1 & E1).
  unfold try_consume_byte at 1. rewrite Ho. replace (38 =? 38) with true by reflexivity.
  rewrite Ea. cbn [negb].
  (* no '#' *)
  destruct m as [|x m'] eqn:Em; [contradiction|]. pose proof Hm as Hm2. destruct Hm2 as [Hx _].
  destruct (nstart_facts _ Hx) as (_ & _ & _ & H35).
  cbn [app] in Hs1. destruct (sat_head _ _ _ Hs1) as (_ & _ & _ & Ho1).
  unfold try_consume_byte. rewrite Ho1. replace (x =? 35) with false by lia.
  rewrite <- Em in *. change (x :: m' ++ 59 :: l) with ((x :: m') ++ 59 :: l) in Hs1. rewrite <- Em in Hs1.
  destruct (consume_name_ascii m l s1 Hs1 Hm) as (nm & s2 & Hcn & Hnm & Hs2 & P2).
  rewrite Hcn. rewrite Hnm.
  unfold predefined_b in Hp. repeat (apply orb_false_iff in Hp; destruct Hp as [Hp ?]).
  rewrite Hp. repeat match goal with H : bytes_eqb m _ = false |- _ => rewrite H; clear H end.
  cbn [bind].
  (* ';' *)
  destruct (sat_head _ _ _ Hs2) as (_ & _ & Hc2 & _).
  destruct (sat_adv1 _ _ _ Hs2) as (s3 & Ea3 & Hs3 & P3 & E3).
  unfold consume_byte. rewrite Hc2. cbn [bind]. replace (59 =? 59) with true by reflexivity.
  cbn [negb]. rewrite Ea3.
  exists nm, s3. split; [reflexivity|]. split; [exact Hnm|]. split; [assumption|lia].
Qed.

(** * ASCII text buffers finish *)
Lemma valid_utf8_ascii : forall l fuel, forallb (fun x => x <? 128) l = true ->
  (length l < fuel)%nat -> valid_utf8_fuel fuel l = true.
Proof.
  induction l as [|x l IH]; intros fuel Hall Hf; (destruct fuel as [|fuel]; [cbn in Hf; lia|]).
  - reflexivity.
  - cbn [forallb] in Hall. apply andb_true_iff in Hall. destruct Hall as [Hx Hall].
    cbn [valid_utf8_fuel decode1]. rewrite Hx.
    change (N.to_nat 1) with 1%nat. cbn [firstn skipn].
    unfold is_scalar, encode_utf8. rewrite Hx. cbn [bytes_eqb].
    replace (x <? 55296) with true by lia. replace (x =? x) with true by lia. cbn [orb andb].
    apply IH; [assumption|cbn [length] in Hf; lia].
Qed.

End WithText.
