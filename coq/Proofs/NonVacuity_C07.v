(* Proofs/NonVacuity_C07.v -- non-vacuity of the hypotheses of the theorems pinned under C07 that had
   no instance yet: the two-document theorems on Spec/CstEnt.v (hoist_insensitive(_partial),
   inlined_equiv(_partial)) on pairs of DIFFERENT documents with the same meaning, dtd_refused, the
   chunk-level hoisting theorems of HoistProofs.v, the entity steps of the two loops on the document of
   NonVacuity_Doc.v.  (parse_render_sem_ent(_partial): CstEntSanity.v e1..n2; S4: CstFullS4Example.v.) *)
From Coq Require Import Ascii String List NArith Bool Lia.
Import ListNotations.
From RX Require Import Generated.
From RX.Model Require Import Base CharClass Stream Tokenizer Doc Builder Parse Api.
From RX.Spec Require Import Text.
From RX.Spec Require Cst CstText CstEnt.
From RX.Proofs Require Import TextMachine HoistProofs RejectProofs CstEntDoc CstEntMain CstEntCMain NoPanicText NonVacuity_Doc NonVacuity_C01.
From RX.Proofs Require CstTextSanity CstEntSanity.
Open Scope N_scope.

(* ---- CstEnt: two documents with the same meaning ---- *)
Module Ent.
Import CstEnt CstEntSanity.
Module T := CstText.
(* "a&e;b" with e = "xy"   versus   "a&f;yb" with f = "x"   versus the inlined "axyb" *)
Definition c1 : doc := mk [dc "e" 34 (EText [L "xy"])] (el "r" [] [IText [L "a"; R "e"; L "b"]]).
Definition c2 : doc := mk [dc "f" 39 (EText [L "x"])] (el "r" [] [IText [L "a"; R "f"; L "yb"]]).
Definition cT : T.doc := CstTextSanity.mk (CstTextSanity.el "r" [] [T.IText [T.PLit (b "axyb")]]).

Example nv_hoist_insensitive :
  wf_doc c1 = true /\ wf_doc c2 = true /\ etext_only c1 = true /\ etext_only c2 = true /\
  sem c1 = sem c2 /\ render c1 <> render c2 /\
  N.of_nat (length (sem c1)) < nodes_limit opt1 /\ N.of_nat (length (sem c1)) < u32_max /\
  N.of_nat (edoc_nattrs c1) < u32_max /\ N.of_nat (edoc_nattrs c2) < u32_max /\
  N.of_nat (length (render c1)) <= u32_max /\ N.of_nat (length (render c2)) <= u32_max.
Proof. repeat split; try (vm_compute; reflexivity); vm_compute; discriminate. Qed.

Example nv_inlined_equiv :
  T.wf_doc cT = true /\ T.sem cT = sem c1 /\ N.of_nat (length (T.render cT)) <= u32_max.
Proof. repeat split; try (vm_compute; reflexivity); vm_compute; discriminate. Qed.

Example nv_dtd_refused :
  wf_doc c1 = true /\ allow_dtd {| allow_dtd := false; nodes_limit := 100 |} = false /\
  N.of_nat (length (d_before c1)) < 100 /\ N.of_nat (length (d_before c1)) < u32_max.
Proof. repeat split; vm_compute; reflexivity. Qed.

Example nv_dtd_refused_applied : parse (render c1) {| allow_dtd := false; nodes_limit := 100 |} = Err DtdDetected.
Proof. destruct nv_dtd_refused as (H1 & H2 & H3 & H4). exact (dtd_refused c1 _ H1 H2 H3 H4). Qed.
End Ent.

(* ---- HoistProofs.v: chunk lists around an entity value ---- *)
Definition pre0 : list chunk := [CLit 97; CLit 13].          (* ends with CR *)
Definition mid0 : bytes := [120; 10; 121].                    (* the value of the entity: x LF y *)
Definition post0 : list chunk := [CRef (encode_utf8 66); CLit 98].

Example nv_hoist_side_conditions :
  ~ (ends_cr pre0 /\ starts_lf (lits mid0 ++ post0)) /\ ~ (ends_cr (lits mid0) /\ starts_lf post0) /\
  Forall (fun c => c <> CRef []) pre0 /\ Forall (fun c => c <> CRef []) post0.
Proof.
  split; [intros [_ [b' H]]; discriminate H|]. split; [intros [_ [b' H]]; discriminate H|].
  split; repeat (constructor; [discriminate|]); constructor.
Qed.

Example nv_text_hoist_decode_applied :
  run_text_chunks false pre0 ++ run_text_chunks true (lits mid0) ++ run_text_chunks false post0 = [97; 10; 120; 10; 121; 66; 98].
Proof.
  destruct nv_hoist_side_conditions as (H1 & H2 & H3 & H4).
  rewrite (text_hoist_decode pre0 mid0 post0 H3 H4 H1 H2). vm_compute. reflexivity.
Qed.

Example nv_attr_hoist_normalise :
  exists t', obind (push_attr_chunks false pre0 tb_new) (fun t1 =>
             obind (push_attr_chunks true (lits mid0) t1) (fun t2 => push_attr_chunks false post0 t2)) = Some t'.
Proof. eexists. vm_compute. reflexivity. Qed.

Example nv_text_boundary :
  ~ (tb_pending_cr (push_text_chunks false pre0 tb_new) = true /\ starts_lf post0).
Proof. intros [_ [b' H]]. discriminate H. Qed.

(* entity_first_declaration_wins / find_entity_first: two declarations of e in the table *)
Example nv_entity_first_declaration_wins :
  let e1 := {| en_name := {| sl_start := 22; sl_end := 23 |}; en_value := {| sl_start := 25; sl_end := 26 |} |} in
  let e0 := {| en_name := {| sl_start := 31; sl_end := 32 |}; en_value := {| sl_start := 25; sl_end := 26 |} |} in
  (forall e', In e' [e0] -> bytes_eqb (slice_bytes text0 (en_name e')) (slice_bytes text0 (en_name e1)) = false) /\
  find_entity text0 ([e0] ++ e1 :: [e1]) (b "e") = Some e1.
Proof.
  cbv zeta. split; [|vm_compute; reflexivity].
  intros e' [<-|[]]. vm_compute. reflexivity.
Qed.

(* ---- the entity steps of the two loops, on the shared document (state cD holds the entity e) ---- *)
Definition sA : stream := {| s_pos := 60; s_end := 63; s_rest := skipn 60 text0 |}.   (* "&e;" of b='x&e;' *)
Definition sT : stream := {| s_pos := 66; s_end := 69; s_rest := skipn 66 text0 |}.   (* "&e;" of t&e; *)

Example nv_norm_attr_entity_step :
  at_end sA = false /\ curr_byte_unchecked sA = Ok 38 /\
  exists name s1 e ld1 ld2,
    consume_reference text0 sA = Ok (Some (RefEntity name, s1)) /\
    find_entity text0 (c_entities cD) (slice_bytes text0 name) = Some e /\
    inc_references text0 s1 ld_init = Ok ld1 /\ inc_depth text0 s1 ld1 = Ok ld2.
Proof.
  split; [reflexivity|]. split; [reflexivity|]. do 5 eexists.
  split; [vm_compute; reflexivity|]. split; [vm_compute; reflexivity|]. split; vm_compute; reflexivity.
Qed.

Example nv_text_loop_entity_step :
  at_end sT = false /\
  exists value s1, parse_next_chunk text0 sT (c_entities cD) = Ok (ChText value, s1) /\
                   slice_bytes text0 value = b "v".
Proof. split; [reflexivity|]. do 2 eexists. split; vm_compute; reflexivity. Qed.
