(* Proofs/CstNsView.v -- C06: the namespace-aware view of a parsed document, as the list of its
   nodes below the Root in document (id) order.  Definitions only.  [None] if an index into the
   namespace table dangles. *)
From Coq Require Import List NArith Bool.
Import ListNotations.
From RX.Model Require Import Base Stream Tokenizer Doc Builder.
From RX.Spec Require Scope CstNs.
From RX.Proofs Require ScopeProofs.
Open Scope N_scope.

Definition children_count (d : document) (id : N) : nat :=
  length (filter (fun nd => match nd_parent nd with Some p => p =? id | None => false end) (d_nodes d)).

(* the namespace URI an index of the namespace table stands for *)
Definition ns_uri_opt (text : bytes) (d : document) (i : option N) : option (option bytes) :=
  match i with
  | None => Some None
  | Some i => match nth_N (d_ns_values d) i with
              | Some v => Some (Some (storage_bytes text (ns_uri v)))
              | None => None
              end
  end.

Fixpoint opt_all {A} (l : list (option A)) : option (list A) :=
  match l with
  | [] => Some []
  | Some x :: r => match opt_all r with Some r' => Some (x :: r') | None => None end
  | None :: _ => None
  end.

Definition attrs_of (text : bytes) (d : document) (r : range) : option (list (option bytes * bytes * bytes)) :=
  opt_all (map (fun a => match ns_uri_opt text d (ad_ns_idx a) with
                         | Some u => Some (u, slice_bytes text (ad_local a), storage_bytes text (ad_value a))
                         | None => None
                         end)
               (firstn (N.to_nat (snd r - fst r)) (skipn (N.to_nat (fst r)) (d_attrs d)))).

(* Node::namespaces(): the (prefix, uri) pairs of the element's range of the namespace table *)
Definition scope_at (text : bytes) (d : document) (nss : range) : option (list Scope.binding) :=
  ScopeProofs.bindings_of text d nss.

Definition view_node (text : bytes) (d : document) (id : N) (nd : node_data) : option (option CstNs.vnode) :=
  match nd_kind nd with
  | KRoot => Some None
  | KElement ns local ar nss =>
    match ns_uri_opt text d ns, attrs_of text d ar, scope_at text d nss with
    | Some u, Some attrs, Some sc =>
      Some (Some (CstNs.VElem u (slice_bytes text local) attrs sc (children_count d id)))
    | _, _, _ => None
    end
  | KPI target value =>
    Some (Some (CstNs.VPI (slice_bytes text target)
                          (match value with Some v => Some (slice_bytes text v) | None => None end)))
  | KComment s => Some (Some (CstNs.VComment (slice_bytes text s)))
  | KText st => Some (Some (CstNs.VText (storage_bytes text st)))
  end.

Fixpoint view_from (text : bytes) (d : document) (id : N) (l : list node_data) : option (list CstNs.vnode) :=
  match l with
  | [] => Some []
  | nd :: r =>
    match view_node text d id nd, view_from text d (id + 1) r with
    | Some (Some v), Some vs => Some (v :: vs)
    | Some None, Some vs => Some vs
    | _, _ => None
    end
  end.

Definition view (text : bytes) (d : document) : option (list CstNs.vnode) := view_from text d 0 (d_nodes d).
